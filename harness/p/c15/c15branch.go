package c15

// c15branch (round 7) — BRANCHING histories on the real heap.
//
// c15hist / c15seq run linear chains: every operation is applied to the newest result and the receiver is never looked
// at again. The operations of types.Project are documented as returning a NEW project and leaving the receiver alone
// (each starts with deepCopy); the model's operations are value-typed functions (Props/C15Branch.lean: a branching
// history is nothing but a family of independent linear histories, `tree_is_paths`). This stream makes the real code
// answer for that: it keeps EVERY project ever produced (value 0 = the starting project, value i = the result of the
// i-th successful step), applies each further operation to a randomly chosen EARLIER value, and after every step checks
// on ALL values produced so far
//
//   * the partition invariant (Services ∩ DisabledServices = ∅, Services ∪ DisabledServices = the declared services), and
//   * "unchanged since it was produced": the deep observation taken when the value was created still describes it
//     (an operation on a receiver must not write into the receiver, into its other descendants or into its ancestors).
//
// Starting projects: hand-built with nil DisabledServices, hand-built with an EMPTY NON-NIL DisabledServices,
// WithProfiles results (the empty map WithProfiles leaves when nothing is filtered out), and projects produced by
// loader.LoadWithContext from a file (what every caller of the library starts from).
// The path of one value (root → value) is replayed by the model (driver op c15seq: `run init path`), so the branching
// run is tied to the same model as the linear streams.

import (
	"context"
	"encoding/json"
	"fmt"
	"os"
	"path/filepath"
	"sort"
	"strings"
	"time"

	"github.com/compose-spec/compose-go/v2/loader"
	"github.com/compose-spec/compose-go/v2/types"

	"verifharness/core"
)

type c15BrStep struct {
	On int   `json:"on"` // index of the value the operation is applied to, taken modulo the number of values so far
	Op c15Op `json:"op"`
}

type c15BranchArgs struct {
	Root  string                `json:"root"` // built | profiles | loaded
	Init  c15State              `json:"init"` // built / profiles: the hand-built project (Disabled nil → nil map, {} → empty non-nil map)
	P     []string              `json:"P"`    // profiles: value 0 = Build(init).WithProfiles(P); loaded: Options.Profiles
	Svcs  map[string]c15LoadSvc `json:"svcs,omitempty"`
	Steps []c15BrStep           `json:"steps"`
	Probe int                   `json:"probe"` // the value whose path the model replays (modulo the number of values)
}

type c15BranchOut struct {
	Init     c15State `json:"init"`     // observation of value 0
	Path     []c15Op  `json:"path"`     // the operations from value 0 to the probed value
	Final    c15State `json:"final"`    // observation of the probed value (taken at the end)
	Values   int      `json:"values"`   // number of values produced
	Errs     int      `json:"errs"`     // operations that returned "no such service"
	EmptyMap bool     `json:"emptyMap"` // value 0 has an empty, non-nil DisabledServices
	Forks    int      `json:"forks"`    // steps applied to a value that already had been a receiver or was not the newest
	Broken   string   `json:"broken,omitempty"`
	Changed  string   `json:"changed,omitempty"`
	Other    string   `json:"other,omitempty"`
	Panic    string   `json:"panic,omitempty"`
	Msg      string   `json:"msg,omitempty"`
	Bad      string   `json:"bad,omitempty"`
}

func c15BranchRoot(a c15BranchArgs) (*types.Project, func(), error) {
	switch a.Root {
	case "built":
		return c15Build(a.Init), func() {}, nil
	case "profiles":
		p, err := c15Build(a.Init).WithProfiles(a.P)
		return p, func() {}, err
	case "loaded":
		root, err := core.Materialize(map[string]string{"compose.yaml": c15LoadYaml(c15LoadArgs{Svcs: a.Svcs})})
		clean := func() {
			if root != "" {
				os.RemoveAll(root)
			}
		}
		if err != nil {
			return nil, clean, err
		}
		p, err := loader.LoadWithContext(context.Background(), types.ConfigDetails{WorkingDir: root,
			ConfigFiles: []types.ConfigFile{{Filename: filepath.Join(root, "compose.yaml")}}, Environment: map[string]string{}},
			func(o *loader.Options) {
				o.SetProjectName("c15", true)
				o.Profiles = a.P
				o.SkipConsistencyCheck = true
			})
		return p, clean, err
	}
	return nil, func() {}, fmt.Errorf("harness: unknown root %q", a.Root)
}

func c15RealBranch(raw json.RawMessage) (res any) {
	var a c15BranchArgs
	if err := json.Unmarshal(raw, &a); err != nil {
		return c15BranchOut{Bad: err.Error()}
	}
	out := c15BranchOut{Path: []c15Op{}}
	defer func() {
		if r := recover(); r != nil {
			out.Panic, out.Msg = core.PanicSite(), fmt.Sprint(r)
			res = out
		}
	}()
	p0, clean, err := c15BranchRoot(a)
	defer clean()
	if err != nil {
		out.Bad = "root: " + err.Error()
		return out
	}
	out.EmptyMap = p0.DisabledServices != nil && len(p0.DisabledServices) == 0
	declared := append(c15KeySet(p0.Services), c15KeySet(p0.DisabledServices)...)
	sort.Strings(declared)

	values := []*types.Project{p0}
	snaps := []c15State{c15Extract(p0)}
	origin := []string{"the starting project"}
	parent := []int{-1}
	via := []c15Op{{}}
	used := []bool{false}
	out.Init = snaps[0]

	// check: every value produced so far is still a partition and still what it was when it was produced
	check := func(after string) bool {
		for i, v := range values {
			if b := c15PartitionOf(v, declared); b != "" && out.Broken == "" {
				out.Broken = fmt.Sprintf("value #%d (%s), looked at %s: %s", i, origin[i], after, b)
			}
			if d := c15Diff(snaps[i], c15Extract(v)); d != "" && out.Changed == "" {
				out.Changed = fmt.Sprintf("value #%d (%s) is no longer what it was when it was produced, looked at %s: differs in %s", i, origin[i], after, d)
			}
		}
		return out.Broken == "" && out.Changed == ""
	}
	if !check("before any step") {
		return out
	}
	for i, st := range a.Steps {
		on := st.On % len(values)
		if on < 0 {
			on += len(values)
		}
		what := fmt.Sprintf("step %d = value #%d.%s(%v %s)", i, on, c15Func(st.Op), st.Op.Names, st.Op.Pol)
		if used[on] || on != len(values)-1 {
			out.Forks++
		}
		used[on] = true
		q, err := c15Apply(values[on], st.Op)
		if err != nil {
			if c := c15ErrClass(err); strings.HasPrefix(c, "other:") {
				out.Other = what + ": " + c
				return out
			}
			out.Errs++
		} else {
			values = append(values, q)
			snaps = append(snaps, c15Extract(q))
			origin = append(origin, "result of "+what)
			parent = append(parent, on)
			via = append(via, st.Op)
			used = append(used, false)
		}
		if !check("after " + what) {
			return out
		}
	}
	out.Values = len(values)
	probe := a.Probe % len(values)
	if probe < 0 {
		probe += len(values)
	}
	for j := probe; j > 0; j = parent[j] {
		out.Path = append([]c15Op{via[j]}, out.Path...)
	}
	out.Final = c15Extract(values[probe])
	return out
}

func c15BranchDriverArgs(_, real json.RawMessage) any {
	var r struct {
		Init  json.RawMessage `json:"init"`
		Path  json.RawMessage `json:"path"`
		Final json.RawMessage `json:"final"`
	}
	json.Unmarshal(real, &r)
	return map[string]any{"init": r.Init, "ops": r.Path, "final": r.Final}
}

var c15BranchCtx *core.Ctx

func c15JudgeBranch(args, real, drv json.RawMessage) *core.Verdict {
	if v := core.CrashVerdict(real); v != nil {
		return v
	}
	var r c15BranchOut
	var d struct {
		Agree bool            `json:"agree"`
		Spec  []string        `json:"spec"`
		Model json.RawMessage `json:"model"`
	}
	if json.Unmarshal(real, &r) != nil || r.Path == nil {
		return core.Disagree("malformed real outcome: " + string(real))
	}
	if r.Bad != "" {
		return core.Disagree("harness: " + r.Bad)
	}
	if r.Panic != "" {
		return core.Fail("panic@"+r.Panic, r.Msg)
	}
	if r.Other != "" {
		return core.Fail("unexpected-error:branching-history", r.Other)
	}
	if r.Changed != "" {
		return core.Fail("branching:receiver-or-earlier-result-changed", r.Changed)
	}
	if r.Broken != "" {
		return core.Fail("branching:partition-broken", r.Broken)
	}
	if c := c15BranchCtx; c != nil {
		c.Count(fmt.Sprintf("branch-root-emptyNonNilDisabled=%v", r.EmptyMap))
		f := r.Forks
		if f > 6 {
			f = 6
		}
		c.Count(fmt.Sprintf("branch-forks-%d%s", f, map[bool]string{true: "+", false: ""}[r.Forks > 6]))
		c.Count(fmt.Sprintf("branch-probe-path-len-%d", len(r.Path)))
	}
	if json.Unmarshal(drv, &d) != nil || d.Spec == nil {
		return core.Disagree("malformed driver outcome: " + string(drv))
	}
	for _, c := range d.Spec {
		if strings.HasPrefix(c, "skipped:") {
			continue
		}
		return core.Fail("spec:branching:"+c, fmt.Sprintf("after the path %v the probed value violates clause %q", r.Path, c))
	}
	if !d.Agree {
		return core.Disagree(fmt.Sprintf("branching history: the probed value is not `run init path` for its path %v (model: %s)", r.Path, string(d.Model)))
	}
	return nil
}

func c15GenBranch(ctx *core.Ctx) {
	c15BranchCtx = ctx
	r := ctx.Rng
	randSteps := func(all []string, n int) []c15BrStep {
		var steps []c15BrStep
		for j := 0; j < n; j++ {
			o, kind := c15RandOp(r, all, false)
			ctx.Count("branch-" + kind)
			// a third of the steps continue from the newest value (large index), the others go back to any earlier one
			on := r.Intn(1 << 20)
			switch r.Intn(3) {
			case 0:
				on = -1 // newest
			case 1:
				on = 0 // the starting project again
			}
			steps = append(steps, c15BrStep{On: on, Op: o})
		}
		return steps
	}
	profs := func() []string {
		ps := c15Pick(r, []string{"p", "q", "r"}, 0.3)
		if r.Intn(6) == 0 {
			ps = append(ps, "*")
		}
		return ps
	}
	for i := 0; i < ctx.Pick(4000, 50000); i++ {
		st, all := c15RandProject(r, false)
		n := 3 + r.Intn(8)
		a := c15BranchArgs{Init: st, Steps: randSteps(all, n), Probe: r.Intn(1 << 20)}
		switch r.Intn(4) {
		case 0: // hand-built, as the generator made it (nil or non-empty DisabledServices)
			a.Root = "built"
		case 1: // hand-built, everything enabled, DisabledServices nil or empty-non-nil
			a.Root = "built"
			for k, s := range a.Init.Disabled {
				a.Init.Services[k] = s
			}
			a.Init.Disabled = nil
			if r.Intn(2) == 0 {
				a.Init.Disabled = map[string]c15Svc{}
			}
		default: // what WithProfiles leaves (often: nothing filtered out, an empty non-nil map)
			a.Root, a.P = "profiles", profs()
		}
		ctx.Count("branch-root-" + a.Root)
		ctx.Add("c15branch", a)
	}
	// loader-produced starting projects
	names := []string{"a", "b", "c", "d"}
	for i := 0; i < ctx.Pick(1200, 15000); i++ {
		k := 2 + r.Intn(3)
		svcs := map[string]c15LoadSvc{}
		for j := 0; j < k; j++ {
			s := c15LoadSvc{Deps: map[string]bool{}}
			if r.Intn(4) == 0 {
				s.Profiles = c15Pick(r, []string{"p", "q"}, 0.5)
			}
			for l := 0; l < j; l++ { // acyclic: only towards earlier names
				if r.Intn(3) == 0 {
					s.Deps[names[l]] = r.Intn(4) != 0
				}
			}
			svcs[names[j]] = s
		}
		a := c15BranchArgs{Root: "loaded", Svcs: svcs, P: profs(), Steps: randSteps(names[:k], 3+r.Intn(6)), Probe: r.Intn(1 << 20)}
		ctx.Count("branch-root-loaded")
		ctx.Add("c15branch", a)
	}
}

func init() {
	core.RegisterProp("C15BRANCH", func(ctx *core.Ctx) { c15GenBranch(ctx); ctx.Wait() }) // `harness -prop C15BRANCH`: this stream alone (development)
	core.Register("c15branch", &core.CheckDef{Real: c15RealBranch, DriverOp: "c15seq", DriverArgs: c15BranchDriverArgs, Judge: c15JudgeBranch, Timeout: 60 * time.Second})
}
