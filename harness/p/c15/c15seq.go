package c15

// c15seq (round 6) — sequence streams: random operation lists of length 6–14 applied by the real types.Project methods.
//
//   * after EVERY step, on the real heap: Services ∩ DisabledServices = ∅ and Services ∪ DisabledServices = the services
//     the project started with (partition_inv / history_conserved / load_then_history);
//   * the final project is compared exactly with the model's `run init ops` (driver op c15seq), which also decides
//     `Conserved init final` and `ProfilesOK`;
//   * on the final project the composition theorems of Props/C15Comp.lean and Props/C15.lean are executed on the real code:
//     profiles_absorbs_history (+ _disabled), profiles_idempotent, disable_idempotent, disable_names_order_free,
//     disable_disable, select_idempotent, enable_undoes_disable.

import (
	"encoding/json"
	"fmt"
	"reflect"
	"sort"
	"strings"
	"time"

	"github.com/compose-spec/compose-go/v2/types"

	"verifharness/core"
)

type c15SeqArgs struct {
	Init    c15State `json:"init"`
	Ops     []c15Op  `json:"ops"`
	P       []string `json:"P"`       // the profile list of the WithProfiles compositions
	Names   []string `json:"names"`   // the names of the disable / select / enable compositions
	Shuffle []string `json:"shuffle"` // the same set of names in another order, with repetitions
	Pol     string   `json:"pol"`
}

type c15SeqOut struct {
	Final  c15State `json:"final"`
	Errs   int      `json:"errs"`             // operations of the history that returned "no such service"
	Broken string   `json:"broken,omitempty"` // first step after which the partition invariant fails
	Comp   []string `json:"comp"`             // composition laws that fail on the real code ("law: detail")
	Ran    []string `json:"ran"`              // composition laws that were executed (hypotheses met)
	Other  string   `json:"other,omitempty"`
	Panic  string   `json:"panic,omitempty"`
	Msg    string   `json:"msg,omitempty"`
}

func c15KeySet(m types.Services) []string {
	l := []string{}
	for k := range m {
		l = append(l, k)
	}
	sort.Strings(l)
	return l
}

// c15ProfilesOK: every enabled service is active under the recorded profile list (decided here, not by HasProfile)
func c15ProfilesOK(p *types.Project) bool {
	for _, s := range p.Services {
		act := len(s.Profiles) == 0
		for _, y := range p.Profiles {
			act = act || y == "*"
			for _, x := range s.Profiles {
				act = act || x == y
			}
		}
		if !act {
			return false
		}
	}
	return true
}

func c15PartitionOf(p *types.Project, declared []string) string {
	all := []string{}
	for k := range p.Services {
		if _, dup := p.DisabledServices[k]; dup {
			return fmt.Sprintf("service %q is enabled and disabled at once", k)
		}
		all = append(all, k)
	}
	for k := range p.DisabledServices {
		all = append(all, k)
	}
	sort.Strings(all)
	if !reflect.DeepEqual(all, declared) {
		return fmt.Sprintf("Services ∪ DisabledServices = %v, declared %v", all, declared)
	}
	return ""
}

func c15RealSeq(raw json.RawMessage) (res any) {
	var a c15SeqArgs
	if err := json.Unmarshal(raw, &a); err != nil {
		return map[string]any{"bad": err.Error()}
	}
	out := c15SeqOut{Comp: []string{}, Ran: []string{}}
	defer func() {
		if r := recover(); r != nil {
			out.Panic, out.Msg = core.PanicSite(), fmt.Sprint(r)
			res = out
		}
	}()
	p0 := c15Build(a.Init)
	declared := append(c15KeySet(p0.Services), c15KeySet(p0.DisabledServices)...)
	sort.Strings(declared)
	cur := p0
	for i, op := range a.Ops {
		q, err := c15Apply(cur, op)
		if err != nil {
			if c := c15ErrClass(err); strings.HasPrefix(c, "other:") {
				out.Other = fmt.Sprintf("step %d (%s): %s", i, c15Func(op), c)
				return out
			}
			out.Errs++
			continue
		}
		cur = q
		if b := c15PartitionOf(cur, declared); b != "" && out.Broken == "" {
			out.Broken = fmt.Sprintf("after step %d (%s %v %s): %s", i, op.Op, op.Names, op.Pol, b)
		}
	}
	out.Final = c15Extract(cur)
	law := func(name string, ok bool, detail string) {
		out.Ran = append(out.Ran, name)
		if !ok {
			out.Comp = append(out.Comp, name+": "+detail)
		}
	}
	same := func(x, y *types.Project) string { return c15Diff(c15Extract(x), c15Extract(y)) }

	// WithProfiles forgets the history (profiles_absorbs_history), and is idempotent (profiles_idempotent)
	a1, e1 := cur.WithProfiles(a.P)
	a0, e0 := p0.WithProfiles(a.P)
	if e1 == nil && e0 == nil {
		law("WithProfiles:absorbs-history", reflect.DeepEqual(c15KeySet(a1.Services), c15KeySet(a0.Services)) &&
			reflect.DeepEqual(c15KeySet(a1.DisabledServices), c15KeySet(a0.DisabledServices)),
			fmt.Sprintf("after the history WithProfiles(%v) enables %v, before it %v", a.P, c15KeySet(a1.Services), c15KeySet(a0.Services)))
		if a2, e2 := a1.WithProfiles(a.P); e2 == nil {
			law("WithProfiles:idempotent", same(a1, a2) == "", "applied twice differs in "+same(a1, a2))
		}
	}
	// WithServicesDisabled: idempotent, enabled half independent of the order / repetition of the names, two calls = one
	d1 := cur.WithServicesDisabled(a.Names...)
	d2 := d1.WithServicesDisabled(a.Names...)
	law("WithServicesDisabled:idempotent", same(d1, d2) == "", "applied twice differs in "+same(d1, d2))
	d3 := cur.WithServicesDisabled(a.Shuffle...)
	law("WithServicesDisabled:names-order", reflect.DeepEqual(c15Extract(d1).Services, c15Extract(d3).Services),
		fmt.Sprintf("the enabled services after disabling %v and %v differ", a.Names, a.Shuffle))
	if len(a.Names) >= 2 {
		h := len(a.Names) / 2
		d4 := cur.WithServicesDisabled(a.Names[:h]...).WithServicesDisabled(a.Names[h:]...)
		law("WithServicesDisabled:two-calls", same(d1, d4) == "", "split in two calls differs in "+same(d1, d4))
	}
	// WithServicesEnabled is idempotent on a project whose enabled services are active (enable_idempotent)
	if c15ProfilesOK(cur) {
		if g1, err := cur.WithServicesEnabled(a.Names...); err == nil {
			if g2, err2 := g1.WithServicesEnabled(a.Names...); err2 == nil {
				law("WithServicesEnabled:idempotent", same(g1, g2) == "", "applied twice differs in "+same(g1, g2))
			}
		}
	}
	// WithSelectedServices is idempotent on success (select_idempotent)
	if len(a.Names) > 0 {
		opt := c15Opt(a.Pol)
		if s1, err := cur.WithSelectedServices(a.Names, opt); err == nil {
			s2, err2 := s1.WithSelectedServices(a.Names, opt)
			if err2 != nil {
				law("WithSelectedServices:idempotent", false, "the second selection fails: "+err2.Error())
			} else {
				law("WithSelectedServices:idempotent", same(s1, s2) == "", "applied twice differs in "+same(s1, s2))
			}
			// selection, then WithProfiles: the pruned services come back as the profile rule says (profiles_after_select)
			if b1, e := s1.WithProfiles(a.P); e == nil && e0 == nil {
				law("WithProfiles:after-select", reflect.DeepEqual(c15KeySet(b1.Services), c15KeySet(a0.Services)),
					fmt.Sprintf("select %v then WithProfiles(%v) enables %v, WithProfiles alone %v", a.Names, a.P, c15KeySet(b1.Services), c15KeySet(a0.Services)))
			}
		}
	}
	// disable, then select ⊆ select (disable_then_select_subset): disabling first can only shrink a selection
	if len(a.Names) > 0 && len(a.Shuffle) > 0 {
		ns := a.Shuffle[len(a.Shuffle)-1:]
		opt := c15Opt(a.Pol)
		for _, names := range [][]string{a.Names, c15KeySet(cur.Services)[:(len(cur.Services)+1)/2]} {
			if len(names) == 0 {
				continue
			}
			t2, err2 := cur.WithSelectedServices(names, opt)
			t1, err1 := cur.WithServicesDisabled(ns...).WithSelectedServices(names, opt)
			if err1 == nil && err2 == nil {
				ok := true
				for k := range t1.Services {
					_, in := t2.Services[k]
					ok = ok && in && k != ns[0]
				}
				law("WithSelectedServices:after-disable-subset", ok, fmt.Sprintf("disable %v then select %v keeps %v, select alone keeps %v", ns, names, c15KeySet(t1.Services), c15KeySet(t2.Services)))
			}
		}
	}
	return out
}

func c15SeqDriverArgs(args, real json.RawMessage) any {
	var a c15SeqArgs
	var r struct {
		Final json.RawMessage `json:"final"`
	}
	json.Unmarshal(args, &a)
	json.Unmarshal(real, &r)
	return map[string]any{"init": a.Init, "ops": a.Ops, "final": r.Final}
}

var c15SeqCtx *core.Ctx

func c15JudgeSeq(args, real, drv json.RawMessage) *core.Verdict {
	if v := core.CrashVerdict(real); v != nil {
		return v
	}
	var a c15SeqArgs
	var r c15SeqOut
	var d struct {
		Agree bool            `json:"agree"`
		Spec  []string        `json:"spec"`
		Model json.RawMessage `json:"model"`
	}
	if json.Unmarshal(args, &a) != nil || json.Unmarshal(real, &r) != nil || r.Ran == nil {
		return core.Disagree("malformed real outcome: " + string(real))
	}
	if r.Panic != "" {
		return core.Fail("panic@"+r.Panic, r.Msg)
	}
	if r.Other != "" {
		return core.Fail("unexpected-error:history", r.Other)
	}
	if r.Broken != "" {
		return core.Fail("history:partition-broken", r.Broken)
	}
	if c15SeqCtx != nil {
		for _, l := range r.Ran {
			c15SeqCtx.Count("seq-law:" + l)
		}
		c15SeqCtx.Count(fmt.Sprintf("seq-failed-ops-%d", r.Errs))
	}
	for _, c := range r.Comp {
		name := strings.SplitN(c, ":", 3)
		return core.Fail("comp:"+name[0]+":"+name[1], c)
	}
	if json.Unmarshal(drv, &d) != nil || d.Spec == nil {
		return core.Disagree("malformed driver outcome: " + string(drv))
	}
	for _, c := range d.Spec {
		if strings.HasPrefix(c, "skipped:") {
			continue
		}
		return core.Fail("spec:history:"+c, fmt.Sprintf("after the history %v the project violates clause %q", a.Ops, c))
	}
	if !d.Agree {
		return core.Disagree(fmt.Sprintf("history of %d operations: the final project is not `run init ops` (model: %s)", len(a.Ops), string(d.Model)))
	}
	return nil
}

func c15GenSeq(ctx *core.Ctx) {
	c15SeqCtx = ctx
	r := ctx.Rng
	for i := 0; i < ctx.Pick(6000, 80000); i++ {
		st, all := c15RandProject(r, false)
		n := 6 + r.Intn(9)
		var ops []c15Op
		for j := 0; j < n; j++ {
			o, kind := c15RandOp(r, all, false)
			ctx.Count("seq-" + kind)
			ops = append(ops, o)
		}
		names := c15RandNames(r, all, false)
		sh := append([]string{}, names...)
		r.Shuffle(len(sh), func(x, y int) { sh[x], sh[y] = sh[y], sh[x] })
		if len(sh) > 0 && r.Intn(2) == 0 {
			sh = append(sh, sh[r.Intn(len(sh))])
		}
		ps := c15Pick(r, []string{"p", "q", "r"}, 0.4)
		if r.Intn(8) == 0 {
			ps = append(ps, "*")
		}
		ctx.Count(fmt.Sprintf("seq-len-%02d", n))
		ctx.Add("c15seq", c15SeqArgs{Init: st, Ops: ops, P: ps, Names: names, Shuffle: sh, Pol: []string{"deps", "dependents", "ignore"}[r.Intn(3)]})
	}
}

func init() {
	core.RegisterProp("C15SEQ", func(ctx *core.Ctx) { c15GenSeq(ctx); ctx.Wait() }) // `harness -prop C15SEQ`: this stream alone (development)
	core.Register("c15seq", &core.CheckDef{Real: c15RealSeq, DriverOp: "c15seq", DriverArgs: c15SeqDriverArgs, Judge: c15JudgeSeq, Timeout: 60 * time.Second})
}
