package c15

// c15envtail — the environment tail of WithServicesEnabled on services WITH env files.
//
// Model/Select.lean models the tail for services without env_file; what an env file contributes (formats, dotenv
// syntax, interpolation, lookup chain, missing files) is the subject of C16 (Model/EnvLayers.lean, proved and tied to
// Project.WithServicesEnvironmentResolved there).  This oracle ties WithServicesEnabled to that function on the real
// code, with real files:   WithServicesEnabled(names)  ==  WithProfiles(P).WithServicesEnvironmentResolved(true)
// where P is the profile list of Spec/Select.lean (Profiles ++ profiles of the named services that are disabled),
// including the error when a required file is missing (the whole operation fails), plus the two clauses of the
// property that involve env files: enabled services come back with EnvFiles discarded, disabled services are not touched.

import (
	"encoding/json"
	"fmt"
	"math/rand"
	"os"
	"path/filepath"
	"reflect"
	"strings"

	"github.com/compose-spec/compose-go/v2/types"

	"verifharness/core"
)

type c15EnvFile struct {
	Path     string `json:"path"`
	Required bool   `json:"required"`
}

type c15EnvArgs struct {
	Init     c15State                `json:"init"`
	Files    map[string]string       `json:"files"`     // relative path → content
	EnvFiles map[string][]c15EnvFile `json:"env_files"` // service key → its env_file list
	Names    []string                `json:"names"`
}

func c15RealEnvTail(raw json.RawMessage) any {
	var a c15EnvArgs
	if err := json.Unmarshal(raw, &a); err != nil {
		return map[string]any{"bad": err.Error()}
	}
	root, err := os.MkdirTemp(os.Getenv("VERIF_SCRATCH"), "c15env-")
	if err != nil {
		return map[string]any{"bad": err.Error()}
	}
	defer os.RemoveAll(root)
	for rel, content := range a.Files {
		if err := os.WriteFile(filepath.Join(root, rel), []byte(content), 0o644); err != nil {
			return map[string]any{"bad": err.Error()}
		}
	}
	p := c15Build(a.Init)
	attach := func(m types.Services) {
		for k, l := range a.EnvFiles {
			s, ok := m[k]
			if !ok {
				continue
			}
			for _, f := range l {
				s.EnvFiles = append(s.EnvFiles, types.EnvFile{Path: filepath.Join(root, f.Path), Required: f.Required})
			}
			m[k] = s
		}
	}
	attach(p.Services)
	attach(p.DisabledServices)
	clean := func(e error) string {
		if e == nil {
			return ""
		}
		return strings.ReplaceAll(e.Error(), root, "$ROOT")
	}

	got, gerr := p.WithServicesEnabled(a.Names...)

	// the composition the property prescribes
	var want *types.Project
	var werr error
	if len(a.Names) == 0 {
		want = types.VerifDeepCopy(p)
	} else {
		P := append([]string{}, p.Profiles...)
		for _, n := range a.Names {
			if _, ok := p.Services[n]; ok {
				continue
			}
			P = append(P, p.DisabledServices[n].Profiles...)
		}
		q0, e := p.WithProfiles(P)
		if e != nil {
			return map[string]any{"bad": "WithProfiles failed: " + e.Error()}
		}
		want, werr = q0.WithServicesEnvironmentResolved(true)
	}
	out := map[string]any{"got_err": clean(gerr), "want_err": clean(werr)}
	if (gerr == nil) != (werr == nil) || clean(gerr) != clean(werr) {
		out["what"] = "error-mismatch"
		return out
	}
	if gerr != nil {
		out["what"] = ""
		out["class"] = "err"
		return out
	}
	switch {
	case !reflect.DeepEqual(got, want):
		out["what"] = "result-differs"
	default:
		out["what"] = ""
		if len(a.Names) > 0 {
			for k, s := range got.Services {
				if s.EnvFiles != nil {
					out["what"] = "envfiles-kept:" + k
				}
			}
			all := p.AllServices()
			for k, s := range got.DisabledServices {
				if !reflect.DeepEqual(s, all[k]) {
					out["what"] = "disabled-touched:" + k
				}
			}
		}
	}
	return out
}

func c15JudgeEnvTail(args, real, _ json.RawMessage) *core.Verdict {
	if v := core.CrashVerdict(real); v != nil {
		return v
	}
	var r struct {
		Bad     string `json:"bad"`
		What    string `json:"what"`
		GotErr  string `json:"got_err"`
		WantErr string `json:"want_err"`
	}
	if json.Unmarshal(real, &r) != nil {
		return core.Disagree("malformed real outcome")
	}
	if r.Bad != "" {
		return core.Disagree("harness: " + r.Bad)
	}
	if r.What == "" {
		return nil
	}
	key := r.What
	if i := strings.Index(key, ":"); i >= 0 {
		key = key[:i]
	}
	return core.Fail("envtail:WithServicesEnabled:"+key,
		fmt.Sprintf("WithServicesEnabled on services with env files is not WithProfiles followed by WithServicesEnvironmentResolved(true): %s (got error %q, composition gives %q)", r.What, r.GotErr, r.WantErr))
}

func init() {
	core.Register("c15envtail", &core.CheckDef{Real: c15RealEnvTail, Judge: c15JudgeEnvTail})
}

var c15EnvPool = map[string]string{
	"a.env":    "A=fileA\nB=${A}-x\n",
	"b.env":    "C=fileC\nA=second\n",
	"bare.env": "A\nD=${C:-dflt}\nE=${PROJ:-none}\n",
}

func c15GenEnvTail(ctx *core.Ctx, r *rand.Rand, n int) {
	paths := []string{"a.env", "b.env", "bare.env", "missing.env"}
	for i := 0; i < n; i++ {
		st, all := c15RandProject(r, false)
		if r.Intn(2) == 0 {
			st.Environment["PROJ"] = "proj"
		}
		a := c15EnvArgs{Init: st, Files: c15EnvPool, EnvFiles: map[string][]c15EnvFile{}, Names: c15RandNames(r, all, false)}
		missingRequired := false
		for _, k := range all {
			if r.Intn(2) == 0 {
				continue
			}
			var l []c15EnvFile
			for j := 0; j < 1+r.Intn(2); j++ {
				f := c15EnvFile{Path: paths[r.Intn(len(paths))], Required: r.Intn(3) != 0}
				if f.Path == "missing.env" && r.Intn(3) != 0 {
					f.Required = false // mostly optional: a required missing file makes the whole call fail
				}
				missingRequired = missingRequired || (f.Path == "missing.env" && f.Required)
				l = append(l, f)
			}
			a.EnvFiles[k] = l
		}
		switch {
		case len(a.Names) == 0:
			ctx.Count("envtail-no-name")
		case missingRequired:
			ctx.Count("envtail-required-file-missing")
		default:
			ctx.Count("envtail")
		}
		ctx.Add("c15envtail", a)
	}
}
