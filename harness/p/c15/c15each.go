package c15

// c15each (round 5) — ForEachService itself and the accessors of the partition, on one real project.
//
//   - ForEachService(names, fn, options...) is called directly (WithSelectedServices always passes exactly one
//     option): no option (the "backward compatibility" default), one option, several options (the last wins).
//     fn records the names it is called with; the Lean driver decides Spec/Select.lean ForEachSpec on the REAL
//     callback sequence (each service of the closure once; what a service pulls in is called before it, unless the two
//     lie on a dependency cycle) and compares outcome and call set with the model Model/Select.lean forEachCalls.
//   - direct clauses on the real heap: the *ServiceConfig handed to fn is a copy of the enabled service filed under that
//     name, mutating it does not reach the project, ForEachService leaves its receiver unchanged, an error returned by
//     fn stops the walk at once and is the error returned.
//   - accessors compared exactly with the model: ServiceNames, DisabledServiceNames, GetService (ErrDisabled /
//     ErrNotFound), GetServices, GetDisabledService, GetDependentsForService, ServiceConfig.GetDependents, AllServices.

import (
	"encoding/json"
	"errors"
	"fmt"
	"reflect"
	"sort"
	"strings"
	"sync/atomic"
	"time"

	"github.com/compose-spec/compose-go/v2/errdefs"
	"github.com/compose-spec/compose-go/v2/types"

	"verifharness/core"
)

type c15EachArgs struct {
	Init   c15State `json:"init"`
	Names  []string `json:"names"`
	Opts   []string `json:"opts"` // deps | dependents | ignore, in call order; none = ForEachService without option
	Gets   []string `json:"gets"` // argument list of GetServices
	FailAt int      `json:"fail_at"` // fn fails at its FailAt-th call (0-based); < 0: never
}

func c15Opt(s string) types.DependencyOption {
	switch s {
	case "dependents":
		return types.IncludeDependents
	case "ignore":
		return types.IgnoreDependencies
	}
	return types.IncludeDependencies
}

var errC15Stop = errors.New("c15: fn says stop")

type c15EachOut struct {
	Calls []string `json:"calls"`
	Err   string   `json:"werr"`
	// direct clauses, "" = fine
	Callback string `json:"callback"` // the service fn got differs from Services[name]
	Aliased  string `json:"aliased"`  // mutating the service fn got / running the walk changed the project
	FailProp string `json:"fail_prop"`

	ServiceNames  []string            `json:"serviceNames"`
	DisabledNames []string            `json:"disabledNames"`
	Get           map[string]string   `json:"get"`
	GetServices   map[string]any      `json:"getServices"`
	GetDisabled   map[string]bool     `json:"getDisabled"`
	Dependents    map[string][]string `json:"dependents"`
	GetDependents map[string][]string `json:"getDependents"`
	All           map[string]string   `json:"all"`
	ProfilesOf    []string            `json:"profilesOf"`    // Services.GetProfiles() of the enabled services
	ProfilesOfAll []string            `json:"profilesOfAll"` // … of AllServices()
	ProfilesVary  bool                `json:"profiles_vary"` // GetProfiles repeated on the same map returned the profiles in another order (an unordered list: counted, not a failure)
	Probe         []string            `json:"probe"`
}

func c15GetClass(err error) string {
	switch {
	case err == nil:
		return "ok"
	case errors.Is(err, errdefs.ErrDisabled):
		return "disabled"
	case errors.Is(err, errdefs.ErrNotFound):
		return "notFound"
	}
	return "other:" + err.Error()
}

func c15RealEach(raw json.RawMessage) any {
	var a c15EachArgs
	if err := json.Unmarshal(raw, &a); err != nil {
		return map[string]any{"bad": err.Error()}
	}
	p := c15Build(a.Init)
	snap := types.VerifDeepCopy(p)
	snapOK := reflect.DeepEqual(snap, p)
	var opts []types.DependencyOption
	for _, o := range a.Opts {
		opts = append(opts, c15Opt(o))
	}
	out := c15EachOut{Calls: []string{}}
	err := p.ForEachService(a.Names, func(name string, s *types.ServiceConfig) error {
		out.Calls = append(out.Calls, name)
		if cur, ok := p.Services[name]; !ok || s == nil || !reflect.DeepEqual(*s, cur) {
			out.Callback = name
		}
		if s != nil { // fn owns what it is handed: scribbling on it must not reach the project
			s.Image, s.Name = "mutated", "mutated"
			for k := range s.DependsOn {
				delete(s.DependsOn, k)
			}
			if s.DependsOn != nil {
				s.DependsOn["mutated"] = types.ServiceDependency{Required: true}
			}
			for i := range s.Profiles {
				s.Profiles[i] = "mutated"
			}
			for k := range s.Environment {
				s.Environment[k] = nil
			}
			for k := range s.Networks {
				delete(s.Networks, k)
			}
		}
		return nil
	}, opts...)
	if err != nil {
		out.Err = c15ErrClass(err)
	}
	if snapOK && !reflect.DeepEqual(snap, p) {
		out.Aliased = c15Diff(c15Extract(snap), c15Extract(p))
		if out.Aliased == "" {
			out.Aliased = "unobserved-fields"
		}
	}
	if err == nil && a.FailAt >= 0 && a.FailAt < len(out.Calls) {
		n := 0
		err2 := p.ForEachService(a.Names, func(string, *types.ServiceConfig) error {
			n++
			if n-1 == a.FailAt {
				return errC15Stop
			}
			return nil
		}, opts...)
		if !errors.Is(err2, errC15Stop) || n != a.FailAt+1 {
			out.FailProp = fmt.Sprintf("fn failed at call %d of %d: ForEachService returned %v after %d calls", a.FailAt, len(out.Calls), err2, n)
		}
	}

	// accessors
	out.ServiceNames, out.DisabledNames = nn(p.ServiceNames()), nn(p.DisabledServiceNames())
	seen := map[string]bool{}
	for _, m := range []types.Services{p.Services, p.DisabledServices} {
		for k := range m {
			seen[k] = true
		}
	}
	seen["zz"] = true
	for _, g := range a.Gets {
		seen[g] = true
	}
	for k := range seen {
		out.Probe = append(out.Probe, k)
	}
	sort.Strings(out.Probe)
	out.Get, out.GetDisabled = map[string]string{}, map[string]bool{}
	for _, k := range out.Probe {
		s, err := p.GetService(k)
		c := c15GetClass(err)
		if err == nil && !reflect.DeepEqual(s, p.Services[k]) {
			c = "ok-but-not-the-enabled-service"
		}
		out.Get[k] = c
		d, err := p.GetDisabledService(k)
		out.GetDisabled[k] = err == nil
		if err == nil && !reflect.DeepEqual(d, p.DisabledServices[k]) {
			out.Get[k] = "disabled-service-differs"
		}
	}
	if m, err := p.GetServices(a.Gets...); err != nil {
		out.GetServices = map[string]any{"err": c15GetClass(err)}
	} else {
		ok := map[string]string{}
		for k, s := range m {
			ok[k] = s.Image
		}
		out.GetServices = map[string]any{"ok": ok}
	}
	out.Dependents, out.GetDependents = map[string][]string{}, map[string][]string{}
	for k, s := range p.Services {
		out.Dependents[k] = nn(p.GetDependentsForService(s))
		l := nn(append([]string{}, s.GetDependents(p)...))
		sort.Strings(l)
		out.GetDependents[k] = l
	}
	out.All = map[string]string{}
	all := p.AllServices()
	for k, s := range all {
		out.All[k] = s.Image
	}
	// GetProfiles returns an unordered list (a reviewed order-leak site of C02): compared as a set, through its sorted view
	firstProfiles := nn(all.GetProfiles())
	for i := 0; i < 4 && !out.ProfilesVary; i++ {
		out.ProfilesVary = !reflect.DeepEqual(nn(all.GetProfiles()), firstProfiles)
	}
	out.ProfilesOf, out.ProfilesOfAll = nn(p.Services.GetProfiles()), firstProfiles
	sort.Strings(out.ProfilesOf)
	sort.Strings(out.ProfilesOfAll)
	return out
}

func c15EachDriverArgs(args, real json.RawMessage) any {
	var a c15EachArgs
	var r c15EachOut
	json.Unmarshal(args, &a)
	json.Unmarshal(real, &r)
	return map[string]any{"init": a.Init, "names": nn(a.Names), "opts": nn(a.Opts), "probe": nn(r.Probe), "gets": nn(a.Gets),
		"calls": nn(r.Calls), "err": r.Err}
}

var c15EachCtx *core.Ctx
var c15EachSpecSkipped atomic.Int64

func c15JudgeEach(args, real, drv json.RawMessage) *core.Verdict {
	if v := core.CrashVerdict(real); v != nil {
		return v
	}
	var a c15EachArgs
	var r c15EachOut
	var rm, dm map[string]json.RawMessage
	var d struct {
		Agree      bool     `json:"agree"`
		Spec       []string `json:"spec"`
		Branch     string   `json:"branch"`
		ModelErr   string   `json:"modelErr"`
		ModelCalls []string `json:"modelCalls"`
	}
	if json.Unmarshal(args, &a) != nil || json.Unmarshal(real, &r) != nil || json.Unmarshal(real, &rm) != nil || r.Get == nil {
		return core.Disagree("malformed real outcome")
	}
	if strings.HasPrefix(r.Err, "other:") {
		return core.Fail("unexpected-error:ForEachService", r.Err)
	}
	if r.Callback != "" {
		return core.Fail("foreach:callback-service-differs", fmt.Sprintf("ForEachService%v %v: fn(%q, s) got a service that differs from Services[%q]", a.Names, a.Opts, r.Callback, r.Callback))
	}
	if r.Aliased != "" {
		return core.Fail("mutates-receiver:types.Project.ForEachService", fmt.Sprintf("ForEachService%v %v with an fn that scribbles on the service it is handed leaves the project changed in %s", a.Names, a.Opts, r.Aliased))
	}
	if r.ProfilesVary && c15EachCtx != nil {
		c15EachCtx.Count("getprofiles-order-varies")
	}
	if r.FailProp != "" {
		return core.Fail("foreach:fn-error-not-propagated", r.FailProp)
	}
	if json.Unmarshal(drv, &d) != nil || json.Unmarshal(drv, &dm) != nil || dm["serviceNames"] == nil {
		return core.Disagree("malformed driver outcome: " + string(drv))
	}
	if c15EachCtx != nil {
		c15EachCtx.Count("each-model-branch:" + d.Branch)
	}
	for _, c := range d.Spec {
		if strings.HasPrefix(c, "skipped:") {
			c15EachSpecSkipped.Add(1)
			continue
		}
		return core.Fail("spec:ForEachService:"+c, fmt.Sprintf("ForEachService(%v, fn, %v) err=%q calls=%v violates clause %q of Spec/Select.lean (model: err=%q calls=%v)", a.Names, a.Opts, r.Err, r.Calls, c, d.ModelErr, d.ModelCalls))
	}
	for _, f := range [][2]string{{"serviceNames", "ServiceNames"}, {"disabledNames", "DisabledServiceNames"}, {"get", "GetService"},
		{"getServices", "GetServices"}, {"getDisabled", "GetDisabledService"}, {"dependents", "GetDependentsForService"},
		{"getDependents", "ServiceConfig.GetDependents"}, {"all", "AllServices"}, {"profilesOf", "Services.GetProfiles"}, {"profilesOfAll", "Services.GetProfiles"}} {
		if !core.CanonEqual(rm[f[0]], dm[f[0]]) {
			return core.Fail("accessor:types.Project."+f[1], fmt.Sprintf("%s: real %s, model %s", f[1], rm[f[0]], dm[f[0]]))
		}
	}
	if !d.Agree {
		return core.Disagree(fmt.Sprintf("ForEachService(%v, fn, %v): real err=%q calls=%v, model err=%q calls=%v", a.Names, a.Opts, r.Err, r.Calls, d.ModelErr, d.ModelCalls))
	}
	return nil
}

// option lists: none (the default), each single option, several (the last one wins)
var c15OptLists = [][]string{{}, {"deps"}, {"dependents"}, {"ignore"}, {"ignore", "deps"}, {"deps", "dependents"}, {"dependents", "ignore"}, {"ignore", "dependents", "deps"}}

func c15GenEach(ctx *core.Ctx) {
	c15EachCtx = ctx
	add := func(kind string, a c15EachArgs) {
		ctx.Count(kind)
		ctx.Count(fmt.Sprintf("each-opts-%d", len(a.Opts)))
		ctx.Add("c15each", a)
	}
	// exhaustive small scope: every 3-service project × 2 loads × every name list of the alphabet × every option list
	lists := append(c15Subsets([]string{"a", "b", "c"}), []string{}, []string{"zz"}, []string{"b", "a", "b"})
	n := 0
	c15SmallProjects(3, func(raw c15State) {
		n++
		for _, P0 := range [][]string{{}, {"p"}} {
			st := c15Loaded(raw, P0)
			for i, l := range lists {
				for j := 0; j < 3; j++ { // three of the eight option lists per name list, rotating: every pair (list, options) occurs
					o := c15OptLists[(i*3+j+n)%len(c15OptLists)]
					add("each-exhaustive-3svc", c15EachArgs{Init: st, Names: l, Opts: o, Gets: l, FailAt: (i + j) % 3})
				}
			}
		}
	})
	// seeded random, valid and malformed (cycles, self edges, ghosts, Name ≠ key, a name on both sides)
	for i := 0; i < ctx.Pick(10000, 150000); i++ {
		malformed := i%4 == 3
		st, all := c15RandProject(ctx.Rng, malformed)
		names := c15RandNames(ctx.Rng, all, malformed)
		if ctx.Rng.Intn(6) == 0 {
			names = []string{} // all enabled services
		}
		gets := c15RandNames(ctx.Rng, all, true)
		kind := "each-random"
		if malformed {
			kind = "each-malformed"
		}
		add(kind, c15EachArgs{Init: st, Names: names, Opts: c15OptLists[ctx.Rng.Intn(len(c15OptLists))], Gets: gets, FailAt: ctx.Rng.Intn(4) - 1})
	}
}

func init() {
	core.Register("c15each", &core.CheckDef{Real: c15RealEach, DriverOp: "c15each", DriverArgs: c15EachDriverArgs, Judge: c15JudgeEach, Timeout: 60 * time.Second})
}
