package c15

// C15 — profile and service selection keep a sound partition of the services.
//
//	c15hist  correspondence + spec oracle: a history of selection operations executed by the real
//	         types.Project methods; after every step the Lean driver (a) runs the model
//	         (Model/Select.lean) from the real project before the step and compares, and (b) decides the
//	         clauses of Spec/Select.lean on the real before/after pair (violated clause = property failure).
//	c15det   direct oracle, metamorphic: every step of the history is executed `repeat` times on the same
//	         receiver and the results are compared with one another ("function of receiver and arguments").

import (
	"encoding/json"
	"fmt"
	"reflect"
	"sort"
	"strings"
	"sync/atomic"
	"time"

	"github.com/compose-spec/compose-go/v2/types"

	"verifharness/core"
)

type c15Dep struct {
	Required bool   `json:"required"`
	Cond     string `json:"cond"`
}

type c15Svc struct {
	Name     string            `json:"name,omitempty"` // ServiceConfig.Name; empty = the map key
	Image    string            `json:"image"`
	Profiles []string          `json:"profiles"`
	Deps     map[string]c15Dep `json:"deps"`
	Nets     []string          `json:"nets"`
	Vols     [][2]string       `json:"vols"`
	Secrets  []string          `json:"secrets"`
	Build    *[]string         `json:"build"`
	Configs  []string          `json:"configs"`
	Env      map[string]*string `json:"env"` // environment; null = listed without a value
}

type c15State struct {
	Services map[string]c15Svc `json:"services"`
	Disabled map[string]c15Svc `json:"disabled"`
	Profiles []string          `json:"profiles"`
	Networks map[string]string `json:"networks"`
	Volumes  map[string]string `json:"volumes"`
	Secrets  map[string]string `json:"secrets"`
	Configs  map[string]string `json:"configs"`
	// Project.Environment: what WithServicesEnabled resolves unset service variables against
	Environment map[string]string `json:"environment"`
}

type c15Op struct {
	Op    string   `json:"op"` // profiles | enable | disable | select | prune
	Names []string `json:"names"`
	Pol   string   `json:"pol,omitempty"` // deps | dependents | ignore
}

type c15Args struct {
	Init   c15State `json:"init"`
	Ops    []c15Op  `json:"ops"`
	Repeat int      `json:"repeat,omitempty"`
}

func nn(l []string) []string {
	if l == nil {
		return []string{}
	}
	return l
}

// ---------------------------------------------------------------- abstract state ⇄ types.Project

func c15BuildSvc(name string, s c15Svc) types.ServiceConfig {
	sc := types.ServiceConfig{Name: name, Image: s.Image}
	if s.Name != "" {
		sc.Name = s.Name
	}
	if len(s.Profiles) > 0 {
		sc.Profiles = append([]string{}, s.Profiles...)
	}
	if s.Deps != nil {
		sc.DependsOn = types.DependsOnConfig{}
		for k, d := range s.Deps {
			sc.DependsOn[k] = types.ServiceDependency{Condition: d.Cond, Required: d.Required}
		}
	}
	if len(s.Nets) > 0 {
		sc.Networks = map[string]*types.ServiceNetworkConfig{}
		for i, n := range s.Nets {
			if i%2 == 0 {
				sc.Networks[n] = nil
			} else {
				sc.Networks[n] = &types.ServiceNetworkConfig{Priority: i}
			}
		}
	}
	for _, v := range s.Vols {
		sc.Volumes = append(sc.Volumes, types.ServiceVolumeConfig{Type: v[0], Source: v[1], Target: "/mnt/" + v[1]})
	}
	for _, x := range s.Secrets {
		sc.Secrets = append(sc.Secrets, types.ServiceSecretConfig{Source: x})
	}
	if s.Build != nil {
		sc.Build = &types.BuildConfig{Context: "."}
		for _, x := range *s.Build {
			sc.Build.Secrets = append(sc.Build.Secrets, types.ServiceSecretConfig{Source: x})
		}
	}
	for _, x := range s.Configs {
		sc.Configs = append(sc.Configs, types.ServiceConfigObjConfig{Source: x})
	}
	if len(s.Env) > 0 {
		sc.Environment = types.MappingWithEquals{}
		for k, v := range s.Env {
			if v == nil {
				sc.Environment[k] = nil
			} else {
				x := *v
				sc.Environment[k] = &x
			}
		}
	}
	return sc
}

func c15Build(st c15State) *types.Project {
	p := &types.Project{Name: "c15", WorkingDir: "/w", Services: types.Services{}, Environment: types.Mapping{}}
	for k, v := range st.Environment {
		p.Environment[k] = v
	}
	for k, s := range st.Services {
		p.Services[k] = c15BuildSvc(k, s)
	}
	if st.Disabled != nil {
		p.DisabledServices = types.Services{}
		for k, s := range st.Disabled {
			p.DisabledServices[k] = c15BuildSvc(k, s)
		}
	}
	if len(st.Profiles) > 0 {
		p.Profiles = append([]string{}, st.Profiles...)
	}
	p.Networks = types.Networks{}
	for k, v := range st.Networks {
		p.Networks[k] = types.NetworkConfig{Name: v}
	}
	p.Volumes = types.Volumes{}
	for k, v := range st.Volumes {
		p.Volumes[k] = types.VolumeConfig{Name: v}
	}
	p.Secrets = types.Secrets{}
	for k, v := range st.Secrets {
		p.Secrets[k] = types.SecretConfig{Name: v}
	}
	p.Configs = types.Configs{}
	for k, v := range st.Configs {
		p.Configs[k] = types.ConfigObjConfig{Name: v}
	}
	return p
}

func c15ExtractSvc(sc types.ServiceConfig) c15Svc {
	s := c15Svc{Name: sc.Name, Image: sc.Image, Profiles: nn(append([]string{}, sc.Profiles...)), Deps: map[string]c15Dep{},
		Nets: []string{}, Vols: [][2]string{}, Secrets: []string{}, Configs: []string{}}
	for k, d := range sc.DependsOn {
		s.Deps[k] = c15Dep{Required: d.Required, Cond: d.Condition}
	}
	for n := range sc.Networks {
		s.Nets = append(s.Nets, n)
	}
	sort.Strings(s.Nets)
	for _, v := range sc.Volumes {
		s.Vols = append(s.Vols, [2]string{v.Type, v.Source})
	}
	for _, x := range sc.Secrets {
		s.Secrets = append(s.Secrets, x.Source)
	}
	if sc.Build != nil {
		l := []string{}
		for _, x := range sc.Build.Secrets {
			l = append(l, x.Source)
		}
		s.Build = &l
	}
	for _, x := range sc.Configs {
		s.Configs = append(s.Configs, x.Source)
	}
	s.Env = map[string]*string{}
	for k, v := range sc.Environment {
		if v == nil {
			s.Env[k] = nil
		} else {
			x := *v
			s.Env[k] = &x
		}
	}
	return s
}

// c15Extract is the observation: Services, DisabledServices, Profiles, depends_on and the top-level resources.
func c15Extract(p *types.Project) c15State {
	st := c15State{Services: map[string]c15Svc{}, Disabled: map[string]c15Svc{}, Profiles: nn(append([]string{}, p.Profiles...)),
		Networks: map[string]string{}, Volumes: map[string]string{}, Secrets: map[string]string{}, Configs: map[string]string{}, Environment: map[string]string{}}
	for k, s := range p.Services {
		st.Services[k] = c15ExtractSvc(s)
	}
	for k, s := range p.DisabledServices {
		st.Disabled[k] = c15ExtractSvc(s)
	}
	for k, v := range p.Networks {
		st.Networks[k] = v.Name
	}
	for k, v := range p.Volumes {
		st.Volumes[k] = v.Name
	}
	for k, v := range p.Secrets {
		st.Secrets[k] = v.Name
	}
	for k, v := range p.Configs {
		st.Configs[k] = v.Name
	}
	for k, v := range p.Environment {
		st.Environment[k] = v
	}
	return st
}

// ---------------------------------------------------------------- running one operation of the real code

func c15Func(op c15Op) string {
	switch op.Op {
	case "profiles":
		return "WithProfiles"
	case "enable":
		return "WithServicesEnabled"
	case "disable":
		return "WithServicesDisabled"
	case "select":
		return "WithSelectedServices"
	}
	return "WithoutUnnecessaryResources"
}

func c15Apply(p *types.Project, op c15Op) (*types.Project, error) {
	switch op.Op {
	case "profiles":
		return p.WithProfiles(op.Names)
	case "enable":
		return p.WithServicesEnabled(op.Names...)
	case "disable":
		return p.WithServicesDisabled(op.Names...), nil
	case "select":
		if op.Pol == "none" { // no option at all: the "backward compatibility" default of ForEachService
			return p.WithSelectedServices(op.Names)
		}
		var opts []types.DependencyOption // "a+b" = several options in call order (the last one decides)
		for _, o := range strings.Split(op.Pol, "+") {
			opts = append(opts, c15Opt(o))
		}
		return p.WithSelectedServices(op.Names, opts...)
	case "prune":
		return p.WithoutUnnecessaryResources(), nil
	}
	return nil, fmt.Errorf("harness: unknown op %q", op.Op)
}

func c15ErrClass(err error) string {
	if strings.Contains(err.Error(), "no such service") {
		return "noSuchService"
	}
	return "other:" + err.Error()
}

type c15StepOut struct {
	Ok    *c15State `json:"ok,omitempty"`
	Err   string    `json:"err,omitempty"`
	Panic string    `json:"panic,omitempty"`
	Msg   string    `json:"msg,omitempty"`
}

func c15Step(cur *types.Project, op c15Op) (out c15StepOut, next *types.Project) {
	defer func() {
		if r := recover(); r != nil {
			out = c15StepOut{Panic: core.PanicSite(), Msg: fmt.Sprint(r)}
			next = nil
		}
	}()
	q, err := c15Apply(cur, op)
	if err != nil {
		return c15StepOut{Err: c15ErrClass(err)}, cur
	}
	st := c15Extract(q)
	return c15StepOut{Ok: &st}, q
}

func c15RealHist(raw json.RawMessage) any {
	var a c15Args
	if err := json.Unmarshal(raw, &a); err != nil {
		return map[string]any{"bad": err.Error()}
	}
	cur := c15Build(a.Init)
	steps := []c15StepOut{}
	for _, op := range a.Ops {
		out, next := c15Step(cur, op)
		steps = append(steps, out)
		if next == nil {
			break // a panic ends the history
		}
		cur = next
	}
	return map[string]any{"steps": steps}
}

// c15Diff names the first component in which two observations differ.
func c15Diff(a, b c15State) string {
	svcDiff := func(x, y map[string]c15Svc, what string) string {
		if len(x) != len(y) {
			return what + ".names"
		}
		for k, s := range x {
			t, ok := y[k]
			if !ok {
				return what + ".names"
			}
			if !reflect.DeepEqual(s.Deps, t.Deps) {
				return what + ".depends_on"
			}
			if !reflect.DeepEqual(s, t) {
				return what + ".content"
			}
		}
		return ""
	}
	if d := svcDiff(a.Services, b.Services, "services"); d != "" {
		return d
	}
	if d := svcDiff(a.Disabled, b.Disabled, "disabled"); d != "" {
		return d
	}
	if !reflect.DeepEqual(a.Profiles, b.Profiles) {
		return "profiles"
	}
	if !reflect.DeepEqual(a, b) {
		return "resources"
	}
	return ""
}

type c15DetStep struct {
	Func     string `json:"func"`
	Variants int    `json:"variants"`
	Diff     string `json:"diff,omitempty"`
	Mutated  string `json:"mutated,omitempty"` // the receiver is not what it was before the calls
}

// c15Colliding says whether two services of the description carry the same effective Name (outside the domain of
// the theorems: no load produces it; dependentsForService then keeps one of two map entries in iteration order).
func c15Colliding(st c15State) bool {
	seen := map[string]bool{}
	for _, m := range []map[string]c15Svc{st.Services, st.Disabled} {
		for k, s := range m {
			n := s.Name
			if n == "" {
				n = k
			}
			if seen[n] {
				return true
			}
			seen[n] = true
		}
	}
	return false
}

func c15RealDet(raw json.RawMessage) any {
	var a c15Args
	if err := json.Unmarshal(raw, &a); err != nil {
		return map[string]any{"bad": err.Error()}
	}
	k := a.Repeat
	if k < 2 {
		k = 8
	}
	cur := c15Build(a.Init)
	steps := []c15DetStep{}
	for _, op := range a.Ops {
		snap := types.VerifDeepCopy(cur)
		snapOK := reflect.DeepEqual(snap, cur)
		first, err0 := c15Apply(cur, op)
		ds := c15DetStep{Func: c15Func(op), Variants: 1}
		var st0 c15State
		if err0 == nil {
			st0 = c15Extract(first)
		}
		for i := 1; i < k && ds.Variants == 1; i++ {
			q, err := c15Apply(cur, op)
			switch {
			case (err == nil) != (err0 == nil):
				ds.Variants, ds.Diff = 2, "error-or-not"
			case err != nil:
				if c15ErrClass(err) != c15ErrClass(err0) {
					ds.Variants, ds.Diff = 2, "error-class"
				}
			default:
				if d := c15Diff(st0, c15Extract(q)); d != "" {
					ds.Variants, ds.Diff = 2, d
				} else if !reflect.DeepEqual(first, q) {
					ds.Variants, ds.Diff = 2, "unobserved-fields"
				}
			}
		}
		if snapOK && !reflect.DeepEqual(snap, cur) { // "returns a new Project instance … and keeps the original Project unchanged"
			if ds.Mutated = c15Diff(c15Extract(snap), c15Extract(cur)); ds.Mutated == "" {
				ds.Mutated = "unobserved-fields"
			}
		}
		steps = append(steps, ds)
		if err0 == nil {
			cur = first
		}
	}
	return map[string]any{"steps": steps, "colliding": c15Colliding(a.Init)}
}

// ---------------------------------------------------------------- judges

// counters filled by the judge (parent process), reported as notes at the end of the run
var c15Steps, c15ViaOrder, c15SpecSkipped, c15ErrSteps atomic.Int64

func c15JudgeHist(args, real, drv json.RawMessage) *core.Verdict {
	if v := core.CrashVerdict(real); v != nil {
		return v
	}
	var a c15Args
	var r struct {
		Steps []c15StepOut `json:"steps"`
	}
	var d struct {
		Steps []struct {
			Agree bool     `json:"agree"`
			Via   string   `json:"via"`
			Spec  []string `json:"spec"`
		} `json:"steps"`
	}
	if json.Unmarshal(args, &a) != nil || json.Unmarshal(real, &r) != nil || r.Steps == nil {
		return core.Disagree("malformed real outcome")
	}
	for i, s := range r.Steps {
		if s.Panic != "" {
			return core.Fail("panic@"+s.Panic, fmt.Sprintf("step %d (%s) panics: %s", i, c15Func(a.Ops[i]), s.Msg))
		}
		if strings.HasPrefix(s.Err, "other:") {
			return core.Fail("unexpected-error:"+c15Func(a.Ops[i]), fmt.Sprintf("step %d: %s", i, s.Err))
		}
	}
	if json.Unmarshal(drv, &d) != nil || len(d.Steps) != len(r.Steps) {
		return core.Disagree("malformed driver outcome: " + string(drv))
	}
	// the property first (the spec decided on the real before/after pairs), then the tie
	for i, s := range d.Steps {
		c15Steps.Add(1)
		if s.Via == "pre-fix-order" {
			c15ViaOrder.Add(1)
		}
		if r.Steps[i].Err != "" {
			c15ErrSteps.Add(1)
		}
		for _, c := range s.Spec {
			if strings.HasPrefix(c, "skipped:") {
				c15SpecSkipped.Add(1)
				continue
			}
			return core.Fail("spec:"+c15Func(a.Ops[i])+":"+c, fmt.Sprintf("step %d (%s %v %s): the result violates clause %q of Spec/Select.lean", i, a.Ops[i].Op, a.Ops[i].Names, a.Ops[i].Pol, c))
		}
	}
	for i, s := range d.Steps {
		if !s.Agree {
			what := "model ≠ real"
			if s.Via == "pre-fix-order" {
				what = "model ≠ real (the result is one the pre-fix, order-dependent WithSelectedServices loop produces)"
			}
			return core.Disagree(fmt.Sprintf("step %d (%s %v %s): %s", i, a.Ops[i].Op, a.Ops[i].Names, a.Ops[i].Pol, what))
		}
	}
	return nil
}

func c15DriverArgs(args, real json.RawMessage) any {
	var a c15Args
	var r struct {
		Steps []json.RawMessage `json:"steps"`
	}
	json.Unmarshal(args, &a)
	json.Unmarshal(real, &r)
	type step struct {
		Op   c15Op           `json:"op"`
		Real json.RawMessage `json:"real"`
	}
	steps := []step{}
	for i, s := range r.Steps {
		if i < len(a.Ops) {
			steps = append(steps, step{Op: a.Ops[i], Real: s})
		}
	}
	return map[string]any{"init": a.Init, "steps": steps}
}

func c15JudgeDet(args, real, _ json.RawMessage) *core.Verdict {
	if v := core.CrashVerdict(real); v != nil {
		return v
	}
	var r struct {
		Steps     []c15DetStep `json:"steps"`
		Colliding bool         `json:"colliding"`
	}
	if json.Unmarshal(real, &r) != nil || r.Steps == nil {
		return core.Disagree("malformed real outcome")
	}
	for i, s := range r.Steps {
		if s.Mutated != "" {
			return core.Fail("mutates-receiver:types.Project."+s.Func, fmt.Sprintf("step %d: %s changes its receiver (%s)", i, s.Func, s.Mutated))
		}
		if s.Variants > 1 {
			if r.Colliding {
				s.Diff += ":colliding-names"
			}
			return core.Fail("nondeterministic:types.Project."+s.Func+":"+s.Diff,
				fmt.Sprintf("step %d: %s repeated on the same receiver with the same arguments returns results that differ in %s", i, s.Func, s.Diff))
		}
	}
	return nil
}

func init() {
	core.Register("c15hist", &core.CheckDef{Real: c15RealHist, DriverOp: "c15hist", DriverArgs: c15DriverArgs, Judge: c15JudgeHist, Timeout: 60 * time.Second})
	core.Register("c15det", &core.CheckDef{Real: c15RealDet, Judge: c15JudgeDet, Timeout: 60 * time.Second})
	core.RegisterProp("C15", runC15)
}
