package c15

// C15 generators: exhaustive small scope, seeded random projects/histories, malformed stream.

import (
	"fmt"
	"math/rand"
	"sort"

	"verifharness/core"
)

func c15EmptySvc(image string) c15Svc {
	return c15Svc{Image: image, Profiles: []string{}, Deps: map[string]c15Dep{}, Nets: []string{}, Vols: [][2]string{}, Secrets: []string{}, Configs: []string{}, Env: map[string]*string{}}
}

func c15EmptyState() c15State {
	return c15State{Services: map[string]c15Svc{}, Disabled: map[string]c15Svc{}, Profiles: []string{},
		Networks: map[string]string{}, Volumes: map[string]string{}, Secrets: map[string]string{}, Configs: map[string]string{}, Environment: map[string]string{}}
}

// every non-empty subset of names (in order)
func c15Subsets(names []string) [][]string {
	var out [][]string
	for m := 1; m < 1<<len(names); m++ {
		var l []string
		for i, n := range names {
			if m&(1<<i) != 0 {
				l = append(l, n)
			}
		}
		out = append(out, l)
	}
	return out
}

// the finite operation alphabet of the small scope over the given service names
func c15SmallOps(names []string) []c15Op {
	ops := []c15Op{{Op: "prune"}}
	for _, ps := range [][]string{{}, {"p"}, {"q"}, {"p", "q"}, {"*"}} {
		ops = append(ops, c15Op{Op: "profiles", Names: ps})
	}
	subsets := append(c15Subsets(names), []string{"zz"})
	for _, s := range subsets {
		ops = append(ops, c15Op{Op: "enable", Names: s}, c15Op{Op: "disable", Names: s})
		for _, pol := range []string{"deps", "dependents", "ignore"} {
			ops = append(ops, c15Op{Op: "select", Names: s, Pol: pol})
		}
	}
	return ops
}

// all projects of the small scope: n services, each with profiles ∈ {∅,{p},{q}}, each forward pair
// i→j (i<j) ∈ {no edge, required, optional}; fixed resource references so that pruning has work to do.
func c15SmallProjects(n int, emit func(c15State)) {
	names := []string{"a", "b", "c"}[:n]
	profs := [][]string{{}, {"p"}, {"q"}}
	type pair struct{ i, j int }
	var pairs []pair
	for i := 0; i < n; i++ {
		for j := i + 1; j < n; j++ {
			pairs = append(pairs, pair{i, j})
		}
	}
	np, ne := 1, 1
	for i := 0; i < n; i++ {
		np *= 3
	}
	for range pairs {
		ne *= 3
	}
	for pc := 0; pc < np; pc++ {
		for ec := 0; ec < ne; ec++ {
			st := c15EmptyState()
			x := pc
			for i, nm := range names {
				s := c15EmptySvc("img-" + nm)
				s.Profiles = append([]string{}, profs[x%3]...)
				x /= 3
				switch i {
				case 0:
					unset, set := (*string)(nil), "own"
					s.Env = map[string]*string{"A": unset, "B": &set, "Z": unset}
					s.Nets = []string{"n1"}
					s.Vols = [][2]string{{"volume", "v1"}, {"bind", "v2"}}
				case 1:
					b := []string{"s1"}
					s.Build = &b
					s.Configs = []string{"c1"}
				case 2:
					s.Secrets = []string{"s2"}
					s.Nets = []string{"n2"}
				}
				st.Services[nm] = s
			}
			y := ec
			for _, pr := range pairs {
				switch y % 3 {
				case 1:
					st.Services[names[pr.i]].Deps[names[pr.j]] = c15Dep{Required: true, Cond: "service_started"}
				case 2:
					st.Services[names[pr.i]].Deps[names[pr.j]] = c15Dep{Required: false, Cond: "service_healthy"}
				}
				y /= 3
			}
			st.Networks = map[string]string{"n1": "N1", "n2": "N2", "n3": "N3"}
			st.Volumes = map[string]string{"v1": "V1", "v2": "V2"}
			st.Secrets = map[string]string{"s1": "S1", "s2": "S2", "s3": "S3"}
			st.Configs = map[string]string{"c1": "C1", "c2": "C2"}
			st.Environment = map[string]string{"A": "proj-A", "B": "proj-B"}
			emit(st)
		}
	}
}

// ---------------------------------------------------------------- random

func c15Pick(r *rand.Rand, pool []string, p float64) []string {
	l := []string{}
	for _, x := range pool {
		if r.Float64() < p {
			l = append(l, x)
		}
	}
	return l
}

func c15RandSvc(r *rand.Rand, name string) c15Svc {
	s := c15EmptySvc("img-" + name)
	if r.Intn(2) == 0 {
		s.Profiles = c15Pick(r, []string{"p", "q", "r"}, 0.45)
	}
	s.Nets = c15Pick(r, []string{"n0", "n1", "n2", "n3"}, 0.3)
	sort.Strings(s.Nets)
	for _, v := range c15Pick(r, []string{"v0", "v1", "v2"}, 0.3) {
		s.Vols = append(s.Vols, [2]string{"volume", v})
	}
	switch r.Intn(8) {
	case 0:
		s.Vols = append(s.Vols, [2]string{"bind", "v0"}) // a bind mount whose source looks like a volume name
	case 1:
		s.Vols = append(s.Vols, [2]string{"volume", ""}) // anonymous volume
	case 2:
		s.Vols = append(s.Vols, [2]string{"tmpfs", ""}, [2]string{"bind", "/host"})
	}
	s.Secrets = c15Pick(r, []string{"x0", "x1", "x2"}, 0.25)
	if r.Intn(3) == 0 {
		b := c15Pick(r, []string{"x1", "x2", "x3"}, 0.4)
		s.Build = &b
	}
	s.Configs = c15Pick(r, []string{"c0", "c1", "c2"}, 0.25)
	if r.Intn(3) == 0 { // environment: some variables with a value, some listed without one
		for _, k := range c15Pick(r, []string{"A", "B", "C", "D"}, 0.5) {
			switch r.Intn(3) {
			case 0:
				s.Env[k] = nil
			case 1:
				v := ""
				s.Env[k] = &v
			default:
				v := "svc-" + k
				s.Env[k] = &v
			}
		}
	}
	return s
}

var c15Conds = []string{"service_started", "service_healthy", "service_completed_successfully"}

// a mostly valid project: ≤ 6 services, dependency DAG with required and optional edges, some services disabled
func c15RandProject(r *rand.Rand, malformed bool) (c15State, []string) {
	n := 1 + r.Intn(6)
	names := []string{}
	for i := 0; i < n; i++ {
		names = append(names, fmt.Sprintf("s%d", i))
	}
	order := r.Perm(n) // topological order of the DAG
	st := c15EmptyState()
	svcs := map[string]c15Svc{}
	for _, nm := range names {
		svcs[nm] = c15RandSvc(r, nm)
	}
	dens := []float64{0.15, 0.3, 0.5}[r.Intn(3)]
	for a := 0; a < n; a++ {
		for b := 0; b < a; b++ {
			if r.Float64() < dens {
				svcs[names[order[a]]].Deps[names[order[b]]] = c15Dep{Required: r.Intn(10) < 6, Cond: c15Conds[r.Intn(3)]}
			}
		}
	}
	if n >= 3 && r.Intn(5) == 0 {
		// several services depend on the same one, some edges required and some optional: when that service is
		// disabled the walk must judge each edge by its own flag (seed C15-4 merged the per-service maps)
		t := names[order[0]]
		for a := 1; a < n; a++ {
			if r.Intn(3) != 0 {
				svcs[names[order[a]]].Deps[t] = c15Dep{Required: r.Intn(2) == 0, Cond: c15Conds[r.Intn(3)]}
			}
		}
		if r.Intn(2) == 0 {
			s := svcs[t]
			s.Profiles = []string{"r"} // a profile no load of the generator activates: the target starts disabled
			svcs[t] = s
		}
	}
	if malformed {
		for k := 0; k < 1+r.Intn(3); k++ {
			x := names[r.Intn(n)]
			switch r.Intn(8) {
			case 6: // Name differs from the map key: an alias nobody else uses
				s := svcs[x]
				s.Name = x + "-alias"
				svcs[x] = s
			case 7: // two services carry each other's Name (names stay distinct)
				y := names[r.Intn(n)]
				if y != x && svcs[x].Name == "" && svcs[y].Name == "" {
					sx, sy := svcs[x], svcs[y]
					sx.Name, sy.Name = y, x
					svcs[x], svcs[y] = sx, sy
				}
			case 0: // self dependency
				svcs[x].Deps[x] = c15Dep{Required: r.Intn(2) == 0, Cond: "service_started"}
			case 1: // back edge (cycle)
				svcs[names[order[0]]].Deps[names[order[n-1]]] = c15Dep{Required: r.Intn(2) == 0, Cond: "service_started"}
			case 2: // dependency on a service nobody knows
				svcs[x].Deps["ghost"] = c15Dep{Required: r.Intn(2) == 0, Cond: "service_started"}
			case 3: // odd profile names
				s := svcs[x]
				s.Profiles = append(s.Profiles, []string{"*", "", "p"}[r.Intn(3)])
				svcs[x] = s
			case 4: // empty service name
				svcs[""] = c15RandSvc(r, "empty")
				svcs[x].Deps[""] = c15Dep{Required: true, Cond: "service_started"}
			case 5: // odd volume types
				s := svcs[x]
				s.Vols = append(s.Vols, [2]string{"", "v1"}, [2]string{"Volume", "v2"}, [2]string{"volume", "ghostvol"})
				svcs[x] = s
			}
		}
	}
	all := []string{}
	for k := range svcs {
		all = append(all, k)
	}
	sort.Strings(all)
	// the initial partition: as a load would leave it (profiles applied), or arbitrary
	switch x := r.Intn(10); {
	case x < 8 && !malformed || x < 4: // as loaded
		for _, k := range all {
			st.Services[k] = svcs[k]
		}
		st = c15Loaded(st, c15Pick(r, []string{"p", "q"}, 0.4))
	case x < 9: // everything enabled whatever the profiles say (not reachable from a load)
		for _, k := range all {
			st.Services[k] = svcs[k]
		}
	default:
		for _, k := range all {
			if r.Intn(3) == 0 {
				st.Disabled[k] = svcs[k]
			} else {
				st.Services[k] = svcs[k]
			}
		}
	}
	if malformed && r.Intn(3) == 0 && len(all) > 0 {
		// the same name on both sides with different contents (not a partition: spec clauses are skipped, correspondence still runs)
		k := all[r.Intn(len(all))]
		s := c15RandSvc(r, k+"-dup")
		if _, ok := st.Services[k]; ok {
			st.Disabled[k] = s
		} else {
			st.Services[k] = s
		}
	}
	for _, k := range c15Pick(r, []string{"n0", "n1", "n2", "n3", "n4"}, 0.6) {
		st.Networks[k] = "N-" + k
	}
	for _, k := range c15Pick(r, []string{"v0", "v1", "v2", "v3"}, 0.6) {
		st.Volumes[k] = "V-" + k
	}
	for _, k := range c15Pick(r, []string{"x0", "x1", "x2", "x3", "x4"}, 0.6) {
		st.Secrets[k] = "X-" + k
	}
	for _, k := range c15Pick(r, []string{"c0", "c1", "c2", "c3"}, 0.6) {
		st.Configs[k] = "C-" + k
	}
	for _, k := range c15Pick(r, []string{"A", "B", "C"}, 0.5) {
		st.Environment[k] = []string{"proj-" + k, ""}[r.Intn(2)]
	}
	return st, all
}

func c15RandNames(r *rand.Rand, all []string, malformed bool) []string {
	l := []string{}
	k := 1 + r.Intn(3)
	for i := 0; i < k && len(all) > 0; i++ {
		l = append(l, all[r.Intn(len(all))]) // duplicates possible
	}
	x := r.Intn(100)
	switch {
	case x < 4:
		l = []string{} // "all services" / no-op forms
	case x < 9 || (malformed && x < 25):
		l = append(l, []string{"zz", "ghost", ""}[r.Intn(3)])
	}
	return l
}

func c15RandOp(r *rand.Rand, all []string, malformed bool) (c15Op, string) {
	switch x := r.Intn(100); {
	case x < 18:
		ps := c15Pick(r, []string{"p", "q", "r"}, 0.4)
		if r.Intn(8) == 0 {
			ps = append(ps, "*")
		}
		if r.Intn(12) == 0 {
			ps = append(ps, ps...) // duplicates
		}
		return c15Op{Op: "profiles", Names: ps}, "op-profiles"
	case x < 36:
		return c15Op{Op: "enable", Names: c15RandNames(r, all, malformed)}, "op-enable"
	case x < 56:
		return c15Op{Op: "disable", Names: c15RandNames(r, all, malformed)}, "op-disable"
	case x < 90:
		pol := []string{"deps", "none", "dependents", "ignore"}[r.Intn(4)] // none = WithSelectedServices without option
		if r.Intn(8) == 0 {
			pol = []string{"ignore+deps", "deps+dependents", "dependents+ignore", "ignore+dependents+deps"}[r.Intn(4)]
		}
		return c15Op{Op: "select", Names: c15RandNames(r, all, malformed), Pol: pol}, "op-select-" + pol
	}
	return c15Op{Op: "prune"}, "op-prune"
}

// c15Loaded repartitions a state the way a load with the given profiles leaves it.
func c15Loaded(st c15State, profiles []string) c15State {
	out := st
	out.Services, out.Disabled, out.Profiles = map[string]c15Svc{}, map[string]c15Svc{}, append([]string{}, profiles...)
	place := func(k string, s c15Svc) {
		act := len(s.Profiles) == 0
		for _, y := range profiles {
			act = act || y == "*"
			for _, x := range s.Profiles {
				act = act || x == y
			}
		}
		if act {
			out.Services[k] = s
		} else {
			out.Disabled[k] = s
		}
	}
	for k, s := range st.Services {
		place(k, s)
	}
	for k, s := range st.Disabled {
		place(k, s)
	}
	return out
}

func runC15(ctx *core.Ctx) {
	add := func(a c15Args) {
		ctx.Add("c15hist", a)
		ctx.Add("c15det", a)
	}

	// 1. exhaustive small scope
	//    (a) 3 services × every operation of the alphabet (one step);
	//    (b) 2 services × every pair of operations; thorough: 3 services × every pair.
	ops3 := c15SmallOps([]string{"a", "b", "c"})
	loads := [][]string{{}, {"p"}}
	c15SmallProjects(3, func(raw c15State) {
		for _, P0 := range loads {
			st := c15Loaded(raw, P0)
			for _, o := range ops3 {
				ctx.Count("exhaustive-3svc-1op")
				add(c15Args{Init: st, Ops: []c15Op{o}})
			}
		}
	})
	ops2 := c15SmallOps([]string{"a", "b"})
	c15SmallProjects(2, func(raw c15State) {
		st := c15Loaded(raw, []string{})
		for _, o1 := range ops2 {
			for _, o2 := range ops2 {
				ctx.Count("exhaustive-2svc-2ops")
				add(c15Args{Init: st, Ops: []c15Op{o1, o2}})
			}
		}
	})
	if ctx.Thorough() {
		// first operation: one representative of every kind (the second ranges over the whole alphabet)
		first := []c15Op{{Op: "profiles", Names: []string{"p"}}, {Op: "profiles", Names: []string{"*"}},
			{Op: "enable", Names: []string{"a"}}, {Op: "enable", Names: []string{"b", "c"}},
			{Op: "disable", Names: []string{"b"}}, {Op: "disable", Names: []string{"a", "c"}},
			{Op: "select", Names: []string{"a"}, Pol: "deps"}, {Op: "select", Names: []string{"b"}, Pol: "dependents"},
			{Op: "select", Names: []string{"a", "c"}, Pol: "ignore"}, {Op: "prune"}}
		c15SmallProjects(3, func(raw c15State) {
			st := c15Loaded(raw, []string{})
			for _, o1 := range first {
				for _, o2 := range ops3 {
					ctx.Count("exhaustive-3svc-2ops")
					add(c15Args{Init: st, Ops: []c15Op{o1, o2}})
				}
			}
		})
	}
	ctx.Res.Exhaustive = true

	// 2. seeded random: mostly valid projects on ≤ 6 services, histories of ≤ 5 operations
	for i := 0; i < ctx.Pick(20000, 250000); i++ {
		st, all := c15RandProject(ctx.Rng, false)
		n := 1 + ctx.Rng.Intn(5)
		var ops []c15Op
		for j := 0; j < n; j++ {
			o, kind := c15RandOp(ctx.Rng, all, false)
			ctx.Count(kind)
			ops = append(ops, o)
		}
		ctx.Count(fmt.Sprintf("random-%dsvc", len(all)))
		ctx.Count(fmt.Sprintf("random-len-%d", n))
		add(c15Args{Init: st, Ops: ops})
	}

	// 3. malformed stream: cycles, self and dangling dependencies, overlapping sets, unknown and empty names, Name ≠ key
	for i := 0; i < ctx.Pick(5000, 60000); i++ {
		st, all := c15RandProject(ctx.Rng, true)
		n := 1 + ctx.Rng.Intn(5)
		var ops []c15Op
		for j := 0; j < n; j++ {
			o, _ := c15RandOp(ctx.Rng, all, true)
			ops = append(ops, o)
		}
		ctx.Count("malformed")
		add(c15Args{Init: st, Ops: ops})
	}
	// 3b. ForEachService itself (callback sequence, option lists, fn errors, aliasing) and the accessors of the partition
	c15GenEach(ctx)

	// 4. the environment tail of WithServicesEnabled on services with env files (real files; tie to C16's function)
	c15GenEnvTail(ctx, ctx.Rng, ctx.Pick(3000, 40000))

	// 5. the loader side (round 6): Options.Profiles / cli.WithDefaultProfiles → the partition of the loaded project
	c15GenLoad(ctx)

	// 6. sequence streams (round 6): operation lists of length 6–14, the invariant after every step on the real heap,
	//    the final project against `run`, the composition theorems executed on the real code
	c15GenSeq(ctx)

	// 7. branching histories (round 7): every value ever produced is kept, operations go to randomly chosen EARLIER values,
	//    partition + "unchanged since produced" on ALL values after every step; hand-built, WithProfiles and loader roots
	c15GenBranch(ctx)

	ctx.Wait()
	ctx.Note("c15hist: %d steps compared exactly with the model and decided against the spec; %d select steps look like the pre-fix order-dependent loop (must be 0); %d steps returned 'no such service'; spec skipped on %d steps whose receiver is not a partition or has a Name that differs from its key (malformed stream)",
		c15Steps.Load(), c15ViaOrder.Load(), c15ErrSteps.Load(), c15SpecSkipped.Load())
	ctx.Note("c15each: ForEachSpec skipped on %d cases whose project is not a partition or has a Name that differs from its key", c15EachSpecSkipped.Load())
}
