package c15

// c15load (round 6) — the loader side of profile selection, on real loads.
//
// A generated compose file (services with profiles, a depends_on DAG with required / optional edges, some edges to
// undeclared services, environment entries with and without value) is loaded
//   * once with Profiles = ["*"] and both checks skipped  → the *declared* services (base),
//   * once the way under test: loader.Options.Profiles = P ("opts"), or cli.NewProjectOptions with
//     WithEnv(COMPOSE_PROFILES=…) + WithDefaultProfiles(given...) ("cli"), with / without the consistency check and the
//     environment resolution.
// The Lean driver applies Model/SelectLoad.lean (`loadApply`, `defaultProfiles`) to the base observation, compares exactly,
// and decides the conclusions of the theorems of Props/C15Load.lean on the real result.

import (
	"context"
	"encoding/json"
	"fmt"
	"os"
	"path/filepath"
	"sort"
	"strings"
	"time"

	"github.com/compose-spec/compose-go/v2/cli"
	"github.com/compose-spec/compose-go/v2/loader"
	"github.com/compose-spec/compose-go/v2/types"

	"verifharness/core"
)

type c15LoadSvc struct {
	Profiles []string        `json:"profiles"`
	Deps     map[string]bool `json:"deps"` // dependency → required
	Env      []string        `json:"env"`  // "K=v" or "K"
}

type c15LoadArgs struct {
	Svcs            map[string]c15LoadSvc `json:"svcs"`
	Env             map[string]string     `json:"env"`      // project environment (COMPOSE_PROFILES included when set)
	Path            string                `json:"path"`     // opts | cli
	Profiles        []string              `json:"profiles"` // Options.Profiles / the arguments of WithDefaultProfiles
	SkipConsistency bool                  `json:"skipConsistency"`
	SkipResolve     bool                  `json:"skipResolve"`
	// load ∘ select (load_select_never_fails): after a load with the consistency check, the enabled services picked by
	// SelMask (bit i = the i-th enabled name in sorted order) are selected with policy SelPol
	SelPol  string `json:"selPol,omitempty"`
	SelMask int    `json:"selMask,omitempty"`
}

func c15LoadYaml(a c15LoadArgs) string {
	svcs := map[string]any{}
	for k, s := range a.Svcs {
		m := map[string]any{"image": "img-" + k}
		if len(s.Profiles) > 0 {
			m["profiles"] = s.Profiles
		}
		if len(s.Deps) > 0 {
			d := map[string]any{}
			for n, req := range s.Deps {
				d[n] = map[string]any{"condition": "service_started", "required": req}
			}
			m["depends_on"] = d
		}
		if len(s.Env) > 0 {
			m["environment"] = s.Env
		}
		svcs[k] = m
	}
	b, _ := json.Marshal(map[string]any{"services": svcs}) // JSON is YAML
	return string(b)
}

func c15LoadErrClass(err error) string {
	if strings.Contains(err.Error(), "depends on undefined service") {
		return "undefinedDependency"
	}
	return "other:" + err.Error()
}

func c15RealLoad(raw json.RawMessage) (out any) {
	var a c15LoadArgs
	if err := json.Unmarshal(raw, &a); err != nil {
		return map[string]any{"bad": err.Error()}
	}
	root, err := core.Materialize(map[string]string{"compose.yaml": c15LoadYaml(a)})
	if root != "" {
		defer os.RemoveAll(root)
	}
	if err != nil {
		return map[string]any{"bad": err.Error()}
	}
	file := filepath.Join(root, "compose.yaml")
	details := func() types.ConfigDetails {
		env := map[string]string{}
		for k, v := range a.Env {
			env[k] = v
		}
		return types.ConfigDetails{WorkingDir: root, ConfigFiles: []types.ConfigFile{{Filename: file}}, Environment: env}
	}
	base, err := loader.LoadWithContext(context.Background(), details(), func(o *loader.Options) {
		o.SetProjectName("c15", true)
		o.Profiles = []string{"*"}
		o.SkipConsistencyCheck = true
		o.SkipResolveEnvironment = true
	})
	if err != nil {
		return map[string]any{"bad": "base load: " + err.Error()}
	}
	res := map[string]any{"base": c15Extract(base)}
	var p *types.Project
	switch a.Path {
	case "cli":
		envList := []string{}
		for k, v := range a.Env {
			envList = append(envList, k+"="+v)
		}
		sort.Strings(envList)
		fns := []cli.ProjectOptionsFn{cli.WithName("c15"), cli.WithWorkingDirectory(root), cli.WithEnv(envList),
			cli.WithDefaultProfiles(a.Profiles...), cli.WithConsistency(!a.SkipConsistency)}
		if a.SkipResolve {
			fns = append(fns, cli.WithoutEnvironmentResolution)
		}
		var po *cli.ProjectOptions
		if po, err = cli.NewProjectOptions([]string{file}, fns...); err == nil {
			p, err = po.LoadProject(context.Background())
		}
	default:
		p, err = loader.LoadWithContext(context.Background(), details(), func(o *loader.Options) {
			o.SetProjectName("c15", true)
			o.Profiles = a.Profiles
			o.SkipConsistencyCheck = a.SkipConsistency
			o.SkipResolveEnvironment = a.SkipResolve
		})
	}
	if err != nil {
		res["real"] = map[string]any{"err": c15LoadErrClass(err)}
	} else {
		st := c15Extract(p)
		res["real"] = map[string]any{"ok": st}
		if !a.SkipConsistency && a.SelPol != "" {
			var names []string
			for i, k := range c15KeySet(p.Services) {
				if a.SelMask>>uint(i)&1 == 1 {
					names = append(names, k)
				}
			}
			if len(names) > 0 {
				res["selected"] = names
				if _, err := p.WithSelectedServices(names, c15Opt(a.SelPol)); err != nil {
					res["selectErr"] = err.Error()
				}
			}
		}
	}
	return res
}

func c15LoadDriverArgs(args, real json.RawMessage) any {
	var a c15LoadArgs
	var r struct {
		Base json.RawMessage `json:"base"`
		Real json.RawMessage `json:"real"`
	}
	json.Unmarshal(args, &a)
	json.Unmarshal(real, &r)
	return map[string]any{"base": r.Base, "real": r.Real, "path": a.Path, "profiles": nn(a.Profiles), "env": a.Env,
		"skipConsistency": a.SkipConsistency, "skipResolve": a.SkipResolve}
}

var c15LoadCtx *core.Ctx

func c15JudgeLoad(args, real, drv json.RawMessage) *core.Verdict {
	if v := core.CrashVerdict(real); v != nil {
		return v
	}
	var a c15LoadArgs
	var r struct {
		Bad  string `json:"bad"`
		Real struct {
			Ok  *c15State `json:"ok"`
			Err string    `json:"err"`
		} `json:"real"`
		Selected  []string `json:"selected"`
		SelectErr string   `json:"selectErr"`
	}
	var d struct {
		Agree  bool            `json:"agree"`
		Spec   []string        `json:"spec"`
		Branch string          `json:"branch"`
		P      []string        `json:"P"`
		Model  json.RawMessage `json:"model"`
	}
	if json.Unmarshal(args, &a) != nil || json.Unmarshal(real, &r) != nil {
		return core.Disagree("malformed real outcome")
	}
	if r.Bad != "" {
		return core.Disagree("the generated file does not load: " + r.Bad)
	}
	if strings.HasPrefix(r.Real.Err, "other:") {
		return core.Disagree("unexpected load error (generator): " + r.Real.Err)
	}
	if json.Unmarshal(drv, &d) != nil || d.Branch == "" {
		return core.Disagree("malformed driver outcome: " + string(drv))
	}
	if c15LoadCtx != nil {
		c15LoadCtx.Count("load-model-branch:" + d.Branch)
	}
	for _, c := range d.Spec {
		return core.Fail("spec:loader.modelToProject:"+c, fmt.Sprintf("load (%s) with profiles %v (effective %v), skipConsistency=%v skipResolve=%v: the loaded project violates clause %q (Props/C15Load.lean)", a.Path, a.Profiles, d.P, a.SkipConsistency, a.SkipResolve, c))
	}
	if len(r.Selected) > 0 && c15LoadCtx != nil {
		c15LoadCtx.Count("load-then-select-" + a.SelPol)
	}
	if r.SelectErr != "" {
		return core.Fail("spec:loader.modelToProject:load-select-fails", fmt.Sprintf("after a load with the consistency check (profiles %v) WithSelectedServices(%v, %s) fails: %s (load_select_never_fails)", d.P, r.Selected, a.SelPol, r.SelectErr))
	}
	if !d.Agree {
		return core.Disagree(fmt.Sprintf("load (%s) profiles %v (effective %v): real err=%q, model %s", a.Path, a.Profiles, d.P, r.Real.Err, string(d.Model)))
	}
	return nil
}

var c15LoadProfiles = []string{"pa", "pb", "pc"}

func c15GenLoad(ctx *core.Ctx) {
	c15LoadCtx = ctx
	r := ctx.Rng
	// exhaustive small scope: 2 services × profile sets {∅, {pa}, {pb}}² × the edge s1 → s0 {none, required, optional}
	// × 6 profile lists × the 4 flag combinations, through loader.Options.Profiles; the cli path on a rotating third
	n := 0
	for _, p0 := range [][]string{nil, {"pa"}, {"pb"}} {
		for _, p1 := range [][]string{nil, {"pa"}, {"pb"}} {
			for e := 0; e < 3; e++ {
				for _, ps := range [][]string{nil, {"pa"}, {"*"}, {"pb", "*"}, {""}, {"pa", "pb"}} {
					for f := 0; f < 4; f++ {
						a := c15LoadArgs{Svcs: map[string]c15LoadSvc{}, Env: map[string]string{"K1": "from-project"}, Path: "opts", Profiles: ps,
							SkipConsistency: f&1 == 1, SkipResolve: f&2 == 2, SelPol: []string{"deps", "dependents", "ignore"}[n%3], SelMask: 1 + n%3}
						a.Svcs["s0"] = c15LoadSvc{Profiles: p0, Env: []string{"K1"}}
						s1 := c15LoadSvc{Profiles: p1, Deps: map[string]bool{}, Env: []string{"K1", "K2=v"}}
						if e > 0 {
							s1.Deps["s0"] = e == 1
						}
						a.Svcs["s1"] = s1
						if n%3 == 2 && len(ps) > 0 {
							a.Path, a.Profiles = "cli", nil
							a.Env["COMPOSE_PROFILES"] = strings.Join(ps, " ,")
						}
						n++
						ctx.Count("load-exhaustive-2svc")
						ctx.Add("c15load", a)
					}
				}
			}
		}
	}
	for i := 0; i < ctx.Pick(2500, 30000); i++ {
		n := 1 + r.Intn(5)
		names := []string{}
		for j := 0; j < n; j++ {
			names = append(names, fmt.Sprintf("s%d", j))
		}
		a := c15LoadArgs{Svcs: map[string]c15LoadSvc{}, Env: map[string]string{}}
		if r.Intn(2) == 0 {
			a.Env["K1"] = "from-project"
		}
		for j, k := range names {
			s := c15LoadSvc{Deps: map[string]bool{}}
			if r.Intn(2) == 0 {
				s.Profiles = c15Pick(r, c15LoadProfiles, 0.4)
			}
			for _, dn := range names[:j] { // a DAG: edges to earlier services only
				if r.Intn(3) == 0 {
					s.Deps[dn] = r.Intn(2) == 0
				}
			}
			if r.Intn(12) == 0 {
				s.Deps["ghost"] = r.Intn(2) == 0 // an undeclared service
			}
			switch r.Intn(4) {
			case 0:
				s.Env = []string{"K1"}
			case 1:
				s.Env = []string{"K1", "K2=v", "K3"}
			case 2:
				s.Env = []string{"K2=w"}
			}
			a.Svcs[k] = s
		}
		// the profile list: none, some, `*`, `*` among others, duplicates, the empty name, an unknown one
		var ps []string
		switch r.Intn(8) {
		case 0:
		case 1:
			ps = []string{"*"}
		case 2:
			ps = append(c15Pick(r, c15LoadProfiles, 0.5), "*")
		case 3:
			ps = append([]string{"*"}, c15Pick(r, c15LoadProfiles, 0.5)...)
		case 4:
			ps = []string{"pa", "pa", "zz"}
		case 5:
			ps = []string{""}
		default:
			ps = c15Pick(r, c15LoadProfiles, 0.5)
		}
		if r.Intn(3) == 0 {
			a.Path = "cli"
			if r.Intn(2) == 0 { // through COMPOSE_PROFILES: separators with blanks, empty pieces
				sep := []string{",", " , ", ",  ", "\t,"}[r.Intn(4)]
				v := strings.Join(ps, sep)
				if r.Intn(4) == 0 {
					v = " " + v + " "
				}
				if r.Intn(5) != 0 || len(ps) > 0 {
					a.Env["COMPOSE_PROFILES"] = v
				}
				ps = nil
				ctx.Count("load-path-cli-env")
			} else {
				if r.Intn(2) == 0 {
					a.Env["COMPOSE_PROFILES"] = "pc" // must lose against the given profiles
				}
				ctx.Count("load-path-cli-given")
			}
		} else {
			a.Path = "opts"
			ctx.Count("load-path-opts")
		}
		a.Profiles = ps
		a.SkipConsistency = r.Intn(2) == 0
		a.SkipResolve = r.Intn(3) == 0
		a.SelPol, a.SelMask = []string{"deps", "dependents", "ignore"}[r.Intn(3)], r.Intn(32)
		ctx.Count(fmt.Sprintf("load-skipC=%v-skipR=%v", a.SkipConsistency, a.SkipResolve))
		ctx.Add("c15load", a)
	}
}

func init() {
	// `harness -prop C15LOAD` runs this stream alone (development)
	core.RegisterProp("C15LOAD", func(ctx *core.Ctx) { c15GenLoad(ctx); ctx.Wait() })
	core.Register("c15load", &core.CheckDef{Real: c15RealLoad, DriverOp: "c15load", DriverArgs: c15LoadDriverArgs, Judge: c15JudgeLoad, Timeout: 60 * time.Second})
}
