package c10

// C10 — a loaded project is referentially consistent; inconsistent models are rejected.
//
//	c10.consistency  correspondence + spec oracle: loader.checkConsistency on a typed project built from an
//	                 abstract record vs the Lean model (outcome ∈ the outcomes the model reaches under some
//	                 iteration order; post state) and vs the Lean *specification* `Consistent`
//	c10.cycle        the same for graph.CheckCycle alone
//	c10.cycleBatch   graph.CheckCycle over a range of numbered digraphs (one bit per digraph)
//	c10.validate     validation.Validate on an untyped tree vs the Lean model
//	c10.load         direct oracle on whole loads: valid model ⇒ loads and the returned project satisfies the
//	                 Lean decision procedure of `Consistent`; model with one broken rule ⇒ load fails
//	c10.loadGraph    whole loads of dependency digraphs (cyclic ⇒ error, acyclic ⇒ ok), repeated loads

import (
	"encoding/json"
	"fmt"
	"regexp"
	"sort"
	"strconv"
	"strings"
	"time"

	"github.com/compose-spec/compose-go/v2/graph"
	"github.com/compose-spec/compose-go/v2/loader"
	"github.com/compose-spec/compose-go/v2/types"
	"github.com/compose-spec/compose-go/v2/validation"

	"verifharness/core"
)

// ---------------------------------------------------------------- abstract project (wire format of CV.Consistency.Proj)

type absBuild struct {
	Dockerfile string   `json:"dockerfile"`
	Inline     string   `json:"inline"`
	Platforms  []string `json:"platforms"`
	Secrets    []string `json:"secrets"`
}

type absLimits struct {
	Cpus string `json:"cpus"`
	Mem  int64  `json:"mem"`
	Pids int64  `json:"pids"`
}

type absDeploy struct {
	Replicas *int       `json:"replicas"`
	Limits   *absLimits `json:"limits"`
	ResMem   *int64     `json:"res_mem"`
}

type absDep struct {
	Name     string `json:"name"`
	Required bool   `json:"required"`
}

type absSvc struct {
	Name           string      `json:"name"`
	Image          string      `json:"image"`
	Build          *absBuild   `json:"build"`
	Platform       string      `json:"platform"`
	NetworkMode    string      `json:"network_mode"`
	Networks       []string    `json:"networks"`
	Hc             *[]string   `json:"hc"`
	DependsOn      []absDep    `json:"depends_on"`
	Volumes        [][2]string `json:"volumes"`
	Configs        []string    `json:"configs"`
	Secrets        []string    `json:"secrets"`
	Scale          *int        `json:"scale"`
	Deploy         *absDeploy  `json:"deploy"`
	Cpus           string      `json:"cpus"`
	MemLimit       int64       `json:"mem_limit"`
	MemReservation int64       `json:"mem_reservation"`
	PidsLimit      int64       `json:"pids_limit"`
	ContainerName  string      `json:"container_name"`
	Watch          [][2]string `json:"watch"`
}

type absSecret struct {
	Name        string `json:"name"`
	External    bool   `json:"external"`
	File        string `json:"file"`
	Environment string `json:"environment"`
}

type absProj struct {
	Services []absSvc    `json:"services"`
	Disabled []string    `json:"disabled"`
	Networks []string    `json:"networks"`
	Volumes  []string    `json:"volumes"`
	Secrets  []absSecret `json:"secrets"`
	Configs  []string    `json:"configs"`
}

func fmtF32(f float32) string {
	if f == 0 {
		return "0"
	}
	return strconv.FormatFloat(float64(f), 'g', -1, 32)
}

func parseF32(s string) float32 {
	f, err := strconv.ParseFloat(s, 32)
	if err != nil {
		return 0
	}
	return float32(f)
}

func sortedKeys[V any](m map[string]V) []string {
	l := make([]string, 0, len(m))
	for k := range m {
		l = append(l, k)
	}
	sort.Strings(l)
	return l
}

// canon sorts every list that stands for a Go map (the wire carries maps in key order).
func (p *absProj) canon() {
	sort.Slice(p.Services, func(i, j int) bool { return p.Services[i].Name < p.Services[j].Name })
	sort.Strings(p.Disabled)
	sort.Strings(p.Networks)
	sort.Strings(p.Volumes)
	sort.Strings(p.Configs)
	sort.Slice(p.Secrets, func(i, j int) bool { return p.Secrets[i].Name < p.Secrets[j].Name })
	for i := range p.Services {
		s := &p.Services[i]
		sort.Strings(s.Networks)
		sort.Slice(s.DependsOn, func(a, b int) bool { return s.DependsOn[a].Name < s.DependsOn[b].Name })
	}
}

// buildProject turns the abstract record into the typed project the real functions take.
func buildProject(a absProj) *types.Project {
	p := &types.Project{Name: "p", Services: types.Services{}, DisabledServices: types.Services{}, Networks: types.Networks{},
		Volumes: types.Volumes{}, Secrets: types.Secrets{}, Configs: types.Configs{}}
	for _, s := range a.Services {
		p.Services[s.Name] = buildService(s)
	}
	for _, n := range a.Disabled {
		p.DisabledServices[n] = types.ServiceConfig{Name: n, Image: "off", Profiles: []string{"off"}}
	}
	for _, n := range a.Networks {
		p.Networks[n] = types.NetworkConfig{Name: n}
	}
	for _, n := range a.Volumes {
		p.Volumes[n] = types.VolumeConfig{Name: n}
	}
	for _, n := range a.Configs {
		p.Configs[n] = types.ConfigObjConfig{Name: n, File: "f"}
	}
	for _, s := range a.Secrets {
		p.Secrets[s.Name] = types.SecretConfig{Name: s.Name, External: types.External(s.External), File: s.File, Environment: s.Environment}
	}
	return p
}

func buildService(s absSvc) types.ServiceConfig {
	c := types.ServiceConfig{Name: s.Name, Image: s.Image, Platform: s.Platform, NetworkMode: s.NetworkMode,
		CPUS: parseF32(s.Cpus), MemLimit: types.UnitBytes(s.MemLimit), MemReservation: types.UnitBytes(s.MemReservation),
		PidsLimit: s.PidsLimit, ContainerName: s.ContainerName}
	if s.Build != nil {
		b := &types.BuildConfig{Context: ".", Dockerfile: s.Build.Dockerfile, DockerfileInline: s.Build.Inline}
		b.Platforms = append(b.Platforms, s.Build.Platforms...)
		for _, x := range s.Build.Secrets {
			b.Secrets = append(b.Secrets, types.ServiceSecretConfig{Source: x})
		}
		c.Build = b
	}
	if len(s.Networks) > 0 {
		c.Networks = map[string]*types.ServiceNetworkConfig{}
		for _, n := range s.Networks {
			c.Networks[n] = nil
		}
	}
	if s.Hc != nil {
		c.HealthCheck = &types.HealthCheckConfig{Test: types.HealthCheckTest(append([]string{}, (*s.Hc)...))}
	}
	if len(s.DependsOn) > 0 {
		c.DependsOn = types.DependsOnConfig{}
		for _, d := range s.DependsOn {
			c.DependsOn[d.Name] = types.ServiceDependency{Condition: types.ServiceConditionStarted, Required: d.Required}
		}
	}
	for _, v := range s.Volumes {
		c.Volumes = append(c.Volumes, types.ServiceVolumeConfig{Type: v[0], Source: v[1], Target: "/t"})
	}
	for _, x := range s.Configs {
		c.Configs = append(c.Configs, types.ServiceConfigObjConfig{Source: x})
	}
	for _, x := range s.Secrets {
		c.Secrets = append(c.Secrets, types.ServiceSecretConfig{Source: x})
	}
	if s.Scale != nil {
		v := *s.Scale
		c.Scale = &v
	}
	if s.Deploy != nil {
		d := &types.DeployConfig{}
		if s.Deploy.Replicas != nil {
			v := *s.Deploy.Replicas
			d.Replicas = &v
		}
		if s.Deploy.Limits != nil {
			d.Resources.Limits = &types.Resource{NanoCPUs: types.NanoCPUs(parseF32(s.Deploy.Limits.Cpus)),
				MemoryBytes: types.UnitBytes(s.Deploy.Limits.Mem), Pids: s.Deploy.Limits.Pids}
		}
		if s.Deploy.ResMem != nil {
			d.Resources.Reservations = &types.Resource{MemoryBytes: types.UnitBytes(*s.Deploy.ResMem)}
		}
		c.Deploy = d
	}
	if len(s.Watch) > 0 {
		dv := &types.DevelopConfig{}
		for _, w := range s.Watch {
			dv.Watch = append(dv.Watch, types.Trigger{Path: "./p", Action: types.WatchAction(w[0]), Target: w[1]})
		}
		c.Develop = dv
	}
	return c
}

// abstractProject reads back exactly the fields the consistency rules read.
func abstractProject(p *types.Project) absProj {
	a := absProj{Services: []absSvc{}, Disabled: sortedKeys(p.DisabledServices), Networks: sortedKeys(p.Networks),
		Volumes: sortedKeys(p.Volumes), Configs: sortedKeys(p.Configs), Secrets: []absSecret{}}
	for _, n := range sortedKeys(p.Secrets) {
		s := p.Secrets[n]
		a.Secrets = append(a.Secrets, absSecret{Name: n, External: bool(s.External), File: s.File, Environment: s.Environment})
	}
	for _, n := range sortedKeys(p.Services) {
		a.Services = append(a.Services, abstractService(n, p.Services[n]))
	}
	return a
}

func abstractService(key string, c types.ServiceConfig) absSvc {
	s := absSvc{Name: key, Image: c.Image, Platform: c.Platform, NetworkMode: c.NetworkMode, Cpus: fmtF32(c.CPUS),
		MemLimit: int64(c.MemLimit), MemReservation: int64(c.MemReservation), PidsLimit: c.PidsLimit, ContainerName: c.ContainerName,
		Networks: sortedKeys(c.Networks), DependsOn: []absDep{}, Volumes: [][2]string{}, Configs: []string{}, Secrets: []string{}, Watch: [][2]string{}}
	if c.Build != nil {
		b := &absBuild{Dockerfile: c.Build.Dockerfile, Inline: c.Build.DockerfileInline, Platforms: append([]string{}, c.Build.Platforms...), Secrets: []string{}}
		for _, x := range c.Build.Secrets {
			b.Secrets = append(b.Secrets, x.Source)
		}
		s.Build = b
	}
	if c.HealthCheck != nil {
		t := append([]string{}, c.HealthCheck.Test...)
		s.Hc = &t
	}
	for _, n := range sortedKeys(c.DependsOn) {
		s.DependsOn = append(s.DependsOn, absDep{Name: n, Required: c.DependsOn[n].Required})
	}
	for _, v := range c.Volumes {
		s.Volumes = append(s.Volumes, [2]string{v.Type, v.Source})
	}
	for _, x := range c.Configs {
		s.Configs = append(s.Configs, x.Source)
	}
	for _, x := range c.Secrets {
		s.Secrets = append(s.Secrets, x.Source)
	}
	if c.Scale != nil {
		v := *c.Scale
		s.Scale = &v
	}
	if c.Deploy != nil {
		d := &absDeploy{}
		if c.Deploy.Replicas != nil {
			v := *c.Deploy.Replicas
			d.Replicas = &v
		}
		if l := c.Deploy.Resources.Limits; l != nil {
			d.Limits = &absLimits{Cpus: fmtF32(l.NanoCPUs.Value()), Mem: int64(l.MemoryBytes), Pids: l.Pids}
		}
		if r := c.Deploy.Resources.Reservations; r != nil {
			v := int64(r.MemoryBytes)
			d.ResMem = &v
		}
		s.Deploy = d
	}
	if c.Develop != nil {
		for _, w := range c.Develop.Watch {
			s.Watch = append(s.Watch, [2]string{string(w.Action), w.Target})
		}
	}
	return s
}

// postDigest = per service [name, deploy.replicas, sorted depends_on names] (the fields the call may write).
func postDigest(p *types.Project) any {
	out := []any{}
	for _, n := range sortedKeys(p.Services) {
		s := p.Services[n]
		var reps any
		if s.Deploy != nil && s.Deploy.Replicas != nil {
			reps = *s.Deploy.Replicas
		}
		deps := sortedKeys(s.DependsOn)
		out = append(out, []any{n, reps, deps})
	}
	return out
}

var c10ErrClasses = []struct {
	re    *regexp.Regexp
	class string
}{
	{regexp.MustCompile(`has neither an image nor a build context`), "noImage"},
	{regexp.MustCompile(`mutualy exclusive dockerfile and dockerfile_inline`), "dockerfileExclusive"},
	{regexp.MustCompile(`service\.build\.platforms MUST include`), "platformMismatch"},
	{regexp.MustCompile("mutually exclusive `network_mode` and `networks`"), "networkModeExclusive"},
	{regexp.MustCompile(`refers to undefined network`), "undefinedNetwork"},
	{regexp.MustCompile(`healthcheck\.test must start`), "healthcheck"},
	{regexp.MustCompile(`depends on undefined service`), "undefinedDependency"},
	{regexp.MustCompile(`not found for network_mode`), "networkModeService"},
	{regexp.MustCompile(`refers to undefined volume`), "undefinedVolume"},
	{regexp.MustCompile(`refers to undefined build secret`), "undefinedBuildSecret"},
	{regexp.MustCompile(`refers to undefined config`), "undefinedConfig"},
	{regexp.MustCompile(`refers to undefined secret`), "undefinedSecret"},
	{regexp.MustCompile(`'scale' and 'deploy\.replicas'`), "scaleReplicas"},
	{regexp.MustCompile(`'cpus' and 'deploy\.resources\.limits\.cpus'`), "cpus"},
	{regexp.MustCompile(`'mem_limit' and`), "memLimit"},
	{regexp.MustCompile(`'mem_reservation' and`), "memReservation"},
	{regexp.MustCompile(`'pids_limit' and`), "pidsLimit"},
	{regexp.MustCompile(`can't set container_name and`), "containerNameScale"},
	{regexp.MustCompile(`develop\.watch: target is required`), "watchTarget"},
	{regexp.MustCompile("must declare either `file` or `environment`"), "secretSource"},
	{regexp.MustCompile(`is required by .* but is disabled`), "requiredDisabled"},
	{regexp.MustCompile(`depends on unknown service`), "unknownService"},
	{regexp.MustCompile(`dependency cycle detected`), "cycle"},
}

func c10Class(err error) string {
	t := err.Error()
	for _, c := range c10ErrClasses {
		if c.re.MatchString(t) {
			return c.class
		}
	}
	return "other:" + t
}

type projArgs struct {
	Proj absProj `json:"proj"`
	Reps int     `json:"reps"`
}

// runRepeated executes f on a fresh typed project `reps` times and returns the set of distinct outcomes.
func runRepeated(a projArgs, f func(*types.Project) error) any {
	reps := a.Reps
	if reps < 1 {
		reps = 1
	}
	seen := map[string]any{}
	for i := 0; i < reps; i++ {
		p := buildProject(a.Proj)
		var out any
		if err := f(p); err != nil {
			out = map[string]any{"err": c10Class(err)}
		} else {
			out = map[string]any{"ok": postDigest(p)}
		}
		b, _ := json.Marshal(out)
		seen[string(b)] = out
	}
	outs := []any{}
	for _, k := range sortedKeys(seen) {
		outs = append(outs, seen[k])
	}
	return map[string]any{"outs": outs}
}

type modelAnswer struct {
	Out        json.RawMessage   `json:"out"`
	Alts       []json.RawMessage `json:"alts"`
	Consistent *bool             `json:"consistent"`
	Acyclic    *bool             `json:"acyclic"`
	Broken     []string          `json:"broken"`
}

// keyNewGraph is the key of the defect repaired by fix: 3143716 (newGraph deleted the service's own depends_on entry);
// it is reported again if the old behaviour comes back: a self dependency accepted next to an optional missing one.
const keyNewGraph = "accepted-cyclic:graph.newGraph:self-dependency+optional-dependency-on-disabled-service"

func selfDepWithOptionalMissing(p absProj) bool {
	en := map[string]bool{}
	for _, s := range p.Services {
		en[s.Name] = true
	}
	for _, s := range p.Services {
		self, opt := false, false
		for _, d := range s.DependsOn {
			self = self || d.Name == s.Name
			opt = opt || (!en[d.Name] && !d.Required)
		}
		if self && opt {
			return true
		}
	}
	return false
}

// judgeOutcomes: every real outcome must be one the model reaches under some iteration order; the spec decides the property.
func judgeOutcomes(what string, specOf func(modelAnswer) *bool) func(args, real, drv json.RawMessage) *core.Verdict {
	return func(args, real, drv json.RawMessage) *core.Verdict {
		if v := c10Crash(real); v != nil {
			return v
		}
		var r struct {
			Outs []json.RawMessage `json:"outs"`
		}
		var d modelAnswer
		if json.Unmarshal(real, &r) != nil || len(r.Outs) == 0 || json.Unmarshal(drv, &d) != nil || len(d.Alts) == 0 {
			return core.Disagree("malformed exchange: " + string(real) + " / " + string(drv))
		}
		inAlts := func(o json.RawMessage) bool {
			for _, a := range d.Alts {
				if core.CanonEqual(o, a) {
					return true
				}
			}
			return false
		}
		realOK, realErr := false, ""
		for _, o := range r.Outs {
			if core.Class(o) == "ok" {
				realOK = true
			} else {
				var e struct {
					Err string `json:"err"`
				}
				json.Unmarshal(o, &e)
				realErr = e.Err
			}
		}
		// ---- the property, decided by the specification
		if spec := specOf(d); spec != nil {
			if realOK && !*spec {
				var pa struct {
					Proj absProj `json:"proj"`
				}
				json.Unmarshal(args, &pa)
				if len(d.Broken) <= 1 && (len(d.Broken) == 0 || d.Broken[0] == "cycle") && selfDepWithOptionalMissing(pa.Proj) {
					return core.Fail(keyNewGraph, fmt.Sprintf("%s accepts a project whose dependency graph has a cycle (outcomes over %d runs: %s)", what, len(r.Outs), real))
				}
				broken := strings.Join(d.Broken, "+")
				if broken == "" {
					broken = "cycle"
				}
				return core.Fail("accepted-inconsistent:"+broken, fmt.Sprintf("%s = nil but the project breaks %v", what, broken))
			}
			if realErr != "" && *spec {
				return core.Fail("rejected-consistent:"+realErr, fmt.Sprintf("%s rejects (%s) a project the specification calls consistent", what, realErr))
			}
		}
		// ---- correspondence
		for _, o := range r.Outs {
			if !inAlts(o) {
				return core.Disagree(fmt.Sprintf("real outcome %s not among the model's outcomes %s", o, drv))
			}
		}
		if len(d.Alts) == 1 && len(r.Outs) != 1 {
			return core.Disagree("model is deterministic here, real code is not")
		}
		return nil
	}
}

// c10Crash: a panic or a dead process is a failure to answer with an error (property violation); a watchdog timeout
// is not decided here (the machine may simply be overloaded; non-termination is property C01's subject).
func c10Crash(real json.RawMessage) *core.Verdict {
	if core.Class(real) == "hang" {
		return core.Skip("no answer within the watchdog time")
	}
	return core.CrashVerdict(real)
}

const c10Timeout = 180 * time.Second

// ---------------------------------------------------------------- digraph batches

type batchArgs struct {
	N     int  `json:"n"`
	Loops bool `json:"loops"`
	From  int  `json:"from"`
	Count int  `json:"count"`
}

// graphEdges decodes digraph number k: bit b = b-th pair (i,j) in row-major order (self pairs only with loops).
func graphEdges(n int, loops bool, k int) [][2]int {
	var es [][2]int
	b := 0
	for i := 0; i < n; i++ {
		for j := 0; j < n; j++ {
			if !loops && i == j {
				continue
			}
			if k&(1<<b) != 0 {
				es = append(es, [2]int{i, j})
			}
			b++
		}
	}
	return es
}

func graphBits(n int, loops bool) int {
	if loops {
		return n * n
	}
	return n * (n - 1)
}

func graphAbs(n int, loops bool, k int) absProj {
	a := absProj{}
	for i := 0; i < n; i++ {
		a.Services = append(a.Services, absSvc{Name: "s" + strconv.Itoa(i), Image: "i", Cpus: "0"})
	}
	for _, e := range graphEdges(n, loops, k) {
		a.Services[e[0]].DependsOn = append(a.Services[e[0]].DependsOn, absDep{Name: "s" + strconv.Itoa(e[1]), Required: true})
	}
	return a
}

// cyclic is the independent decision used for failure keys: repeated removal of vertices without outgoing edges.
func cyclic(n int, es [][2]int) bool {
	alive := make([]bool, n)
	for i := range alive {
		alive[i] = true
	}
	for changed := true; changed; {
		changed = false
		for v := 0; v < n; v++ {
			if !alive[v] {
				continue
			}
			out := false
			for _, e := range es {
				if e[0] == v && alive[e[1]] {
					out = true
				}
			}
			if !out {
				alive[v] = false
				changed = true
			}
		}
	}
	for _, a := range alive {
		if a {
			return true
		}
	}
	return false
}

// ---------------------------------------------------------------- registration

func init() {
	core.Register("c10.consistency", &core.CheckDef{
		Real: func(raw json.RawMessage) any {
			var a projArgs
			json.Unmarshal(raw, &a)
			return runRepeated(a, loader.VerifCheckConsistency)
		},
		DriverOp: "c10.consistency",
		Judge:    judgeOutcomes("checkConsistency", func(d modelAnswer) *bool { return d.Consistent }),
		Timeout:  c10Timeout,
	})
	core.Register("c10.cycle", &core.CheckDef{
		Real: func(raw json.RawMessage) any {
			var a projArgs
			json.Unmarshal(raw, &a)
			return runRepeated(a, graph.CheckCycle)
		},
		DriverOp: "c10.cycle",
		Judge: judgeOutcomes("graph.CheckCycle", func(d modelAnswer) *bool {
			// CheckCycle alone also reports dangling required dependencies; the spec of this op is acyclicity,
			// which only decides the outcome when the graph can be built
			for _, a := range d.Alts {
				if c := core.Class(a); c == "err" && !strings.Contains(string(a), `"cycle"`) {
					return nil
				}
			}
			return d.Acyclic
		}),
		Timeout: c10Timeout,
	})
	core.Register("c10.cycleBatch", &core.CheckDef{
		Real: func(raw json.RawMessage) any {
			var a batchArgs
			json.Unmarshal(raw, &a)
			var sb strings.Builder
			for k := a.From; k < a.From+a.Count; k++ {
				err := graph.CheckCycle(buildProject(graphAbs(a.N, a.Loops, k)))
				switch {
				case err == nil:
					sb.WriteByte('0')
				case c10Class(err) == "cycle":
					sb.WriteByte('1')
				default:
					sb.WriteByte('e')
				}
			}
			return map[string]any{"bits": sb.String()}
		},
		DriverOp: "c10.cycleBatch",
		Judge: func(args, real, drv json.RawMessage) *core.Verdict {
			if v := c10Crash(real); v != nil {
				return v
			}
			var a batchArgs
			var r, d struct {
				Bits string `json:"bits"`
			}
			json.Unmarshal(args, &a)
			if json.Unmarshal(real, &r) != nil || json.Unmarshal(drv, &d) != nil || len(r.Bits) != a.Count || len(d.Bits) != a.Count {
				return core.Disagree("malformed batch exchange")
			}
			for i := 0; i < a.Count; i++ {
				es := graphEdges(a.N, a.Loops, a.From+i)
				want := byte('0')
				if cyclic(a.N, es) {
					want = '1'
				}
				if r.Bits[i] != want {
					key := "cycle-check:accepted-cyclic-digraph"
					if want == '0' {
						key = "cycle-check:rejected-acyclic-digraph"
					}
					return core.Fail(key, fmt.Sprintf("graph.CheckCycle on %d services with edges %v answers %q", a.N, es, r.Bits[i]))
				}
				if d.Bits[i] != r.Bits[i] {
					return core.Disagree(fmt.Sprintf("digraph n=%d edges %v: real %q model %q", a.N, es, r.Bits[i], d.Bits[i]))
				}
			}
			return nil
		},
		Timeout: c10Timeout,
	})
	core.Register("c10.validate", &core.CheckDef{
		Real: func(raw json.RawMessage) any {
			var a struct {
				Tree json.RawMessage `json:"tree"`
			}
			json.Unmarshal(raw, &a)
			t, ok := core.DecodeValRaw(a.Tree).(map[string]any)
			if !ok {
				return map[string]any{"bad": "not a mapping"}
			}
			if err := validation.Validate(t); err != nil {
				return map[string]any{"err": validateClass(err)}
			}
			return map[string]any{"ok": nil}
		},
		DriverOp: "c10.validate",
		Judge: func(args, real, drv json.RawMessage) *core.Verdict {
			if c := core.Class(real); c == "fatal" || c == "hang" {
				return c10Crash(real)
			}
			var d struct {
				Out   json.RawMessage   `json:"out"`
				Alts  []json.RawMessage `json:"alts"`
				Valid bool              `json:"valid"`
			}
			if json.Unmarshal(drv, &d) != nil || d.Out == nil {
				return core.Disagree("malformed exchange: " + string(drv))
			}
			// the model is the specification here (`validate_iff`): the structural rules are decided on the real outcome
			if len(d.Alts) == 0 {
				if core.Class(real) == "err" {
					var e struct {
						Err string `json:"err"`
					}
					json.Unmarshal(real, &e)
					return core.Fail("validate:rejected-valid-tree:"+e.Err, fmt.Sprintf("validation.Validate rejects (%s) a tree in which every checked node satisfies its rule", e.Err))
				}
				if core.Class(real) != "ok" {
					return core.Disagree(fmt.Sprintf("model accepts, real: %s", real))
				}
				return nil
			}
			if core.Class(real) == "ok" {
				onlyErrs, first := true, ""
				for _, a := range d.Alts {
					if core.Class(a) != "err" {
						onlyErrs = false
					} else if first == "" {
						var e struct {
							Err string `json:"err"`
						}
						json.Unmarshal(a, &e)
						first = e.Err
					}
				}
				if onlyErrs {
					return core.Fail("validate:accepted-invalid-tree:"+first, fmt.Sprintf("validation.Validate = nil on a tree that breaks a structural rule (%s)", first))
				}
			}
			for _, a := range d.Alts {
				if core.CanonEqual(real, a) {
					return nil
				}
			}
			return core.Disagree(fmt.Sprintf("real outcome %s not among the model's failures %s", real, drv))
		},
		Timeout: c10Timeout,
	})
	core.RegisterProp("C10", runC10)
}

var validateClasses = []struct {
	re    *regexp.Regexp
	class string
}{
	{regexp.MustCompile(`attributes are mutually exclusive`), "exclusive"},
	{regexp.MustCompile(`one of .* must be set`), "missing"},
	{regexp.MustCompile(`value can't be blank`), "blank"},
	{regexp.MustCompile(`"count" and "device_ids" attributes are exclusive`), "countAndIds"},
	{regexp.MustCompile(`conflicting parameters "external" and`), "conflictingExternal"},
	{regexp.MustCompile(`^expected volume, got`), "expectedVolume"},
	{regexp.MustCompile(`\.external: invalid boolean: `), "invalidBoolean"},
}

func validateClass(err error) string {
	t := err.Error()
	for _, c := range validateClasses {
		if c.re.MatchString(t) {
			return c.class
		}
	}
	return "other:" + t
}
