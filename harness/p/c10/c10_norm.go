package c10

// c10.normDeps — correspondence for the implicit dependencies of loader.Normalize (links, `service:` namespaces,
// volumes_from → depends_on) vs Model/NormalizeDeps.lean.

import (
	"encoding/json"
	"fmt"
	"sort"
	"strconv"

	"github.com/compose-spec/compose-go/v2/loader"

	"verifharness/core"
)

type normArgs struct {
	DependsOn   []absDep `json:"depends_on"`
	Links       []string `json:"links"`
	Namespaces  []string `json:"namespaces"` // values of network_mode, ipc, pid, uts, cgroup that are set (same order)
	VolumesFrom []string `json:"volumes_from"`
	// which namespace attribute carries Namespaces[i]
	NsKeys []string `json:"ns_keys"`
}

var nsOrder = []string{"network_mode", "ipc", "pid", "uts", "cgroup"}

func init() {
	core.Register("c10.normDeps", &core.CheckDef{
		Real: func(raw json.RawMessage) any {
			var a normArgs
			json.Unmarshal(raw, &a)
			svc := map[string]any{"image": "i"}
			if len(a.DependsOn) > 0 {
				d := map[string]any{}
				for _, x := range a.DependsOn {
					d[x.Name] = map[string]any{"condition": "service_started", "required": x.Required}
				}
				svc["depends_on"] = d
			}
			if a.Links != nil {
				l := []any{}
				for _, x := range a.Links {
					l = append(l, x)
				}
				svc["links"] = l
			}
			for i, k := range a.NsKeys {
				svc[k] = a.Namespaces[i]
			}
			if a.VolumesFrom != nil {
				l := []any{}
				for _, x := range a.VolumesFrom {
					l = append(l, x)
				}
				svc["volumes_from"] = l
			}
			dict := map[string]any{"services": map[string]any{"s": svc}}
			out, err := loader.Normalize(dict, map[string]string{})
			if err != nil {
				return map[string]any{"err": err.Error()}
			}
			s := out["services"].(map[string]any)["s"].(map[string]any)
			deps := [][]any{}
			if d, ok := s["depends_on"].(map[string]any); ok {
				names := make([]string, 0, len(d))
				for n := range d {
					names = append(names, n)
				}
				sort.Strings(names)
				for _, n := range names {
					req, _ := d[n].(map[string]any)["required"].(bool)
					deps = append(deps, []any{n, req})
				}
			}
			return map[string]any{"deps": deps}
		},
		DriverOp: "c10.normDeps",
		Judge: func(args, real, drv json.RawMessage) *core.Verdict {
			if v := c10Crash(real); v != nil {
				return v
			}
			if !core.CanonEqual(real, drv) {
				return core.Disagree(fmt.Sprintf("Normalize depends_on: real %s model %s", real, drv))
			}
			return nil
		},
		Timeout: c10Timeout,
	})
}

var normStrings = []string{"a", "b", "a:x", "b:y:z", ":a", "a:", "", "service:a", "service:", "service:b:c", "container:a", "container:", "servicea", "host", "a:ro"}

func runC10Norm(ctx *core.Ctx) {
	add := func(a normArgs) {
		// namespaces in the order Normalize reads them
		var ns []string
		var keys []string
		for i, k := range a.NsKeys {
			_ = i
			keys = append(keys, k)
		}
		ordered := []string{}
		for _, k := range nsOrder {
			for i, kk := range keys {
				if kk == k {
					ordered = append(ordered, k)
					ns = append(ns, a.Namespaces[i])
				}
			}
		}
		a.NsKeys, a.Namespaces = ordered, ns
		ctx.Add("c10.normDeps", a)
	}
	// exhaustive: one link × one namespace value × one volumes_from × explicit depends_on on a (none / required / optional)
	for _, l := range normStrings {
		for _, n := range normStrings {
			for _, v := range normStrings {
				for d := 0; d < 3; d++ {
					a := normArgs{Links: []string{l}, Namespaces: []string{n}, NsKeys: []string{nsOrder[(len(l)+len(v))%5]}, VolumesFrom: []string{v}}
					if d > 0 {
						a.DependsOn = []absDep{{Name: "a", Required: d == 1}}
					}
					ctx.Count("norm:triple")
					add(a)
				}
			}
		}
	}
	// seeded random: several entries of each kind, several namespace attributes
	r := ctx.Rng
	pick := func() string { return normStrings[r.Intn(len(normStrings))] }
	for i := 0; i < ctx.Pick(1500, 30000); i++ {
		a := normArgs{}
		for j := 0; j < r.Intn(3); j++ {
			a.Links = append(a.Links, pick())
		}
		for j := 0; j < r.Intn(3); j++ {
			a.VolumesFrom = append(a.VolumesFrom, pick())
		}
		for _, k := range nsOrder {
			if r.Intn(3) == 0 {
				a.NsKeys = append(a.NsKeys, k)
				a.Namespaces = append(a.Namespaces, pick())
			}
		}
		seen := map[string]bool{}
		for j := 0; j < r.Intn(3); j++ {
			n := []string{"a", "b", "a:x", "c" + strconv.Itoa(j)}[r.Intn(4)]
			if !seen[n] {
				seen[n] = true
				a.DependsOn = append(a.DependsOn, absDep{Name: n, Required: r.Intn(2) == 0})
			}
		}
		sort.Slice(a.DependsOn, func(x, y int) bool { return a.DependsOn[x].Name < a.DependsOn[y].Name })
		ctx.Count("norm:random")
		add(a)
	}
}
