package c10

// C10 generators for the typed-project and untyped-tree correspondence streams.

import (
	"os"
	"math/rand"
	"strconv"

	"verifharness/core"
)

func intp(i int) *int       { return &i }
func int64p(i int64) *int64 { return &i }

// the fixed environment of the small-scope stream: service under test "a", an enabled peer "s1", a disabled "off",
// declared resources n1 / v1 / c1 / sec1
func envProj(a absSvc, extra ...absSvc) absProj {
	p := absProj{
		Services: append([]absSvc{a, {Name: "s1", Image: "i", Cpus: "0"}}, extra...),
		Disabled: []string{"off"}, Networks: []string{"n1"}, Volumes: []string{"v1"}, Configs: []string{"c1"},
		Secrets: []absSecret{{Name: "sec1", File: "f"}},
	}
	p.canon()
	return p
}

func baseSvc(name string) absSvc { return absSvc{Name: name, Image: "img", Cpus: "0"} }

func ensureDeploy(s *absSvc) *absDeploy {
	if s.Deploy == nil {
		s.Deploy = &absDeploy{}
	}
	return s.Deploy
}

func ensureLimits(s *absSvc) *absLimits {
	d := ensureDeploy(s)
	if d.Limits == nil {
		d.Limits = &absLimits{Cpus: "0"}
	}
	return d.Limits
}

type variant struct {
	name  string
	valid bool // does not by itself break a rule
	f     func(s *absSvc)
}

type group struct {
	name     string
	variants []variant
}

// c10Groups: per feature group, the variants (valid and violating) of the fields one or two rules read.
func c10Groups() []group {
	hc := func(l ...string) func(*absSvc) {
		return func(s *absSvc) { t := append([]string{}, l...); s.Hc = &t }
	}
	dep := func(ds ...absDep) func(*absSvc) {
		return func(s *absSvc) { s.DependsOn = append(s.DependsOn, ds...) }
	}
	gs := []group{
		{"image", []variant{
			{"img", true, func(s *absSvc) {}},
			{"none", false, func(s *absSvc) { s.Image = "" }},
			{"buildOnly", true, func(s *absSvc) { s.Image = ""; s.Build = &absBuild{} }},
		}},
		{"build", []variant{
			{"nil", true, func(s *absSvc) {}},
			{"plain", true, func(s *absSvc) { s.Build = &absBuild{Dockerfile: "Dockerfile"} }},
			{"inline", true, func(s *absSvc) { s.Build = &absBuild{Inline: "FROM x"} }},
			{"both", false, func(s *absSvc) { s.Build = &absBuild{Dockerfile: "D", Inline: "FROM x"} }},
			{"platOK", true, func(s *absSvc) { s.Build = &absBuild{Platforms: []string{"p1", "p2"}}; s.Platform = "p2" }},
			{"platBad", false, func(s *absSvc) { s.Build = &absBuild{Platforms: []string{"p1"}}; s.Platform = "p3" }},
			{"platUnset", true, func(s *absSvc) { s.Build = &absBuild{Platforms: []string{"p1"}} }},
			{"platNoBuild", true, func(s *absSvc) { s.Platform = "p3" }},
			{"secretOK", true, func(s *absSvc) { s.Build = &absBuild{Secrets: []string{"sec1"}} }},
			{"secretBad", false, func(s *absSvc) { s.Build = &absBuild{Secrets: []string{"sec1", "ghost"}} }},
		}},
		{"network_mode", []variant{
			{"unset", true, func(s *absSvc) {}},
			{"host", true, func(s *absSvc) { s.NetworkMode = "host" }},
			{"svcOK", true, func(s *absSvc) { s.NetworkMode = "service:s1" }},
			{"svcGhost", false, func(s *absSvc) { s.NetworkMode = "service:ghost" }},
			{"svcOff", false, func(s *absSvc) { s.NetworkMode = "service:off" }},
			{"svcEmpty", false, func(s *absSvc) { s.NetworkMode = "service:" }},
			{"svcSelf", true, func(s *absSvc) { s.NetworkMode = "service:" + s.Name }},
			{"almost", true, func(s *absSvc) { s.NetworkMode = "service" }},
			{"container", true, func(s *absSvc) { s.NetworkMode = "container:ghost" }},
		}},
		{"networks", []variant{
			{"none", true, func(s *absSvc) {}},
			{"ok", true, func(s *absSvc) { s.Networks = []string{"n1"} }},
			{"ghost", false, func(s *absSvc) { s.Networks = []string{"ghost"} }},
			{"mixed", false, func(s *absSvc) { s.Networks = []string{"ghost", "n1"} }},
		}},
		{"healthcheck", []variant{
			{"nil", true, func(s *absSvc) {}},
			{"empty", true, hc()},
			{"cmd", true, hc("CMD", "true")},
			{"shell", true, hc("CMD-SHELL", "true")},
			{"none", true, hc("NONE")},
			{"bad", false, hc("cmd", "true")},
			{"blank", false, hc("")},
		}},
		{"depends_on", []variant{
			{"none", true, func(s *absSvc) {}},
			{"ok", true, dep(absDep{"s1", true})},
			{"okOpt", true, dep(absDep{"s1", false})},
			{"ghost", false, dep(absDep{"ghost", true})},
			{"ghostOpt", false, dep(absDep{"ghost", false})},
			{"offReq", false, dep(absDep{"off", true})},
			{"offOpt", true, dep(absDep{"off", false})},
			{"mixed", false, dep(absDep{"s1", true}, absDep{"off", false}, absDep{"ghost", false})},
		}},
		{"volumes", []variant{
			{"none", true, func(s *absSvc) {}},
			{"ok", true, func(s *absSvc) { s.Volumes = [][2]string{{"volume", "v1"}} }},
			{"ghost", false, func(s *absSvc) { s.Volumes = [][2]string{{"volume", "v1"}, {"volume", "ghost"}} }},
			{"anonymous", true, func(s *absSvc) { s.Volumes = [][2]string{{"volume", ""}} }},
			{"bind", true, func(s *absSvc) { s.Volumes = [][2]string{{"bind", "ghost"}, {"tmpfs", ""}} }},
		}},
		{"configs", []variant{
			{"none", true, func(s *absSvc) {}},
			{"ok", true, func(s *absSvc) { s.Configs = []string{"c1"} }},
			{"ghost", false, func(s *absSvc) { s.Configs = []string{"c1", "ghost"} }},
		}},
		{"secrets", []variant{
			{"none", true, func(s *absSvc) {}},
			{"ok", true, func(s *absSvc) { s.Secrets = []string{"sec1"} }},
			{"ghost", false, func(s *absSvc) { s.Secrets = []string{"ghost"} }},
		}},
		{"container_name", []variant{
			{"unset", true, func(s *absSvc) {}},
			{"set", true, func(s *absSvc) { s.ContainerName = "c" }},
		}},
		{"watch", []variant{
			{"none", true, func(s *absSvc) {}},
			{"rebuild", true, func(s *absSvc) { s.Watch = [][2]string{{"rebuild", ""}} }},
			{"sync", true, func(s *absSvc) { s.Watch = [][2]string{{"sync", "/t"}} }},
			{"syncNoTarget", false, func(s *absSvc) { s.Watch = [][2]string{{"rebuild", ""}, {"sync", ""}} }},
			{"restartNoTarget", false, func(s *absSvc) { s.Watch = [][2]string{{"sync+restart", ""}} }},
		}},
	}
	// scale × deploy.replicas
	sc := group{name: "scale"}
	for _, scale := range []*int{nil, intp(0), intp(1), intp(2), intp(3)} {
		for di, reps := range []*int{nil, nil, intp(1), intp(2), intp(3)} {
			scale, reps, di := scale, reps, di
			valid := !(scale != nil && di >= 2 && *scale != *reps)
			name := "scale"
			if scale != nil {
				name += strconv.Itoa(*scale)
			}
			name += "/"
			if di > 0 {
				name += "deploy"
			}
			if reps != nil {
				name += strconv.Itoa(*reps)
			}
			sc.variants = append(sc.variants, variant{name, valid, func(s *absSvc) {
				s.Scale = scale
				if di > 0 {
					ensureDeploy(s).Replicas = reps
				}
			}})
		}
	}
	gs = append(gs, sc)
	// cpus / mem_limit / pids_limit × deploy.resources.limits ; mem_reservation × reservations
	cp := group{name: "cpus"}
	for _, c := range []string{"0", "0.5", "1.5"} {
		for li, l := range []string{"", "", "0", "0.5", "1.5"} {
			c, l, li := c, l, li
			valid := !(c != "0" && li >= 2 && c != l)
			cp.variants = append(cp.variants, variant{"cpus" + c + "/" + strconv.Itoa(li) + l, valid, func(s *absSvc) {
				s.Cpus = c
				if li == 1 {
					ensureDeploy(s)
				}
				if li >= 2 {
					ensureLimits(s).Cpus = l
				}
			}})
		}
	}
	gs = append(gs, cp)
	num := func(name string, set func(s *absSvc, v int64), lim func(s *absSvc, v int64)) group {
		g := group{name: name}
		for _, c := range []int64{0, 64, 128} {
			for li, l := range []int64{0, 0, 0, 64, 128} {
				c, l, li := c, l, li
				valid := !(c != 0 && li >= 2 && c != l)
				g.variants = append(g.variants, variant{name + strconv.FormatInt(c, 10) + "/" + strconv.Itoa(li), valid, func(s *absSvc) {
					set(s, c)
					if li == 1 {
						ensureDeploy(s)
					}
					if li >= 2 {
						lim(s, l)
					}
				}})
			}
		}
		return g
	}
	gs = append(gs,
		num("mem_limit", func(s *absSvc, v int64) { s.MemLimit = v }, func(s *absSvc, v int64) { ensureLimits(s).Mem = v }),
		num("pids_limit", func(s *absSvc, v int64) { s.PidsLimit = v }, func(s *absSvc, v int64) { ensureLimits(s).Pids = v }),
		num("mem_reservation", func(s *absSvc, v int64) { s.MemReservation = v }, func(s *absSvc, v int64) { ensureDeploy(s).ResMem = int64p(v) }),
	)
	return gs
}

func repsFor(p absProj) int {
	for _, s := range p.Services {
		for _, d := range s.DependsOn {
			if d.Name == s.Name {
				return 64
			}
		}
	}
	return 6
}

// optGraphAbs: n enabled services s0.., one disabled service "off"; code k selects the edges si→sj (self loops
// included, required) and, in the high bits, an optional edge si→off per service.
func optGraphAbs(n, k int) absProj {
	a := graphAbs(n, true, k&(1<<(n*n)-1))
	a.Disabled = []string{"off"}
	for i := 0; i < n; i++ {
		if k&(1<<(n*n+i)) != 0 {
			a.Services[i].DependsOn = append(a.Services[i].DependsOn, absDep{Name: "off", Required: false})
		}
	}
	a.canon()
	return a
}

func randomAbsProj(r *rand.Rand, gs []group) absProj {
	n := 1 + r.Intn(4)
	names := []string{"a", "b", "c", "d"}[:n]
	p := absProj{Disabled: []string{"off"}, Networks: []string{"n1"}, Volumes: []string{"v1"}, Configs: []string{"c1"},
		Secrets: []absSecret{{Name: "sec1", File: "f"}}}
	p.Services = append(p.Services, absSvc{Name: "s1", Image: "i", Cpus: "0"})
	pBad := []float64{0, 0.03, 0.15}[r.Intn(3)]
	for _, nm := range names {
		s := baseSvc(nm)
		for _, g := range gs {
			if r.Intn(3) != 0 {
				continue
			}
			// choose a variant: valid ones mostly
			for try := 0; try < 20; try++ {
				v := g.variants[r.Intn(len(g.variants))]
				if v.valid || r.Float64() < pBad*3 {
					v.f(&s)
					break
				}
			}
		}
		// random dependencies among the services of this project
		for _, o := range names {
			if r.Intn(5) == 0 && (o != nm || r.Intn(4) == 0) {
				dup := false
				for _, d := range s.DependsOn {
					dup = dup || d.Name == o
				}
				if !dup {
					s.DependsOn = append(s.DependsOn, absDep{o, r.Intn(3) != 0})
				}
			}
		}
		// de-duplicate depends_on names (it is a map)
		seen := map[string]bool{}
		var ds []absDep
		for _, d := range s.DependsOn {
			if !seen[d.Name] {
				seen[d.Name] = true
				ds = append(ds, d)
			}
		}
		s.DependsOn = ds
		p.Services = append(p.Services, s)
	}
	switch r.Intn(12) {
	case 0:
		p.Secrets = append(p.Secrets, absSecret{Name: "nosrc"})
	case 1:
		p.Secrets = append(p.Secrets, absSecret{Name: "ext", External: true})
	case 2:
		p.Secrets = append(p.Secrets, absSecret{Name: "env", Environment: "E"})
	}
	p.canon()
	return p
}

func runC10Typed(ctx *core.Ctx) {
	gs := c10Groups()
	// ---- exhaustive small scope: every single variant, every pair of variants of two different groups
	for gi, g := range gs {
		for _, v := range g.variants {
			s := baseSvc("a")
			v.f(&s)
			p := envProj(s)
			ctx.Count("typed:single")
			ctx.Add("c10.consistency", projArgs{p, repsFor(p)})
		}
		for gj := gi + 1; gj < len(gs); gj++ {
			for _, v := range g.variants {
				for _, w := range gs[gj].variants {
					s := baseSvc("a")
					v.f(&s)
					w.f(&s)
					p := envProj(s)
					if v.valid && w.valid {
						ctx.Count("typed:pair:valid-variants")
					} else {
						ctx.Count("typed:pair:violating-variant")
					}
					ctx.Add("c10.consistency", projArgs{p, repsFor(p)})
				}
			}
		}
	}
	// two services each with one violation (which error is reported depends on Go's map order)
	for gi, g := range gs {
		for _, v := range g.variants {
			if v.valid {
				continue
			}
			w := gs[(gi+3)%len(gs)].variants
			for _, x := range w {
				if x.valid {
					continue
				}
				a, b := baseSvc("a"), baseSvc("b")
				v.f(&a)
				x.f(&b)
				p := envProj(a, b)
				ctx.Count("typed:two-violating-services")
				ctx.Add("c10.consistency", projArgs{p, 24})
			}
		}
	}
	// secrets at project level
	for _, sec := range []absSecret{{Name: "x"}, {Name: "x", External: true}, {Name: "x", File: "f"}, {Name: "x", Environment: "E"}, {Name: "x", File: "f", Environment: "E"}} {
		p := envProj(baseSvc("a"))
		p.Secrets = append(p.Secrets, sec)
		p.canon()
		ctx.Count("typed:secret")
		ctx.Add("c10.consistency", projArgs{p, 4})
	}
	// ---- all digraphs (with self loops) on ≤ 3 services, plus optional edges to a disabled service, as typed projects
	maxN := ctx.Pick(2, 3)
	for n := 1; n <= maxN; n++ {
		for k := 0; k < 1<<(n*n+n); k++ {
			p := optGraphAbs(n, k)
			ctx.Count("typed:digraph+optional-disabled:n=" + strconv.Itoa(n))
			ctx.Add("c10.consistency", projArgs{p, repsFor(p)})
			ctx.Add("c10.cycle", projArgs{p, repsFor(p)})
		}
	}
	// CheckCycle alone with required dependencies on unknown / disabled services
	for k := 0; k < 81; k++ {
		kinds := []int{k % 3, (k / 3) % 3, (k / 9) % 3, (k / 27) % 3}
		p := absProj{Disabled: []string{"off"}}
		a, b := absSvc{Name: "a", Image: "i", Cpus: "0"}, absSvc{Name: "b", Image: "i", Cpus: "0"}
		add := func(s *absSvc, name string, kind int) {
			switch kind {
			case 1:
				s.DependsOn = append(s.DependsOn, absDep{name, true})
			case 2:
				s.DependsOn = append(s.DependsOn, absDep{name, false})
			}
		}
		add(&a, "off", kinds[0])
		add(&a, "ghost", kinds[1])
		add(&b, "off", kinds[2])
		add(&b, "ghost", kinds[3])
		a.DependsOn = append(a.DependsOn, absDep{"b", true})
		if k%2 == 0 {
			b.DependsOn = append(b.DependsOn, absDep{"a", true})
		}
		p.Services = []absSvc{a, b}
		p.canon()
		ctx.Count("typed:cycle-op:dangling")
		ctx.Add("c10.cycle", projArgs{p, 24})
	}
	// ---- digraph batches through graph.CheckCycle: all digraphs without self loops on ≤4 (quick) / ≤5 (thorough) services,
	//      all digraphs with self loops on ≤3 (quick) / ≤4 (thorough)
	batch := func(n int, loops bool, from, count int) {
		ctx.Count("digraph-batch:n=" + strconv.Itoa(n) + map[bool]string{true: ":loops", false: ""}[loops])
		ctx.Add("c10.cycleBatch", batchArgs{n, loops, from, count})
	}
	all := func(n int, loops bool) {
		total := 1 << graphBits(n, loops)
		step := 2048
		if total > 1<<22 {
			step = 16384
		}
		for from := 0; from < total; from += step {
			c := step
			if from+c > total {
				c = total - from
			}
			batch(n, loops, from, c)
		}
	}
	for n := 1; n <= ctx.Pick(4, 5); n++ {
		all(n, false)
	}
	// with self loops: exhaustive on ≤ 3 services (quick) / ≤ 5 services (thorough: 2^25 digraphs on 5 services)
	for n := 1; n <= ctx.Pick(3, 5); n++ {
		all(n, true)
	}
	// quick tier: a seeded sample of the 5-vertex digraphs; both tiers: samples of 6-vertex digraphs (with loops)
	for i := 0; i < ctx.Pick(24, 0); i++ {
		batch(5, false, ctx.Rng.Intn(1<<20-512), 512)
	}
	for i := 0; i < ctx.Pick(8, 64); i++ {
		if !ctx.Thorough() {
			batch(5, true, ctx.Rng.Intn(1<<25-256), 256)
		}
		batch(6, true, ctx.Rng.Intn(1<<36-128), 128)
	}
	ctx.Wait()
	// ---- seeded random typed projects
	for i := 0; i < ctx.Pick(3000, 60000); i++ {
		p := randomAbsProj(ctx.Rng, gs)
		ctx.Count("typed:random")
		ctx.Add("c10.consistency", projArgs{p, repsFor(p)})
	}
}

func runC10(ctx *core.Ctx) {
	if os.Getenv("C10_ONLY") == "opts" { // development aid: the option-shape stream alone
		runC10Cast(ctx)
		runC10Opts(ctx)
		return
	}
	runC10Typed(ctx)
	runC10Tree(ctx)
	runC10Norm(ctx)
	runC10Path(ctx)
	runC10Loads(ctx)
	runC10Glue(ctx)
	runC10MergeValidate(ctx)
	runC10Cast(ctx)
	runC10Opts(ctx)
	ctx.Res.Exhaustive = true // the small-scope streams above are enumerated completely (see design/C10.md)
}
