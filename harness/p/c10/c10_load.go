package c10

// C10 direct oracle on whole loads (loader.LoadWithContext on generated directory trees).

import (
	"encoding/json"
	"fmt"
	"math/rand"
	"os"
	"sort"
	"strconv"
	"strings"

	"verifharness/core"
)

type M = map[string]any

func toJSONText(v any) string {
	b, err := json.MarshalIndent(v, "", " ")
	if err != nil {
		panic(err)
	}
	return string(b) + "\n"
}

// deepMerge merges b into a copy of a (mappings recursively, sequences appended, scalars replaced).
func deepMerge(a, b any) any {
	switch x := a.(type) {
	case M:
		y, ok := b.(M)
		if !ok {
			return core.DeepCopyVal(b)
		}
		out := M{}
		for k, v := range x {
			out[k] = core.DeepCopyVal(v)
		}
		for k, v := range y {
			if old, ok := out[k]; ok {
				out[k] = deepMerge(old, v)
			} else {
				out[k] = core.DeepCopyVal(v)
			}
		}
		return out
	case []any:
		if y, ok := b.([]any); ok {
			return append(append([]any{}, x...), y...)
		}
	}
	return core.DeepCopyVal(b)
}

// ---------------------------------------------------------------- valid models

type validModel struct {
	services M // name → service mapping
	top      M // networks / volumes / secrets / configs
	profiles []string
}

func genValidModel(r *rand.Rand) validModel {
	m := validModel{services: M{}, top: M{}}
	nets := M{"n1": nil, "n2": M{"driver": "bridge"}}
	vols := M{"v1": nil, "v2": M{"driver": "local", "driver_opts": M{"o": "v"}}, "vext": M{"external": true, "name": "outside"}}
	secs := M{"sec1": M{"file": "./secret.txt"}, "sec2": M{"environment": "SECRET_ENV"}, "sext": M{"external": true}}
	cfgs := M{"c1": M{"file": "./config.txt"}, "c2": M{"content": "hello"}, "c3": M{"environment": "CFG_ENV"}, "cext": M{"external": true, "name": "outside"}}
	m.top["networks"], m.top["volumes"], m.top["secrets"], m.top["configs"] = nets, vols, secs, cfgs
	pick := func(mm M) string { ks := sortedKeys(mm); return ks[r.Intn(len(ks))] }
	names := []string{"a", "b", "c", "d"}[:2+r.Intn(3)]
	hasOff := r.Intn(2) == 0
	if hasOff {
		m.services["off"] = M{"image": "off", "profiles": []any{"never"}}
	}
	for i, n := range names {
		s := M{}
		usesBuild := r.Intn(3) == 0
		if usesBuild {
			b := M{"context": "."}
			switch r.Intn(4) {
			case 0:
				b["dockerfile"] = "Dockerfile.x"
			case 1:
				b["dockerfile_inline"] = "FROM scratch"
			}
			if r.Intn(3) == 0 {
				b["secrets"] = []any{pick(secs)}
			}
			if r.Intn(3) == 0 {
				b["platforms"] = []any{"linux/amd64", "linux/arm64"}
				if r.Intn(2) == 0 {
					s["platform"] = "linux/arm64"
				}
			}
			s["build"] = b
			if r.Intn(2) == 0 {
				s["image"] = "img-" + n
			}
		} else {
			s["image"] = "img-" + n
		}
		nsMode := false
		if i > 0 && r.Intn(4) == 0 {
			s["network_mode"] = "service:" + names[r.Intn(i)]
			nsMode = true
		} else if r.Intn(6) == 0 {
			s["network_mode"] = "host"
			nsMode = true
		}
		if !nsMode && r.Intn(2) == 0 {
			if r.Intn(2) == 0 {
				s["networks"] = []any{pick(nets)}
			} else {
				s["networks"] = M{pick(nets): M{"aliases": []any{"al"}}}
			}
		}
		if i > 0 && r.Intn(5) == 0 {
			s["ipc"] = "service:" + names[r.Intn(i)]
		}
		if i > 0 && r.Intn(5) == 0 {
			s["pid"] = "service:" + names[r.Intn(i)]
		}
		if r.Intn(2) == 0 {
			var vs []any
			for j := 0; j < 1+r.Intn(2); j++ {
				switch r.Intn(4) {
				case 0:
					vs = append(vs, pick(vols)+":/data"+strconv.Itoa(j))
				case 1:
					vs = append(vs, M{"type": "volume", "source": pick(vols), "target": "/long" + strconv.Itoa(j)})
				case 2:
					vs = append(vs, "./host:/bind"+strconv.Itoa(j))
				case 3:
					vs = append(vs, "/anon"+strconv.Itoa(j))
				}
			}
			s["volumes"] = vs
		}
		if r.Intn(3) == 0 {
			s["secrets"] = []any{pick(secs)}
		}
		if r.Intn(3) == 0 {
			s["configs"] = []any{M{"source": pick(cfgs), "target": "/cfg"}}
		}
		// dependencies only on earlier services: the graph is a DAG
		if i > 0 && r.Intn(2) == 0 {
			if r.Intn(2) == 0 {
				s["depends_on"] = []any{names[r.Intn(i)]}
			} else {
				d := M{names[r.Intn(i)]: M{"condition": "service_started", "required": r.Intn(2) == 0}}
				if hasOff && r.Intn(2) == 0 {
					d["off"] = M{"condition": "service_started", "required": false}
				}
				s["depends_on"] = d
			}
		} else if hasOff && r.Intn(4) == 0 {
			s["depends_on"] = M{"off": M{"condition": "service_healthy", "required": false}}
		}
		if i > 0 && r.Intn(6) == 0 {
			s["links"] = []any{names[r.Intn(i)]}
		}
		if i > 0 && r.Intn(6) == 0 {
			s["volumes_from"] = []any{names[r.Intn(i)] + ":ro"}
		}
		if r.Intn(4) == 0 {
			s["healthcheck"] = M{"test": []any{[]any{"CMD", "true"}, []any{"CMD-SHELL", "true"}, []any{"NONE"}, "echo ok"}[r.Intn(4)]}
		}
		deploy := M{}
		limits, reservations := M{}, M{}
		switch r.Intn(5) {
		case 0:
			s["scale"] = 2
		case 1:
			s["scale"] = 2
			deploy["replicas"] = 2
		case 2:
			deploy["replicas"] = 3
		case 3:
			s["container_name"] = "cn-" + n
			if r.Intn(2) == 0 {
				s["scale"] = 1
			}
		}
		if r.Intn(4) == 0 {
			s["cpus"] = 1.5
			if r.Intn(2) == 0 {
				limits["cpus"] = "1.5"
			}
		} else if r.Intn(6) == 0 {
			limits["cpus"] = "0.25"
		}
		if r.Intn(4) == 0 {
			s["mem_limit"] = "64m"
			if r.Intn(2) == 0 {
				limits["memory"] = "64m"
			}
		}
		if r.Intn(4) == 0 {
			s["pids_limit"] = 10
			if r.Intn(2) == 0 {
				limits["pids"] = 10
			}
		}
		if r.Intn(4) == 0 {
			s["mem_reservation"] = "32m"
			if r.Intn(2) == 0 {
				reservations["memory"] = "32m"
			}
		}
		// `limits` present ⇒ every paired top-level value must be repeated there (an absent limit reads as 0 ≠ value)
		if len(limits) > 0 {
			if _, ok := s["cpus"]; ok {
				limits["cpus"] = "1.5"
			}
			if _, ok := s["mem_limit"]; ok {
				limits["memory"] = "64m"
			}
			if _, ok := s["pids_limit"]; ok {
				limits["pids"] = 10
			}
		}
		res := M{}
		if len(limits) > 0 {
			res["limits"] = limits
		}
		if len(reservations) > 0 {
			res["reservations"] = reservations
		}
		if len(res) > 0 {
			deploy["resources"] = res
		}
		if len(deploy) > 0 || r.Intn(8) == 0 {
			s["deploy"] = deploy
		}
		if usesBuild && r.Intn(2) == 0 {
			w := []any{M{"path": "./src", "action": "rebuild"}}
			if r.Intn(2) == 0 {
				w = append(w, M{"path": "./web", "action": "sync", "target": "/app"})
			}
			s["develop"] = M{"watch": w}
		}
		m.services[n] = s
	}
	return m
}

type layout struct {
	files       M // path → model (rendered as JSON, which is YAML)
	configFiles []string
}

func (l layout) req(profiles []string) core.LoadReq {
	files := map[string]string{"secret.txt": "s3cr3t", "config.txt": "cfg", "Dockerfile.x": "FROM scratch", "D": "FROM scratch"}
	for n, m := range l.files {
		files[n] = toJSONText(m)
	}
	return core.LoadReq{Files: files, ConfigFiles: l.configFiles, ProjectName: "c10", Profiles: profiles,
		Env: map[string]string{"SECRET_ENV": "x", "CFG_ENV": "y"}}
}

// splitKeys distributes the keys of m over two mappings.
func splitKeys(r *rand.Rand, m M) (M, M) {
	a, b := M{}, M{}
	for _, k := range sortedKeys(m) {
		if r.Intn(2) == 0 {
			a[k] = m[k]
		} else {
			b[k] = m[k]
		}
	}
	return a, b
}

// layouts of one model: where each part of it comes from
func layOut(r *rand.Rand, m validModel, kind string) layout {
	whole := M{"services": m.services}
	for k, v := range m.top {
		whole[k] = v
	}
	switch kind {
	case "override":
		// every service's keys and every top-level section's entries are distributed over two files
		f1, f2 := M{"services": M{}}, M{"services": M{}}
		for _, n := range sortedKeys(m.services) {
			a, b := splitKeys(r, m.services[n].(M))
			f1["services"].(M)[n] = a
			if len(b) > 0 {
				f2["services"].(M)[n] = b
			}
		}
		for _, sec := range sortedKeys(m.top) {
			a, b := splitKeys(r, m.top[sec].(M))
			if len(a) > 0 {
				f1[sec] = a
			}
			if len(b) > 0 {
				f2[sec] = b
			}
		}
		return layout{files: M{"compose.yaml": f1, "override.yaml": f2}, configFiles: []string{"compose.yaml", "override.yaml"}}
	case "include":
		// some services and some resources live in an included file
		sa, sb := splitKeys(r, m.services)
		if len(sa) == 0 {
			sa, sb = sb, sa
		}
		f1, f2 := M{"services": sa, "include": []any{"inc.yaml"}}, M{"services": sb}
		for _, sec := range sortedKeys(m.top) {
			a, b := splitKeys(r, m.top[sec].(M))
			if len(a) > 0 {
				f1[sec] = a
			}
			if len(b) > 0 {
				f2[sec] = b
			}
		}
		if len(sb) == 0 {
			delete(f2, "services")
			f2["x-empty"] = true
		}
		return layout{files: M{"compose.yaml": f1, "inc.yaml": f2}, configFiles: []string{"compose.yaml"}}
	case "extends":
		// every service inherits a part of its keys from a template in another file
		f1, f2 := M{"services": M{}}, M{"services": M{}}
		for k, v := range m.top {
			f1[k] = v
		}
		for _, n := range sortedKeys(m.services) {
			a, b := splitKeys(r, m.services[n].(M))
			if len(b) > 0 && n != "off" {
				a["extends"] = M{"file": "base.yaml", "service": "tmpl-" + n}
				f2["services"].(M)["tmpl-"+n] = b
			} else {
				a = m.services[n].(M)
			}
			f1["services"].(M)[n] = a
		}
		return layout{files: M{"compose.yaml": f1, "base.yaml": f2}, configFiles: []string{"compose.yaml"}}
	}
	return layout{files: M{"compose.yaml": whole}, configFiles: []string{"compose.yaml"}}
}

var layoutKinds = []string{"single", "override", "include", "extends"}

// ---------------------------------------------------------------- minimal violating edits

type edit struct {
	rule string
	base M // valid part of the target service "t"
	frag M // the part that completes the violation (service level)
	topB M // valid top-level part
	topF M // top-level part that completes the violation
	// placements in which the edit cannot be expressed
	skip map[string]bool
	// chain: the violating entry arrives as one entry of a short-syntax list in a middle file, next to a valid sibling that a
	// later file refines in mapping syntax (nil = the edit has no list-valued attribute)
	chain *chainSpec
}

// chainSpec describes a three-step refinement of one list-or-mapping attribute of service "t":
// file 1 sets `first`, file 2 adds the short list [bad, sib] (or [sib, bad]), file 3 refines `sib` only.
type chainSpec struct {
	key    string
	first  any
	bad    string
	sib    string
	refine any // the value of `key` in the last file (mentions sib only)
	// extra services the chain needs in the main file
	services M
}

func lim(k string, v any) M { return M{"deploy": M{"resources": M{"limits": M{k: v}}}} }

func c10Edits() []edit {
	img := func(extra M) M { return deepMerge(M{"image": "i"}, extra).(M) }
	dep := func(n string, req bool) M {
		return M{"depends_on": M{n: M{"condition": "service_started", "required": req}}}
	}
	noExt := map[string]bool{"extends": true}
	return []edit{
		{rule: "image", base: M{}, frag: M{"command": []any{"x"}}},
		{rule: "networks", base: img(nil), frag: M{"networks": []any{"ghost"}}, chain: &chainSpec{key: "networks", first: []any{"n1"}, bad: "ghost", sib: "n2", refine: M{"n2": M{"aliases": []any{"x"}}}}},
		{rule: "networks:long", base: img(M{"networks": M{"n1": nil}}), frag: M{"networks": M{"ghost": M{"aliases": []any{"g"}}}}},
		{rule: "volumes", base: img(nil), frag: M{"volumes": []any{"ghost:/data"}}},
		{rule: "volumes:long", base: img(M{"volumes": []any{"v1:/ok"}}), frag: M{"volumes": []any{M{"type": "volume", "source": "ghost", "target": "/d"}}}},
		{rule: "secrets", base: img(nil), frag: M{"secrets": []any{"ghost"}}, chain: &chainSpec{key: "secrets", first: []any{"sec1"}, bad: "ghost", sib: "sec2", refine: []any{M{"source": "sec2", "target": "renamed"}}}},
		{rule: "secrets:long", base: img(M{"secrets": []any{"sec1"}}), frag: M{"secrets": []any{M{"source": "ghost", "target": "t"}}}},
		{rule: "configs", base: img(nil), frag: M{"configs": []any{"ghost"}}, chain: &chainSpec{key: "configs", first: []any{"c1"}, bad: "ghost", sib: "c2", refine: []any{M{"source": "c2", "target": "/renamed"}}}},
		{rule: "buildSecrets", base: M{"build": M{"context": "."}}, frag: M{"build": M{"secrets": []any{"ghost"}}}},
		{rule: "dependsOn", base: img(nil), frag: M{"depends_on": []any{"ghost"}}, chain: &chainSpec{key: "depends_on", first: []any{"peer"}, bad: "ghost", sib: "sib", refine: M{"sib": M{"condition": "service_started", "required": false}}, services: M{"peer": M{"image": "p"}, "sib": M{"image": "s"}}}},
		{rule: "dependsOn:optional-undeclared", base: img(nil), frag: dep("ghost", false)},
		{rule: "dependsOn:required-disabled", base: img(nil), frag: dep("off", true)},
		{rule: "dependsOn:short-disabled", base: img(nil), frag: M{"depends_on": []any{"off"}}, chain: &chainSpec{key: "depends_on", first: []any{"peer"}, bad: "off", sib: "sib", refine: M{"sib": M{"condition": "service_started", "required": false}}, services: M{"peer": M{"image": "p"}, "sib": M{"image": "s"}}}},
		{rule: "dependsOn:links", base: img(nil), frag: M{"links": []any{"ghost"}}},
		{rule: "dependsOn:links-alias", base: img(nil), frag: M{"links": []any{"ghost:db"}}},
		{rule: "dependsOn:volumes_from", base: img(nil), frag: M{"volumes_from": []any{"ghost:ro"}}},
		{rule: "serviceRef:network_mode", base: img(nil), frag: M{"network_mode": "service:ghost"}},
		{rule: "serviceRef:network_mode-disabled", base: img(nil), frag: M{"network_mode": "service:off"}},
		{rule: "serviceRef:ipc", base: img(nil), frag: M{"ipc": "service:ghost"}},
		{rule: "serviceRef:pid", base: img(nil), frag: M{"pid": "service:ghost"}},
		{rule: "serviceRef:ipc-disabled", base: img(nil), frag: M{"ipc": "service:off"}},
		{rule: "exclDockerfile", base: M{"build": M{"context": ".", "dockerfile": "D"}}, frag: M{"build": M{"dockerfile_inline": "FROM scratch"}}},
		{rule: "exclDockerfile:rev", base: M{"build": M{"context": ".", "dockerfile_inline": "FROM scratch"}}, frag: M{"build": M{"dockerfile": "D"}}},
		{rule: "exclNetworkMode", base: img(M{"network_mode": "host"}), frag: M{"networks": []any{"n1"}}},
		{rule: "exclNetworkMode:rev", base: img(M{"networks": []any{"n1"}}), frag: M{"network_mode": "none"}},
		{rule: "exclContainerName:scale", base: img(M{"container_name": "cn"}), frag: M{"scale": 2}},
		{rule: "exclContainerName:replicas", base: img(M{"container_name": "cn"}), frag: M{"deploy": M{"replicas": 2}}},
		{rule: "exclContainerName:rev", base: img(M{"scale": 3}), frag: M{"container_name": "cn"}},
		{rule: "pairScale", base: img(M{"scale": 2}), frag: M{"deploy": M{"replicas": 3}}},
		{rule: "pairScale:rev", base: img(M{"deploy": M{"replicas": 1}}), frag: M{"scale": 2}},
		{rule: "pairCpus", base: img(M{"cpus": 1}), frag: lim("cpus", "2")},
		{rule: "pairCpus:rev", base: img(lim("cpus", "0.5")), frag: M{"cpus": 0.25}},
		{rule: "pairMemLimit", base: img(M{"mem_limit": "64m"}), frag: lim("memory", "128m")},
		{rule: "pairMemLimit:rev", base: img(lim("memory", "128m")), frag: M{"mem_limit": 1024}},
		{rule: "pairMemReservation", base: img(M{"mem_reservation": "32m"}), frag: M{"deploy": M{"resources": M{"reservations": M{"memory": "16m"}}}}},
		{rule: "pairPids", base: img(M{"pids_limit": 10}), frag: lim("pids", 20)},
		{rule: "pairPids:rev", base: img(lim("pids", 20)), frag: M{"pids_limit": 5}},
		// structural rules below a service (round 5): they can arrive through every placement, `extends` included
		{rule: "deviceRequest:gpus", base: img(nil), frag: M{"gpus": []any{M{"count": 1, "device_ids": []any{"0"}}}}},
		{rule: "deviceRequest:gpus-second", base: img(M{"gpus": []any{M{"count": 1}}}), frag: M{"gpus": []any{M{"driver": "nvidia", "count": "all", "device_ids": []any{"0", "1"}}}}},
		{rule: "deviceRequest:devices", base: img(nil), frag: M{"deploy": M{"resources": M{"reservations": M{"devices": []any{M{"capabilities": []any{"gpu"}, "count": 2, "device_ids": []any{"0"}}}}}}}},
		{rule: "watchPath:blank", base: img(nil), frag: M{"develop": M{"watch": []any{M{"path": "", "action": "sync", "target": "/t"}}}}},
		{rule: "watchPath:blank-second", base: img(M{"develop": M{"watch": []any{M{"path": "./src", "action": "rebuild"}}}}), frag: M{"develop": M{"watch": []any{M{"path": "", "action": "rebuild"}}}}},
		// structural exclusivity on the merged tree
		{rule: "externalVolume:driver", topB: M{"volumes": M{"ev": M{"external": true}}}, topF: M{"volumes": M{"ev": M{"driver": "foo"}}}, skip: noExt},
		{rule: "externalVolume:driver_opts", topB: M{"volumes": M{"ev": M{"external": true, "name": "x"}}}, topF: M{"volumes": M{"ev": M{"driver_opts": M{"a": "b"}}}}, skip: noExt},
		{rule: "externalVolume:labels", topB: M{"volumes": M{"ev": M{"labels": M{"a": "b"}}}}, topF: M{"volumes": M{"ev": M{"external": true}}}, skip: noExt},
		{rule: "secretSources:none", topB: M{}, topF: M{"secrets": M{"sx": M{"name": "n"}}}, skip: noExt},
		{rule: "secretSources:none-labels", topB: M{}, topF: M{"secrets": M{"sx": M{"labels": M{"a": "b"}}}}, skip: noExt},
		{rule: "secretSources:several", topB: M{"secrets": M{"sx": M{"file": "./secret.txt"}}}, topF: M{"secrets": M{"sx": M{"environment": "SECRET_ENV"}}}, skip: noExt},
		{rule: "secretSources:several-with-driver", topB: M{"secrets": M{"sx": M{"driver": "vault", "file": "./secret.txt"}}}, topF: M{"secrets": M{"sx": M{"environment": "SECRET_ENV"}}}, skip: noExt},
		{rule: "secretSources:several-external", topB: M{"secrets": M{"sx": M{"external": true, "file": "./secret.txt"}}}, topF: M{"secrets": M{"sx": M{"environment": "SECRET_ENV"}}}, skip: noExt},
		{rule: "configSources:none", topB: M{}, topF: M{"configs": M{"cx": M{"name": "n"}}}, skip: noExt},
		{rule: "configSources:file+content", topB: M{"configs": M{"cx": M{"file": "./config.txt"}}}, topF: M{"configs": M{"cx": M{"content": "c"}}}, skip: noExt},
		{rule: "configSources:environment+content", topB: M{"configs": M{"cx": M{"content": "c"}}}, topF: M{"configs": M{"cx": M{"environment": "CFG_ENV"}}}, skip: noExt},
		{rule: "configSources:file+environment", topB: M{"configs": M{"cx": M{"environment": "CFG_ENV"}}}, topF: M{"configs": M{"cx": M{"file": "./config.txt"}}}, skip: noExt},
	}
}

var placements = []string{"main", "override", "extends", "include", "include-split", "include-nested", "include-extends",
	"chain-override", "chain-override-rev", "chain-extends", "chain-extends-rev", "chain-include"}

// applyEdit places the edit into a single-file rendering of the valid model m.
func applyEdit(m validModel, e edit, placement string) (layout, bool) {
	if e.skip[placement] {
		return layout{}, false
	}
	main := M{"services": core.DeepCopyVal(m.services)}
	for k, v := range m.top {
		main[k] = core.DeepCopyVal(v)
	}
	if _, ok := main["services"].(M)["off"]; !ok {
		main["services"].(M)["off"] = M{"image": "off", "profiles": []any{"never"}}
	}
	svcLevel := e.frag != nil
	l := layout{files: M{"compose.yaml": main}, configFiles: []string{"compose.yaml"}}
	if strings.HasPrefix(placement, "chain-") {
		// the violating entry is one element of a short-syntax list that arrives in a middle step; a later step refines
		// only its valid sibling (a merge that shares structure between the entries of one list would relax both)
		c := e.chain
		if c == nil {
			return layout{}, false
		}
		for n, sv := range c.services {
			main["services"].(M)[n] = core.DeepCopyVal(sv)
		}
		list := []any{c.bad, c.sib}
		if strings.HasSuffix(placement, "-rev") {
			list = []any{c.sib, c.bad}
		}
		switch strings.TrimSuffix(placement, "-rev") {
		case "chain-override":
			main["services"].(M)["t"] = M{"image": "i", c.key: core.DeepCopyVal(c.first)}
			l.files["override1.yaml"] = M{"services": M{"t": M{c.key: list}}}
			l.files["override2.yaml"] = M{"services": M{"t": M{c.key: core.DeepCopyVal(c.refine)}}}
			l.configFiles = append(l.configFiles, "override1.yaml", "override2.yaml")
		case "chain-extends":
			l.files["base.yaml"] = M{"services": M{
				"tmpl0": M{"image": "i", c.key: core.DeepCopyVal(c.first)},
				"tmpl1": M{"extends": M{"service": "tmpl0"}, c.key: list},
			}}
			main["services"].(M)["t"] = M{"extends": M{"file": "base.yaml", "service": "tmpl1"}, c.key: core.DeepCopyVal(c.refine)}
		case "chain-include":
			// the first two steps inside an included project (its own override), the refinement in an override of the including one
			main["include"] = []any{M{"path": []any{"inc.yaml", "inc.override.yaml"}}}
			l.files["inc.yaml"] = M{"services": M{"t": M{"image": "i", c.key: core.DeepCopyVal(c.first)}}}
			l.files["inc.override.yaml"] = M{"services": M{"t": M{c.key: list}}}
			l.files["override2.yaml"] = M{"services": M{"t": M{c.key: core.DeepCopyVal(c.refine)}}}
			l.configFiles = append(l.configFiles, "override2.yaml")
		default:
			return layout{}, false
		}
		return l, true
	}
	switch placement {
	case "main":
		if svcLevel {
			main["services"].(M)["t"] = deepMerge(e.base, e.frag)
		} else {
			l.files["compose.yaml"] = deepMerge(deepMerge(main, e.topB), e.topF)
		}
	case "override":
		// the valid half in the first file, the completing half in the second
		if svcLevel {
			main["services"].(M)["t"] = core.DeepCopyVal(e.base)
			l.files["override.yaml"] = M{"services": M{"t": e.frag}}
		} else {
			l.files["compose.yaml"] = deepMerge(main, e.topB)
			l.files["override.yaml"] = core.DeepCopyVal(e.topF)
		}
		l.configFiles = append(l.configFiles, "override.yaml")
	case "extends":
		// the completing half is inherited from a template in another file
		if !svcLevel {
			return layout{}, false
		}
		t := core.DeepCopyVal(e.base).(M)
		t["extends"] = M{"file": "base.yaml", "service": "tmpl"}
		main["services"].(M)["t"] = t
		l.files["base.yaml"] = M{"services": M{"tmpl": e.frag}}
	case "include":
		// the whole violating service / resource lives in an included file
		main["include"] = []any{"inc.yaml"}
		if svcLevel {
			l.files["inc.yaml"] = M{"services": M{"t": deepMerge(e.base, e.frag)}}
		} else {
			l.files["inc.yaml"] = deepMerge(deepMerge(M{}, e.topB), e.topF)
		}
	case "include-nested":
		// the violating service / resource lives in a project included by an included project (options cloned twice)
		main["include"] = []any{"inc.yaml"}
		l.files["inc.yaml"] = M{"include": []any{"inc2.yaml"}, "services": M{"mid": M{"image": "m"}}}
		if svcLevel {
			l.files["inc2.yaml"] = M{"services": M{"t": deepMerge(e.base, e.frag)}}
		} else {
			l.files["inc2.yaml"] = deepMerge(deepMerge(M{}, e.topB), e.topF)
		}
	case "include-extends":
		// inside an included project, the completing half is inherited from a template in another file
		if !svcLevel {
			return layout{}, false
		}
		t := core.DeepCopyVal(e.base).(M)
		t["extends"] = M{"file": "base.yaml", "service": "tmpl"}
		main["include"] = []any{"inc.yaml"}
		l.files["inc.yaml"] = M{"services": M{"t": t}}
		l.files["base.yaml"] = M{"services": M{"tmpl": e.frag}}
	case "include-split":
		// the valid half in an included file, the completing half in an override of the including project
		if svcLevel {
			main["include"] = []any{"inc.yaml"}
			l.files["inc.yaml"] = M{"services": M{"t": core.DeepCopyVal(e.base)}}
			l.files["override.yaml"] = M{"services": M{"t": e.frag}}
		} else {
			if len(e.topB) == 0 {
				return layout{}, false
			}
			main["include"] = []any{"inc.yaml"}
			l.files["inc.yaml"] = core.DeepCopyVal(e.topB)
			l.files["override.yaml"] = core.DeepCopyVal(e.topF)
		}
		l.configFiles = append(l.configFiles, "override.yaml")
	}
	return l, true
}

// ---------------------------------------------------------------- checks

type loadArgs struct {
	Req       core.LoadReq `json:"req"`
	Expect    string       `json:"expect"` // "valid" | "invalid"
	Rule      string       `json:"rule,omitempty"`
	Placement string       `json:"placement,omitempty"`
	Tags      []string     `json:"tags,omitempty"` // input-shape facts the judge may use for failure keys
}

func realLoadAbs(req core.LoadReq) any {
	p, root, err := req.Load()
	defer os.RemoveAll(root)
	if err != nil {
		return map[string]any{"err": core.ScrubErr(err, root)}
	}
	if p == nil {
		return map[string]any{"bad": "nil project and nil error"}
	}
	return map[string]any{"ok": abstractProject(p)}
}

const keyConfigEnvInclude = "rejected-valid:config-with-environment-source-in-included-file"

// layoutTags records input-shape facts of a layout that known defects depend on.
func layoutTags(l layout) []string {
	var tags []string
	if inc, ok := l.files["inc.yaml"].(M); ok {
		if cfgs, ok := inc["configs"].(M); ok {
			for _, n := range sortedKeys(cfgs) {
				if c, ok := cfgs[n].(M); ok {
					if _, has := c["environment"]; has {
						tags = append(tags, "config-env-in-include:"+n)
					}
				}
			}
		}
	}
	return tags
}

type graphLoadArgs struct {
	Proj  absProj `json:"proj"`
	Split int     `json:"split"` // bit i of Split: edge number i goes to the override file
	Reps  int     `json:"reps"`
}

// graphLayout renders a graph-only abstract project (image + depends_on, disabled services) as compose files.
func graphLayout(a graphLoadArgs) core.LoadReq {
	f1, f2 := M{}, M{}
	e := 0
	for _, s := range a.Proj.Services {
		f1[s.Name] = M{"image": s.Image}
		for _, d := range s.DependsOn {
			dst := f1
			if a.Split&(1<<(e%30)) != 0 {
				dst = f2
				if _, ok := f2[s.Name]; !ok {
					f2[s.Name] = M{}
				}
			}
			e++
			sv := dst[s.Name].(M)
			if _, ok := sv["depends_on"]; !ok {
				sv["depends_on"] = M{}
			}
			sv["depends_on"].(M)[d.Name] = M{"condition": "service_started", "required": d.Required}
		}
	}
	for _, n := range a.Proj.Disabled {
		f1[n] = M{"image": "off", "profiles": []any{"never"}}
	}
	files := map[string]string{"compose.yaml": toJSONText(M{"services": f1})}
	cfs := []string{"compose.yaml"}
	if len(f2) > 0 {
		files["override.yaml"] = toJSONText(M{"services": f2})
		cfs = append(cfs, "override.yaml")
	}
	return core.LoadReq{Files: files, ConfigFiles: cfs, ProjectName: "c10"}
}

func init() {
	core.Register("c10.load", &core.CheckDef{
		Real: func(raw json.RawMessage) any {
			var a loadArgs
			json.Unmarshal(raw, &a)
			return realLoadAbs(a.Req)
		},
		DriverOp: "c10.consistent",
		DriverArgs: func(args, real json.RawMessage) any {
			var r struct {
				OK json.RawMessage `json:"ok"`
			}
			json.Unmarshal(real, &r)
			if r.OK == nil {
				return map[string]any{"proj": map[string]any{}}
			}
			return map[string]any{"proj": r.OK}
		},
		Judge: func(args, real, drv json.RawMessage) *core.Verdict {
			if v := c10Crash(real); v != nil {
				return v
			}
			var a loadArgs
			json.Unmarshal(args, &a)
			var d struct {
				Consistent bool            `json:"consistent"`
				Broken     []string        `json:"broken"`
				Model      json.RawMessage `json:"model"`
			}
			if json.Unmarshal(drv, &d) != nil || d.Model == nil {
				return core.Disagree("malformed exchange: " + string(drv))
			}
			switch core.Class(real) {
			case "ok":
				// accepted ⇒ consistent, whatever was expected
				if !d.Consistent {
					return core.Fail("loaded-inconsistent:"+strings.Join(d.Broken, "+"), fmt.Sprintf("the load succeeds and returns a project that breaks %v", d.Broken))
				}
				if a.Expect == "invalid" {
					return core.Fail("accepted:"+a.Rule+"@"+a.Placement, fmt.Sprintf("a model that breaks rule %q (violating part placed in: %s) loads without error", a.Rule, a.Placement))
				}
				if core.Class(d.Model) != "ok" {
					return core.Disagree("the model of checkConsistency rejects the project the loader returned: " + string(d.Model))
				}
			case "err":
				if f := os.Getenv("C10_EDITLOG"); f != "" && a.Expect == "invalid" {
					// development aid: which error rejects which edit (negative cases must fail for the intended reason)
					if fh, err := os.OpenFile(f, os.O_APPEND|os.O_CREATE|os.O_WRONLY, 0o644); err == nil {
						fmt.Fprintf(fh, "%s@%s\t%s\n", a.Rule, a.Placement, real)
						fh.Close()
					}
				}
				if a.Expect == "invalid" {
					// a negative case must be rejected by a consistency / structural rule, not by an accident of the generator
					var e struct {
						Err string `json:"err"`
					}
					json.Unmarshal(real, &e)
					if strings.HasPrefix(c10Class(fmt.Errorf("%s", e.Err)), "other:") && strings.HasPrefix(validateClass(fmt.Errorf("%s", e.Err)), "other:") {
						return core.Disagree("negative case " + a.Rule + "@" + a.Placement + " is rejected for an unrelated reason: " + e.Err)
					}
				}
				if a.Expect == "valid" {
					var e struct {
						Err string `json:"err"`
					}
					json.Unmarshal(real, &e)
					for _, t := range a.Tags {
						if n, ok := strings.CutPrefix(t, "config-env-in-include:"); ok && strings.Contains(e.Err, "configs."+n+": file|environment|content attributes are mutually exclusive") {
							return core.Fail(keyConfigEnvInclude, "a valid model whose included file declares a config with `environment:` fails to load: "+e.Err)
						}
					}
					return core.Fail("rejected-valid:"+errShape(e.Err), "a generated valid model fails to load: "+e.Err)
				}
			default:
				return core.Disagree("unexpected real outcome " + string(real))
			}
			return nil
		},
		Timeout: c10Timeout,
	})
	core.Register("c10.loadGraph", &core.CheckDef{
		Real: func(raw json.RawMessage) any {
			var a graphLoadArgs
			json.Unmarshal(raw, &a)
			req := graphLayout(a)
			root, err := core.Materialize(req.Files)
			defer os.RemoveAll(root)
			if err != nil {
				return map[string]any{"bad": err.Error()}
			}
			reps := a.Reps
			if reps < 1 {
				reps = 1
			}
			seen := map[string]any{}
			for i := 0; i < reps; i++ {
				var out any
				p, err := req.LoadIn(root)
				if err != nil {
					out = map[string]any{"err": c10Class(err)}
				} else {
					out = map[string]any{"ok": postDigest(p)}
				}
				b, _ := json.Marshal(out)
				seen[string(b)] = out
			}
			outs := []any{}
			for _, k := range sortedKeys(seen) {
				outs = append(outs, seen[k])
			}
			return map[string]any{"outs": outs}
		},
		DriverOp:   "c10.consistency",
		DriverArgs: func(args, real json.RawMessage) any { var a graphLoadArgs; json.Unmarshal(args, &a); return map[string]any{"proj": a.Proj} },
		Judge:      judgeOutcomes("the load", func(d modelAnswer) *bool { return d.Consistent }),
		Timeout:    c10Timeout,
	})
}

// errShape keeps the stable words of an error text (names and paths removed) for failure keys.
func errShape(s string) string {
	var out []string
	for _, w := range strings.Fields(s) {
		if strings.ContainsAny(w, `"/$.:'`+"`") {
			continue
		}
		out = append(out, w)
		if len(out) == 6 {
			break
		}
	}
	return strings.Join(out, "-")
}

func runC10Loads(ctx *core.Ctx) {
	r := ctx.Rng
	// ---- valid models in every layout: must load, and the returned project must satisfy `Consistent`
	for i := 0; i < ctx.Pick(100, 2500); i++ {
		m := genValidModel(r)
		for _, kind := range layoutKinds {
			l := layOut(r, m, kind)
			ctx.Count("load:valid:" + kind)
			ctx.Add("c10.load", loadArgs{Req: l.req(nil), Expect: "valid", Tags: layoutTags(l)})
		}
	}
	// ---- one minimal violating edit per rule × placement, on several valid base models
	edits := c10Edits()
	for i := 0; i < ctx.Pick(2, 30); i++ {
		m := genValidModel(r)
		for _, e := range edits {
			for _, pl := range placements {
				l, ok := applyEdit(m, e, pl)
				if !ok {
					continue
				}
				ctx.Count("load:edit:" + pl)
				ctx.Add("c10.load", loadArgs{Req: l.req(nil), Expect: "invalid", Rule: e.rule, Placement: pl})
			}
		}
	}
	// ---- digraphs through whole loads: every digraph with self loops on ≤ 2 (quick) / 3 (thorough) services plus optional
	//      edges to a disabled service; every loop-free digraph on 3 (quick) / 4 (thorough) services; edges split over two files
	maxN := ctx.Pick(2, 3)
	for n := 1; n <= maxN; n++ {
		for k := 0; k < 1<<(n*n+n); k++ {
			p := optGraphAbs(n, k)
			reps := 1
			if repsFor(p) > 6 {
				reps = ctx.Pick(48, 24)
			}
			ctx.Count("load:digraph+optional-disabled:n=" + strconv.Itoa(n))
			ctx.Add("c10.loadGraph", graphLoadArgs{Proj: p, Split: r.Intn(1 << 30), Reps: reps})
		}
	}
	nn := ctx.Pick(3, 4)
	for k := 0; k < 1<<graphBits(nn, false); k++ {
		p := graphAbs(nn, false, k)
		p.canon()
		ctx.Count("load:digraph:n=" + strconv.Itoa(nn))
		ctx.Add("c10.loadGraph", graphLoadArgs{Proj: p, Split: r.Intn(1 << 30), Reps: 1})
	}
	for i := 0; i < ctx.Pick(120, 3000); i++ {
		n := 4 + r.Intn(2)
		// sparse random digraphs on 4–5 services (dense ones are almost always cyclic)
		k := 0
		for b := 0; b < graphBits(n, true); b++ {
			if r.Intn(5) == 0 {
				k |= 1 << b
			}
		}
		p := graphAbs(n, true, k)
		if r.Intn(3) == 0 {
			p.Disabled = []string{"off"}
			for j := range p.Services {
				if r.Intn(3) == 0 {
					p.Services[j].DependsOn = append(p.Services[j].DependsOn, absDep{"off", false})
				}
			}
		}
		p.canon()
		reps := 1
		if repsFor(p) > 6 {
			reps = 32
		}
		ctx.Count("load:digraph:random:n=" + strconv.Itoa(n))
		ctx.Add("c10.loadGraph", graphLoadArgs{Proj: p, Split: r.Intn(1 << 30), Reps: reps})
	}
	_ = sort.Strings
}
