package c10

// C10 — the glue around the two checks (round 5): `if !opts.SkipValidation { validation.Validate }` in loadYamlModel,
// `if !opts.SkipConsistencyCheck { checkConsistency }` in modelToProject, and the option copies handed to included
// projects and `extends` bases.  One case = one directory tree loaded under the four combinations of the two options,
// with the caller's *loader.Options captured and read back after each load (a copy that is not a copy would write
// through).  The Lean side (`c10.glue`, Model/ConsistencyGlue.lean) predicts the class of each of the four loads from
// the class of the structural stage (known to the generator) and the model of checkConsistency run on the project as
// it comes out with both checks skipped.

import (
	"context"
	"encoding/json"
	"fmt"
	"os"
	"strings"

	"github.com/compose-spec/compose-go/v2/loader"
	"github.com/compose-spec/compose-go/v2/override"
	"github.com/compose-spec/compose-go/v2/validation"

	"verifharness/core"
)

type glueArgs struct {
	Req       core.LoadReq `json:"req"`
	Expect    string       `json:"expect"` // "valid" | "invalid"
	Rule      string       `json:"rule,omitempty"`
	Placement string       `json:"placement,omitempty"`
	V         string       `json:"v"` // class of the structural stage on the merge result: "ok" | "structural"
	// classes of the structural stage of each included project taken alone (an included project is validated on its own,
	// before it is merged into the including model)
	VInc []string `json:"vinc,omitempty"`
}

var glueCombos = []struct {
	key    string
	sv, sc bool
}{{"ff", false, false}, {"ft", false, true}, {"tf", true, false}, {"tt", true, true}}

// glueClass maps an error text to the stage that produced it.
func glueClass(t string) string {
	e := fmt.Errorf("%s", t)
	if !strings.HasPrefix(validateClass(e), "other:") {
		return "structural"
	}
	if !strings.HasPrefix(c10Class(e), "other:") {
		return "consistency"
	}
	return "other:" + t
}

func glueFlags(o *loader.Options) []bool {
	return []bool{o.SkipValidation, o.SkipNormalization, o.ResolvePaths, o.SkipConsistencyCheck, o.SkipExtends, o.SkipInclude, o.SkipDefaultValues}
}

func realGlue(a glueArgs) any {
	root, err := core.Materialize(a.Req.Files)
	defer os.RemoveAll(root)
	if err != nil {
		return map[string]any{"bad": err.Error()}
	}
	runs, detail, flags := map[string]string{}, map[string]string{}, map[string][]bool{}
	var proj any
	for _, c := range glueCombos {
		var captured *loader.Options
		p, err := loader.LoadWithContext(context.Background(), a.Req.Details(root), func(o *loader.Options) {
			o.SkipValidation = c.sv
			o.SkipConsistencyCheck = c.sc
			o.Profiles = a.Req.Profiles
			o.SetProjectName(a.Req.ProjectName, true)
			captured = o
		})
		switch {
		case err != nil:
			t := core.ScrubErr(err, root)
			runs[c.key], detail[c.key] = glueClass(t), t
		case p == nil:
			runs[c.key] = "other:nil project and nil error"
		default:
			runs[c.key] = "ok"
			if c.key == "tt" {
				proj = abstractProject(p)
			}
		}
		if captured != nil {
			flags[c.key] = glueFlags(captured)
		}
	}
	return map[string]any{"ok": map[string]any{"runs": runs, "detail": detail, "flags": flags, "proj": proj}}
}

func init() {
	core.Register("c10.glue", &core.CheckDef{
		Real: func(raw json.RawMessage) any {
			var a glueArgs
			json.Unmarshal(raw, &a)
			return realGlue(a)
		},
		DriverOp: "c10.glue",
		DriverArgs: func(args, real json.RawMessage) any {
			var a glueArgs
			json.Unmarshal(args, &a)
			var r struct {
				OK struct {
					Proj json.RawMessage `json:"proj"`
				} `json:"ok"`
			}
			json.Unmarshal(real, &r)
			if r.OK.Proj == nil || string(r.OK.Proj) == "null" {
				return map[string]any{"proj": map[string]any{}, "v": a.V, "vinc": a.VInc}
			}
			return map[string]any{"proj": r.OK.Proj, "v": a.V, "vinc": a.VInc}
		},
		Judge: func(args, real, drv json.RawMessage) *core.Verdict {
			if v := c10Crash(real); v != nil {
				return v
			}
			var a glueArgs
			json.Unmarshal(args, &a)
			var r struct {
				OK struct {
					Runs   map[string]string `json:"runs"`
					Detail map[string]string `json:"detail"`
					Flags  map[string][]bool `json:"flags"`
					Proj   json.RawMessage   `json:"proj"`
				} `json:"ok"`
			}
			var d struct {
				FF, FT, TF, TT string
				Main           map[string][]bool `json:"main"`
			}
			if json.Unmarshal(real, &r) != nil || len(r.OK.Runs) != 4 || json.Unmarshal(drv, &d) != nil || len(d.Main) != 4 {
				return core.Disagree("malformed exchange: " + string(real) + " / " + string(drv))
			}
			where := a.Rule + "@" + a.Placement
			// the caller's options are the caller's: an included project / extends base is loaded with a *copy*
			for _, c := range glueCombos {
				if fmt.Sprint(r.OK.Flags[c.key]) != fmt.Sprint(d.Main[c.key]) {
					return core.Disagree(fmt.Sprintf("the caller's loader.Options read %v after the load %s of %s (set: %v; order SkipValidation, SkipNormalization, ResolvePaths, SkipConsistencyCheck, SkipExtends, SkipInclude, SkipDefaultValues)",
						r.OK.Flags[c.key], c.key, where, d.Main[c.key]))
				}
			}
			// the property itself, on the load with both checks on
			if a.Expect == "invalid" && r.OK.Runs["ff"] == "ok" {
				return core.Fail("accepted-checks-on:"+where, fmt.Sprintf("a model that breaks rule %q (violating part placed in: %s) loads without error with both checks on", a.Rule, a.Placement))
			}
			if a.Expect == "valid" && r.OK.Runs["ff"] != "ok" {
				return core.Fail("rejected-valid:"+errShape(r.OK.Detail["ff"]), "a generated valid model fails to load: "+r.OK.Detail["ff"])
			}
			// vacuity guard: with both checks skipped the tree loads, i.e. nothing but the two checks rejects it
			if r.OK.Runs["tt"] != "ok" {
				return core.Disagree("the load of " + where + " fails with both checks skipped: " + r.OK.Detail["tt"])
			}
			if a.Expect == "invalid" && d.FF == "ok" {
				return core.Disagree("the model accepts the negative case " + where)
			}
			pred := map[string]string{"ff": d.FF, "ft": d.FT, "tf": d.TF, "tt": d.TT}
			for _, c := range glueCombos {
				if r.OK.Runs[c.key] != pred[c.key] {
					return core.Disagree(fmt.Sprintf("%s loaded with SkipValidation=%v SkipConsistencyCheck=%v: real %q (%s), model %q",
						where, c.sv, c.sc, r.OK.Runs[c.key], r.OK.Detail[c.key], pred[c.key]))
				}
			}
			return nil
		},
		Timeout: c10Timeout,
	})
}

// repairedByReset: a secret / config with two sources, and a later file of the *including* project that removes one of them
// with `!reset`.  Declared in the main file the merge result is valid and the load succeeds; declared in an included project
// the load fails although the merge result is the same: the included project is validated on its own (`includedChecks`).
func repairedByReset(m validModel, sec, name string, decl M, drop string, included bool) core.LoadReq {
	main := M{"services": core.DeepCopyVal(m.services)}
	for k, v := range m.top {
		main[k] = core.DeepCopyVal(v)
	}
	l := layout{files: M{"compose.yaml": main}, configFiles: []string{"compose.yaml", "override.yaml"}}
	if included {
		main["include"] = []any{"inc.yaml"}
		l.files["inc.yaml"] = M{sec: M{name: decl}}
	} else {
		l.files["compose.yaml"] = deepMerge(main, M{sec: M{name: decl}})
	}
	req := l.req(nil)
	req.Files["override.yaml"] = sec + ":\n  " + name + ":\n    " + drop + ": !reset null\n"
	return req
}

func isStructuralRule(rule string) bool {
	return strings.HasPrefix(rule, "externalVolume:") || strings.HasPrefix(rule, "secretSources:") || strings.HasPrefix(rule, "configSources:") ||
		strings.HasPrefix(rule, "deviceRequest:") || strings.HasPrefix(rule, "watchPath:")
}

func runC10Glue(ctx *core.Ctx) {
	r := ctx.Rng
	for i := 0; i < ctx.Pick(12, 300); i++ {
		m := genValidModel(r)
		for _, kind := range layoutKinds {
			l := layOut(r, m, kind)
			if len(layoutTags(l)) > 0 {
				// an included config with an `environment` source is resolved when the included project is loaded (fix a87ef4e
				// keeps that for the including model); with validation skipped nothing differs, keep the stream simple
				ctx.Count("glue:valid:" + kind + ":config-env-in-include")
			} else {
				ctx.Count("glue:valid:" + kind)
			}
			ctx.Add("c10.glue", glueArgs{Req: l.req(nil), Expect: "valid", Rule: "valid", Placement: kind, V: "ok"})
		}
	}
	for i := 0; i < ctx.Pick(2, 20); i++ {
		m := genValidModel(r)
		for _, c := range []struct {
			rule, sec string
			decl      M
			drop      string
		}{
			{"secretSources:several", "secrets", M{"file": "./secret.txt", "environment": "SECRET_ENV"}, "environment"},
			{"secretSources:several", "secrets", M{"file": "./secret.txt", "environment": "SECRET_ENV"}, "file"},
			{"configSources:file+content", "configs", M{"file": "./config.txt", "content": "c"}, "content"},
			{"configSources:file+environment", "configs", M{"file": "./config.txt", "environment": "CFG_ENV"}, "file"},
			{"externalVolume:driver", "volumes", M{"external": true, "driver": "foo"}, "driver"},
		} {
			ctx.Count("glue:repaired-by-reset:main")
			ctx.Add("c10.glue", glueArgs{Req: repairedByReset(m, c.sec, "rx", c.decl, c.drop, false), Expect: "valid", Rule: c.rule + ":repaired-by-reset", Placement: "main", V: "ok"})
			ctx.Count("glue:repaired-by-reset:include")
			ctx.Add("c10.glue", glueArgs{Req: repairedByReset(m, c.sec, "rx", c.decl, c.drop, true), Expect: "invalid", Rule: c.rule + ":repaired-by-reset", Placement: "include", V: "ok", VInc: []string{"structural"}})
		}
	}
	edits := c10Edits()
	for i := 0; i < ctx.Pick(1, 8); i++ {
		m := genValidModel(r)
		for _, e := range edits {
			for _, pl := range []string{"main", "override", "extends", "include", "include-split", "include-nested", "include-extends"} {
				l, ok := applyEdit(m, e, pl)
				if !ok {
					continue
				}
				v := "ok"
				if isStructuralRule(e.rule) {
					v = "structural"
				}
				ctx.Count("glue:edit:" + pl + ":stage=" + map[string]string{"ok": "consistency", "structural": "structural"}[v])
				ctx.Add("c10.glue", glueArgs{Req: l.req(nil), Expect: "invalid", Rule: e.rule, Placement: pl, V: v})
			}
		}
	}
}

// ---------------------------------------------------------------- override.Merge ∘ validation.Validate
//
// Validate runs on the merge result because a violation can be assembled out of files none of which is violating on its
// own (Props/C10Merge.lean).  This stream runs the two real functions one after the other on two trees and compares
// with `Merge.merge` followed by `validate`; an accepted assembled violation is a property failure.

type mergeValidateArgs struct {
	A json.RawMessage `json:"a"`
	B json.RawMessage `json:"b"`
}

func init() {
	core.Register("c10.mergeValidate", &core.CheckDef{
		Real: func(raw json.RawMessage) any {
			var a mergeValidateArgs
			json.Unmarshal(raw, &a)
			x, ok1 := core.DecodeValRaw(a.A).(map[string]any)
			y, ok2 := core.DecodeValRaw(a.B).(map[string]any)
			if !ok1 || !ok2 {
				return map[string]any{"bad": "not a mapping"}
			}
			m, err := override.Merge(x, y)
			if err != nil {
				return map[string]any{"err": "merge"}
			}
			if err := validation.Validate(m); err != nil {
				return map[string]any{"err": validateClass(err)}
			}
			return map[string]any{"ok": nil}
		},
		DriverOp: "c10.mergeValidate",
		Judge: func(args, real, drv json.RawMessage) *core.Verdict {
			if c := core.Class(real); c == "fatal" || c == "hang" {
				return c10Crash(real)
			}
			var d struct {
				Merge string            `json:"merge"`
				Alts  []json.RawMessage `json:"alts"`
			}
			if json.Unmarshal(drv, &d) != nil || d.Merge == "" {
				return core.Disagree("malformed exchange: " + string(drv))
			}
			if d.Merge != "ok" {
				if core.CanonEqual(real, json.RawMessage(`{"err":"merge"}`)) {
					return nil
				}
				return core.Disagree(fmt.Sprintf("model: merge fails (%s); real: %s", d.Merge, real))
			}
			if len(d.Alts) == 0 {
				if core.Class(real) == "ok" {
					return nil
				}
				return core.Disagree(fmt.Sprintf("model accepts the merge result, real: %s", real))
			}
			if core.Class(real) == "ok" {
				var e struct {
					Err string `json:"err"`
				}
				json.Unmarshal(d.Alts[0], &e)
				return core.Fail("mergeValidate:accepted-assembled-violation:"+e.Err, "the merge of two trees breaks a structural rule ("+e.Err+") and validation.Validate returns nil")
			}
			for _, a := range d.Alts {
				if core.CanonEqual(real, a) {
					return nil
				}
			}
			return core.Disagree(fmt.Sprintf("real outcome %s not among the model's failures %s", real, drv))
		},
		Timeout: c10Timeout,
	})
}

func runC10MergeValidate(ctx *core.Ctx) {
	r := ctx.Rng
	sections := []struct {
		name string
		vars []treeVariant
	}{{"volumes", volumeVariants()}, {"secrets", fileObjectVariants(false)}, {"configs", fileObjectVariants(true)}}
	add := func(kind string, a, b map[string]any) {
		ctx.Count("mergeValidate:" + kind)
		ctx.Add("c10.mergeValidate", mergeValidateArgs{A: mustJSON(core.EncodeVal(a)), B: mustJSON(core.EncodeVal(b))})
	}
	for _, sec := range sections {
		for _, tv := range sec.vars {
			m, ok := tv.v.(map[string]any)
			if !ok {
				// null resource in one file, each mapping variant in the other (both orders)
				for _, o := range sec.vars {
					if om, ok := o.v.(map[string]any); ok {
						add(sec.name+":null-vs-map", map[string]any{sec.name: map[string]any{"r": nil}}, map[string]any{sec.name: map[string]any{"r": core.DeepCopyVal(om)}})
						add(sec.name+":map-vs-null", map[string]any{sec.name: map[string]any{"r": core.DeepCopyVal(om)}}, map[string]any{sec.name: map[string]any{"r": nil}})
					}
				}
				continue
			}
			keys := sortedKeys(m)
			if len(keys) > 5 {
				keys = keys[:5]
			}
			// every distribution of the attributes over the two files: 0 = first file, 1 = second file, 2 = both
			n := 1
			for range keys {
				n *= 3
			}
			for code := 0; code < n; code++ {
				a, b := map[string]any{}, map[string]any{}
				c, both := code, false
				for _, k := range keys {
					switch c % 3 {
					case 0:
						a[k] = core.DeepCopyVal(m[k])
					case 1:
						b[k] = core.DeepCopyVal(m[k])
					default:
						a[k], b[k] = core.DeepCopyVal(m[k]), core.DeepCopyVal(m[k])
						both = true
					}
					c /= 3
				}
				if both && r.Intn(ctx.Pick(4, 1)) != 0 {
					continue
				}
				fa := map[string]any{sec.name: map[string]any{"r": a, "other": map[string]any{"external": true}}}
				fb := map[string]any{sec.name: map[string]any{"r": b}}
				if r.Intn(2) == 0 {
					fa["services"] = map[string]any{"s": map[string]any{"image": "i"}}
					fb["services"] = map[string]any{"s": map[string]any{"gpus": []any{pickTV(r, deviceVariants())}}}
				}
				kind := "split"
				if both {
					kind = "split+shared"
				}
				add(sec.name+":"+kind, fa, fb)
			}
		}
	}
	// random pairs of whole trees (well shaped and malformed)
	for i := 0; i < ctx.Pick(300, 6000); i++ {
		add("random", randomValidateTree(r, i%5 == 4), randomValidateTree(r, i%7 == 6))
	}
}

func mustJSON(v any) json.RawMessage {
	b, _ := json.Marshal(v)
	return b
}
