package c10

// c10.cyclePath — the cycle named in the error of graph.CheckCycle ("dependency cycle detected: a -> b -> a") vs the Lean
// model `cyclePath` (start vertices and children visited in sorted order, `path[i:]` + closing name).

import (
	"encoding/json"
	"fmt"
	"strconv"
	"strings"

	"github.com/compose-spec/compose-go/v2/graph"

	"verifharness/core"
)

const cyclePrefix = "dependency cycle detected: "

func init() {
	core.Register("c10.cyclePath", &core.CheckDef{
		Real: func(raw json.RawMessage) any {
			var a projArgs
			json.Unmarshal(raw, &a)
			reps := a.Reps
			if reps < 1 {
				reps = 1
			}
			seen := map[string]any{}
			for i := 0; i < reps; i++ {
				var out any
				err := graph.CheckCycle(buildProject(a.Proj))
				switch {
				case err == nil:
					out = map[string]any{"path": nil}
				case strings.HasPrefix(err.Error(), cyclePrefix):
					out = map[string]any{"path": strings.Split(strings.TrimPrefix(err.Error(), cyclePrefix), " -> ")}
				default:
					out = map[string]any{"err": c10Class(err)}
				}
				b, _ := json.Marshal(out)
				seen[string(b)] = out
			}
			outs := []any{}
			for _, k := range sortedKeys(seen) {
				outs = append(outs, seen[k])
			}
			return map[string]any{"outs": outs}
		},
		DriverOp: "c10.cyclePath",
		Judge: func(args, real, drv json.RawMessage) *core.Verdict {
			if v := c10Crash(real); v != nil {
				return v
			}
			var r struct {
				Outs []json.RawMessage `json:"outs"`
			}
			if json.Unmarshal(real, &r) != nil || len(r.Outs) == 0 {
				return core.Disagree("malformed exchange: " + string(real))
			}
			if len(r.Outs) > 1 {
				// the sort exists "to render a predictable error message": the property only needs ok/err to be stable,
				// so an unstable message is a broken tie (model is deterministic), not a property failure
				return core.Disagree(fmt.Sprintf("graph.CheckCycle reports different cycles on one project: %s", real))
			}
			if !core.CanonEqual(r.Outs[0], drv) {
				return core.Disagree(fmt.Sprintf("reported cycle: real %s model %s", r.Outs[0], drv))
			}
			return nil
		},
		Timeout: c10Timeout,
	})
}

// names whose sorted order differs from the order in which they are generated
var pathNames = []string{"m", "b", "z", "a", "k", "ab"}

func pathProj(n, k int, shuffle func(int) []int) absProj {
	a := absProj{}
	order := shuffle(n)
	for _, i := range order {
		s := absSvc{Name: pathNames[i], Image: "i", Cpus: "0"}
		for _, j := range shuffle(n) {
			if k&(1<<(i*n+j)) != 0 {
				s.DependsOn = append(s.DependsOn, absDep{Name: pathNames[j], Required: true})
			}
		}
		a.Services = append(a.Services, s)
	}
	return a
}

func runC10Path(ctx *core.Ctx) {
	r := ctx.Rng
	shuffle := func(n int) []int { return r.Perm(n) }
	// every digraph with self loops on ≤ 3 services (names in unsorted order, maps listed in random order)
	for n := 1; n <= 3; n++ {
		for k := 0; k < 1<<(n*n); k++ {
			ctx.Count("cycle-path:n=" + strconv.Itoa(n))
			ctx.Add("c10.cyclePath", projArgs{pathProj(n, k, shuffle), 4})
		}
	}
	// sparse random digraphs on 4–6 services
	for i := 0; i < ctx.Pick(600, 20000); i++ {
		n := 4 + r.Intn(3)
		k := 0
		for b := 0; b < n*n; b++ {
			if r.Intn(n) == 0 {
				k |= 1 << b
			}
		}
		ctx.Count("cycle-path:random:n=" + strconv.Itoa(n))
		ctx.Add("c10.cyclePath", projArgs{pathProj(n, k, shuffle), 3})
	}
}
