package c10

// C10 — loader options that change the *shape* a check sees (round 6).
//
// The two checks of this property run in the middle of a pipeline whose other stages can be switched off one by one:
// `SkipInterpolation` (the cast table has not run: `external: yes` is still a string when validation.Validate reads it),
// `SkipNormalization` (no implicit depends_on, no defaults of Normalize), `SkipDefaultValues`, `ResolvePaths=false`,
// `SkipResolveEnvironment`, `SkipExtends` / `SkipInclude` (when the model has none), env files discarded.  The property
// speaks about "loading succeeds with consistency checks on": it holds under every such option set.
//
// One case = one directory tree × one option set, loaded twice: with both checks on (the load the property is about) and
// with both checks skipped (vacuity guard: nothing but the two checks rejects the case; and the typed project the model of
// checkConsistency is run on).  Dimensions: every rule of c10Edits × placement {main, override, include} × option set ×
// — for the rules that read a boolean — every spelling of that boolean yaml.v3 can hand over (a bool, a quoted "true", the
// YAML 1.1 words in several cases).  The Lean op `c10.optload` (Model/ValidateCast.lean) predicts the class of the load from
// the resource tree as the validation stage sees it (cast or not cast, by `SkipInterpolation`) and the consistency model.

import (
	"encoding/json"
	"fmt"
	"os"
	"reflect"
	"strings"

	interp "github.com/compose-spec/compose-go/v2/interpolation"
	"github.com/compose-spec/compose-go/v2/loader"
	"github.com/compose-spec/compose-go/v2/types"
	"github.com/compose-spec/compose-go/v2/validation"

	"verifharness/core"
)

type optSet struct {
	name string
	set  func(*core.LoadReq)
	// the option set cannot be used with layouts that contain include / extends
	noInclude, noExtends bool
}

var optSets = []optSet{
	{name: "default", set: func(r *core.LoadReq) {}},
	{name: "SkipInterpolation", set: func(r *core.LoadReq) { r.SkipInterpolation = true }},
	{name: "SkipNormalization", set: func(r *core.LoadReq) { r.SkipNormalization = true }},
	{name: "SkipDefaultValues", set: func(r *core.LoadReq) { r.SkipDefaultValues = true }},
	{name: "NoResolvePaths", set: func(r *core.LoadReq) { r.NoResolvePaths = true }},
	{name: "SkipResolveEnvironment", set: func(r *core.LoadReq) { r.SkipResolveEnvironment = true }},
	{name: "DiscardEnvFiles", set: func(r *core.LoadReq) { r.DiscardEnvFiles = true }},
	{name: "SkipExtends", set: func(r *core.LoadReq) { r.SkipExtends = true }, noExtends: true},
	{name: "SkipInclude", set: func(r *core.LoadReq) { r.SkipInclude = true }, noInclude: true},
	{name: "SkipInterpolation+SkipNormalization", set: func(r *core.LoadReq) { r.SkipInterpolation, r.SkipNormalization = true, true }},
	{name: "SkipInterpolation+SkipDefaultValues+NoResolvePaths", set: func(r *core.LoadReq) {
		r.SkipInterpolation, r.SkipDefaultValues, r.NoResolvePaths = true, true, true
	}},
	{name: "all-but-the-checks", set: func(r *core.LoadReq) {
		r.SkipInterpolation, r.SkipNormalization, r.SkipDefaultValues, r.NoResolvePaths, r.SkipResolveEnvironment, r.DiscardEnvFiles = true, true, true, true, true, true
	}},
}

// rules whose violation exists only through what `Normalize` adds (implicit depends_on of links / volumes_from / the
// `service:` namespaces other than network_mode): with SkipNormalization the reference is not a dependency and
// checkConsistency has nothing to see.  For these the expectation is the model's prediction, not "must fail".
func needsNormalize(rule string) bool {
	switch rule {
	case "dependsOn:links", "dependsOn:links-alias", "dependsOn:volumes_from", "serviceRef:ipc", "serviceRef:pid", "serviceRef:ipc-disabled":
		return true
	}
	return false
}

type optArgs struct {
	Req       core.LoadReq `json:"req"`
	Expect    string       `json:"expect"` // "valid" | "invalid" | "model" (the model decides: needsNormalize under SkipNormalization)
	Rule      string       `json:"rule"`
	Placement string       `json:"placement"`
	Opt       string       `json:"opt"`
	Tree      any          `json:"tree"` // the checked resources as written (merged over the files), wire format of CV.Val
}

// typedStructuralDefects is the independent checker of the structural clauses on the *returned* project: an external
// volume with creation parameters, a secret / config with several sources.
func typedStructuralDefects(p *types.Project) []string {
	var out []string
	for _, n := range sortedKeys(p.Volumes) {
		v := p.Volumes[n]
		if bool(v.External) && (v.Driver != "" || len(v.DriverOpts) > 0 || len(v.Labels) > 0) {
			out = append(out, "externalVolume:"+n)
		}
	}
	for _, n := range sortedKeys(p.Secrets) {
		s := p.Secrets[n]
		if s.File != "" && s.Environment != "" {
			out = append(out, "secretSources:"+n)
		}
	}
	for _, n := range sortedKeys(p.Configs) {
		c := p.Configs[n]
		k := 0
		if c.File != "" {
			k++
		}
		if c.Environment != "" {
			k++
		}
		if k > 1 {
			out = append(out, "configSources:"+n)
		}
	}
	return out
}

func realOptLoad(a optArgs) any {
	root, err := core.Materialize(a.Req.Files)
	defer os.RemoveAll(root)
	if err != nil {
		return map[string]any{"bad": err.Error()}
	}
	out := map[string]any{}
	p, err := a.Req.LoadIn(root)
	switch {
	case err != nil:
		t := core.ScrubErr(err, root)
		out["on"], out["detail"] = glueClass(t), t
	case p == nil:
		out["on"] = "other:nil project and nil error"
	default:
		out["on"] = "ok"
		out["defects"] = typedStructuralDefects(p)
		out["onproj"] = abstractProject(p)
	}
	off := a.Req
	off.SkipValidation, off.SkipConsistencyCheck = true, true
	p, err = off.LoadIn(root)
	switch {
	case err != nil:
		out["off"] = "err:" + core.ScrubErr(err, root)
	case p == nil:
		out["off"] = "err:nil project and nil error"
	default:
		out["off"] = "ok"
		out["proj"] = abstractProject(p)
	}
	return map[string]any{"ok": out}
}

func init() {
	core.Register("c10.optload", &core.CheckDef{
		Real: func(raw json.RawMessage) any {
			var a optArgs
			json.Unmarshal(raw, &a)
			return realOptLoad(a)
		},
		DriverOp: "c10.optload",
		DriverArgs: func(args, real json.RawMessage) any {
			var a optArgs
			json.Unmarshal(args, &a)
			var r struct {
				OK struct {
					Proj json.RawMessage `json:"proj"`
				} `json:"ok"`
			}
			json.Unmarshal(real, &r)
			var proj any = map[string]any{}
			if r.OK.Proj != nil && string(r.OK.Proj) != "null" {
				proj = r.OK.Proj
			}
			return map[string]any{"proj": proj, "tree": a.Tree, "skip_interpolation": a.Req.SkipInterpolation}
		},
		Judge: func(args, real, drv json.RawMessage) *core.Verdict {
			if v := c10Crash(real); v != nil {
				return v
			}
			var a optArgs
			json.Unmarshal(args, &a)
			var r struct {
				OK struct {
					On      string   `json:"on"`
					Detail  string   `json:"detail"`
					Off     string   `json:"off"`
					Defects []string `json:"defects"`
				} `json:"ok"`
			}
			var d struct {
				Pred string `json:"pred"`
				V    string `json:"v"`
				VRaw string `json:"vraw"`
				VCst string `json:"vcast"`
				C    string `json:"c"`
			}
			if json.Unmarshal(real, &r) != nil || r.OK.On == "" || json.Unmarshal(drv, &d) != nil || d.Pred == "" {
				return core.Disagree("malformed exchange: " + string(real) + " / " + string(drv))
			}
			where := a.Rule + "@" + a.Placement + "+" + a.Opt
			// the property, on the load with both checks on
			if r.OK.On == "ok" && len(r.OK.Defects) > 0 {
				return core.Fail("loaded-inconsistent:"+defectKinds(r.OK.Defects)+"+"+a.Opt,
					fmt.Sprintf("the load (options: %s) succeeds and returns a project with %v", a.Opt, r.OK.Defects))
			}
			if a.Expect == "invalid" && r.OK.On == "ok" {
				return core.Fail("accepted:"+where, fmt.Sprintf("a model that breaks rule %q (violating part placed in: %s) loads without error under the options %s", a.Rule, a.Placement, a.Opt))
			}
			if a.Expect == "valid" && r.OK.On != "ok" {
				return core.Fail("rejected-valid:"+a.Opt+":"+errShape(r.OK.Detail), "a valid model fails to load under the options "+a.Opt+": "+r.OK.Detail)
			}
			// vacuity guard
			if r.OK.Off != "ok" {
				return core.Disagree("the load of " + where + " fails with both checks skipped: " + r.OK.Off)
			}
			if a.Expect == "invalid" && d.Pred == "ok" {
				return core.Disagree("the model accepts the negative case " + where)
			}
			if a.Expect == "valid" && d.Pred != "ok" {
				return core.Disagree("the model rejects the valid case " + where + " (" + d.Pred + ")")
			}
			// the validation stage reads a not-yet-cast boolean as the cast would (`validate_cast_invariant`)
			if d.VRaw != d.VCst {
				return core.Disagree(fmt.Sprintf("the model of validation.Validate decides %s differently before (%s) and after (%s) the cast of `external`", where, d.VRaw, d.VCst))
			}
			if r.OK.On != d.Pred {
				return core.Disagree(fmt.Sprintf("%s: real %q (%s), model %q (structural stage %s, consistency stage %s)", where, r.OK.On, r.OK.Detail, d.Pred, d.V, d.C))
			}
			return nil
		},
		Timeout: c10Timeout,
	})
}

func defectKinds(l []string) string {
	seen, out := map[string]bool{}, []string{}
	for _, d := range l {
		k, _, _ := strings.Cut(d, ":")
		if !seen[k] {
			seen[k] = true
			out = append(out, k)
		}
	}
	return strings.Join(out, "+")
}

// respell returns copies of the edit in which every `external: true` of its top-level parts is written in each of the
// spellings that mean true (and the name of the spelling); edits without such a boolean come back alone.
func respell(e edit) []struct {
	e  edit
	sp string
} {
	type res = struct {
		e  edit
		sp string
	}
	has := false
	sub := func(top M, v any) M {
		if top == nil {
			return nil
		}
		out := core.DeepCopyVal(top).(M)
		for _, sec := range []string{"volumes", "secrets", "configs"} {
			if m, ok := out[sec].(M); ok {
				for _, n := range sortedKeys(m) {
					if rm, ok := m[n].(M); ok {
						if b, ok := rm["external"].(bool); ok && b {
							has = true
							rm["external"] = v
						}
					}
				}
			}
		}
		return out
	}
	sub(e.topB, true)
	sub(e.topF, true)
	if !has {
		return []res{{e, ""}}
	}
	var out []res
	for _, sp := range externalSpellings {
		if sp.kind != "true" {
			continue
		}
		c := e
		c.topB, c.topF = sub(e.topB, sp.v), sub(e.topF, sp.v)
		out = append(out, res{c, fmt.Sprintf("%T(%v)", sp.v, sp.v)})
	}
	return out
}

// quoteNumbers returns the edit with the numeric leaves the pairing / exclusivity rules compare written as quoted text
// (`scale: "2"`, `pids_limit: "5"`, `cpus: "0.25"`): what an interpolated value looks like, and — with SkipInterpolation —
// what reaches the typed decode uncast.  ok = the edit has such a leaf.
func quoteNumbers(e edit) (edit, bool) {
	changed := false
	keys := map[string]bool{"scale": true, "replicas": true, "cpus": true, "pids_limit": true, "pids": true, "mem_limit": true, "mem_reservation": true}
	var walk func(v any) any
	walk = func(v any) any {
		switch x := v.(type) {
		case M:
			out := M{}
			for k, c := range x {
				switch n := c.(type) {
				case int:
					if keys[k] {
						out[k], changed = fmt.Sprint(n), true
						continue
					}
				case float64:
					if keys[k] {
						out[k], changed = fmt.Sprint(n), true
						continue
					}
				}
				out[k] = walk(c)
			}
			return out
		case []any:
			out := make([]any, len(x))
			for i, c := range x {
				out[i] = walk(c)
			}
			return out
		}
		return v
	}
	c := e
	if e.base != nil {
		c.base = walk(e.base).(M)
	}
	if e.frag != nil {
		c.frag = walk(e.frag).(M)
	}
	return c, changed
}

// editTree is the part of the merged model the structural stage decides the edit on.
func editTree(e edit) any {
	if e.frag != nil {
		return core.EncodeVal(map[string]any{"services": map[string]any{"t": deepMerge(e.base, e.frag)}})
	}
	return core.EncodeVal(deepMerge(deepMerge(M{}, e.topB), e.topF))
}

func hasKeyDeep(v any, key string) bool {
	switch x := v.(type) {
	case M:
		for k, c := range x {
			if k == key || hasKeyDeep(c, key) {
				return true
			}
		}
	case []any:
		for _, c := range x {
			if hasKeyDeep(c, key) {
				return true
			}
		}
	}
	return false
}

func runC10Opts(ctx *core.Ctx) {
	r := ctx.Rng
	// which option sets a case is loaded under: full (the rule on the main placement) = the three shape-changing sets plus two
	// others (thorough: all twelve); otherwise one shape-changing set plus one other (thorough: three + three)
	shape := []string{"SkipInterpolation", "SkipNormalization", "all-but-the-checks"}
	chosen := func(full bool) map[string]bool {
		pick := map[string]bool{}
		others := 1
		if full {
			for _, n := range shape {
				pick[n] = true
			}
			others = ctx.Pick(2, len(optSets))
		} else {
			pick[shape[[]int{0, 2}[r.Intn(2)]]] = true
			if ctx.Pick(0, 1) == 1 {
				for _, n := range shape {
					pick[n] = true
				}
				others = 3
			}
		}
		for i := 0; i < others; i++ {
			pick[optSets[r.Intn(len(optSets))].name] = true
		}
		return pick
	}
	add := func(l layout, expect, rule, pl string, tree any, full bool) {
		usesInclude, usesExtends := false, false
		for _, f := range l.files {
			usesInclude = usesInclude || hasKeyDeep(f, "include")
			usesExtends = usesExtends || hasKeyDeep(f, "extends")
		}
		pick := chosen(full)
		for _, o := range optSets {
			if (o.noInclude && usesInclude) || (o.noExtends && usesExtends) {
				continue
			}
			if !pick[o.name] {
				continue
			}
			req := l.req(nil)
			o.set(&req)
			exp := expect
			if exp == "invalid" && req.SkipNormalization && needsNormalize(strings.SplitN(rule, "[", 2)[0]) {
				exp = "model"
			}
			ctx.Count("opts:" + exp + ":" + o.name)
			ctx.Add("c10.optload", optArgs{Req: req, Expect: exp, Rule: rule, Placement: pl, Opt: o.name, Tree: tree})
		}
	}
	// ---- every rule × placement × option set; boolean-reading rules in every spelling that means true
	m := genValidModel(r)
	for _, e0 := range c10Edits() {
		for _, re := range respell(e0) {
			if re.sp != "" && re.sp != "bool(true)" && re.sp != "string(yes)" && ctx.Pick(r.Intn(3), 0) != 0 {
				continue // quick: the two canonical spellings and a third of the others
			}
			for _, pl := range []string{"main", "override", "include"} {
				if re.sp != "" && re.sp != "bool(true)" && pl == "include" && r.Intn(3) != 0 {
					continue // spellings × include: a third (the included file is a whole load of its own: same stage)
				}
				l, ok := applyEdit(m, re.e, pl)
				if !ok {
					continue
				}
				rule := re.e.rule
				if re.sp != "" {
					rule += "[" + re.sp + "]"
					ctx.Count("opts:spelling:" + re.sp)
				}
				add(l, "invalid", rule, pl, editTree(re.e), pl == "main" && (re.sp == "" || re.sp == "bool(true)" || re.sp == "string(yes)"))
			}
		}
	}
	// ---- the pairing / exclusivity rules with their numbers written as quoted text (uncast under SkipInterpolation)
	for _, e0 := range c10Edits() {
		q, ok := quoteNumbers(e0)
		if !ok {
			continue
		}
		for _, pl := range []string{"main", "override"} {
			if l, ok := applyEdit(m, q, pl); ok {
				ctx.Count("opts:quoted-numbers")
				add(l, "invalid", q.rule+"[quoted]", pl, core.EncodeVal(map[string]any{}), pl == "main")
			}
		}
	}
	// ---- valid: `external` spelled as *false* next to creation parameters, and spelled as true alone, under every option set
	for _, sp := range externalSpellings {
		if sp.kind == "invalid" {
			continue
		}
		var top M
		if sp.kind == "false" {
			top = M{"volumes": M{"ev": M{"external": sp.v, "driver": "foo", "labels": M{"a": "b"}}}, "secrets": M{"sx": M{"external": sp.v, "file": "./secret.txt"}}}
		} else {
			top = M{"volumes": M{"ev": M{"external": sp.v, "name": "outside"}}, "secrets": M{"sx": M{"external": sp.v}}, "configs": M{"cx": M{"external": sp.v, "name": "n"}}}
		}
		main := M{"services": core.DeepCopyVal(m.services)}
		for k, v := range m.top {
			main[k] = core.DeepCopyVal(v)
		}
		l := layout{files: M{"compose.yaml": deepMerge(main, top)}, configFiles: []string{"compose.yaml"}}
		add(l, "valid", fmt.Sprintf("valid-external[%T(%v)]", sp.v, sp.v), "main", core.EncodeVal(top), false)
	}
	// ---- valid models in the four layouts under every option set
	for i := 0; i < ctx.Pick(3, 60); i++ {
		vm := genValidModel(r)
		for _, kind := range layoutKinds {
			l := layOut(r, vm, kind)
			if len(layoutTags(l)) > 0 {
				continue
			}
			add(l, "valid", "valid", kind, core.EncodeVal(map[string]any{}), i == 0)
		}
	}
}

// ---------------------------------------------------------------- the cast in front of the structural stage, on the real code

// c10.castValidate: the real `interp.Interpolate` with the loader's cast table (what runs in front of validation.Validate
// unless SkipInterpolation is set) against `castTop`, and the real validation.Validate on the tree *before* and *after* that
// cast against each other and against the model: the verdict must not depend on whether the cast has run
// (`validate_cast_invariant`, here observed on the two real functions).
func sameJSON(a, b json.RawMessage) bool {
	var x, y any
	if json.Unmarshal(a, &x) != nil || json.Unmarshal(b, &y) != nil {
		return false
	}
	return reflect.DeepEqual(x, y)
}

func vclassOf(t map[string]any) string {
	if err := validation.Validate(t); err != nil {
		return "err:" + validateClass(err)
	}
	return "ok"
}

func init() {
	core.Register("c10.castValidate", &core.CheckDef{
		Real: func(raw json.RawMessage) any {
			var a struct {
				Tree json.RawMessage `json:"tree"`
			}
			json.Unmarshal(raw, &a)
			t, ok := core.DecodeValRaw(a.Tree).(map[string]any)
			if !ok {
				return map[string]any{"bad": "not a mapping"}
			}
			out := map[string]any{"vraw": vclassOf(core.DeepCopyVal(t).(map[string]any))}
			cast, err := interp.Interpolate(core.DeepCopyVal(t).(map[string]any), interp.Options{
				TypeCastMapping: loader.VerifCastTable(),
				LookupValue:     func(string) (string, bool) { return "", false },
			})
			if err != nil {
				out["cast"] = "err"
				if !strings.Contains(err.Error(), "invalid boolean") {
					out["cast"] = "err:" + err.Error()
				}
				return map[string]any{"ok": out}
			}
			out["cast"] = "ok"
			out["tree"] = core.EncodeVal(cast)
			out["vcast"] = vclassOf(cast)
			return map[string]any{"ok": out}
		},
		DriverOp: "c10.castValidate",
		Judge: func(args, real, drv json.RawMessage) *core.Verdict {
			if v := c10Crash(real); v != nil {
				return v
			}
			var r struct {
				OK struct {
					VRaw  string          `json:"vraw"`
					Cast  string          `json:"cast"`
					Tree  json.RawMessage `json:"tree"`
					VCast string          `json:"vcast"`
				} `json:"ok"`
			}
			var d struct {
				Castable bool            `json:"castable"`
				Cast     json.RawMessage `json:"cast"`
				VRaw     json.RawMessage `json:"vraw"`
				VCast    json.RawMessage `json:"vcast"`
			}
			if json.Unmarshal(real, &r) != nil || r.OK.VRaw == "" || json.Unmarshal(drv, &d) != nil || d.VRaw == nil {
				return core.Disagree("malformed exchange: " + string(real) + " / " + string(drv))
			}
			cls := func(j json.RawMessage) string {
				var m map[string]any
				json.Unmarshal(j, &m)
				if e, ok := m["err"].(string); ok {
					return "err:" + e
				}
				if p, ok := m["panic"].(string); ok {
					return "panic:" + p
				}
				return "ok"
			}
			// the property-level observation on the two real functions: the same verdict before and after the cast
			if r.OK.Cast == "ok" && r.OK.VRaw != r.OK.VCast {
				return core.Fail("validate:verdict-depends-on-cast:"+r.OK.VRaw+"/"+r.OK.VCast,
					fmt.Sprintf("validation.Validate decides the tree %s before interpolation has cast `external` (SkipInterpolation) and %s after", r.OK.VRaw, r.OK.VCast))
			}
			if (r.OK.Cast == "ok") != d.Castable {
				return core.Disagree(fmt.Sprintf("the cast of the `external` leaves: real %s, model castable=%v", r.OK.Cast, d.Castable))
			}
			if r.OK.VRaw != cls(d.VRaw) {
				return core.Disagree("Validate on the tree as written: real " + r.OK.VRaw + ", model " + cls(d.VRaw))
			}
			if r.OK.Cast == "ok" {
				if r.OK.VCast != cls(d.VCast) {
					return core.Disagree("Validate on the cast tree: real " + r.OK.VCast + ", model " + cls(d.VCast))
				}
				if !sameJSON(r.OK.Tree, d.Cast) {
					return core.Disagree("the cast tree differs: real " + string(r.OK.Tree) + ", model " + string(d.Cast))
				}
			}
			return nil
		},
		Timeout: c10Timeout,
	})
}

func runC10Cast(ctx *core.Ctx) {
	for _, sp := range externalSpellings {
		if s, ok := sp.v.(string); ok && strings.Contains(s, "$") {
			continue // a variable reference: substitution, not the cast, decides (C08)
		}
		for _, c := range externalCompanions() {
			ctx.Count("cast:volumes:" + sp.kind)
			ctx.Add("c10.castValidate", treeArgs(map[string]any{"volumes": map[string]any{"v": withExternal(c.v, sp.v)}}))
		}
		for _, sec := range []string{"configs", "secrets"} {
			for _, c := range []treeVariant{{"alone", map[string]any{}}, {"file", map[string]any{"file": "./f"}}, {"fileEnv", map[string]any{"file": "./f", "environment": "E"}}, {"name", map[string]any{"name": "n"}}} {
				ctx.Count("cast:" + sec + ":" + sp.kind)
				ctx.Add("c10.castValidate", treeArgs(map[string]any{sec: map[string]any{"o": withExternal(c.v, sp.v)}}))
			}
		}
	}
	// two resources in two sections with independent spellings
	r := ctx.Rng
	for i := 0; i < ctx.Pick(200, 5000); i++ {
		a, b := externalSpellings[r.Intn(len(externalSpellings)-1)], externalSpellings[r.Intn(len(externalSpellings)-1)]
		cs := externalCompanions()
		ctx.Count("cast:pair")
		ctx.Add("c10.castValidate", treeArgs(map[string]any{
			"volumes": map[string]any{"v": withExternal(cs[r.Intn(len(cs))].v, a.v), "w": nil},
			"secrets": map[string]any{"o": withExternal(map[string]any{"file": "./f"}, b.v)},
			"services": map[string]any{"s": map[string]any{"image": "i", "privileged": false}},
		}))
	}
}
