package c10

// C10 generators for validation.Validate (untyped merged tree).

import (
	"math/rand"

	"verifharness/core"
)

type treeVariant struct {
	name string
	v    any
}

func volumeVariants() []treeVariant {
	return []treeVariant{
		{"null", nil},
		{"empty", map[string]any{}},
		{"driver", map[string]any{"driver": "local", "driver_opts": map[string]any{"o": "v"}}},
		{"external", map[string]any{"external": true}},
		{"externalName", map[string]any{"external": true, "name": "n"}},
		{"externalExt", map[string]any{"external": true, "x-foo": 1, "#extensions": map[string]any{"x-foo": 1}}},
		{"externalFalseDriver", map[string]any{"external": false, "driver": "local"}},
		{"externalDriver", map[string]any{"external": true, "driver": "local"}},
		{"externalLabels", map[string]any{"external": true, "labels": map[string]any{"a": "b"}}},
		{"externalOpts", map[string]any{"external": true, "name": "n", "driver_opts": map[string]any{}}},
		{"externalX", map[string]any{"external": true, "x": 1}},
		// not yet cast (SkipInterpolation): the YAML 1.1 words and quoted text arrive as strings
		{"externalYesDriver", map[string]any{"external": "yes", "driver": "local"}},
		{"externalOnLabels", map[string]any{"external": "On", "labels": map[string]any{"a": "b"}}},
		{"externalNoDriver", map[string]any{"external": "No", "driver": "local"}},
		{"externalQuotedTrueName", map[string]any{"external": "true", "name": "n"}},
	}
}

func fileObjectVariants(content bool) []treeVariant {
	l := []treeVariant{
		{"empty", map[string]any{}},
		{"file", map[string]any{"file": "./f"}},
		{"environment", map[string]any{"environment": "E"}},
		{"fileEnv", map[string]any{"file": "./f", "environment": "E"}},
		{"external", map[string]any{"external": true}},
		{"externalFalse", map[string]any{"external": false}},
		{"externalFile", map[string]any{"external": true, "file": "./f"}},
		{"driver", map[string]any{"driver": "d"}},
		{"driverFile", map[string]any{"driver": "d", "file": "./f"}},
		{"nameOnly", map[string]any{"name": "n"}},
		{"labelsOnly", map[string]any{"labels": map[string]any{"a": "b"}}},
		{"fileNull", map[string]any{"file": nil}},
		// a custom driver does not lift the exclusivity of the sources
		{"driverFileEnv", map[string]any{"driver": "d", "file": "./f", "environment": "E"}},
		{"driverFileContent", map[string]any{"driver": "d", "file": "./f", "content": "c"}},
		{"driverExternal", map[string]any{"driver": "d", "external": true}},
		{"driverExternalFileEnv", map[string]any{"driver": "d", "external": true, "file": "./f", "environment": "E"}},
		{"externalFileEnv", map[string]any{"external": true, "file": "./f", "environment": "E"}},
	}
	l = append(l, treeVariant{"content", map[string]any{"content": "c"}}, treeVariant{"fileContent", map[string]any{"file": "./f", "content": "c"}},
		treeVariant{"envContent", map[string]any{"environment": "E", "content": "c"}}, treeVariant{"all3", map[string]any{"file": "./f", "environment": "E", "content": "c"}})
	_ = content
	return l
}

func deviceVariants() []treeVariant {
	return []treeVariant{
		{"empty", map[string]any{}},
		{"count", map[string]any{"count": 1, "capabilities": []any{"gpu"}}},
		{"ids", map[string]any{"device_ids": []any{"0"}, "capabilities": []any{"gpu"}}},
		{"both", map[string]any{"count": "all", "device_ids": []any{"0"}}},
		{"bothNull", map[string]any{"count": nil, "device_ids": nil}},
	}
}

func watchVariants() []treeVariant {
	return []treeVariant{
		{"ok", map[string]any{"path": "./p", "action": "rebuild"}},
		{"blank", map[string]any{"path": "", "action": "sync", "target": "/t"}},
		{"noPath", map[string]any{"action": "rebuild"}},
	}
}

// externalSpellings: what `external` can be when the validation stage sees it.  With interpolation on, the cast table has
// turned every string into a bool (or failed); with SkipInterpolation the tree holds whatever yaml.v3 decoded: a bool for
// the YAML 1.2 spellings, a *string* for the YAML 1.1 ones (yes / on / y / no / off / n in any case), for quoted text, and
// for anything else the schema admits as a string.
var externalSpellings = []struct {
	v    any
	kind string // "true" | "false" | "invalid"
}{
	{true, "true"}, {false, "false"},
	{"true", "true"}, {"True", "true"}, {"TRUE", "true"}, {"yes", "true"}, {"Yes", "true"}, {"YES", "true"}, {"on", "true"}, {"On", "true"}, {"ON", "true"}, {"y", "true"}, {"Y", "true"}, {"yEs", "true"},
	{"false", "false"}, {"False", "false"}, {"FALSE", "false"}, {"no", "false"}, {"No", "false"}, {"NO", "false"}, {"off", "false"}, {"Off", "false"}, {"OFF", "false"}, {"n", "false"}, {"N", "false"},
	{"", "invalid"}, {"1", "invalid"}, {"0", "invalid"}, {"t", "invalid"}, {"T", "invalid"}, {"f", "invalid"}, {"maybe", "invalid"}, {"yes ", "invalid"}, {" on", "invalid"}, {"tru", "invalid"}, {"oui", "invalid"}, {"${V}", "invalid"},
}

// externalCompanions: what stands next to `external` in the resource (the keys checkExternal tolerates, and the ones it does not)
func externalCompanions() []treeVariant {
	return []treeVariant{
		{"alone", map[string]any{}},
		{"name", map[string]any{"name": "n"}},
		{"ext", map[string]any{"x-foo": 1, "#extensions": map[string]any{"x-foo": 1}}},
		{"driver", map[string]any{"driver": "local"}},
		{"driver_opts", map[string]any{"name": "n", "driver_opts": map[string]any{"o": "v"}}},
		{"labels", map[string]any{"labels": map[string]any{"a": "b"}}},
		{"other", map[string]any{"x": 1}},
	}
}

func withExternal(companion any, ext any) map[string]any {
	m := core.DeepCopyVal(companion).(map[string]any)
	m["external"] = ext
	return m
}

func treeArgs(t map[string]any) any { return map[string]any{"tree": core.EncodeVal(t)} }

func pickTV(r *rand.Rand, l []treeVariant) any { return core.DeepCopyVal(l[r.Intn(len(l))].v) }

func randomValidateTree(r *rand.Rand, malformed bool) map[string]any {
	t := map[string]any{}
	names := []string{"a", "b", "x.y", "c"}
	if r.Intn(4) != 0 {
		m := map[string]any{}
		for i := 0; i < r.Intn(3); i++ {
			v := pickTV(r, volumeVariants())
			if vm, ok := v.(map[string]any); ok && r.Intn(3) == 0 {
				if _, has := vm["external"]; has {
					vm["external"] = externalSpellings[r.Intn(len(externalSpellings))].v
				}
			}
			m[names[r.Intn(len(names))]] = v
		}
		t["volumes"] = m
	}
	for _, sec := range []string{"configs", "secrets"} {
		if r.Intn(3) != 0 {
			m := map[string]any{}
			for i := 0; i < r.Intn(3); i++ {
				m[names[r.Intn(len(names))]] = pickTV(r, fileObjectVariants(sec == "configs"))
			}
			t[sec] = m
		}
	}
	svcs := map[string]any{}
	for i := 0; i < r.Intn(3); i++ {
		s := map[string]any{"image": "i"}
		if r.Intn(2) == 0 {
			var ws []any
			for j := 0; j < 1+r.Intn(2); j++ {
				ws = append(ws, pickTV(r, watchVariants()))
			}
			s["develop"] = map[string]any{"watch": ws}
		}
		if r.Intn(2) == 0 {
			var ds []any
			for j := 0; j < 1+r.Intn(2); j++ {
				ds = append(ds, pickTV(r, deviceVariants()))
			}
			s["deploy"] = map[string]any{"resources": map[string]any{"reservations": map[string]any{"devices": ds}}}
		}
		if r.Intn(2) == 0 {
			var ds []any
			for j := 0; j < 1+r.Intn(2); j++ {
				ds = append(ds, pickTV(r, deviceVariants()))
			}
			s["gpus"] = ds
		}
		// same key names at other depths must not be checked
		if r.Intn(4) == 0 {
			s["volumes"] = []any{map[string]any{"type": "volume", "source": "a", "target": "/t", "external": true, "driver": "x"}}
			s["secrets"] = []any{map[string]any{"source": "a"}}
		}
		svcs[names[r.Intn(len(names))]] = s
	}
	if len(svcs) > 0 {
		t["services"] = svcs
	}
	if malformed {
		// replace a few nodes (any depth) by an arbitrary node kind
		for i := 0; i < 1+r.Intn(2); i++ {
			mutateNode(r, t, 0)
		}
		if r.Intn(6) == 0 {
			t["volumes.z"] = core.KindValue(core.Kinds[r.Intn(len(core.Kinds))], r)
		}
		if r.Intn(8) == 0 {
			t[""] = map[string]any{"secrets": map[string]any{"q": core.KindValue(core.Kinds[r.Intn(len(core.Kinds))], r)}}
		}
	}
	return t
}

func mutateNode(r *rand.Rand, v any, depth int) {
	switch x := v.(type) {
	case map[string]any:
		if len(x) == 0 {
			return
		}
		ks := sortedKeys(x)
		k := ks[r.Intn(len(ks))]
		if r.Intn(3) == 0 || depth > 6 {
			x[k] = core.KindValue(core.Kinds[r.Intn(len(core.Kinds))], r)
			return
		}
		mutateNode(r, x[k], depth+1)
	case []any:
		if len(x) == 0 {
			return
		}
		i := r.Intn(len(x))
		if r.Intn(3) == 0 || depth > 6 {
			x[i] = core.KindValue(core.Kinds[r.Intn(len(core.Kinds))], r)
			return
		}
		mutateNode(r, x[i], depth+1)
	}
}

func runC10Tree(ctx *core.Ctx) {
	// ---- exhaustive: every variant of every checked node kind alone, and every pair (volume, secret/config) etc.
	for _, v := range volumeVariants() {
		ctx.Count("tree:volume")
		ctx.Add("c10.validate", treeArgs(map[string]any{"volumes": map[string]any{"v": core.DeepCopyVal(v.v)}}))
	}
	for _, sec := range []string{"configs", "secrets"} {
		for _, v := range fileObjectVariants(true) {
			ctx.Count("tree:" + sec)
			ctx.Add("c10.validate", treeArgs(map[string]any{sec: map[string]any{"o": core.DeepCopyVal(v.v)}}))
			for _, w := range volumeVariants() {
				ctx.Count("tree:pair")
				ctx.Add("c10.validate", treeArgs(map[string]any{sec: map[string]any{"o": core.DeepCopyVal(v.v)}, "volumes": map[string]any{"v": core.DeepCopyVal(w.v)}}))
			}
		}
	}
	for _, v := range deviceVariants() {
		for _, w := range watchVariants() {
			ctx.Count("tree:service")
			ctx.Add("c10.validate", treeArgs(map[string]any{"services": map[string]any{"s": map[string]any{
				"develop": map[string]any{"watch": []any{core.DeepCopyVal(w.v)}},
				"gpus":    []any{core.DeepCopyVal(v.v)},
				"deploy":  map[string]any{"resources": map[string]any{"reservations": map[string]any{"devices": []any{core.DeepCopyVal(v.v)}}}},
			}}}))
		}
	}
	// `external` in every spelling the validation stage can meet (cast or not yet cast) × every companion, in the three sections
	for _, sp := range externalSpellings {
		for _, c := range externalCompanions() {
			ctx.Count("tree:external-spelling:" + sp.kind)
			ctx.Add("c10.validate", treeArgs(map[string]any{"volumes": map[string]any{"v": withExternal(c.v, sp.v)}}))
		}
		for _, sec := range []string{"configs", "secrets"} {
			for _, c := range []treeVariant{{"alone", map[string]any{}}, {"file", map[string]any{"file": "./f"}}, {"fileEnv", map[string]any{"file": "./f", "environment": "E"}}, {"name", map[string]any{"name": "n"}}} {
				ctx.Count("tree:external-spelling:" + sec)
				ctx.Add("c10.validate", treeArgs(map[string]any{sec: map[string]any{"o": withExternal(c.v, sp.v)}}))
			}
		}
	}
	// every node kind at every checked path (the checkers' unchecked assertions)
	for _, kind := range core.Kinds {
		kv := func() any { return core.KindValue(kind, ctx.Rng) }
		for _, t := range []map[string]any{
			{"volumes": map[string]any{"v": kv()}},
			{"volumes": map[string]any{"v": map[string]any{"external": kv()}}},
			{"configs": map[string]any{"v": kv()}},
			{"secrets": map[string]any{"v": kv()}},
			{"volumes": kv()}, {"secrets": kv()}, {"services": kv()},
			{"services": map[string]any{"s": map[string]any{"gpus": []any{kv()}}}},
			{"services": map[string]any{"s": map[string]any{"gpus": kv()}}},
			{"services": map[string]any{"s": map[string]any{"develop": map[string]any{"watch": []any{map[string]any{"path": kv()}}}}}},
			{"services": map[string]any{"s": map[string]any{"deploy": map[string]any{"resources": map[string]any{"reservations": map[string]any{"devices": []any{kv()}}}}}}},
		} {
			ctx.Count("tree:kind-at-checked-path")
			ctx.Add("c10.validate", treeArgs(t))
		}
	}
	// ---- seeded random: mostly well-shaped, plus a malformed stream
	for i := 0; i < ctx.Pick(1500, 40000); i++ {
		ctx.Count("tree:random")
		ctx.Add("c10.validate", treeArgs(randomValidateTree(ctx.Rng, false)))
	}
	for i := 0; i < ctx.Pick(1500, 40000); i++ {
		ctx.Count("tree:random-malformed")
		ctx.Add("c10.validate", treeArgs(randomValidateTree(ctx.Rng, true)))
	}
}
