package main

import "verifharness/core"

func runC12Loads(ctx *core.Ctx) {}
