package main

// C09 — a marshalled project reloads to the same project (YAML and JSON).
//
//	c09_corr.go    correspondence: custom (un)marshallers and struct encoding vs the Lean models
//	c09_oracle.go  direct oracle on the real code (load → render → reload → compare → render again)
//	c09_pool.go    frozen attribute pools the oracle's documents are built from

import "verifharness/core"

func init() { core.RegisterProp("C09", runC09) }

func runC09(ctx *core.Ctx) {
	runC09Corr(ctx)
	ctx.Wait()
	runC09Oracle(ctx)
}
