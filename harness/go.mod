module verifharness

go 1.23

require (
	github.com/compose-spec/compose-go/v2 v2.0.0
	github.com/distribution/reference v0.5.0
	github.com/opencontainers/go-digest v1.0.0
	github.com/sirupsen/logrus v1.9.0
	gopkg.in/yaml.v3 v3.0.1
)

require (
	github.com/docker/go-connections v0.4.0 // indirect
	github.com/docker/go-units v0.5.0 // indirect
	github.com/go-viper/mapstructure/v2 v2.0.0 // indirect
	github.com/mattn/go-shellwords v1.0.12 // indirect
	github.com/xeipuuv/gojsonpointer v0.0.0-20180127040702-4e3ac2762d5f // indirect
	github.com/xeipuuv/gojsonreference v0.0.0-20180127040603-bd5ef7bd5415 // indirect
	github.com/xeipuuv/gojsonschema v1.2.0 // indirect
	golang.org/x/exp v0.0.0-20240112132812-db7319d0e0e3 // indirect
	golang.org/x/sync v0.3.0 // indirect
	golang.org/x/sys v0.1.0 // indirect
)

replace github.com/compose-spec/compose-go/v2 => /repo
