module verifharness

go 1.23

require github.com/compose-spec/compose-go/v2 v2.0.0

require (
	github.com/sirupsen/logrus v1.9.0 // indirect
	golang.org/x/sys v0.1.0 // indirect
)

replace github.com/compose-spec/compose-go/v2 => /repo
