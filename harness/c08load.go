package main

import "verifharness/core"

func runC08Loads(ctx *core.Ctx) {}
