package main

// The dependency-ordered traversal under the race detector (C19, round 6): one explicit case = one graph (edges
// "a depends on b"), the options WithRootNodesAndDown / InReverseOrder / WithMaxConcurrency, an optional failing visitor.
// The visitor takes a little time so that sibling workers overlap.  Besides the race reports (stderr) the helper decides on
// the outcome itself: returns (watchdog), the results map is exactly `visitor's value` for the services that have to be
// visited and the zero value for the skipped ones, every visit once and after what it has to wait for, at most `limit`
// visitors at once, the injected error returned.

import (
	"context"
	"encoding/json"
	"fmt"
	"math/rand"
	"os"
	"runtime"
	"sort"
	"strconv"
	"sync"
	"time"

	"github.com/compose-spec/compose-go/v2/graph"
	"github.com/compose-spec/compose-go/v2/types"
)

type travCase struct {
	N       int      `json:"n"`
	Edges   [][2]int `json:"edges"` // [a, b]: service a depends on service b
	Roots   []int    `json:"roots"` // WithRootNodesAndDown; empty = option not used
	Limit   int      `json:"limit"` // 0 = no WithMaxConcurrency
	Reverse bool     `json:"reverse"`
	FailAt  int      `json:"fail_at"` // -1 = nobody fails
	Rounds  int      `json:"rounds"`
	Collect bool     `json:"collect"` // CollectInDependencyOrder (results compared) instead of InDependencyOrder
	Par     int      `json:"par"`     // > 1: that many walks of the SAME *types.Project (and the same option values) at once
}

type travOut struct {
	Problems []string `json:"trav_problems"`
	Walks    int      `json:"walks"`
	Visits   int      `json:"visits"`
	Skipped  int      `json:"skipped"`
}

func svcName(v int) string { return "s" + strconv.Itoa(v) }

func runTravCase(job raceJob) {
	c := *job.Trav
	if c.Rounds <= 0 {
		c.Rounds = 1
	}
	out := travOut{Problems: []string{}}
	deps := make([][]int, c.N) // direct dependencies
	rdeps := make([][]int, c.N)
	for _, e := range c.Edges {
		deps[e[0]] = append(deps[e[0]], e[1])
		rdeps[e[1]] = append(rdeps[e[1]], e[0])
	}
	// expected set of visited services: a root, or a service one of whose transitive dependencies is a root
	isRoot := map[int]bool{}
	for _, r := range c.Roots {
		isRoot[r] = true
	}
	want := make([]bool, c.N)
	var reaches func(v int, seen map[int]bool) bool
	reaches = func(v int, seen map[int]bool) bool {
		if isRoot[v] {
			return true
		}
		if seen[v] {
			return false
		}
		seen[v] = true
		for _, d := range deps[v] {
			if reaches(d, seen) {
				return true
			}
		}
		return false
	}
	for v := 0; v < c.N; v++ {
		want[v] = len(c.Roots) == 0 || reaches(v, map[int]bool{})
	}
	problem := func(f string, a ...any) {
		if len(out.Problems) < 5 {
			out.Problems = append(out.Problems, fmt.Sprintf(f, a...))
		}
	}
	rng := rand.New(rand.NewSource(job.Seed))
	for round := 0; round < c.Rounds; round++ {
		p := &types.Project{Name: "t", Services: types.Services{}}
		for v := 0; v < c.N; v++ {
			p.Services[svcName(v)] = types.ServiceConfig{Name: svcName(v), DependsOn: types.DependsOnConfig{}}
		}
		for _, e := range c.Edges {
			p.Services[svcName(e[0])].DependsOn[svcName(e[1])] = types.ServiceDependency{Condition: types.ServiceConditionStarted, Required: true}
		}
		var opts []func(*graph.Options)
		if len(c.Roots) > 0 {
			var names []string
			for _, r := range c.Roots {
				names = append(names, svcName(r))
			}
			opts = append(opts, graph.WithRootNodesAndDown(names))
		}
		if c.Limit > 0 {
			opts = append(opts, graph.WithMaxConcurrency(c.Limit))
		}
		if c.Reverse {
			opts = append(opts, graph.InReverseOrder)
		}
		par := c.Par
		if par < 1 {
			par = 1
		}
		var pmu sync.Mutex // guards out / problem() between the walks of one round
		var wg sync.WaitGroup
		stuck := false
		delays := make([][]int, par)
		for k := range delays {
			delays[k] = make([]int, c.N)
			for v := range delays[k] {
				delays[k][v] = rng.Intn(4)
			}
		}
		oneWalk := func(k int) {
			defer wg.Done()
			var mu sync.Mutex
			closed := false
			visits := make([]int, c.N)
			finished := make([]bool, c.N)
			running, maxRun := 0, 0
			bad := ""
			delay := delays[k]
			visitor := func(_ context.Context, name string, _ types.ServiceConfig) (string, error) {
				v, _ := strconv.Atoi(name[1:])
				mu.Lock()
				if !closed {
					visits[v]++
					running++
					if running > maxRun {
						maxRun = running
					}
					wait := deps[v]
					if c.Reverse {
						wait = rdeps[v]
					}
					for _, d := range wait {
						if want[d] && !finished[d] && bad == "" {
							bad = fmt.Sprintf("%s visited before %s was done", name, svcName(d))
						}
					}
				}
				mu.Unlock()
				switch delay[v] {
				case 0:
					runtime.Gosched()
				case 1:
					time.Sleep(50 * time.Microsecond)
				default:
					time.Sleep(time.Duration(100+100*delay[v]) * time.Microsecond)
				}
				mu.Lock()
				if !closed {
					running--
					finished[v] = true
				}
				mu.Unlock()
				if v == c.FailAt {
					return "", fmt.Errorf("visitor failed on %s", name)
				}
				return "visited " + name, nil
			}
			type res struct {
				m   map[string]string
				err error
			}
			ch := make(chan res, 1)
			go func() {
				if c.Collect {
					m, err := graph.CollectInDependencyOrder(context.Background(), p, visitor, opts...)
					ch <- res{m, err}
					return
				}
				err := graph.InDependencyOrder(context.Background(), p, func(ctx context.Context, name string, s types.ServiceConfig) error {
					_, err := visitor(ctx, name, s)
					return err
				}, opts...)
				ch <- res{nil, err}
			}()
			var r res
			select {
			case r = <-ch:
			case <-time.After(freeRunWatchdog):
				pmu.Lock()
				problem("deadlock: the walk did not return (round %d)", round)
				stuck = true
				pmu.Unlock()
				mu.Lock()
				closed = true
				mu.Unlock()
				return
			}
			pmu.Lock()
			defer pmu.Unlock()
			mu.Lock()
			closed = true
			out.Walks++
			failing := c.FailAt >= 0 && c.FailAt < c.N && want[c.FailAt]
			if failing {
				if r.err == nil || r.err.Error() != "visitor failed on "+svcName(c.FailAt) {
					problem("wrong-error: visitor of %s failed, the walk returned %v", svcName(c.FailAt), r.err)
				}
			} else {
				if r.err != nil {
					problem("wrong-error: nobody failed, the walk returned %v", r.err)
				}
				for v := 0; v < c.N; v++ {
					exp := 0
					if want[v] {
						exp = 1
						out.Visits++
					} else {
						out.Skipped++
					}
					if visits[v] != exp {
						problem("count: %s visited %d times, expected %d", svcName(v), visits[v], exp)
					}
				}
				if c.Collect {
					var keys []string
					for k := range r.m {
						keys = append(keys, k)
					}
					sort.Strings(keys)
					if len(r.m) != c.N {
						problem("results: %d entries for %d services: %v", len(r.m), c.N, keys)
					}
					for v := 0; v < c.N; v++ {
						exp := ""
						if want[v] {
							exp = "visited " + svcName(v)
						}
						if got, ok := r.m[svcName(v)]; !ok || got != exp {
							problem("results: entry of %s is %q (present %v), the visitor returned %q", svcName(v), got, ok, exp)
						}
					}
				}
				if c.Limit > 0 && maxRun > c.Limit {
					problem("over-limit: %d visitors ran at once under WithMaxConcurrency(%d)", maxRun, c.Limit)
				}
			}
			for v := 0; v < c.N; v++ {
				if visits[v] > 1 {
					problem("count: %s visited %d times", svcName(v), visits[v])
				}
			}
			if bad != "" {
				problem("order: %s", bad)
			}
			mu.Unlock()
		}
		for k := 0; k < par; k++ {
			wg.Add(1)
			go oneWalk(k)
		}
		wg.Wait()
		if stuck {
			break
		}
	}
	b, _ := json.Marshal(out)
	os.Stdout.Write(b)
	os.Stdout.Write([]byte("\n"))
}
