// Command c19race is the C19 helper that is built with `go build -race -tags verif`: it loads generated
// inputs from several goroutines at once and compares every result with the result of the same load run alone.
// The race detector writes its reports to stderr; the parent (harness/c19race.go) turns them into failure keys.
//
// stdin: one raceJob (JSON); stdout: one raceOut (JSON).
package main

import (
	"context"
	"encoding/json"
	"fmt"
	"math/rand"
	"os"
	"reflect"
	"runtime"
	"sort"
	"strings"
	"sync"
	"time"

	"github.com/compose-spec/compose-go/v2/graph"
	"github.com/compose-spec/compose-go/v2/loader"
	"github.com/compose-spec/compose-go/v2/types"

	"verifharness/core"
)

type raceJob struct {
	Inputs     []core.LoadReq `json:"inputs"`
	Assign     []int          `json:"assign"`      // goroutine k loads Inputs[Assign[k]]
	Rounds     int            `json:"rounds"`      // loads per goroutine
	ShareEnv   bool           `json:"share_env"`   // every load is handed the SAME environment map (the caller's)
	Procs      int            `json:"procs"`       // GOMAXPROCS
	Seed       int64          `json:"seed"`        // start skew / yield perturbation
	Transform  int            `json:"transform"`   // > 0: additionally run WithServicesTransform free-running on a project of (Transform-1) services
	TransformE int            `json:"transform_e"` // number of failing services for it
	SeqFirst   bool           `json:"seq_first"`   // run the loads alone BEFORE the concurrent phase (default: after, so that the
	// concurrent loads hit a cold process: lazily filled package-level state is then first touched concurrently)
	// round 7: the loads SHARE their input values by reference, as a caller does that prepares them once: per input ONE
	// types.ConfigDetails (one []ConfigFile with file names only — Content and Config nil —, one WorkingDir) and ONE
	// list of option functions, handed to every goroutine that loads that input; the environment map is the load's own
	// unless ShareEnv.  No load of the shared values runs before the concurrent phase (cold), and afterwards the shared
	// values must be what they were (raceOut.Mutated).
	ShareInputs bool `json:"share_inputs,omitempty"`
	// the project name of the request is passed as a guess (SetProjectName(name, false)), not imperatively: the loader
	// then looks for `name:` in every config file (loader.projectName reads the files itself)
	GuessName bool `json:"guess_name,omitempty"`
	Trav *travCase `json:"trav,omitempty"` // round 6: ONLY the dependency-ordered traversal on an explicit graph (trav.go)
}

type mismatch struct {
	G     int    `json:"g"`
	Round int    `json:"round"`
	Input int    `json:"input"`
	Want  string `json:"want"`
	Got   string `json:"got"`
}

type raceOut struct {
	Seq            []string   `json:"seq"` // outcome class of each input alone: ok / err:<text>
	Unstable       []int      `json:"unstable"`
	Mismatches     []mismatch `json:"mismatches"`
	Panics         []string   `json:"panics"`
	Loads          int        `json:"loads"`
	TransformWrong []string   `json:"transform_wrong"`
	Mutated        []string   `json:"mutated,omitempty"` // round 7: "<what>: <detail>" — a shared input value differs after the loads
}

// errClass: error texts are not compared (which of two services of a cycle is named first depends on Go's map
// order); the class is the text up to the first ':' / '"' / newline.
func errClass(s string) string {
	if i := strings.IndexAny(s, ":\"\n"); i >= 0 {
		s = s[:i]
	}
	return strings.TrimSpace(s)
}

func outcome(p *types.Project, err error, root string) string {
	if err != nil {
		return "err:" + errClass(core.ScrubErr(err, root))
	}
	if p == nil {
		return "nil"
	}
	v, merr := core.ProjectJSON(p, root)
	if merr != nil {
		return "marshal-err:" + merr.Error()
	}
	b, _ := json.Marshal(v) // maps are rendered with sorted keys
	return "ok:" + string(b)
}

func options(r core.LoadReq, guess bool) func(o *loader.Options) {
	return func(o *loader.Options) {
		o.SkipValidation = r.SkipValidation
		o.SkipInterpolation = r.SkipInterpolation
		o.SkipNormalization = r.SkipNormalization
		o.ResolvePaths = !r.NoResolvePaths
		o.SkipConsistencyCheck = r.SkipConsistencyCheck
		o.SkipExtends = r.SkipExtends
		o.SkipInclude = r.SkipInclude
		o.SkipResolveEnvironment = r.SkipResolveEnvironment
		o.SkipDefaultValues = r.SkipDefaultValues
		o.Profiles = r.Profiles
		if r.ProjectName != "" {
			o.SetProjectName(r.ProjectName, !guess)
		}
	}
}

func safeLoad(d types.ConfigDetails, opts []func(*loader.Options), root string) (res string) {
	defer func() {
		if x := recover(); x != nil {
			res = fmt.Sprintf("panic:%v", x)
		}
	}()
	p, err := loader.LoadWithContext(context.Background(), d, opts...)
	return outcome(p, err, root)
}

func shorten(s string) string {
	if len(s) > 600 {
		return s[:600] + "…"
	}
	return s
}

func firstDiff(a, b string) string {
	i := 0
	for i < len(a) && i < len(b) && a[i] == b[i] {
		i++
	}
	lo := i - 80
	if lo < 0 {
		lo = 0
	}
	return fmt.Sprintf("…%s | …%s", shorten(a[lo:]), shorten(b[lo:]))
}

// the free-running fan-out / traversal take microseconds; the watchdog tells a loaded machine from "never"
const freeRunWatchdog = 25 * time.Second

func main() {
	var job raceJob
	if err := json.NewDecoder(os.Stdin).Decode(&job); err != nil {
		fmt.Fprintln(os.Stderr, "c19race: bad job:", err)
		os.Exit(3)
	}
	if job.Procs > 0 {
		runtime.GOMAXPROCS(job.Procs)
	}
	if job.Trav != nil {
		runTravCase(job)
		return
	}
	if job.Rounds <= 0 {
		job.Rounds = 1
	}
	out := raceOut{Unstable: []int{}, Mismatches: []mismatch{}, Panics: []string{}, TransformWrong: []string{}}
	roots := make([]string, len(job.Inputs))
	for i, in := range job.Inputs {
		root, err := core.Materialize(in.Files)
		if err != nil {
			fmt.Fprintln(os.Stderr, "c19race: materialize:", err)
			os.Exit(3)
		}
		roots[i] = root
		defer os.RemoveAll(root)
	}
	// ---- alone: each input loaded by itself (twice: an input whose result is not even stable alone is not compared)
	seq := make([]string, len(job.Inputs))
	stable := make([]bool, len(job.Inputs))
	alone := func() {
		for i, in := range job.Inputs {
			a := safeLoad(in.Details(roots[i]), []func(*loader.Options){options(in, job.GuessName)}, roots[i])
			b := safeLoad(in.Details(roots[i]), []func(*loader.Options){options(in, job.GuessName)}, roots[i])
			seq[i] = a
			stable[i] = a == b
			if !stable[i] {
				out.Unstable = append(out.Unstable, i)
			}
			cls := a
			if j := strings.IndexByte(a, ':'); j >= 0 && strings.HasPrefix(a, "ok") {
				cls = "ok"
			}
			out.Seq = append(out.Seq, shorten(cls))
		}
	}
	if job.SeqFirst {
		alone()
	}
	// ---- together
	// one environment map handed to every load (as a caller that builds it once from os.Environ would do)
	sharedEnv := map[string]string{}
	if job.ShareEnv && len(job.Inputs) > 0 {
		for k, v := range job.Inputs[0].Env {
			sharedEnv[k] = v
		}
	}
	// round 7: the values shared by reference, built once, never loaded before the concurrent phase
	sharedDet := make([]types.ConfigDetails, len(job.Inputs))
	sharedOpts := make([][]func(*loader.Options), len(job.Inputs))
	if job.ShareInputs {
		for i, in := range job.Inputs {
			sharedDet[i] = in.Details(roots[i])
			sharedOpts[i] = []func(*loader.Options){options(in, job.GuessName)}
		}
	}
	snap := snapshotShared(job, sharedDet, sharedOpts, sharedEnv)
	var mu sync.Mutex
	var wg sync.WaitGroup
	type loadResult struct {
		g, round, idx int
		got           string
	}
	var results []loadResult
	start := make(chan struct{})
	for g, idx := range job.Assign {
		if idx < 0 || idx >= len(job.Inputs) {
			continue
		}
		wg.Add(1)
		go func(g, idx int) {
			defer wg.Done()
			rng := rand.New(rand.NewSource(job.Seed + int64(g)*7919))
			in := job.Inputs[idx]
			<-start
			for r := 0; r < job.Rounds; r++ {
				switch rng.Intn(4) {
				case 0:
					runtime.Gosched()
				case 1:
					time.Sleep(time.Duration(rng.Intn(200)) * time.Microsecond)
				}
				d := in.Details(roots[idx])
				opts := []func(*loader.Options){options(in, job.GuessName)}
				if job.ShareInputs {
					own := d.Environment
					d = sharedDet[idx] // a copy of the struct: the []ConfigFile backing array is the shared one
					d.Environment = own
					opts = sharedOpts[idx]
				}
				if job.ShareEnv {
					d.Environment = sharedEnv
				}
				got := safeLoad(d, opts, roots[idx])
				mu.Lock()
				out.Loads++
				results = append(results, loadResult{g, r, idx, got})
				mu.Unlock()
			}
		}(g, idx)
	}
	// ---- the library's own parallel operation, free running, next to the loads
	if job.Transform > 0 {
		n := job.Transform - 1
		for k := 0; k < 3; k++ {
			wg.Add(1)
			go func(k int) {
				defer wg.Done()
				<-start
				p := &types.Project{Name: "t", Services: types.Services{}}
				for v := 0; v < n; v++ {
					name := fmt.Sprintf("s%d", v)
					p.Services[name] = types.ServiceConfig{Name: name, Image: "orig-" + name}
				}
				rng := rand.New(rand.NewSource(job.Seed + int64(k)))
				type tr struct {
					q   *types.Project
					err error
				}
				trCh := make(chan tr, 1)
				go func() {
					q, err := p.WithServicesTransform(func(name string, s types.ServiceConfig) (types.ServiceConfig, error) {
						if rng2 := int(name[1]-'0') + k; rng2%3 == 0 {
							runtime.Gosched()
						}
						var v int
						fmt.Sscanf(name, "s%d", &v)
						if v < job.TransformE {
							return s, fmt.Errorf("fail %s", name)
						}
						s.Image = "new-" + name
						return s, nil
					})
					trCh <- tr{q, err}
				}()
				var q *types.Project
				var err error
				select {
				case r := <-trCh:
					q, err = r.q, r.err
				case <-time.After(freeRunWatchdog):
					mu.Lock()
					out.TransformWrong = append(out.TransformWrong, fmt.Sprintf("deadlock: WithServicesTransform on %d services (%d failing) did not return", n, job.TransformE))
					mu.Unlock()
					return
				}
				_ = rng
				mu.Lock()
				defer mu.Unlock()
				if job.TransformE > 0 && n > 0 {
					if err == nil {
						out.TransformWrong = append(out.TransformWrong, "error swallowed")
					}
					return
				}
				if err != nil || q == nil || len(q.Services) != n {
					out.TransformWrong = append(out.TransformWrong, fmt.Sprintf("err=%v services=%d want %d", err, len(q.Services), n))
					return
				}
				for name, s := range q.Services {
					if s.Image != "new-"+name {
						out.TransformWrong = append(out.TransformWrong, "service "+name+" not transformed")
					}
				}
			}(k)
		}
	}
	// ---- the dependency-ordered traversal, free running, next to the loads: visits of independent services run
	// concurrently; every visit must come after the visits of the service's dependencies, exactly once
	if job.Transform > 0 {
		n := job.Transform - 1
		for k := 0; k < 2; k++ {
			wg.Add(1)
			go func(k int) {
				defer wg.Done()
				<-start
				rng := rand.New(rand.NewSource(job.Seed + 31*int64(k)))
				p := &types.Project{Name: "g", Services: types.Services{}}
				deps := map[string][]string{}
				for v := 0; v < n; v++ {
					name := fmt.Sprintf("s%d", v)
					svc := types.ServiceConfig{Name: name, DependsOn: types.DependsOnConfig{}}
					for u := 0; u < v; u++ {
						if rng.Intn(3) == 0 {
							d := fmt.Sprintf("s%d", u)
							svc.DependsOn[d] = types.ServiceDependency{Condition: types.ServiceConditionStarted, Required: true}
							deps[name] = append(deps[name], d)
						}
					}
					p.Services[name] = svc
				}
				var vmu sync.Mutex
				done := map[string]bool{}
				visits := map[string]int{}
				bad := ""
				limit := 1 + k*2 // 1 and 3
				errCh := make(chan error, 1)
				go func() {
					errCh <- graph.InDependencyOrder(context.Background(), p, func(_ context.Context, name string, _ types.ServiceConfig) error {
						vmu.Lock()
						visits[name]++
						for _, d := range deps[name] {
							if !done[d] {
								bad = name + " visited before its dependency " + d
							}
						}
						vmu.Unlock()
						if rng2 := len(name) + k; rng2%2 == 0 {
							runtime.Gosched()
						}
						vmu.Lock()
						done[name] = true
						vmu.Unlock()
						return nil
					}, graph.WithMaxConcurrency(limit))
				}()
				var err error
				select {
				case err = <-errCh:
				case <-time.After(freeRunWatchdog):
					mu.Lock()
					out.TransformWrong = append(out.TransformWrong, fmt.Sprintf("traversal: deadlock: the walk of %d services under WithMaxConcurrency(%d) did not return", n, limit))
					mu.Unlock()
					return
				}
				mu.Lock()
				defer mu.Unlock()
				if err != nil {
					out.TransformWrong = append(out.TransformWrong, "traversal: "+err.Error())
				}
				if bad != "" {
					out.TransformWrong = append(out.TransformWrong, "traversal: "+bad)
				}
				for v := 0; v < n; v++ {
					if c := visits[fmt.Sprintf("s%d", v)]; c != 1 {
						out.TransformWrong = append(out.TransformWrong, fmt.Sprintf("traversal: s%d visited %d times", v, c))
					}
				}
			}(k)
		}
	}
	close(start)
	wg.Wait()
	out.Mutated = snap.diff(job, sharedDet, sharedOpts, sharedEnv)
	if !job.SeqFirst {
		alone()
	}
	for _, r := range results {
		if strings.HasPrefix(r.got, "panic:") {
			if !strings.HasPrefix(seq[r.idx], "panic:") {
				out.Panics = append(out.Panics, shorten(r.got))
			}
		} else if stable[r.idx] && r.got != seq[r.idx] && len(out.Mismatches) < 5 {
			out.Mismatches = append(out.Mismatches, mismatch{G: r.g, Round: r.round, Input: r.idx, Want: shorten(seq[r.idx]), Got: firstDiff(seq[r.idx], r.got)})
		}
	}
	b, _ := json.Marshal(out)
	os.Stdout.Write(b)
	os.Stdout.Write([]byte("\n"))
}

// ---- round 7: input immutability. What the caller handed in (and other loads are reading) is compared with a deep
// copy taken before the first load.

type fileSnap struct {
	Filename   string
	ContentNil bool
	Content    string
	ConfigNil  bool
	ConfigLen  int
}

type sharedSnap struct {
	files [][]fileSnap
	wd    []string
	lens  [][2]int // len, cap of ConfigFiles
	opts  [][]uintptr
	env   map[string]string
}

func snapFiles(cfs []types.ConfigFile) []fileSnap {
	var r []fileSnap
	for _, f := range cfs {
		r = append(r, fileSnap{f.Filename, f.Content == nil, string(f.Content), f.Config == nil, len(f.Config)})
	}
	return r
}

func optPtrs(fs []func(*loader.Options)) []uintptr {
	var r []uintptr
	for _, f := range fs {
		r = append(r, reflect.ValueOf(f).Pointer())
	}
	return r
}

func snapshotShared(job raceJob, det []types.ConfigDetails, opts [][]func(*loader.Options), env map[string]string) sharedSnap {
	s := sharedSnap{env: map[string]string{}}
	for k, v := range env {
		s.env[k] = v
	}
	if !job.ShareInputs {
		return s
	}
	for i := range det {
		s.files = append(s.files, snapFiles(det[i].ConfigFiles))
		s.wd = append(s.wd, det[i].WorkingDir)
		s.lens = append(s.lens, [2]int{len(det[i].ConfigFiles), cap(det[i].ConfigFiles)})
		s.opts = append(s.opts, optPtrs(opts[i]))
	}
	return s
}

func (s sharedSnap) diff(job raceJob, det []types.ConfigDetails, opts [][]func(*loader.Options), env map[string]string) []string {
	var m []string
	if job.ShareInputs {
		for i := range det {
			now := snapFiles(det[i].ConfigFiles)
			if len(now) != len(s.files[i]) || len(det[i].ConfigFiles) != s.lens[i][0] || cap(det[i].ConfigFiles) != s.lens[i][1] {
				m = append(m, fmt.Sprintf("config-files: input %d: the list has %d entries (cap %d), had %d (cap %d)", i, len(now), cap(det[i].ConfigFiles), s.lens[i][0], s.lens[i][1]))
				continue
			}
			for k := range now {
				a, b := s.files[i][k], now[k]
				switch {
				case a.Filename != b.Filename:
					m = append(m, fmt.Sprintf("config-files: input %d: ConfigFiles[%d].Filename changed", i, k))
				case a.ContentNil != b.ContentNil || a.Content != b.Content:
					m = append(m, fmt.Sprintf("config-files: input %d: ConfigFiles[%d].Content was nil=%v (%d bytes), is nil=%v (%d bytes) after the loads", i, k, a.ContentNil, len(a.Content), b.ContentNil, len(b.Content)))
				case a.ConfigNil != b.ConfigNil || a.ConfigLen != b.ConfigLen:
					m = append(m, fmt.Sprintf("config-files: input %d: ConfigFiles[%d].Config was nil=%v, is nil=%v (%d keys) after the loads", i, k, a.ConfigNil, b.ConfigNil, b.ConfigLen))
				}
			}
			if det[i].WorkingDir != s.wd[i] {
				m = append(m, fmt.Sprintf("working-dir: input %d", i))
			}
			if p := optPtrs(opts[i]); fmt.Sprint(p) != fmt.Sprint(s.opts[i]) {
				m = append(m, fmt.Sprintf("options-list: input %d: the list of option functions was rewritten", i))
			}
		}
	}
	if job.ShareEnv {
		var ch []string
		for k, v := range env {
			if old, ok := s.env[k]; !ok {
				ch = append(ch, "+"+k)
			} else if old != v {
				ch = append(ch, "~"+k)
			}
		}
		for k := range s.env {
			if _, ok := env[k]; !ok {
				ch = append(ch, "-"+k)
			}
		}
		sort.Strings(ch)
		if len(ch) > 0 {
			m = append(m, "environment: "+strings.Join(ch, " "))
		}
	}
	return m
}
