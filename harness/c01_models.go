package main

import "verifharness/core"

// stage-level correspondence streams of C01 (filled in below)
func c01Models(ctx *core.Ctx) {}
