package main

// Correspondence `schemaValidate`: schema.Validate (gojsonschema over schema/compose-spec.json) vs the Lean
// `Schema.conforms Gen.composeSchema` (regenerated from the same JSON on every run).  Serves C01 (and C08).

import (
	"encoding/json"

	"github.com/compose-spec/compose-go/v2/schema"

	"verifharness/core"
)

type schemaArgs struct {
	Tree core.T `json:"tree"`
}

func init() {
	core.Register("schemaValidate", &core.CheckDef{
		Real: func(raw json.RawMessage) any {
			var a struct {
				Tree json.RawMessage `json:"tree"`
			}
			json.Unmarshal(raw, &a)
			tree, _ := core.DecodeValRaw(a.Tree).(map[string]any)
			if err := schema.Validate(tree); err != nil {
				return map[string]any{"err": "schema"}
			}
			return map[string]any{"ok": true}
		},
		DriverOp: "schemaValidate",
	})
	core.RegisterProp("SCHEMA", runSchemaCorr)
}

// runSchemaCorr: schema-directed documents (valid stream) and one-position kind mutations (malformed stream).
func runSchemaCorr(ctx *core.Ctx) {
	g := core.NewSchemaGen(ctx.RepoDir, ctx.Rng)
	n := ctx.Pick(1500, 40000)
	for i := 0; i < n; i++ {
		doc := g.Document(3+ctx.Rng.Intn(3), []float64{0.05, 0.15, 0.4}[ctx.Rng.Intn(3)])
		ctx.Count("schema-valid-stream")
		ctx.Add("schemaValidate", schemaArgs{Tree: core.EncodeVal(doc)})
		pos := core.Positions(doc)
		for k := 0; k < 4 && len(pos) > 1; k++ {
			p := pos[1+ctx.Rng.Intn(len(pos)-1)]
			kind := core.Kinds[ctx.Rng.Intn(len(core.Kinds))]
			mut, _ := core.ReplaceAt(doc, p, core.KindValue(kind, ctx.Rng)).(map[string]any)
			ctx.Count("schema-mutated-" + kind)
			ctx.Add("schemaValidate", schemaArgs{Tree: core.EncodeVal(mut)})
		}
		// an unknown key somewhere
		if i%3 == 0 && len(pos) > 0 {
			p := pos[ctx.Rng.Intn(len(pos))]
			ctx.Count("schema-unknown-key")
			var sub any = doc
			for _, s := range p {
				switch t := sub.(type) {
				case map[string]any:
					sub = t[s.(string)]
				case []any:
					sub = t[s.(int)]
				}
			}
			if m, ok := sub.(map[string]any); ok {
				m2 := core.DeepCopyVal(m).(map[string]any)
				m2[[]string{"bogus", "x-ok", "Image", "a b"}[ctx.Rng.Intn(4)]] = "v"
				mut, _ := core.ReplaceAt(doc, p, m2).(map[string]any)
				if mut != nil {
					ctx.Add("schemaValidate", schemaArgs{Tree: core.EncodeVal(mut)})
				}
			}
		}
	}
}
