package main

import "verifharness/core"

func runC04Oracle(ctx *core.Ctx, g *c04g) {}
