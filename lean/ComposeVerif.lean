-- Root of the `ComposeVerif` library: models, specs, regenerated facts, property theorems.
import ComposeVerif.Ops.All
