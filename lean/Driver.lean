import ComposeVerif.Ops.All
/-!
Line-protocol driver: one JSON object per line on stdin
`{"id":N,"op":"<name>","args":{…}}` → `{"id":N,"out":…}` on stdout.
Core Lean only, so it is also built as the `driver` executable.
-/
open Lean

def table : Std.HashMap String CV.Ops.Handler :=
  CV.Ops.allHandlers.foldl (fun m (k, h) => m.insert k h) {}

def handleLine (line : String) : String :=
  match Json.parse line with
  | .error e => (Json.mkObj [("id", Json.null), ("out", Json.mkObj [("bad", e)])]).compress
  | .ok j =>
    let id := (j.getObjVal? "id").toOption.getD Json.null
    let op := (j.getObjValAs? String "op").toOption.getD ""
    let args := (j.getObjVal? "args").toOption.getD Json.null
    match table[op]? with
    | none => (Json.mkObj [("id", id), ("out", Json.mkObj [("bad", "unknown op " ++ op)])]).compress
    | some h => (Json.mkObj [("id", id), ("out", h args)]).compress

partial def loop (hin hout : IO.FS.Stream) : IO Unit := do
  let line ← hin.getLine
  if line.isEmpty then return ()
  let l := line.trimAsciiEnd.toString
  if l.isEmpty then
    hout.flush        -- an empty line ends a batch
  else
    hout.putStrLn (handleLine l)
  loop hin hout

def main : IO Unit := do
  let hin ← IO.getStdin
  let hout ← IO.getStdout
  loop hin hout
  hout.flush
