import ComposeVerif.Model.SecretsInclude
import ComposeVerif.Lemmas.SecretsLoad
/-! Helper lemmas for the include part of C20 (round 5): `Mapping.Merge`, the second resolution, `importResource`. -/
namespace CV.Secrets
open CV CV.Val

/-! ### `types.Mapping.Merge` -/
theorem lookup_filter_key (m : Env) (k : String) (h : m.lookup k = none) :
    ∀ o : Env, (o.filter (fun kv => (m.lookup kv.1).isNone)).lookup k = o.lookup k
  | [] => rfl
  | (k', v) :: r => by
    by_cases hk : k = k'
    · subst hk
      simp [List.filter, h, List.lookup]
    · have hk' : (k == k') = false := by simpa using hk
      cases hm : (m.lookup k').isNone
      · simp [List.filter, hm, List.lookup, hk', lookup_filter_key m k h r]
      · simp [List.filter, hm, List.lookup, hk', lookup_filter_key m k h r]

theorem lookup_mergeEnv (m o : Env) (k : String) :
    (mergeEnv m o).lookup k = match m.lookup k with | some v => some v | none => o.lookup k := by
  unfold mergeEnv
  rw [List.lookup_append]
  cases h : m.lookup k with
  | some v => simp
  | none => simp [lookup_filter_key m k h o]

theorem insert_insert_same (k : String) (v : Val) : ∀ kvs : KVs, Val.insert k v (Val.insert k v kvs) = Val.insert k v kvs
  | [] => by simp [Val.insert]
  | (k', v') :: r => by
    by_cases h : k = k'
    · simp [Val.insert, h]
    · simp [Val.insert, h, insert_insert_same k v r]

/-- what one resolution does to a mapping, as a function of the look-ups -/
theorem resolveObj_map_eq (c : String) (env : Env) (kvs : KVs) :
    resolveObj c env (.map kvs) =
      match Val.lookup "environment" kvs with
      | some (.str e) => if e = "" then .map kvs else
          match env.lookup e with
          | some found => .map (Val.insert c (.str found) kvs)
          | none => .map kvs
      | _ => .map kvs := by
  simp only [resolveObj]; rfl

/-- **the second resolution keeps what the first one found**: resolving with the including model's environment an
object already resolved with the include's environment (`top` merged with the include's env file) changes nothing -/
theorem resolveObj_second (c : String) (hc : c ≠ "environment") (top file : Env) (v : Val) :
    resolveObj c top (resolveObj c (mergeEnv top file) v) = resolveObj c (mergeEnv top file) v := by
  cases v with
  | map kvs =>
    rw [resolveObj_map_eq c (mergeEnv top file) kvs]
    cases he : Val.lookup "environment" kvs with
    | none => simp only [resolveObj_map_eq, he]
    | some x =>
      cases x with
      | str e =>
        simp only
        by_cases hee : e = ""
        · simp only [if_pos hee, resolveObj_map_eq, he]
        · simp only [if_neg hee, lookup_mergeEnv]
          cases ht : top.lookup e with
          | some found =>
            simp only [resolveObj_map_eq, lookup_insert_ne (Ne.symm hc), he, if_neg hee, ht, insert_insert_same]
          | none =>
            simp only
            cases hf : file.lookup e with
            | some found => simp only [resolveObj_map_eq, lookup_insert_ne (Ne.symm hc), he, if_neg hee, ht]
            | none => simp only [resolveObj_map_eq, he, if_neg hee, ht]
      | _ => simp only [resolveObj_map_eq, he]
  | _ => simp only [resolveObj]

/-- `big` defines everything `small` defines, with the same value (the environment of an include, at any depth,
w.r.t. the environment of any model that includes it) -/
def EnvExtends (small big : Env) : Prop := ∀ k v, small.lookup k = some v → big.lookup k = some v

theorem EnvExtends_mergeEnv (top file : Env) : EnvExtends top (mergeEnv top file) := by
  intro k v h
  rw [lookup_mergeEnv, h]

theorem EnvExtends_trans {a b c : Env} (h1 : EnvExtends a b) (h2 : EnvExtends b c) : EnvExtends a c :=
  fun k v h => h2 k v (h1 k v h)

/-- the general form of `resolveObj_second`: a later resolution with an environment the first one extends changes nothing -/
theorem resolveObj_second_of_extends (c : String) (hc : c ≠ "environment") {small big : Env} (hext : EnvExtends small big) (v : Val) :
    resolveObj c small (resolveObj c big v) = resolveObj c big v := by
  cases v with
  | map kvs =>
    rw [resolveObj_map_eq c big kvs]
    cases he : Val.lookup "environment" kvs with
    | none => simp only [resolveObj_map_eq, he]
    | some x =>
      cases x with
      | str e =>
        simp only
        by_cases hee : e = ""
        · simp only [if_pos hee, resolveObj_map_eq, he]
        · simp only [if_neg hee]
          cases hb : big.lookup e with
          | some found =>
            simp only
            cases hs : small.lookup e with
            | some f2 =>
              have := hext e f2 hs
              rw [hb] at this
              cases this
              simp only [resolveObj_map_eq, lookup_insert_ne (Ne.symm hc), he, if_neg hee, hs, insert_insert_same]
            | none => simp only [resolveObj_map_eq, lookup_insert_ne (Ne.symm hc), he, if_neg hee, hs]
          | none =>
            simp only
            cases hs : small.lookup e with
            | some f2 => have := hext e f2 hs; rw [hb] at this; cases this
            | none => simp only [resolveObj_map_eq, he, if_neg hee, hs]
      | _ => simp only [resolveObj_map_eq, he]
  | _ => simp only [resolveObj]

/-- any number of later resolutions, each with an environment the first one extends (nested includes: the model of
the innermost file is resolved again by every model on the way up) -/
theorem resolveObj_chain (c : String) (hc : c ≠ "environment") {big : Env} (v : Val) :
    ∀ outer : List Env, (∀ e ∈ outer, EnvExtends e big) →
      outer.foldr (fun e acc => resolveObj c e acc) (resolveObj c big v) = resolveObj c big v
  | [], _ => rfl
  | e :: r, h => by
    simp only [List.foldr]
    rw [resolveObj_chain c hc v r (fun x hx => h x (List.mem_cons_of_mem _ hx))]
    exact resolveObj_second_of_extends c hc (h e List.mem_cons_self) v

theorem resolveObjs_second (c : String) (hc : c ≠ "environment") (top file : Env) :
    ∀ objs : KVs, resolveObjs c top (resolveObjs c (mergeEnv top file) objs) = resolveObjs c (mergeEnv top file) objs
  | [] => rfl
  | (n, v) :: r => by simp only [resolveObjs, resolveObj_second c hc, resolveObjs_second c hc top file r]

theorem ObjOkF_insert_carrier_again {P : String → Prop} {c : String} (hc : P c) (s : String) :
    ∀ {kvs : KVs}, ObjOkF P c kvs → ObjOkF P c (Val.insert c (.str s) kvs)
  | [], _ => by simp [Val.insert, ObjOkF, hc, isStr, AllStrKV]
  | (k, v) :: r, h => by
    simp only [ObjOkF] at h
    by_cases hk : c = k
    · subst hk
      simp only [if_true] at h
      simp [Val.insert, ObjOkF, hc, isStr, h.2.2]
    · have hk' : ¬ k = c := fun h => hk h.symm
      simp only [if_neg hk'] at h
      simp only [Val.insert, if_neg hk, ObjOkF, if_neg hk']
      exact ⟨h.1, h.2.1, ObjOkF_insert_carrier_again hc s h.2.2⟩

/-- a resolution keeps the confinement also when the object was resolved before (its carrier entry may hold a value) -/
theorem ValOkF_resolveObj_again {P : String → Prop} {c : String} (hc : P c) (env : Env) {v : Val} (h : ValOkF P c v) :
    ValOkF P c (resolveObj c env v) := by
  cases v with
  | map kvs =>
    simp only [ValOkF] at h
    simp only [resolveObj]
    split
    · split
      · exact h
      · split
        · exact ObjOkF_insert_carrier_again hc _ h
        · exact h
    · exact h
  | _ => simpa [resolveObj, ValOkF] using h

/-! ### `importResource` -/

theorem lookup_append_single (n k : String) (x : Val) : ∀ to : KVs,
    Val.lookup n (to ++ [(k, x)]) = match Val.lookup n to with | some v => some v | none => if n = k then some x else none
  | [] => by simp [Val.lookup]
  | (k', v') :: r => by
    by_cases h : n = k'
    · simp [Val.lookup, h]
    · simp [Val.lookup, h, lookup_append_single n k x r]

theorem lookup_some_mem {n : String} {a : Val} : ∀ {kvs : KVs}, Val.lookup n kvs = some a → (n, a) ∈ kvs
  | [], h => by simp [Val.lookup] at h
  | (k, v) :: r, h => by
    by_cases hk : n = k
    · subst hk; simp [Val.lookup] at h; subst h; exact List.mem_cons_self
    · simp [Val.lookup, hk] at h; exact List.mem_cons_of_mem _ (lookup_some_mem h)

/-- an entry of the target is never replaced -/
theorem importObjs_keeps {n : String} {a : Val} : ∀ {src to to' : KVs}, importObjs src to = .ok to' →
    Val.lookup n to = some a → Val.lookup n to' = some a
  | [], to, to', h, hl => by simp only [importObjs] at h; cases h; exact hl
  | (k, x) :: r, to, to', h, hl => by
    simp only [importObjs] at h
    split at h
    · split at h
      · exact importObjs_keeps h hl
      · cases h
    · refine importObjs_keeps h ?_
      rw [lookup_append_single, hl]

/-- a name the target does not declare is imported with the (first) definition of the source -/
theorem importObjs_adds {n : String} {a : Val} : ∀ {src to to' : KVs}, importObjs src to = .ok to' →
    Val.lookup n to = none → Val.lookup n src = some a → Val.lookup n to' = some a
  | [], to, to', _, _, hs => by simp [Val.lookup] at hs
  | (k, x) :: r, to, to', h, hl, hs => by
    simp only [importObjs] at h
    by_cases hk : n = k
    · subst hk
      simp only [Val.lookup, if_true] at hs
      cases hs
      rw [hl] at h
      simp only at h
      refine importObjs_keeps h ?_
      rw [lookup_append_single, hl]; simp
    · simp only [Val.lookup, if_neg hk] at hs
      split at h
      · split at h
        · exact importObjs_adds h hl hs
        · cases h
      · refine importObjs_adds h ?_ hs
        rw [lookup_append_single, hl]; simp [hk]

/-- importing invents nothing: what holds of every entry of the source and of the target holds of the result -/
theorem forall_importObjs {Q : String → Val → Prop} : ∀ {src to to' : KVs}, importObjs src to = .ok to' →
    (∀ e ∈ src, Q e.1 e.2) → (∀ e ∈ to, Q e.1 e.2) → ∀ e ∈ to', Q e.1 e.2
  | [], to, to', h, _, ht => by simp only [importObjs] at h; cases h; exact ht
  | (k, x) :: r, to, to', h, hs, ht => by
    simp only [importObjs] at h
    have hs' : ∀ e ∈ r, Q e.1 e.2 := fun e he => hs e (List.mem_cons_of_mem _ he)
    split at h
    · split at h
      · exact forall_importObjs h hs' ht
      · cases h
    · refine forall_importObjs h hs' ?_
      intro e he
      rcases List.mem_append.1 he with he | he
      · exact ht e he
      · simp only [List.mem_singleton] at he; subst he; exact hs _ List.mem_cons_self

theorem lookup_resolveObjs (c : String) (env : Env) (n : String) : ∀ objs : KVs,
    Val.lookup n (resolveObjs c env objs) = (Val.lookup n objs).map (resolveObj c env)
  | [] => rfl
  | (k, v) :: r => by
    by_cases h : n = k
    · simp [resolveObjs, Val.lookup, h]
    · simp [resolveObjs, Val.lookup, h, lookup_resolveObjs c env n r]

theorem insert_insert (k : String) (v w : Val) : ∀ kvs : KVs, Val.insert k v (Val.insert k w kvs) = Val.insert k v kvs
  | [] => by simp [Val.insert]
  | (k', v') :: r => by
    by_cases h : k = k'
    · simp [Val.insert, h]
    · simp [Val.insert, h, insert_insert k v w r]

theorem resolveSection_second (sect c : String) (hc : c ≠ "environment") (top file : Env) (dict : KVs) :
    resolveSection sect c top (resolveSection sect c (mergeEnv top file) dict) = resolveSection sect c (mergeEnv top file) dict := by
  unfold resolveSection
  cases h : Val.lookup sect dict with
  | none => simp only [h]
  | some v =>
    cases v with
    | map objs => simp only [lookup_insert_self, resolveObjs_second c hc, insert_insert]
    | _ => simp only [h]

/-! ### the sections of the including model after the import -/

/-- what `importResource` does to the section it imports -/
theorem importSection_spec {key : String} {src tgt m : KVs} (h : importSection key src tgt = .ok m) :
    ((Val.lookup key src = none ∨ Val.lookup key src = some .null) ∧ m = tgt) ∨
    ∃ res to to', Val.lookup key src = some (.map res) ∧
      (Val.lookup key tgt = some (.map to) ∨ (to = [] ∧ (Val.lookup key tgt = none ∨ Val.lookup key tgt = some .null))) ∧
      importObjs res to = .ok to' ∧ m = Val.insert key (.map to') tgt := by
  unfold importSection at h
  split at h
  · cases h; exact .inl ⟨.inl ‹_›, rfl⟩
  · cases h; exact .inl ⟨.inr ‹_›, rfl⟩
  · rename_i res hs
    split at h
    · obtain ⟨to', h1, h2⟩ := Out.bind_eq_ok.1 h
      cases h2
      exact .inr ⟨res, [], to', hs, .inr ⟨rfl, .inl ‹_›⟩, h1, rfl⟩
    · obtain ⟨to', h1, h2⟩ := Out.bind_eq_ok.1 h
      cases h2
      exact .inr ⟨res, [], to', hs, .inr ⟨rfl, .inr ‹_›⟩, h1, rfl⟩
    · rename_i to ht
      obtain ⟨to', h1, h2⟩ := Out.bind_eq_ok.1 h
      cases h2
      exact .inr ⟨res, to, to', hs, .inl ht, h1, rfl⟩
    · cases h
  · cases h

/-- the other sections are left alone -/
theorem importSection_lookup_ne {key k : String} (hk : k ≠ key) {src tgt m : KVs} (h : importSection key src tgt = .ok m) :
    Val.lookup k m = Val.lookup k tgt := by
  rcases importSection_spec h with ⟨_, rfl⟩ | ⟨_, _, _, _, _, _, rfl⟩
  · rfl
  · exact lookup_insert_ne hk _ _

theorem ValOkF_of_AllStr {P : String → Prop} {c : String} {v : Val} (h : AllStr P v) : ValOkF P c v := by
  cases v with
  | map kvs => simp only [AllStr] at h; exact ObjOkF_of_AllStrKV h
  | _ => simpa [ValOkF] using h

theorem AllStrKV_of_forall {P : String → Prop} : ∀ {kvs : KVs}, (∀ e ∈ kvs, P e.1 ∧ AllStr P e.2) → AllStrKV P kvs
  | [], _ => by simp [AllStrKV]
  | (k, v) :: r, h => by
    simp only [List.forall_mem_cons] at h
    simp only [AllStrKV]
    exact ⟨h.1.1, h.1.2, AllStrKV_of_forall h.2⟩

/-- what holds of every entry of a section on both sides holds of every entry of the section after the import -/
theorem importSection_forall {Q : String → Val → Prop} {key : String} {src tgt m : KVs} (h : importSection key src tgt = .ok m)
    (hs : ∀ objs, Val.lookup key src = some (.map objs) → ∀ e ∈ objs, Q e.1 e.2)
    (ht : ∀ objs, Val.lookup key tgt = some (.map objs) → ∀ e ∈ objs, Q e.1 e.2) :
    ∀ objs, Val.lookup key m = some (.map objs) → ∀ e ∈ objs, Q e.1 e.2 := by
  rcases importSection_spec h with ⟨_, rfl⟩ | ⟨res, to, to', hres, hto, himp, rfl⟩
  · exact ht
  · intro objs hl
    rw [lookup_insert_self] at hl
    cases hl
    refine forall_importObjs himp (hs res hres) ?_
    rcases hto with hto | ⟨rfl, _⟩
    · exact ht to hto
    · intro e he; cases he

/-- the imported section, whatever its kind, is untainted when both sides are -/
theorem importSection_AllStr {P : String → Prop} {key : String} {src tgt m : KVs} (h : importSection key src tgt = .ok m)
    (hs : ∀ v, Val.lookup key src = some v → AllStr P v) (ht : ∀ v, Val.lookup key tgt = some v → AllStr P v) :
    ∀ v, Val.lookup key m = some v → AllStr P v := by
  rcases importSection_spec h with ⟨_, rfl⟩ | ⟨res, to, to', hres, hto, himp, rfl⟩
  · exact ht
  · intro v hl
    rw [lookup_insert_self] at hl
    cases hl
    simp only [AllStr]
    refine AllStrKV_of_forall (forall_importObjs (Q := fun n v => P n ∧ AllStr P v) himp ?_ ?_)
    · have := hs _ hres
      simp only [AllStr] at this
      exact AllStrKV_forall this
    · rcases hto with hto | ⟨rfl, _⟩
      · have := ht _ hto
        simp only [AllStr] at this
        exact AllStrKV_forall this
      · intro e he; cases he

/-- `loadSection` reads its own section only -/
theorem loadSection_congr (isSecret : Bool) (env : Env) (pname : String) {dict dict' : KVs}
    (h : Val.lookup (if isSecret then "secrets" else "configs") dict = Val.lookup (if isSecret then "secrets" else "configs") dict') :
    loadSection isSecret env pname dict = loadSection isSecret env pname dict' := by
  unfold loadSection
  rw [h]

end CV.Secrets
