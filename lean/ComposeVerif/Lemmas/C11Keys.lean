import ComposeVerif.Model.C11Keys
import ComposeVerif.Lemmas.C11KV
import ComposeVerif.Lemmas.Merge
/-! helper lemmas for `Props/C11Keys.lean` -/
namespace CV.C11
open CV CV.Val

theorem lookup_setIfAbsent_ne {k k' : String} (h : k' ≠ k) (v : Val) (m : KVs) :
    lookup k' (setIfAbsent k v m) = lookup k' m := by
  unfold setIfAbsent
  cases lookup k m with
  | some x => rfl
  | none => exact lookup_insert_ne h v m

theorem lookup_setIfAbsent_self (k : String) (v : Val) (m : KVs) :
    lookup k (setIfAbsent k v m) = some ((lookup k m).getD v) := by
  unfold setIfAbsent
  cases h : lookup k m with
  | some x => simp [h]
  | none => simp [lookup_insert_self]

theorem insert_map_vals (f : Val → Val) (k : String) (x : Val) (acc : KVs) :
    insert k (f x) (acc.map fun kv => (kv.1, f kv.2)) = (insert k x acc).map fun kv => (kv.1, f kv.2) := by
  induction acc with
  | nil => simp [Val.insert]
  | cons e r ih =>
    obtain ⟨k', v'⟩ := e
    by_cases hk : k = k'
    · simp [Val.insert, hk]
    · simp [Val.insert, hk, ih]

theorem uniqAcc_commutes (key : Val → Out String) (f : Val → Val) (hk : ∀ x, key (f x) = key x)
    (xs : List Val) (acc : KVs) :
    uniqAcc key (xs.map f) (acc.map fun kv => (kv.1, f kv.2)) =
      (uniqAcc key xs acc).map fun a => a.map fun kv => (kv.1, f kv.2) := by
  induction xs generalizing acc with
  | nil => simp [uniqAcc, Out.map]
  | cons x r ih =>
    simp only [List.map_cons, uniqAcc, hk]
    cases key x with
    | ok k => simp only []; rw [insert_map_vals]; exact ih _
    | err e => simp [Out.map]
    | panic s => simp [Out.map]

theorem secrets_prefix (s : String) : "/run/secrets" ++ "/" ++ s = "/run/secrets/" ++ s := by
  have : "/run/secrets" ++ "/" = "/run/secrets/" := by decide
  rw [this]

/-- invariant of the de-duplication loop: distinct keys, and every kept entry is filed under its own key -/
def UniqInv (key : Val → Out String) (acc : KVs) : Prop :=
  (keys acc).Nodup ∧ ∀ kv ∈ acc, key kv.2 = .ok kv.1

theorem mem_insert_cases' {k : String} {v : Val} : ∀ {m : KVs} {x : String × Val}, x ∈ insert k v m → x ∈ m ∨ x = (k, v)
  | [], x, h => by simp [Val.insert] at h; exact .inr h
  | (k', v') :: r, x, h => by
    by_cases hk : k = k'
    · simp only [Val.insert, hk, if_true, List.mem_cons] at h
      rcases h with e | e
      · exact .inr (by rw [e, hk])
      · exact .inl (List.mem_cons_of_mem _ e)
    · simp only [Val.insert, hk, if_false, List.mem_cons] at h
      rcases h with e | e
      · exact .inl (by rw [e]; exact List.mem_cons_self)
      · rcases mem_insert_cases' e with e' | e'
        · exact .inl (List.mem_cons_of_mem _ e')
        · exact .inr e'

theorem uniqAcc_inv (key : Val → Out String) : ∀ (xs : List Val) (acc acc' : KVs),
    UniqInv key acc → uniqAcc key xs acc = .ok acc' → UniqInv key acc'
  | [], acc, acc', hi, h => by simp only [uniqAcc, Out.ok.injEq] at h; rw [← h]; exact hi
  | x :: r, acc, acc', hi, h => by
    rw [uniqAcc] at h
    cases hk : key x with
    | ok k =>
      simp only [hk] at h
      refine uniqAcc_inv key r _ acc' ⟨CV.Merge.nodup_keys_insert hi.1, ?_⟩ h
      intro kv hkv
      rcases mem_insert_cases' hkv with e | e
      · exact hi.2 kv e
      · rw [e]; exact hk
    | err e => simp [hk] at h
    | panic s => simp [hk] at h

end CV.C11
