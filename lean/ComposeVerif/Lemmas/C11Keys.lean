import ComposeVerif.Model.C11Keys
import ComposeVerif.Lemmas.C11KV
/-! helper lemmas for `Props/C11Keys.lean` -/
namespace CV.C11
open CV CV.Val

theorem lookup_setIfAbsent_ne {k k' : String} (h : k' ≠ k) (v : Val) (m : KVs) :
    lookup k' (setIfAbsent k v m) = lookup k' m := by
  unfold setIfAbsent
  cases lookup k m with
  | some x => rfl
  | none => exact lookup_insert_ne h v m

theorem lookup_setIfAbsent_self (k : String) (v : Val) (m : KVs) :
    lookup k (setIfAbsent k v m) = some ((lookup k m).getD v) := by
  unfold setIfAbsent
  cases h : lookup k m with
  | some x => simp [h]
  | none => simp [lookup_insert_self]

theorem insert_map_vals (f : Val → Val) (k : String) (x : Val) (acc : KVs) :
    insert k (f x) (acc.map fun kv => (kv.1, f kv.2)) = (insert k x acc).map fun kv => (kv.1, f kv.2) := by
  induction acc with
  | nil => simp [Val.insert]
  | cons e r ih =>
    obtain ⟨k', v'⟩ := e
    by_cases hk : k = k'
    · simp [Val.insert, hk]
    · simp [Val.insert, hk, ih]

theorem uniqAcc_commutes (key : Val → Out String) (f : Val → Val) (hk : ∀ x, key (f x) = key x)
    (xs : List Val) (acc : KVs) :
    uniqAcc key (xs.map f) (acc.map fun kv => (kv.1, f kv.2)) =
      (uniqAcc key xs acc).map fun a => a.map fun kv => (kv.1, f kv.2) := by
  induction xs generalizing acc with
  | nil => simp [uniqAcc, Out.map]
  | cons x r ih =>
    simp only [List.map_cons, uniqAcc, hk]
    cases key x with
    | ok k => simp only []; rw [insert_map_vals]; exact ih _
    | err e => simp [Out.map]
    | panic s => simp [Out.map]

theorem secrets_prefix (s : String) : "/run/secrets" ++ "/" ++ s = "/run/secrets/" ++ s := by
  have : "/run/secrets" ++ "/" = "/run/secrets/" := by decide
  rw [this]

end CV.C11
