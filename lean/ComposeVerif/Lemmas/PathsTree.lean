import ComposeVerif.Lemmas.PathsStr
import ComposeVerif.Lemmas.Path
/-! Tree-level laws of the resolvers and of the walker (C12): idempotence, frame, table order. -/
namespace CV.Paths
open CV CV.TPath

/-! ### association lists -/

theorem lookup_insert_self (k : String) (v : Val) (m : Val.KVs) : Val.lookup k (Val.insert k v m) = some v := by
  induction m with
  | nil => simp [Val.insert, Val.lookup]
  | cons e r ih =>
    obtain ⟨k', v'⟩ := e
    by_cases h : k = k'
    · simp [Val.insert, Val.lookup, h]
    · simp [Val.insert, Val.lookup, h, ih]

theorem lookup_insert_ne (k k2 : String) (v : Val) (m : Val.KVs) (hne : k2 ≠ k) :
    Val.lookup k2 (Val.insert k v m) = Val.lookup k2 m := by
  induction m with
  | nil => simp [Val.insert, Val.lookup, hne]
  | cons e r ih =>
    obtain ⟨k', v'⟩ := e
    by_cases h : k = k'
    · subst h; simp [Val.insert, Val.lookup, hne]
    · by_cases h2 : k2 = k'
      · simp [Val.insert, Val.lookup, h, h2]
      · simp [Val.insert, Val.lookup, h, h2, ih]

theorem insert_insert (k : String) (v : Val) (m : Val.KVs) :
    Val.insert k v (Val.insert k v m) = Val.insert k v m := by
  induction m with
  | nil => simp [Val.insert]
  | cons e r ih =>
    obtain ⟨k', v'⟩ := e
    by_cases h : k = k'
    · simp [Val.insert, h]
    · simp [Val.insert, h, ih]

/-! ### Out -/

theorem Out.map_ok {α β : Type} (f : α → β) (x : Out α) (b : β) (h : x.map f = .ok b) : ∃ a, x = .ok a ∧ f a = b := by
  cases x with
  | ok a => exact ⟨a, rfl, by simpa [Out.map] using h⟩
  | err e => simp [Out.map] at h
  | panic s => simp [Out.map] at h

/-! ### conditions under which a second resolution is the identity -/

structure IdemOK (cfg : Cfg) : Prop where
  wd : isAbs cfg.wd = true
  /-- symbolic-link resolution is itself a projection that keeps absolute paths absolute -/
  sym : ∀ s r, cfg.sym s = some r → cfg.sym r = some r ∧ (isAbs s = true → isAbs r = true) ∧ (s = [] → r = [])

/-! ### idempotence of the resolvers on trees -/

mutual
theorem absPath_idem (cfg : Cfg) (hwd : isAbs cfg.wd = true) :
    ∀ (v v' : Val), absPath cfg v = .ok v' → absPath cfg v' = .ok v'
  | .str s, v', h => by
    simp only [absPath, Out.ok.injEq] at h
    subst h
    simp only [absPath, String.toList_ofList, absPathStr_idem cfg _ hwd]
  | .seq xs, v', h => by
    simp only [absPath] at h
    obtain ⟨xs', hx, rfl⟩ := Out.map_ok _ _ _ h
    simp only [absPath, absPathList_idem cfg hwd xs xs' hx, Out.map]
  | .null, _, h => by simp [absPath] at h
  | .bool _, _, h => by simp [absPath] at h
  | .int _, _, h => by simp [absPath] at h
  | .float _, _, h => by simp [absPath] at h
  | .map _, _, h => by simp [absPath] at h
theorem absPathList_idem (cfg : Cfg) (hwd : isAbs cfg.wd = true) :
    ∀ (xs xs' : List Val), absPathList cfg xs = .ok xs' → absPathList cfg xs' = .ok xs'
  | [], xs', h => by
    simp only [absPathList, Out.ok.injEq] at h
    subst h; rfl
  | x :: r, xs', h => by
    simp only [absPathList] at h
    cases hx : absPath cfg x with
    | ok x' =>
      rw [hx] at h
      simp only at h
      obtain ⟨r', hr, rfl⟩ := Out.map_ok _ _ _ h
      simp only [absPathList, absPath_idem cfg hwd x x' hx, absPathList_idem cfg hwd r r' hr, Out.map]
    | err e => rw [hx] at h; simp at h
    | panic s => rw [hx] at h; simp at h
end

theorem maybeUnixPath_idem (cfg : Cfg) (hwd : isAbs cfg.wd = true) (v v' : Val)
    (h : maybeUnixPath cfg v = .ok v') : maybeUnixPath cfg v' = .ok v' := by
  cases v with
  | str s =>
    simp only [maybeUnixPath] at h
    obtain ⟨r, hr, rfl⟩ := Out.map_ok _ _ _ h
    simp only [maybeUnixPath, String.toList_ofList, maybeUnixStr_idem cfg _ r hwd hr, Out.map]
  | _ => simp [maybeUnixPath] at h

theorem absContextPath_idem (cfg : Cfg) (hwd : isAbs cfg.wd = true) (v v' : Val)
    (h : absContextPath cfg v = .ok v') : absContextPath cfg v' = .ok v' := by
  cases v with
  | str s =>
    simp only [absContextPath, okStr, Out.ok.injEq] at h
    subst h
    simp only [absContextPath, okStr, String.toList_ofList, absContextStr_idem cfg _ hwd]
  | _ => simp [absContextPath] at h

theorem absExtendsPath_idem (cfg : Cfg) (hwd : isAbs cfg.wd = true) (v v' : Val)
    (h : absExtendsPath cfg v = .ok v') : absExtendsPath cfg v' = .ok v' := by
  cases v with
  | str s =>
    simp only [absExtendsPath, okStr, Out.ok.injEq] at h
    subst h
    simp only [absExtendsPath, okStr, String.toList_ofList, absExtendsStr_idem cfg _ hwd]
  | _ => simp [absExtendsPath] at h

theorem absSymbolicLink_idem (cfg : Cfg) (hok : IdemOK cfg) (v v' : Val)
    (h : absSymbolicLink cfg v = .ok v') : absSymbolicLink cfg v' = .ok v' := by
  cases v with
  | str s =>
    simp only [absSymbolicLink, absPath, String.toList_ofList] at h
    cases hs : cfg.sym (absPathStr cfg s.toList) with
    | none => rw [hs] at h; simp at h
    | some r =>
      rw [hs] at h
      simp only [okStr, Out.ok.injEq] at h
      subst h
      obtain ⟨h1, h2, h3⟩ := hok.sym _ _ hs
      have hfix : absPathStr cfg r = r := by
        apply absPathStr_fix
        rcases absPathStr_abs_or_nil cfg s.toList hok.wd with ha | ha
        · exact .inl (h2 ha)
        · exact .inr (h3 ha)
      simp only [absSymbolicLink, absPath, String.toList_ofList, hfix, h1, okStr]
  | seq xs =>
    have h' : absPath cfg (.seq xs) = .ok v' := by
      simp only [absSymbolicLink] at h
      cases ha : absPath cfg (.seq xs) with
      | ok w =>
        rw [ha] at h
        simp only [absPath] at ha
        obtain ⟨ys, _, rfl⟩ := Out.map_ok _ _ _ ha
        simpa using h
      | err e => rw [ha] at h; simp at h
      | panic s => rw [ha] at h; simp at h
    have h2 := absPath_idem cfg hok.wd _ _ h'
    simp only [absPath] at h'
    obtain ⟨ys, _, rfl⟩ := Out.map_ok _ _ _ h'
    simp only [absSymbolicLink, h2]
  | null => simp [absSymbolicLink, absPath] at h
  | bool _ => simp [absSymbolicLink, absPath] at h
  | int _ => simp [absSymbolicLink, absPath] at h
  | float _ => simp [absSymbolicLink, absPath] at h
  | map _ => simp [absSymbolicLink, absPath] at h

/-- what `absVolumeMount` can do to a mount: nothing, or replace the value of `source` -/
theorem absVolumeMount_shape (cfg : Cfg) (kvs : Val.KVs) (v' : Val) (h : absVolumeMount cfg (.map kvs) = .ok v') :
    v' = .map kvs ∨
    (Val.lookup "type" kvs = some (.str "bind") ∧
      ∃ s r, Val.lookup "source" kvs = some (.str s) ∧ maybeUnixStr cfg s.toList = .ok r ∧
        v' = .map (Val.insert "source" (.str (String.ofList r)) kvs)) := by
  simp only [absVolumeMount] at h
  split at h
  · rename_i hty
    split at h
    · simp at h
    · rename_i s hs
      obtain ⟨r, hr, rfl⟩ := Out.map_ok _ _ _ h
      exact .inr ⟨hty, s, r, hs, hr, rfl⟩
    · simp at h
  · simp only [Out.ok.injEq] at h
    exact .inl h.symm

theorem absVolumeMount_idem (cfg : Cfg) (hwd : isAbs cfg.wd = true) (v v' : Val)
    (h : absVolumeMount cfg v = .ok v') : absVolumeMount cfg v' = .ok v' := by
  cases v with
  | map kvs =>
    rcases absVolumeMount_shape cfg kvs v' h with rfl | ⟨hty, s, r, hs, hr, rfl⟩
    · exact h
    · have h1 : Val.lookup "type" (Val.insert "source" (.str (String.ofList r)) kvs) = some (.str "bind") := by
        rw [lookup_insert_ne _ _ _ _ (by decide)]; exact hty
      simp only [absVolumeMount, h1, lookup_insert_self, String.toList_ofList,
        maybeUnixStr_idem cfg _ r hwd hr, Out.map, insert_insert]
  | null => simp only [absVolumeMount, Out.ok.injEq] at h; subst h; rfl
  | bool _ => simp only [absVolumeMount, Out.ok.injEq] at h; subst h; rfl
  | int _ => simp only [absVolumeMount, Out.ok.injEq] at h; subst h; rfl
  | float _ => simp only [absVolumeMount, Out.ok.injEq] at h; subst h; rfl
  | str _ => simp only [absVolumeMount, Out.ok.injEq] at h; subst h; rfl
  | seq _ => simp only [absVolumeMount, Out.ok.injEq] at h; subst h; rfl

/-- what `volumeDriverOpts` can do to a volume: nothing, or replace `driver_opts.device` of a local bind volume -/
theorem volumeDriverOpts_shape (cfg : Cfg) (kvs : Val.KVs) (v' : Val) (h : volumeDriverOpts cfg (.map kvs) = .ok v') :
    v' = .map kvs ∨
    (Val.lookup "driver" kvs = some (.str "local") ∧
      ∃ opts dev d, Val.lookup "driver_opts" kvs = some (.map opts) ∧ Val.lookup "o" opts = some (.str "bind") ∧
        Val.lookup "device" opts = some dev ∧ maybeUnixPath cfg dev = .ok d ∧
        v' = .map (Val.insert "driver_opts" (.map (Val.insert "device" d opts)) kvs)) := by
  simp only [volumeDriverOpts] at h
  split at h
  · rename_i hdr
    split at h
    · simp only [Out.ok.injEq] at h; exact .inl h.symm
    · simp only [Out.ok.injEq] at h; exact .inl h.symm
    · rename_i opts hopts
      split at h
      · rename_i dev ho hdev
        obtain ⟨d, hd, rfl⟩ := Out.map_ok _ _ _ h
        exact .inr ⟨hdr, opts, dev, d, hopts, ho, hdev, hd, rfl⟩
      · simp only [Out.ok.injEq] at h; exact .inl h.symm
    · cases h
  · simp only [Out.ok.injEq] at h; exact .inl h.symm

theorem volumeDriverOpts_idem (cfg : Cfg) (hwd : isAbs cfg.wd = true) (v v' : Val)
    (h : volumeDriverOpts cfg v = .ok v') : volumeDriverOpts cfg v' = .ok v' := by
  cases v with
  | map kvs =>
    rcases volumeDriverOpts_shape cfg kvs v' h with rfl | ⟨hdr, opts, dev, d, hopts, ho, hdev, hd, rfl⟩
    · exact h
    · have h1 : Val.lookup "driver" (Val.insert "driver_opts" (.map (Val.insert "device" d opts)) kvs) = some (.str "local") := by
        rw [lookup_insert_ne _ _ _ _ (by decide)]; exact hdr
      have h2 : Val.lookup "o" (Val.insert "device" d opts) = some (.str "bind") := by
        rw [lookup_insert_ne _ _ _ _ (by decide)]; exact ho
      simp only [volumeDriverOpts, h1, lookup_insert_self, h2, maybeUnixPath_idem cfg hwd dev d hd, Out.map,
        insert_insert]
  | null => simp only [volumeDriverOpts, Out.ok.injEq] at h; subst h; rfl
  | bool _ => simp [volumeDriverOpts] at h
  | int _ => simp [volumeDriverOpts] at h
  | float _ => simp [volumeDriverOpts] at h
  | str _ => simp [volumeDriverOpts] at h
  | seq _ => simp [volumeDriverOpts] at h

theorem applyResolver_idem (cfg : Cfg) (hok : IdemOK cfg) (hn : String) (v v' : Val)
    (h : applyResolver cfg hn v = .ok v') : applyResolver cfg hn v' = .ok v' := by
  unfold applyResolver at h ⊢
  split
  · rename_i e; simp only [e, if_true] at h; exact absPath_idem cfg hok.wd v v' h
  rename_i e1; simp only [e1, if_false] at h
  split
  · rename_i e; simp only [e, if_true] at h; exact absContextPath_idem cfg hok.wd v v' h
  rename_i e2; simp only [e2, if_false] at h
  split
  · rename_i e; simp only [e, if_true] at h; exact absExtendsPath_idem cfg hok.wd v v' h
  rename_i e3; simp only [e3, if_false] at h
  split
  · rename_i e; simp only [e, if_true] at h; exact absSymbolicLink_idem cfg hok v v' h
  rename_i e4; simp only [e4, if_false] at h
  split
  · rename_i e; simp only [e, if_true] at h; exact absVolumeMount_idem cfg hok.wd v v' h
  rename_i e5; simp only [e5, if_false] at h
  split
  · rename_i e; simp only [e, if_true] at h; exact maybeUnixPath_idem cfg hok.wd v v' h
  rename_i e6; simp only [e6, if_false] at h
  split
  · rename_i e; simp only [e, if_true] at h; exact volumeDriverOpts_idem cfg hok.wd v v' h
  rename_i e7; simp only [e7, if_false] at h
  cases h

/-! ### the walker -/

theorem walk_of_match (t : Table) (cfg : Cfg) (p : TPath) (v : Val) (h : String) (hm : firstMatch t p = some h) :
    walk t cfg p v = applyResolver cfg h v := by
  cases v <;> simp [walk, hm]

theorem walk_scalar (t : Table) (cfg : Cfg) (p : TPath) (v : Val) (hm : firstMatch t p = none)
    (hs : (∀ kvs, v ≠ .map kvs) ∧ (∀ xs, v ≠ .seq xs)) : walk t cfg p v = .ok v := by
  cases v with
  | map kvs => exact absurd rfl (hs.1 kvs)
  | seq xs => exact absurd rfl (hs.2 xs)
  | _ => simp [walk, hm]

mutual
theorem walk_idem (t : Table) (cfg : Cfg) (hok : IdemOK cfg) :
    ∀ (p : TPath) (v v' : Val), walk t cfg p v = .ok v' → walk t cfg p v' = .ok v'
  | p, .map kvs, v', h => by
    cases hm : firstMatch t p with
    | some hn =>
      rw [walk_of_match t cfg p _ hn hm] at h ⊢
      exact applyResolver_idem cfg hok hn _ _ h
    | none =>
      simp only [walk, hm] at h
      obtain ⟨kvs', hk, rfl⟩ := Out.map_ok _ _ _ h
      simp only [walk, hm, walkKVs_idem t cfg hok p kvs kvs' hk, Out.map]
  | p, .seq xs, v', h => by
    cases hm : firstMatch t p with
    | some hn =>
      rw [walk_of_match t cfg p _ hn hm] at h ⊢
      exact applyResolver_idem cfg hok hn _ _ h
    | none =>
      simp only [walk, hm] at h
      obtain ⟨xs', hk, rfl⟩ := Out.map_ok _ _ _ h
      simp only [walk, hm, walkSeq_idem t cfg hok p xs xs' hk, Out.map]
  | p, .null, v', h => by
    cases hm : firstMatch t p with
    | some hn => rw [walk_of_match t cfg p _ hn hm] at h ⊢; exact applyResolver_idem cfg hok hn _ _ h
    | none => simp only [walk, hm, Out.ok.injEq] at h; subst h; simp [walk, hm]
  | p, .bool b, v', h => by
    cases hm : firstMatch t p with
    | some hn => rw [walk_of_match t cfg p _ hn hm] at h ⊢; exact applyResolver_idem cfg hok hn _ _ h
    | none => simp only [walk, hm, Out.ok.injEq] at h; subst h; simp [walk, hm]
  | p, .int b, v', h => by
    cases hm : firstMatch t p with
    | some hn => rw [walk_of_match t cfg p _ hn hm] at h ⊢; exact applyResolver_idem cfg hok hn _ _ h
    | none => simp only [walk, hm, Out.ok.injEq] at h; subst h; simp [walk, hm]
  | p, .float b, v', h => by
    cases hm : firstMatch t p with
    | some hn => rw [walk_of_match t cfg p _ hn hm] at h ⊢; exact applyResolver_idem cfg hok hn _ _ h
    | none => simp only [walk, hm, Out.ok.injEq] at h; subst h; simp [walk, hm]
  | p, .str b, v', h => by
    cases hm : firstMatch t p with
    | some hn => rw [walk_of_match t cfg p _ hn hm] at h ⊢; exact applyResolver_idem cfg hok hn _ _ h
    | none => simp only [walk, hm, Out.ok.injEq] at h; subst h; simp [walk, hm]
theorem walkKVs_idem (t : Table) (cfg : Cfg) (hok : IdemOK cfg) :
    ∀ (p : TPath) (kvs kvs' : List (String × Val)), walkKVs t cfg p kvs = .ok kvs' → walkKVs t cfg p kvs' = .ok kvs'
  | p, [], kvs', h => by
    simp only [walkKVs, Out.ok.injEq] at h; subst h; rfl
  | p, (k, v) :: r, kvs', h => by
    simp only [walkKVs] at h
    cases hx : walk t cfg (TPath.next p k) v with
    | ok x' =>
      rw [hx] at h
      simp only at h
      obtain ⟨r', hr, rfl⟩ := Out.map_ok _ _ _ h
      simp only [walkKVs, walk_idem t cfg hok _ v x' hx, walkKVs_idem t cfg hok p r r' hr, Out.map]
    | err e => rw [hx] at h; simp at h
    | panic s => rw [hx] at h; simp at h
theorem walkSeq_idem (t : Table) (cfg : Cfg) (hok : IdemOK cfg) :
    ∀ (p : TPath) (xs xs' : List Val), walkSeq t cfg p xs = .ok xs' → walkSeq t cfg p xs' = .ok xs'
  | p, [], xs', h => by
    simp only [walkSeq, Out.ok.injEq] at h; subst h; rfl
  | p, x :: r, xs', h => by
    simp only [walkSeq] at h
    cases hx : walk t cfg (TPath.next p "[]") x with
    | ok x' =>
      rw [hx] at h
      simp only at h
      obtain ⟨r', hr, rfl⟩ := Out.map_ok _ _ _ h
      simp only [walkSeq, walk_idem t cfg hok _ x x' hx, walkSeq_idem t cfg hok p r r' hr, Out.map]
    | err e => rw [hx] at h; simp at h
    | panic s => rw [hx] at h; simp at h
end

/-! ### frame: what the walker may touch -/

mutual
/-- `Frame t p v v'`: `v'` differs from `v` only inside subtrees rooted at a node whose path matches a row of `t` -/
def Frame (t : Table) : TPath → Val → Val → Prop
  | p, .map kvs, v' => (firstMatch t p).isSome = true ∨ ∃ kvs', v' = .map kvs' ∧ FrameKVs t p kvs kvs'
  | p, .seq xs, v' => (firstMatch t p).isSome = true ∨ ∃ xs', v' = .seq xs' ∧ FrameSeq t p xs xs'
  | p, v, v' => (firstMatch t p).isSome = true ∨ v' = v
/-- same keys in the same order, values related at the child paths -/
def FrameKVs (t : Table) : TPath → List (String × Val) → List (String × Val) → Prop
  | _, [], kvs' => kvs' = []
  | p, (k, v) :: r, kvs' => ∃ v' r', kvs' = (k, v') :: r' ∧ Frame t (TPath.next p k) v v' ∧ FrameKVs t p r r'
def FrameSeq (t : Table) : TPath → List Val → List Val → Prop
  | _, [], xs' => xs' = []
  | p, x :: r, xs' => ∃ x' r', xs' = x' :: r' ∧ Frame t (TPath.next p "[]") x x' ∧ FrameSeq t p r r'
end

theorem frame_of_match (t : Table) (p : TPath) (v v' : Val) (h : (firstMatch t p).isSome = true) : Frame t p v v' := by
  cases v <;> simp [Frame, h]

mutual
theorem walk_frame (t : Table) (cfg : Cfg) :
    ∀ (p : TPath) (v v' : Val), walk t cfg p v = .ok v' → Frame t p v v'
  | p, .map kvs, v', h => by
    cases hm : firstMatch t p with
    | some hn => exact frame_of_match t p _ _ (by simp [hm])
    | none =>
      simp only [walk, hm] at h
      obtain ⟨kvs', hk, rfl⟩ := Out.map_ok _ _ _ h
      simp only [Frame]
      exact .inr ⟨kvs', rfl, walkKVs_frame t cfg p kvs kvs' hk⟩
  | p, .seq xs, v', h => by
    cases hm : firstMatch t p with
    | some hn => exact frame_of_match t p _ _ (by simp [hm])
    | none =>
      simp only [walk, hm] at h
      obtain ⟨xs', hk, rfl⟩ := Out.map_ok _ _ _ h
      simp only [Frame]
      exact .inr ⟨xs', rfl, walkSeq_frame t cfg p xs xs' hk⟩
  | p, .null, v', h => by
    cases hm : firstMatch t p with
    | some hn => exact frame_of_match t p _ _ (by simp [hm])
    | none => simp only [walk, hm, Out.ok.injEq] at h; subst h; simp [Frame]
  | p, .bool b, v', h => by
    cases hm : firstMatch t p with
    | some hn => exact frame_of_match t p _ _ (by simp [hm])
    | none => simp only [walk, hm, Out.ok.injEq] at h; subst h; simp [Frame]
  | p, .int b, v', h => by
    cases hm : firstMatch t p with
    | some hn => exact frame_of_match t p _ _ (by simp [hm])
    | none => simp only [walk, hm, Out.ok.injEq] at h; subst h; simp [Frame]
  | p, .float b, v', h => by
    cases hm : firstMatch t p with
    | some hn => exact frame_of_match t p _ _ (by simp [hm])
    | none => simp only [walk, hm, Out.ok.injEq] at h; subst h; simp [Frame]
  | p, .str b, v', h => by
    cases hm : firstMatch t p with
    | some hn => exact frame_of_match t p _ _ (by simp [hm])
    | none => simp only [walk, hm, Out.ok.injEq] at h; subst h; simp [Frame]
theorem walkKVs_frame (t : Table) (cfg : Cfg) :
    ∀ (p : TPath) (kvs kvs' : List (String × Val)), walkKVs t cfg p kvs = .ok kvs' → FrameKVs t p kvs kvs'
  | p, [], kvs', h => by
    simp only [walkKVs, Out.ok.injEq] at h; subst h; simp [FrameKVs]
  | p, (k, v) :: r, kvs', h => by
    simp only [walkKVs] at h
    cases hx : walk t cfg (TPath.next p k) v with
    | ok x' =>
      rw [hx] at h
      simp only at h
      obtain ⟨r', hr, rfl⟩ := Out.map_ok _ _ _ h
      simp only [FrameKVs]
      exact ⟨x', r', rfl, walk_frame t cfg _ v x' hx, walkKVs_frame t cfg p r r' hr⟩
    | err e => rw [hx] at h; simp at h
    | panic s => rw [hx] at h; simp at h
theorem walkSeq_frame (t : Table) (cfg : Cfg) :
    ∀ (p : TPath) (xs xs' : List Val), walkSeq t cfg p xs = .ok xs' → FrameSeq t p xs xs'
  | p, [], xs', h => by
    simp only [walkSeq, Out.ok.injEq] at h; subst h; simp [FrameSeq]
  | p, x :: r, xs', h => by
    simp only [walkSeq] at h
    cases hx : walk t cfg (TPath.next p "[]") x with
    | ok x' =>
      rw [hx] at h
      simp only at h
      obtain ⟨r', hr, rfl⟩ := Out.map_ok _ _ _ h
      simp only [FrameSeq]
      exact ⟨x', r', rfl, walk_frame t cfg _ x x' hx, walkSeq_frame t cfg p r r' hr⟩
    | err e => rw [hx] at h; simp at h
    | panic s => rw [hx] at h; simp at h
end

/-! ### no resolver panics (after the shape checks of round 2) -/

theorem Out.map_no_panic {α β : Type} (f : α → β) (x : Out α) (h : ∀ s, x ≠ .panic s) : ∀ s, x.map f ≠ .panic s := by
  intro s
  cases x with
  | ok a => simp [Out.map]
  | err e => simp [Out.map]
  | panic t => exact absurd rfl (h t)

mutual
theorem absPath_no_panic (cfg : Cfg) : ∀ (v : Val) (s : String), absPath cfg v ≠ .panic s
  | .str _, s => by simp [absPath]
  | .seq xs, s => by
    simp only [absPath]
    exact Out.map_no_panic _ _ (absPathList_no_panic cfg xs) s
  | .null, s => by simp [absPath]
  | .bool _, s => by simp [absPath]
  | .int _, s => by simp [absPath]
  | .float _, s => by simp [absPath]
  | .map _, s => by simp [absPath]
theorem absPathList_no_panic (cfg : Cfg) : ∀ (xs : List Val) (s : String), absPathList cfg xs ≠ .panic s
  | [], s => by simp [absPathList]
  | x :: r, s => by
    simp only [absPathList]
    cases hx : absPath cfg x with
    | ok x' => simp only; exact Out.map_no_panic _ _ (absPathList_no_panic cfg r) s
    | err e => simp
    | panic t => exact absurd hx (absPath_no_panic cfg x t)
end

theorem maybeUnixStr_no_panic (cfg : Cfg) (p : Str) (s : String) : maybeUnixStr cfg p ≠ .panic s := by
  obtain ⟨r, hr⟩ := maybeUnixStr_total cfg p
  rw [hr]; simp

theorem maybeUnixPath_no_panic (cfg : Cfg) (v : Val) (s : String) : maybeUnixPath cfg v ≠ .panic s := by
  cases v with
  | str x => simp only [maybeUnixPath]; exact Out.map_no_panic _ _ (maybeUnixStr_no_panic cfg _) s
  | _ => simp [maybeUnixPath]

theorem absSymbolicLink_no_panic (cfg : Cfg) (v : Val) (s : String) : absSymbolicLink cfg v ≠ .panic s := by
  simp only [absSymbolicLink]
  cases h : absPath cfg v with
  | ok w =>
    cases w with
    | str x =>
      simp only
      cases cfg.sym x.toList <;> simp [okStr]
    | _ => simp
  | err e => simp
  | panic t => exact absurd h (absPath_no_panic cfg v t)

theorem absVolumeMount_no_panic (cfg : Cfg) (v : Val) (s : String) : absVolumeMount cfg v ≠ .panic s := by
  cases v with
  | map kvs =>
    simp only [absVolumeMount]
    split
    · split
      · simp
      · exact Out.map_no_panic _ _ (maybeUnixStr_no_panic cfg _) s
      · simp
    · simp
  | _ => simp [absVolumeMount]

theorem volumeDriverOpts_no_panic (cfg : Cfg) (v : Val) (s : String) : volumeDriverOpts cfg v ≠ .panic s := by
  cases v with
  | map kvs =>
    simp only [volumeDriverOpts]
    split
    · split
      · simp
      · simp
      · split
        · exact Out.map_no_panic _ _ (maybeUnixPath_no_panic cfg _) s
        · simp
      · simp
    · simp
  | _ => simp [volumeDriverOpts]

def knownHandlers : List String :=
  ["absPath", "absContextPath", "absExtendsPath", "absSymbolicLink", "absVolumeMount", "maybeUnixPath", "volumeDriverOpts"]

theorem applyResolver_no_panic (cfg : Cfg) (h : String) (hk : h ∈ knownHandlers) (v : Val) (s : String) :
    applyResolver cfg h v ≠ .panic s := by
  simp only [knownHandlers, List.mem_cons, List.mem_nil_iff, or_false] at hk
  rcases hk with rfl | rfl | rfl | rfl | rfl | rfl | rfl
  · simp only [applyResolver, if_true]; exact absPath_no_panic cfg v s
  · have : applyResolver cfg "absContextPath" v = absContextPath cfg v := by simp [applyResolver]
    rw [this]; cases v <;> simp [absContextPath, okStr]
  · have : applyResolver cfg "absExtendsPath" v = absExtendsPath cfg v := by simp [applyResolver]
    rw [this]; cases v <;> simp [absExtendsPath, okStr]
  · have : applyResolver cfg "absSymbolicLink" v = absSymbolicLink cfg v := by simp [applyResolver]
    rw [this]; exact absSymbolicLink_no_panic cfg v s
  · have : applyResolver cfg "absVolumeMount" v = absVolumeMount cfg v := by simp [applyResolver]
    rw [this]; exact absVolumeMount_no_panic cfg v s
  · have : applyResolver cfg "maybeUnixPath" v = maybeUnixPath cfg v := by simp [applyResolver]
    rw [this]; exact maybeUnixPath_no_panic cfg v s
  · have : applyResolver cfg "volumeDriverOpts" v = volumeDriverOpts cfg v := by simp [applyResolver]
    rw [this]; exact volumeDriverOpts_no_panic cfg v s

theorem firstMatch_handler_mem {t : Table} {p : TPath} {h : String} (hm : firstMatch t p = some h) :
    ∃ e ∈ t, e.2 = h := by
  obtain ⟨pat, hmem, _⟩ := firstMatch_some_mem hm
  exact ⟨(pat, h), hmem, rfl⟩

mutual
theorem walk_no_panic (t : Table) (ht : ∀ e ∈ t, e.2 ∈ knownHandlers) (cfg : Cfg) :
    ∀ (p : TPath) (v : Val) (s : String), walk t cfg p v ≠ .panic s
  | p, .map kvs, s => by
    cases hm : firstMatch t p with
    | some hn =>
      rw [walk_of_match t cfg p _ hn hm]
      obtain ⟨e, he, rfl⟩ := firstMatch_handler_mem hm
      exact applyResolver_no_panic cfg _ (ht e he) _ s
    | none =>
      simp only [walk, hm]
      exact Out.map_no_panic _ _ (walkKVs_no_panic t ht cfg p kvs) s
  | p, .seq xs, s => by
    cases hm : firstMatch t p with
    | some hn =>
      rw [walk_of_match t cfg p _ hn hm]
      obtain ⟨e, he, rfl⟩ := firstMatch_handler_mem hm
      exact applyResolver_no_panic cfg _ (ht e he) _ s
    | none =>
      simp only [walk, hm]
      exact Out.map_no_panic _ _ (walkSeq_no_panic t ht cfg p xs) s
  | p, .null, s => by
    cases hm : firstMatch t p with
    | some hn =>
      rw [walk_of_match t cfg p _ hn hm]
      obtain ⟨e, he, rfl⟩ := firstMatch_handler_mem hm
      exact applyResolver_no_panic cfg _ (ht e he) _ s
    | none => simp [walk, hm]
  | p, .bool _, s => by
    cases hm : firstMatch t p with
    | some hn =>
      rw [walk_of_match t cfg p _ hn hm]
      obtain ⟨e, he, rfl⟩ := firstMatch_handler_mem hm
      exact applyResolver_no_panic cfg _ (ht e he) _ s
    | none => simp [walk, hm]
  | p, .int _, s => by
    cases hm : firstMatch t p with
    | some hn =>
      rw [walk_of_match t cfg p _ hn hm]
      obtain ⟨e, he, rfl⟩ := firstMatch_handler_mem hm
      exact applyResolver_no_panic cfg _ (ht e he) _ s
    | none => simp [walk, hm]
  | p, .float _, s => by
    cases hm : firstMatch t p with
    | some hn =>
      rw [walk_of_match t cfg p _ hn hm]
      obtain ⟨e, he, rfl⟩ := firstMatch_handler_mem hm
      exact applyResolver_no_panic cfg _ (ht e he) _ s
    | none => simp [walk, hm]
  | p, .str _, s => by
    cases hm : firstMatch t p with
    | some hn =>
      rw [walk_of_match t cfg p _ hn hm]
      obtain ⟨e, he, rfl⟩ := firstMatch_handler_mem hm
      exact applyResolver_no_panic cfg _ (ht e he) _ s
    | none => simp [walk, hm]
theorem walkKVs_no_panic (t : Table) (ht : ∀ e ∈ t, e.2 ∈ knownHandlers) (cfg : Cfg) :
    ∀ (p : TPath) (kvs : List (String × Val)) (s : String), walkKVs t cfg p kvs ≠ .panic s
  | p, [], s => by simp [walkKVs]
  | p, (k, v) :: r, s => by
    simp only [walkKVs]
    cases hx : walk t cfg (TPath.next p k) v with
    | ok x' => simp only; exact Out.map_no_panic _ _ (walkKVs_no_panic t ht cfg p r) s
    | err e => simp
    | panic u => exact absurd hx (walk_no_panic t ht cfg _ v u)
theorem walkSeq_no_panic (t : Table) (ht : ∀ e ∈ t, e.2 ∈ knownHandlers) (cfg : Cfg) :
    ∀ (p : TPath) (xs : List Val) (s : String), walkSeq t cfg p xs ≠ .panic s
  | p, [], s => by simp [walkSeq]
  | p, x :: r, s => by
    simp only [walkSeq]
    cases hx : walk t cfg (TPath.next p "[]") x with
    | ok x' => simp only; exact Out.map_no_panic _ _ (walkSeq_no_panic t ht cfg p r) s
    | err e => simp
    | panic u => exact absurd hx (walk_no_panic t ht cfg _ x u)
end

/-! ### the order in which Go ranges over the resolver table is irrelevant -/

mutual
theorem walk_congr (t t' : Table) (cfg : Cfg) (he : ∀ p, firstMatch t' p = firstMatch t p) :
    ∀ (p : TPath) (v : Val), walk t' cfg p v = walk t cfg p v
  | p, .map kvs => by simp only [walk, he p, walkKVs_congr t t' cfg he p kvs]
  | p, .seq xs => by simp only [walk, he p, walkSeq_congr t t' cfg he p xs]
  | p, .null => by simp only [walk, he p]
  | p, .bool _ => by simp only [walk, he p]
  | p, .int _ => by simp only [walk, he p]
  | p, .float _ => by simp only [walk, he p]
  | p, .str _ => by simp only [walk, he p]
theorem walkKVs_congr (t t' : Table) (cfg : Cfg) (he : ∀ p, firstMatch t' p = firstMatch t p) :
    ∀ (p : TPath) (kvs : List (String × Val)), walkKVs t' cfg p kvs = walkKVs t cfg p kvs
  | p, [] => by simp [walkKVs]
  | p, (k, v) :: r => by simp only [walkKVs, walk_congr t t' cfg he _ v, walkKVs_congr t t' cfg he p r]
theorem walkSeq_congr (t t' : Table) (cfg : Cfg) (he : ∀ p, firstMatch t' p = firstMatch t p) :
    ∀ (p : TPath) (xs : List Val), walkSeq t' cfg p xs = walkSeq t cfg p xs
  | p, [] => by simp [walkSeq]
  | p, x :: r => by simp only [walkSeq, walk_congr t t' cfg he _ x, walkSeq_congr t t' cfg he p r]
end

end CV.Paths
