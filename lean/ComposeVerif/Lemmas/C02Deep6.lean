import ComposeVerif.Lemmas.C02Deep5
namespace CV.Deep
open CV CV.Merge
open CV.Val (lookup insert keys KVs)

/-- a reordering of the entries of a well-formed mapping is equivalent to it -/
theorem Eqv.of_perm {a a' : KVs} (hp : a'.Perm a) (wa : MWF a) : Eqv (.map a') (.map a) := by
  refine .map (fun k => by rw [lookup_perm wa.1 hp k]) ?_
  intro k x y hx hy
  rw [lookup_perm wa.1 hp k] at hx
  rw [hx] at hy; cases hy
  exact Eqv.refl x (wa.2 k x hx)

theorem WF.of_perm {a a' : KVs} (hp : a'.Perm a) (wa : MWF a) : WF (.map a') := by
  refine .map ((hp.map Prod.fst).nodup_iff.mpr wa.1) ?_
  intro k x hx
  rw [lookup_perm wa.1 hp k] at hx
  exact wa.2 k x hx

theorem Eqv.symm {v w : Val} (h : Eqv v w) : Eqv w v := by
  induction h with
  | null => exact .null
  | bool b => exact .bool b
  | int i => exact .int i
  | float s => exact .float s
  | str s => exact .str s
  | seqNil => exact .seqNil
  | seqCons _ _ ih1 ih2 => exact .seqCons ih1 ih2
  | map h1 _ ih => exact .map (fun k => (h1 k).symm) (fun k x y hx hy => ih k y x hy hx)

theorem Eqv.trans {u v w : Val} (h1 : Eqv u v) : Eqv v w → Eqv u w := by
  induction h1 generalizing w with
  | null => exact id
  | bool b => exact id
  | int i => exact id
  | float s => exact id
  | str s => exact id
  | seqNil => exact id
  | seqCons _ _ ih1 ih2 =>
    intro h2
    cases h2 with | seqCons a b => exact .seqCons (ih1 a) (ih2 b)
  | @map a b n1 _ ih =>
    intro h2
    cases h2 with | @map _ c n2 e2 =>
    refine .map (fun k => (n1 k).trans (n2 k)) ?_
    intro k x z hx hz
    cases hb : lookup k b with
    | none => rw [(n1 k).mpr hb] at hx; cases hx
    | some y => exact ih k x y hx hb (e2 k y z hb hz)

/-- one more entry on both sides -/
theorem Eqv.map_cons {k : String} {v v' : Val} {r r' : KVs} (hv : Eqv v v') (hr : Eqv (.map r) (.map r')) :
    Eqv (.map ((k, v) :: r)) (.map ((k, v') :: r')) := by
  have h := Eqv.map_iff.mp hr
  refine .map ?_ ?_
  · intro k'
    simp only [lookup]
    split
    · simp
    · exact h.1 k'
  · intro k' x y hx hy
    simp only [lookup] at hx hy
    split at hx
    · next heq => simp only [heq, if_true] at hy; cases hx; cases hy; exact hv
    · next hne => simp only [hne, if_false] at hy; exact h.2 k' x y hx hy

end CV.Deep
