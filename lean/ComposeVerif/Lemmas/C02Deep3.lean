import ComposeVerif.Lemmas.C02Deep1
import ComposeVerif.Lemmas.C02Deep2
namespace CV.Deep
open CV CV.Merge
open CV.Val (lookup insert keys KVs)

/-! ### `fmt.Sprintf("%v")` does not see the order of mapping entries -/

theorem fmtKVs_eq_map (a : KVs) : fmtKVs a = a.map (fun kv => (kv.1, fmtV kv.2)) := by
  induction a with
  | nil => rfl
  | cons hd tl ih => obtain ⟨k, v⟩ := hd; simp only [fmtKVs, List.map_cons, ih]

theorem fmtVs_eq_map (xs : List Val) : fmtVs xs = xs.map fmtV := by
  induction xs with
  | nil => rfl
  | cons x r ih => simp only [fmtVs, List.map_cons, ih]

/-- equal lookups after mapping the values with `g`, when `g` agrees on matched values -/
theorem perm_map_values {γ : Type} (g : String → Val → γ) (a b : KVs) (ha : (keys a).Nodup) (hb : (keys b).Nodup)
    (hnone : ∀ k, lookup k a = none ↔ lookup k b = none)
    (hg : ∀ k x y, lookup k a = some x → lookup k b = some y → g k x = g k y) :
    (a.map (fun kv => (kv.1, g kv.1 kv.2))).Perm (b.map (fun kv => (kv.1, g kv.1 kv.2))) := by
  apply perm_of_find_eq
  · simpa [Det.akeys, keys, Function.comp_def] using ha
  · simpa [Det.akeys, keys, Function.comp_def] using hb
  · intro k
    rw [Det.find_map_entries, Det.find_map_entries, find_eq_lookup, find_eq_lookup]
    cases hla : lookup k a with
    | none => rw [(hnone k).mp hla]
    | some x =>
      cases hlb : lookup k b with
      | none => rw [(hnone k).mpr hlb] at hla; cases hla
      | some y => simp only [Option.map_some]; rw [hg k x y hla hlb]

theorem fmtV_eqv_aux {v w : Val} (h : Eqv v w) :
    WF v → WF w → fmtV v = fmtV w ∧ (∀ xs ys, v = .seq xs → w = .seq ys → fmtVs xs = fmtVs ys) := by
  induction h with
  | null => intro _ _; exact ⟨rfl, fun _ _ h => by cases h⟩
  | bool b => intro _ _; exact ⟨rfl, fun _ _ h => by cases h⟩
  | int i => intro _ _; exact ⟨rfl, fun _ _ h => by cases h⟩
  | float s => intro _ _; exact ⟨rfl, fun _ _ h => by cases h⟩
  | str s => intro _ _; exact ⟨rfl, fun _ _ h => by cases h⟩
  | seqNil => intro _ _; exact ⟨rfl, fun xs ys h1 h2 => by cases h1; cases h2; rfl⟩
  | @seqCons x y xs ys _ _ ih1 ih2 =>
    intro w1 w2
    cases w1 with | seqCons wx wxs =>
    cases w2 with | seqCons wy wys =>
    have e1 := (ih1 wx wy).1
    have e2 := (ih2 wxs wys).2 xs ys rfl rfl
    have e3 : fmtVs (x :: xs) = fmtVs (y :: ys) := by simp only [fmtVs, e1, e2]
    refine ⟨?_, fun xs' ys' h1 h2 => by cases h1; cases h2; exact e3⟩
    simp only [fmtV, e3]
  | @map a b hnone _ ih =>
    intro w1 w2
    have wa := WF.map_iff.mp w1
    have wb := WF.map_iff.mp w2
    refine ⟨?_, fun _ _ h => by cases h⟩
    simp only [fmtV]
    have hp := perm_map_values (fun _ v => fmtV v) a b wa.1 wb.1 hnone
      (fun k x y hx hy => (ih k x y hx hy (wa.2 k x hx) (wb.2 k y hy)).1)
    rw [fmtKVs_eq_map, fmtKVs_eq_map]
    have hn : ((b.map (fun kv => (kv.1, fmtV kv.2))).map Prod.fst).Nodup := by
      simpa [keys, Function.comp_def] using wb.1
    rw [sortKS_perm hn hp]

/-- **`%v` of equivalent trees is the same string** -/
theorem fmtV_eqv {v w : Val} (h : Eqv v w) (wv : WF v) (ww : WF w) : fmtV v = fmtV w := (fmtV_eqv_aux h wv ww).1

theorem fmtVs_eqv {xs ys : List Val} (h : Eqv (.seq xs) (.seq ys)) (wv : WF (.seq xs)) (ww : WF (.seq ys)) :
    fmtVs xs = fmtVs ys := (fmtV_eqv_aux h wv ww).2 xs ys rfl rfl

/-! ### `convertIntoSequence` -/

theorem entryStrs_eqv (k : String) {v w : Val} (h : Eqv v w) (wv : WF v) (ww : WF w) : entryStrs k v = entryStrs k w := by
  cases h with
  | null => rfl
  | bool b => rfl
  | int i => rfl
  | float s => rfl
  | str s => rfl
  | seqNil => rfl
  | seqCons h1 h2 =>
    have := fmtVs_eqv (.seqCons h1 h2) wv ww
    rw [fmtVs_eq_map, fmtVs_eq_map] at this
    simp only [entryStrs]
    have e : ∀ l : List Val, l.map (fun x => k ++ "=" ++ fmtV x) = (l.map fmtV).map (fun s => k ++ "=" ++ s) := by
      intro l; simp [List.map_map, Function.comp_def]
    rw [e, e, this]
  | map h1 h2 =>
    simp only [entryStrs]
    rw [fmtV_eqv (.map h1 h2) wv ww]

theorem mapStrs_eq (a : KVs) : mapStrs a = (a.map (fun kv => (kv.1, entryStrs kv.1 kv.2))).flatMap Prod.snd := by
  induction a with
  | nil => rfl
  | cons hd tl ih => obtain ⟨k, v⟩ := hd; simp only [mapStrs, List.map_cons, List.flatMap_cons, ih]

theorem sortedStrs_meqv {a b : KVs} (h : MEqv a b) (wa : MWF a) (wb : MWF b) :
    Merge.sortStrs (mapStrs a) = Merge.sortStrs (mapStrs b) := by
  rw [sortStrs_eq, sortStrs_eq, mapStrs_eq, mapStrs_eq]
  apply Det.sortStrs_perm
  apply List.Perm.flatMap_right
  exact (perm_map_values (fun k v => entryStrs k v) a b wa.1 wb.1 h.1
    (fun k x y hx hy => entryStrs_eqv k (h.2 k x y hx hy) (wa.2 k x hx) (wb.2 k y hy)))

theorem Eqv.seq_refl_strs (l : List String) : Eqv (.seq (l.map Val.str)) (.seq (l.map Val.str)) := by
  induction l with
  | nil => exact .seqNil
  | cons s r ih => exact .seqCons (.str s) ih

/-- `convertIntoSequence` of equivalent trees gives elementwise equivalent sequences -/
theorem seqOf_eqv {v w : Val} (h : Eqv v w) (wv : WF v) (ww : WF w) : Eqv (.seq (seqOf v)) (.seq (seqOf w)) := by
  cases h with
  | null => exact .seqNil
  | bool b => exact .seqNil
  | int i => exact .seqNil
  | float s => exact .seqNil
  | str s => exact .seqCons (.str s) .seqNil
  | seqNil => exact .seqNil
  | seqCons h1 h2 => exact .seqCons h1 h2
  | map h1 h2 =>
    simp only [seqOf, intoSeq, Option.getD]
    rw [sortedStrs_meqv ⟨h1, h2⟩ (WF.map_iff.mp wv) (WF.map_iff.mp ww)]
    exact Eqv.seq_refl_strs _

/-! ### `sameScalar` and the `extra_hosts` filter -/

theorem sameScalar_eqv {x x' y y' : Val} (hx : Eqv x x') (hy : Eqv y y') : sameScalar x y = sameScalar x' y' := by
  cases hx <;> cases hy <;> rfl

theorem any_sameScalar_eqv {v v' : Val} (hv : Eqv v v') : ∀ {xs ys : List Val}, Eqv (.seq xs) (.seq ys) →
    xs.any (fun x => sameScalar x v) = ys.any (fun x => sameScalar x v') := by
  intro xs
  induction xs with
  | nil => intro ys h; cases h; rfl
  | cons x r ih =>
    intro ys h
    cases h with | seqCons hx hr =>
    simp only [List.any_cons, sameScalar_eqv hx hv, ih hr]

theorem keepNew_eqv {rs rs' : List Val} (hr : Eqv (.seq rs) (.seq rs')) : ∀ {ls ls' : List Val}, Eqv (.seq ls) (.seq ls') →
    Eqv (.seq (keepNew rs ls)) (.seq (keepNew rs' ls')) := by
  intro ls
  induction ls with
  | nil => intro ls' h; cases h; exact .seqNil
  | cons v r ih =>
    intro ls' h
    cases h with | seqCons hv hrest =>
    simp only [keepNew, any_sameScalar_eqv hv hr]
    split
    · exact ih hrest
    · exact .seqCons hv (ih hrest)

end CV.Deep
