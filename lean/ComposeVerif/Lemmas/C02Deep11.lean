import ComposeVerif.Lemmas.C02Deep10
namespace CV.Deep
open CV CV.Merge
open CV.Val (lookup insert keys KVs)

theorem depthKV_eq (a : KVs) : depthKV a = (a.map (fun kv => (kv.1, depth kv.2))).foldr (fun e acc => max e.2 acc) 0 := by
  induction a with
  | nil => rfl
  | cons hd tl ih => obtain ⟨k, v⟩ := hd; simp only [depthKV, List.map_cons, List.foldr_cons, ih]

theorem foldr_max_perm {l l' : List (String × Nat)} (h : l.Perm l') :
    l.foldr (fun e acc => max e.2 acc) 0 = l'.foldr (fun e acc => max e.2 acc) 0 := by
  induction h with
  | nil => rfl
  | cons x _ ih => simp only [List.foldr_cons, ih]
  | swap x y l => simp only [List.foldr_cons]; omega
  | trans _ _ ih1 ih2 => rw [ih1, ih2]

theorem depth_eqv_aux {v w : Val} (h : Eqv v w) : WF v → WF w → depth v = depth w ∧
    (∀ xs ys, v = .seq xs → w = .seq ys → depthL xs = depthL ys) := by
  induction h with
  | null => intro _ _; exact ⟨rfl, fun _ _ h => by cases h⟩
  | bool b => intro _ _; exact ⟨rfl, fun _ _ h => by cases h⟩
  | int i => intro _ _; exact ⟨rfl, fun _ _ h => by cases h⟩
  | float s => intro _ _; exact ⟨rfl, fun _ _ h => by cases h⟩
  | str s => intro _ _; exact ⟨rfl, fun _ _ h => by cases h⟩
  | seqNil => intro _ _; exact ⟨rfl, fun xs ys h1 h2 => by cases h1; cases h2; rfl⟩
  | @seqCons x y xs ys _ _ ih1 ih2 =>
    intro w1 w2
    cases w1 with | seqCons wx wxs =>
    cases w2 with | seqCons wy wys =>
    have e1 := (ih1 wx wy).1
    have e2 := (ih2 wxs wys).2 xs ys rfl rfl
    have e3 : depthL (x :: xs) = depthL (y :: ys) := by simp only [depthL, e1, e2]
    exact ⟨by simp only [depth, e3], fun xs' ys' h1 h2 => by cases h1; cases h2; exact e3⟩
  | @map a b hnone _ ih =>
    intro w1 w2
    have wa := WF.map_iff.mp w1
    have wb := WF.map_iff.mp w2
    refine ⟨?_, fun _ _ h => by cases h⟩
    simp only [depth]
    rw [depthKV_eq, depthKV_eq]
    congr 1
    exact foldr_max_perm (perm_map_values (fun _ v => depth v) a b wa.1 wb.1 hnone
      (fun k x y hx hy => (ih k x y hx hy (wa.2 k x hx) (wb.2 k y hy)).1))

theorem fuelFor_eqv {v w : Val} (h : Eqv v w) (wv : WF v) (ww : WF w) : fuelFor v = fuelFor w := by
  simp only [fuelFor, (depth_eqv_aux h wv ww).1]

end CV.Deep
