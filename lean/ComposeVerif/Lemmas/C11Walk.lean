import ComposeVerif.Lemmas.C11KV
/-! The walker of `SetDefaultValues`: idempotence and "only adds" on whole documents (C11). -/
namespace CV.C11
open CV CV.Val CV.C11.Spec

/-! ### handlers -/

theorem applyHandler_idem (h : String) (v v' : Val) (hok : applyHandler h v = .ok v') :
    applyHandler h v' = .ok v' := by
  unfold applyHandler at hok ⊢
  by_cases h1 : h = "defaultBuildContext"
  · simp only [h1, if_true] at hok ⊢
    cases v <;> simp only [defaultBuildContext, Out.ok.injEq] at hok <;> subst hok <;>
      simp [defaultBuildContext, setIfAbsent_idem]
  · simp only [h1, if_false] at hok ⊢
    by_cases h2 : h = "defaultSecretMount"
    · simp only [h2, if_true] at hok ⊢
      cases v <;> simp only [defaultSecretMount, Out.ok.injEq, reduceCtorEq] at hok
      rename_i m
      subst hok
      simp only [defaultSecretMount]
      have hs : lookup "source" (setIfAbsent "target" (.str ("/run/secrets/" ++ fmtS (lookup "source" m))) m) = lookup "source" m := by
        rw [lookup_setIfAbsent]; simp [filled]
      rw [hs, setIfAbsent_idem]
    · simp only [h2, if_false] at hok ⊢
      by_cases h3 : h = "portDefaults"
      · simp only [h3, if_true] at hok ⊢
        cases v <;> simp only [portDefaults, Out.ok.injEq] at hok <;> subst hok <;> simp only [portDefaults]
        rename_i m
        have e1 : setIfAbsent "protocol" (.str "tcp") (setIfAbsent "mode" (.str "ingress") (setIfAbsent "protocol" (.str "tcp") m))
            = setIfAbsent "mode" (.str "ingress") (setIfAbsent "protocol" (.str "tcp") m) := by
          have : ∃ x, lookup "protocol" (setIfAbsent "mode" (.str "ingress") (setIfAbsent "protocol" (.str "tcp") m)) = some x := by
            rw [lookup_setIfAbsent]
            simp only [filled, show ("protocol" = "mode") = False by simp, if_false]
            rw [lookup_setIfAbsent]
            simp only [filled, if_true]
            cases lookup "protocol" m <;> simp
          obtain ⟨x, hx⟩ := this
          exact setIfAbsent_of_some hx
        rw [e1, setIfAbsent_idem]
      · simp only [h3, if_false] at hok ⊢
        by_cases h4 : h = "deviceRequestDefaults"
        · simp only [h4, if_true] at hok ⊢
          cases v <;> simp only [deviceRequestDefaults, Out.ok.injEq, reduceCtorEq] at hok
          rename_i m
          subst hok
          simp only [deviceRequestDefaults, deviceCount]
          cases c1 : lookup "count" m <;> cases c2 : lookup "device_ids" m <;>
            simp [lookup_insert_self, c1, c2]
        · simp only [h4, if_false, reduceCtorEq] at hok

/-! ### the walker is idempotent -/

mutual
theorem setDefaults_idem (tbl : List (List String × String)) :
    ∀ (p : TPath) (v v' : Val), setDefaults tbl p v = .ok v' → setDefaults tbl p v' = .ok v'
  | p, v, v', h => by
    unfold setDefaults at h ⊢
    cases hm : TPath.firstMatch tbl p with
    | some hname =>
      simp only [hm] at h ⊢
      exact applyHandler_idem _ _ _ h
    | none =>
      simp only [hm] at h ⊢
      cases v with
      | map kvs =>
        simp only at h
        cases hk : setDefaultsKVs tbl p kvs with
        | ok r =>
          simp only [hk, Out.ok.injEq] at h
          subst h
          simp only [setDefaultsKVs_idem tbl p kvs r hk]
        | err e => simp [hk] at h
        | panic s => simp [hk] at h
      | seq xs =>
        simp only at h
        cases hk : setDefaultsList tbl p xs with
        | ok r =>
          simp only [hk, Out.ok.injEq] at h
          subst h
          simp only [setDefaultsList_idem tbl p xs r hk]
        | err e => simp [hk] at h
        | panic s => simp [hk] at h
      | null => simp only [Out.ok.injEq] at h; subst h; rfl
      | bool _ => simp only [Out.ok.injEq] at h; subst h; rfl
      | int _ => simp only [Out.ok.injEq] at h; subst h; rfl
      | float _ => simp only [Out.ok.injEq] at h; subst h; rfl
      | str _ => simp only [Out.ok.injEq] at h; subst h; rfl
theorem setDefaultsKVs_idem (tbl : List (List String × String)) :
    ∀ (p : TPath) (kvs kvs' : List (String × Val)), setDefaultsKVs tbl p kvs = .ok kvs' → setDefaultsKVs tbl p kvs' = .ok kvs'
  | p, [], kvs', h => by
    simp only [setDefaultsKVs, Out.ok.injEq] at h; subst h; rfl
  | p, (k, v) :: r, kvs', h => by
    rw [setDefaultsKVs] at h
    cases hv : setDefaults tbl (p.next k) v with
    | ok w =>
      simp only [hv] at h
      cases hr : setDefaultsKVs tbl p r with
      | ok r' =>
        simp only [hr, Out.ok.injEq] at h
        subst h
        rw [setDefaultsKVs]
        simp only [setDefaults_idem tbl (p.next k) v w hv, setDefaultsKVs_idem tbl p r r' hr]
      | err e => simp [hr] at h
      | panic s => simp [hr] at h
    | err e => simp [hv] at h
    | panic s => simp [hv] at h
theorem setDefaultsList_idem (tbl : List (List String × String)) :
    ∀ (p : TPath) (xs xs' : List Val), setDefaultsList tbl p xs = .ok xs' → setDefaultsList tbl p xs' = .ok xs'
  | p, [], xs', h => by
    simp only [setDefaultsList, Out.ok.injEq] at h; subst h; rfl
  | p, v :: r, xs', h => by
    rw [setDefaultsList] at h
    cases hv : setDefaults tbl (p.next "[]") v with
    | ok w =>
      simp only [hv] at h
      cases hr : setDefaultsList tbl p r with
      | ok r' =>
        simp only [hr, Out.ok.injEq] at h
        subst h
        rw [setDefaultsList]
        simp only [setDefaults_idem tbl (p.next "[]") v w hv, setDefaultsList_idem tbl p r r' hr]
      | err e => simp [hr] at h
      | panic s => simp [hr] at h
    | err e => simp [hv] at h
    | panic s => simp [hv] at h
end

/-! ### the walker only adds: everything written by the user is still there, unchanged -/

mutual
/-- `v ≤ v'`: `v'` is `v` with, possibly, more entries in some mappings -/
def Extends : Val → Val → Prop
  | .map kvs, .map kvs' => ExtendsKVs kvs kvs'
  | .seq xs, .seq ys => ExtendsList xs ys
  | .null, .null => True
  | .bool a, .bool b => a = b
  | .int a, .int b => a = b
  | .float a, .float b => a = b
  | .str a, .str b => a = b
  | _, _ => False
/-- every entry of the first mapping has a counterpart under the same key in the second -/
def ExtendsKVs : List (String × Val) → List (String × Val) → Prop
  | [], _ => True
  | (k, x) :: r, kvs' => (∃ x', (k, x') ∈ kvs' ∧ Extends x x') ∧ ExtendsKVs r kvs'
/-- same length, element by element -/
def ExtendsList : List Val → List Val → Prop
  | [], [] => True
  | x :: r, y :: s => Extends x y ∧ ExtendsList r s
  | _, _ => False
end

mutual
theorem Extends.refl : ∀ v : Val, Extends v v
  | .map kvs => by unfold Extends; exact ExtendsKVs.sub kvs kvs (fun _ h => h)
  | .seq xs => by unfold Extends; exact ExtendsList.refl xs
  | .null => by unfold Extends; trivial
  | .bool _ => by unfold Extends; rfl
  | .int _ => by unfold Extends; rfl
  | .float _ => by unfold Extends; rfl
  | .str _ => by unfold Extends; rfl
/-- a mapping extends each of its sub-lists of entries -/
theorem ExtendsKVs.sub : ∀ (kvs kvs' : List (String × Val)), (∀ e, e ∈ kvs → e ∈ kvs') → ExtendsKVs kvs kvs'
  | [], _, _ => by unfold ExtendsKVs; trivial
  | (k, x) :: r, kvs', h => by
    unfold ExtendsKVs
    exact ⟨⟨x, h (k, x) (List.mem_cons_self ..), Extends.refl x⟩,
      ExtendsKVs.sub r kvs' (fun e he => h e (List.mem_cons_of_mem _ he))⟩
theorem ExtendsList.refl : ∀ xs : List Val, ExtendsList xs xs
  | [] => by unfold ExtendsList; trivial
  | x :: r => by unfold ExtendsList; exact ⟨Extends.refl x, ExtendsList.refl r⟩
end

theorem ExtendsKVs.weaken : ∀ (kvs : List (String × Val)) {a b : List (String × Val)},
    (∀ e, e ∈ a → e ∈ b) → ExtendsKVs kvs a → ExtendsKVs kvs b
  | [], _, _, _, _ => by unfold ExtendsKVs; trivial
  | (k, x) :: r, a, b, hab, h => by
    unfold ExtendsKVs at h ⊢
    obtain ⟨⟨x', hm, hx⟩, hr⟩ := h
    exact ⟨⟨x', hab _ hm, hx⟩, ExtendsKVs.weaken r hab hr⟩

theorem mem_insert_of_mem_absent {k : String} {v : Val} {m : KVs} (hk : lookup k m = none) {e : String × Val}
    (he : e ∈ m) : e ∈ Val.insert k v m := by
  induction m with
  | nil => cases he
  | cons e0 r ih =>
    obtain ⟨k', v'⟩ := e0
    by_cases hkk : k = k'
    · simp [lookup, hkk] at hk
    · simp only [lookup, hkk, if_false] at hk
      simp only [Val.insert, hkk, if_false, List.mem_cons]
      rcases List.mem_cons.mp he with h | h
      · exact .inl h
      · exact .inr (ih hk h)

theorem mem_setIfAbsent {k : String} {v : Val} {m : KVs} {e : String × Val} (he : e ∈ m) :
    e ∈ setIfAbsent k v m := by
  unfold setIfAbsent
  cases h : lookup k m with
  | some x => exact he
  | none => exact mem_insert_of_mem_absent h he

theorem applyHandler_extends (h : String) (v v' : Val) (hok : applyHandler h v = .ok v') : Extends v v' := by
  unfold applyHandler at hok
  by_cases h1 : h = "defaultBuildContext"
  · simp only [h1, if_true] at hok
    cases v <;> simp only [defaultBuildContext, Out.ok.injEq] at hok <;> subst hok <;> try exact Extends.refl _
    unfold Extends
    exact ExtendsKVs.sub _ _ fun e he => mem_setIfAbsent he
  · simp only [h1, if_false] at hok
    by_cases h2 : h = "defaultSecretMount"
    · simp only [h2, if_true] at hok
      cases v <;> simp only [defaultSecretMount, Out.ok.injEq, reduceCtorEq] at hok
      subst hok
      unfold Extends
      exact ExtendsKVs.sub _ _ fun e he => mem_setIfAbsent he
    · simp only [h2, if_false] at hok
      by_cases h3 : h = "portDefaults"
      · simp only [h3, if_true] at hok
        cases v <;> simp only [portDefaults, Out.ok.injEq] at hok <;> subst hok <;> try exact Extends.refl _
        unfold Extends
        exact ExtendsKVs.sub _ _ fun e he => mem_setIfAbsent (mem_setIfAbsent he)
      · simp only [h3, if_false] at hok
        by_cases h4 : h = "deviceRequestDefaults"
        · simp only [h4, if_true] at hok
          cases v <;> simp only [deviceRequestDefaults, Out.ok.injEq, reduceCtorEq] at hok
          subst hok
          rename_i m
          unfold Extends
          apply ExtendsKVs.sub
          intro e he
          unfold deviceCount
          cases c1 : lookup "count" m <;> cases c2 : lookup "device_ids" m <;> simp only <;>
            first | exact he | exact mem_insert_of_mem_absent c1 he
        · simp only [h4, if_false, reduceCtorEq] at hok

mutual
theorem setDefaults_extends (tbl : List (List String × String)) :
    ∀ (p : TPath) (v v' : Val), setDefaults tbl p v = .ok v' → Extends v v'
  | p, v, v', h => by
    unfold setDefaults at h
    cases hm : TPath.firstMatch tbl p with
    | some hname =>
      simp only [hm] at h
      exact applyHandler_extends _ _ _ h
    | none =>
      simp only [hm] at h
      cases v with
      | map kvs =>
        simp only at h
        cases hk : setDefaultsKVs tbl p kvs with
        | ok r =>
          simp only [hk, Out.ok.injEq] at h
          subst h
          unfold Extends
          exact setDefaultsKVs_extends tbl p kvs r hk
        | err e => simp [hk] at h
        | panic s => simp [hk] at h
      | seq xs =>
        simp only at h
        cases hk : setDefaultsList tbl p xs with
        | ok r =>
          simp only [hk, Out.ok.injEq] at h
          subst h
          unfold Extends
          exact setDefaultsList_extends tbl p xs r hk
        | err e => simp [hk] at h
        | panic s => simp [hk] at h
      | null => simp only [Out.ok.injEq] at h; subst h; exact Extends.refl _
      | bool _ => simp only [Out.ok.injEq] at h; subst h; exact Extends.refl _
      | int _ => simp only [Out.ok.injEq] at h; subst h; exact Extends.refl _
      | float _ => simp only [Out.ok.injEq] at h; subst h; exact Extends.refl _
      | str _ => simp only [Out.ok.injEq] at h; subst h; exact Extends.refl _
theorem setDefaultsKVs_extends (tbl : List (List String × String)) :
    ∀ (p : TPath) (kvs kvs' : List (String × Val)), setDefaultsKVs tbl p kvs = .ok kvs' → ExtendsKVs kvs kvs'
  | p, [], kvs', h => by unfold ExtendsKVs; trivial
  | p, (k, v) :: r, kvs', h => by
    rw [setDefaultsKVs] at h
    cases hv : setDefaults tbl (p.next k) v with
    | ok w =>
      simp only [hv] at h
      cases hr : setDefaultsKVs tbl p r with
      | ok r' =>
        simp only [hr, Out.ok.injEq] at h
        subst h
        unfold ExtendsKVs
        refine ⟨⟨w, List.mem_cons_self .., setDefaults_extends tbl (p.next k) v w hv⟩, ?_⟩
        exact ExtendsKVs.weaken r (fun e he => List.mem_cons_of_mem _ he) (setDefaultsKVs_extends tbl p r r' hr)
      | err e => simp [hr] at h
      | panic s => simp [hr] at h
    | err e => simp [hv] at h
    | panic s => simp [hv] at h
theorem setDefaultsList_extends (tbl : List (List String × String)) :
    ∀ (p : TPath) (xs xs' : List Val), setDefaultsList tbl p xs = .ok xs' → ExtendsList xs xs'
  | p, [], xs', h => by
    simp only [setDefaultsList, Out.ok.injEq] at h; subst h; unfold ExtendsList; trivial
  | p, v :: r, xs', h => by
    rw [setDefaultsList] at h
    cases hv : setDefaults tbl (p.next "[]") v with
    | ok w =>
      simp only [hv] at h
      cases hr : setDefaultsList tbl p r with
      | ok r' =>
        simp only [hr, Out.ok.injEq] at h
        subst h
        unfold ExtendsList
        exact ⟨setDefaults_extends tbl (p.next "[]") v w hv, setDefaultsList_extends tbl p r r' hr⟩
      | err e => simp [hr] at h
      | panic s => simp [hr] at h
    | err e => simp [hv] at h
    | panic s => simp [hv] at h
end

end CV.C11
