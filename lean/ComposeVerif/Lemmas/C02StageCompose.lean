import ComposeVerif.Lemmas.C02StageCanonical
import ComposeVerif.Lemmas.C02StageValidate
import ComposeVerif.Lemmas.C02StageInterp
import ComposeVerif.Lemmas.C02StagePaths
/-!
### composing the stage theorems: a pipeline of stages that each respect `Eqv` respects `Eqv`

A stage is a partial function on trees (`none` = the stage failed, whatever the error).  `WFAlong` says that the
input and every intermediate tree has distinct keys at every mapping — true of every Go `map[string]any` by
construction, a hypothesis here because the models are association lists.
-/
namespace CV.Det.Stage
open CV CV.Deep
open CV.Val (lookup keys KVs)

abbrev StageFn := Val → Option Val

/-- the stage treats trees that differ only in the order of mapping entries (at any depth) alike -/
def Respects (f : StageFn) : Prop := ∀ v w, Eqv v w → WF v → WF w → ORel Eqv (f v) (f w)

/-- `for _, stage := range stages { tree, err = stage(tree); if err != nil { return err } }` -/
def runStages : List StageFn → Val → Option Val
  | [], v => some v
  | f :: r, v => (f v).bind (runStages r)

/-- the input and every intermediate result has distinct keys everywhere -/
def WFAlong : List StageFn → Val → Prop
  | [], v => WF v
  | f :: r, v => WF v ∧ ∀ x, f v = some x → WFAlong r x

theorem WFAlong.wf : ∀ {fs : List StageFn} {v : Val}, WFAlong fs v → WF v
  | [], _, h => h
  | _ :: _, _, h => h.1

theorem runStages_respects (fs : List StageFn) (hall : ∀ f ∈ fs, Respects f) :
    ∀ v w, Eqv v w → WFAlong fs v → WFAlong fs w → ORel Eqv (runStages fs v) (runStages fs w) := by
  induction fs with
  | nil => intro v w h _ _; exact h
  | cons f r ih =>
    intro v w h hv hw
    have h1 := hall f List.mem_cons_self v w h hv.1 hw.1
    simp only [runStages]
    cases hx : f v <;> cases hy : f w <;> simp only [hx, hy, ORel, Option.bind] at h1 ⊢ <;> try exact h1.elim
    exact ih (fun g hg => hall g (List.mem_cons_of_mem _ hg)) _ _ h1 (hv.2 _ hx) (hw.2 _ hy)

/-! the stages as `StageFn`s -/

def interpStage (c : CV.Interp.Cfg) (p : TPath) : StageFn := fun v => optI (CV.Interp.interp c p v)
def canonicalStage (ign : Bool) (p : TPath) : StageFn := fun v => optS (CV.Short.transform ign p v)
def validateStage : StageFn := fun v => if CV.Validate.validate v = .ok then some v else none
def defaultsStage (tbl : List (List String × String)) (p : TPath) : StageFn := fun v => optD (CV.C11.setDefaults tbl p v)
def pathsStage (t : CV.Paths.Table) (cfg : CV.Paths.Cfg) (p : TPath) : StageFn := fun v => optP (CV.Paths.walk t cfg p v)

theorem respects_interp (c : CV.Interp.Cfg) (p : TPath) : Respects (interpStage c p) :=
  fun _ _ h wv ww => interp_eqv c p h wv ww

theorem respects_canonical (ign : Bool) (p : TPath) (hp : NoExt p) : Respects (canonicalStage ign p) :=
  fun _ _ h wv ww => transform_eqv ign p hp h wv ww

theorem respects_validate : Respects validateStage := by
  intro v w h wv ww
  have := validate_eqv h wv ww
  unfold validateStage
  by_cases hv : CV.Validate.validate v = .ok
  · rw [if_pos hv, if_pos (this.mp hv)]; exact h
  · rw [if_neg hv, if_neg (fun hw => hv (this.mpr hw))]; trivial

theorem respects_defaults (tbl : List (List String × String)) (p : TPath) : Respects (defaultsStage tbl p) := by
  intro v w h wv ww
  have := setDefaults_eqv tbl p h wv ww
  unfold defaultsStage
  cases hx : CV.C11.setDefaults tbl p v <;> cases hy : CV.C11.setDefaults tbl p w <;>
    simp only [hx, hy, DRel, optD, ORel] at this ⊢ <;> first | exact this | exact this.elim | trivial

theorem respects_paths (t : CV.Paths.Table) (cfg : CV.Paths.Cfg) (p : TPath) : Respects (pathsStage t cfg p) := by
  intro v w h wv ww
  have := walk_eqv t cfg p h wv ww
  unfold pathsStage
  cases hx : CV.Paths.walk t cfg p v <;> cases hy : CV.Paths.walk t cfg p w <;>
    simp only [hx, hy, PRel, optP, ORel] at this ⊢ <;> first | exact this | exact this.elim | trivial

end CV.Det.Stage
