import ComposeVerif.Lemmas.Graph
/-! The specification does not depend on the order in which Go ranges over its maps. -/
namespace CV.Consistency

/-- `s'` is `s` with its two Go maps (`depends_on`, `networks`) listed in another order -/
structure SvcEquiv (s s' : Svc) : Prop where
  eq : s' = { s with dependsOn := s'.dependsOn, networks := s'.networks }
  deps : ∀ x, x ∈ s'.dependsOn ↔ x ∈ s.dependsOn
  nets : ∀ x, x ∈ s'.networks ↔ x ∈ s.networks

/-- `p'` is `p` with every Go map (services, disabled services, resources, secrets, and the maps inside each
service) listed in another order -/
structure ProjEquiv (p p' : Proj) : Prop where
  fwd : ∀ n s, (n, s) ∈ p.services → ∃ s', (n, s') ∈ p'.services ∧ SvcEquiv s s'
  bwd : ∀ n s', (n, s') ∈ p'.services → ∃ s, (n, s) ∈ p.services ∧ SvcEquiv s s'
  disabled : ∀ x, x ∈ p'.disabled ↔ x ∈ p.disabled
  networks : ∀ x, x ∈ p'.networks ↔ x ∈ p.networks
  volumes : ∀ x, x ∈ p'.volumes ↔ x ∈ p.volumes
  configs : ∀ x, x ∈ p'.configs ↔ x ∈ p.configs
  secrets : ∀ e, e ∈ p'.secrets ↔ e ∈ p.secrets

theorem SvcEquiv.refl (s : Svc) : SvcEquiv s s := ⟨rfl, fun _ => Iff.rfl, fun _ => Iff.rfl⟩

theorem SvcEquiv.symm {s s' : Svc} (h : SvcEquiv s s') : SvcEquiv s' s :=
  ⟨by rw [h.eq], fun x => (h.deps x).symm, fun x => (h.nets x).symm⟩

/-- reordering the two maps of a service -/
theorem SvcEquiv.of_perm (s : Svc) (d : List (String × Bool)) (n : List String) (hd : d.Perm s.dependsOn) (hn : n.Perm s.networks) :
    SvcEquiv s { s with dependsOn := d, networks := n } :=
  ⟨rfl, fun _ => hd.mem_iff, fun _ => hn.mem_iff⟩

theorem ProjEquiv.symm {p p' : Proj} (h : ProjEquiv p p') : ProjEquiv p' p where
  fwd n s hs := by obtain ⟨s', h1, h2⟩ := h.bwd n s hs; exact ⟨s', h1, h2.symm⟩
  bwd n s hs := by obtain ⟨s', h1, h2⟩ := h.fwd n s hs; exact ⟨s', h1, h2.symm⟩
  disabled x := (h.disabled x).symm
  networks x := (h.networks x).symm
  volumes x := (h.volumes x).symm
  configs x := (h.configs x).symm
  secrets x := (h.secrets x).symm

/-- reordering the top-level maps -/
theorem ProjEquiv.of_perm (p : Proj) (sv : List (String × Svc)) (hs : sv.Perm p.services) (sec : List (String × Secret))
    (hsec : sec.Perm p.secrets) : ProjEquiv p { p with services := sv, secrets := sec } where
  fwd n s h := ⟨s, hs.mem_iff.mpr h, SvcEquiv.refl s⟩
  bwd n s h := ⟨s, hs.mem_iff.mp h, SvcEquiv.refl s⟩
  disabled _ := Iff.rfl
  networks _ := Iff.rfl
  volumes _ := Iff.rfl
  configs _ := Iff.rfl
  secrets _ := hsec.mem_iff

theorem ProjEquiv.enabled {p p' : Proj} (h : ProjEquiv p p') (x : String) : x ∈ p'.enabled ↔ x ∈ p.enabled := by
  simp only [Proj.enabled, List.mem_map]
  constructor
  · rintro ⟨⟨n, s'⟩, hm, rfl⟩
    obtain ⟨s, hs, -⟩ := h.bwd n s' hm
    exact ⟨(n, s), hs, rfl⟩
  · rintro ⟨⟨n, s⟩, hm, rfl⟩
    obtain ⟨s', hs, -⟩ := h.fwd n s hm
    exact ⟨(n, s'), hs, rfl⟩

theorem ProjEquiv.secretNames {p p' : Proj} (h : ProjEquiv p p') (x : String) : x ∈ p'.secretNames ↔ x ∈ p.secretNames := by
  simp only [Proj.secretNames, List.mem_map]
  constructor
  · rintro ⟨e, hm, rfl⟩; exact ⟨e, (h.secrets e).mp hm, rfl⟩
  · rintro ⟨e, hm, rfl⟩; exact ⟨e, (h.secrets e).mpr hm, rfl⟩

theorem eq_nil_of_mem_iff {α : Type} {l l' : List α} (h : ∀ x, x ∈ l' ↔ x ∈ l) (hl : l = []) : l' = [] := by
  cases l' with
  | nil => rfl
  | cons a r => exact absurd ((h a).mp (List.mem_cons_self ..)) (by simp [hl])

theorem holds_equiv {p p' : Proj} (hp : ProjEquiv p p') {s s' : Svc} (hs : SvcEquiv s s') (r : Rule)
    (h : Holds p s r) : Holds p' s' r := by
  have hen := hp.enabled
  have hsn := hp.secretNames
  rw [hs.eq]
  cases r <;> simp only [Holds, getScale] at h ⊢
  · exact h
  · intro n hn; exact (hp.networks n).mpr (h n ((hs.nets n).mp hn))
  · intro v hv h1 h2; exact (hp.volumes _).mpr (h v hv h1 h2)
  · intro x hx; exact (hsn x).mpr (h x hx)
  · intro x hx; exact (hp.configs x).mpr (h x hx)
  · intro b hb x hx; exact (hsn x).mpr (h b hb x hx)
  · intro d hd
    rcases h d ((hs.deps d).mp hd) with h | h
    · exact .inl ((hen _).mpr h)
    · exact .inr ⟨(hp.disabled _).mpr h.1, h.2⟩
  · intro x hx; exact (hen x).mpr (h x hx)
  · exact h
  · rcases h with h | h
    · exact .inl h
    · exact .inr (eq_nil_of_mem_iff hs.nets h)
  · exact h
  · exact h
  · exact h
  · exact h
  · exact h
  · exact h
  · exact h
  · exact h
  · exact h

theorem depRel_equiv {p p' : Proj} (hp : ProjEquiv p p') {a b : String} (h : DepRel p a b) : DepRel p' a b := by
  obtain ⟨s, hs, hb, r, hr⟩ := h
  obtain ⟨s', hs', he⟩ := hp.fwd a s hs
  exact ⟨s', hs', (hp.enabled b).mpr hb, r, (he.deps _).mpr hr⟩

/-- the specification is invariant under every reordering of Go's maps -/
theorem consistentFull_equiv {p p' : Proj} (hp : ProjEquiv p p') (h : ConsistentFull p) : ConsistentFull p' := by
  refine ⟨?_, ?_, ?_⟩
  · intro e he r
    obtain ⟨s, hs, hse⟩ := hp.bwd e.1 e.2 he
    exact holds_equiv hp hse r (h.1 (e.1, s) hs r)
  · intro e he
    exact h.2.1 e ((hp.secrets e).mp he)
  · intro v w
    exact h.2.2 v (w.mono fun a b e => depRel_equiv hp.symm e)

end CV.Consistency
