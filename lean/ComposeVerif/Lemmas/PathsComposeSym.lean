import ComposeVerif.Lemmas.PathsCompose
/-!
Two-stage = one-stage **with symbolic links** (C12, round 5).

`Lemmas/PathsCompose.lean` proves the composition for `sym = some` (no symbolic links).  Here `sym` — the model's
parameter for `utils.ResolveSymbolicLink` — is any function that

* leaves a relative path alone (`SymOK.rel`: the round-5 repair of `getSymbolinkLink`; before it the components of a
  relative first-stage result were looked up from the working directory of the process), and
* on an absolute path answers an absolute path on which it is a fixpoint (`SymOK.abs`: what `resolve_symlinks_idem`
  proves for the link-table model of the repaired loop).
-/
namespace CV.Paths
open CV CV.TPath

/-- what the composition needs from `utils.ResolveSymbolicLink` -/
structure SymOK (sym : Str → Option Str) : Prop where
  rel : ∀ s, isAbs s = false → sym s = some s
  abs : ∀ s r, isAbs s = true → sym s = some r → isAbs r = true ∧ sym r = some r

/-! ### only `absSymbolicLink` looks at `cfg.sym` -/

section
variable (wd : Str) (home : Option Str) (remote : Str → Bool) (sym sym' : Str → Option Str)

mutual
theorem absPath_sym_irrel : ∀ v : Val, absPath (Cfg.mk wd home remote sym) v = absPath (Cfg.mk wd home remote sym') v
  | .str s => rfl
  | .seq xs => by simp only [absPath, absPathList_sym_irrel xs]
  | .null => rfl
  | .bool _ => rfl
  | .int _ => rfl
  | .float _ => rfl
  | .map _ => rfl
theorem absPathList_sym_irrel : ∀ xs : List Val,
    absPathList (Cfg.mk wd home remote sym) xs = absPathList (Cfg.mk wd home remote sym') xs
  | [] => rfl
  | x :: r => by simp only [absPathList, absPath_sym_irrel x, absPathList_sym_irrel r]
end

theorem maybeUnixPath_sym_irrel (v : Val) :
    maybeUnixPath (Cfg.mk wd home remote sym) v = maybeUnixPath (Cfg.mk wd home remote sym') v := by
  cases v <;> rfl

theorem absContextPath_sym_irrel (v : Val) :
    absContextPath (Cfg.mk wd home remote sym) v = absContextPath (Cfg.mk wd home remote sym') v := by
  cases v <;> rfl

theorem absExtendsPath_sym_irrel (v : Val) :
    absExtendsPath (Cfg.mk wd home remote sym) v = absExtendsPath (Cfg.mk wd home remote sym') v := by
  cases v <;> rfl

theorem absVolumeMount_sym_irrel (v : Val) :
    absVolumeMount (Cfg.mk wd home remote sym) v = absVolumeMount (Cfg.mk wd home remote sym') v := by
  cases v <;> rfl

theorem volumeDriverOpts_sym_irrel (v : Val) :
    volumeDriverOpts (Cfg.mk wd home remote sym) v = volumeDriverOpts (Cfg.mk wd home remote sym') v := by
  cases v <;> rfl

/-- every resolver except `absSymbolicLink` is independent of the symbolic-link parameter -/
theorem applyResolver_sym_irrel (hn : String) (hne : hn ≠ "absSymbolicLink") (v : Val) :
    applyResolver (Cfg.mk wd home remote sym) hn v = applyResolver (Cfg.mk wd home remote sym') hn v := by
  unfold applyResolver
  rw [absPath_sym_irrel wd home remote sym sym', absContextPath_sym_irrel wd home remote sym sym',
    absExtendsPath_sym_irrel wd home remote sym sym', absVolumeMount_sym_irrel wd home remote sym sym',
    maybeUnixPath_sym_irrel wd home remote sym sym', volumeDriverOpts_sym_irrel wd home remote sym sym']
  simp only [hne, if_false]
end

theorem absSymbolicLink_seq (c : Cfg) (xs : List Val) : absSymbolicLink c (.seq xs) = absPath c (.seq xs) := by
  simp only [absSymbolicLink]
  cases h : absPath c (.seq xs) with
  | ok w =>
    simp only [absPath] at h
    obtain ⟨ys, _, rfl⟩ := Out.map_ok _ _ _ h
    rfl
  | err e => rfl
  | panic s => rfl

theorem absSymbolicLink_str (c : Cfg) (s : String) :
    absSymbolicLink c (.str s) =
      match c.sym (absPathStr c s.toList) with
      | some r => okStr r
      | none => .err "symlink" := by
  simp only [absSymbolicLink, absPath, String.toList_ofList]
  rfl

section
variable (home : Option Str) (remote : Str → Bool) (sym : Str → Option Str) (W R : Str)
  (hW : W ≠ []) (hR : R ≠ []) (hRr : isAbs R = false)
include hW hR hRr

/-- develop.watch paths: the second stage composes with the first, symbolic links included -/
theorem absSymbolicLink_compose_sym (hs : SymOK sym) (v v1 : Val)
    (h : absSymbolicLink (Cfg.mk R home remote sym) v = .ok v1) :
    absSymbolicLink (Cfg.mk W home remote sym) v1 = absSymbolicLink (Cfg.mk (join W R) home remote sym) v := by
  cases v with
  | str s =>
    rw [absSymbolicLink_str] at h
    have hc := absPathStr_compose home remote sym W R s.toList hW hR hRr
    cases ha : isAbs (absPathStr (Cfg.mk R home remote sym) s.toList) with
    | true =>
      cases hsy : sym (absPathStr (Cfg.mk R home remote sym) s.toList) with
      | none => simp only [hsy] at h; cases h
      | some r =>
        simp only [hsy, okStr, Out.ok.injEq] at h
        subst h
        obtain ⟨hr1, hr2⟩ := hs.abs _ _ ha hsy
        rw [absPathStr_abs_untouched _ _ ha] at hc
        rw [absSymbolicLink_str, absSymbolicLink_str]
        simp only [String.toList_ofList, absPathStr_abs_untouched _ r hr1, hr2, ← hc, hsy]
    | false =>
      simp only [hs.rel _ ha, okStr, Out.ok.injEq] at h
      subst h
      rw [absSymbolicLink_str, absSymbolicLink_str]
      simp only [String.toList_ofList, hc]
  | seq xs =>
    rw [absSymbolicLink_seq] at h
    have h' := h
    simp only [absPath] at h'
    obtain ⟨ys, _, rfl⟩ := Out.map_ok _ _ _ h'
    rw [absSymbolicLink_seq, absSymbolicLink_seq]
    rw [absPath_sym_irrel R home remote sym some] at h
    rw [absPath_sym_irrel W home remote sym some, absPath_sym_irrel (join W R) home remote sym some]
    exact absPath_compose home remote W R hW hR hRr _ _ h
  | null => simp [absSymbolicLink, absPath] at h
  | bool _ => simp [absSymbolicLink, absPath] at h
  | int _ => simp [absSymbolicLink, absPath] at h
  | float _ => simp [absSymbolicLink, absPath] at h
  | map _ => simp [absSymbolicLink, absPath] at h

/-- **at every node, for every resolver, any well-behaved symbolic-link resolution** -/
theorem composeAt_all_sym (hs : SymOK sym) (hhome : ∀ h, home = some h → h ≠ []) (hrem : ∀ x, remote x = false)
    (hn : String) (v : Val) :
    ComposeAt (Cfg.mk R home remote sym) (Cfg.mk W home remote sym) (Cfg.mk (join W R) home remote sym) hn v := by
  intro v1 h
  by_cases hne : hn = "absSymbolicLink"
  · subst hne
    have e : ∀ c w, applyResolver c "absSymbolicLink" w = absSymbolicLink c w := fun c w => by simp [applyResolver]
    rw [e] at h ⊢
    rw [e]
    exact absSymbolicLink_compose_sym home remote sym W R hW hR hRr hs v v1 h
  · rw [applyResolver_sym_irrel R home remote sym some hn hne] at h
    rw [applyResolver_sym_irrel W home remote sym some hn hne, applyResolver_sym_irrel (join W R) home remote sym some hn hne]
    exact composeAt_all home remote W R hW hR hRr hhome hrem hn v v1 h
end

end CV.Paths
