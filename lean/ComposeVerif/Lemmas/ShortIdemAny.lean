import ComposeVerif.Lemmas.ShortIdem
/-!
# Whole-tree idempotence of `transform.Canonical` for either value of `ignoreParseError` (C03, round 4)

The same induction as `Lemmas/ShortIdem.lean` with the flag as a parameter.  The only new ingredient: with
`ignoreParseError = true` three transformers may "return the data unchanged" (an unparsable volume string, a
`KEY=VALUE` list with a bare key, a ports list with an unparsable string) — then the result *is* the input and the
second pass is the first pass again.
-/
namespace CV.Short
open CV CV.TPath

theorem transformVolumeMount_idemA (ign : Bool) (v w : Val) (h : transformVolumeMount ign v = .ok w) :
    transformVolumeMount ign w = .ok w := by
  cases v with
  | str s =>
    have h0 := h
    simp only [transformVolumeMount] at h
    split at h
    · split at h
      · simp only [Out.ok.injEq] at h; subst h; exact h0
      · simp at h
    · simp only [Out.ok.injEq] at h; subst h; rfl
  | map m => simp [transformVolumeMount] at h; subst h; rfl
  | _ => simp [transformVolumeMount] at h

theorem transformDeviceMapping_idemA (ign : Bool) (v w : Val) (h : transformDeviceMapping ign v = .ok w) :
    transformDeviceMapping ign w = .ok w := by
  cases v with
  | str s =>
    simp only [transformDeviceMapping] at h
    split at h
    · simp only [Out.ok.injEq] at h; subst h; rfl
    · simp only [Out.ok.injEq] at h; subst h; rfl
    · simp only [Out.ok.injEq] at h; subst h; rfl
    · split at h
      · simp only [Out.ok.injEq] at h; subst h; rfl
      · simp at h
  | map m => simp [transformDeviceMapping] at h; subst h; rfl
  | _ => simp [transformDeviceMapping] at h

theorem transformKeyValue_idemA (ign : Bool) (v w : Val) (h : transformKeyValue ign v = .ok w) :
    transformKeyValue ign w = .ok w := by
  cases v with
  | seq l =>
    have h0 := h
    simp only [transformKeyValue] at h
    split at h
    · simp only [Out.ok.injEq] at h; subst h; exact h0
    · simp only [Out.ok.injEq] at h; subst h; rfl
    · simp at h
    · simp at h
  | map m => simp [transformKeyValue] at h; subst h; rfl
  | _ => simp [transformKeyValue] at h

theorem transform_eq_leafA (ign : Bool) (p : TPath) (w : Val) (hr : recursesOnMap (H p) = false) :
    transform ign p w = leaf (H p) ign w := by
  have hne : H p ≠ none := by intro h; rw [h, recursesOnMap_none] at hr; cases hr
  cases w <;> simp [transform, hr, hne]


theorem leaf_idemA (ign : Bool) (h : Option String) (hr : recursesOnMap h = false) (v w : Val)
    (hl : leaf h ign v = .ok w) : leaf h ign w = .ok w := by
  cases h with
  | none => rw [recursesOnMap_none] at hr; cases hr
  | some name =>
    simp only [leaf] at hl ⊢
    by_cases h1 : name = "transformService"
    · subst h1; exact absurd hr (by decide)
    by_cases h2 : name = "transformBuild"
    · subst h2; exact absurd hr (by decide)
    by_cases h3 : name = "transformExtends"
    · subst h3; exact absurd hr (by decide)
    by_cases h4 : name = "transformMaybeExternal"
    · subst h4; exact absurd hr (by decide)
    simp only [h1, h2, h3, h4, if_false] at hl ⊢
    by_cases c1 : name = "transformFileMount"
    · simp only [c1, if_true] at hl ⊢; exact transformFileMount_idem v w hl
    simp only [c1, if_false] at hl ⊢
    by_cases c2 : name = "transformKeyValue"
    · simp only [c2, if_true] at hl ⊢; exact transformKeyValue_idemA ign v w hl
    simp only [c2, if_false] at hl ⊢
    by_cases c3 : name = "transformDependsOn"
    · simp only [c3, if_true] at hl ⊢; exact transformDependsOn_idem v w hl
    simp only [c3, if_false] at hl ⊢
    by_cases c4 : name = "transformEnvFile"
    · simp only [c4, if_true] at hl ⊢; exact transformEnvFile_idem v w hl
    simp only [c4, if_false] at hl ⊢
    by_cases c5 : name = "transformServiceNetworks"
    · simp only [c5, if_true] at hl ⊢; exact transformServiceNetworks_idem v w hl
    simp only [c5, if_false] at hl ⊢
    by_cases c6 : name = "transformVolumeMount"
    · simp only [c6, if_true] at hl ⊢; exact transformVolumeMount_idemA ign v w hl
    simp only [c6, if_false] at hl ⊢
    by_cases c7 : name = "transformStringOrList"
    · simp only [c7, if_true] at hl ⊢; exact transformStringOrList_idem v w hl
    simp only [c7, if_false] at hl ⊢
    by_cases c8 : name = "transformDeviceMapping"
    · simp only [c8, if_true] at hl ⊢; exact transformDeviceMapping_idemA ign v w hl
    simp only [c8, if_false] at hl ⊢
    by_cases c9 : name = "transformPorts"
    · simp only [c9, if_true] at hl ⊢
      by_cases hw : w = v
      · rw [hw]; rw [hw] at hl; exact hl
      · exact transformPorts_idem ign ign v w hl hw
    simp only [c9, if_false] at hl ⊢
    by_cases c10 : name = "transformSSH"
    · simp only [c10, if_true] at hl ⊢; exact transformSSH_idem v w hl
    simp only [c10, if_false] at hl ⊢
    by_cases c11 : name = "transformUlimits"
    · simp only [c11, if_true] at hl ⊢; exact transformUlimits_idem v w hl
    simp only [c11, if_false] at hl ⊢
    by_cases c12 : name = "transformInclude"
    · simp only [c12, if_true] at hl ⊢; exact transformInclude_idem v w hl
    simp only [c12, if_false] at hl ⊢
    cases hl



mutual
theorem id_belowA (ign : Bool) : ∀ (v : Val) (q : TPath), Below q → transform ign q v = .ok v
  | .map m, q, hq => by
    have hk := id_below_kvsA ign m q hq
    simp [transform, H_below q hq, recursesOnMap, hk, bindOut, postMap]
  | .seq l, q, hq => by
    have hs := id_below_seqA ign l q hq
    simp [transform, H_below q hq, hs, bindOut]
  | .null, q, hq => by simp [transform, H_below q hq, leaf]
  | .bool _, q, hq => by simp [transform, H_below q hq, leaf]
  | .int _, q, hq => by simp [transform, H_below q hq, leaf]
  | .float _, q, hq => by simp [transform, H_below q hq, leaf]
  | .str _, q, hq => by simp [transform, H_below q hq, leaf]
theorem id_below_kvsA (ign : Bool) : ∀ (m : Val.KVs) (q : TPath), Below q → transformKVs ign q m = .ok m
  | [], _, _ => by simp [transformKVs]
  | (k, e) :: r, q, hq => by
    have h1 := id_belowA ign e (TPath.nextK q k) (below_next q hq k)
    have h2 := id_below_kvsA ign r q hq
    simp [transformKVs, h1, h2]
theorem id_below_seqA (ign : Bool) : ∀ (l : List Val) (q : TPath), Below q → transformSeq ign q l = .ok l
  | [], _, _ => by simp [transformSeq]
  | e :: r, q, hq => by
    have h1 := id_belowA ign e (TPath.nextK q "[]") (below_next q hq "[]")
    have h2 := id_below_seqA ign r q hq
    simp [transformSeq, h1, h2]
end



theorem build_context_fixA (ign : Bool) (n s : String) :
    transformKVs ign ["services", n, "build"] [("context", .str s)] = .ok [("context", .str s)] := by
  have hne : ["services", n, "build"] ≠ TPath.root := by simp [TPath.root]
  simp [transformKVs, TPath.nextK_of_ne_root _ _ hne, ofList_context, transform, TPath.firstMatch, CV.Gen.transformers,
    TPath.pmatch, leaf]

theorem extends_service_fixA (ign : Bool) (n s : String) :
    transformKVs ign ["services", n, "extends"] [("service", .str s)] = .ok [("service", .str s)] := by
  have hne : ["services", n, "extends"] ≠ TPath.root := by simp [TPath.root]
  simp [transformKVs, TPath.nextK_of_ne_root _ _ hne, ofList_service, transform, TPath.firstMatch, CV.Gen.transformers,
    TPath.pmatch, leaf]

theorem resource_kvs_idA (ign : Bool) (a n : String) (ha : IsResource a) (m : Val.KVs) : transformKVs ign [a, n] m = .ok m := by
  have hne : [a, n] ≠ TPath.root := by simp [TPath.root]
  induction m with
  | nil => simp [transformKVs]
  | cons x r ih =>
    obtain ⟨k, e⟩ := x
    have hb : Below (TPath.nextK [a, n] k) := by
      rw [TPath.nextK_of_ne_root _ _ hne]
      exact ⟨a, n, _, [], rfl, ha⟩
    simp [transformKVs, id_belowA ign e _ hb, ih]


theorem idem_leafcaseA (ign : Bool) (p : TPath) (v w : Val) (hself : transform ign p v = leaf (H p) ign v)
    (hl : leaf (H p) ign v = .ok w) : transform ign p w = .ok w := by
  by_cases hr : recursesOnMap (H p) = true
  · cases hH : H p with
    | none =>
      rw [hH] at hl
      simp only [leaf, Out.ok.injEq] at hl
      subst hl; rw [hself, hH]; rfl
    | some name =>
      rw [hH] at hr hl
      rcases recursing_names name hr with hn | hn | hn | hn <;> subst hn
      · simp only [leaf, if_true, Out.ok.injEq] at hl
        subst hl; rw [hself, hH]; simp [leaf]
      · obtain ⟨n, hp⟩ := H_build p hH
        cases v with
        | str s =>
          simp [leaf] at hl
          subst hl; subst hp
          simp [transform, hH, recursesOnMap, build_context_fixA, bindOut, postMap]
        | _ => simp [leaf] at hl
      · obtain ⟨n, hp⟩ := H_extends p hH
        cases v with
        | str s =>
          simp [leaf] at hl
          subst hl; subst hp
          simp [transform, hH, recursesOnMap, extends_service_fixA, bindOut, postMap]
        | _ => simp [leaf] at hl
      · cases v with
        | null =>
          simp [leaf] at hl
          subst hl; rw [hself, hH]; simp [leaf]
        | _ => simp [leaf] at hl
  · have hr' : recursesOnMap (H p) = false := by simpa using hr
    rw [transform_eq_leafA ign p _ hr']
    exact leaf_idemA ign _ hr' _ _ hl

mutual
theorem idem_TA (ign : Bool) : ∀ (v : Val) (p : TPath) (w : Val), transform ign p v = .ok w → transform ign p w = .ok w
  | .map m, p, w, h => by
    by_cases hr : recursesOnMap (H p) = true
    · simp only [transform, hr, if_true] at h
      cases hk : transformKVs ign p m with
      | ok r =>
        have hkr := idem_KA ign m p r hk
        simp only [hk, bindOut] at h
        by_cases he : H p = some "transformMaybeExternal"
        · obtain ⟨a, n, hp, ha⟩ := H_external p he
          simp only [postMap, he, if_true] at h
          cases hx : externalFix r with
          | ok r' =>
            simp only [hx, bindOut, Out.ok.injEq] at h
            subst h
            have h2 := resource_kvs_idA ign a n ha r'
            rw [← hp] at h2
            have hr2 : recursesOnMap (some "transformMaybeExternal") = true := by decide
            simp [transform, hr2, h2, bindOut, postMap, he, externalFix_fix r r' hx]
          | err x => simp [hx, bindOut] at h
          | panic x => simp [hx, bindOut] at h
        · simp only [postMap, he, if_false, Out.ok.injEq] at h
          subst h
          simp [transform, hr, hkr, bindOut, postMap, he]
      | err x => simp [hk, bindOut] at h
      | panic x => simp [hk, bindOut] at h
    · have hr' : recursesOnMap (H p) = false := by simpa using hr
      rw [transform_eq_leafA ign p _ hr'] at h ⊢
      exact leaf_idemA ign _ hr' _ _ h
  | .seq l, p, w, h => by
    by_cases hn : H p = none
    · simp only [transform, hn, if_true] at h
      cases hs : transformSeq ign p l with
      | ok r =>
        have hsr := idem_SA ign l p r hs
        simp only [hs, bindOut, Out.ok.injEq] at h
        subst h
        simp [transform, hn, hsr, bindOut]
      | err x => simp [hs, bindOut] at h
      | panic x => simp [hs, bindOut] at h
    · have hself : transform ign p (.seq l) = leaf (H p) ign (.seq l) := by simp [transform, hn]
      exact idem_leafcaseA ign p _ w hself (hself ▸ h)
  | .null, p, w, h => idem_leafcaseA ign p .null w (by simp [transform]) (by simpa [transform] using h)
  | .bool b, p, w, h => idem_leafcaseA ign p (.bool b) w (by simp [transform]) (by simpa [transform] using h)
  | .int i, p, w, h => idem_leafcaseA ign p (.int i) w (by simp [transform]) (by simpa [transform] using h)
  | .float f, p, w, h => idem_leafcaseA ign p (.float f) w (by simp [transform]) (by simpa [transform] using h)
  | .str s, p, w, h => idem_leafcaseA ign p (.str s) w (by simp [transform]) (by simpa [transform] using h)
theorem idem_KA (ign : Bool) : ∀ (m : Val.KVs) (p : TPath) (r : Val.KVs), transformKVs ign p m = .ok r → transformKVs ign p r = .ok r
  | [], _, r, h => by simp [transformKVs] at h; subst h; simp [transformKVs]
  | (k, e) :: t, p, r, h => by
    simp only [transformKVs] at h
    cases he : transform ign (TPath.nextK p k) e with
    | ok e' =>
      cases ht : transformKVs ign p t with
      | ok t' =>
        simp only [he, ht, Out.ok.injEq] at h
        subst h
        simp [transformKVs, idem_TA ign e _ e' he, idem_KA ign t p t' ht]
      | err x => simp [he, ht] at h
      | panic x => simp [he, ht] at h
    | err x => simp [he] at h
    | panic x => simp [he] at h
theorem idem_SA (ign : Bool) : ∀ (l : List Val) (p : TPath) (r : List Val), transformSeq ign p l = .ok r → transformSeq ign p r = .ok r
  | [], _, r, h => by simp [transformSeq] at h; subst h; simp [transformSeq]
  | e :: t, p, r, h => by
    simp only [transformSeq] at h
    cases he : transform ign (TPath.nextK p "[]") e with
    | ok e' =>
      cases ht : transformSeq ign p t with
      | ok t' =>
        simp only [he, ht, Out.ok.injEq] at h
        subst h
        simp [transformSeq, idem_TA ign e _ e' he, idem_SA ign t p t' ht]
      | err x => simp [he, ht] at h
      | panic x => simp [he, ht] at h
    | err x => simp [he] at h
    | panic x => simp [he] at h
end


end CV.Short
