import ComposeVerif.Model.ExtendsMerge
import ComposeVerif.Props.C04
/-! the real merge step never panics (C04's `extendService_never_panics`), so neither does `mergeExtend` -/
namespace CV.Extends
open CV CV.Val

theorem ruleAt_services_x : CV.Merge.ruleAt ["services", "x"] = none := by decide

theorem mergeYaml_succ (n : Nat) (e o : Val) (p : TPath) :
    CV.Merge.mergeYaml (n + 1) e o p = CV.Merge.mergeStep (CV.Merge.mergeKVsWith (CV.Merge.mergeYaml n)) e o p := rfl

/-- `ExtendService` of two mappings, when it succeeds, yields a mapping (the `yaml.(map[string]any)` assertion holds) -/
theorem extendService_ok_is_map (b o : KVs) (v : Val)
    (h : CV.Merge.extendService (.map b) (.map o) = .ok v) : ∃ m, v = .map m := by
  unfold CV.Merge.extendService at h
  simp only [CV.Merge.fuelFor] at h
  rw [show CV.Merge.depth (Val.map o) + 8 = (CV.Merge.depth (Val.map o) + 7) + 1 from rfl, mergeYaml_succ] at h
  generalize CV.Merge.mergeKVsWith (CV.Merge.mergeYaml (CV.Merge.depth (Val.map o) + 7)) = mk at h
  simp only [CV.Merge.mergeStep, ruleAt_services_x, CV.Merge.defaultStep] at h
  cases hk : mk b o ["services", "x"] with
  | ok m => rw [hk] at h; simp only [CV.Merge.Out.bind, CV.Merge.Out.ok.injEq] at h; exact ⟨m, h.symm⟩
  | err e => rw [hk] at h; simp [CV.Merge.Out.bind] at h
  | panic s => rw [hk] at h; simp [CV.Merge.Out.bind] at h

theorem mergeExtend_never_panics (b o : KVs) (s : String) : mergeExtend b o ≠ .panic s := by
  unfold mergeExtend
  split
  · simp
  · rename_i v hnm hv
    obtain ⟨m, hm⟩ := extendService_ok_is_map b o _ hv
    exact absurd hm (hnm m)
  · simp
  · rename_i s' hp
    exact absurd hp (CV.C04.extendService_never_panics _ _ s')

end CV.Extends
