import ComposeVerif.Lemmas.DotenvParam
/-!
# C18 round 5 — `SubstCommutes`: the C07 template model cannot observe a renaming of generic code points either

Discharges the hypothesis of `parse_map`: for every `Renaming φ`, `Template.subst` commutes with `List.map φ`
(text, environment answers, the strings inside a `required` error).  Function by function: the name classes,
`spanName`, `lastCloseLen`, `matchBraced`, `matchDollar`, `firstCloseGo`, `selectOp`, `applyOp`, and the mutual
fuel recursion `scan` / `repl` (one induction on the fuel for both).
-/
namespace CV.Dotenv
open CV CV.Template

/-! ### literal patterns as tests (no renaming involved) -/

def braceTail (n r : Str) : Str → M × Str × Str
  | [] => (.invalid, [], r)
  | x :: r3 =>
    if x == '}' then (.braced n, n ++ ['}'], r3)
    else if x == ':' then
      match r3 with
      | [] => (.invalid, [], r)
      | o :: r4 =>
        if isOpChar o then
          match lastCloseLen r4 with
          | some k => (.braced (n ++ ':' :: o :: (r4.take (k - 1))), n ++ ':' :: o :: r4.take k, r4.drop k)
          | none => (.invalid, [], r)
        else (.invalid, [], r)
    else if isOpChar x then
      match lastCloseLen r3 with
      | some k => (.braced (n ++ x :: (r3.take (k - 1))), n ++ x :: r3.take k, r3.drop k)
      | none => (.invalid, [], r)
    else (.invalid, [], r)

theorem matchBraced_cons (c : Char) (t : Str) :
    matchBraced (c :: t) =
      if isNameStart c then braceTail (spanName (c :: t)).1 (c :: t) (spanName (c :: t)).2 else (.invalid, [], c :: t) := by
  unfold matchBraced
  simp only
  split
  · generalize (spanName (c :: t)).2 = r2
    generalize (spanName (c :: t)).1 = n
    unfold braceTail
    split
    · simp
    · rename_i o r3
      simp
      cases isOpChar o <;> cases lastCloseLen r3 <;> rfl
    · rename_i o r3 h1 h2
      have hx1 : (o == '}') = false := by
        cases hh : o == '}'
        · rfl
        · rw [beq_iff_eq] at hh; exact (h1 hh).elim
      simp only [hx1, Bool.false_eq_true, if_false]
      by_cases hx2 : o = ':'
      · subst hx2
        cases r3 with
        | nil => simp [isOpChar]
        | cons o2 r4 => exact (h2 o2 r4 rfl rfl).elim
      · have : (o == ':') = false := by simpa using hx2
        simp only [this, Bool.false_eq_true, if_false]
        cases isOpChar o <;> cases lastCloseLen r3 <;> rfl
    · rfl
  · rfl

theorem matchDollar_cons (d : Char) (t : Str) :
    matchDollar (d :: t) =
      if d == '$' then
        match t with
        | [] => none
        | c :: r =>
          if c == '$' then some (.escaped, ['$', '$'], r)
          else if c == '{' then some ((matchBraced r).1, '$' :: '{' :: (matchBraced r).2.1, (matchBraced r).2.2)
          else if isNameStart c then some (.named (spanName (c :: r)).1, '$' :: (spanName (c :: r)).1, (spanName (c :: r)).2)
          else none
      else none := by
  by_cases hd : d = '$'
  · subst hd
    simp only [beq_self_eq_true, if_true]
    cases t with
    | nil => rfl
    | cons c r =>
      by_cases h1 : c = '$'
      · subst h1; rfl
      · by_cases h2 : c = '{'
        · subst h2; rfl
        · have e1 : (c == '$') = false := by simpa using h1
          have e2 : (c == '{') = false := by simpa using h2
          simp only [e1, e2, Bool.false_eq_true, if_false]
          unfold matchDollar
          split
          · rename_i heq; cases heq; exact absurd rfl h1
          · rename_i heq; cases heq; exact absurd rfl h2
          · rename_i heq; cases heq; rfl
          · simp_all
  · have e : (d == '$') = false := by simpa using hd
    simp only [e, Bool.false_eq_true, if_false]
    unfold matchDollar
    split
    · rename_i heq; cases heq; exact absurd rfl hd
    · rename_i heq; cases heq; exact absurd rfl hd
    · rename_i heq; cases heq; exact absurd rfl hd
    · rfl

theorem firstCloseGo_cons (c : Char) (cs : Str) (i : Nat) (o : Int) :
    firstCloseGo (c :: cs) i o =
      if c == '}' then (if o - 1 == 0 then some i else firstCloseGo cs (i + 1) (o - 1))
      else if c == '{' then firstCloseGo cs (i + 1) (o + 1)
      else firstCloseGo cs (i + 1) o := by
  by_cases h1 : c = '}'
  · subst h1; simp [firstCloseGo]
  · by_cases h2 : c = '{'
    · subst h2; simp [firstCloseGo]
    · have e1 : (c == '}') = false := by simpa using h1
      have e2 : (c == '{') = false := by simpa using h2
      simp only [e1, e2, Bool.false_eq_true, if_false]
      conv => lhs; unfold firstCloseGo
      split
      · rename_i heq; cases heq
      · rename_i heq; cases heq; exact absurd rfl h1
      · rename_i heq; cases heq; exact absurd rfl h2
      · rename_i heq; cases heq; rfl

/-! ### renamings -/

def M.ren (φ : Char → Char) : M → M
  | .escaped => .escaped
  | .named n => .named (n.map φ)
  | .braced b => .braced (b.map φ)
  | .invalid => .invalid

theorem isAlphaFold_special {c : Char} (h : isAlphaFold c = true) : special c = true := by
  simp only [isAlphaFold, Bool.or_eq_true, beq_iff_eq] at h
  rcases h with (h | h) | h
  · exact isAlphanum_special (by simp [Char.isAlphanum, h])
  · rw [h]; decide
  · rw [h]; decide

theorem isNameChar_special {c : Char} (h : isNameChar c = true) : special c = true := by
  simp only [isNameChar, Bool.or_eq_true, beq_iff_eq] at h
  rcases h with (h | h) | h
  · rw [h]; decide
  · exact isAlphaFold_special h
  · exact isDigit_special h

theorem isNameStart_special {c : Char} (h : isNameStart c = true) : special c = true := by
  simp only [isNameStart, Bool.or_eq_true, beq_iff_eq] at h
  rcases h with h | h
  · rw [h]; decide
  · exact isAlphaFold_special h

theorem isOpChar_special {c : Char} (h : isOpChar c = true) : special c = true := by
  simp only [isOpChar, Bool.or_eq_true, beq_iff_eq] at h
  rcases h with (h | h) | h <;> (rw [h]; decide)

section
variable {φ : Char → Char} (R : Renaming φ)
include R

theorem isNameChar_map (c : Char) : isNameChar (φ c) = isNameChar c := R.pres _ (fun _ h => isNameChar_special h) c
theorem isNameStart_map (c : Char) : isNameStart (φ c) = isNameStart c := R.pres _ (fun _ h => isNameStart_special h) c
theorem isOpChar_map (c : Char) : isOpChar (φ c) = isOpChar c := R.pres _ (fun _ h => isOpChar_special h) c

theorem spanName_map : ∀ s : Str, spanName (s.map φ) = ((spanName s).1.map φ, (spanName s).2.map φ)
  | [] => rfl
  | c :: cs => by
    simp only [List.map_cons, spanName, isNameChar_map R]
    split
    · rw [spanName_map cs]; rfl
    · rfl

theorem lastCloseLen_map (s : Str) : lastCloseLen (s.map φ) = lastCloseLen s := by
  unfold lastCloseLen
  have hnl : ∀ c, (φ c != '\n') = (c != '\n') := fun c => by simp only [bne, R.lit '\n' (by decide) c]
  have hcl : ∀ c, (φ c != '}') = (c != '}') := fun c => by simp only [bne, R.lit '}' (by decide) c]
  rw [takeWhile_map R (· != '\n') hnl, ← List.map_reverse, dropWhile_map R (· != '}') hcl]
  cases ((s.takeWhile (· != '\n')).reverse.dropWhile (· != '}')) with
  | nil => rfl
  | cons a b => simp

theorem braceTail_map (n r r2 : Str) :
    braceTail (n.map φ) (r.map φ) (r2.map φ) =
      (M.ren φ (braceTail n r r2).1, (braceTail n r r2).2.1.map φ, (braceTail n r r2).2.2.map φ) := by
  cases r2 with
  | nil => rfl
  | cons x r3 =>
    simp only [List.map_cons, braceTail, R.lit '}' (by decide) x, R.lit ':' (by decide) x, isOpChar_map R]
    have hcb : φ '}' = '}' := R.fix _ (by decide)
    have hco : φ ':' = ':' := R.fix _ (by decide)
    split
    · simp [M.ren, hcb]
    · split
      · cases r3 with
        | nil => rfl
        | cons o r4 =>
          simp only [List.map_cons, isOpChar_map R, lastCloseLen_map R]
          split
          · cases lastCloseLen r4 with
            | none => rfl
            | some k => simp [M.ren, hco, List.map_take, List.map_drop]
          · rfl
      · split
        · simp only [lastCloseLen_map R]
          cases lastCloseLen r3 with
          | none => rfl
          | some k => simp [M.ren, List.map_take, List.map_drop]
        · rfl

theorem matchBraced_map (r : Str) :
    matchBraced (r.map φ) = (M.ren φ (matchBraced r).1, (matchBraced r).2.1.map φ, (matchBraced r).2.2.map φ) := by
  cases r with
  | nil => rfl
  | cons c t =>
    rw [List.map_cons, matchBraced_cons, matchBraced_cons, isNameStart_map R, ← List.map_cons, spanName_map R]
    split
    · exact braceTail_map R _ _ _
    · rfl

def MRes.ren (φ : Char → Char) (x : M × Str × Str) : M × Str × Str := (M.ren φ x.1, x.2.1.map φ, x.2.2.map φ)

theorem matchDollar_map (s : Str) : matchDollar (s.map φ) = (matchDollar s).map (MRes.ren φ) := by
  cases s with
  | nil => rfl
  | cons d t =>
    rw [List.map_cons, matchDollar_cons, matchDollar_cons, R.lit '$' (by decide) d]
    have hd : φ '$' = '$' := R.fix _ (by decide)
    have hb : φ '{' = '{' := R.fix _ (by decide)
    split
    · cases t with
      | nil => rfl
      | cons c r =>
        simp only [List.map_cons, R.lit '$' (by decide) c, R.lit '{' (by decide) c, isNameStart_map R]
        split
        · simp [MRes.ren, M.ren, hd]
        · split
          · rw [matchBraced_map R]
            simp [MRes.ren, hd, hb]
          · split
            · rw [← List.map_cons, spanName_map R]
              simp [MRes.ren, M.ren, hd]
            · rfl
    · rfl

theorem firstCloseGo_map : ∀ (s : Str) (i : Nat) (o : Int), firstCloseGo (s.map φ) i o = firstCloseGo s i o
  | [], _, _ => rfl
  | c :: cs, i, o => by
    rw [List.map_cons, firstCloseGo_cons, firstCloseGo_cons, R.lit '}' (by decide) c, R.lit '{' (by decide) c,
      firstCloseGo_map cs, firstCloseGo_map cs, firstCloseGo_map cs]

theorem firstClose_map (s : Str) : firstClose (s.map φ) = firstClose s := firstCloseGo_map R s 0 0

omit R in
theorem opStr_special (o : Op) : ∀ c ∈ o.str, special c = true := by
  cases o <;> decide

theorem indexOf_op_map (o : Op) (s : Str) : indexOf o.str (s.map φ) = indexOf o.str s :=
  indexOfGo_map R o.str (opStr_special o) s 0

theorem selectOp_map (s : Str) : selectOp (s.map φ) = selectOp s := by
  unfold selectOp opTable
  simp only [List.foldl, pickEarlier, indexOf_op_map R]

theorem containsStr_op_map (o : Op) (s : Str) : containsStr o.str (s.map φ) = containsStr o.str s := by
  unfold containsStr
  rw [indexOf_op_map R]

omit R in
theorem applyOp_ren (op : Op) (name : Str) (v : Option Str) (d : Str) :
    applyOp op (name.map φ) (v.map (List.map φ)) (d.map φ) = Out.ren φ (applyOp op name v d) := by
  cases op <;> cases v <;> simp [applyOp, Out.ren, Err.ren] <;> split <;> simp [Out.ren, Err.ren]

omit R in
theorem getD_map (v : Option Str) : (v.map (List.map φ)).getD [] = (v.getD []).map φ := by
  cases v <;> rfl

omit R in
theorem ren_ok (s : Str) : Out.ren φ (.ok s) = .ok (s.map φ) := rfl
omit R in
theorem ren_err (e : Template.Err) : Out.ren φ (.err e) = .err (Err.ren φ e) := rfl
omit R in
theorem ren_panic (p : PanicSite) : Out.ren φ (.panic p) = .panic p := rfl

end

/-- the body of `repl` after `op`, `sub`, `rest` have been computed, with the recursive `scan` as a parameter -/
def replBody (scanf : Str → Out) (env : Env) (op : Op) (sub rest : Str) : Out :=
  match matchDollar sub with
  | none => .panic .matchGroups
  | some (.escaped, _, _) => .ok ['$']
  | some (.invalid, _, _) => .err .invalid
  | some (.named n, _, _) => .ok ((env n).getD [])
  | some (.braced body, _, _) =>
    if containsStr op.str body then
      match scanf (cut op.str body).2 with
      | .panic p => .panic p
      | .err e => .err e
      | .ok d =>
        match applyOp op (cut op.str body).1 (env (cut op.str body).1) d with
        | .ok x =>
          match scanf rest with
          | .ok r => .ok (x ++ r)
          | o => o
        | o => o
    else .ok ((env body).getD [])

theorem repl_succ (f : Nat) (env : Env) (m : Str) :
    repl (f + 1) env m = replBody (fun s => scan f env s [] none) env (selectOp m)
      (match firstClose m with | some i => m.take (i + 1) | none => m)
      (match firstClose m with | some i => m.drop (i + 1) | none => []) := by
  rw [repl]
  rfl

section
variable {φ : Char → Char} (R : Renaming φ)
include R

theorem replBody_map {env env' : Env} (h : EnvRel φ env env') (sf sf' : Str → Out)
    (hs : ∀ s, sf' (s.map φ) = Out.ren φ (sf s)) (op : Op) (sub rest : Str) :
    replBody sf' env' op (sub.map φ) (rest.map φ) = Out.ren φ (replBody sf env op sub rest) := by
  unfold replBody
  rw [matchDollar_map R]
  cases matchDollar sub with
  | none => rfl
  | some x =>
    obtain ⟨k, mm, rr⟩ := x
    cases k with
    | escaped => simp [MRes.ren, M.ren, Out.ren, R.fix '$' (by decide)]
    | invalid => simp [MRes.ren, M.ren, Out.ren, Err.ren]
    | named n =>
      simp only [Option.map_some, MRes.ren, M.ren]
      rw [h n, getD_map, ren_ok]
    | braced body =>
      simp only [Option.map_some, MRes.ren, M.ren]
      rw [containsStr_op_map R]
      split
      · rw [cut_map R _ (opStr_special _)]
        simp only
        rw [hs]
        cases sf (cut op.str body).2 with
        | panic p => rfl
        | err e => rfl
        | ok d =>
          simp only [ren_ok]
          rw [h (cut op.str body).1, applyOp_ren]
          cases applyOp op (cut op.str body).1 (env (cut op.str body).1) d with
          | ok x =>
            simp only [ren_ok]
            rw [hs]
            cases sf rest with
            | ok r => simp [ren_ok]
            | err e => rfl
            | panic p => rfl
          | err e => rfl
          | panic p => rfl
      · rw [h body, getD_map, ren_ok]

/-- the mutual fuel recursion: one induction for both functions -/
theorem scan_repl_map {env env' : Env} (h : EnvRel φ env env') : ∀ f : Nat,
    (∀ (s acc : Str) (fe : Option Template.Err),
      scan f env' (s.map φ) (acc.map φ) (fe.map (Err.ren φ)) = Out.ren φ (scan f env s acc fe)) ∧
    (∀ m : Str, repl f env' (m.map φ) = Out.ren φ (repl f env m))
  | 0 => ⟨fun _ _ _ => by simp [scan, Out.ren], fun _ => by simp [repl, Out.ren]⟩
  | f + 1 => by
    obtain ⟨ihS, ihR⟩ := scan_repl_map h f
    constructor
    · intro s acc fe
      cases s with
      | nil =>
        simp only [List.map_nil, scan]
        cases fe <;> rfl
      | cons c cs =>
        rw [List.map_cons]
        unfold scan
        simp only [R.lit '$' (by decide) c]
        split
        · rw [← List.map_cons, matchDollar_map R]
          cases matchDollar (c :: cs) with
          | none =>
            simp only [Option.map_none]
            have := ihS cs (acc ++ [c]) fe
            simpa using this
          | some x =>
            obtain ⟨k, m, rest⟩ := x
            simp only [Option.map_some, MRes.ren]
            rw [ihR m]
            cases repl f env m with
            | ok v =>
              simp only [ren_ok]
              have := ihS rest (acc ++ v) fe
              rw [List.map_append] at this
              exact this
            | err e =>
              simp only [ren_err]
              cases fe with
              | none =>
                have := ihS rest acc (some e)
                simpa using this
              | some e0 =>
                have := ihS rest acc (some e0)
                simpa using this
            | panic p => rfl
        · have := ihS cs (acc ++ [c]) fe
          simpa using this
    · intro m
      rw [repl_succ, repl_succ, selectOp_map R, firstClose_map R]
      have key := replBody_map R h (fun s => scan f env s [] none) (fun s => scan f env' s [] none)
        (fun s => by have := ihS s [] none; simpa using this) (selectOp m)
      cases firstClose m with
      | none =>
        have := key m []
        simpa using this
      | some i =>
        have := key (m.take (i + 1)) (m.drop (i + 1))
        simpa [List.map_take, List.map_drop] using this

theorem substCommutes : SubstCommutes φ := by
  intro env env' h v
  unfold subst fuelFor
  rw [List.length_map]
  have := (scan_repl_map R h (2 * v.length + 4)).1 v [] none
  simpa using this

/-! ### several files -/

omit R in
theorem stripBOM_cons (c : Char) (r : Str) : stripBOM (c :: r) = if c = '\uFEFF' then r else c :: r := by
  by_cases hc : c = '\uFEFF'
  · rw [hc]; rfl
  · rw [if_neg hc]
    unfold stripBOM
    split
    · rename_i heq; cases heq; exact absurd rfl hc
    · rfl

theorem stripBOM_map (s : Str) : stripBOM (s.map φ) = (stripBOM s).map φ := by
  cases s with
  | nil => rfl
  | cons c r =>
    rw [List.map_cons, stripBOM_cons, stripBOM_cons]
    have := R.lit '\uFEFF' (by decide) c
    by_cases hc : c = '\uFEFF'
    · rw [hc, R.fix '\uFEFF' (by decide)]; simp
    · have hc' : ¬ φ c = '\uFEFF' := by
        intro e
        rw [e] at this
        simp at this
        exact hc this
      rw [if_neg hc, if_neg hc', List.map_cons]

theorem mergeInto_ren : ∀ (env m : Map), mergeInto (Map.ren φ m) (Map.ren φ env) = Map.ren φ (mergeInto m env)
  | [], _ => rfl
  | (k, v) :: env, m => by
    simp only [Map.ren, List.map_cons, mergeInto]
    have := put_ren R m k v
    simp only [Map.ren] at this
    rw [this]
    exact mergeInto_ren env (put m k v)

theorem fromFiles_map' (hT : SubstCommutes φ) {cur cur' : Env} (h : EnvRel φ cur cur') : ∀ (fs : List Str) (m : Map),
    fromFiles cur' (fs.map (List.map φ)) (Map.ren φ m) = POut.ren φ (fromFiles cur fs m)
  | [], _ => rfl
  | f :: fs, m => by
    simp only [List.map_cons, fromFiles]
    rw [stripBOM_map R, parse_map R hT (envOf_rel R h m)]
    cases parse (stripBOM f) (envOf cur m) with
    | ok env =>
      simp only [POut.ren]
      rw [mergeInto_ren R]
      exact fromFiles_map' hT h fs _
    | err e pm => rfl
    | panic s => rfl

theorem parse_map_all {lk lk' : Env} (h : EnvRel φ lk lk') (s : Str) : parse (s.map φ) lk' = POut.ren φ (parse s lk) :=
  parse_map R (substCommutes R) h s

theorem fromFiles_map {cur cur' : Env} (h : EnvRel φ cur cur') (fs : List Str) (m : Map) :
    fromFiles cur' (fs.map (List.map φ)) (Map.ren φ m) = POut.ren φ (fromFiles cur fs m) :=
  fromFiles_map' R (substCommutes R) h fs m

end

end CV.Dotenv
