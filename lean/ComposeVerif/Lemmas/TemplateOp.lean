import ComposeVerif.Lemmas.TemplateSplit
/-!
# The operator segment: `run_op`

`run env ("${" ++ n ++ op ++ a ++ "}" ++ X) = seq (opOut env n op (run env a)) (run env X)` for every
continuation `X`, when `a` is newline-free and brace-balanced (`Neutral`).  The greedy match may
extend beyond the closing brace up to the last `}` of the line; `repl` handles that tail by a nested
scan and `run_split` shows the two scans compose to the scan of `X`.
-/
namespace CV.Template

/-- decomposition of the text after an operator argument at the end of the greedy match -/
theorem lastCloseLen_arg (a X : Str) (ha : noNL a) :
    ∃ Y Z, X = Y ++ Z ∧ noNL Y ∧ EndsClose Y ∧ lastCloseLen Z = none ∧
      lastCloseLen (a ++ '}' :: X) = some (a.length + 1 + Y.length) := by
  rcases lastCloseLen_cases X with h | ⟨Y', Z, hX, hY, hZ, _⟩
  · exact ⟨[], X, rfl, (by intro c hc; cases hc), Or.inl rfl, h, by rw [lastCloseLen_close a X ha h]; simp⟩
  · refine ⟨Y' ++ ['}'], Z, by simp [hX], ?_, Or.inr ⟨Y', rfl⟩, hZ, ?_⟩
    · intro c hc
      simp at hc
      rcases hc with hc | rfl
      · exact hY c hc
      · decide
    · have hnl : noNL (a ++ '}' :: Y') := by
        intro c hc
        simp at hc
        rcases hc with hc | rfl | hc
        · exact ha c hc
        · decide
        · exact hY c hc
      have := lastCloseLen_close (a ++ '}' :: Y') Z hnl hZ
      rw [hX]
      simp only [List.append_assoc, List.cons_append] at this
      rw [this]; simp; omega

/-- what one `${NAME op arg}` contributes, given the outcome of the argument -/
def opOut (env : Env) (n : Str) (o : Op) (r : Out) : Out :=
  match r with
  | .panic p => .panic p
  | .err e => .err e
  | .ok d => applyOp o n (env n) d

theorem noOpChar_name {n : Str} (hall : ∀ x ∈ n, isNameChar x = true) :
    ∀ c ∈ n, c ≠ ':' ∧ c ≠ '-' ∧ c ≠ '+' ∧ c ≠ '?' := by
  intro c hc
  have := not_nameChar_special (hall c hc)
  exact ⟨this.2.2.2.1, this.2.2.2.2.1, this.2.2.2.2.2.1, this.2.2.2.2.2.2.1⟩

theorem noBrace_op (o : Op) : NoBrace o.str := by
  cases o <;> (intro c hc; simp [Op.str] at hc) <;> (try rcases hc with rfl | rfl) <;> (try subst hc) <;> decide

theorem rrepl_op (env : Env) (n : Str) (o : Op) (a Y : Str) (hn : validName n = true)
    (ha_nl : noNL a) (ha : Neutral a) :
    rrepl env ('$' :: '{' :: (n ++ (o.str ++ (a ++ '}' :: Y)))) =
      match opOut env n o (run env a) with
      | .ok x => seq (.ok x) (run env Y)
      | r => r := by
  obtain ⟨c, cs, rfl, hc, hall⟩ := validName_cases hn
  have hcs : ∀ x ∈ cs, isNameChar x = true := fun x hx => hall x (List.mem_cons_of_mem _ hx)
  have hmid : NoBrace (cs ++ o.str) := by
    intro x hx
    rcases List.mem_append.1 hx with h | h
    · exact noBrace_name hcs x h
    · exact noBrace_op o x h
  have hsr := subOf_restOf_braces c (noBrace_name hall c (List.mem_cons_self ..)) (mid := cs ++ o.str) (a := a) Y hmid ha
  -- selectOp
  have hsel : selectOp ('$' :: '{' :: (c :: cs ++ (o.str ++ (a ++ '}' :: Y)))) = o := by
    have := selectOp_render ('$' :: '{' :: c :: cs) o (a ++ '}' :: Y) (by
      intro x hx
      simp only [List.mem_cons] at hx
      rcases hx with rfl | rfl | hx
      · decide
      · decide
      · exact noOpChar_name hall x (by simpa using hx))
    simpa using this
  -- the re-match of the truncated text
  have hm := matchDollar_brace ((c :: cs) ++ (o.str ++ (a ++ ['}'])))
  rw [matchBraced_op (c :: cs) o (a ++ ['}']) hn] at hm
  have hlc : lastCloseLen (a ++ ['}']) = some (a.length + 1) := lastCloseLen_close a [] ha_nl lastCloseLen_nil
  rw [hlc] at hm
  simp only [Nat.add_sub_cancel, take_append_len] at hm
  have hcut := cut_op_render (c :: cs) o a (noOpChar_name hall)
  rw [rrepl, replK]
  simp only [List.cons_append, List.append_assoc] at hsr hsel hm hcut ⊢
  rw [hsr.1, hsr.2, hm, hsel]
  simp only [hcut.1, hcut.2, if_true, opOut]
  cases run env a with
  | panic p => rfl
  | err e => rfl
  | ok d =>
    simp only
    cases applyOp o (c :: cs) (env (c :: cs)) d with
    | panic p => rfl
    | err e => rfl
    | ok x =>
      simp only [seq]
      cases run env Y <;> rfl

end CV.Template
namespace CV.Template

theorem run_op (env : Env) (n : Str) (o : Op) (a X : Str) (hn : validName n = true)
    (ha_nl : noNL a) (ha : Neutral a) :
    run env ('$' :: '{' :: (n ++ (o.str ++ (a ++ '}' :: X)))) = seq (opOut env n o (run env a)) (run env X) := by
  obtain ⟨Y, Z, hX, hY, hYe, hZ, hk⟩ := lastCloseLen_arg a X ha_nl
  have hm := matchDollar_brace (n ++ (o.str ++ (a ++ '}' :: X)))
  rw [matchBraced_op n o (a ++ '}' :: X) hn, hk] at hm
  have e : a ++ '}' :: X = (a ++ '}' :: Y) ++ Z := by simp [hX]
  have l : (a ++ '}' :: Y).length = a.length + 1 + Y.length := by simp; omega
  simp only at hm
  rw [e, ← l, take_append_len, drop_append_len] at hm
  rw [← e] at hm
  rw [run_dollar_some env _ hm, rrepl_op env n o a Y hn ha_nl ha]
  have hsplit := run_split env Z hZ Y.length Y (Nat.le_refl _) hY hYe
  cases hop : opOut env n o (run env a) with
  | panic p => simp [seq]
  | err e =>
    simp only
    rw [seq_err_of_ne_panic _ _ (run_ne_panic env Z), seq_err_of_ne_panic _ _ (run_ne_panic env X)]
  | ok x =>
    simp only
    rw [seq_assoc, ← hsplit, ← hX]

end CV.Template
