import ComposeVerif.Model.Pipeline
/-!
# Lemmas about the composed pipeline (`Model/Pipeline.lean`)

* the front end (`convertToStringKeysRecursive`, `fixEmptyNotNull`) is the identity on trees built from `Val`:
  the reason the composed pipeline can be stated on `Val`;
* where a panic of a monadic composition comes from.
-/
namespace CV.Pipeline
open CV CV.Val

/-! ## `convert` / `fixEmpty` on embedded trees -/

mutual
theorem convert_ofVal : ∀ v : Val, ∃ g, C01.convert (ofVal v) = .ok g ∧ toVal g = v ∧ toVal (C01.fixEmpty g) = v
  | .null => ⟨_, rfl, rfl, rfl⟩
  | .bool _ => ⟨_, rfl, rfl, rfl⟩
  | .int _ => ⟨_, rfl, rfl, rfl⟩
  | .float _ => ⟨_, rfl, rfl, rfl⟩
  | .str _ => ⟨_, rfl, rfl, rfl⟩
  | .seq xs => by
    obtain ⟨gs, h1, h2, h3⟩ := convertList_ofVals xs
    cases gs with
    | nil =>
      refine ⟨.nilseq, ?_, ?_, ?_⟩
      · simp only [ofVal, C01.convert, h1]; rfl
      · simp only [toVal, toVals] at h2 ⊢; rw [← h2]
      · simp only [C01.fixEmpty, toVal, toVals] at h2 ⊢; rw [← h2]
    | cons g gs =>
      refine ⟨.seq (g :: gs), ?_, ?_, ?_⟩
      · simp only [ofVal, C01.convert, h1]; rfl
      · simp only [toVal]; rw [h2]
      · simp only [C01.fixEmpty, toVal]; rw [h3]
  | .map kvs => by
    obtain ⟨gs, h1, h2, h3⟩ := convertKVs_ofKVs kvs
    refine ⟨.map gs, ?_, ?_, ?_⟩
    · simp only [ofVal, C01.convert, h1]; rfl
    · simp only [toVal]; rw [h2]
    · simp only [C01.fixEmpty, toVal]; rw [h3]
theorem convertList_ofVals : ∀ xs : List Val, ∃ gs, C01.convertList (ofVals xs) = .ok gs ∧ toVals gs = xs ∧ toVals (C01.fixEmptyList gs) = xs
  | [] => ⟨[], rfl, rfl, rfl⟩
  | v :: r => by
    obtain ⟨g, h1, h2, h3⟩ := convert_ofVal v
    obtain ⟨gs, k1, k2, k3⟩ := convertList_ofVals r
    refine ⟨g :: gs, ?_, ?_, ?_⟩
    · simp only [ofVals, C01.convertList, h1, k1]; rfl
    · simp only [toVals, h2, k2]
    · simp only [C01.fixEmptyList, toVals, h3, k3]
theorem convertKVs_ofKVs : ∀ kvs : List (String × Val), ∃ gs, C01.convertKVs (ofKVs kvs) = .ok gs ∧ toKVs gs = kvs ∧ toKVs (C01.fixEmptyKVs gs) = kvs
  | [] => ⟨[], rfl, rfl, rfl⟩
  | (k, v) :: r => by
    obtain ⟨g, h1, h2, h3⟩ := convert_ofVal v
    obtain ⟨gs, k1, k2, k3⟩ := convertKVs_ofKVs r
    refine ⟨(k, g) :: gs, ?_, ?_, ?_⟩
    · simp only [ofKVs, C01.convertKVs, h1, k1]; rfl
    · simp only [toKVs, h2, k2]
    · simp only [C01.fixEmptyKVs, toKVs, h3, k3]
end

/-! ## documents without `!reset` / `!override` tags: the YAML-text entry point is the tree entry point -/

open CV.Reset in
mutual
/-- no tag anywhere in the node -/
def untagged : Reset.YNode → Bool
  | .scalar .none _ => true
  | .seq .none xs => untaggedL xs
  | .map .none es => untaggedKV es
  | _ => false
def untaggedL : List Reset.YNode → Bool
  | [] => true
  | x :: r => untagged x && untaggedL r
def untaggedKV : List (String × Reset.YNode) → Bool
  | [] => true
  | (_, x) :: r => untagged x && untaggedKV r
end

open CV.Reset in
mutual
theorem resolve_untagged : ∀ (n : YNode) (p : TPath), untagged n = true → resolve n p = (some n, [])
  | .scalar t v, p, h => by
    cases t <;> simp [untagged] at h; simp [resolve]
  | .seq t xs, p, h => by
    cases t <;> simp [untagged] at h
    simp [resolve, resolveSeq_untagged xs p 0 h]
  | .map t es, p, h => by
    cases t <;> simp [untagged] at h
    simp [resolve, resolveMap_untagged es p h]
theorem resolveSeq_untagged : ∀ (xs : List YNode) (p : TPath) (i : Nat), untaggedL xs = true → resolveSeq xs p i = (xs, [])
  | [], _, _, _ => by simp [resolveSeq]
  | x :: r, p, i, h => by
    simp only [untaggedL, Bool.and_eq_true] at h
    simp [resolveSeq, resolve_untagged x _ h.1, resolveSeq_untagged r p (i + 1) h.2]
theorem resolveMap_untagged : ∀ (es : List (String × YNode)) (p : TPath), untaggedKV es = true → resolveMap es p = (es, [])
  | [], _, _ => by simp [resolveMap]
  | (k, x) :: r, p, h => by
    simp only [untaggedKV, Bool.and_eq_true] at h
    simp [resolveMap, resolve_untagged x _ h.1, resolveMap_untagged r p h.2]
end

theorem readDoc_untagged (n : Reset.YNode) (h : untagged n = true) : Reset.readDoc n = (Reset.decode n, []) := by
  simp [Reset.readDoc, resolve_untagged n _ h]

open CV.Reset in
mutual
theorem applyNull_nil : ∀ (v : Val) (p : TPath), applyNull [] v p = v
  | .null, _ => by simp [applyNull]
  | .bool _, _ => by simp [applyNull]
  | .int _, _ => by simp [applyNull]
  | .float _, _ => by simp [applyNull]
  | .str _, _ => by simp [applyNull]
  | .seq xs, p => by simp [applyNull, applySeq_nil xs p 0]
  | .map kvs, p => by simp [applyNull, applyKVs_nil kvs p]
theorem applyKVs_nil : ∀ (kvs : KVs) (p : TPath), applyKVs [] kvs p = kvs
  | [], _ => by simp [applyKVs]
  | (k, e) :: r, p => by simp [applyKVs, matchesAny, applyNull_nil e _, applyKVs_nil r p]
theorem applySeq_nil : ∀ (xs : List Val) (p : TPath) (i : Nat), applySeq [] xs p i = xs
  | [], _, _ => by simp [applySeq]
  | e :: r, p, i => by simp [applySeq, matchesAny, applyNull_nil e _, applySeq_nil r p (i + 1)]
end

/-- a document without tags goes through `processNode` exactly as its decoded tree goes through `processDoc` -/
theorem processNode_untagged (c : Cfg) (dict : Val) (n : Reset.YNode) (cfg : KVs)
    (h : untagged n = true) (hd : Reset.decode n = .map cfg) : processNode c dict n = processDoc c dict cfg := by
  simp only [processNode, readDoc_untagged n h, hd, applyNull_nil, processDoc]

/-! ## a tree written out as an untagged YAML node and read back -/

mutual
def nodeOf : Val → Reset.YNode
  | .seq xs => .seq .none (nodesOf xs)
  | .map kvs => .map .none (entriesOf kvs)
  | .null => .scalar .none .null
  | .bool b => .scalar .none (.bool b)
  | .int i => .scalar .none (.int i)
  | .float r => .scalar .none (.float r)
  | .str s => .scalar .none (.str s)
def nodesOf : List Val → List Reset.YNode
  | [] => []
  | v :: r => nodeOf v :: nodesOf r
def entriesOf : List (String × Val) → List (String × Reset.YNode)
  | [] => []
  | (k, v) :: r => (k, nodeOf v) :: entriesOf r
end

mutual
theorem nodeOf_spec : ∀ v : Val, untagged (nodeOf v) = true ∧ Reset.decode (nodeOf v) = v
  | .null => ⟨rfl, rfl⟩
  | .bool _ => ⟨rfl, rfl⟩
  | .int _ => ⟨rfl, rfl⟩
  | .float _ => ⟨rfl, rfl⟩
  | .str _ => ⟨rfl, rfl⟩
  | .seq xs => by
    have h := nodesOf_spec xs
    exact ⟨by simp [nodeOf, untagged, h.1], by simp [nodeOf, Reset.decode, h.2]⟩
  | .map kvs => by
    have h := entriesOf_spec kvs
    exact ⟨by simp [nodeOf, untagged, h.1], by simp [nodeOf, Reset.decode, h.2]⟩
theorem nodesOf_spec : ∀ xs : List Val, untaggedL (nodesOf xs) = true ∧ Reset.decodeL (nodesOf xs) = xs
  | [] => ⟨rfl, rfl⟩
  | v :: r => by
    have h1 := nodeOf_spec v
    have h2 := nodesOf_spec r
    exact ⟨by simp [nodesOf, untaggedL, h1.1, h2.1], by simp [nodesOf, Reset.decodeL, h1.2, h2.2]⟩
theorem entriesOf_spec : ∀ kvs : List (String × Val), untaggedKV (entriesOf kvs) = true ∧ Reset.decodeKV (entriesOf kvs) = kvs
  | [] => ⟨rfl, rfl⟩
  | (k, v) :: r => by
    have h1 := nodeOf_spec v
    have h2 := entriesOf_spec r
    exact ⟨by simp [entriesOf, untaggedKV, h1.1, h2.1], by simp [entriesOf, Reset.decodeKV, h1.2, h2.2]⟩
end

/-! ## panics of a composition -/

theorem bind_panic {α β : Type} {x : Out α} {f : α → Out β} {s : String} (h : x.bind f = .panic s) :
    x = .panic s ∨ ∃ a, x = .ok a ∧ f a = .panic s := by
  cases x with
  | ok a => exact .inr ⟨a, rfl, h⟩
  | err e => simp [Out.bind] at h
  | panic t => simp only [Out.bind, Out.panic.injEq] at h; exact .inl (by rw [h])

theorem bind_eq {α β : Type} (x : Out α) (f : α → Out β) : (x >>= f) = x.bind f := rfl
theorem pure_eq {α : Type} (a : α) : (pure a : Out α) = .ok a := rfl

theorem ofInterp_panic {α : Type} {r : Interp.Out α} {s : String} (h : ofInterp r = .panic s) : r = .panic s := by
  cases r <;> simp [ofInterp] at h ⊢; exact h
theorem ofExtends_panic {α : Type} {r : Extends.Out α} {s : String} (h : ofExtends r = .panic s) : r = .panic s := by
  cases r <;> simp [ofExtends] at h ⊢; exact h
theorem ofMerge_panic {α : Type} {st : String} {r : Merge.Out α} {s : String} (h : ofMerge st r = .panic s) : r = .panic s := by
  cases r <;> simp [ofMerge] at h ⊢; exact h
theorem ofShort_panic {α : Type} {r : Short.Out α} {s : String} (h : ofShort r = .panic s) : r = .panic s := by
  cases r <;> simp [ofShort] at h ⊢; exact h
theorem ofC11_panic {α : Type} {st : String} {r : C11.Out α} {s : String} (h : ofC11 st r = .panic s) : r = .panic s := by
  cases r <;> simp [ofC11] at h ⊢; exact h
theorem ofPaths_panic {α : Type} {r : Paths.Out α} {s : String} (h : ofPaths r = .panic s) : r = .panic s := by
  cases r <;> simp [ofPaths] at h ⊢; exact h
theorem ofValidate_panic {v : Val} {r : Validate.VOut} {s : String} (h : ofValidate v r = .panic s) : r = .panic s := by
  cases r <;> simp [ofValidate] at h ⊢; exact h

end CV.Pipeline
