import ComposeVerif.Model.Pipeline
/-!
# Lemmas about the composed pipeline (`Model/Pipeline.lean`)

* the front end (`convertToStringKeysRecursive`, `fixEmptyNotNull`) is the identity on trees built from `Val`:
  the reason the composed pipeline can be stated on `Val`;
* where a panic of a monadic composition comes from.
-/
namespace CV.Pipeline
open CV CV.Val

/-! ## `convert` / `fixEmpty` on embedded trees -/

mutual
theorem convert_ofVal : ∀ v : Val, ∃ g, C01.convert (ofVal v) = .ok g ∧ toVal g = v ∧ toVal (C01.fixEmpty g) = v
  | .null => ⟨_, rfl, rfl, rfl⟩
  | .bool _ => ⟨_, rfl, rfl, rfl⟩
  | .int _ => ⟨_, rfl, rfl, rfl⟩
  | .float _ => ⟨_, rfl, rfl, rfl⟩
  | .str _ => ⟨_, rfl, rfl, rfl⟩
  | .seq xs => by
    obtain ⟨gs, h1, h2, h3⟩ := convertList_ofVals xs
    cases gs with
    | nil =>
      refine ⟨.nilseq, ?_, ?_, ?_⟩
      · simp only [ofVal, C01.convert, h1]; rfl
      · simp only [toVal, toVals] at h2 ⊢; rw [← h2]
      · simp only [C01.fixEmpty, toVal, toVals] at h2 ⊢; rw [← h2]
    | cons g gs =>
      refine ⟨.seq (g :: gs), ?_, ?_, ?_⟩
      · simp only [ofVal, C01.convert, h1]; rfl
      · simp only [toVal]; rw [h2]
      · simp only [C01.fixEmpty, toVal]; rw [h3]
  | .map kvs => by
    obtain ⟨gs, h1, h2, h3⟩ := convertKVs_ofKVs kvs
    refine ⟨.map gs, ?_, ?_, ?_⟩
    · simp only [ofVal, C01.convert, h1]; rfl
    · simp only [toVal]; rw [h2]
    · simp only [C01.fixEmpty, toVal]; rw [h3]
theorem convertList_ofVals : ∀ xs : List Val, ∃ gs, C01.convertList (ofVals xs) = .ok gs ∧ toVals gs = xs ∧ toVals (C01.fixEmptyList gs) = xs
  | [] => ⟨[], rfl, rfl, rfl⟩
  | v :: r => by
    obtain ⟨g, h1, h2, h3⟩ := convert_ofVal v
    obtain ⟨gs, k1, k2, k3⟩ := convertList_ofVals r
    refine ⟨g :: gs, ?_, ?_, ?_⟩
    · simp only [ofVals, C01.convertList, h1, k1]; rfl
    · simp only [toVals, h2, k2]
    · simp only [C01.fixEmptyList, toVals, h3, k3]
theorem convertKVs_ofKVs : ∀ kvs : List (String × Val), ∃ gs, C01.convertKVs (ofKVs kvs) = .ok gs ∧ toKVs gs = kvs ∧ toKVs (C01.fixEmptyKVs gs) = kvs
  | [] => ⟨[], rfl, rfl, rfl⟩
  | (k, v) :: r => by
    obtain ⟨g, h1, h2, h3⟩ := convert_ofVal v
    obtain ⟨gs, k1, k2, k3⟩ := convertKVs_ofKVs r
    refine ⟨(k, g) :: gs, ?_, ?_, ?_⟩
    · simp only [ofKVs, C01.convertKVs, h1, k1]; rfl
    · simp only [toKVs, h2, k2]
    · simp only [C01.fixEmptyKVs, toKVs, h3, k3]
end

/-! ## panics of a composition -/

theorem bind_panic {α β : Type} {x : Out α} {f : α → Out β} {s : String} (h : x.bind f = .panic s) :
    x = .panic s ∨ ∃ a, x = .ok a ∧ f a = .panic s := by
  cases x with
  | ok a => exact .inr ⟨a, rfl, h⟩
  | err e => simp [Out.bind] at h
  | panic t => simp only [Out.bind, Out.panic.injEq] at h; exact .inl (by rw [h])

theorem bind_eq {α β : Type} (x : Out α) (f : α → Out β) : (x >>= f) = x.bind f := rfl
theorem pure_eq {α : Type} (a : α) : (pure a : Out α) = .ok a := rfl

theorem ofInterp_panic {α : Type} {r : Interp.Out α} {s : String} (h : ofInterp r = .panic s) : r = .panic s := by
  cases r <;> simp [ofInterp] at h ⊢; exact h
theorem ofMerge_panic {α : Type} {st : String} {r : Merge.Out α} {s : String} (h : ofMerge st r = .panic s) : r = .panic s := by
  cases r <;> simp [ofMerge] at h ⊢; exact h
theorem ofShort_panic {α : Type} {r : Short.Out α} {s : String} (h : ofShort r = .panic s) : r = .panic s := by
  cases r <;> simp [ofShort] at h ⊢; exact h
theorem ofC11_panic {α : Type} {st : String} {r : C11.Out α} {s : String} (h : ofC11 st r = .panic s) : r = .panic s := by
  cases r <;> simp [ofC11] at h ⊢; exact h
theorem ofPaths_panic {α : Type} {r : Paths.Out α} {s : String} (h : ofPaths r = .panic s) : r = .panic s := by
  cases r <;> simp [ofPaths] at h ⊢; exact h
theorem ofValidate_panic {v : Val} {r : Validate.VOut} {s : String} (h : ofValidate v r = .panic s) : r = .panic s := by
  cases r <;> simp [ofValidate] at h ⊢; exact h

end CV.Pipeline
