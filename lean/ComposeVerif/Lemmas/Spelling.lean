import ComposeVerif.Lemmas.Unicity
/-! The mapping spelling of a KEY=VALUE attribute, converted by `convertIntoSequence` (sorted `K=V` strings), looked up by
index key, is the mapping itself: `K: V` is found under `K` as the entry `K=V` (or `K` for a null value). -/
namespace CV.Unicity
open CV CV.Val CV.Merge

/-- the one string a mapping entry with a non-sequence value is converted to -/
def entryStr (k : String) : Val → String
  | .null => k
  | v => k ++ "=" ++ Merge.fmtV v

def pairs (l : List String) : List (String × Val) := l.map fun s => (kvKey s, Val.str s)

theorem zip_eq_pairs (l : List String) : (l.map kvKey).zip (l.map Val.str) = pairs l := by
  induction l with
  | nil => rfl
  | cons s r ih => simp only [List.map_cons, List.zip_cons_cons, ih, pairs]

theorem insertStr_perm (s : String) : ∀ l : List String, (insertStr s l).Perm (s :: l) := by
  intro l
  induction l with
  | nil => exact List.Perm.refl _
  | cons t r ih =>
    simp only [insertStr]
    split
    · exact List.Perm.refl _
    · exact (List.Perm.cons t ih).trans (List.Perm.swap s t r)

theorem sortStrs_perm : ∀ l : List String, (sortStrs l).Perm l := by
  intro l
  induction l with
  | nil => exact List.Perm.refl _
  | cons s r ih => exact (insertStr_perm s _).trans (List.Perm.cons s ih)

/-- with distinct keys, "the last entry carrying the key" is just the lookup -/
theorem lastVal_eq_lookup : ∀ (l : List (String × Val)), (keys l).Nodup → ∀ k, lastVal k l = lookup k l := by
  intro l
  induction l with
  | nil => intro _ k; rfl
  | cons hd tl ih =>
    obtain ⟨k', v⟩ := hd
    intro hnd k
    simp only [keys, List.map_cons, List.nodup_cons] at hnd
    simp only [lastVal, lookup, ih hnd.2 k]
    by_cases hk : k = k'
    · subst hk
      have : lookup k tl = none := lookup_eq_none_iff.mpr hnd.1
      simp [this]
    · simp only [hk, if_false]
      cases lookup k tl <;> rfl

theorem mapStrs_of_scalars : ∀ (m : KVs), (∀ kv ∈ m, ∀ xs, kv.2 ≠ .seq xs) → mapStrs m = m.map fun kv => entryStr kv.1 kv.2 := by
  intro m
  induction m with
  | nil => intro _; rfl
  | cons hd tl ih =>
    obtain ⟨k, v⟩ := hd
    intro h
    have hv : ∀ xs, v ≠ .seq xs := h (k, v) (by simp)
    simp only [mapStrs, List.map_cons, ih (fun kv hkv => h kv (by simp [hkv]))]
    cases v with
    | seq xs => exact absurd rfl (hv xs)
    | _ => simp [entryStrs, entryStr]

theorem kvKey_entryStr (k : String) (v : Val) (hk : ∀ c ∈ k.toList, c ≠ '=') : kvKey (entryStr k v) = k := by
  cases v <;> first | exact kvKey_bare k hk | exact kvKey_entry k _ hk

theorem pairs_entries : ∀ (m : KVs), (∀ k ∈ keys m, ∀ c ∈ k.toList, c ≠ '=') →
    pairs (m.map fun kv => entryStr kv.1 kv.2) = m.map fun kv => (kv.1, Val.str (entryStr kv.1 kv.2)) := by
  intro m
  induction m with
  | nil => intro _; rfl
  | cons hd tl ih =>
    obtain ⟨k, v⟩ := hd
    intro hk
    have h1 := kvKey_entryStr k v (hk k (by simp [keys]))
    have h2 := ih (fun k' hk' => hk k' (by simp only [keys, List.map_cons, List.mem_cons]; exact .inr hk'))
    simp only [pairs, List.map_cons, List.map_map] at h2 ⊢
    rw [h1]; congr 1

theorem lookup_map_entries (k : String) : ∀ (m : KVs),
    lookup k (m.map fun kv => (kv.1, Val.str (entryStr kv.1 kv.2))) = (lookup k m).map fun v => Val.str (entryStr k v) := by
  intro m
  induction m with
  | nil => rfl
  | cons hd tl ih =>
    obtain ⟨k', v⟩ := hd
    simp only [List.map_cons, lookup]
    by_cases hk : k = k'
    · subst hk; simp
    · simp only [hk, if_false]; exact ih

theorem keys_map_entries (m : KVs) : keys (m.map fun kv => (kv.1, Val.str (entryStr kv.1 kv.2))) = keys m := by
  simp [keys, List.map_map, Function.comp_def]

theorem keys_pairs_perm {l l' : List String} (h : l.Perm l') : (keys (pairs l)).Perm (keys (pairs l')) := by
  simp only [keys, pairs, List.map_map]
  exact h.map _

/-- **the mapping spelling is indexed like the list spelling**: in the sequence `convertIntoSequence` makes of a mapping
with distinct `=`-free keys and non-sequence values, the entry found under index key `k` is `k=V` (resp. `k`) for the
mapping's own value `V` at `k` — the sort does not matter -/
theorem mapping_spelling_lookup (m : KVs) (hnd : (keys m).Nodup) (hk : ∀ k ∈ keys m, ∀ c ∈ k.toList, c ≠ '=')
    (hv : ∀ kv ∈ m, ∀ xs, kv.2 ≠ .seq xs) (k : String) :
    lastVal k (((sortStrs (mapStrs m)).map kvKey).zip (seqOf (.map m))) = (lookup k m).map fun v => Val.str (entryStr k v) := by
  have hseq : seqOf (.map m) = (sortStrs (mapStrs m)).map Val.str := by simp [seqOf, intoSeq]
  rw [hseq, zip_eq_pairs]
  have hperm := sortStrs_perm (mapStrs m)
  have hpairs : (pairs (sortStrs (mapStrs m))).Perm (pairs (mapStrs m)) := hperm.map _
  have hkeys : (keys (pairs (mapStrs m))).Nodup := by
    rw [mapStrs_of_scalars m hv, pairs_entries m hk, keys_map_entries]; exact hnd
  have hkeys' : (keys (pairs (sortStrs (mapStrs m)))).Nodup := (keys_pairs_perm hperm).nodup_iff.mpr hkeys
  rw [lastVal_eq_lookup _ hkeys', lookup_perm hkeys hpairs, mapStrs_of_scalars m hv, pairs_entries m hk, lookup_map_entries]

end CV.Unicity
