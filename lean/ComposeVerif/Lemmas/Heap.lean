import ComposeVerif.Spec.Heap
/-! helper lemmas for C14 (heap model) -/
namespace CV.Heap

theorem lookupTy_flat : ∀ (fs : List (Nat × Ty)) (f : Nat) (t : Ty),
    flatFields fs = true → lookupTy f fs = some t → flat t = true
  | [], _, _, _, h => by simp [lookupTy] at h
  | (g, u) :: r, f, t, hf, h => by
    simp only [flatFields, Bool.and_eq_true] at hf
    simp only [lookupTy] at h
    split at h
    · cases h; exact hf.1
    · exact lookupTy_flat r f t hf.2 h

mutual
/-- a value of a flat type (no pointer, slice, map or interface inside) holds no address -/
theorem flat_addrs : ∀ (v : GoVal) (t : Ty), flat t = true → hasTy t v = true → addrs v = []
  | .scalar _, _, _, _ => by simp [addrs]
  | .nil, _, _, _ => by simp [addrs]
  | .opaque _ _, _, _, _ => by simp [addrs]
  | .ptr _ _, t, hf, ht => by cases t <;> simp [flat, hasTy] at hf ht
  | .slice _ _, t, hf, ht => by cases t <;> simp [flat, hasTy] at hf ht
  | .map _ _, t, hf, ht => by cases t <;> simp [flat, hasTy] at hf ht
  | .struct ks, t, hf, ht => by
    cases t <;> simp [flat, hasTy] at hf ht
    rename_i fs
    simp only [addrs]
    exact flat_addrsKids ks fs hf ht
theorem flat_addrsKids : ∀ (ks : List (Key × GoVal)) (fs : List (Nat × Ty)),
    flatFields fs = true → hasTyFields fs ks = true → addrsKids ks = []
  | [], _, _, _ => by simp [addrsKids]
  | (.fld f, v) :: r, fs, hf, ht => by
    simp only [hasTyFields, Bool.and_eq_true] at ht
    simp only [addrsKids]
    cases hl : lookupTy f fs with
    | none => simp [hl] at ht
    | some t =>
      simp only [hl] at ht
      rw [flat_addrs v t (lookupTy_flat fs f t hf hl) ht.1, flat_addrsKids r fs hf ht.2]
      rfl
  | (.idx, _) :: _, _, _, ht => by simp [hasTyFields] at ht
  | (.str _, _) :: _, _, _, ht => by simp [hasTyFields] at ht
end

theorem iface_addrs (v : GoVal) (h : hasTy .iface v = true) : addrs v = [] := by
  cases v <;> simp [hasTy, addrs] at h ⊢

mutual
theorem zero_addrs : ∀ (v : GoVal), addrs (zero v) = []
  | .scalar _ => by simp [zero, addrs]
  | .nil => by simp [zero, addrs]
  | .opaque _ _ => by simp [zero, addrs]
  | .ptr _ _ => by simp [zero, addrs]
  | .slice _ _ => by simp [zero, addrs]
  | .map _ _ => by simp [zero, addrs]
  | .struct ks => by simp only [zero, addrs]; exact zeroKids_addrs ks
theorem zeroKids_addrs : ∀ (ks : List (Key × GoVal)), addrsKids (zeroKids ks) = []
  | [] => by simp [zeroKids, addrsKids]
  | (k, v) :: r => by simp [zeroKids, addrsKids, zero_addrs v, zeroKids_addrs r]
end

/-- every address of `A` lies in `[n, m)`, and `n ≤ m` -/
def Within (n m : Nat) (A : List Nat) : Prop := n ≤ m ∧ ∀ a ∈ A, n ≤ a ∧ a < m

theorem Within.nil (n : Nat) : Within n n [] := ⟨Nat.le_refl n, by simp⟩

theorem Within.append {n m k : Nat} {A B : List Nat} (h1 : Within n m A) (h2 : Within m k B) : Within n k (A ++ B) := by
  refine ⟨Nat.le_trans h1.1 h2.1, ?_⟩
  intro a ha
  rcases List.mem_append.mp ha with h | h
  · have := h1.2 a h; have := h2.1; omega
  · have := h2.2 a h; have := h1.1; omega

theorem Within.cons {n m : Nat} {A : List Nat} (h : Within (n+1) m A) : Within n m (n :: A) := by
  refine ⟨by have := h.1; omega, ?_⟩
  intro a ha
  rcases List.mem_cons.mp ha with h' | h'
  · subst h'; have := h.1; omega
  · have := h.2 a h'; omega

theorem deepFields_lookup : ∀ (fs : List (Nat × Ty)) (ps : List (Nat × Plan)) (f : Nat) (t : Ty) (p : Plan),
    deepFields fs ps = true → lookupTy f fs = some t → lookupPlan f ps = some p → deep t p = true
  | [], _, _, _, _, _, h, _ => by simp [lookupTy] at h
  | (g, u) :: r, ps, f, t, p, hd, h, hp => by
    simp only [deepFields, Bool.and_eq_true] at hd
    simp only [lookupTy] at h
    split at h
    · rename_i hg
      cases h; subst hg
      have := hd.1
      simp only [hp] at this
      exact this
    · exact deepFields_lookup r ps f t p hd.2 h hp

mutual
/-- **freshness**: executing a deep plan on a well-typed value allocates every address of the result in `[n, n')` -/
theorem exec_fresh : ∀ (v : GoVal) (p : Plan) (t : Ty) (n : Nat), hasTy t v = true → deep t p = true →
    Within n (exec p v n).2 (addrs (exec p v n).1)
  | .scalar _, p, _, n, _, _ => by cases p <;> simp [exec, mismatch, addrs, Within]
  | .nil, p, _, n, _, _ => by cases p <;> simp [exec, mismatch, addrs, Within]
  | .opaque _ _, p, _, n, _, _ => by cases p <;> simp [exec, mismatch, addrs, Within]
  | .ptr a w, p, t, n, ht, hd => by
    cases p with
    | assign => cases t <;> simp [deep, flat, hasTy] at hd ht
    | newPtr p' =>
      cases t <;> simp [deep, hasTy] at hd ht
      rename_i t'
      have ih := exec_fresh w p' t' (n+1) ht hd
      simp only [exec, addrs]
      exact Within.cons ih
    | _ => simp [exec, mismatch, addrs, Within]
  | .slice a ks, p, t, n, ht, hd => by
    cases p with
    | assign => cases t <;> simp [deep, flat, hasTy] at hd ht
    | newSlice p' =>
      cases t <;> simp [deep, hasTy] at hd ht
      rename_i t'
      have ih := execAll_fresh ks p' t' (n+1) ht hd
      simp only [exec, addrs]
      exact Within.cons ih
    | _ => simp [exec, mismatch, addrs, Within]
  | .map a ks, p, t, n, ht, hd => by
    cases p with
    | assign => cases t <;> simp [deep, flat, hasTy] at hd ht
    | newMap p' =>
      cases t <;> simp [deep, hasTy] at hd ht
      rename_i t'
      have ih := execAll_fresh ks p' t' (n+1) ht hd
      simp only [exec, addrs]
      exact Within.cons ih
    | _ => simp [exec, mismatch, addrs, Within]
  | .struct ks, p, t, n, ht, hd => by
    cases p with
    | assign =>
      cases t <;> simp [deep, hasTy] at hd ht
      rename_i fs
      have : addrs (GoVal.struct ks) = [] := flat_addrs (.struct ks) (.struct fs) hd (by simpa [hasTy] using ht)
      simp only [exec, this]
      exact Within.nil n
    | fields ps =>
      cases t <;> simp [deep, hasTy] at hd ht
      rename_i fs
      have ih := execFields_fresh ks ps fs n ht hd
      simp only [exec, addrs]
      exact ih
    | _ => simp [exec, mismatch, addrs, Within]
theorem execAll_fresh : ∀ (ks : List (Key × GoVal)) (p : Plan) (t : Ty) (n : Nat), hasTyAll t ks = true → deep t p = true →
    Within n (execAll p ks n).2 (addrsKids (execAll p ks n).1)
  | [], _, _, n, _, _ => by simp only [execAll, addrsKids]; exact Within.nil n
  | (k, v) :: r, p, t, n, ht, hd => by
    simp only [hasTyAll, Bool.and_eq_true] at ht
    have h1 := exec_fresh v p t n ht.1 hd
    have h2 := execAll_fresh r p t (exec p v n).2 ht.2 hd
    simp only [execAll, addrsKids]
    exact Within.append h1 h2
theorem execFields_fresh : ∀ (ks : List (Key × GoVal)) (ps : List (Nat × Plan)) (fs : List (Nat × Ty)) (n : Nat),
    hasTyFields fs ks = true → deepFields fs ps = true →
    Within n (execFields ps ks n).2 (addrsKids (execFields ps ks n).1)
  | [], _, _, n, _, _ => by simp only [execFields, addrsKids]; exact Within.nil n
  | (.fld f, v) :: r, ps, fs, n, ht, hd => by
    simp only [hasTyFields, Bool.and_eq_true] at ht
    cases hl : lookupTy f fs with
    | none => simp [hl] at ht
    | some t =>
      simp only [hl] at ht
      cases hp : lookupPlan f ps with
      | none =>
        have h2 := execFields_fresh r ps fs n ht.2 hd
        simp only [execFields, hp, addrsKids, zero_addrs, List.nil_append]
        exact h2
      | some p =>
        have h1 := exec_fresh v p t n ht.1 (deepFields_lookup fs ps f t p hd hl hp)
        have h2 := execFields_fresh r ps fs (exec p v n).2 ht.2 hd
        simp only [execFields, hp, addrsKids]
        exact Within.append h1 h2
  | (.idx, _) :: _, _, _, _, ht, _ => by simp [hasTyFields] at ht
  | (.str _, _) :: _, _, _, _, ht, _ => by simp [hasTyFields] at ht
end

theorem coversFields_lookup : ∀ (fs : List (Nat × Ty)) (ps : List (Nat × Plan)) (f : Nat) (t : Ty),
    coversFields fs ps = true → lookupTy f fs = some t → ∃ p, lookupPlan f ps = some p ∧ covers t p = true
  | [], _, _, _, _, h => by simp [lookupTy] at h
  | (g, u) :: r, ps, f, t, hc, h => by
    simp only [coversFields, Bool.and_eq_true] at hc
    simp only [lookupTy] at h
    split at h
    · rename_i hg
      cases h; subst hg
      have h1 := hc.1
      cases hp : lookupPlan g ps with
      | none => simp [hp] at h1
      | some p => simp only [hp] at h1; exact ⟨p, rfl, h1⟩
    · exact coversFields_lookup r ps f t hc.2 h

mutual
/-- **deep equality**: executing a covering plan on a well-typed value yields a value equal to it up to addresses -/
theorem exec_erase : ∀ (v : GoVal) (p : Plan) (t : Ty) (n : Nat), hasTy t v = true → covers t p = true →
    erase (exec p v n).1 = erase v
  | .scalar _, p, t, n, ht, hc => by
    cases p <;> cases t <;> simp [covers, hasTy] at hc ht <;> simp [exec]
  | .nil, p, t, n, ht, hc => by
    cases p <;> cases t <;> simp [covers, hasTy] at hc ht <;> simp [exec]
  | .opaque _ _, p, t, n, ht, hc => by
    cases p <;> cases t <;> simp [covers, hasTy] at hc ht <;> simp [exec]
  | .ptr a w, p, t, n, ht, hc => by
    cases p <;> cases t <;> simp [covers, hasTy] at hc ht <;> simp only [exec]
    rename_i p' t'
    simp only [erase, exec_erase w p' t' (n+1) ht hc]
  | .slice a ks, p, t, n, ht, hc => by
    cases p <;> cases t <;> simp [covers, hasTy] at hc ht <;> simp only [exec]
    rename_i p' t'
    simp only [erase, execAll_erase ks p' t' (n+1) ht hc]
  | .map a ks, p, t, n, ht, hc => by
    cases p <;> cases t <;> simp [covers, hasTy] at hc ht <;> simp only [exec]
    rename_i p' t'
    simp only [erase, execAll_erase ks p' t' (n+1) ht hc]
  | .struct ks, p, t, n, ht, hc => by
    cases p <;> cases t <;> simp [covers, hasTy] at hc ht <;> simp only [exec]
    rename_i ps fs
    simp only [erase, execFields_erase ks ps fs n ht hc]
theorem execAll_erase : ∀ (ks : List (Key × GoVal)) (p : Plan) (t : Ty) (n : Nat), hasTyAll t ks = true → covers t p = true →
    eraseKids (execAll p ks n).1 = eraseKids ks
  | [], _, _, _, _, _ => by simp [execAll, eraseKids]
  | (k, v) :: r, p, t, n, ht, hc => by
    simp only [hasTyAll, Bool.and_eq_true] at ht
    simp only [execAll, eraseKids, exec_erase v p t n ht.1 hc, execAll_erase r p t (exec p v n).2 ht.2 hc]
theorem execFields_erase : ∀ (ks : List (Key × GoVal)) (ps : List (Nat × Plan)) (fs : List (Nat × Ty)) (n : Nat),
    hasTyFields fs ks = true → coversFields fs ps = true →
    eraseKids (execFields ps ks n).1 = eraseKids ks
  | [], _, _, _, _, _ => by simp [execFields, eraseKids]
  | (.fld f, v) :: r, ps, fs, n, ht, hc => by
    simp only [hasTyFields, Bool.and_eq_true] at ht
    cases hl : lookupTy f fs with
    | none => simp [hl] at ht
    | some t =>
      simp only [hl] at ht
      obtain ⟨p, hp, hcp⟩ := coversFields_lookup fs ps f t hc hl
      simp only [execFields, hp, eraseKids, exec_erase v p t n ht.1 hcp, execFields_erase r ps fs (exec p v n).2 ht.2 hc]
  | (.idx, _) :: _, _, _, _, ht, _ => by simp [hasTyFields] at ht
  | (.str _, _) :: _, _, _, _, ht, _ => by simp [hasTyFields] at ht
end

mutual
/-- the copy has the type of the source (so copies can be chained) -/
theorem exec_hasTy : ∀ (v : GoVal) (p : Plan) (t : Ty) (n : Nat), hasTy t v = true → covers t p = true →
    hasTy t (exec p v n).1 = true
  | .scalar _, p, t, n, ht, hc => by
    cases p <;> cases t <;> simp [covers, hasTy] at hc ht <;> simp [exec, hasTy]
  | .nil, p, t, n, ht, hc => by
    cases p <;> cases t <;> simp [covers, hasTy] at hc ht <;> simp [exec, hasTy]
  | .opaque _ _, p, t, n, ht, hc => by
    cases p <;> cases t <;> simp [covers, hasTy] at hc ht <;> simp [exec, hasTy]
  | .ptr a w, p, t, n, ht, hc => by
    cases p <;> cases t <;> simp [covers, hasTy] at hc ht <;> simp only [exec, hasTy]
    · exact ht
    · rename_i p' t'; exact exec_hasTy w p' t' (n+1) ht hc
  | .slice a ks, p, t, n, ht, hc => by
    cases p <;> cases t <;> simp [covers, hasTy] at hc ht <;> simp only [exec, hasTy]
    · exact ht
    · rename_i p' t'; exact execAll_hasTy ks p' t' (n+1) ht hc
  | .map a ks, p, t, n, ht, hc => by
    cases p <;> cases t <;> simp [covers, hasTy] at hc ht <;> simp only [exec, hasTy]
    · exact ht
    · rename_i p' t'; exact execAll_hasTy ks p' t' (n+1) ht hc
  | .struct ks, p, t, n, ht, hc => by
    cases p <;> cases t <;> simp [covers, hasTy] at hc ht <;> simp only [exec, hasTy]
    · exact ht
    · rename_i ps fs; exact execFields_hasTy ks ps fs n ht hc
theorem execAll_hasTy : ∀ (ks : List (Key × GoVal)) (p : Plan) (t : Ty) (n : Nat), hasTyAll t ks = true → covers t p = true →
    hasTyAll t (execAll p ks n).1 = true
  | [], _, _, _, _, _ => by simp [execAll, hasTyAll]
  | (k, v) :: r, p, t, n, ht, hc => by
    simp only [hasTyAll, Bool.and_eq_true] at ht
    simp only [execAll, hasTyAll, Bool.and_eq_true]
    exact ⟨exec_hasTy v p t n ht.1 hc, execAll_hasTy r p t (exec p v n).2 ht.2 hc⟩
theorem execFields_hasTy : ∀ (ks : List (Key × GoVal)) (ps : List (Nat × Plan)) (fs : List (Nat × Ty)) (n : Nat),
    hasTyFields fs ks = true → coversFields fs ps = true →
    hasTyFields fs (execFields ps ks n).1 = true
  | [], _, _, _, _, _ => by simp [execFields, hasTyFields]
  | (.fld f, v) :: r, ps, fs, n, ht, hc => by
    simp only [hasTyFields, Bool.and_eq_true] at ht
    cases hl : lookupTy f fs with
    | none => simp [hl] at ht
    | some t =>
      simp only [hl] at ht
      obtain ⟨p, hp, hcp⟩ := coversFields_lookup fs ps f t hc hl
      simp only [execFields, hp, hasTyFields, hl, Bool.and_eq_true]
      exact ⟨exec_hasTy v p t n ht.1 hcp, execFields_hasTy r ps fs (exec p v n).2 ht.2 hc⟩
  | (.idx, _) :: _, _, _, _, ht, _ => by simp [hasTyFields] at ht
  | (.str _, _) :: _, _, _, _, ht, _ => by simp [hasTyFields] at ht
end

mutual
/-- a write through an address the value does not contain leaves it unchanged -/
theorem write_not_mem : ∀ (v : GoVal) (a : Nat) (c : Cell), a ∉ addrs v → write a c v = v
  | .scalar _, _, _, _ => by simp [write]
  | .nil, _, _, _ => by simp [write]
  | .opaque _ _, _, _, _ => by simp [write]
  | .ptr b w, a, c, h => by
    simp only [addrs, List.mem_cons, not_or] at h
    have hb : ¬ b = a := fun e => h.1 e.symm
    simp only [write, hb, if_false, write_not_mem w a c h.2]
  | .slice b ks, a, c, h => by
    simp only [addrs, List.mem_cons, not_or] at h
    have hb : ¬ b = a := fun e => h.1 e.symm
    simp only [write, hb, if_false, writeKids_not_mem ks a c h.2]
  | .map b ks, a, c, h => by
    simp only [addrs, List.mem_cons, not_or] at h
    have hb : ¬ b = a := fun e => h.1 e.symm
    simp only [write, hb, if_false, writeKids_not_mem ks a c h.2]
  | .struct ks, a, c, h => by
    simp only [addrs] at h
    simp only [write, writeKids_not_mem ks a c h]
theorem writeKids_not_mem : ∀ (ks : List (Key × GoVal)) (a : Nat) (c : Cell), a ∉ addrsKids ks → writeKids a c ks = ks
  | [], _, _, _ => by simp [writeKids]
  | (k, v) :: r, a, c, h => by
    simp only [addrsKids, List.mem_append, not_or] at h
    simp only [writeKids, write_not_mem v a c h.1, writeKids_not_mem r a c h.2]
end

mutual
/-- a write adds no address beyond those of the stored cell -/
theorem addrs_write : ∀ (v : GoVal) (a : Nat) (c : Cell) (x : Nat),
    x ∈ addrs (write a c v) → x ∈ addrs v ∨ x ∈ cellAddrs c
  | .scalar _, _, _, _, h => by simp [write, addrs] at h
  | .nil, _, _, _, h => by simp [write, addrs] at h
  | .opaque _ _, _, _, _, h => by simp [write, addrs] at h
  | .ptr b w, a, c, x, h => by
    simp only [write] at h
    split at h
    · cases c with
      | pointee w' =>
        simp only [addrs, List.mem_cons] at h ⊢
        rcases h with h | h
        · exact Or.inl (Or.inl h)
        · exact Or.inr (by simpa [cellAddrs] using h)
      | kids _ => exact Or.inl h
    · simp only [addrs, List.mem_cons] at h ⊢
      rcases h with h | h
      · exact Or.inl (Or.inl h)
      · rcases addrs_write w a c x h with h' | h'
        · exact Or.inl (Or.inr h')
        · exact Or.inr h'
  | .slice b ks, a, c, x, h => by
    simp only [write] at h
    split at h
    · cases c with
      | kids ws =>
        simp only [addrs, List.mem_cons] at h ⊢
        rcases h with h | h
        · exact Or.inl (Or.inl h)
        · exact Or.inr (by simpa [cellAddrs] using h)
      | pointee _ => exact Or.inl h
    · simp only [addrs, List.mem_cons] at h ⊢
      rcases h with h | h
      · exact Or.inl (Or.inl h)
      · rcases addrs_writeKids ks a c x h with h' | h'
        · exact Or.inl (Or.inr h')
        · exact Or.inr h'
  | .map b ks, a, c, x, h => by
    simp only [write] at h
    split at h
    · cases c with
      | kids ws =>
        simp only [addrs, List.mem_cons] at h ⊢
        rcases h with h | h
        · exact Or.inl (Or.inl h)
        · exact Or.inr (by simpa [cellAddrs] using h)
      | pointee _ => exact Or.inl h
    · simp only [addrs, List.mem_cons] at h ⊢
      rcases h with h | h
      · exact Or.inl (Or.inl h)
      · rcases addrs_writeKids ks a c x h with h' | h'
        · exact Or.inl (Or.inr h')
        · exact Or.inr h'
  | .struct ks, a, c, x, h => by
    simp only [write, addrs] at h ⊢
    exact addrs_writeKids ks a c x h
theorem addrs_writeKids : ∀ (ks : List (Key × GoVal)) (a : Nat) (c : Cell) (x : Nat),
    x ∈ addrsKids (writeKids a c ks) → x ∈ addrsKids ks ∨ x ∈ cellAddrs c
  | [], _, _, _, h => by simp [writeKids, addrsKids] at h
  | (k, v) :: r, a, c, x, h => by
    simp only [writeKids, addrsKids, List.mem_append] at h ⊢
    rcases h with h | h
    · rcases addrs_write v a c x h with h' | h'
      · exact Or.inl (Or.inl h')
      · exact Or.inr h'
    · rcases addrs_writeKids r a c x h with h' | h'
      · exact Or.inl (Or.inr h')
      · exact Or.inr h'
end

/-- writes through addresses a value does not contain leave it unchanged -/
theorem writes_not_mem : ∀ (ws : List (Nat × Cell)) (v : GoVal), (∀ w ∈ ws, w.1 ∉ addrs v) → writes ws v = v
  | [], _, _ => by simp [writes]
  | (a, c) :: r, v, h => by
    have h1 : write a c v = v := write_not_mem v a c (h (a, c) (List.mem_cons_self ..))
    simp only [writes, h1]
    exact writes_not_mem r v (fun w hw => h w (List.mem_cons_of_mem _ hw))

theorem addrs_writes : ∀ (ws : List (Nat × Cell)) (v : GoVal) (x : Nat),
    x ∈ addrs (writes ws v) → x ∈ addrs v ∨ ∃ w ∈ ws, x ∈ cellAddrs w.2
  | [], _, _, h => Or.inl (by simpa [writes] using h)
  | (a, c) :: r, v, x, h => by
    simp only [writes] at h
    rcases addrs_writes r (write a c v) x h with h' | ⟨w, hw, hx⟩
    · rcases addrs_write v a c x h' with h'' | h''
      · exact Or.inl h''
      · exact Or.inr ⟨(a, c), List.mem_cons_self .., h''⟩
    · exact Or.inr ⟨w, List.mem_cons_of_mem _ hw, hx⟩

end CV.Heap
