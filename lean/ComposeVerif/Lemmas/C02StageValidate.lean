import ComposeVerif.Lemmas.C02StageGeneric
import ComposeVerif.Model.Validate
/-!
### `validation.Validate` (the `check` walk) accepts or rejects alike whatever order Go ranges the mappings in

`check` ranges every mapping of the tree (`for k, v := range v`) and returns the first error; the checkers look at
their node through `m[k]` / `len` / a loop over the keys.  *Which* failure is reported depends on the order
(`Neg.validate_which_error_order_dependent`), *whether* there is one does not — at every nesting level at once.
-/
namespace CV.Det.Stage
open CV CV.Deep CV.Validate
open CV.Val (lookup keys KVs)

theorem has_meqv {a b : KVs} (h : MEqv a b) (k : String) : has k a = has k b := by
  unfold has
  cases ha : lookup k a with
  | none => rw [(h.1 k).mp ha]
  | some x => obtain ⟨y, hy, _⟩ := h.lookup_some ha; rw [hy]; rfl

theorem countPresent_meqv {a b : KVs} (h : MEqv a b) (ks : List String) : countPresent ks a = countPresent ks b := by
  unfold countPresent
  congr 1
  apply List.filter_congr
  intro k _
  exact has_meqv h k

theorem asBoolean_eqv {x y : Val} (h : Eqv x y) : asBoolean x = asBoolean y := by
  cases h <;> rfl

/-- a predicate on the keys holds for all entries iff it holds for every key that is present -/
theorem all_keys_iff (P : String → Bool) (m : KVs) :
    m.all (fun e => P e.1) = true ↔ ∀ k, (lookup k m).isSome = true → P k = true := by
  induction m with
  | nil => simp [lookup]
  | cons hd tl ih =>
    obtain ⟨k0, v0⟩ := hd
    simp only [List.all_cons, Bool.and_eq_true, ih]
    constructor
    · rintro ⟨h0, ht⟩ k hk
      by_cases e : k = k0
      · subst e; exact h0
      · rw [lookup_cons_ne e] at hk; exact ht k hk
    · intro h
      refine ⟨h k0 (by rw [lookup_cons_self]; rfl), fun k hk => ?_⟩
      by_cases e : k = k0
      · subst e; exact h k (by rw [lookup_cons_self]; rfl)
      · exact h k (by rw [lookup_cons_ne e]; exact hk)

theorem isSome_meqv {a b : KVs} (h : MEqv a b) (k : String) : (lookup k a).isSome = (lookup k b).isSome :=
  has_meqv h k

theorem all_keys_meqv (P : String → Bool) {a b : KVs} (h : MEqv a b) :
    a.all (fun e => P e.1) = b.all (fun e => P e.1) := by
  apply Bool.eq_iff_iff.mpr
  rw [all_keys_iff, all_keys_iff]
  constructor
  · intro hh k hk; exact hh k (by rw [isSome_meqv h k]; exact hk)
  · intro hh k hk; exact hh k (by rw [← isSome_meqv h k]; exact hk)

theorem checkExternal_meqv {a b : KVs} (h : MEqv a b) : checkExternal a = checkExternal b := by
  unfold checkExternal
  cases ha : lookup "external" a with
  | none => rw [(h.1 _).mp ha]
  | some x =>
    obtain ⟨y, hy, hxy⟩ := h.lookup_some ha
    rw [hy]
    simp only [asBoolean_eqv hxy, all_keys_meqv externalAllowed h]

/-- every checker sees equivalent nodes alike -/
theorem run_eqv (c : Checker) {v w : Val} (h : Eqv v w) : run c v = run c w := by
  cases c with
  | volume =>
    cases h <;> simp only [run, checkVolume]
    rename_i a b hn hv
    exact checkExternal_meqv ⟨hn, hv⟩
  | fileObject ks =>
    cases h <;> simp only [run, checkFileObject]
    rename_i a b hn hv
    have hm : MEqv a b := ⟨hn, hv⟩
    simp only [countPresent_meqv hm ks, has_meqv hm]
  | path => cases h <;> simp only [run, checkPath]
  | deviceRequest =>
    cases h <;> simp only [run, checkDeviceRequest]
    rename_i a b hn hv
    have hm : MEqv a b := ⟨hn, hv⟩
    simp only [has_meqv hm]

theorem runL_eqv (c : Checker) {v w : Val} (h : Eqv v w) : runL c v = runL c w := by
  unfold runL; rw [run_eqv c h]

/-- does the walk below `(p, v)` find no failure? -/
def cleanAt (p : TPath) (v : Val) : Bool := (failuresAt p v).isEmpty

theorem failuresKVs_isEmpty (p : TPath) (m : KVs) :
    (failuresKVs p m).isEmpty = m.all (fun kv => cleanAt (Validate.next p kv.1) kv.2) := by
  induction m with
  | nil => simp [failuresKVs]
  | cons hd tl ih =>
    obtain ⟨k, v⟩ := hd
    rw [failuresKVs, List.all_cons, ← ih]
    simp only [cleanAt]
    cases failuresAt (Validate.next p k) v <;> simp

theorem failuresSeq_isEmpty (p : TPath) (xs : List Val) :
    (failuresSeq p xs).isEmpty = xs.all (fun v => cleanAt (Validate.next p "[]") v) := by
  induction xs with
  | nil => simp [failuresSeq]
  | cons v tl ih =>
    rw [failuresSeq, List.all_cons, ← ih]
    simp only [cleanAt]
    cases failuresAt (Validate.next p "[]") v <;> simp

theorem cleanAt_eqv {v w : Val} (h : Eqv v w) : WF v → WF w → ∀ p, cleanAt p v = cleanAt p w ∧
    (∀ xs ys, v = .seq xs → w = .seq ys → (failuresSeq p xs).isEmpty = (failuresSeq p ys).isEmpty) := by
  induction h with
  | null => intro _ _ p; exact ⟨rfl, fun _ _ h => by cases h⟩
  | bool b => intro _ _ p; exact ⟨rfl, fun _ _ h => by cases h⟩
  | int i => intro _ _ p; exact ⟨rfl, fun _ _ h => by cases h⟩
  | float s => intro _ _ p; exact ⟨rfl, fun _ _ h => by cases h⟩
  | str s => intro _ _ p; exact ⟨rfl, fun _ _ h => by cases h⟩
  | seqNil => intro _ _ p; exact ⟨rfl, fun xs ys h1 h2 => by cases h1; cases h2; rfl⟩
  | @seqCons x y xs ys hxy hrest ih1 ih2 =>
    intro w1 w2 p
    cases w1 with | seqCons wx wxs =>
    cases w2 with | seqCons wy wys =>
    have h1 := (ih1 wx wy (Validate.next p "[]")).1
    have h2 := (ih2 wxs wys p).2 xs ys rfl rfl
    have hseq : (failuresSeq p (x :: xs)).isEmpty = (failuresSeq p (y :: ys)).isEmpty := by
      rw [failuresSeq_isEmpty, failuresSeq_isEmpty, List.all_cons, List.all_cons, h1,
        ← failuresSeq_isEmpty, ← failuresSeq_isEmpty, h2]
    refine ⟨?_, fun xs' ys' e1 e2 => by cases e1; cases e2; exact hseq⟩
    simp only [cleanAt, failuresAt]
    cases TPath.firstMatch table p with
    | some c => simp only []; rw [runL_eqv c (Eqv.seqCons hxy hrest)]
    | none => exact hseq
  | @map a b hnone hval ih =>
    intro w1 w2 p
    have wa := WF.map_iff.mp w1
    have wb := WF.map_iff.mp w2
    have hm : MEqv a b := ⟨hnone, hval⟩
    refine ⟨?_, fun _ _ h => by cases h⟩
    simp only [cleanAt, failuresAt]
    cases TPath.firstMatch table p with
    | some c => simp only []; rw [runL_eqv c (Eqv.map hnone hval)]
    | none =>
      simp only []
      rw [failuresKVs_isEmpty, failuresKVs_isEmpty]
      apply Bool.eq_iff_iff.mpr
      rw [lookup_all_of_nodup wa.1 (fun k v => cleanAt (Validate.next p k) v),
        lookup_all_of_nodup wb.1 (fun k v => cleanAt (Validate.next p k) v)]
      constructor
      · intro hh k y hy
        obtain ⟨x, hx, _⟩ := hm.lookup_some' hy
        rw [← (ih k x y hx hy (wa.2 k x hx) (wb.2 k y hy) (Validate.next p k)).1]; exact hh k x hx
      · intro hh k x hx
        obtain ⟨y, hy, _⟩ := hm.lookup_some hx
        rw [(ih k x y hx hy (wa.2 k x hx) (wb.2 k y hy) (Validate.next p k)).1]; exact hh k y hy

/-- **`validation.Validate` as a whole tree walk**: equivalent trees are accepted or rejected alike -/
theorem validTree_eqv {v w : Val} (h : Eqv v w) (wv : WF v) (ww : WF w) : validTreeB v = validTreeB w :=
  (cleanAt_eqv h wv ww TPath.root).1

theorem runL_ne_ok (c : Checker) (v : Val) : ∀ o ∈ runL c v, o ≠ .ok := by
  intro o ho
  unfold runL at ho
  split at ho
  · cases ho
  · rename_i hne
    simp only [List.mem_singleton] at ho
    subst ho; intro e; exact hne e

mutual
theorem noOk_at (p : TPath) : ∀ v : Val, ∀ o ∈ failuresAt p v, o ≠ .ok
  | .map kvs => by
    intro o ho; simp only [failuresAt] at ho
    split at ho
    · exact runL_ne_ok _ _ o ho
    · exact noOk_kvs p kvs o ho
  | .seq xs => by
    intro o ho; simp only [failuresAt] at ho
    split at ho
    · exact runL_ne_ok _ _ o ho
    · exact noOk_seq p xs o ho
  | .null => by intro o ho; simp only [failuresAt] at ho; split at ho; exact runL_ne_ok _ _ o ho; cases ho
  | .bool b => by intro o ho; simp only [failuresAt] at ho; split at ho; exact runL_ne_ok _ _ o ho; cases ho
  | .int i => by intro o ho; simp only [failuresAt] at ho; split at ho; exact runL_ne_ok _ _ o ho; cases ho
  | .float f => by intro o ho; simp only [failuresAt] at ho; split at ho; exact runL_ne_ok _ _ o ho; cases ho
  | .str s => by intro o ho; simp only [failuresAt] at ho; split at ho; exact runL_ne_ok _ _ o ho; cases ho
theorem noOk_kvs (p : TPath) : ∀ m : List (String × Val), ∀ o ∈ failuresKVs p m, o ≠ .ok
  | [] => by intro o ho; simp [failuresKVs] at ho
  | (k, v) :: r => by
    intro o ho; simp only [failuresKVs, List.mem_append] at ho
    rcases ho with ho | ho
    · exact noOk_at (Validate.next p k) v o ho
    · exact noOk_kvs p r o ho
theorem noOk_seq (p : TPath) : ∀ xs : List Val, ∀ o ∈ failuresSeq p xs, o ≠ .ok
  | [] => by intro o ho; simp [failuresSeq] at ho
  | v :: r => by
    intro o ho; simp only [failuresSeq, List.mem_append] at ho
    rcases ho with ho | ho
    · exact noOk_at (Validate.next p "[]") v o ho
    · exact noOk_seq p r o ho
end

/-- `Validate` returns no error exactly when the walk finds no failing node -/
theorem validate_ok_iff (t : Val) : validate t = .ok ↔ validTreeB t = true := by
  unfold validate validTreeB failures
  cases h : failuresAt TPath.root t with
  | nil => simp
  | cons o r =>
    have := noOk_at TPath.root t o (by rw [h]; exact List.mem_cons_self)
    simp [this]

/-- **`validation.Validate` accepts or rejects equivalent trees alike** -/
theorem validate_eqv {v w : Val} (h : Eqv v w) (wv : WF v) (ww : WF w) : (validate v = .ok) ↔ (validate w = .ok) := by
  rw [validate_ok_iff, validate_ok_iff, validTree_eqv h wv ww]

end CV.Det.Stage
