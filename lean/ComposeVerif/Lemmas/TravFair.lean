import ComposeVerif.Lemmas.TravLive
import ComposeVerif.Lemmas.TravInvS
/-!
# Liveness without help from the environment

`deadlock_free` accepts *any* enabled label, including the two environment steps (`wReturn`: a visitor returns;
`extCancel`: the caller cancels its context).  Here the labels are split: `internal l` = a step of `walk` itself.
`progress_inv`: a state satisfying the invariants is terminal, or `walk` itself can move, or a visitor callback is in
progress (and may return).  So the only thing `walk` ever waits for is a visitor — never a lost wake-up, never a full
channel, never a semaphore slot that nobody will free; with or without error, cancelled or not, skipped vertices or not.
-/
set_option linter.unusedSimpArgs false
set_option linter.unusedVariables false
namespace CV.Trav

/-- steps taken by the goroutines of `walk` (everything but the visitor's return and the caller's cancellation) -/
def internal : Label → Bool
  | .wReturn _ _ => false
  | .extCancel => false
  | _ => true

theorem ex_int {g : Graph} {lim : Option Nat} {s : St} (l : Label) (hi : internal l = true)
    (h : (step? g lim s l).isSome = true) : ∃ l s', internal l = true ∧ step? g lim s l = some s' := by
  cases hh : step? g lim s l with
  | some s' => exact ⟨l, s', hi, hh⟩
  | none => simp [hh] at h

/-- the first worker of the list is inside the visitor, or it can take an internal step -/
theorem worker_progress (g : Graph) (lim : Option Nat) (s : St) (v : V) (pc : WPc) (ws : List (V × WPc))
    (h : s.workers = (v, pc) :: ws) :
    (∃ l s', internal l = true ∧ step? g lim s l = some s') ∨ wpc s.workers v = some .running := by
  have hw : wpc s.workers v = some pc := by rw [h]; exact wpc_head v pc ws
  cases pc with
  | start =>
    left
    by_cases hs : g.skip v = true
    · exact ex_int (.wBegin v) rfl (by simp [step?, hw, hs])
    · exact ex_int (.wBegin v) rfl (by simp [step?, hw, hs])
  | running => exact .inr hw
  | returned e => exact .inl (ex_int (.wDone v) rfl (by simp [step?, hw]))
  | marked e => exact .inl (ex_int (.wSend v) rfl (by simp [step?, hw]))
  | sent e => exact .inl (ex_int (.wExit v) rfl (by simp [step?, hw]))

theorem sched_progress (g : Graph) (lim : Option Nat) (hl : ∀ l, lim = some l → 1 ≤ l) (s : St) (w : Who) (sc : Sched)
    (hs : getSched s w = some sc) (hw : s.workers = []) : ∃ l s', internal l = true ∧ step? g lim s l = some s' := by
  obtain ⟨todo, sub⟩ := sc
  cases sub with
  | next =>
    cases todo with
    | nil => exact ex_int (.schedEnd w) rfl (by simp [step?, hs])
    | cons v r => exact ex_int (.schedNext w v) rfl (by simp [step?, hs])
  | ready v =>
    by_cases hr : ((g.pre v).all fun d => s.status d == .visited) = true
    · exact ex_int (.ready w) rfl (by simp only [step?, hs, hr]; rfl)
    · exact ex_int (.ready w) rfl (by simp only [step?, hs, hr]; rfl)
  | enter v =>
    by_cases hr : s.status v = .absent
    · exact ex_int (.enter w) rfl (by simp [step?, hs, hr])
    · exact ex_int (.enter w) rfl (by simp [step?, hs, hr])
  | spawn v =>
    apply ex_int (.spawn w) rfl
    cases lim with
    | none => simp [step?, hs, slotFree]
    | some l =>
      have h1 := hl l rfl
      have : sem s < l + 1 := by
        unfold sem; rw [hw]; simp; split <;> omega
      simp [step?, hs, slotFree, this]

/-- **progress**: terminal, or an internal step is enabled, or a visitor is running -/
theorem progress_inv (g : Graph) (hg : GraphOK g) (lim : Option Nat) (hl : ∀ l, lim = some l → 1 ≤ l)
    (s : St) (hA : InvA s) (hI : InvB g s) :
    terminal s ∨ (∃ l s', internal l = true ∧ step? g lim s l = some s') ∨ (∃ v, wpc s.workers v = some .running) := by
  cases hw : s.workers with
  | cons p ws =>
    obtain ⟨v, pc⟩ := p
    rcases worker_progress g lim s v pc ws hw with h | h
    · exact .inr (.inl h)
    · exact .inr (.inr ⟨v, hw ▸ h⟩)
  | nil =>
    cases hm : s.m with
    | some sc => exact .inr (.inl (sched_progress g lim hl s .M sc (by simp [getSched, hm]) hw))
    | none =>
      cases hc : s.cAlive with
      | false => exact .inl ⟨hm, hw, hc⟩
      | true =>
        cases hcs : s.cSched with
        | some sc => exact .inr (.inl (sched_progress g lim hl s .C sc (by simp [getSched, hc, hcs]) hw))
        | none =>
          cases hch : s.ch with
          | cons v rest =>
            refine .inr (.inl (ex_int .cRecv rfl ?_))
            simp only [step?, hc, hcs, hch]
            by_cases h0 : s.expect - 1 = 0 <;> simp [h0]
          | nil =>
            cases hcan : s.cancelled with
            | true => exact .inr (.inl (ex_int .cCtxDone rfl (by simp [step?, hc, hcs, hcan, hm])))
            | false =>
              -- nobody is left but the coordinator at `select` with an empty channel: the invariants forbid it
              exfalso
              obtain ⟨v, hv, hnr, hpre⟩ := exists_min_unreceived g hg s hI hc
              have habs : s.status v = .absent := by
                cases hst : s.status v with
                | absent => rfl
                | entered =>
                  rcases hA.enteredWhere v hst with ⟨pc, hpc⟩ | ⟨w, hp⟩
                  · rw [hw] at hpc; cases hpc
                  · cases w with
                    | M => simp [getSched, hm, spawnOf] at hp
                    | C => simp [getSched, hc, hcs, spawnOf] at hp
                | visited =>
                  rcases hA.visitedWhere v hst with ⟨e, he⟩ | h | h
                  · rw [hw] at he; cases he
                  · rw [hch] at h; cases h
                  · exact absurd h hnr
              by_cases hp : g.pre v = []
              · rcases hI.wakeM v hv hp with h | ⟨x, hx, _⟩
                · exact h habs
                · simp [getSched, hm] at hx
              · rcases hI.wakeC hcan hc v hv hp hpre with h | ⟨x, hx, _⟩
                · exact h habs
                · simp [getSched, hc, hcs] at hx

/-- a running visitor may return (with either result): the environment step is enabled -/
theorem running_can_return (g : Graph) (lim : Option Nat) (s : St) (v : V) (e : Bool)
    (h : wpc s.workers v = some .running) : ∃ s', step? g lim s (.wReturn v e) = some s' := by
  simp [step?, h]

/-- labels of a completion that needs neither an error nor a cancellation -/
def calm : Label → Bool
  | .wReturn _ e => !e
  | .extCancel => false
  | _ => true

/-- **every reachable state can be completed**: some continuation, in which every visitor still to return returns nil
and nobody cancels, ends with `walk` returned — within `mu g s` steps -/
theorem can_finish {g : Graph} {lim : Option Nat} (hg : GraphOK g) (hl : ∀ l, lim = some l → 1 ≤ l) :
    ∀ (n : Nat) (s : St), Reach g lim s → mu g s ≤ n →
      ∃ ls s', runL g lim s ls = some s' ∧ terminal s' ∧ ls.length ≤ mu g s ∧ ls.all calm = true := by
  intro n
  induction n with
  | zero =>
    intro s h hn
    have hI := reach_inv hg h
    rcases progress_inv g hg lim hl s hI.a hI.b with ht | ⟨l, s1, _, hs⟩ | ⟨v, hv⟩
    · exact ⟨[], s, rfl, ht, Nat.zero_le _, rfl⟩
    · have := mu_decreases hg hI.a hI.b (step?_sound hs); omega
    · obtain ⟨s1, hs⟩ := running_can_return g lim s v false hv
      have := mu_decreases hg hI.a hI.b (step?_sound hs); omega
  | succ n ih =>
    intro s h hn
    have hI := reach_inv hg h
    have next : ∀ (l : Label) (s1 : St), calm l = true → step? g lim s l = some s1 →
        ∃ ls s', runL g lim s ls = some s' ∧ terminal s' ∧ ls.length ≤ mu g s ∧ ls.all calm = true := by
      intro l s1 hcalm hs
      have hd := mu_decreases hg hI.a hI.b (step?_sound hs)
      obtain ⟨ls, s', hr, ht, hlen, hall⟩ := ih s1 (.step h hs) (by omega)
      refine ⟨l :: ls, s', ?_, ht, ?_, ?_⟩
      · simp [runL, hs, hr]
      · simp only [List.length_cons]; omega
      · simp [hcalm, hall]
    rcases progress_inv g hg lim hl s hI.a hI.b with ht | ⟨l, s1, hint, hs⟩ | ⟨v, hv⟩
    · exact ⟨[], s, rfl, ht, Nat.zero_le _, rfl⟩
    · refine next l s1 ?_ hs
      cases l <;> first | rfl | cases hint
    · obtain ⟨s1, hs⟩ := running_can_return g lim s v false hv
      exact next _ s1 rfl hs

/-- while a visitor of `v` is in progress every prerequisite of `v` has completed its whole visit (status `visited`:
its worker is past `t.done` or gone), so no prerequisite's visitor overlaps with `v`'s -/
theorem worker_pre_done {g : Graph} {s : St} (hA : InvA s) (hL : ∀ v, s.status v ≠ .absent → ∀ d ∈ g.pre v, s.status d = .visited)
    (v : V) (pc : WPc) (hv : (v, pc) ∈ s.workers) (d : V) (hd : d ∈ g.pre v) (pcd : WPc) (hdw : (d, pcd) ∈ s.workers) :
    ∃ e, pcd = .marked e ∨ pcd = .sent e := by
  have hvis := hL v (hA.worker_status hv) d hd
  rcases wpc_cases pcd with he | ⟨e, rfl⟩ | ⟨e, rfl⟩
  · have := hA.wkEarly d pcd hdw he
    rw [hvis] at this; cases this
  · exact ⟨e, .inl rfl⟩
  · exact ⟨e, .inr rfl⟩

end CV.Trav
