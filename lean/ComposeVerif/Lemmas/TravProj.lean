import ComposeVerif.Model.TravProj
import ComposeVerif.Lemmas.DepGraphProj
import ComposeVerif.Lemmas.TravInvS
import ComposeVerif.Lemmas.TravLive
/-!
# The graph `CollectInDependencyOrder` hands to `walk` satisfies `GraphOK`

`adjP p` is the adjacency `build` returns on success; `children (adjP p) = depAdj p`, `parents (adjP p)` is its converse
(service names are the keys of a Go map: duplicate-free), so for an accepted non-empty project `graphOf` is a `GraphOK`
graph in both directions and every theorem about `Trav.step?` applies to the walk of the project.
-/
set_option linter.unusedSimpArgs false
set_option linter.unusedVariables false
namespace CV.TravProj
open CV.DepGraph CV.Trav

abbrev names (p : Proj) : List Name := p.services.map (·.name)

/-- the adjacency `build` returns when no required dependency is missing -/
def adjP (p : Proj) : List (Name × List Name) := p.services.map (fun s => (s.name, enabledDeps (names p) s))

theorem build_eq (p : Proj) {adj : List (Name × List Name)}
    (h : build (names p) p.disabled p.services [] = (none, adj)) : adj = adjP p := by
  have hb := build_ok (names p) p.disabled p.services [] (by rw [h])
  rw [h] at hb
  simpa [adjP] using hb

theorem children_adjP (p : Proj) : children (adjP p) = depAdj p := by
  funext v
  unfold children adjP
  rw [adjOf_map]
  rfl

theorem mem_parents_adjP (p : Proj) (v d : Name) :
    d ∈ parents (adjP p) v ↔ ∃ s ∈ p.services, s.name = d ∧ v ∈ enabledDeps (names p) s := by
  unfold parents adjP
  simp only [List.mem_map, List.mem_filter, List.contains_iff_mem]
  constructor
  · rintro ⟨a, ⟨⟨s, hs, rfl⟩, hv⟩, rfl⟩
    exact ⟨s, hs, rfl, hv⟩
  · rintro ⟨s, hs, rfl, hv⟩
    exact ⟨(s.name, enabledDeps (names p) s), ⟨⟨s, hs, rfl⟩, hv⟩, rfl⟩

theorem find_of_nodup (l : List Svc) (hnd : (l.map (·.name)).Nodup) (s : Svc) (hs : s ∈ l) :
    l.find? (·.name == s.name) = some s := by
  induction l with
  | nil => cases hs
  | cons a r ih =>
    simp only [List.map_cons, List.nodup_cons] at hnd
    rcases List.mem_cons.mp hs with rfl | hr
    · simp
    · have hne : (a.name == s.name) = false := by
        apply Bool.eq_false_iff.mpr
        intro he
        simp only [beq_iff_eq] at he
        exact hnd.1 (he ▸ List.mem_map.mpr ⟨s, hr, rfl⟩)
      rw [List.find?_cons, hne]
      exact ih hnd.2 hr

/-- `dest.parents[name] = src` is written exactly when `src.children[dep] = dest` is -/
theorem parents_of_depAdj (p : Proj) {v d : Name} (h : v ∈ depAdj p d) : d ∈ parents (adjP p) v := by
  rw [mem_parents_adjP]
  unfold depAdj at h
  cases hf : p.services.find? (·.name == d) with
  | none => rw [hf] at h; cases h
  | some s =>
    rw [hf] at h
    have hn := List.find?_some hf
    simp only [beq_iff_eq] at hn
    exact ⟨s, List.mem_of_find?_eq_some hf, hn, h⟩

theorem depAdj_of_parents (p : Proj) (hnd : (names p).Nodup) {v d : Name} (h : d ∈ parents (adjP p) v) :
    v ∈ depAdj p d := by
  rw [mem_parents_adjP] at h
  obtain ⟨s, hs, rfl, hv⟩ := h
  unfold depAdj
  rw [find_of_nodup p.services hnd s hs]
  exact hv

theorem mem_parents_iff (p : Proj) (hnd : (names p).Nodup) (v d : Name) :
    d ∈ parents (adjP p) v ↔ v ∈ depAdj p d :=
  ⟨depAdj_of_parents p hnd, parents_of_depAdj p⟩

theorem parents_mem_names (p : Proj) {v d : Name} (h : d ∈ parents (adjP p) v) : d ∈ names p := by
  rw [mem_parents_adjP] at h
  obtain ⟨s, hs, rfl, _⟩ := h
  exact List.mem_map.mpr ⟨s, hs, rfl⟩

/-- **the hypothesis of every traversal theorem holds for what `newGraph` + `checkCycle` accept**, in both directions
and for every root selection -/
theorem graphOf_ok (p : Proj) (hnd : (names p).Nodup) (hne : names p ≠ [])
    (hc : checkCycle (names p) (depAdj p) = false) (inverse : Bool) (after : List Name) :
    GraphOK (graphOf (names p) (adjP p) inverse after) := by
  obtain ⟨rk, hrk, hle⟩ := ranked_of_checkCycle_false (depAdj p) (names p) (depAdj_closed p) hc
  cases inverse with
  | false =>
    refine ⟨hnd, hne, ?_, ?_, ?_, ⟨rk, ?_⟩⟩
    · intro v hv d hd
      simp only [graphOf, Bool.false_eq_true, if_false, children_adjP] at hd
      exact depAdj_closed p v hv d hd
    · intro v _ d hd
      simp only [graphOf, Bool.false_eq_true, if_false] at hd
      exact parents_mem_names p hd
    · intro v _ d hd
      simp only [graphOf, Bool.false_eq_true, if_false, children_adjP] at hd ⊢
      exact parents_of_depAdj p hd
    · intro v hv d hd
      simp only [graphOf, Bool.false_eq_true, if_false, children_adjP] at hd
      exact hrk v hv d hd
  | true =>
    refine ⟨hnd, hne, ?_, ?_, ?_, ⟨fun v => (names p).length - rk v, ?_⟩⟩
    · intro v _ d hd
      simp only [graphOf, if_true] at hd
      exact parents_mem_names p hd
    · intro v hv d hd
      simp only [graphOf, if_true, children_adjP] at hd
      exact depAdj_closed p v hv d hd
    · intro v _ d hd
      simp only [graphOf, if_true, children_adjP] at hd ⊢
      exact depAdj_of_parents p hnd hd
    · intro v _ d hd
      simp only [graphOf, if_true] at hd
      have hdv := parents_mem_names p hd
      have := hrk d hdv v (depAdj_of_parents p hnd hd)
      have h1 := hle d
      have h2 := hle v
      show (names p).length - rk d < (names p).length - rk v
      omega

/-! ### acceptance and the dependency graph do not depend on the iteration order of the Go maps -/

theorem scanDeps_none_iff (en dis : List Name) :
    ∀ (l : List Dep) (es : List Name),
      (scanDeps en dis l es).1 = none ↔ ∀ d ∈ l, en.contains d.name = true ∨ d.required = false := by
  intro l
  induction l with
  | nil => intro es; simp [scanDeps]
  | cons d r ih =>
    intro es
    simp only [scanDeps]
    by_cases hen : en.contains d.name = true
    · simp only [hen, if_true]
      rw [ih]
      constructor
      · intro h x hx
        rcases List.mem_cons.mp hx with rfl | hx
        · exact .inl hen
        · exact h x hx
      · intro h x hx; exact h x (List.mem_cons_of_mem _ hx)
    · simp only [hen, Bool.false_eq_true, if_false]
      by_cases hreq : d.required = true
      · simp only [hreq, if_true]
        constructor
        · intro h; cases h
        · intro h
          rcases h d (List.mem_cons_self ..) with h1 | h1
          · exact absurd h1 hen
          · rw [hreq] at h1; cases h1
      · simp only [hreq, Bool.false_eq_true, if_false]
        rw [ih]
        constructor
        · intro h x hx
          rcases List.mem_cons.mp hx with rfl | hx
          · right; simpa using hreq
          · exact h x hx
        · intro h x hx; exact h x (List.mem_cons_of_mem _ hx)

theorem build_none_iff (en dis : List Name) :
    ∀ (l : List Svc) (adj : List (Name × List Name)),
      (build en dis l adj).1 = none ↔ ∀ s ∈ l, ∀ d ∈ s.deps, en.contains d.name = true ∨ d.required = false := by
  intro l
  induction l with
  | nil => intro adj; simp [build]
  | cons s r ih =>
    intro adj
    simp only [build]
    have hs := scanDeps_none_iff en dis s.deps []
    generalize scanDeps en dis s.deps [] = r0 at hs ⊢
    obtain ⟨e, es⟩ := r0
    cases e with
    | some e =>
      simp only at hs ⊢
      constructor
      · intro h; cases h
      · intro h
        have := hs.mpr (h s (List.mem_cons_self ..))
        cases this
    | none =>
      simp only at hs ⊢
      rw [ih]
      have h0 := hs.mp trivial
      constructor
      · intro h x hx
        rcases List.mem_cons.mp hx with rfl | hx
        · exact h0
        · exact h x hx
      · intro h x hx; exact h x (List.mem_cons_of_mem _ hx)

/-- membership in the dependency graph, without any reference to an order -/
theorem mem_depAdj_iff (p : Proj) (hnd : (names p).Nodup) (v c : Name) :
    c ∈ depAdj p v ↔ ∃ s ∈ p.services, s.name = v ∧ (∃ d ∈ s.deps, d.name = c) ∧ c ∈ names p := by
  constructor
  · intro h
    unfold depAdj at h
    cases hf : p.services.find? (·.name == v) with
    | none => rw [hf] at h; cases h
    | some s =>
      rw [hf] at h
      have hn := List.find?_some hf
      simp only [beq_iff_eq] at hn
      simp only [enabledDeps, List.mem_map, List.mem_filter, List.contains_iff_mem] at h
      obtain ⟨d, ⟨hd, hen⟩, rfl⟩ := h
      exact ⟨s, List.mem_of_find?_eq_some hf, hn, ⟨d, hd, rfl⟩, List.mem_map.mpr hen⟩
  · rintro ⟨s, hs, rfl, ⟨d, hd, rfl⟩, hen⟩
    unfold depAdj
    rw [find_of_nodup p.services hnd s hs]
    simp only [enabledDeps, List.mem_map, List.mem_filter, List.contains_iff_mem]
    exact ⟨d, ⟨hd, List.mem_map.mp hen⟩, rfl⟩

theorem accepted_iff_lemma (p : Proj) :
    (run p).cls = "ok" ↔
      (∀ s ∈ p.services, ∀ d ∈ s.deps, d.required = true → d.name ∈ names p) ∧
      (∀ v ∈ names p, ∀ n, ¬ Reaches (depAdj p) n v v) := by
  have hbi := build_none_iff (names p) p.disabled p.services []
  by_cases hb : (build (names p) p.disabled p.services []).1 = none
  · have hacc := (⟨fun hok v hv n hr => cyclic_project_refused_lemma p v hv n hr hok, acyclic_project_accepted_lemma p hb⟩ :
        (run p).cls = "ok" ↔ ∀ v ∈ names p, ∀ n, ¬ Reaches (depAdj p) n v v)
    constructor
    · intro h
      refine ⟨?_, hacc.mp h⟩
      intro s hs d hd hreq
      rcases hbi.mp hb s hs d hd with h1 | h1
      · simpa using h1
      · rw [hreq] at h1; cases h1
    · intro h; exact hacc.mpr h.2
  · constructor
    · intro h; exact absurd h ((run_cls_of_build p).1 hb)
    · intro h
      exfalso
      apply hb
      apply hbi.mpr
      intro s hs d hd
      by_cases hreq : d.required = true
      · left; simpa using h.1 s hs d hd hreq
      · right; simpa using hreq

/-- two association-list renderings of the same Go maps: the same services (by name), each with the same `depends_on`
entries, in any order -/
def SameMaps (p q : Proj) : Prop :=
  (∀ s ∈ p.services, ∃ t ∈ q.services, t.name = s.name ∧ ∀ d, d ∈ s.deps ↔ d ∈ t.deps) ∧
  (∀ t ∈ q.services, ∃ s ∈ p.services, s.name = t.name ∧ ∀ d, d ∈ s.deps ↔ d ∈ t.deps)

theorem SameMaps.symm {p q : Proj} (h : SameMaps p q) : SameMaps q p :=
  ⟨fun t ht => by obtain ⟨s, hs, hn, hd⟩ := h.2 t ht; exact ⟨s, hs, hn, fun d => (hd d).symm⟩,
   fun s hs => by obtain ⟨t, ht, hn, hd⟩ := h.1 s hs; exact ⟨t, ht, hn, fun d => (hd d).symm⟩⟩

theorem SameMaps.names_sub {p q : Proj} (h : SameMaps p q) : ∀ v, v ∈ names p → v ∈ names q := by
  intro v hv
  obtain ⟨s, hs, rfl⟩ := List.mem_map.mp hv
  obtain ⟨t, ht, hn, _⟩ := h.1 s hs
  exact List.mem_map.mpr ⟨t, ht, hn⟩

theorem SameMaps.depAdj_sub {p q : Proj} (hp : (names p).Nodup) (hq : (names q).Nodup) (h : SameMaps p q)
    (v c : Name) (hc : c ∈ depAdj p v) : c ∈ depAdj q v := by
  rw [mem_depAdj_iff p hp] at hc
  rw [mem_depAdj_iff q hq]
  obtain ⟨s, hs, rfl, ⟨d, hd, rfl⟩, hen⟩ := hc
  obtain ⟨t, ht, hn, hdeps⟩ := h.1 s hs
  exact ⟨t, ht, hn, ⟨d, (hdeps d).mp hd, rfl⟩, h.names_sub _ hen⟩

theorem Reaches.mono {adj adj' : Name → List Name} (h : ∀ v c, c ∈ adj v → c ∈ adj' v) {n : Nat} {a b : Name}
    (hr : Reaches adj n a b) : Reaches adj' n a b := by
  induction hr with
  | one hb => exact .one (h _ _ hb)
  | step hc _ ih => exact .step (h _ _ hc) ih

theorem accepted_sub {p q : Proj} (hp : (names p).Nodup) (hq : (names q).Nodup) (h : SameMaps p q)
    (hok : (run p).cls = "ok") : (run q).cls = "ok" := by
  rw [accepted_iff_lemma] at hok ⊢
  obtain ⟨hreq, hacyc⟩ := hok
  constructor
  · intro t ht d hd hr
    obtain ⟨s, hs, _, hdeps⟩ := h.2 t ht
    exact h.names_sub _ (hreq s hs d ((hdeps d).mpr hd) hr)
  · intro v hv n hn
    exact hacyc v (h.symm.names_sub v hv) n (Reaches.mono (h.symm.depAdj_sub hq hp) hn)

/-- what `plan` answers, case by case, in terms of `DepGraph.run` -/
theorem plan_cases (p : Proj) (inverse : Bool) (maxc : Int) (after : List Name) :
    (∃ cls, plan p inverse maxc after = .refused cls ∧ (run p).cls = cls ∧ cls ≠ "ok") ∨
    (plan p inverse maxc after = .empty ∧ (run p).cls = "ok" ∧ p.services = []) ∨
    (plan p inverse maxc after = .walk (graphOf (names p) (adjP p) inverse after) (limitOf maxc) ∧
      (run p).cls = "ok" ∧ names p ≠ [] ∧ checkCycle (names p) (depAdj p) = false) := by
  unfold plan run
  cases hb : build (names p) p.disabled p.services [] with
  | mk e adj =>
    cases e with
    | some e =>
      left
      refine ⟨errCls e, ?_⟩
      cases e <;> simp [hb, errCls]
    | none =>
      have hadj := build_eq p hb
      subst hadj
      have hch : adjOf (adjP p) = depAdj p := children_adjP p
      simp only [hb, hch]
      cases hc : checkCycle (names p) (depAdj p) with
      | true => left; exact ⟨"cycle", by simp [hc], by simp [hc], by decide⟩
      | false =>
        right
        by_cases hs : p.services = []
        · left; simp [hc, hs]
        · right
          have hne : names p ≠ [] := by simpa [names] using hs
          have hemp : (names p).isEmpty = false := by simpa [names] using hs
          simp only [names] at hemp hne
          simp [hc, hemp, hne]

end CV.TravProj
