import ComposeVerif.Model.TravProj
import ComposeVerif.Lemmas.DepGraphProj
import ComposeVerif.Lemmas.TravInvS
import ComposeVerif.Lemmas.TravLive
/-!
# The graph `CollectInDependencyOrder` hands to `walk` satisfies `GraphOK`

`adjP p` is the adjacency `build` returns on success; `children (adjP p) = depAdj p`, `parents (adjP p)` is its converse
(service names are the keys of a Go map: duplicate-free), so for an accepted non-empty project `graphOf` is a `GraphOK`
graph in both directions and every theorem about `Trav.step?` applies to the walk of the project.
-/
set_option linter.unusedSimpArgs false
set_option linter.unusedVariables false
namespace CV.TravProj
open CV.DepGraph CV.Trav

abbrev names (p : Proj) : List Name := p.services.map (·.name)

/-- the adjacency `build` returns when no required dependency is missing -/
def adjP (p : Proj) : List (Name × List Name) := p.services.map (fun s => (s.name, enabledDeps (names p) s))

theorem build_eq (p : Proj) {adj : List (Name × List Name)}
    (h : build (names p) p.disabled p.services [] = (none, adj)) : adj = adjP p := by
  have hb := build_ok (names p) p.disabled p.services [] (by rw [h])
  rw [h] at hb
  simpa [adjP] using hb

theorem children_adjP (p : Proj) : children (adjP p) = depAdj p := by
  funext v
  unfold children adjP
  rw [adjOf_map]
  rfl

theorem mem_parents_adjP (p : Proj) (v d : Name) :
    d ∈ parents (adjP p) v ↔ ∃ s ∈ p.services, s.name = d ∧ v ∈ enabledDeps (names p) s := by
  unfold parents adjP
  simp only [List.mem_map, List.mem_filter, List.contains_iff_mem]
  constructor
  · rintro ⟨a, ⟨⟨s, hs, rfl⟩, hv⟩, rfl⟩
    exact ⟨s, hs, rfl, hv⟩
  · rintro ⟨s, hs, rfl, hv⟩
    exact ⟨(s.name, enabledDeps (names p) s), ⟨⟨s, hs, rfl⟩, hv⟩, rfl⟩

theorem find_of_nodup (l : List Svc) (hnd : (l.map (·.name)).Nodup) (s : Svc) (hs : s ∈ l) :
    l.find? (·.name == s.name) = some s := by
  induction l with
  | nil => cases hs
  | cons a r ih =>
    simp only [List.map_cons, List.nodup_cons] at hnd
    rcases List.mem_cons.mp hs with rfl | hr
    · simp
    · have hne : (a.name == s.name) = false := by
        apply Bool.eq_false_iff.mpr
        intro he
        simp only [beq_iff_eq] at he
        exact hnd.1 (he ▸ List.mem_map.mpr ⟨s, hr, rfl⟩)
      rw [List.find?_cons, hne]
      exact ih hnd.2 hr

/-- `dest.parents[name] = src` is written exactly when `src.children[dep] = dest` is -/
theorem parents_of_depAdj (p : Proj) {v d : Name} (h : v ∈ depAdj p d) : d ∈ parents (adjP p) v := by
  rw [mem_parents_adjP]
  unfold depAdj at h
  cases hf : p.services.find? (·.name == d) with
  | none => rw [hf] at h; cases h
  | some s =>
    rw [hf] at h
    have hn := List.find?_some hf
    simp only [beq_iff_eq] at hn
    exact ⟨s, List.mem_of_find?_eq_some hf, hn, h⟩

theorem depAdj_of_parents (p : Proj) (hnd : (names p).Nodup) {v d : Name} (h : d ∈ parents (adjP p) v) :
    v ∈ depAdj p d := by
  rw [mem_parents_adjP] at h
  obtain ⟨s, hs, rfl, hv⟩ := h
  unfold depAdj
  rw [find_of_nodup p.services hnd s hs]
  exact hv

theorem mem_parents_iff (p : Proj) (hnd : (names p).Nodup) (v d : Name) :
    d ∈ parents (adjP p) v ↔ v ∈ depAdj p d :=
  ⟨depAdj_of_parents p hnd, parents_of_depAdj p⟩

theorem parents_mem_names (p : Proj) {v d : Name} (h : d ∈ parents (adjP p) v) : d ∈ names p := by
  rw [mem_parents_adjP] at h
  obtain ⟨s, hs, rfl, _⟩ := h
  exact List.mem_map.mpr ⟨s, hs, rfl⟩

/-- **the hypothesis of every traversal theorem holds for what `newGraph` + `checkCycle` accept**, in both directions
and for every root selection -/
theorem graphOf_ok (p : Proj) (hnd : (names p).Nodup) (hne : names p ≠ [])
    (hc : checkCycle (names p) (depAdj p) = false) (inverse : Bool) (after : List Name) :
    GraphOK (graphOf (names p) (adjP p) inverse after) := by
  obtain ⟨rk, hrk, hle⟩ := ranked_of_checkCycle_false (depAdj p) (names p) (depAdj_closed p) hc
  cases inverse with
  | false =>
    refine ⟨hnd, hne, ?_, ?_, ?_, ⟨rk, ?_⟩⟩
    · intro v hv d hd
      simp only [graphOf, Bool.false_eq_true, if_false, children_adjP] at hd
      exact depAdj_closed p v hv d hd
    · intro v _ d hd
      simp only [graphOf, Bool.false_eq_true, if_false] at hd
      exact parents_mem_names p hd
    · intro v _ d hd
      simp only [graphOf, Bool.false_eq_true, if_false, children_adjP] at hd ⊢
      exact parents_of_depAdj p hd
    · intro v hv d hd
      simp only [graphOf, Bool.false_eq_true, if_false, children_adjP] at hd
      exact hrk v hv d hd
  | true =>
    refine ⟨hnd, hne, ?_, ?_, ?_, ⟨fun v => (names p).length - rk v, ?_⟩⟩
    · intro v _ d hd
      simp only [graphOf, if_true] at hd
      exact parents_mem_names p hd
    · intro v hv d hd
      simp only [graphOf, if_true, children_adjP] at hd
      exact depAdj_closed p v hv d hd
    · intro v _ d hd
      simp only [graphOf, if_true, children_adjP] at hd ⊢
      exact depAdj_of_parents p hnd hd
    · intro v _ d hd
      simp only [graphOf, if_true] at hd
      have hdv := parents_mem_names p hd
      have := hrk d hdv v (depAdj_of_parents p hnd hd)
      have h1 := hle d
      have h2 := hle v
      show (names p).length - rk d < (names p).length - rk v
      omega

/-- what `plan` answers, case by case, in terms of `DepGraph.run` -/
theorem plan_cases (p : Proj) (inverse : Bool) (maxc : Int) (after : List Name) :
    (∃ cls, plan p inverse maxc after = .refused cls ∧ (run p).cls = cls ∧ cls ≠ "ok") ∨
    (plan p inverse maxc after = .empty ∧ (run p).cls = "ok" ∧ p.services = []) ∨
    (plan p inverse maxc after = .walk (graphOf (names p) (adjP p) inverse after) (limitOf maxc) ∧
      (run p).cls = "ok" ∧ names p ≠ [] ∧ checkCycle (names p) (depAdj p) = false) := by
  unfold plan run
  cases hb : build (names p) p.disabled p.services [] with
  | mk e adj =>
    cases e with
    | some e =>
      left
      refine ⟨errCls e, ?_⟩
      cases e <;> simp [hb, errCls]
    | none =>
      have hadj := build_eq p hb
      subst hadj
      have hch : adjOf (adjP p) = depAdj p := children_adjP p
      simp only [hb, hch]
      cases hc : checkCycle (names p) (depAdj p) with
      | true => left; exact ⟨"cycle", by simp [hc], by simp [hc], by decide⟩
      | false =>
        right
        by_cases hs : p.services = []
        · left; simp [hc, hs]
        · right
          have hne : names p ≠ [] := by simpa [names] using hs
          have hemp : (names p).isEmpty = false := by simpa [names] using hs
          simp only [names] at hemp hne
          simp [hc, hemp, hne]

end CV.TravProj
