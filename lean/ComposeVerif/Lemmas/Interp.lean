import ComposeVerif.Spec.Interp
/-! Helper lemmas for C08: facts about `CV.Template.subst` on escaped / `$`-free / `${NAME}` texts, and the
structural lemmas about `Interp.interp`. -/
namespace CV.TemplateC08
open CV CV.Template
open CV.Interp (escapeDollars ValidName)

/-! ## `template.Substitute` on three simple classes of text -/

theorem repl_escaped (f : Nat) (env : Env) : repl (f + 1) env ['$', '$'] = .ok ['$'] := by
  simp [repl, firstClose, firstCloseGo, matchDollar]

theorem scan_nil (f : Nat) (env : Env) (acc : Str) : scan (f + 1) env [] acc none = .ok acc := by
  rw [scan]

theorem scan_nondollar (f : Nat) (env : Env) (c : Char) (cs acc : Str) (fe : Option Err) (hc : (c == '$') = false) :
    scan (f + 1) env (c :: cs) acc fe = scan f env cs (acc ++ [c]) fe := by
  rw [scan]; simp only [hc]; rfl

theorem scan_escaped (f : Nat) (env : Env) (r acc : Str) (fe : Option Err) :
    scan (f + 2) env ('$' :: '$' :: r) acc fe = scan (f + 1) env r (acc ++ ['$']) fe := by
  rw [scan]; simp only [beq_self_eq_true, if_true, matchDollar, repl_escaped]

theorem scan_escape (env : Env) : ∀ (s : Str) (fuel : Nat) (acc : Str), (escapeDollars s).length + 1 ≤ fuel →
    scan fuel env (escapeDollars s) acc none = .ok (acc ++ s)
  | [], fuel, acc, h => by
    cases fuel with
    | zero => simp at h
    | succ f => simp [escapeDollars, scan_nil]
  | c :: cs, fuel, acc, h => by
    cases fuel with
    | zero => simp at h
    | succ f =>
      by_cases hc : c = '$'
      · subst hc
        simp only [escapeDollars, if_true, List.length_cons] at h ⊢
        cases f with
        | zero => omega
        | succ f' =>
          rw [scan_escaped, scan_escape env cs (f' + 1) _ (by omega)]
          simp
      · simp only [escapeDollars, hc, if_false, List.length_cons] at h ⊢
        have : (c == '$') = false := by simp [hc]
        rw [scan_nondollar _ _ _ _ _ _ this, scan_escape env cs f _ (by omega)]
        simp

theorem escapeDollars_length (s : Str) : (escapeDollars s).length ≤ 2 * s.length := by
  induction s with
  | nil => simp [escapeDollars]
  | cons c cs ih => by_cases hc : c = '$' <;> simp [escapeDollars, hc] <;> omega

theorem subst_escape (env : Env) (s : Str) : subst env (escapeDollars s) = .ok s := by
  unfold subst fuelFor
  rw [scan_escape env s _ [] (by omega)]
  simp

theorem scan_no_dollar (env : Env) : ∀ (s : Str) (fuel : Nat) (acc : Str), '$' ∉ s → s.length + 1 ≤ fuel →
    scan fuel env s acc none = .ok (acc ++ s)
  | [], fuel, acc, _, h => by
    cases fuel with
    | zero => simp at h
    | succ f => simp [scan_nil]
  | c :: cs, fuel, acc, hd, h => by
    cases fuel with
    | zero => simp at h
    | succ f =>
      have hc : (c == '$') = false := by
        simp only [List.mem_cons, not_or] at hd
        simp [Ne.symm hd.1]
      rw [scan_nondollar _ _ _ _ _ _ hc, scan_no_dollar env cs f _ (by simp only [List.mem_cons, not_or] at hd; exact hd.2) (by simp at h; omega)]
      simp

theorem subst_no_dollar (env : Env) (s : Str) (h : '$' ∉ s) : subst env s = .ok s := by
  unfold subst fuelFor
  rw [scan_no_dollar env s _ [] h (by omega)]
  simp
theorem nameChar_ne {c d : Char} (h : isNameChar c = true) (hd : isNameChar d = false) : c ≠ d := by
  intro e; subst e; rw [h] at hd; cases hd

theorem spanName_append (n : Str) (d : Char) (t : Str) (hn : ∀ c ∈ n, isNameChar c = true) (hd : isNameChar d = false) :
    spanName (n ++ d :: t) = (n, d :: t) := by
  induction n with
  | nil => simp [spanName, hd]
  | cons c cs ih =>
    have hc := hn c (by simp)
    have := ih (fun x hx => hn x (by simp [hx]))
    simp [spanName, hc, this]

theorem firstCloseGo_other (c : Char) (cs : Str) (i : Nat) (o : Int) (h1 : c ≠ '}') (h2 : c ≠ '{') :
    firstCloseGo (c :: cs) i o = firstCloseGo cs (i + 1) o := by
  rw [firstCloseGo] <;> (intros; simp_all)

theorem firstCloseGo_open (cs : Str) (i : Nat) (o : Int) :
    firstCloseGo ('{' :: cs) i o = firstCloseGo cs (i + 1) (o + 1) := by
  rw [firstCloseGo]

theorem firstCloseGo_close1 (cs : Str) (i : Nat) : firstCloseGo ('}' :: cs) i 1 = some i := by
  simp [firstCloseGo]

theorem firstCloseGo_name (t u : Str) (i : Nat) (ht : ∀ c ∈ t, isNameChar c = true) :
    firstCloseGo (t ++ '}' :: u) i 1 = some (i + t.length) := by
  induction t generalizing i with
  | nil => simp [firstCloseGo_close1]
  | cons c cs ih =>
    have hc := ht c (by simp)
    have h1 : c ≠ '}' := nameChar_ne hc (by decide)
    have h2 : c ≠ '{' := nameChar_ne hc (by decide)
    rw [List.cons_append, firstCloseGo_other _ _ _ _ h1 h2, ih (i + 1) (fun x hx => ht x (by simp [hx]))]
    simp; omega

theorem indexOfGo_none (a : Char) (pat s : Str) (i : Nat) (h : a ∉ s) : indexOfGo (a :: pat) s i = none := by
  induction s generalizing i with
  | nil => simp [indexOfGo]
  | cons c cs ih =>
    simp only [List.mem_cons, not_or] at h
    have : (a == c) = false := by simp [h.1]
    simp [indexOfGo, List.isPrefixOf, this, ih (i + 1) h.2]

theorem containsStr_op_name (op : Op) (n : Str) (hn : ∀ c ∈ n, isNameChar c = true) : containsStr op.str n = false := by
  have key : ∀ (a : Char) (pat : Str), isNameChar a = false → containsStr (a :: pat) n = false := by
    intro a pat ha
    simp only [containsStr, indexOf]
    rw [indexOfGo_none a pat n 0 (fun hm => by rw [hn a hm] at ha; cases ha)]
    rfl
  cases op <;> exact key _ _ (by decide)

theorem matchBraced_name (n : Str) (hv : ValidName n) : matchBraced (n ++ ['}']) = (.braced n, n ++ ['}'], []) := by
  obtain ⟨⟨c, r, rfl, hs⟩, hall⟩ := hv
  have hsp := spanName_append (c :: r) '}' [] hall (by decide)
  simp only [List.cons_append] at hsp
  simp only [matchBraced, List.cons_append, hs, if_true, hsp]

theorem repl_braced_name (f : Nat) (env : Env) (n : Str) (hv : ValidName n) :
    repl (f + 1) env ('$' :: '{' :: (n ++ ['}'])) = .ok ((env n).getD []) := by
  have hall := hv.2
  obtain ⟨c, r, hn, hs⟩ := hv.1
  have hfc : firstClose ('$' :: '{' :: (n ++ ['}'])) = some (n.length + 2) := by
    simp only [firstClose]
    rw [firstCloseGo_other _ _ _ _ (by decide) (by decide), firstCloseGo_open,
      show ((0 : Int) + 1) = 1 from rfl,
      firstCloseGo_name n [] _ hall]
    simp; omega
  have hlen : ('$' :: '{' :: (n ++ ['}'])).length = n.length + 2 + 1 := by simp
  rw [repl]
  simp only [hfc]
  rw [List.take_of_length_le (by rw [hlen]; omega)]
  simp only [matchDollar, matchBraced_name n hv, containsStr_op_name _ n hall]
  rfl

theorem subst_braced_var (env : Env) (n : Str) (hv : ValidName n) :
    subst env ('$' :: '{' :: (n ++ ['}'])) = .ok ((env n).getD []) := by
  unfold subst fuelFor
  have : 2 * ('$' :: '{' :: (n ++ ['}'])).length + 4 = (2 * n.length + 8) + 2 := by simp; omega
  rw [this, scan]
  simp only [beq_self_eq_true, if_true, matchDollar, matchBraced_name n hv, repl_braced_name _ env n hv]
  rw [scan]; simp
end CV.TemplateC08

namespace CV.Interp
open CV CV.TPath

/-! ## leaves -/

theorem apply_scalar {fp : FloatParser} {c : Caster} {s : String} {v : Val} (h : c.apply fp s = some v) : isScalar v := by
  cases c <;> simp only [Caster.apply, Option.map_eq_some_iff] at h
  all_goals first | (obtain ⟨a, _, rfl⟩ := h; trivial) | cases h

theorem castOnly_scalar {c : Cfg} {p : TPath} {s : String} {v : Val} (h : castOnly c p s = .ok v) : isScalar v := by
  unfold castOnly at h
  split at h
  · cases h; trivial
  · split at h
    · cases h; exact apply_scalar ‹_›
    · cases h

/-- the string arm of `recursiveInterpolate`: substitute, then cast -/
theorem leaf_of_subst {c : Cfg} {p : TPath} {s : String} {s' : Str}
    (h : CV.Template.subst c.env s.toList = .ok s') : leaf c p s = castOnly c p (String.ofList s') := by
  unfold leaf castOnly
  simp only [h]
  rfl

theorem leaf_ok_inv {c : Cfg} {p : TPath} {s : String} {v : Val} (h : leaf c p s = .ok v) :
    ∃ s', CV.Template.subst c.env s.toList = .ok s' ∧ castOnly c p (String.ofList s') = .ok v := by
  cases hs : CV.Template.subst c.env s.toList with
  | ok s' => exact ⟨s', rfl, by rw [← leaf_of_subst hs]; exact h⟩
  | err e => unfold leaf at h; rw [hs] at h; cases e <;> cases h
  | panic site => unfold leaf at h; rw [hs] at h; cases site <;> cases h

theorem leaf_scalar {c : Cfg} {p : TPath} {s : String} {v : Val} (h : leaf c p s = .ok v) : isScalar v := by
  obtain ⟨_, _, h2⟩ := leaf_ok_inv h
  exact castOnly_scalar h2

theorem castOnly_err_path {c : Cfg} {p : TPath} {s : String} {e : Err} (h : castOnly c p s = .err e) :
    e = .cast (pathString p) ∧ ∃ name, firstMatch c.table p = some name ∧ (Caster.ofName name).apply c.fp s = none := by
  unfold castOnly at h
  split at h
  · cases h
  · rename_i name hm
    split at h
    · cases h
    · cases h; exact ⟨rfl, name, hm, ‹_›⟩

theorem leaf_err_path {c : Cfg} {p : TPath} {s : String} {e : Err} (h : leaf c p s = .err e) : e.path = pathString p := by
  cases hs : CV.Template.subst c.env s.toList with
  | ok s' =>
    rw [leaf_of_subst hs] at h
    rw [(castOnly_err_path h).1]; rfl
  | err e' =>
    unfold leaf at h; rw [hs] at h
    cases e' <;> (cases h; rfl)
  | panic site => unfold leaf at h; rw [hs] at h; cases site <;> cases h

/-! ## shape -/

mutual
theorem interp_shape (c : Cfg) : ∀ (v : Val) (p : TPath) (v' : Val), interp c p v = .ok v' → SameShape v v'
  | .str s, p, v', h => by
    simp only [interp] at h
    simp only [SameShape]
    exact leaf_scalar h
  | .map kvs, p, v', h => by
    simp only [interp] at h
    split at h <;> cases h
    exact ⟨_, rfl, interpKVs_shape c kvs p _ ‹_›⟩
  | .seq xs, p, v', h => by
    simp only [interp] at h
    split at h <;> cases h
    exact ⟨_, rfl, interpList_shape c xs p _ ‹_›⟩
  | .null, p, v', h => by simp only [interp] at h; cases h; rfl
  | .bool b, p, v', h => by simp only [interp] at h; cases h; rfl
  | .int b, p, v', h => by simp only [interp] at h; cases h; rfl
  | .float b, p, v', h => by simp only [interp] at h; cases h; rfl
theorem interpKVs_shape (c : Cfg) : ∀ (kvs : List (String × Val)) (p : TPath) (kvs' : List (String × Val)),
    interpKVs c p kvs = .ok kvs' → SameShapeKVs kvs kvs'
  | [], p, kvs', h => by simp only [interpKVs] at h; cases h; rfl
  | (k, v) :: r, p, kvs', h => by
    simp only [interpKVs] at h
    split at h <;> try cases h
    split at h <;> cases h
    exact ⟨_, _, rfl, interp_shape c v _ _ ‹_›, interpKVs_shape c r p _ ‹_›⟩
theorem interpList_shape (c : Cfg) : ∀ (xs : List Val) (p : TPath) (xs' : List Val),
    interpList c p xs = .ok xs' → SameShapeList xs xs'
  | [], p, xs', h => by simp only [interpList] at h; cases h; rfl
  | v :: r, p, xs', h => by
    simp only [interpList] at h
    split at h <;> try cases h
    split at h <;> cases h
    exact ⟨_, _, rfl, interp_shape c v _ _ ‹_›, interpList_shape c r p _ ‹_›⟩
end

theorem sameShapeKVs_keys : ∀ (kvs kvs' : List (String × Val)), SameShapeKVs kvs kvs' → kvs'.map Prod.fst = kvs.map Prod.fst
  | [], _, h => by simp only [SameShapeKVs] at h; subst h; rfl
  | (k, v) :: r, _, h => by
    simp only [SameShapeKVs] at h
    obtain ⟨v', r', rfl, _, hr⟩ := h
    simp [sameShapeKVs_keys r r' hr]

theorem sameShapeList_length : ∀ (xs xs' : List Val), SameShapeList xs xs' → xs'.length = xs.length
  | [], _, h => by simp only [SameShapeList] at h; subst h; rfl
  | v :: r, _, h => by
    simp only [SameShapeList] at h
    obtain ⟨v', r', rfl, _, hr⟩ := h
    simp [sameShapeList_length r r' hr]

/-! ## pointwise -/

theorem interpKVs_lookup (c : Cfg) (p : TPath) : ∀ (kvs kvs' : List (String × Val)), interpKVs c p kvs = .ok kvs' →
    ∀ k, match Val.lookup k kvs with
      | some v => ∃ v', Val.lookup k kvs' = some v' ∧ interp c (next p k) v = .ok v'
      | none => Val.lookup k kvs' = none
  | [], kvs', h, k => by simp only [interpKVs] at h; cases h; simp [Val.lookup]
  | (k0, v0) :: r, kvs', h, k => by
    simp only [interpKVs] at h
    split at h <;> try cases h
    rename_i v0' hv0
    split at h <;> cases h
    rename_i r' hr
    have ih := interpKVs_lookup c p r r' hr k
    by_cases hk : k = k0
    · subst hk; simp only [Val.lookup, if_true]; exact ⟨_, rfl, hv0⟩
    · simp only [Val.lookup, hk, if_false]; exact ih

theorem interpList_get (c : Cfg) (p : TPath) : ∀ (xs xs' : List Val), interpList c p xs = .ok xs' →
    ∀ i : Nat, match xs[i]? with
      | some v => ∃ v', xs'[i]? = some v' ∧ interp c (next p "[]") v = .ok v'
      | none => xs'[i]? = none
  | [], xs', h, i => by simp only [interpList] at h; cases h; simp
  | v0 :: r, xs', h, i => by
    simp only [interpList] at h
    split at h <;> try cases h
    rename_i v0' hv0
    split at h <;> cases h
    rename_i r' hr
    cases i with
    | zero => simp only [List.getElem?_cons_zero]; exact ⟨_, rfl, hv0⟩
    | succ j => simp only [List.getElem?_cons_succ]; exact interpList_get c p r r' hr j

/-! ## errors come from a string leaf and carry its path -/

mutual
theorem interp_err_leaf (c : Cfg) : ∀ (v : Val) (p : TPath) (e : Err), interp c p v = .err e →
    ∃ q s, (q, s) ∈ leaves p v ∧ leaf c q s = .err e
  | .str s, p, e, h => by simp only [interp] at h; exact ⟨p, s, by simp [leaves], h⟩
  | .map kvs, p, e, h => by
    simp only [interp] at h
    split at h <;> cases h
    simpa only [leaves] using interpKVs_err_leaf c kvs p e ‹_›
  | .seq xs, p, e, h => by
    simp only [interp] at h
    split at h <;> cases h
    simpa only [leaves] using interpList_err_leaf c xs p e ‹_›
  | .null, p, e, h => by simp only [interp] at h; cases h
  | .bool b, p, e, h => by simp only [interp] at h; cases h
  | .int b, p, e, h => by simp only [interp] at h; cases h
  | .float b, p, e, h => by simp only [interp] at h; cases h
theorem interpKVs_err_leaf (c : Cfg) : ∀ (kvs : List (String × Val)) (p : TPath) (e : Err), interpKVs c p kvs = .err e →
    ∃ q s, (q, s) ∈ leavesKVs p kvs ∧ leaf c q s = .err e
  | [], p, e, h => by simp only [interpKVs] at h; cases h
  | (k, v) :: r, p, e, h => by
    simp only [interpKVs] at h
    split at h
    · split at h <;> cases h
      obtain ⟨q, s, hm, hl⟩ := interpKVs_err_leaf c r p e ‹_›
      exact ⟨q, s, by simp only [leavesKVs, List.mem_append]; exact .inr hm, hl⟩
    · cases h
      obtain ⟨q, s, hm, hl⟩ := interp_err_leaf c v _ e ‹_›
      exact ⟨q, s, by simp only [leavesKVs, List.mem_append]; exact .inl hm, hl⟩
    · cases h
theorem interpList_err_leaf (c : Cfg) : ∀ (xs : List Val) (p : TPath) (e : Err), interpList c p xs = .err e →
    ∃ q s, (q, s) ∈ leavesList p xs ∧ leaf c q s = .err e
  | [], p, e, h => by simp only [interpList] at h; cases h
  | v :: r, p, e, h => by
    simp only [interpList] at h
    split at h
    · split at h <;> cases h
      obtain ⟨q, s, hm, hl⟩ := interpList_err_leaf c r p e ‹_›
      exact ⟨q, s, by simp only [leavesList, List.mem_append]; exact .inr hm, hl⟩
    · cases h
      obtain ⟨q, s, hm, hl⟩ := interp_err_leaf c v _ e ‹_›
      exact ⟨q, s, by simp only [leavesList, List.mem_append]; exact .inl hm, hl⟩
    · cases h
end

/-! ## escape round trip and `$`-free fixpoint, from the per-leaf facts -/

mutual
theorem interp_escapeAll (c : Cfg) : ∀ (v : Val) (p : TPath),
    (∀ q s, (q, s) ∈ leaves p v → leaf c q (escapeStr s) = .ok (.str s)) → interp c p (escapeAll v) = .ok v
  | .str s, p, h => by simp only [escapeAll, interp]; exact h p s (by simp [leaves])
  | .map kvs, p, h => by
    simp only [escapeAll, interp]
    rw [interpKVs_escapeAll c kvs p (by simpa only [leaves] using h)]
  | .seq xs, p, h => by
    simp only [escapeAll, interp]
    rw [interpList_escapeAll c xs p (by simpa only [leaves] using h)]
  | .null, p, _ => by simp only [escapeAll, interp]
  | .bool b, p, _ => by simp only [escapeAll, interp]
  | .int b, p, _ => by simp only [escapeAll, interp]
  | .float b, p, _ => by simp only [escapeAll, interp]
theorem interpKVs_escapeAll (c : Cfg) : ∀ (kvs : List (String × Val)) (p : TPath),
    (∀ q s, (q, s) ∈ leavesKVs p kvs → leaf c q (escapeStr s) = .ok (.str s)) → interpKVs c p (escapeKVs kvs) = .ok kvs
  | [], p, _ => by simp only [escapeKVs, interpKVs]
  | (k, v) :: r, p, h => by
    simp only [escapeKVs, interpKVs]
    rw [interp_escapeAll c v (next p k) (fun q s hm => h q s (by simp only [leavesKVs, List.mem_append]; exact .inl hm)),
      interpKVs_escapeAll c r p (fun q s hm => h q s (by simp only [leavesKVs, List.mem_append]; exact .inr hm))]
theorem interpList_escapeAll (c : Cfg) : ∀ (xs : List Val) (p : TPath),
    (∀ q s, (q, s) ∈ leavesList p xs → leaf c q (escapeStr s) = .ok (.str s)) → interpList c p (escapeList xs) = .ok xs
  | [], p, _ => by simp only [escapeList, interpList]
  | v :: r, p, h => by
    simp only [escapeList, interpList]
    rw [interp_escapeAll c v (next p "[]") (fun q s hm => h q s (by simp only [leavesList, List.mem_append]; exact .inl hm)),
      interpList_escapeAll c r p (fun q s hm => h q s (by simp only [leavesList, List.mem_append]; exact .inr hm))]
end

mutual
theorem interp_fix (c : Cfg) : ∀ (v : Val) (p : TPath),
    (∀ q s, (q, s) ∈ leaves p v → leaf c q s = .ok (.str s)) → interp c p v = .ok v
  | .str s, p, h => by simp only [interp]; exact h p s (by simp [leaves])
  | .map kvs, p, h => by
    simp only [interp]
    rw [interpKVs_fix c kvs p (by simpa only [leaves] using h)]
  | .seq xs, p, h => by
    simp only [interp]
    rw [interpList_fix c xs p (by simpa only [leaves] using h)]
  | .null, p, _ => by simp only [interp]
  | .bool b, p, _ => by simp only [interp]
  | .int b, p, _ => by simp only [interp]
  | .float b, p, _ => by simp only [interp]
theorem interpKVs_fix (c : Cfg) : ∀ (kvs : List (String × Val)) (p : TPath),
    (∀ q s, (q, s) ∈ leavesKVs p kvs → leaf c q s = .ok (.str s)) → interpKVs c p kvs = .ok kvs
  | [], p, _ => by simp only [interpKVs]
  | (k, v) :: r, p, h => by
    simp only [interpKVs]
    rw [interp_fix c v (next p k) (fun q s hm => h q s (by simp only [leavesKVs, List.mem_append]; exact .inl hm)),
      interpKVs_fix c r p (fun q s hm => h q s (by simp only [leavesKVs, List.mem_append]; exact .inr hm))]
theorem interpList_fix (c : Cfg) : ∀ (xs : List Val) (p : TPath),
    (∀ q s, (q, s) ∈ leavesList p xs → leaf c q s = .ok (.str s)) → interpList c p xs = .ok xs
  | [], p, _ => by simp only [interpList]
  | v :: r, p, h => by
    simp only [interpList]
    rw [interp_fix c v (next p "[]") (fun q s hm => h q s (by simp only [leavesList, List.mem_append]; exact .inl hm)),
      interpList_fix c r p (fun q s hm => h q s (by simp only [leavesList, List.mem_append]; exact .inr hm))]
end

/-! ## collect mode is sound: the list-order error is one of the reachable ones -/

mutual
theorem errs_nil_of_ok (c : Cfg) : ∀ (v : Val) (p : TPath) (v' : Val), interp c p v = .ok v' → errs c p v = []
  | .str s, p, v', h => by simp only [interp] at h; simp only [errs, h]
  | .map kvs, p, v', h => by
    simp only [interp] at h
    split at h <;> cases h
    simpa only [errs] using errsKVs_nil_of_ok c kvs p _ ‹_›
  | .seq xs, p, v', h => by
    simp only [interp] at h
    split at h <;> cases h
    simpa only [errs] using errsList_nil_of_ok c xs p _ ‹_›
  | .null, p, v', h => by simp only [errs]
  | .bool b, p, v', h => by simp only [errs]
  | .int b, p, v', h => by simp only [errs]
  | .float b, p, v', h => by simp only [errs]
theorem errsKVs_nil_of_ok (c : Cfg) : ∀ (kvs : List (String × Val)) (p : TPath) (kvs' : List (String × Val)),
    interpKVs c p kvs = .ok kvs' → errsKVs c p kvs = []
  | [], p, _, _ => by simp only [errsKVs]
  | (k, v) :: r, p, kvs', h => by
    simp only [interpKVs] at h
    split at h <;> try cases h
    split at h <;> cases h
    simp only [errsKVs, errs_nil_of_ok c v _ _ ‹_›, errsKVs_nil_of_ok c r p _ ‹_›, List.append_nil]
theorem errsList_nil_of_ok (c : Cfg) : ∀ (xs : List Val) (p : TPath) (xs' : List Val),
    interpList c p xs = .ok xs' → errsList c p xs = []
  | [], p, _, _ => by simp only [errsList]
  | v :: r, p, xs', h => by
    simp only [interpList] at h
    split at h <;> try cases h
    split at h <;> cases h
    simp only [errsList, errs_nil_of_ok c v _ _ ‹_›, errsList_nil_of_ok c r p _ ‹_›]
end

mutual
theorem err_mem_errs (c : Cfg) : ∀ (v : Val) (p : TPath) (e : Err), interp c p v = .err e → e ∈ errs c p v
  | .str s, p, e, h => by simp only [interp] at h; simp only [errs, h, List.mem_singleton]
  | .map kvs, p, e, h => by
    simp only [interp] at h
    split at h <;> cases h
    simpa only [errs] using errKVs_mem_errs c kvs p e ‹_›
  | .seq xs, p, e, h => by
    simp only [interp] at h
    split at h <;> cases h
    simpa only [errs] using errList_mem_errs c xs p e ‹_›
  | .null, p, e, h => by simp only [interp] at h; cases h
  | .bool b, p, e, h => by simp only [interp] at h; cases h
  | .int b, p, e, h => by simp only [interp] at h; cases h
  | .float b, p, e, h => by simp only [interp] at h; cases h
theorem errKVs_mem_errs (c : Cfg) : ∀ (kvs : List (String × Val)) (p : TPath) (e : Err),
    interpKVs c p kvs = .err e → e ∈ errsKVs c p kvs
  | [], p, e, h => by simp only [interpKVs] at h; cases h
  | (k, v) :: r, p, e, h => by
    simp only [interpKVs] at h
    simp only [errsKVs, List.mem_append]
    split at h
    · split at h <;> cases h
      exact .inr (errKVs_mem_errs c r p e ‹_›)
    · cases h; exact .inl (err_mem_errs c v _ e ‹_›)
    · cases h
theorem errList_mem_errs (c : Cfg) : ∀ (xs : List Val) (p : TPath) (e : Err),
    interpList c p xs = .err e → e ∈ errsList c p xs
  | [], p, e, h => by simp only [interpList] at h; cases h
  | v :: r, p, e, h => by
    simp only [interpList] at h
    split at h
    · split at h <;> cases h
      simp only [errsList, errs_nil_of_ok c v _ _ ‹_›]
      exact errList_mem_errs c r p e ‹_›
    · cases h
      have hm := err_mem_errs c v _ e ‹_›
      simp only [errsList]
      split
      · rename_i hnil; rw [hnil] at hm; cases hm
      · exact hm
    · cases h
end

/-! ## YAML 1.1 octal literals vs the decimal casters -/

theorem foldl_zeros (b : Nat) (k : Nat) : (List.replicate k '0').foldl (fun n c => b * n + digitVal c) 0 = 0 := by
  induction k with
  | zero => rfl
  | succ k ih =>
    rw [List.replicate_succ, List.foldl_cons]
    have : b * 0 + digitVal '0' = 0 := by simp [digitVal]
    rw [this]; exact ih

theorem digitVal_oct (d : Char) (hd : isOctDigit d = true) : digitVal d ≤ 7 := by
  simp only [isOctDigit, Bool.and_eq_true, decide_eq_true_eq] at hd
  have h2 : d.toNat ≤ '7'.toNat := hd.2
  simp only [digitVal]
  have : '7'.toNat = 55 := by decide
  have : '0'.toNat = 48 := by decide
  omega

theorem yamlLegacyOctal_eq_parseInt_of_zeros (k : Nat) (d : Char) (hd : isOctDigit d = true) :
    yamlLegacyOctal (String.ofList ('0' :: (List.replicate k '0' ++ [d]))) =
      parseInt (String.ofList ('0' :: (List.replicate k '0' ++ [d]))) := by
  have hdig : d.isDigit = true := by
    simp only [isOctDigit, Bool.and_eq_true, decide_eq_true_eq] at hd
    simp only [Char.isDigit, Bool.and_eq_true, decide_eq_true_eq]
    exact ⟨hd.1, Nat.le_trans hd.2 (by decide)⟩
  have h7 := digitVal_oct d hd
  have hoct : (List.replicate k '0' ++ [d]).all isOctDigit = true := by
    simp only [List.all_append, List.all_replicate, List.all_cons, List.all_nil, hd, Bool.and_true, Bool.and_eq_true]
    simp [isOctDigit]
  have hall : allDigits ('0' :: (List.replicate k '0' ++ [d])) = true := by
    simp only [allDigits, List.all_cons, List.all_append, List.all_replicate, List.all_nil, hdig, Bool.and_true]
    simp [Char.isDigit]
  have hne : (List.replicate k '0' ++ [d]).isEmpty = false := by simp
  have h8 : (List.replicate k '0' ++ [d]).foldl (fun n c => 8 * n + digitVal c) 0 = digitVal d := by
    rw [List.foldl_append, foldl_zeros]; simp
  have h10 : natOfDigits ('0' :: (List.replicate k '0' ++ [d])) = digitVal d := by
    simp only [natOfDigits, List.foldl_cons]
    have : 10 * 0 + digitVal '0' = 0 := by simp [digitVal]
    rw [this, List.foldl_append, foldl_zeros]; simp
  have hlhs : yamlLegacyOctal (String.ofList ('0' :: (List.replicate k '0' ++ [d]))) = some (digitVal d : Int) := by
    simp only [yamlLegacyOctal, String.toList_ofList, hne, hoct, h8]
    simp; omega
  have hrhs : parseInt (String.ofList ('0' :: (List.replicate k '0' ++ [d]))) = some (digitVal d : Int) := by
    simp only [parseInt, String.toList_ofList]
    split
    · rename_i h; simp at h
    · rename_i h; simp at h
    · simp only [hall, h10]
      simp; omega
  rw [hlhs, hrhs]

end CV.Interp
