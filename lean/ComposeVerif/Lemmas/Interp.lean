import ComposeVerif.Spec.Interp
import ComposeVerif.Props.C07
/-! Helper lemmas for C08: structural lemmas about `Interp.interp` (the facts about `CV.Template.subst` are C07's theorems). -/


namespace CV.Interp
open CV CV.TPath

/-! ## leaves -/

theorem apply_scalar {fp : FloatParser} {c : Caster} {s : String} {v : Val} (h : c.apply fp s = some v) : isScalar v := by
  cases c <;> simp only [Caster.apply, Option.map_eq_some_iff] at h
  all_goals first | (obtain ⟨a, _, rfl⟩ := h; trivial) | cases h

theorem castOnly_scalar {c : Cfg} {p : TPath} {s : String} {v : Val} (h : castOnly c p s = .ok v) : isScalar v := by
  unfold castOnly at h
  split at h
  · cases h; trivial
  · split at h
    · cases h; exact apply_scalar ‹_›
    · cases h

/-- the string arm of `recursiveInterpolate`: substitute, then cast -/
theorem leaf_of_subst {c : Cfg} {p : TPath} {s : String} {s' : Str}
    (h : CV.Template.subst c.env s.toList = .ok s') : leaf c p s = castOnly c p (String.ofList s') := by
  unfold leaf castOnly
  simp only [h]
  rfl

theorem leaf_ok_inv {c : Cfg} {p : TPath} {s : String} {v : Val} (h : leaf c p s = .ok v) :
    ∃ s', CV.Template.subst c.env s.toList = .ok s' ∧ castOnly c p (String.ofList s') = .ok v := by
  cases hs : CV.Template.subst c.env s.toList with
  | ok s' => exact ⟨s', rfl, by rw [← leaf_of_subst hs]; exact h⟩
  | err e => unfold leaf at h; rw [hs] at h; cases e <;> cases h
  | panic site => unfold leaf at h; rw [hs] at h; cases site <;> cases h

theorem leaf_scalar {c : Cfg} {p : TPath} {s : String} {v : Val} (h : leaf c p s = .ok v) : isScalar v := by
  obtain ⟨_, _, h2⟩ := leaf_ok_inv h
  exact castOnly_scalar h2

theorem castOnly_err_path {c : Cfg} {p : TPath} {s : String} {e : Err} (h : castOnly c p s = .err e) :
    e = .cast (pathString p) ∧ ∃ name, firstMatch c.table p = some name ∧ (Caster.ofName name).apply c.fp s = none := by
  unfold castOnly at h
  split at h
  · cases h
  · rename_i name hm
    split at h
    · cases h
    · cases h; exact ⟨rfl, name, hm, ‹_›⟩

theorem leaf_err_path {c : Cfg} {p : TPath} {s : String} {e : Err} (h : leaf c p s = .err e) : e.path = pathString p := by
  cases hs : CV.Template.subst c.env s.toList with
  | ok s' =>
    rw [leaf_of_subst hs] at h
    rw [(castOnly_err_path h).1]; rfl
  | err e' =>
    unfold leaf at h; rw [hs] at h
    cases e' <;> (cases h; rfl)
  | panic site => unfold leaf at h; rw [hs] at h; cases site <;> cases h

/-! ## shape -/

mutual
theorem interp_shape (c : Cfg) : ∀ (v : Val) (p : TPath) (v' : Val), interp c p v = .ok v' → SameShape v v'
  | .str s, p, v', h => by
    simp only [interp] at h
    simp only [SameShape]
    exact leaf_scalar h
  | .map kvs, p, v', h => by
    simp only [interp] at h
    split at h <;> cases h
    exact ⟨_, rfl, interpKVs_shape c kvs p _ ‹_›⟩
  | .seq xs, p, v', h => by
    simp only [interp] at h
    split at h <;> cases h
    exact ⟨_, rfl, interpList_shape c xs p _ ‹_›⟩
  | .null, p, v', h => by simp only [interp] at h; cases h; rfl
  | .bool b, p, v', h => by simp only [interp] at h; cases h; rfl
  | .int b, p, v', h => by simp only [interp] at h; cases h; rfl
  | .float b, p, v', h => by simp only [interp] at h; cases h; rfl
theorem interpKVs_shape (c : Cfg) : ∀ (kvs : List (String × Val)) (p : TPath) (kvs' : List (String × Val)),
    interpKVs c p kvs = .ok kvs' → SameShapeKVs kvs kvs'
  | [], p, kvs', h => by simp only [interpKVs] at h; cases h; rfl
  | (k, v) :: r, p, kvs', h => by
    simp only [interpKVs] at h
    split at h <;> try cases h
    split at h <;> cases h
    exact ⟨_, _, rfl, interp_shape c v _ _ ‹_›, interpKVs_shape c r p _ ‹_›⟩
theorem interpList_shape (c : Cfg) : ∀ (xs : List Val) (p : TPath) (xs' : List Val),
    interpList c p xs = .ok xs' → SameShapeList xs xs'
  | [], p, xs', h => by simp only [interpList] at h; cases h; rfl
  | v :: r, p, xs', h => by
    simp only [interpList] at h
    split at h <;> try cases h
    split at h <;> cases h
    exact ⟨_, _, rfl, interp_shape c v _ _ ‹_›, interpList_shape c r p _ ‹_›⟩
end

theorem sameShapeKVs_keys : ∀ (kvs kvs' : List (String × Val)), SameShapeKVs kvs kvs' → kvs'.map Prod.fst = kvs.map Prod.fst
  | [], _, h => by simp only [SameShapeKVs] at h; subst h; rfl
  | (k, v) :: r, _, h => by
    simp only [SameShapeKVs] at h
    obtain ⟨v', r', rfl, _, hr⟩ := h
    simp [sameShapeKVs_keys r r' hr]

theorem sameShapeList_length : ∀ (xs xs' : List Val), SameShapeList xs xs' → xs'.length = xs.length
  | [], _, h => by simp only [SameShapeList] at h; subst h; rfl
  | v :: r, _, h => by
    simp only [SameShapeList] at h
    obtain ⟨v', r', rfl, _, hr⟩ := h
    simp [sameShapeList_length r r' hr]

/-! ## pointwise -/

theorem interpKVs_lookup (c : Cfg) (p : TPath) : ∀ (kvs kvs' : List (String × Val)), interpKVs c p kvs = .ok kvs' →
    ∀ k, match Val.lookup k kvs with
      | some v => ∃ v', Val.lookup k kvs' = some v' ∧ interp c (next p k) v = .ok v'
      | none => Val.lookup k kvs' = none
  | [], kvs', h, k => by simp only [interpKVs] at h; cases h; simp [Val.lookup]
  | (k0, v0) :: r, kvs', h, k => by
    simp only [interpKVs] at h
    split at h <;> try cases h
    rename_i v0' hv0
    split at h <;> cases h
    rename_i r' hr
    have ih := interpKVs_lookup c p r r' hr k
    by_cases hk : k = k0
    · subst hk; simp only [Val.lookup, if_true]; exact ⟨_, rfl, hv0⟩
    · simp only [Val.lookup, hk, if_false]; exact ih

theorem interpList_get (c : Cfg) (p : TPath) : ∀ (xs xs' : List Val), interpList c p xs = .ok xs' →
    ∀ i : Nat, match xs[i]? with
      | some v => ∃ v', xs'[i]? = some v' ∧ interp c (next p "[]") v = .ok v'
      | none => xs'[i]? = none
  | [], xs', h, i => by simp only [interpList] at h; cases h; simp
  | v0 :: r, xs', h, i => by
    simp only [interpList] at h
    split at h <;> try cases h
    rename_i v0' hv0
    split at h <;> cases h
    rename_i r' hr
    cases i with
    | zero => simp only [List.getElem?_cons_zero]; exact ⟨_, rfl, hv0⟩
    | succ j => simp only [List.getElem?_cons_succ]; exact interpList_get c p r r' hr j

/-! ## errors come from a string leaf and carry its path -/

mutual
theorem interp_err_leaf (c : Cfg) : ∀ (v : Val) (p : TPath) (e : Err), interp c p v = .err e →
    ∃ q s, (q, s) ∈ leaves p v ∧ leaf c q s = .err e
  | .str s, p, e, h => by simp only [interp] at h; exact ⟨p, s, by simp [leaves], h⟩
  | .map kvs, p, e, h => by
    simp only [interp] at h
    split at h <;> cases h
    simpa only [leaves] using interpKVs_err_leaf c kvs p e ‹_›
  | .seq xs, p, e, h => by
    simp only [interp] at h
    split at h <;> cases h
    simpa only [leaves] using interpList_err_leaf c xs p e ‹_›
  | .null, p, e, h => by simp only [interp] at h; cases h
  | .bool b, p, e, h => by simp only [interp] at h; cases h
  | .int b, p, e, h => by simp only [interp] at h; cases h
  | .float b, p, e, h => by simp only [interp] at h; cases h
theorem interpKVs_err_leaf (c : Cfg) : ∀ (kvs : List (String × Val)) (p : TPath) (e : Err), interpKVs c p kvs = .err e →
    ∃ q s, (q, s) ∈ leavesKVs p kvs ∧ leaf c q s = .err e
  | [], p, e, h => by simp only [interpKVs] at h; cases h
  | (k, v) :: r, p, e, h => by
    simp only [interpKVs] at h
    split at h
    · split at h <;> cases h
      obtain ⟨q, s, hm, hl⟩ := interpKVs_err_leaf c r p e ‹_›
      exact ⟨q, s, by simp only [leavesKVs, List.mem_append]; exact .inr hm, hl⟩
    · cases h
      obtain ⟨q, s, hm, hl⟩ := interp_err_leaf c v _ e ‹_›
      exact ⟨q, s, by simp only [leavesKVs, List.mem_append]; exact .inl hm, hl⟩
    · cases h
theorem interpList_err_leaf (c : Cfg) : ∀ (xs : List Val) (p : TPath) (e : Err), interpList c p xs = .err e →
    ∃ q s, (q, s) ∈ leavesList p xs ∧ leaf c q s = .err e
  | [], p, e, h => by simp only [interpList] at h; cases h
  | v :: r, p, e, h => by
    simp only [interpList] at h
    split at h
    · split at h <;> cases h
      obtain ⟨q, s, hm, hl⟩ := interpList_err_leaf c r p e ‹_›
      exact ⟨q, s, by simp only [leavesList, List.mem_append]; exact .inr hm, hl⟩
    · cases h
      obtain ⟨q, s, hm, hl⟩ := interp_err_leaf c v _ e ‹_›
      exact ⟨q, s, by simp only [leavesList, List.mem_append]; exact .inl hm, hl⟩
    · cases h
end

/-! ## escape round trip and `$`-free fixpoint, from the per-leaf facts -/

mutual
theorem interp_escapeAll (c : Cfg) : ∀ (v : Val) (p : TPath),
    (∀ q s, (q, s) ∈ leaves p v → leaf c q (escapeStr s) = .ok (.str s)) → interp c p (escapeAll v) = .ok v
  | .str s, p, h => by simp only [escapeAll, interp]; exact h p s (by simp [leaves])
  | .map kvs, p, h => by
    simp only [escapeAll, interp]
    rw [interpKVs_escapeAll c kvs p (by simpa only [leaves] using h)]
  | .seq xs, p, h => by
    simp only [escapeAll, interp]
    rw [interpList_escapeAll c xs p (by simpa only [leaves] using h)]
  | .null, p, _ => by simp only [escapeAll, interp]
  | .bool b, p, _ => by simp only [escapeAll, interp]
  | .int b, p, _ => by simp only [escapeAll, interp]
  | .float b, p, _ => by simp only [escapeAll, interp]
theorem interpKVs_escapeAll (c : Cfg) : ∀ (kvs : List (String × Val)) (p : TPath),
    (∀ q s, (q, s) ∈ leavesKVs p kvs → leaf c q (escapeStr s) = .ok (.str s)) → interpKVs c p (escapeKVs kvs) = .ok kvs
  | [], p, _ => by simp only [escapeKVs, interpKVs]
  | (k, v) :: r, p, h => by
    simp only [escapeKVs, interpKVs]
    rw [interp_escapeAll c v (next p k) (fun q s hm => h q s (by simp only [leavesKVs, List.mem_append]; exact .inl hm)),
      interpKVs_escapeAll c r p (fun q s hm => h q s (by simp only [leavesKVs, List.mem_append]; exact .inr hm))]
theorem interpList_escapeAll (c : Cfg) : ∀ (xs : List Val) (p : TPath),
    (∀ q s, (q, s) ∈ leavesList p xs → leaf c q (escapeStr s) = .ok (.str s)) → interpList c p (escapeList xs) = .ok xs
  | [], p, _ => by simp only [escapeList, interpList]
  | v :: r, p, h => by
    simp only [escapeList, interpList]
    rw [interp_escapeAll c v (next p "[]") (fun q s hm => h q s (by simp only [leavesList, List.mem_append]; exact .inl hm)),
      interpList_escapeAll c r p (fun q s hm => h q s (by simp only [leavesList, List.mem_append]; exact .inr hm))]
end

mutual
theorem interp_fix (c : Cfg) : ∀ (v : Val) (p : TPath),
    (∀ q s, (q, s) ∈ leaves p v → leaf c q s = .ok (.str s)) → interp c p v = .ok v
  | .str s, p, h => by simp only [interp]; exact h p s (by simp [leaves])
  | .map kvs, p, h => by
    simp only [interp]
    rw [interpKVs_fix c kvs p (by simpa only [leaves] using h)]
  | .seq xs, p, h => by
    simp only [interp]
    rw [interpList_fix c xs p (by simpa only [leaves] using h)]
  | .null, p, _ => by simp only [interp]
  | .bool b, p, _ => by simp only [interp]
  | .int b, p, _ => by simp only [interp]
  | .float b, p, _ => by simp only [interp]
theorem interpKVs_fix (c : Cfg) : ∀ (kvs : List (String × Val)) (p : TPath),
    (∀ q s, (q, s) ∈ leavesKVs p kvs → leaf c q s = .ok (.str s)) → interpKVs c p kvs = .ok kvs
  | [], p, _ => by simp only [interpKVs]
  | (k, v) :: r, p, h => by
    simp only [interpKVs]
    rw [interp_fix c v (next p k) (fun q s hm => h q s (by simp only [leavesKVs, List.mem_append]; exact .inl hm)),
      interpKVs_fix c r p (fun q s hm => h q s (by simp only [leavesKVs, List.mem_append]; exact .inr hm))]
theorem interpList_fix (c : Cfg) : ∀ (xs : List Val) (p : TPath),
    (∀ q s, (q, s) ∈ leavesList p xs → leaf c q s = .ok (.str s)) → interpList c p xs = .ok xs
  | [], p, _ => by simp only [interpList]
  | v :: r, p, h => by
    simp only [interpList]
    rw [interp_fix c v (next p "[]") (fun q s hm => h q s (by simp only [leavesList, List.mem_append]; exact .inl hm)),
      interpList_fix c r p (fun q s hm => h q s (by simp only [leavesList, List.mem_append]; exact .inr hm))]
end

/-! ## collect mode is sound: the list-order error is one of the reachable ones -/

mutual
theorem errs_nil_of_ok (c : Cfg) : ∀ (v : Val) (p : TPath) (v' : Val), interp c p v = .ok v' → errs c p v = []
  | .str s, p, v', h => by simp only [interp] at h; simp only [errs, h]
  | .map kvs, p, v', h => by
    simp only [interp] at h
    split at h <;> cases h
    simpa only [errs] using errsKVs_nil_of_ok c kvs p _ ‹_›
  | .seq xs, p, v', h => by
    simp only [interp] at h
    split at h <;> cases h
    simpa only [errs] using errsList_nil_of_ok c xs p _ ‹_›
  | .null, p, v', h => by simp only [errs]
  | .bool b, p, v', h => by simp only [errs]
  | .int b, p, v', h => by simp only [errs]
  | .float b, p, v', h => by simp only [errs]
theorem errsKVs_nil_of_ok (c : Cfg) : ∀ (kvs : List (String × Val)) (p : TPath) (kvs' : List (String × Val)),
    interpKVs c p kvs = .ok kvs' → errsKVs c p kvs = []
  | [], p, _, _ => by simp only [errsKVs]
  | (k, v) :: r, p, kvs', h => by
    simp only [interpKVs] at h
    split at h <;> try cases h
    split at h <;> cases h
    simp only [errsKVs, errs_nil_of_ok c v _ _ ‹_›, errsKVs_nil_of_ok c r p _ ‹_›, List.append_nil]
theorem errsList_nil_of_ok (c : Cfg) : ∀ (xs : List Val) (p : TPath) (xs' : List Val),
    interpList c p xs = .ok xs' → errsList c p xs = []
  | [], p, _, _ => by simp only [errsList]
  | v :: r, p, xs', h => by
    simp only [interpList] at h
    split at h <;> try cases h
    split at h <;> cases h
    simp only [errsList, errs_nil_of_ok c v _ _ ‹_›, errsList_nil_of_ok c r p _ ‹_›]
end

mutual
theorem err_mem_errs (c : Cfg) : ∀ (v : Val) (p : TPath) (e : Err), interp c p v = .err e → e ∈ errs c p v
  | .str s, p, e, h => by simp only [interp] at h; simp only [errs, h, List.mem_singleton]
  | .map kvs, p, e, h => by
    simp only [interp] at h
    split at h <;> cases h
    simpa only [errs] using errKVs_mem_errs c kvs p e ‹_›
  | .seq xs, p, e, h => by
    simp only [interp] at h
    split at h <;> cases h
    simpa only [errs] using errList_mem_errs c xs p e ‹_›
  | .null, p, e, h => by simp only [interp] at h; cases h
  | .bool b, p, e, h => by simp only [interp] at h; cases h
  | .int b, p, e, h => by simp only [interp] at h; cases h
  | .float b, p, e, h => by simp only [interp] at h; cases h
theorem errKVs_mem_errs (c : Cfg) : ∀ (kvs : List (String × Val)) (p : TPath) (e : Err),
    interpKVs c p kvs = .err e → e ∈ errsKVs c p kvs
  | [], p, e, h => by simp only [interpKVs] at h; cases h
  | (k, v) :: r, p, e, h => by
    simp only [interpKVs] at h
    simp only [errsKVs, List.mem_append]
    split at h
    · split at h <;> cases h
      exact .inr (errKVs_mem_errs c r p e ‹_›)
    · cases h; exact .inl (err_mem_errs c v _ e ‹_›)
    · cases h
theorem errList_mem_errs (c : Cfg) : ∀ (xs : List Val) (p : TPath) (e : Err),
    interpList c p xs = .err e → e ∈ errsList c p xs
  | [], p, e, h => by simp only [interpList] at h; cases h
  | v :: r, p, e, h => by
    simp only [interpList] at h
    split at h
    · split at h <;> cases h
      simp only [errsList, errs_nil_of_ok c v _ _ ‹_›]
      exact errList_mem_errs c r p e ‹_›
    · cases h
      have hm := err_mem_errs c v _ e ‹_›
      simp only [errsList]
      split
      · rename_i hnil; rw [hnil] at hm; cases hm
      · exact hm
    · cases h
end

end CV.Interp
