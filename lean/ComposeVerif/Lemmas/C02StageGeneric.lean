import ComposeVerif.Lemmas.C02StageDefaults
namespace CV.Det.Stage
open CV CV.Deep
open CV.Val (lookup insert keys KVs)

/-- both defined and related, or both undefined -/
def ORel {α : Type} (R : α → α → Prop) : Option α → Option α → Prop
  | some a, some b => R a b
  | none, none => True
  | _, _ => False

theorem ORel.isSome {α : Type} {R : α → α → Prop} {x y : Option α} (h : ORel R x y) : x.isSome = y.isSome := by
  cases x <;> cases y <;> simp only [ORel] at h <;> first | rfl | exact h.elim

/-- **the walker loop respects the equivalence**: if the recursive calls do (on the values found under equal keys), the
loop over two equivalent mappings fails on both or yields equivalent mappings -/
theorem travOpt_meqv (g g' : String → Val → Option Val) {a b : KVs} (hm : MEqv a b) (wa : MWF a) (wb : MWF b)
    (hg : ∀ k x y, lookup k a = some x → lookup k b = some y → ORel Eqv (g k x) (g' k y)) :
    ORel MEqv (travOpt g a) (travOpt g' b) := by
  have hsome : (travOpt g a).isSome = (travOpt g' b).isSome := by
    rw [travOpt_isSome, travOpt_isSome]
    apply Bool.eq_iff_iff.mpr
    rw [lookup_all_of_nodup wa.1 (fun k v => (g k v).isSome), lookup_all_of_nodup wb.1 (fun k v => (g' k v).isSome)]
    constructor
    · intro h k y hy
      obtain ⟨x, hx, _⟩ := hm.lookup_some' hy
      rw [← (hg k x y hx hy).isSome]; exact h k x hx
    · intro h k x hx
      obtain ⟨y, hy, _⟩ := hm.lookup_some hx
      rw [(hg k x y hx hy).isSome]; exact h k y hy
  cases hra : travOpt g a with
  | none =>
    cases hrb : travOpt g' b with
    | none => trivial
    | some rb => rw [hra, hrb] at hsome; cases hsome
  | some ra =>
    cases hrb : travOpt g' b with
    | none => rw [hra, hrb] at hsome; cases hsome
    | some rb =>
      simp only [ORel]
      have ea := travOpt_eq_map g a ra hra
      have eb := travOpt_eq_map g' b rb hrb
      have alla : ∀ k x, lookup k a = some x → (g k x).isSome = true := by
        have : (travOpt g a).isSome = true := by rw [hra]; rfl
        rw [travOpt_isSome] at this
        exact (lookup_all_of_nodup wa.1 (fun k v => (g k v).isSome)).mp this
      have allb : ∀ k y, lookup k b = some y → (g' k y).isSome = true := by
        have : (travOpt g' b).isSome = true := by rw [hrb]; rfl
        rw [travOpt_isSome] at this
        exact (lookup_all_of_nodup wb.1 (fun k v => (g' k v).isSome)).mp this
      refine ⟨?_, ?_⟩
      · intro k
        rw [ea, eb, lookup_mapG (fun k v => (g k v).getD Val.null), lookup_mapG (fun k v => (g' k v).getD Val.null)]
        cases hla : lookup k a with
        | none => rw [(hm.1 k).mp hla]; simp
        | some x => obtain ⟨y, hy, _⟩ := hm.lookup_some hla; rw [hy]; simp
      · intro k u v hu hv
        rw [ea, lookup_mapG (fun k v => (g k v).getD Val.null)] at hu
        rw [eb, lookup_mapG (fun k v => (g' k v).getD Val.null)] at hv
        cases hla : lookup k a with
        | none => rw [hla] at hu; cases hu
        | some x =>
          obtain ⟨y, hy, _⟩ := hm.lookup_some hla
          rw [hla] at hu; rw [hy] at hv
          simp only [Option.map_some, Option.some.injEq] at hu hv
          subst hu; subst hv
          have hrel := hg k x y hla hy
          have sx := alla k x hla
          have sy := allb k y hy
          cases hx : g k x <;> cases hyy : g' k y <;> simp only [hx, hyy, Option.isSome] at sx sy <;> try contradiction
          simp only [hx, hyy, ORel] at hrel
          simpa using hrel

/-- the same loop over a sequence -/
def travList (g : Val → Option Val) : List Val → Option (List Val)
  | [] => some []
  | x :: r =>
    match g x with
    | none => none
    | some t =>
      match travList g r with
      | none => none
      | some r' => some (t :: r')

theorem travList_eqv (g g' : Val → Option Val) : ∀ {xs ys : List Val}, Eqv (.seq xs) (.seq ys) →
    (∀ x y, x ∈ xs → y ∈ ys → Eqv x y → ORel Eqv (g x) (g' y)) →
    ORel (fun l l' => Eqv (.seq l) (.seq l')) (travList g xs) (travList g' ys) := by
  intro xs
  induction xs with
  | nil => intro ys h _; cases h; exact Eqv.seqNil
  | cons x r ih =>
    intro ys h hg
    cases h with | @seqCons _ y _ ys' hxy hr =>
    have h1 := hg x y List.mem_cons_self List.mem_cons_self hxy
    have h2 := ih hr (fun a b ha hb hab => hg a b (List.mem_cons_of_mem _ ha) (List.mem_cons_of_mem _ hb) hab)
    simp only [travList]
    cases hx : g x <;> cases hy : g' y <;> simp only [hx, hy, ORel] at h1 ⊢ <;> try exact h1.elim
    cases hxs : travList g r <;> cases hys : travList g' ys' <;> simp only [hxs, hys, ORel] at h2 ⊢ <;> try exact h2.elim
    exact Eqv.seqCons h1 h2

end CV.Det.Stage
