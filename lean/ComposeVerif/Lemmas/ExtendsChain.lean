import ComposeVerif.Lemmas.ExtendsComplete
/-!
# Chains of arbitrary length: `Flat` is the base-first fold of the merge step along the chain

`Chain E cf S n links leaf`: starting at service `n` of mapping `S` (which lives in file `cf`), following `extends`
reaches — after `links.length` links, through any mixture of same-file and cross-file references — a service `leaf`
without `extends`.  `links` lists the extending services' own definitions, outermost (the target) first, each with the
file it was read from; `leaf` is the last base with its file.

`foldChain`: the base-first fold the property speaks of: start with the leaf, apply each extending service's own
attributes on top (innermost first), dropping `extends` after every step.
-/
namespace CV.Extends
open CV CV.Val

/-- one element of a chain: (file the service was read from, the service's name, its own definition) -/
abbrev ChainElt := String × String × KVs

inductive Chain (E : Env) : String → KVs → String → List ChainElt → ChainElt → Prop where
  | leaf {cf : String} {S : KVs} {n : String} {svc : KVs} :
      lookup n S = some (.map svc) → lookup "extends" svc = none → Chain E cf S n [] (cf, n, svc)
  | step {cf : String} {S : KVs} {n : String} {svc : KVs} {e : Val} {ref : String} {file : Option String}
      {S' : KVs} {links : List ChainElt} {leaf : ChainElt} :
      lookup n S = some (.map svc) → lookup "extends" svc = some e →
      parseExtends e = .ok (ref, file) → baseMap E S ref file = some S' →
      Chain E (nextFile cf file) S' ref links leaf →
      Chain E cf S n ((cf, n, svc) :: links) leaf

/-- base-first fold of the merge step: `links` outermost first, so the recursion reaches the leaf first -/
def foldChain (E : Env) (leaf : KVs) : List ChainElt → Out KVs
  | [] => .ok leaf
  | (_, _, svc) :: rest =>
    match foldChain E leaf rest with
    | .ok b =>
      (match E.extend b svc with
      | .ok m => .ok (Val.erase "extends" m)
      | .err c => .err c
      | .panic s => .panic s)
    | .err c => .err c
    | .panic s => .panic s

/-- a chain is determined by its starting point -/
theorem Chain.functional {E : Env} {cf : String} {S : KVs} {n : String} {l l' : List ChainElt} {f f' : ChainElt}
    (h : Chain E cf S n l f) (h' : Chain E cf S n l' f') : l = l' ∧ f = f' := by
  induction h generalizing l' f' with
  | leaf h1 h2 =>
    cases h' with
    | leaf g1 g2 =>
      have e1 := h1.symm.trans g1
      simp only [Option.some.injEq, Val.map.injEq] at e1
      subst e1; exact ⟨rfl, rfl⟩
    | step g1 g2 =>
      have e1 := h1.symm.trans g1
      simp only [Option.some.injEq, Val.map.injEq] at e1
      subst e1; rw [h2] at g2; cases g2
  | step h1 h2 h3 h4 h5 ih =>
    cases h' with
    | leaf g1 g2 =>
      have e1 := h1.symm.trans g1
      simp only [Option.some.injEq, Val.map.injEq] at e1
      subst e1; rw [h2] at g2; cases g2
    | step g1 g2 g3 g4 g5 =>
      have e1 := h1.symm.trans g1
      simp only [Option.some.injEq, Val.map.injEq] at e1
      subst e1
      have e2 := h2.symm.trans g2
      simp only [Option.some.injEq] at e2
      subst e2
      have e3 := h3.symm.trans g3
      simp only [Out.ok.injEq, Prod.mk.injEq] at e3
      obtain ⟨e3a, e3b⟩ := e3
      subst e3a; subst e3b
      have e4 := h4.symm.trans g4
      simp only [Option.some.injEq] at e4
      subst e4
      obtain ⟨a, b⟩ := ih g5
      subst a; subst b
      exact ⟨rfl, rfl⟩

/-- a flattened service has a chain, and its value is the base-first fold along it -/
theorem Flat.chain {E : Env} {S : KVs} {n : String} {v : Val} (h : Flat E S n v) :
    ∀ cf, ∃ links leaf m, Chain E cf S n links leaf ∧ foldChain E leaf.2.2 links = .ok m ∧ v = .map m := by
  induction h with
  | leaf h1 h2 =>
    intro cf
    exact ⟨[], _, _, Chain.leaf h1 h2, rfl, rfl⟩
  | step h1 h2 h3 h4 h5 h6 ih =>
    rename_i S n svc e ref file S' b m
    intro cf
    obtain ⟨links, leaf, mb, hc, hf, hv⟩ := ih (nextFile cf file)
    simp only [Val.map.injEq] at hv
    subst hv
    exact ⟨(cf, n, svc) :: links, leaf, _, Chain.step h1 h2 h3 h4 hc, by simp [foldChain, hf, h6], rfl⟩

/-- conversely, a chain whose base-first fold succeeds is a flattened form -/
theorem Chain.flat {E : Env} {cf : String} {S : KVs} {n : String} {links : List ChainElt} {leaf : ChainElt}
    (h : Chain E cf S n links leaf) : ∀ m, foldChain E leaf.2.2 links = .ok m → Flat E S n (.map m) := by
  induction h with
  | leaf h1 h2 =>
    intro m hm
    simp only [foldChain, Out.ok.injEq] at hm
    subst hm
    exact Flat.leaf h1 h2
  | step h1 h2 h3 h4 h5 ih =>
    intro m hm
    simp only [foldChain] at hm
    split at hm
    · rename_i b hb
      split at hm <;> try cases hm
      rename_i m' hm'
      exact Flat.step h1 h2 h3 h4 (ih b hb) hm'
    · cases hm
    · cases hm

/-- where each element of a chain comes from: the starting mapping (file `cf`) or the services mapping of the
file-system entry of the file it is attributed to -/
theorem Chain.elt_source {E : Env} {cf : String} {S : KVs} {n : String} {links : List ChainElt} {leaf : ChainElt}
    (h : Chain E cf S n links leaf) :
    ∀ x ∈ links ++ [leaf], (x.1 = cf ∧ lookup x.2.1 S = some (.map x.2.2)) ∨
      (∃ S', fileServices E.fs x.1 = some S' ∧ lookup x.2.1 S' = some (.map x.2.2)) := by
  induction h with
  | leaf h1 h2 =>
    intro x hx
    simp only [List.nil_append, List.mem_singleton] at hx
    subst hx
    exact Or.inl ⟨rfl, h1⟩
  | step h1 h2 h3 h4 h5 ih =>
    rename_i cf S n svc e ref file S' links leaf
    intro x hx
    simp only [List.cons_append, List.mem_cons] at hx
    rcases hx with rfl | hx
    · exact Or.inl ⟨rfl, h1⟩
    · obtain ⟨_, _, hnone, hsome⟩ := baseMap_resolveBase (cf := cf) (n := n) h4
      rcases ih x hx with ⟨a, b⟩ | hr
      · cases file with
        | none =>
          have := hnone rfl
          subst this
          exact Or.inl ⟨a, b⟩
        | some f =>
          simp only [nextFile] at a
          exact Or.inr ⟨S', a ▸ hsome f rfl, b⟩
      · exact Or.inr hr

/-- the chain has one link per tracker key: its length is the number of `extends` followed -/
theorem FlatK.chain_length {E : Env} {cf : String} {S : KVs} {n : String} {ks : List Key} {v : Val}
    (h : FlatK E cf S n ks v) : ∃ links leaf, Chain E cf S n links leaf ∧ links.length = ks.length ∧
      links.map (fun x => (x.1, x.2.1)) = ks := by
  induction h with
  | leaf h1 h2 => exact ⟨[], _, Chain.leaf h1 h2, rfl, rfl⟩
  | step h1 h2 h3 h4 h5 h6 ih =>
    obtain ⟨links, leaf, hc, hl, hm⟩ := ih
    exact ⟨_ :: links, leaf, Chain.step h1 h2 h3 h4 hc, by simp [hl], by simp [hm]⟩

end CV.Extends
