import ComposeVerif.Lemmas.C02StageGeneric
import ComposeVerif.Lemmas.C02StageWalk
import ComposeVerif.Model.Paths

namespace CV.Det.Stage
open CV CV.Deep
open CV.Val (lookup insert keys KVs)

/-! ### `paths.ResolveRelativePaths` respects the equivalence at every nesting level -/

def PRel {α : Type} (R : α → α → Prop) : CV.Paths.Out α → CV.Paths.Out α → Prop
  | .ok a, .ok b => R a b
  | .ok _, _ => False
  | _, .ok _ => False
  | _, _ => True

theorem PRel.map {α β : Type} {R : α → α → Prop} {S : β → β → Prop} {x y : CV.Paths.Out α} {f g : α → β}
    (h : PRel R x y) (hf : ∀ a b, R a b → S (f a) (g b)) : PRel S (x.map f) (y.map g) := by
  cases x <;> cases y <;> simp only [PRel, CV.Paths.Out.map] at h ⊢
  · exact hf _ _ h
  all_goals first | exact h.elim | trivial

theorem PRel.refl_str {x : CV.Paths.Out Str} : PRel (fun a b => a = b) x x := by
  cases x <;> simp [PRel]

theorem absPath_eqv_aux (cfg : CV.Paths.Cfg) {v w : Val} (h : Eqv v w) :
    PRel Eqv (CV.Paths.absPath cfg v) (CV.Paths.absPath cfg w) ∧
    (∀ xs ys, v = .seq xs → w = .seq ys → PRel (fun l l' => Eqv (.seq l) (.seq l')) (CV.Paths.absPathList cfg xs) (CV.Paths.absPathList cfg ys)) := by
  induction h with
  | null => exact ⟨by simp [CV.Paths.absPath, PRel], fun _ _ h => by cases h⟩
  | bool b => exact ⟨by simp [CV.Paths.absPath, PRel], fun _ _ h => by cases h⟩
  | int i => exact ⟨by simp [CV.Paths.absPath, PRel], fun _ _ h => by cases h⟩
  | float s => exact ⟨by simp [CV.Paths.absPath, PRel], fun _ _ h => by cases h⟩
  | str s => exact ⟨by simp only [CV.Paths.absPath, PRel]; exact Eqv.str _, fun _ _ h => by cases h⟩
  | map _ _ _ => exact ⟨by simp [CV.Paths.absPath, PRel], fun _ _ h => by cases h⟩
  | seqNil =>
    refine ⟨?_, fun xs ys h1 h2 => by cases h1; cases h2; simp only [CV.Paths.absPathList, PRel]; exact Eqv.seqNil⟩
    simp only [CV.Paths.absPath, CV.Paths.absPathList, CV.Paths.Out.map, PRel]; exact Eqv.seqNil
  | @seqCons x y xs ys _ _ ih1 ih2 =>
    have hl : PRel (fun l l' => Eqv (.seq l) (.seq l')) (CV.Paths.absPathList cfg (x :: xs)) (CV.Paths.absPathList cfg (y :: ys)) := by
      have h1 := ih1.1
      have h2 := ih2.2 xs ys rfl rfl
      rw [CV.Paths.absPathList, CV.Paths.absPathList]
      cases hx : CV.Paths.absPath cfg x <;> cases hy : CV.Paths.absPath cfg y <;> simp only [hx, hy, PRel] at h1 ⊢ <;>
        try exact h1.elim
      exact PRel.map h2 (fun a b hab => Eqv.seqCons h1 hab)
    refine ⟨?_, fun xs' ys' e1 e2 => by cases e1; cases e2; exact hl⟩
    simp only [CV.Paths.absPath]
    exact PRel.map hl (fun a b hab => hab)

theorem absPath_eqv (cfg : CV.Paths.Cfg) {v w : Val} (h : Eqv v w) : PRel Eqv (CV.Paths.absPath cfg v) (CV.Paths.absPath cfg w) :=
  (absPath_eqv_aux cfg h).1

theorem strOnly_eqv (f : String → CV.Paths.Out Val) (F : Val → CV.Paths.Out Val)
    (hs : ∀ s, F (.str s) = f s) (hn : ∀ v, (∀ s, v ≠ .str s) → F v = .err "unexpectedType")
    (hw : ∀ s z, f s = .ok z → WF z) {v w : Val} (h : Eqv v w) : PRel Eqv (F v) (F w) := by
  cases h with
  | str s =>
    rw [hs]
    cases hf : f s with
    | ok z => simp only [PRel]; exact Eqv.refl z (hw s z hf)
    | err e => trivial
    | panic e => trivial
  | null => rw [hn _ (by intro s h; cases h)]; trivial
  | bool b => rw [hn _ (by intro s h; cases h)]; trivial
  | int i => rw [hn _ (by intro s h; cases h)]; trivial
  | float s => rw [hn _ (by intro s h; cases h)]; trivial
  | seqNil => rw [hn _ (by intro s h; cases h)]; trivial
  | seqCons _ _ => rw [hn _ (by intro s h; cases h), hn _ (by intro s h; cases h)]; trivial
  | map _ _ => rw [hn _ (by intro s h; cases h), hn _ (by intro s h; cases h)]; trivial

theorem maybeUnixPath_eqv (cfg : CV.Paths.Cfg) {v w : Val} (h : Eqv v w) :
    PRel Eqv (CV.Paths.maybeUnixPath cfg v) (CV.Paths.maybeUnixPath cfg w) := by
  apply strOnly_eqv (fun s => (CV.Paths.maybeUnixStr cfg s.toList).map (fun r => .str (String.ofList r))) _ (fun s => rfl) _ _ h
  · intro v hv; cases v <;> first | rfl | exact absurd rfl (hv _)
  · intro s z hz
    cases hm : CV.Paths.maybeUnixStr cfg s.toList <;> simp only [hm, CV.Paths.Out.map] at hz <;> cases hz
    exact .str _

theorem absContextPath_eqv (cfg : CV.Paths.Cfg) {v w : Val} (h : Eqv v w) :
    PRel Eqv (CV.Paths.absContextPath cfg v) (CV.Paths.absContextPath cfg w) := by
  apply strOnly_eqv (fun s => CV.Paths.okStr (CV.Paths.absContextStr cfg s.toList)) _ (fun s => rfl) _ _ h
  · intro v hv; cases v <;> first | rfl | exact absurd rfl (hv _)
  · intro s z hz; simp only [CV.Paths.okStr] at hz; cases hz; exact .str _

theorem absExtendsPath_eqv (cfg : CV.Paths.Cfg) {v w : Val} (h : Eqv v w) :
    PRel Eqv (CV.Paths.absExtendsPath cfg v) (CV.Paths.absExtendsPath cfg w) := by
  apply strOnly_eqv (fun s => CV.Paths.okStr (CV.Paths.absExtendsStr cfg s.toList)) _ (fun s => rfl) _ _ h
  · intro v hv; cases v <;> first | rfl | exact absurd rfl (hv _)
  · intro s z hz; simp only [CV.Paths.okStr] at hz; cases hz; exact .str _

theorem absSymbolicLink_eqv (cfg : CV.Paths.Cfg) {v w : Val} (h : Eqv v w) :
    PRel Eqv (CV.Paths.absSymbolicLink cfg v) (CV.Paths.absSymbolicLink cfg w) := by
  have h1 := absPath_eqv cfg h
  unfold CV.Paths.absSymbolicLink
  cases hx : CV.Paths.absPath cfg v <;> cases hy : CV.Paths.absPath cfg w <;> simp only [hx, hy, PRel] at h1 ⊢ <;>
    try exact h1.elim
  · cases h1 with
    | str s =>
      simp only []
      cases cfg.sym s.toList with
      | some r => simp only [CV.Paths.okStr, PRel]; exact Eqv.str _
      | none => trivial
    | null => exact Eqv.null
    | bool b => exact Eqv.bool b
    | int i => exact Eqv.int i
    | float s => exact Eqv.float s
    | seqNil => exact Eqv.seqNil
    | seqCons a b => exact Eqv.seqCons a b
    | map a b => exact Eqv.map a b
  all_goals trivial

theorem str_inv {s : String} {y : Val} (h : Eqv (.str s) y) : y = .str s := by cases h; rfl

/-- the value under a key, as far as the resolvers look at it -/
theorem lookup_rel {a b : KVs} (hm : MEqv a b) (k : String) : ORel Eqv (lookup k a) (lookup k b) := by
  cases hl : lookup k a with
  | none => rw [(hm.1 k).mp hl]; trivial
  | some x => obtain ⟨y, hy, hxy⟩ := hm.lookup_some hl; rw [hy]; exact hxy

theorem absVolumeMount_eqv (cfg : CV.Paths.Cfg) {v w : Val} (h : Eqv v w) (wv : WF v) (ww : WF w) :
    PRel Eqv (CV.Paths.absVolumeMount cfg v) (CV.Paths.absVolumeMount cfg w) := by
  cases h with
  | null => exact Eqv.null
  | bool b => exact Eqv.bool b
  | int i => exact Eqv.int i
  | float s => exact Eqv.float s
  | str s => exact Eqv.str s
  | seqNil => exact Eqv.seqNil
  | seqCons a b => exact Eqv.seqCons a b
  | @map a b h1 h2 =>
    have hm : MEqv a b := ⟨h1, h2⟩
    have ht := lookup_rel hm "type"
    have hs := lookup_rel hm "source"
    simp only [CV.Paths.absVolumeMount]
    cases hta : lookup "type" a <;> cases htb : lookup "type" b <;> simp only [hta, htb, ORel] at ht <;> try exact ht.elim
    · exact Eqv.map h1 h2
    · rename_i x y
      cases ht with
      | str s =>
        by_cases hb : s = "bind"
        · subst hb
          simp only []
          cases hsa : lookup "source" a <;> cases hsb : lookup "source" b <;> simp only [hsa, hsb, ORel] at hs <;>
            try exact hs.elim
          · trivial
          · rename_i x' y'
            cases hs with
            | str s' =>
              simp only []
              cases CV.Paths.maybeUnixStr cfg s'.toList with
              | ok r => simp only [CV.Paths.Out.map, PRel]; exact Eqv.map_iff.mpr (hm.insert "source" (Eqv.str _))
              | err e => trivial
              | panic e => trivial
            | null => trivial
            | bool b => trivial
            | int i => trivial
            | float s => trivial
            | seqNil => trivial
            | seqCons _ _ => trivial
            | map _ _ => trivial
        · split
          · rename_i heq; simp only [Option.some.injEq, Val.str.injEq] at heq; exact absurd heq hb
          · exact Eqv.map h1 h2
      | null => exact Eqv.map h1 h2
      | bool b => exact Eqv.map h1 h2
      | int i => exact Eqv.map h1 h2
      | float s => exact Eqv.map h1 h2
      | seqNil => exact Eqv.map h1 h2
      | seqCons _ _ => exact Eqv.map h1 h2
      | map _ _ => exact Eqv.map h1 h2

theorem vdo_inner (cfg : CV.Paths.Cfg) {a b o o' : KVs} (hm : MEqv a b) (ho : MEqv o o') :
    PRel Eqv
      (match lookup "o" o, lookup "device" o with
        | some (.str "bind"), some dev =>
          (CV.Paths.maybeUnixPath cfg dev).map (fun d => Val.map (insert "driver_opts" (.map (insert "device" d o)) a))
        | _, _ => CV.Paths.Out.ok (Val.map a))
      (match lookup "o" o', lookup "device" o' with
        | some (.str "bind"), some dev =>
          (CV.Paths.maybeUnixPath cfg dev).map (fun d => Val.map (insert "driver_opts" (.map (insert "device" d o')) b))
        | _, _ => CV.Paths.Out.ok (Val.map b)) := by
  have hmap : Eqv (Val.map a) (Val.map b) := Eqv.map_iff.mpr hm
  have h1 := lookup_rel ho "o"
  have h2 := lookup_rel ho "device"
  cases hoa : lookup "o" o <;> cases hob : lookup "o" o' <;> simp only [hoa, hob, ORel] at h1 <;> try exact h1.elim
  · exact hmap
  · rename_i x y
    cases hda : lookup "device" o <;> cases hdb : lookup "device" o' <;> simp only [hda, hdb, ORel] at h2 <;>
      try exact h2.elim
    · split <;> split <;> first | exact hmap | (rename_i h _; cases h) | (rename_i h; cases h) | skip
      all_goals first | exact hmap | (simp_all)
    · rename_i d d'
      cases h1 with
      | str s =>
        by_cases hb : s = "bind"
        · subst hb
          simp only []
          exact PRel.map (maybeUnixPath_eqv cfg h2) (fun u u' huu =>
            Eqv.map_iff.mpr (hm.insert "driver_opts" (Eqv.map_iff.mpr (ho.insert "device" huu))))
        · split
          · rename_i heq _; simp only [Option.some.injEq, Val.str.injEq] at heq; exact absurd heq hb
          · split
            · rename_i heq _; simp only [Option.some.injEq, Val.str.injEq] at heq; exact absurd heq hb
            · exact hmap
      | null => exact hmap
      | bool b => exact hmap
      | int i => exact hmap
      | float s => exact hmap
      | seqNil => exact hmap
      | seqCons _ _ => exact hmap
      | map _ _ => exact hmap

theorem volumeDriverOpts_eqv (cfg : CV.Paths.Cfg) {v w : Val} (h : Eqv v w) :
    PRel Eqv (CV.Paths.volumeDriverOpts cfg v) (CV.Paths.volumeDriverOpts cfg w) := by
  cases h with
  | null => exact Eqv.null
  | bool b => trivial
  | int i => trivial
  | float s => trivial
  | str s => trivial
  | seqNil => trivial
  | seqCons _ _ => trivial
  | @map a b h1 h2 =>
    have hm : MEqv a b := ⟨h1, h2⟩
    have hmap : Eqv (Val.map a) (Val.map b) := Eqv.map h1 h2
    have hd := lookup_rel hm "driver"
    have ho := lookup_rel hm "driver_opts"
    simp only [CV.Paths.volumeDriverOpts]
    cases hda : lookup "driver" a <;> cases hdb : lookup "driver" b <;> simp only [hda, hdb, ORel] at hd <;> try exact hd.elim
    · exact hmap
    · cases hd with
      | str s =>
        by_cases hl : s = "local"
        · subst hl
          simp only []
          cases hoa : lookup "driver_opts" a <;> cases hob : lookup "driver_opts" b <;> simp only [hoa, hob, ORel] at ho <;>
            try exact ho.elim
          · exact hmap
          · cases ho with
            | null => exact hmap
            | map o1 o2 => exact vdo_inner cfg hm ⟨o1, o2⟩
            | bool b => trivial
            | int i => trivial
            | float s => trivial
            | str s => trivial
            | seqNil => trivial
            | seqCons _ _ => trivial
        · split
          · rename_i heq; simp only [Option.some.injEq, Val.str.injEq] at heq; exact absurd heq hl
          · exact hmap
      | null => exact hmap
      | bool b => exact hmap
      | int i => exact hmap
      | float s => exact hmap
      | seqNil => exact hmap
      | seqCons _ _ => exact hmap
      | map _ _ => exact hmap

theorem applyResolver_eqv (cfg : CV.Paths.Cfg) (hname : String) {v w : Val} (h : Eqv v w) (wv : WF v) (ww : WF w) :
    PRel Eqv (CV.Paths.applyResolver cfg hname v) (CV.Paths.applyResolver cfg hname w) := by
  unfold CV.Paths.applyResolver
  split
  · exact absPath_eqv cfg h
  · split
    · exact absContextPath_eqv cfg h
    · split
      · exact absExtendsPath_eqv cfg h
      · split
        · exact absSymbolicLink_eqv cfg h
        · split
          · exact absVolumeMount_eqv cfg h wv ww
          · split
            · exact maybeUnixPath_eqv cfg h
            · split
              · exact volumeDriverOpts_eqv cfg h
              · trivial

theorem PRel.toORel {α : Type} {R : α → α → Prop} {x y : CV.Paths.Out α} (h : PRel R x y) : ORel R (optP x) (optP y) := by
  cases x <;> cases y <;> simp only [PRel] at h <;> simp only [optP, ORel] <;> first | exact h | exact h.elim

theorem PRel.ofORel {α : Type} {R : α → α → Prop} {x y : CV.Paths.Out α} (h : ORel R (optP x) (optP y)) : PRel R x y := by
  cases x <;> cases y <;> simp only [optP, ORel] at h <;> simp only [PRel] <;> first | exact h | exact h.elim

theorem walk_eqv_aux (t : CV.Paths.Table) (cfg : CV.Paths.Cfg) {v w : Val} (h : Eqv v w) :
    WF v → WF w →
      (∀ p, PRel Eqv (CV.Paths.walk t cfg p v) (CV.Paths.walk t cfg p w)) ∧
      (∀ xs ys, v = .seq xs → w = .seq ys → ∀ p, PRel LRel (CV.Paths.walkSeq t cfg p xs) (CV.Paths.walkSeq t cfg p ys)) := by
  induction h with
  | null => intro w1 w2; exact ⟨fun p => by
      simp only [CV.Paths.walk]; split
      · exact applyResolver_eqv cfg _ .null w1 w2
      · exact Eqv.null, fun _ _ h => by cases h⟩
  | bool b => intro w1 w2; exact ⟨fun p => by
      simp only [CV.Paths.walk]; split
      · exact applyResolver_eqv cfg _ (.bool b) w1 w2
      · exact Eqv.bool b, fun _ _ h => by cases h⟩
  | int i => intro w1 w2; exact ⟨fun p => by
      simp only [CV.Paths.walk]; split
      · exact applyResolver_eqv cfg _ (.int i) w1 w2
      · exact Eqv.int i, fun _ _ h => by cases h⟩
  | float s => intro w1 w2; exact ⟨fun p => by
      simp only [CV.Paths.walk]; split
      · exact applyResolver_eqv cfg _ (.float s) w1 w2
      · exact Eqv.float s, fun _ _ h => by cases h⟩
  | str s => intro w1 w2; exact ⟨fun p => by
      simp only [CV.Paths.walk]; split
      · exact applyResolver_eqv cfg _ (.str s) w1 w2
      · exact Eqv.str s, fun _ _ h => by cases h⟩
  | seqNil =>
    intro w1 w2
    refine ⟨fun p => ?_, fun xs ys h1 h2 p => by cases h1; cases h2; simp only [CV.Paths.walkSeq, PRel]; exact Eqv.seqNil⟩
    simp only [CV.Paths.walk]; split
    · exact applyResolver_eqv cfg _ .seqNil w1 w2
    · simp only [CV.Paths.walkSeq, CV.Paths.Out.map, PRel]; exact Eqv.seqNil
  | @seqCons x y xs ys hxy hrest ih1 ih2 =>
    intro w1 w2
    cases w1 with | seqCons wx wxs =>
    cases w2 with | seqCons wy wys =>
    have hl : ∀ p, PRel LRel (CV.Paths.walkSeq t cfg p (x :: xs)) (CV.Paths.walkSeq t cfg p (y :: ys)) := by
      intro p
      have h1 := (ih1 wx wy).1 (TPath.next p "[]")
      have h2 := (ih2 wxs wys).2 xs ys rfl rfl p
      rw [CV.Paths.walkSeq, CV.Paths.walkSeq]
      cases hx : CV.Paths.walk t cfg (TPath.next p "[]") x <;> cases hy : CV.Paths.walk t cfg (TPath.next p "[]") y <;>
        simp only [hx, hy, PRel] at h1 ⊢ <;> try exact h1.elim
      exact PRel.map h2 (fun a b hab => Eqv.seqCons h1 hab)
    refine ⟨fun p => ?_, fun xs' ys' e1 e2 p => by cases e1; cases e2; exact hl p⟩
    simp only [CV.Paths.walk]; split
    · exact applyResolver_eqv cfg _ (.seqCons hxy hrest) (.seqCons wx wxs) (.seqCons wy wys)
    · exact PRel.map (hl p) (fun a b hab => hab)
  | @map a b hnone hval ih =>
    intro w1 w2
    have wa := WF.map_iff.mp w1
    have wb := WF.map_iff.mp w2
    refine ⟨fun p => ?_, fun _ _ h => by cases h⟩
    simp only [CV.Paths.walk]; split
    · exact applyResolver_eqv cfg _ (.map hnone hval) w1 w2
    · have hk := travOpt_meqv (fun k v => optP (CV.Paths.walk t cfg (TPath.next p k) v))
        (fun k v => optP (CV.Paths.walk t cfg (TPath.next p k) v)) ⟨hnone, hval⟩ wa wb
        (fun k x y hx hy => ((ih k x y hx hy (wa.2 k x hx) (wb.2 k y hy)).1 (TPath.next p k)).toORel)
      rw [← walkKVs_trav, ← walkKVs_trav] at hk
      exact PRel.map (PRel.ofORel hk) (fun m m' hmm => Eqv.map_iff.mpr hmm)

/-- **`paths.ResolveRelativePaths` as a whole tree walk** -/
theorem walk_eqv (t : CV.Paths.Table) (cfg : CV.Paths.Cfg) (p : TPath) {v w : Val} (h : Eqv v w) (wv : WF v) (ww : WF w) :
    PRel Eqv (CV.Paths.walk t cfg p v) (CV.Paths.walk t cfg p w) := (walk_eqv_aux t cfg h wv ww).1 p

end CV.Det.Stage
