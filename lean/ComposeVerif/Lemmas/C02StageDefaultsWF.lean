import ComposeVerif.Lemmas.C02StageDefaults
import ComposeVerif.Lemmas.C02StageInterpWF
/-! `transform.SetDefaultValues` keeps the keys of every mapping distinct (round 6; discharges `WFAlong` after the stage) -/
namespace CV.Det.Stage
open CV CV.Deep CV.C11
open CV.Val (lookup insert keys KVs)

theorem setIfAbsent_mwf {m : KVs} (wm : MWF m) (k : String) {v : Val} (hv : WF v) : MWF (setIfAbsent k v m) := by
  unfold setIfAbsent
  split
  · exact wm
  · exact MWF.insert wm k hv

theorem applyHandler_wf (h : String) {v r : Val} (wv : WF v) (e : applyHandler h v = .ok r) : WF r := by
  unfold applyHandler at e
  split at e
  · cases v with
    | map m => simp only [defaultBuildContext] at e; cases e
               exact WF.map_iff.mpr (setIfAbsent_mwf (WF.map_iff.mp wv) _ (.str _))
    | _ => simp only [defaultBuildContext] at e; cases e; exact wv
  split at e
  · cases v with
    | map m => simp only [defaultSecretMount] at e; cases e
               exact WF.map_iff.mpr (setIfAbsent_mwf (WF.map_iff.mp wv) _ (.str _))
    | _ => simp only [defaultSecretMount] at e; cases e
  split at e
  · cases v with
    | map m => simp only [portDefaults] at e; cases e
               exact WF.map_iff.mpr (setIfAbsent_mwf (setIfAbsent_mwf (WF.map_iff.mp wv) _ (.str _)) _ (.str _))
    | _ => simp only [portDefaults] at e; cases e; exact wv
  split at e
  · cases v with
    | map m =>
      simp only [deviceRequestDefaults] at e; cases e
      refine WF.map_iff.mpr ?_
      unfold deviceCount
      split
      · exact MWF.insert (WF.map_iff.mp wv) _ (.str _)
      · exact WF.map_iff.mp wv
    | _ => simp only [deviceRequestDefaults] at e; cases e
  · cases e

theorem setDefaults_wf_aux (tbl : List (List String × String)) {v : Val} (wv : WF v) :
    (∀ p r, setDefaults tbl p v = .ok r → WF r) ∧
    (∀ xs, v = .seq xs → ∀ p rs, setDefaultsList tbl p xs = .ok rs → WF (.seq rs)) := by
  have leafCase : ∀ (u : Val), WF u → (∀ p, TPath.firstMatch tbl p = none → setDefaults tbl p u = .ok u) →
      ∀ p r, setDefaults tbl p u = .ok r → WF r := by
    intro u wu hleaf p r h
    cases hm : TPath.firstMatch tbl p with
    | some hn => unfold setDefaults at h; rw [hm] at h; exact applyHandler_wf hn wu h
    | none => rw [hleaf p hm] at h; cases h; exact wu
  induction wv with
  | null => exact ⟨leafCase _ .null (fun p hm => by unfold setDefaults; rw [hm]), fun _ h => by cases h⟩
  | bool b => exact ⟨leafCase _ (.bool b) (fun p hm => by unfold setDefaults; rw [hm]), fun _ h => by cases h⟩
  | int i => exact ⟨leafCase _ (.int i) (fun p hm => by unfold setDefaults; rw [hm]), fun _ h => by cases h⟩
  | float s => exact ⟨leafCase _ (.float s) (fun p hm => by unfold setDefaults; rw [hm]), fun _ h => by cases h⟩
  | str s => exact ⟨leafCase _ (.str s) (fun p hm => by unfold setDefaults; rw [hm]), fun _ h => by cases h⟩
  | seqNil =>
    refine ⟨fun p r h => ?_, fun xs e p rs h => ?_⟩
    · cases hm : TPath.firstMatch tbl p with
      | some hn => unfold setDefaults at h; rw [hm] at h; exact applyHandler_wf hn .seqNil h
      | none => unfold setDefaults at h; rw [hm] at h; simp only [setDefaultsList] at h; cases h; exact .seqNil
    · cases e; simp only [setDefaultsList] at h; cases h; exact .seqNil
  | @seqCons x xs wx wxs ih1 ih2 =>
    have key : ∀ p rs, setDefaultsList tbl p (x :: xs) = .ok rs → WF (.seq rs) := by
      intro p rs h
      rw [setDefaultsList] at h
      cases hx : setDefaults tbl (TPath.next p "[]") x with
      | ok z =>
        rw [hx] at h
        cases hxs : setDefaultsList tbl p xs with
        | ok zs =>
          rw [hxs] at h
          simp only [] at h
          cases h
          exact .seqCons (ih1.1 _ _ hx) (ih2.2 xs rfl p zs hxs)
        | err e => rw [hxs] at h; cases h
        | panic e => rw [hxs] at h; cases h
      | err e => rw [hx] at h; cases h
      | panic e => rw [hx] at h; cases h
    refine ⟨fun p r h => ?_, fun xs' e p rs h => by cases e; exact key p rs h⟩
    cases hm : TPath.firstMatch tbl p with
    | some hn => unfold setDefaults at h; rw [hm] at h; exact applyHandler_wf hn (.seqCons wx wxs) h
    | none =>
      unfold setDefaults at h; rw [hm] at h
      simp only [] at h
      cases hl : setDefaultsList tbl p (x :: xs) with
      | ok rs => rw [hl] at h; cases h; exact key p rs hl
      | err e => rw [hl] at h; cases h
      | panic e => rw [hl] at h; cases h
  | @map a hn hall ih =>
    refine ⟨fun p r h => ?_, fun _ e => by cases e⟩
    cases hm : TPath.firstMatch tbl p with
    | some hd => unfold setDefaults at h; rw [hm] at h; exact applyHandler_wf hd (.map hn hall) h
    | none =>
      unfold setDefaults at h; rw [hm] at h
      simp only [] at h
      cases hk : setDefaultsKVs tbl p a with
      | ok m =>
        rw [hk] at h; cases h
        have ht : travOpt (fun k v => optD (setDefaults tbl (TPath.next p k) v)) a = some m := by
          rw [← setDefaultsKVs_trav, hk]; rfl
        refine WF.map_iff.mpr (travOpt_mwf _ ⟨hn, hall⟩ ht ?_)
        intro k x z hx hz
        cases hi : setDefaults tbl (TPath.next p k) x with
        | ok z' => rw [hi] at hz; simp only [optD, Option.some.injEq] at hz; subst hz; exact (ih k x hx).1 _ _ hi
        | err e => rw [hi] at hz; cases hz
        | panic e => rw [hi] at hz; cases hz
      | err e => rw [hk] at h; cases h
      | panic e => rw [hk] at h; cases h

/-- **`SetDefaultValues` keeps the keys of every mapping distinct** -/
theorem setDefaults_wf (tbl : List (List String × String)) (p : TPath) {v r : Val} (wv : WF v)
    (h : setDefaults tbl p v = .ok r) : WF r := (setDefaults_wf_aux tbl wv).1 p r h

end CV.Det.Stage
