import ComposeVerif.Lemmas.TravStep
/-!
# Life-cycle invariant of the traversal (`InvA`)

Where a vertex is, as a function of its status:
absent → (claimed: one pending spawn) → worker start/running/returned (status entered)
→ worker marked (status visited, not yet handed off) → worker sent (in `ch` or `received`) → gone.
-/
set_option linter.unusedSimpArgs false
set_option linter.unusedVariables false
namespace CV.Trav

def spawnOf : Option Sched → Option V
  | some ⟨_, .spawn v⟩ => some v
  | _ => none

/-- some scheduling goroutine has claimed `v` (test-and-set in `enter`) and is about to call `eg.Go` -/
def pendSpawn (s : St) (v : V) : Prop := ∃ w, spawnOf (getSched s w) = some v

theorem pendSpawn_congr {s s' : St} (hm : s'.m = s.m) (hc : s'.cSched = s.cSched) (ha : s'.cAlive = s.cAlive) (v : V) :
    pendSpawn s' v ↔ pendSpawn s v := by
  unfold pendSpawn
  constructor <;> (rintro ⟨w, h⟩; refine ⟨w, ?_⟩)
  · rwa [getSched_congr hm hc ha] at h
  · rwa [getSched_congr hm hc ha]

theorem pendSpawn_put {s : St} {w : Who} {y : Sched} (x : Option Sched) (h : getSched s w = some y) (v : V) :
    pendSpawn (putSched s w x) v ↔ spawnOf x = some v ∨ ∃ w', w' ≠ w ∧ spawnOf (getSched s w') = some v := by
  unfold pendSpawn
  constructor
  · rintro ⟨w', hw'⟩
    by_cases e : w' = w
    · subst e; rw [getSched_put_same x h] at hw'; exact .inl hw'
    · rw [getSched_put_ne x e] at hw'; exact .inr ⟨w', e, hw'⟩
  · rintro (hx | ⟨w', e, hw'⟩)
    · exact ⟨w, by rw [getSched_put_same x h]; exact hx⟩
    · exact ⟨w', by rw [getSched_put_ne x e]; exact hw'⟩

/-- a scheduling step that neither starts from nor ends in a `spawn` sub-state leaves the claims unchanged -/
theorem pendSpawn_put_plain {s : St} {w : Who} {y : Sched} (x : Option Sched) (h : getSched s w = some y)
    (hy : spawnOf (some y) = none) (hx : spawnOf x = none) (v : V) :
    pendSpawn (putSched s w x) v ↔ pendSpawn s v := by
  rw [pendSpawn_put x h]
  constructor
  · rintro (hx' | ⟨w', _, hw'⟩)
    · rw [hx] at hx'; cases hx'
    · exact ⟨w', hw'⟩
  · rintro ⟨w', hw'⟩
    by_cases e : w' = w
    · subst e; rw [h, hy] at hw'; cases hw'
    · exact .inr ⟨w', e, hw'⟩

structure InvA (s : St) : Prop where
  wkNodup : (s.workers.map (·.1)).Nodup
  wkEarly : ∀ v pc, (v, pc) ∈ s.workers → (pc = .start ∨ pc = .running ∨ ∃ e, pc = .returned e) → s.status v = .entered
  wkLate : ∀ v e, ((v, WPc.marked e) ∈ s.workers ∨ (v, WPc.sent e) ∈ s.workers) → s.status v = .visited
  pendEntered : ∀ v, pendSpawn s v → s.status v = .entered
  pendNoWorker : ∀ v pc, pendSpawn s v → (v, pc) ∉ s.workers
  pendExcl : ∀ v, spawnOf (getSched s .M) = some v → spawnOf (getSched s .C) = some v → False
  handed : ∀ v, v ∈ s.ch ∨ v ∈ s.received → s.status v = .visited
  handedPc : ∀ v pc, (v ∈ s.ch ∨ v ∈ s.received) → (v, pc) ∈ s.workers → ∃ e, pc = .sent e
  sentHanded : ∀ v e, (v, WPc.sent e) ∈ s.workers → v ∈ s.ch ∨ v ∈ s.received
  visitedWhere : ∀ v, s.status v = .visited → (∃ e, (v, WPc.marked e) ∈ s.workers) ∨ v ∈ s.ch ∨ v ∈ s.received
  enteredWhere : ∀ v, s.status v = .entered → (∃ pc, (v, pc) ∈ s.workers) ∨ pendSpawn s v
  chRecvNodup : (s.ch ++ s.received).Nodup

theorem wpc_cases (pc : WPc) : (pc = .start ∨ pc = .running ∨ ∃ e, pc = .returned e) ∨ (∃ e, pc = .marked e) ∨ (∃ e, pc = .sent e) := by
  cases pc <;> simp

/-- a vertex that has a worker is not absent -/
theorem InvA.worker_status {s : St} (hI : InvA s) {v : V} {pc : WPc} (h : (v, pc) ∈ s.workers) : s.status v ≠ .absent := by
  rcases wpc_cases pc with he | ⟨e, rfl⟩ | ⟨e, rfl⟩
  · rw [hI.wkEarly v pc h he]; decide
  · rw [hI.wkLate v e (.inl h)]; decide
  · rw [hI.wkLate v e (.inr h)]; decide

theorem init_invA (g : Graph) : InvA (init g) := by
  refine ⟨by simp [init], ?_, ?_, ?_, ?_, ?_, ?_, ?_, ?_, ?_, ?_, by simp [init]⟩
  · intro v pc h; simp [init] at h
  · intro v e h; simp [init] at h
  · rintro v ⟨w, h⟩; cases w <;> simp [init, getSched, spawnOf] at h
  · intro v pc _ h; simp [init] at h
  · intro v h; simp [init, getSched, spawnOf] at h
  · intro v h; simp [init] at h
  · intro v pc h; simp [init] at h
  · intro v e h; simp [init] at h
  · intro v h; simp [init] at h
  · intro v h; simp [init] at h

/-- steps that only move a scheduler between non-`spawn` sub-states -/
theorem invA_plain {s : St} {w : Who} {y : Sched} (x : Option Sched) (h : getSched s w = some y)
    (hy : spawnOf (some y) = none) (hx : spawnOf x = none) (hI : InvA s) : InvA (putSched s w x) := by
  have hp := pendSpawn_put_plain x h hy hx
  refine ⟨by simpa using hI.wkNodup, by simpa using hI.wkEarly, by simpa using hI.wkLate, ?_, ?_, ?_,
    by simpa using hI.handed, by simpa using hI.handedPc, by simpa using hI.sentHanded, by simpa using hI.visitedWhere, ?_,
    by simpa using hI.chRecvNodup⟩
  · intro v hv; simpa using hI.pendEntered v ((hp v).mp hv)
  · intro v pc hv; simpa using hI.pendNoWorker v pc ((hp v).mp hv)
  · intro v hM hC
    cases w with
    | M => rw [getSched_put_same x h, hx] at hM; cases hM
    | C => rw [getSched_put_same x h, hx] at hC; cases hC
  · intro v hv
    rcases hI.enteredWhere v (by simpa using hv) with hw | hpd
    · exact .inl (by simpa using hw)
    · exact .inr ((hp v).mpr hpd)

def Early (pc : WPc) : Prop := pc = .start ∨ pc = .running ∨ ∃ e, pc = .returned e

/-- a worker moves between the program counters before `t.done` (visitor entry / return): nothing else changes -/
theorem invA_setW_early {s s' : St} (hI : InvA s) {v : V} {pc pc' : WPc} (hm : (v, pc) ∈ s.workers)
    (he : Early pc) (he' : Early pc')
    (hw : s'.workers = setW s.workers v pc' := by rfl) (hst : s'.status = s.status := by rfl)
    (hch : s'.ch = s.ch := by rfl) (hrc : s'.received = s.received := by rfl)
    (hmm : s'.m = s.m := by rfl) (hc : s'.cSched = s.cSched := by rfl) (ha : s'.cAlive = s.cAlive := by rfl) : InvA s' := by
  have hp := pendSpawn_congr hmm hc ha
  have early_not_late : ∀ e, pc' ≠ .marked e ∧ pc' ≠ .sent e := by
    intro e; rcases he' with rfl | rfl | ⟨e', rfl⟩ <;> simp
  refine ⟨?_, ?_, ?_, ?_, ?_, ?_, ?_, ?_, ?_, ?_, ?_, by rw [hch, hrc]; exact hI.chRecvNodup⟩
  · rw [hw, setW_keys]; exact hI.wkNodup
  · intro u q hu hq
    rw [hw] at hu; rw [hst]
    rcases mem_setW hu with ⟨rfl, _, _⟩ | ⟨_, hu⟩
    · exact hI.wkEarly _ pc hm he
    · exact hI.wkEarly u q hu hq
  · intro u e hu
    rw [hw] at hu; rw [hst]
    rcases hu with hu | hu <;> rcases mem_setW hu with ⟨_, h2, _⟩ | ⟨_, hu⟩
    · exact absurd h2.symm (early_not_late e).1
    · exact hI.wkLate u e (.inl hu)
    · exact absurd h2.symm (early_not_late e).2
    · exact hI.wkLate u e (.inr hu)
  · intro u hu; rw [hst]; exact hI.pendEntered u ((hp u).mp hu)
  · intro u q hu hq
    rw [hw] at hq
    rcases mem_setW hq with ⟨rfl, _, q', hq'⟩ | ⟨_, hq⟩
    · exact hI.pendNoWorker _ q' ((hp _).mp hu) hq'
    · exact hI.pendNoWorker u q ((hp u).mp hu) hq
  · intro u hM hC
    rw [getSched_congr hmm hc ha] at hM hC; exact hI.pendExcl u hM hC
  · intro u hu; rw [hch, hrc] at hu; rw [hst]; exact hI.handed u hu
  · intro u q hu hq
    rw [hch, hrc] at hu; rw [hw] at hq
    rcases mem_setW hq with ⟨rfl, _, _⟩ | ⟨_, hq⟩
    · obtain ⟨e, rfl⟩ := hI.handedPc _ pc hu hm
      rcases he with h | h | ⟨_, h⟩ <;> cases h
    · exact hI.handedPc u q hu hq
  · intro u e hu
    rw [hw] at hu; rw [hch, hrc]
    rcases mem_setW hu with ⟨_, h2, _⟩ | ⟨_, hu⟩
    · exact absurd h2.symm (early_not_late e).2
    · exact hI.sentHanded u e hu
  · intro u hu
    rw [hst] at hu; rw [hw, hch, hrc]
    rcases hI.visitedWhere u hu with ⟨e, hme⟩ | h
    · left; refine ⟨e, mem_setW_of_ne ?_ hme⟩
      rintro rfl
      have := pc_unique hI.wkNodup hm hme
      subst this
      rcases he with h | h | ⟨_, h⟩ <;> cases h
    · exact .inr h
  · intro u hu
    rw [hst] at hu; rw [hw]
    rcases hI.enteredWhere u hu with ⟨q, hq⟩ | hpd
    · left
      by_cases e : u = v
      · subst e; exact ⟨pc', mem_setW_self hq⟩
      · exact ⟨q, mem_setW_of_ne e hq⟩
    · exact .inr ((hp u).mpr hpd)

/-- steps of the coordinator that move a vertex from `ch` to `received` / end the coordinator: workers, status and
claims are untouched -/
theorem invA_frame {s s' : St} (hI : InvA s) (hw : s'.workers = s.workers) (hst : s'.status = s.status)
    (hsp : ∀ w, spawnOf (getSched s' w) = spawnOf (getSched s w))
    (hmem : ∀ u, (u ∈ s'.ch ∨ u ∈ s'.received) ↔ (u ∈ s.ch ∨ u ∈ s.received))
    (hnd : (s'.ch ++ s'.received).Nodup) : InvA s' := by
  have hp : ∀ u, pendSpawn s' u ↔ pendSpawn s u := by
    intro u; unfold pendSpawn
    constructor <;> (rintro ⟨w, h⟩; refine ⟨w, ?_⟩)
    · rwa [hsp] at h
    · rwa [hsp]
  refine ⟨by rw [hw]; exact hI.wkNodup, by rw [hw, hst]; exact hI.wkEarly, by rw [hw, hst]; exact hI.wkLate,
    ?_, ?_, ?_, ?_, ?_, ?_, ?_, ?_, hnd⟩
  · intro u hu; rw [hst]; exact hI.pendEntered u ((hp u).mp hu)
  · intro u pc hu; rw [hw]; exact hI.pendNoWorker u pc ((hp u).mp hu)
  · intro u hM hC; rw [hsp] at hM hC; exact hI.pendExcl u hM hC
  · intro u hu; rw [hst]; exact hI.handed u ((hmem u).mp hu)
  · intro u pc hu hm; rw [hw] at hm; exact hI.handedPc u pc ((hmem u).mp hu) hm
  · intro u e hm; rw [hw] at hm; exact (hmem u).mpr (hI.sentHanded u e hm)
  · intro u hu
    rw [hst] at hu; rw [hw]
    rcases hI.visitedWhere u hu with h | h
    · exact .inl h
    · exact .inr ((hmem u).mpr h)
  · intro u hu
    rw [hst] at hu; rw [hw]
    rcases hI.enteredWhere u hu with h | h
    · exact .inl h
    · exact .inr ((hp u).mpr h)

theorem recv_mem {v : V} {rest ch rc : List V} (hch : ch = v :: rest) (u : V) :
    (u ∈ rest ∨ u ∈ v :: rc) ↔ (u ∈ ch ∨ u ∈ rc) := by
  subst hch; simp only [List.mem_cons]
  constructor
  · rintro (h | h | h)
    · exact .inl (.inr h)
    · exact .inl (.inl h)
    · exact .inr h
  · rintro ((h | h) | h)
    · exact .inr (.inl h)
    · exact .inl h
    · exact .inr (.inr h)

theorem recv_nodup {v : V} {rest ch rc : List V} (hch : ch = v :: rest) (h : (ch ++ rc).Nodup) :
    (rest ++ v :: rc).Nodup := by
  subst hch
  rw [(List.perm_middle (a := v) (l₁ := rest) (l₂ := rc)).nodup_iff]; simpa using h

theorem send_nodup {v : V} {l r : List V} (h : (l ++ r).Nodup) (h1 : v ∉ l) (h2 : v ∉ r) : (l ++ [v] ++ r).Nodup := by
  simp only [List.append_assoc, List.singleton_append]
  rw [(List.perm_middle (a := v) (l₁ := l) (l₂ := r)).nodup_iff, List.nodup_cons]
  exact ⟨by simp [h1, h2], h⟩

theorem mem_filter_ne {ws : List (V × WPc)} {v u : V} {q : WPc} : (u, q) ∈ ws.filter (·.1 ≠ v) ↔ (u, q) ∈ ws ∧ u ≠ v := by
  simp [List.mem_filter]

/-- a worker returns to the errgroup: its entry disappears; error bookkeeping is not part of `InvA` -/
theorem invA_exit {s s1 : St} (hI : InvA s) {v : V} {e : Bool} (hm : (v, WPc.sent e) ∈ s.workers)
    (hwk1 : s1.workers = s.workers.filter (·.1 ≠ v) := by rfl) (hst1 : s1.status = s.status := by rfl)
    (hch1 : s1.ch = s.ch := by rfl) (hrc1 : s1.received = s.received := by rfl)
    (hmm : s1.m = s.m := by rfl) (hc : s1.cSched = s.cSched := by rfl) (ha : s1.cAlive = s.cAlive := by rfl) : InvA s1 := by
  have hp : ∀ u, pendSpawn s1 u ↔ pendSpawn s u := pendSpawn_congr hmm hc ha
  have hgs : ∀ w, getSched s1 w = getSched s w := getSched_congr hmm hc ha
  have hvis : s.status v = .visited := hI.wkLate v e (.inr hm)
  refine ⟨?_, ?_, ?_, ?_, ?_, ?_, ?_, ?_, ?_, ?_, ?_, by rw [hch1, hrc1]; exact hI.chRecvNodup⟩
  · rw [hwk1]; exact List.Nodup.sublist (List.Sublist.map _ List.filter_sublist) hI.wkNodup
  · intro u q hu hq
    rw [hwk1] at hu; rw [hst1]; exact hI.wkEarly u q (mem_filter_ne.mp hu).1 hq
  · intro u e' hu
    rw [hwk1] at hu; rw [hst1]
    rcases hu with hu | hu
    · exact hI.wkLate u e' (.inl (mem_filter_ne.mp hu).1)
    · exact hI.wkLate u e' (.inr (mem_filter_ne.mp hu).1)
  · intro u hu; rw [hst1]; exact hI.pendEntered u ((hp u).mp hu)
  · intro u q hu hq
    rw [hwk1] at hq; exact hI.pendNoWorker u q ((hp u).mp hu) (mem_filter_ne.mp hq).1
  · intro u hM hC; rw [hgs] at hM hC; exact hI.pendExcl u hM hC
  · intro u hu; rw [hch1, hrc1] at hu; rw [hst1]; exact hI.handed u hu
  · intro u q hu hq
    rw [hch1, hrc1] at hu; rw [hwk1] at hq; exact hI.handedPc u q hu (mem_filter_ne.mp hq).1
  · intro u e' hu
    rw [hwk1] at hu; rw [hch1, hrc1]; exact hI.sentHanded u e' (mem_filter_ne.mp hu).1
  · intro u hu
    rw [hst1] at hu; rw [hwk1, hch1, hrc1]
    rcases hI.visitedWhere u hu with ⟨e', he'⟩ | h
    · left; refine ⟨e', mem_filter_ne.mpr ⟨he', ?_⟩⟩
      rintro rfl
      have := pc_unique hI.wkNodup hm he'
      cases this
    · exact .inr h
  · intro u hu
    rw [hst1] at hu; rw [hwk1]
    have hne : u ≠ v := by rintro rfl; rw [hvis] at hu; cases hu
    rcases hI.enteredWhere u hu with ⟨q, hq⟩ | h
    · exact .inl ⟨q, mem_filter_ne.mpr ⟨hq, hne⟩⟩
    · exact .inr ((hp u).mpr h)

theorem who_ne_cases {w w' : Who} (h : w' ≠ w) : (w = .M ∧ w' = .C) ∨ (w = .C ∧ w' = .M) := by
  cases w <;> cases w' <;> simp at h ⊢

theorem invA_step {g : Graph} {lim : Option Nat} {s s' : St} {l : Label}
    (h : Step g lim s l s') (hI : InvA s) : InvA s' := by
  cases h with
  | schedNext hs _ => exact invA_plain _ hs rfl rfl hI
  | schedEnd hs => exact invA_plain _ hs rfl rfl hI
  | readyT hs _ => exact invA_plain _ hs rfl rfl hI
  | readyF hs _ => exact invA_plain _ hs rfl rfl hI
  | enterF hs _ => exact invA_plain _ hs rfl rfl hI
  | @enterT w todo v hs habs =>
    -- the claimed vertex was absent: no worker, no claim, not handed off
    generalize hs1def : ({ s with status := setStatus s.status v .entered } : St) = s1
    have hgs : ∀ w', getSched s1 w' = getSched s w' := by subst hs1def; exact getSched_congr rfl rfl rfl
    have hst1 : s1.status = setStatus s.status v .entered := by subst hs1def; rfl
    have hwk1 : s1.workers = s.workers := by subst hs1def; rfl
    have hch1 : s1.ch = s.ch := by subst hs1def; rfl
    have hrc1 : s1.received = s.received := by subst hs1def; rfl
    have hs1 : getSched s1 w = some ⟨todo, .enter v⟩ := by rw [hgs]; exact hs
    have hpc : ∀ u, pendSpawn s1 u ↔ pendSpawn s u := by subst hs1def; exact pendSpawn_congr rfl rfl rfl
    have hp : ∀ u, pendSpawn (putSched s1 w (some ⟨todo, .spawn v⟩)) u ↔ u = v ∨ pendSpawn s u := by
      intro u
      rw [pendSpawn_put _ hs1]
      constructor
      · rintro (hx | ⟨w', _, hw'⟩)
        · simp [spawnOf] at hx; exact .inl hx.symm
        · exact .inr ((hpc u).mp ⟨w', hw'⟩)
      · rintro (rfl | ⟨w', hw'⟩)
        · exact .inl rfl
        · by_cases e : w' = w
          · subst e; rw [hs] at hw'; simp [spawnOf] at hw'
          · exact .inr ⟨w', e, by rw [hgs]; exact hw'⟩
    have hnw : ∀ pc, (v, pc) ∉ s.workers := fun pc hm => hI.worker_status hm habs
    have hnp : ¬ pendSpawn s v := fun hp' => by have := hI.pendEntered v hp'; rw [habs] at this; cases this
    refine ⟨by simpa [hst1, hwk1, hch1, hrc1] using hI.wkNodup, ?_, ?_, ?_, ?_, ?_, ?_, by simpa [hst1, hwk1, hch1, hrc1] using hI.handedPc, by simpa [hst1, hwk1, hch1, hrc1] using hI.sentHanded, ?_, ?_,
      by simpa [hst1, hwk1, hch1, hrc1] using hI.chRecvNodup⟩
    · intro u pc hm he
      simp only [putSched_status, putSched_workers, hst1, hwk1, hch1, hrc1] at hm ⊢
      have hne : u ≠ v := fun e => hnw pc (e ▸ hm)
      simp only [hst1, hwk1, hch1, hrc1, setStatus, if_neg hne]; exact hI.wkEarly u pc hm he
    · intro u e hm
      simp only [putSched_status, putSched_workers, hst1, hwk1, hch1, hrc1] at hm ⊢
      have hne : u ≠ v := by rintro rfl; rcases hm with hm | hm <;> exact hnw _ hm
      simp only [hst1, hwk1, hch1, hrc1, setStatus, if_neg hne]; exact hI.wkLate u e hm
    · intro u hu
      simp only [putSched_status, hst1, hwk1, hch1, hrc1]
      rcases (hp u).mp hu with rfl | hu2
      · simp [hst1, hwk1, hch1, hrc1, setStatus]
      · have hne : u ≠ v := by rintro rfl; exact hnp hu2
        simp only [hst1, hwk1, hch1, hrc1, setStatus, if_neg hne]; exact hI.pendEntered u hu2
    · intro u pc hu
      simp only [putSched_workers, hst1, hwk1, hch1, hrc1]
      rcases (hp u).mp hu with rfl | hu2
      · exact hnw pc
      · exact hI.pendNoWorker u pc hu2
    · intro u hM hC
      -- the other scheduler cannot already hold a claim on `v`
      cases w with
      | M =>
        rw [getSched_put_same _ hs1] at hM
        rw [getSched_put_ne _ (by decide), hgs] at hC
        simp [spawnOf] at hM; subst hM; exact hnp ⟨.C, hC⟩
      | C =>
        rw [getSched_put_same _ hs1] at hC
        rw [getSched_put_ne _ (by decide), hgs] at hM
        simp [spawnOf] at hC; subst hC; exact hnp ⟨.M, hM⟩
    · intro u hu
      simp only [putSched_status, putSched_ch, putSched_received, hst1, hwk1, hch1, hrc1] at hu ⊢
      have hv := hI.handed u hu
      have hne : u ≠ v := by rintro rfl; rw [habs] at hv; cases hv
      simp only [hst1, hwk1, hch1, hrc1, setStatus, if_neg hne]; exact hv
    · intro u hu
      simp only [putSched_status, putSched_ch, putSched_received, putSched_workers, hst1, hwk1, hch1, hrc1] at hu ⊢
      have hne : u ≠ v := by rintro rfl; simp [hst1, hwk1, hch1, hrc1, setStatus] at hu
      simp only [hst1, hwk1, hch1, hrc1, setStatus, if_neg hne] at hu; exact hI.visitedWhere u hu
    · intro u hu
      simp only [putSched_status, putSched_workers, hst1, hwk1, hch1, hrc1] at hu ⊢
      by_cases hne : u = v
      · subst hne; exact .inr ((hp u).mpr (.inl rfl))
      · simp only [hst1, hwk1, hch1, hrc1, setStatus, if_neg hne] at hu
        rcases hI.enteredWhere u hu with hw | hpd
        · exact .inl hw
        · exact .inr ((hp u).mpr (.inr hpd))
  | @spawn w todo v hs _ =>
    generalize hs1def : ({ s with workers := (v, .start) :: s.workers } : St) = s1
    have hgs : ∀ w', getSched s1 w' = getSched s w' := by subst hs1def; exact getSched_congr rfl rfl rfl
    have hst1 : s1.status = s.status := by subst hs1def; rfl
    have hwk1 : s1.workers = (v, .start) :: s.workers := by subst hs1def; rfl
    have hch1 : s1.ch = s.ch := by subst hs1def; rfl
    have hrc1 : s1.received = s.received := by subst hs1def; rfl
    have hs1 : getSched s1 w = some ⟨todo, .spawn v⟩ := by rw [hgs]; exact hs
    have hpv : pendSpawn s v := ⟨w, by rw [hs]; rfl⟩
    have hp : ∀ u, pendSpawn (putSched s1 w (some ⟨todo, .next⟩)) u ↔ (u ≠ v ∧ pendSpawn s u) := by
      intro u
      rw [pendSpawn_put _ hs1]
      constructor
      · rintro (hx | ⟨w', e, hw'⟩)
        · simp [spawnOf] at hx
        · rw [hgs] at hw'
          refine ⟨?_, w', hw'⟩
          rintro rfl
          have hw : spawnOf (getSched s w) = some u := by rw [hs]; rfl
          rcases who_ne_cases e with ⟨rfl, rfl⟩ | ⟨rfl, rfl⟩
          · exact hI.pendExcl u hw hw'
          · exact hI.pendExcl u hw' hw
      · rintro ⟨hne, w', hw'⟩
        by_cases e : w' = w
        · subst e; rw [hs] at hw'; simp [spawnOf] at hw'; exact absurd hw'.symm hne
        · exact .inr ⟨w', e, by rw [hgs]; exact hw'⟩
    have hst := hI.pendEntered v hpv
    have hnw := fun pc => hI.pendNoWorker v pc hpv
    refine ⟨?_, ?_, ?_, ?_, ?_, ?_, by simpa [hst1, hwk1, hch1, hrc1] using hI.handed, ?_, ?_, ?_, ?_, by simpa [hst1, hwk1, hch1, hrc1] using hI.chRecvNodup⟩
    · simp only [putSched_workers, hst1, hwk1, hch1, hrc1, List.map_cons, List.nodup_cons]
      refine ⟨?_, hI.wkNodup⟩
      intro hmem
      obtain ⟨⟨a, pc⟩, hm2, hav⟩ := List.mem_map.mp hmem
      simp only at hav; subst hav
      exact hnw pc hm2
    · intro u pc hm he
      simp only [putSched_status, putSched_workers, hst1, hwk1, hch1, hrc1, List.mem_cons] at hm ⊢
      rcases hm with hm | hm
      · cases hm; exact hst
      · exact hI.wkEarly u pc hm he
    · intro u e hm
      simp only [putSched_status, putSched_workers, hst1, hwk1, hch1, hrc1, List.mem_cons] at hm ⊢
      rcases hm with (hm | hm) | (hm | hm)
      · cases hm
      · exact hI.wkLate u e (.inl hm)
      · cases hm
      · exact hI.wkLate u e (.inr hm)
    · intro u hu
      simp only [putSched_status, hst1, hwk1, hch1, hrc1]
      exact hI.pendEntered u ((hp u).mp hu).2
    · intro u pc hu
      simp only [putSched_workers, hst1, hwk1, hch1, hrc1, List.mem_cons]
      have ⟨hne, hu⟩ := (hp u).mp hu
      rintro (hm | hm)
      · cases hm; exact hne rfl
      · exact hI.pendNoWorker u pc hu hm
    · intro u hM hC
      cases w with
      | M => rw [getSched_put_same _ hs1] at hM; simp [spawnOf] at hM
      | C => rw [getSched_put_same _ hs1] at hC; simp [spawnOf] at hC
    · intro u pc hu hm
      simp only [putSched_ch, putSched_received, putSched_workers, hst1, hwk1, hch1, hrc1, List.mem_cons] at hu hm
      rcases hm with hm | hm
      · cases hm
        have := hI.handed _ hu
        rw [hst] at this; cases this
      · exact hI.handedPc u pc hu hm
    · intro u e hm
      simp only [putSched_ch, putSched_received, putSched_workers, hst1, hwk1, hch1, hrc1, List.mem_cons] at hm ⊢
      rcases hm with hm | hm
      · cases hm
      · exact hI.sentHanded u e hm
    · intro u hu
      simp only [putSched_status, putSched_ch, putSched_received, putSched_workers, hst1, hwk1, hch1, hrc1] at hu ⊢
      rcases hI.visitedWhere u hu with ⟨e, he⟩ | h
      · exact .inl ⟨e, List.mem_cons_of_mem _ he⟩
      · exact .inr h
    · intro u hu
      simp only [putSched_status, putSched_workers, hst1, hwk1, hch1, hrc1] at hu ⊢
      by_cases hne : u = v
      · subst hne; exact .inl ⟨.start, List.mem_cons_self ..⟩
      · rcases hI.enteredWhere u hu with ⟨pc, hw⟩ | hpd
        · exact .inl ⟨pc, List.mem_cons_of_mem _ hw⟩
        · exact .inr ((hp u).mpr ⟨hne, hpd⟩)
  | @wBeginSkip v hw _ =>
    exact invA_setW_early hI (mem_of_wpc hw) (.inl rfl) (.inr (.inr ⟨false, rfl⟩))
  | @wBegin v hw _ =>
    exact invA_setW_early (s' := { s with workers := setW s.workers v .running, log := .start v :: s.log }) hI
      (mem_of_wpc hw) (.inl rfl) (.inr (.inl rfl))
  | @wReturn v e hw =>
    exact invA_setW_early (s' := { s with workers := setW s.workers v (.returned e), log := .finish v e :: s.log }) hI
      (mem_of_wpc hw) (.inr (.inl rfl)) (.inr (.inr ⟨e, rfl⟩))
  | @wDone v e hw =>
    have hm := mem_of_wpc hw
    have hp : ∀ u, pendSpawn { s with workers := setW s.workers v (.marked e), status := setStatus s.status v .visited } u ↔ pendSpawn s u :=
      pendSpawn_congr rfl rfl rfl
    have hearly : Early (.returned e) := .inr (.inr ⟨e, rfl⟩)
    refine ⟨?_, ?_, ?_, ?_, ?_, ?_, ?_, ?_, ?_, ?_, ?_, hI.chRecvNodup⟩
    · show ((setW s.workers v (.marked e)).map (·.1)).Nodup
      rw [setW_keys]; exact hI.wkNodup
    · intro u q hu hq
      rcases mem_setW hu with ⟨_, h2, _⟩ | ⟨hne, hu⟩
      · subst h2; rcases hq with h | h | ⟨_, h⟩ <;> cases h
      · show setStatus s.status v .visited u = .entered
        simp only [setStatus, if_neg hne]; exact hI.wkEarly u q hu hq
    · intro u e' hu
      show setStatus s.status v .visited u = .visited
      by_cases hne : u = v
      · simp [setStatus, hne]
      · simp only [setStatus, if_neg hne]
        rcases hu with hu | hu <;> rcases mem_setW hu with ⟨h1, _, _⟩ | ⟨_, hu⟩
        · exact absurd h1 hne
        · exact hI.wkLate u e' (.inl hu)
        · exact absurd h1 hne
        · exact hI.wkLate u e' (.inr hu)
    · intro u hu
      have hu' := (hp u).mp hu
      have hne : u ≠ v := by rintro rfl; exact hI.pendNoWorker _ _ hu' hm
      show setStatus s.status v .visited u = .entered
      simp only [setStatus, if_neg hne]; exact hI.pendEntered u hu'
    · intro u q hu hq
      have hu' := (hp u).mp hu
      rcases mem_setW hq with ⟨rfl, _, q', hq'⟩ | ⟨_, hq⟩
      · exact hI.pendNoWorker _ q' hu' hq'
      · exact hI.pendNoWorker u q hu' hq
    · intro u hM hC; exact hI.pendExcl u hM hC
    · intro u hu
      show setStatus s.status v .visited u = .visited
      simp only [setStatus]; split
      · rfl
      · exact hI.handed u hu
    · intro u q hu hq
      rcases mem_setW hq with ⟨rfl, _, _⟩ | ⟨_, hq⟩
      · obtain ⟨e', he'⟩ := hI.handedPc _ _ hu hm
        cases he'
      · exact hI.handedPc u q hu hq
    · intro u e' hu
      rcases mem_setW hu with ⟨_, h2, _⟩ | ⟨_, hu⟩
      · cases h2
      · exact hI.sentHanded u e' hu
    · intro u hu
      by_cases hne : u = v
      · subst hne; exact .inl ⟨e, mem_setW_self hm⟩
      · have hu' : s.status u = .visited := by
          have : setStatus s.status v .visited u = .visited := hu
          simpa only [setStatus, if_neg hne] using this
        rcases hI.visitedWhere u hu' with ⟨e', he'⟩ | h
        · exact .inl ⟨e', mem_setW_of_ne hne he'⟩
        · exact .inr h
    · intro u hu
      have hne : u ≠ v := by
        rintro rfl
        have : setStatus s.status u .visited u = .entered := hu
        simp [setStatus] at this
      have hu' : s.status u = .entered := by
        have : setStatus s.status v .visited u = .entered := hu
        simpa only [setStatus, if_neg hne] using this
      rcases hI.enteredWhere u hu' with ⟨q, hq⟩ | h
      · exact .inl ⟨q, mem_setW_of_ne hne hq⟩
      · exact .inr ((hp u).mpr h)
  | @wSend v e hw =>
    have hm := mem_of_wpc hw
    have hp : ∀ u, pendSpawn { s with workers := setW s.workers v (.sent e), ch := s.ch ++ [v] } u ↔ pendSpawn s u :=
      pendSpawn_congr rfl rfl rfl
    have hvis : s.status v = .visited := hI.wkLate v e (.inl hm)
    have hnot : ¬ (v ∈ s.ch ∨ v ∈ s.received) := by
      intro h
      obtain ⟨e', he'⟩ := hI.handedPc v _ h hm
      cases he'
    refine ⟨?_, ?_, ?_, ?_, ?_, ?_, ?_, ?_, ?_, ?_, ?_, ?_⟩
    · show ((setW s.workers v (.sent e)).map (·.1)).Nodup
      rw [setW_keys]; exact hI.wkNodup
    · intro u q hu hq
      rcases mem_setW hu with ⟨_, h2, _⟩ | ⟨hne, hu⟩
      · subst h2; rcases hq with h | h | ⟨_, h⟩ <;> cases h
      · exact hI.wkEarly u q hu hq
    · intro u e' hu
      show s.status u = .visited
      by_cases hne : u = v
      · subst hne; exact hvis
      · rcases hu with hu | hu <;> rcases mem_setW hu with ⟨h1, _, _⟩ | ⟨_, hu⟩
        · exact absurd h1 hne
        · exact hI.wkLate u e' (.inl hu)
        · exact absurd h1 hne
        · exact hI.wkLate u e' (.inr hu)
    · intro u hu; exact hI.pendEntered u ((hp u).mp hu)
    · intro u q hu hq
      have hu' := (hp u).mp hu
      rcases mem_setW hq with ⟨rfl, _, q', hq'⟩ | ⟨_, hq⟩
      · exact hI.pendNoWorker _ q' hu' hq'
      · exact hI.pendNoWorker u q hu' hq
    · intro u hM hC; exact hI.pendExcl u hM hC
    · intro u hu
      show s.status u = .visited
      have hu : (u ∈ s.ch ∨ u = v) ∨ u ∈ s.received := by simpa using hu
      rcases hu with (h | h) | h
      · exact hI.handed u (.inl h)
      · subst h; exact hvis
      · exact hI.handed u (.inr h)
    · intro u q hu hq
      have hu : (u ∈ s.ch ∨ u = v) ∨ u ∈ s.received := by simpa using hu
      rcases mem_setW hq with ⟨_, h2, _⟩ | ⟨hne, hq⟩
      · exact ⟨e, h2⟩
      · rcases hu with (h | h) | h
        · exact hI.handedPc u q (.inl h) hq
        · exact absurd h hne
        · exact hI.handedPc u q (.inr h) hq
    · intro u e' hu
      show u ∈ s.ch ++ [v] ∨ u ∈ s.received
      rcases mem_setW hu with ⟨h1, _, _⟩ | ⟨_, hu⟩
      · subst h1; exact .inl (by simp)
      · rcases hI.sentHanded u e' hu with h | h
        · exact .inl (by simp [h])
        · exact .inr h
    · intro u hu
      show (∃ e', (u, WPc.marked e') ∈ setW s.workers v (.sent e)) ∨ u ∈ s.ch ++ [v] ∨ u ∈ s.received
      by_cases hne : u = v
      · subst hne; exact .inr (.inl (by simp))
      · rcases hI.visitedWhere u hu with ⟨e', he'⟩ | h | h
        · exact .inl ⟨e', mem_setW_of_ne hne he'⟩
        · exact .inr (.inl (by simp [h]))
        · exact .inr (.inr h)
    · intro u hu
      rcases hI.enteredWhere u hu with ⟨q, hq⟩ | h
      · left
        by_cases hne : u = v
        · subst hne; exact ⟨_, mem_setW_self hq⟩
        · exact ⟨q, mem_setW_of_ne hne hq⟩
      · exact .inr ((hp u).mpr h)
    · show (s.ch ++ [v] ++ s.received).Nodup
      refine send_nodup hI.chRecvNodup (fun h => hnot (.inl h)) (fun h => hnot (.inr h))
  | @wExit v e hw => exact invA_exit hI (mem_of_wpc hw)
  | @cRecvLast v rest ha hc hch _ =>
    refine invA_frame hI rfl rfl ?_ (recv_mem hch) (recv_nodup hch hI.chRecvNodup)
    intro w; cases w
    · rfl
    · simp [getSched, ha, hc, spawnOf]
  | @cRecvMore v rest ha hc hch _ =>
    refine invA_frame hI rfl rfl ?_ (recv_mem hch) (recv_nodup hch hI.chRecvNodup)
    intro w; cases w
    · rfl
    · simp [getSched, ha, hc, spawnOf]
  | cCtxDone ha hc _ _ =>
    refine invA_frame hI rfl rfl ?_ (fun u => Iff.rfl) hI.chRecvNodup
    intro w; cases w
    · rfl
    · simp [getSched, ha, hc, spawnOf]
  | extCancel _ =>
    refine invA_frame hI rfl rfl ?_ (fun u => Iff.rfl) hI.chRecvNodup
    intro w; cases w <;> rfl

end CV.Trav
