import ComposeVerif.Model.C01Cycles
/-!
Helper lemmas for C01: pigeonhole on duplicate-free lists, the cycle tracker, and the
`depends_on` cycle search (`graph.checkCycle`).
-/
namespace CV.C01

/-! ## pigeonhole -/

theorem nodup_subset_length {α : Type} [DecidableEq α] :
    ∀ (l u : List α), l.Nodup → (∀ x ∈ l, x ∈ u) → l.length ≤ u.length
  | [], _, _, _ => Nat.zero_le _
  | a :: l, u, hnd, hsub => by
    have ha : a ∈ u := hsub a (List.mem_cons_self ..)
    have hnd' := List.nodup_cons.mp hnd
    have hsub' : ∀ x ∈ l, x ∈ u.erase a := by
      intro x hx
      have hne : x ≠ a := fun h => hnd'.1 (h ▸ hx)
      exact (List.mem_erase_of_ne hne).mpr (hsub x (List.mem_cons_of_mem _ hx))
    have ih := nodup_subset_length l (u.erase a) hnd'.2 hsub'
    have hlen := List.length_erase_of_mem ha
    have hpos : 0 < u.length := List.length_pos_of_mem ha
    simp only [List.length_cons]
    omega

theorem nodup_append_singleton {α : Type} {l : List α} {a : α} (h : l.Nodup) (ha : a ∉ l) : (l ++ [a]).Nodup := by
  rw [List.nodup_append]
  refine ⟨h, by simp, ?_⟩
  intro x hx y hy
  simp only [List.mem_singleton] at hy
  subst hy
  exact fun hxy => ha (hxy ▸ hx)

/-! ## the cycle tracker -/

theorem Tracker.add_none_iff (t : Tracker) (r : Ref) : t.add r = none ↔ r ∈ t := by
  unfold Tracker.add
  split <;> simp_all

theorem Tracker.add_some {t t' : Tracker} {r : Ref} (h : t.add r = some t') : t' = t ++ [r] ∧ r ∉ t := by
  unfold Tracker.add at h
  split at h
  · cases h
  · cases h; exact ⟨rfl, by assumption⟩

theorem Tracker.add_nodup {t t' : Tracker} {r : Ref} (hn : t.Nodup) (h : t.add r = some t') : t'.Nodup := by
  obtain ⟨rfl, hr⟩ := Tracker.add_some h
  exact nodup_append_singleton hn hr

/-- follow a chain of references with a tracker, as the recursion of `applyServiceExtends` does -/
def Tracker.run : List Ref → Tracker → Option Tracker
  | [], t => some t
  | r :: rest, t =>
    match t.add r with
    | none => none
    | some t' => Tracker.run rest t'

theorem Tracker.run_spec : ∀ (refs : List Ref) (t t' : Tracker), t.Nodup → Tracker.run refs t = some t' →
    t' = t ++ refs ∧ t'.Nodup
  | [], t, t', hn, h => by
    simp only [Tracker.run, Option.some.injEq] at h
    subst h
    exact ⟨by simp, hn⟩
  | r :: rest, t, t', hn, h => by
    simp only [Tracker.run] at h
    split at h
    · cases h
    · rename_i t1 h1
      obtain ⟨rfl, _⟩ := Tracker.add_some h1
      obtain ⟨h2, h3⟩ := Tracker.run_spec rest _ t' (Tracker.add_nodup hn h1) h
      exact ⟨by rw [h2]; simp, h3⟩

/-! ## `depends_on` -/

namespace Dep

variable {α : Type} [DecidableEq α]

def verts (g : G α) : List α := g.map Prod.fst

/-- every edge points at a vertex (what `newGraph` builds) -/
def Closed (g : G α) : Prop := ∀ v c, c ∈ children g v → c ∈ verts g

inductive Reach (g : G α) : α → α → Prop where
  | refl (a : α) : Reach g a a
  | step {a b c : α} : b ∈ children g a → Reach g b c → Reach g a c

/-- `v` reaches a vertex that lies on a cycle -/
def CanLoop (g : G α) (v : α) : Prop :=
  ∃ w, Reach g v w ∧ ∃ x, x ∈ children g w ∧ Reach g x w

theorem CanLoop.child {g : G α} {v : α} (h : CanLoop g v) : ∃ c, c ∈ children g v ∧ CanLoop g c := by
  obtain ⟨w, hvw, x, hx, hxw⟩ := h
  cases hvw with
  | refl => exact ⟨x, hx, _, hxw, x, hx, hxw⟩
  | step hb hbw => exact ⟨_, hb, w, hbw, x, hx, hxw⟩

theorem searchChildren_ne_ok (search : List α → α → R α) (path : List α) :
    ∀ (cs : List α), (∃ c, c ∈ cs ∧ ∀ p, search p c ≠ .ok) → searchChildren search path cs ≠ .ok
  | [], h => by obtain ⟨c, hc, _⟩ := h; cases hc
  | name :: rest, h => by
    obtain ⟨c, hc, hs⟩ := h
    unfold searchChildren
    split
    · intro h; cases h
    · split
      · rename_i hok
        have hne : c ≠ name := fun e => hs _ (e ▸ hok)
        have hc' : c ∈ rest := by
          cases hc with
          | head => exact absurd rfl hne
          | tail _ h => exact h
        exact searchChildren_ne_ok search path rest ⟨c, hc', hs⟩
      · rename_i r hr
        exact fun e => hr (e ▸ rfl)

/-- a search started anywhere that can reach a cycle never answers "no cycle" -/
theorem searchCycle_ne_ok (g : G α) : ∀ (fuel : Nat) (path : List α) (v : α),
    CanLoop g v → searchCycle g fuel path v ≠ .ok
  | 0, _, _, _ => by unfold searchCycle; intro h; cases h
  | fuel + 1, path, v, h => by
    unfold searchCycle
    obtain ⟨c, hc, hl⟩ := h.child
    exact searchChildren_ne_ok _ path _ ⟨c, hc, fun p => searchCycle_ne_ok g fuel p c hl⟩

theorem searchChildren_ne_fuel (search : List α → α → R α) (path : List α) :
    ∀ (cs : List α), (∀ name ∈ cs, name ∉ path → search (path ++ [name]) name ≠ .outOfFuel) →
      searchChildren search path cs ≠ .outOfFuel
  | [], _ => by unfold searchChildren; intro h; cases h
  | name :: rest, h => by
    unfold searchChildren
    split
    · intro h; cases h
    · rename_i hin
      split
      · exact searchChildren_ne_fuel search path rest (fun n hn => h n (List.mem_cons_of_mem _ hn))
      · rename_i r hr
        have := h name (List.mem_cons_self ..) hin
        intro e
        rw [e] at hr
        -- the match scrutinee is `search (path ++ [name]) name`
        simp_all

/-- the search terminates: the path is duplicate-free and made of vertices, so `|V| + 1` levels suffice -/
theorem searchCycle_ne_fuel (g : G α) (hg : Closed g) : ∀ (fuel : Nat) (path : List α) (v : α),
    path.Nodup → (∀ x ∈ path, x ∈ verts g) → (verts g).length - path.length < fuel →
      searchCycle g fuel path v ≠ .outOfFuel
  | 0, _, _, _, _, hf => by omega
  | fuel + 1, path, v, hn, hsub, hf => by
    unfold searchCycle
    apply searchChildren_ne_fuel
    intro name hname hnot
    have hn' : (path ++ [name]).Nodup := nodup_append_singleton hn hnot
    have hsub' : ∀ x ∈ path ++ [name], x ∈ verts g := by
      intro x hx
      rcases List.mem_append.mp hx with h | h
      · exact hsub x h
      · simp only [List.mem_singleton] at h; subst h; exact hg v _ hname
    have hlen := nodup_subset_length _ _ hn' hsub'
    simp only [List.length_append, List.length_singleton] at hlen
    apply searchCycle_ne_fuel g hg fuel _ name hn' hsub'
    simp only [List.length_append, List.length_singleton]
    omega

theorem checkFrom_ne_fuel (g : G α) (fuel : Nat) : ∀ (vs : List α),
    (∀ v ∈ vs, searchCycle g fuel [v] v ≠ .outOfFuel) → checkFrom g fuel vs ≠ .outOfFuel
  | [], _ => by unfold checkFrom; intro h; cases h
  | v :: rest, h => by
    unfold checkFrom
    split
    · exact checkFrom_ne_fuel g fuel rest (fun x hx => h x (List.mem_cons_of_mem _ hx))
    · rename_i r hr
      have := h v (List.mem_cons_self ..)
      intro e
      simp_all

theorem checkFrom_ne_ok (g : G α) (fuel : Nat) : ∀ (vs : List α),
    (∃ v ∈ vs, searchCycle g fuel [v] v ≠ .ok) → checkFrom g fuel vs ≠ .ok
  | [], h => by obtain ⟨_, hv, _⟩ := h; cases hv
  | v :: rest, h => by
    obtain ⟨x, hx, hs⟩ := h
    unfold checkFrom
    split
    · rename_i hok
      have hne : x ≠ v := fun e => hs (e ▸ hok)
      have hx' : x ∈ rest := by
        cases hx with
        | head => exact absurd rfl hne
        | tail _ h => exact h
      exact checkFrom_ne_ok g fuel rest ⟨x, hx', hs⟩
    · rename_i r hr
      exact fun e => hr (e ▸ rfl)

end Dep
end CV.C01
