import ComposeVerif.Lemmas.ShortStr
import ComposeVerif.Model.ShortDecode
/-!
# Helper lemmas for the scalar-or-mapping decoders of C03 (`DeviceCount`, `UlimitsConfig`, `ShellCommand`)
-/
namespace CV.Short
open CV

theorem toLower_digit (c : Char) (h : c.isDigit = true) : c.toLower = c := by
  simp only [Char.isDigit, Bool.and_eq_true, decide_eq_true_eq] at h
  simp only [Char.toLower]
  split
  · rename_i hu
    exfalso
    have h1 : c.val.toNat ≤ 57 := by have := h.2; simpa [UInt32.le_iff_toNat_le] using this
    have h2 : 65 ≤ c.val.toNat := by have := hu.1; simpa [GE.ge, UInt32.le_iff_toNat_le] using this
    omega
  · rfl

theorem lower_digits (s : Str) (h : ∀ x ∈ s, x.isDigit = true) : lower s = s := by
  induction s with
  | nil => rfl
  | cons c r ih =>
    simp only [lower, List.map_cons] at ih ⊢
    rw [toLower_digit c (h c (by simp)), ih (fun x hx => h x (by simp [hx]))]

theorem digits_ne_all (s : Str) (h : ∀ x ∈ s, x.isDigit = true) : lower s ≠ ['a', 'l', 'l'] := by
  rw [lower_digits s h]
  intro he
  subst he
  have := h 'a' (by simp)
  simp at this

/-- the sign split of `strconv.ParseInt` on a string that starts with a digit -/
theorem sign_split_digit (c : Char) (r : Str) (hc : c.isDigit = true) :
    (match c :: r with | '-' :: r => (true, r) | '+' :: r => (false, r) | r => (false, r)) = (false, c :: r) := by
  split
  · rename_i heq; simp only [List.cons.injEq] at heq; rw [heq.1] at hc; simp at hc
  · rename_i heq; simp only [List.cons.injEq] at heq; rw [heq.1] at hc; simp at hc
  · rfl

/-- `decodeDeviceCount` on a string that starts with a digit: `strconv.ParseInt` without a sign -/
theorem decodeDeviceCount_digit_head (s : String) (c : Char) (r : Str) (hs : s.toList = c :: r) (hc : c.isDigit = true)
    (hall : lower (c :: r) ≠ ['a', 'l', 'l']) :
    decodeDeviceCount (.str s) =
      match parseDecAux 0 (c :: r) with
      | some n => if n ≤ 9223372036854775807 then some (.int n) else none
      | none => none := by
  simp only [decodeDeviceCount, hs, hall, if_false]
  split
  · rename_i heq; simp only [List.cons.injEq] at heq; rw [heq.1] at hc; simp at hc
  · rename_i heq; simp only [List.cons.injEq] at heq; rw [heq.1] at hc; simp at hc
  · simp
    cases parseDecAux 0 (c :: r) <;> rfl

/-- … that starts with `+` -/
theorem decodeDeviceCount_plus (s : String) (ds : Str) (hs : s.toList = '+' :: ds) :
    decodeDeviceCount (.str s) =
      if ds = [] then none else
      match parseDecAux 0 ds with
      | some n => if n ≤ 9223372036854775807 then some (.int n) else none
      | none => none := by
  have hall : lower ('+' :: ds) ≠ ['a', 'l', 'l'] := by simp [lower]
  simp only [decodeDeviceCount, hs, hall, if_false]
  simp
  by_cases hd : ds = []
  · simp [hd]
  · simp only [hd, if_false]
    cases parseDecAux 0 ds <;> rfl

/-- … that starts with `-` -/
theorem decodeDeviceCount_minus (s : String) (ds : Str) (hs : s.toList = '-' :: ds) :
    decodeDeviceCount (.str s) =
      if ds = [] then none else
      match parseDecAux 0 ds with
      | some n => if n ≤ 9223372036854775808 then some (.int (-(n : Int))) else none
      | none => none := by
  have hall : lower ('-' :: ds) ≠ ['a', 'l', 'l'] := by simp [lower]
  simp only [decodeDeviceCount, hs, hall, if_false]
  simp
  by_cases hd : ds = []
  · simp [hd]
  · simp only [hd, if_false]
    cases parseDecAux 0 ds <;> rfl

theorem allStrs_map_str (l : List String) : allStrs (l.map Val.str) = some (l.map Val.str) := by
  induction l with
  | nil => rfl
  | cons s r ih => simp [allStrs, ih]

/-- the soft / hard reader inside `decodeUlimit` -/
def ulimitField (k : String) (m : Val.KVs) : Option Val :=
  match Val.lookup k m with
  | none => some (.int 0)
  | some (.int i) => some (.int i)
  | some _ => none

theorem decodeUlimit_map (m : Val.KVs) :
    decodeUlimit (.map m) =
      match ulimitField "soft" m, ulimitField "hard" m with
      | some s, some h => some (.map [("single", .int 0), ("soft", s), ("hard", h)])
      | _, _ => none := rfl

end CV.Short
