import ComposeVerif.Lemmas.Graph
/-! The project as `checkConsistency` leaves it (`postState`: replicas aligned with scale) satisfies the same rules. -/
namespace CV.Consistency

/-! ## the post state -/

theorem postState_enabled (p : Proj) : (postState p).enabled = p.enabled := by
  simp [postState, Proj.enabled, List.map_map, Function.comp_def]

theorem normalizeSvc_dependsOn (s : Svc) : (normalizeSvc s).dependsOn = s.dependsOn := by
  unfold normalizeSvc
  cases s.scale <;> cases s.deploy <;> rfl

theorem holds_normalize (p : Proj) (s : Svc) (r : Rule) (h : Holds p s r) : Holds p (normalizeSvc s) r := by
  cases hsc : s.scale with
  | none =>
    have : normalizeSvc s = s := by unfold normalizeSvc; simp [hsc]
    rw [this]; exact h
  | some sc =>
    cases hdp : s.deploy with
    | none =>
      have : normalizeSvc s = s := by unfold normalizeSvc; simp [hsc, hdp]
      rw [this]; exact h
    | some d =>
      have hns : normalizeSvc s = { s with deploy := some { d with replicas := some sc } } := by
        unfold normalizeSvc; simp [hsc, hdp]
      rw [hns]
      cases r <;> simp only [Holds, getScale, hsc, hdp] at h ⊢ <;>
        first
        | exact h
        | grind

theorem holds_post (p : Proj) (s : Svc) (r : Rule) (h : Holds p s r) : Holds (postState p) (normalizeSvc s) r := by
  have hn := holds_normalize p s r h
  have hen := postState_enabled p
  cases r <;> simp only [Holds, hen] at hn ⊢ <;> exact hn

theorem depRel_post (p : Proj) (a b : String) (h : DepRel (postState p) a b) : DepRel p a b := by
  obtain ⟨s', hs', hb, r, hr⟩ := h
  rw [postState_enabled] at hb
  simp only [postState, List.mem_map] at hs'
  obtain ⟨e, he, heq⟩ := hs'
  cases heq
  rw [normalizeSvc_dependsOn] at hr
  exact ⟨e.2, he, hb, r, hr⟩

end CV.Consistency
