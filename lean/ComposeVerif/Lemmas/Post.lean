import ComposeVerif.Lemmas.Graph
/-! Whatever the iteration order: when `checkConsistency` accepts, the project *as it is left behind*
(`postState`: replicas aligned with scale, self edges deleted by `newGraph`) satisfies the specification. -/
namespace CV.Consistency

theorem edgesOf_subset (verts disabled : List String) (n : String) :
    ∀ (deps : List (String × Bool)) (del : Bool) (es : List String),
      edgesOf verts disabled n del deps = .ok es → ∀ x ∈ es, x ∈ verts
  | [], _, es, h => by
    simp only [edgesOf, Except.ok.injEq] at h
    subst h; intro x hx; cases hx
  | (dep, req) :: rest, del, es, h => by
    unfold edgesOf at h
    by_cases hskip : (del && dep == n) = true
    · simp only [hskip, if_true] at h
      exact edgesOf_subset verts disabled n rest del es h
    · simp only [hskip, Bool.false_eq_true, if_false] at h
      by_cases hv : verts.contains dep = true
      · simp only [hv, if_true] at h
        cases hr : edgesOf verts disabled n del rest with
        | error e => rw [hr] at h; cases h
        | ok es' =>
          rw [hr] at h
          simp only [Except.ok.injEq] at h
          subst h
          intro x hx
          rcases List.mem_cons.mp hx with rfl | hx
          · exact List.contains_iff_mem.mp hv
          · exact edgesOf_subset verts disabled n rest del es' hr x hx
      · simp only [hv, Bool.false_eq_true, if_false] at h
        by_cases hq : req = true
        · simp only [hq, if_true] at h; cases h
        · simp only [hq, Bool.false_eq_true, if_false] at h
          exact edgesOf_subset verts disabled n rest true es h

/-- every dependency on an enabled service enters the graph, except a self dependency after the `delete` -/
theorem edgesOf_mem (verts disabled : List String) (n : String) :
    ∀ (deps : List (String × Bool)) (del : Bool) (es : List String),
      edgesOf verts disabled n del deps = .ok es → ∀ b r, (b, r) ∈ deps → b ∈ verts →
      (b ≠ n ∨ (del = false ∧ ∀ d ∈ deps, d.1 ∈ verts)) → b ∈ es
  | [], _, _, _, b, r, hm, _, _ => by cases hm
  | (dep, req) :: rest, del, es, h, b, r, hm, hbv, hc => by
    unfold edgesOf at h
    have hc' : ∀ del', (del' = del ∨ b ≠ n) → (b ≠ n ∨ (del' = false ∧ ∀ d ∈ rest, d.1 ∈ verts)) := by
      intro del' hd
      rcases hc with hc | ⟨hc1, hc2⟩
      · exact .inl hc
      · rcases hd with hd | hd
        · exact .inr ⟨hd ▸ hc1, fun d hd' => hc2 d (List.mem_cons_of_mem _ hd')⟩
        · exact .inl hd
    by_cases hskip : (del && dep == n) = true
    · simp only [hskip, if_true] at h
      rcases List.mem_cons.mp hm with heq | hm'
      · cases heq
        simp only [Bool.and_eq_true, beq_iff_eq] at hskip
        rcases hc with hc | ⟨hc, -⟩
        · exact absurd hskip.2 hc
        · rw [hskip.1] at hc; cases hc
      · exact edgesOf_mem verts disabled n rest del es h b r hm' hbv (hc' del (.inl rfl))
    · simp only [hskip, Bool.false_eq_true, if_false] at h
      by_cases hv : verts.contains dep = true
      · simp only [hv, if_true] at h
        cases hr : edgesOf verts disabled n del rest with
        | error e => rw [hr] at h; cases h
        | ok es' =>
          rw [hr] at h
          simp only [Except.ok.injEq] at h
          subst h
          rcases List.mem_cons.mp hm with heq | hm'
          · cases heq; exact List.mem_cons_self ..
          · exact List.mem_cons_of_mem _ (edgesOf_mem verts disabled n rest del es' hr b r hm' hbv (hc' del (.inl rfl)))
      · simp only [hv, Bool.false_eq_true, if_false] at h
        by_cases hq : req = true
        · simp only [hq, if_true] at h; cases h
        · simp only [hq, Bool.false_eq_true, if_false] at h
          have hdv : dep ∉ verts := fun hh => hv (List.contains_iff_mem.mpr hh)
          rcases List.mem_cons.mp hm with heq | hm'
          · cases heq; exact absurd hbv hdv
          · have hbn : b ≠ n := by
              rcases hc with hc | ⟨-, hc⟩
              · exact hc
              · exact absurd (hc (dep, req) (List.mem_cons_self ..)) hdv
            exact edgesOf_mem verts disabled n rest true es h b r hm' hbv (.inl hbn)

/-- `edgesOf` succeeds only if every dependency is an enabled service, optional, or the service itself -/
theorem edgesOf_ok_deps (verts disabled : List String) (n : String) :
    ∀ (deps : List (String × Bool)) (del : Bool) (es : List String),
      edgesOf verts disabled n del deps = .ok es → ∀ d ∈ deps, d.1 ∈ verts ∨ d.2 = false ∨ d.1 = n
  | [], _, _, _, d, hd => by cases hd
  | (dep, req) :: rest, del, es, h, d, hd => by
    unfold edgesOf at h
    by_cases hskip : (del && dep == n) = true
    · simp only [hskip, if_true] at h
      rcases List.mem_cons.mp hd with rfl | hd'
      · simp only [Bool.and_eq_true, beq_iff_eq] at hskip
        exact .inr (.inr hskip.2)
      · exact edgesOf_ok_deps verts disabled n rest del es h d hd'
    · simp only [hskip, Bool.false_eq_true, if_false] at h
      by_cases hv : verts.contains dep = true
      · simp only [hv, if_true] at h
        rcases List.mem_cons.mp hd with rfl | hd'
        · exact .inl (List.contains_iff_mem.mp hv)
        · cases hr : edgesOf verts disabled n del rest with
          | error e => rw [hr] at h; cases h
          | ok es' => exact edgesOf_ok_deps verts disabled n rest del es' hr d hd'
      · simp only [hv, Bool.false_eq_true, if_false] at h
        by_cases hq : req = true
        · simp only [hq, if_true] at h; cases h
        · simp only [hq, Bool.false_eq_true, if_false] at h
          rcases List.mem_cons.mp hd with rfl | hd'
          · exact .inr (.inl (by simpa using hq))
          · exact edgesOf_ok_deps verts disabled n rest true es h d hd'

/-- shape of a successfully built graph -/
theorem buildGraph_lookup (verts disabled : List String) :
    ∀ (l : List (String × Svc)) (g : Graph), buildGraph verts disabled l = .ok g → (l.map Prod.fst).Nodup →
      g.map Prod.fst = l.map Prod.fst ∧
      ∀ n s, (n, s) ∈ l → ∃ es, edgesOf verts disabled n false s.dependsOn = .ok es ∧ g.lookup n = some es
  | [], g, h, _ => by
    simp only [buildGraph, Except.ok.injEq] at h
    subst h
    exact ⟨rfl, fun n s hm => by cases hm⟩
  | (k, v) :: r, g, h, hn => by
    unfold buildGraph at h
    cases he : edgesOf verts disabled k false v.dependsOn with
    | error e => rw [he] at h; cases h
    | ok es =>
      cases hr : buildGraph verts disabled r with
      | error e => rw [he, hr] at h; cases h
      | ok g' =>
        rw [he, hr] at h
        simp only [Except.ok.injEq] at h
        subst h
        simp only [List.map_cons, List.nodup_cons] at hn
        obtain ⟨ih1, ih2⟩ := buildGraph_lookup verts disabled r g' hr hn.2
        refine ⟨by simp [ih1], ?_⟩
        intro n s hm
        rcases List.mem_cons.mp hm with heq | hm'
        · cases heq
          exact ⟨es, he, by simp [List.lookup_cons]⟩
        · obtain ⟨es', h1, h2⟩ := ih2 n s hm'
          have hne : (n == k) = false := by
            have : n ≠ k := fun hnk => hn.1 (hnk ▸ List.mem_map.mpr ⟨(n, s), hm', rfl⟩)
            simpa using this
          exact ⟨es', h1, by simp only [List.lookup_cons, hne]; exact h2⟩

theorem lookup_mem_keys {β : Type} : ∀ (g : List (String × β)) (n : String) (b : β), g.lookup n = some b → n ∈ g.map Prod.fst
  | [], _, _, h => by simp at h
  | (k, v) :: r, n, b, h => by
    simp only [List.lookup_cons] at h
    by_cases hnk : (n == k) = true
    · have : n = k := by simpa using hnk
      simp [this]
    · simp only [hnk] at h
      exact List.mem_cons_of_mem _ (lookup_mem_keys r n b h)

/-! ## the post state -/

theorem postState_enabled (p : Proj) : (postState p).enabled = p.enabled := by
  simp [postState, Proj.enabled, List.map_map, Function.comp_def]

theorem normalizeSvc_dependsOn (s : Svc) : (normalizeSvc s).dependsOn = s.dependsOn := by
  unfold normalizeSvc
  cases s.scale <;> cases s.deploy <;> rfl

theorem postSvc_deps_subset (verts : List String) (n : String) (s : Svc) :
    ∀ d ∈ (postSvc verts n s).dependsOn, d ∈ s.dependsOn := by
  intro d hd
  unfold postSvc at hd
  simp only at hd
  split at hd
  · simp only [List.mem_filter, normalizeSvc_dependsOn] at hd
    exact hd.1
  · rw [normalizeSvc_dependsOn] at hd; exact hd

/-- the post state of a service: `depends_on` shrinks to `deps'`, `deploy.replicas` follows `scale` -/
theorem postSvc_shape (verts : List String) (n : String) (s : Svc) :
    ∃ deps', (∀ d ∈ deps', d ∈ s.dependsOn) ∧
      postSvc verts n s = { normalizeSvc s with dependsOn := deps' } := by
  refine ⟨(postSvc verts n s).dependsOn, postSvc_deps_subset verts n s, ?_⟩
  unfold postSvc
  simp only
  split <;> rfl

theorem holds_deps_shrink (p : Proj) (s : Svc) (deps' : List (String × Bool)) (hsub : ∀ d ∈ deps', d ∈ s.dependsOn)
    (r : Rule) (h : Holds p s r) : Holds (postState p) { s with dependsOn := deps' } r := by
  have hen := postState_enabled p
  cases r <;> simp only [Holds, hen, getScale] at h ⊢ <;>
    first
    | exact h
    | (intro d hd; exact h d (hsub d hd))

theorem holds_normalize (p : Proj) (s : Svc) (r : Rule) (h : Holds p s r) : Holds p (normalizeSvc s) r := by
  cases hsc : s.scale with
  | none =>
    have : normalizeSvc s = s := by unfold normalizeSvc; simp [hsc]
    rw [this]; exact h
  | some sc =>
    cases hdp : s.deploy with
    | none =>
      have : normalizeSvc s = s := by unfold normalizeSvc; simp [hsc, hdp]
      rw [this]; exact h
    | some d =>
      have hns : normalizeSvc s = { s with deploy := some { d with replicas := some sc } } := by
        unfold normalizeSvc; simp [hsc, hdp]
      rw [hns]
      cases r <;> simp only [Holds, getScale, hsc, hdp] at h ⊢ <;>
        first
        | exact h
        | grind

theorem holds_post (p : Proj) (n : String) (s : Svc) (r : Rule) (h : Holds p s r) :
    Holds (postState p) (postSvc p.enabled n s) r := by
  obtain ⟨deps', hsub, heq⟩ := postSvc_shape p.enabled n s
  rw [heq]
  exact holds_deps_shrink p (normalizeSvc s) deps' (fun d hd => by rw [normalizeSvc_dependsOn]; exact hsub d hd) r
    (holds_normalize p s r h)

theorem deletesSelf_normalize (verts : List String) (s : Svc) : deletesSelf verts (normalizeSvc s) = deletesSelf verts s := by
  unfold deletesSelf; rw [normalizeSvc_dependsOn]

theorem postSvc_mem (verts : List String) (n : String) (s : Svc) (d : String × Bool) (hd : d ∈ (postSvc verts n s).dependsOn) :
    d ∈ s.dependsOn ∧ (deletesSelf verts s = true → d.1 ≠ n) := by
  refine ⟨postSvc_deps_subset verts n s d hd, fun hdel => ?_⟩
  unfold postSvc at hd
  simp only [deletesSelf_normalize, hdel, if_true, List.mem_filter, bne_iff_ne] at hd
  exact hd.2

/-- the graph `newGraph` builds contains every edge of the dependency relation of the *post state* -/
theorem postState_edges_in_graph (p : Proj) (hnd : p.enabled.Nodup) (g : Graph) (hg : newGraph p = .ok g)
    (a b : String) (h : DepRel (postState p) a b) : g.E a b := by
  obtain ⟨-, hlook⟩ := buildGraph_lookup p.enabled p.disabled p.services g hg hnd
  obtain ⟨s', hs', hb, r, hr⟩ := h
  rw [postState_enabled] at hb
  simp only [postState, List.mem_map] at hs'
  obtain ⟨e, he, heq⟩ := hs'
  cases heq
  obtain ⟨es, hes, hl⟩ := hlook e.1 e.2 he
  obtain ⟨hm, hdel⟩ := postSvc_mem p.enabled e.1 e.2 (b, r) hr
  have hae : e.1 ∈ p.enabled := List.mem_map.mpr ⟨e, he, rfl⟩
  unfold Graph.E Graph.children
  rw [hl]
  refine edgesOf_mem p.enabled p.disabled e.1 e.2.dependsOn false es hes b r hm hb ?_
  cases hds : deletesSelf p.enabled e.2 with
  | true => exact .inl (hdel hds)
  | false =>
    right
    refine ⟨rfl, fun d hd => ?_⟩
    have h1 := edgesOf_ok_deps p.enabled p.disabled e.1 e.2.dependsOn false es hes d hd
    unfold deletesSelf at hds
    rw [List.any_eq_false] at hds
    have h2 := hds d hd
    rcases h1 with h1 | h1 | h1
    · exact h1
    · simp only [h1, Bool.not_false, Bool.and_true, Bool.not_eq_true, Bool.not_eq_false'] at h2
      exact List.contains_iff_mem.mp h2
    · rw [h1]; exact hae

theorem newGraph_closed (p : Proj) (hnd : p.enabled.Nodup) (g : Graph) (hg : newGraph p = .ok g) : g.Closed := by
  obtain ⟨hkeys, hlook⟩ := buildGraph_lookup p.enabled p.disabled p.services g hg hnd
  intro v c hc
  unfold Graph.children at hc
  cases hl : g.lookup v with
  | none => simp [hl] at hc
  | some cs =>
    simp only [hl] at hc
    have hv : v ∈ p.services.map Prod.fst := hkeys ▸ lookup_mem_keys g v cs hl
    obtain ⟨e, he, rfl⟩ := List.mem_map.mp hv
    obtain ⟨es, hes, hl'⟩ := hlook e.1 e.2 he
    rw [hl] at hl'
    cases hl'
    have := edgesOf_subset p.enabled p.disabled e.1 e.2.dependsOn false cs hes c hc
    unfold Graph.keys
    rw [hkeys]
    exact this

end CV.Consistency

namespace CV.Consistency

/-- `newGraph`'s inner loop fails iff some *required* dependency is not an enabled service (whatever the order) -/
theorem edgesOf_error_iff (verts disabled : List String) (n : String) (hn : n ∈ verts) :
    ∀ (deps : List (String × Bool)) (del : Bool),
      (∃ e, edgesOf verts disabled n del deps = .error e) ↔ ∃ d ∈ deps, d.1 ∉ verts ∧ d.2 = true
  | [], _ => by simp [edgesOf]
  | (dep, req) :: rest, del => by
    unfold edgesOf
    by_cases hskip : (del && dep == n) = true
    · simp only [hskip, if_true]
      rw [edgesOf_error_iff verts disabled n hn rest del]
      simp only [Bool.and_eq_true, beq_iff_eq] at hskip
      constructor
      · rintro ⟨d, hd, h⟩; exact ⟨d, List.mem_cons_of_mem _ hd, h⟩
      · rintro ⟨d, hd, h⟩
        rcases List.mem_cons.mp hd with rfl | hd'
        · exact absurd (hskip.2 ▸ hn) h.1
        · exact ⟨d, hd', h⟩
    · simp only [hskip, Bool.false_eq_true, if_false]
      by_cases hv : verts.contains dep = true
      · simp only [hv, if_true]
        have hdv : dep ∈ verts := List.contains_iff_mem.mp hv
        have ih := edgesOf_error_iff verts disabled n hn rest del
        constructor
        · rintro ⟨e, he⟩
          cases hr : edgesOf verts disabled n del rest with
          | ok es => rw [hr] at he; cases he
          | error e' =>
            obtain ⟨d, hd, h⟩ := ih.mp ⟨e', hr⟩
            exact ⟨d, List.mem_cons_of_mem _ hd, h⟩
        · rintro ⟨d, hd, h⟩
          rcases List.mem_cons.mp hd with rfl | hd'
          · exact absurd hdv h.1
          · obtain ⟨e', he'⟩ := ih.mpr ⟨d, hd', h⟩
            exact ⟨e', by rw [he']⟩
      · simp only [hv, Bool.false_eq_true, if_false]
        have hdv : dep ∉ verts := fun hh => hv (List.contains_iff_mem.mpr hh)
        cases req with
        | true =>
          simp only [if_true]
          exact ⟨fun _ => ⟨(dep, true), List.mem_cons_self .., hdv, rfl⟩, fun _ => ⟨_, rfl⟩⟩
        | false =>
          simp only [Bool.false_eq_true, if_false]
          rw [edgesOf_error_iff verts disabled n hn rest true]
          constructor
          · rintro ⟨d, hd, h⟩; exact ⟨d, List.mem_cons_of_mem _ hd, h⟩
          · rintro ⟨d, hd, h⟩
            rcases List.mem_cons.mp hd with rfl | hd'
            · exact absurd h.2 (by simp)
            · exact ⟨d, hd', h⟩

theorem buildGraph_error_iff (verts disabled : List String) :
    ∀ (l : List (String × Svc)), (∀ e ∈ l, e.1 ∈ verts) →
      ((∃ err, buildGraph verts disabled l = .error err) ↔ ∃ e ∈ l, ∃ d ∈ e.2.dependsOn, d.1 ∉ verts ∧ d.2 = true)
  | [], _ => by simp [buildGraph]
  | (n, s) :: r, hl => by
    have hn : n ∈ verts := hl (n, s) (List.mem_cons_self ..)
    have h1 := edgesOf_error_iff verts disabled n hn s.dependsOn false
    have ih := buildGraph_error_iff verts disabled r (fun e he => hl e (List.mem_cons_of_mem _ he))
    unfold buildGraph
    constructor
    · rintro ⟨err, herr⟩
      cases he : edgesOf verts disabled n false s.dependsOn with
      | error e' =>
        obtain ⟨d, hd, h⟩ := h1.mp ⟨e', he⟩
        exact ⟨(n, s), List.mem_cons_self .., d, hd, h⟩
      | ok es =>
        rw [he] at herr
        cases hr : buildGraph verts disabled r with
        | ok g => rw [hr] at herr; cases herr
        | error e' =>
          obtain ⟨e, hem, h⟩ := ih.mp ⟨e', hr⟩
          exact ⟨e, List.mem_cons_of_mem _ hem, h⟩
    · rintro ⟨e, hem, d, hd, h⟩
      cases he : edgesOf verts disabled n false s.dependsOn with
      | error e' => exact ⟨e', rfl⟩
      | ok es =>
        simp only
        rcases List.mem_cons.mp hem with rfl | hem'
        · obtain ⟨e', he'⟩ := h1.mpr ⟨d, hd, h⟩
          rw [he] at he'; cases he'
        · obtain ⟨e', he'⟩ := ih.mpr ⟨e, hem', d, hd, h⟩
          exact ⟨e', by rw [he']⟩

end CV.Consistency
