import ComposeVerif.Model.ShortStr
/-! Lemmas about the string helpers of the short-syntax models (C03). -/
namespace CV.Short

theorem splitOn_ne_nil (c : Char) (s : Str) : splitOn c s ≠ [] := by
  induction s with
  | nil => simp [splitOn]
  | cons x xs ih =>
    simp only [splitOn]
    split
    · simp
    · split <;> simp

/-- no separator: one part -/
theorem splitOn_clean (c : Char) (s : Str) (h : ∀ x ∈ s, x ≠ c) : splitOn c s = [s] := by
  induction s with
  | nil => rfl
  | cons x xs ih =>
    have hx : x ≠ c := h x (by simp)
    have := ih (fun y hy => h y (by simp [hy]))
    simp [splitOn, hx, this]

/-- a clean prefix followed by the separator -/
theorem splitOn_append (c : Char) (a b : Str) (h : ∀ x ∈ a, x ≠ c) :
    splitOn c (a ++ c :: b) = a :: splitOn c b := by
  induction a with
  | nil => simp [splitOn]
  | cons x xs ih =>
    have hx : x ≠ c := h x (by simp)
    have := ih (fun y hy => h y (by simp [hy]))
    simp [splitOn, hx, this]

theorem cutAt_clean (c : Char) (s : Str) (h : ∀ x ∈ s, x ≠ c) : cutAt c s = none := by
  induction s with
  | nil => rfl
  | cons x xs ih =>
    have hx : x ≠ c := h x (by simp)
    have := ih (fun y hy => h y (by simp [hy]))
    simp [cutAt, hx, this]

theorem cutAt_append (c : Char) (a b : Str) (h : ∀ x ∈ a, x ≠ c) :
    cutAt c (a ++ c :: b) = some (a, b) := by
  induction a with
  | nil => simp [cutAt]
  | cons x xs ih =>
    have hx : x ≠ c := h x (by simp)
    have := ih (fun y hy => h y (by simp [hy]))
    simp [cutAt, hx, this]

theorem contains_false_iff (s : Str) (c : Char) : s.contains c = false ↔ ∀ x ∈ s, x ≠ c := by
  induction s with
  | nil => simp
  | cons y ys ih =>
    simp only [List.contains_cons, Bool.or_eq_false_iff, ih, List.mem_cons, forall_eq_or_imp]
    constructor
    · rintro ⟨h1, h2⟩
      exact ⟨by intro h; subst h; simp at h1, h2⟩
    · rintro ⟨h1, h2⟩
      exact ⟨by simpa using fun h => h1 h.symm, h2⟩

/-! ### decimal round trip -/

theorem digitChar_isDigit : ∀ d : Fin 10, (digitChar d.val).isDigit = true := by decide
theorem digitChar_val : ∀ d : Fin 10, (digitChar d.val).toNat - 48 = d.val := by decide

theorem parseDecAux_snoc (acc : Nat) (s : Str) (d : Nat) (hd : d < 10) :
    parseDecAux acc (s ++ [digitChar d]) = (parseDecAux acc s).map (fun m => m * 10 + d) := by
  induction s generalizing acc with
  | nil =>
    have h1 := digitChar_isDigit ⟨d, hd⟩
    have h2 := digitChar_val ⟨d, hd⟩
    simp only at h1 h2
    simp [parseDecAux, h1, h2]
  | cons x xs ih =>
    simp only [List.cons_append, parseDecAux]
    split
    · exact ih _
    · rfl

/-- `ParseUint(FormatUint(n)) = n` -/
theorem parseDecAux_natToDec (n : Nat) : parseDecAux 0 (natToDec n) = some n := by
  induction n using Nat.strongRecOn with
  | _ n ih =>
    unfold natToDec
    split
    · rename_i h
      have h1 := digitChar_isDigit ⟨n, h⟩
      have h2 := digitChar_val ⟨n, h⟩
      simp only at h1 h2
      simp [parseDecAux, h1, h2]
    · rename_i h
      rw [parseDecAux_snoc _ _ _ (Nat.mod_lt _ (by omega)), ih (n / 10) (by omega)]
      simp only [Option.map_some, Option.some.injEq]
      omega

theorem natToDec_ne_nil (n : Nat) : natToDec n ≠ [] := by
  unfold natToDec
  split <;> simp

theorem parseDecAux_zeros (k : Nat) (s : Str) : parseDecAux 0 (List.replicate k '0' ++ s) = parseDecAux 0 s := by
  induction k with
  | zero => rfl
  | succ k ih =>
    simp only [List.replicate_succ, List.cons_append, parseDecAux]
    have : ('0' : Char).isDigit = true := by decide
    simp only [this, if_true]
    have : (0 * 10 + (('0' : Char).toNat - 48)) = 0 := by decide
    rw [this]; exact ih

theorem digitChar_mem : ∀ d : Fin 10, (digitChar d.val).isDigit = true := digitChar_isDigit

/-- every character of a formatted number is a digit -/
theorem natToDec_digits (n : Nat) : ∀ x ∈ natToDec n, x.isDigit = true := by
  induction n using Nat.strongRecOn with
  | _ n ih =>
    unfold natToDec
    split
    · rename_i h
      intro x hx
      simp only [List.mem_singleton] at hx
      subst hx
      exact digitChar_isDigit ⟨n, h⟩
    · rename_i h
      intro x hx
      simp only [List.mem_append, List.mem_singleton] at hx
      rcases hx with hx | hx
      · exact ih (n / 10) (by omega) x hx
      · subst hx
        exact digitChar_isDigit ⟨n % 10, Nat.mod_lt _ (by omega)⟩

end CV.Short
