import ComposeVerif.Model.InterpCustom
import ComposeVerif.Spec.Interp
/-! Lemmas for C08: on canonical decimal numerals the base-0 reading of the repaired casters, the decimal reading of the
pre-fix casters and `DeviceCount`'s own decoder coincide. -/
namespace CV.Interp

theorem digitOf_digit (c : Char) (h : c.isDigit = true) : digitOf c = some (digitVal c) ∧ digitVal c < 10 := by
  simp only [digitOf, h, if_true, digitVal, true_and]
  simp only [Char.isDigit, Bool.and_eq_true, decide_eq_true_eq] at h
  have h1 : '0'.toNat ≤ c.toNat := h.1
  have h2 : c.toNat ≤ '9'.toNat := h.2
  have : '0'.toNat = 48 := by decide
  have : '9'.toNat = 57 := by decide
  omega

theorem digitsVal_digits (ds : List Char) (a : Nat) (h : allDigits ds = true) :
    digitsVal 10 ds a = some (ds.foldl (fun n c => 10 * n + digitVal c) a) := by
  induction ds generalizing a with
  | nil => rfl
  | cons c cs ih =>
    simp only [allDigits, List.all_cons, Bool.and_eq_true] at h
    obtain ⟨hd, hlt⟩ := digitOf_digit c h.1
    simp only [digitsVal, hd, hlt, if_true, List.foldl_cons]
    exact ih _ (by simpa [allDigits] using h.2)

theorem strip_digits (ds : List Char) (h : allDigits ds = true) : stripUnderscores ds = ds := by
  unfold stripUnderscores
  rw [List.filter_eq_self]
  intro c hc
  simp only [allDigits, List.all_eq_true] at h
  have := h c hc
  simp only [bne_iff_ne, ne_eq]
  intro e; subst e; revert this; decide


theorem parseUint0_canonical (ds : List Char) (h : CanonicalDecimal ds) (n : Nat) (hn : parseUint0 ds = some n) :
    n = natOfDigits ds := by
  obtain ⟨hall, c, cs, rfl, h0⟩ := h
  by_cases hc : c = '0'
  · subst hc; rw [h0 rfl] at hn ⊢
    simp [parseUint0, digitsVal] at hn
    subst hn; rfl
  · have hdef : parseUint0 (c :: cs) = parseUintBase 10 (c :: cs) := by
      unfold parseUint0
      split
      · rename_i heq; cases heq
      · rename_i heq; cases heq; exact absurd rfl hc
      · rename_i heq; cases heq; exact absurd rfl hc
      · rfl
    rw [hdef] at hn
    simp only [parseUintBase, List.isEmpty_cons, Bool.false_eq_true, if_false, digitsVal_digits _ 0 hall] at hn
    split at hn
    · cases hn; rfl
    · cases hn

theorem head_digit_not_sign (c : Char) (h : c.isDigit = true) : c ≠ '+' ∧ c ≠ '-' := by
  constructor <;> (intro e; subst e; revert h; decide)

theorem yamlIntCore_canonical (ds : List Char) (h : CanonicalDecimal ds) (i : Int) (hi : yamlIntCore ds = some i) :
    parseIntDecimal ds = some i := by
  obtain ⟨hall, c, cs, rfl, h0⟩ := h
  have hcd : c.isDigit = true := by simp only [allDigits, List.all_cons, Bool.and_eq_true] at hall; exact hall.1
  obtain ⟨hp, hm⟩ := head_digit_not_sign c hcd
  have hsigned : parseInt0 (c :: cs) =
      (match parseUint0 (c :: cs) with
       | none => none
       | some n => if n ≤ 9223372036854775807 then some (n : Int) else none) := by
    unfold parseInt0 signed
    split
    · rename_i heq; cases heq
    · rename_i heq; cases heq; exact absurd rfl hp
    · rename_i heq; cases heq; exact absurd rfl hm
    · simp only [Bool.false_eq_true, if_false]; rfl
  have hdec : parseIntDecimal (c :: cs) =
      (if natOfDigits (c :: cs) ≤ 9223372036854775807 then some (natOfDigits (c :: cs) : Int) else none) := by
    unfold parseIntDecimal
    split
    · rename_i heq; cases heq; exact absurd rfl hp
    · rename_i heq; cases heq; exact absurd rfl hm
    · simp only [List.isEmpty_cons, hall, Bool.not_true, Bool.or_self, Bool.false_eq_true, if_false]
  unfold yamlIntCore at hi
  rw [hsigned] at hi
  cases hu : parseUint0 (c :: cs) with
  | some n =>
    have hn := parseUint0_canonical (c :: cs) ⟨hall, c, cs, rfl, h0⟩ n hu
    rw [hu] at hi
    simp only at hi
    rw [hdec, ← hn]
    split at hi
    · rename_i j hj
      rw [hj]; exact hi
    · rename_i hj
      -- the prefix branches cannot apply to a digit string without leading zero
      split at hi
      all_goals first
        | (rename_i heq; cases heq; first | exact absurd rfl hm | (have := h0 rfl; cases this))
        | cases hi
  | none =>
    rw [hu] at hi
    simp only at hi
    split at hi
    all_goals first
      | (rename_i heq; cases heq; first | exact absurd rfl hm | (have := h0 rfl; cases this))
      | cases hi

theorem parseInt_canonical_decimal (ds : List Char) (h : CanonicalDecimal ds) :
    parseInt (String.ofList ds) = parseIntDecimal ds := by
  unfold parseInt
  rw [String.toList_ofList, strip_digits ds h.1]
  cases hy : yamlIntCore ds with
  | none => rfl
  | some i => exact (yamlIntCore_canonical ds h i hy).symm

theorem toLower_digit (c : Char) (h : c.isDigit = true) : c.toLower = c := by
  simp only [Char.isDigit, Bool.and_eq_true, decide_eq_true_eq] at h
  have h2 : c.val ≤ 57 := h.2
  unfold Char.toLower
  rw [dif_neg]
  intro hh
  have : (65 : UInt32) ≤ c.val := hh.1
  have := UInt32.le_trans this h2
  revert this; decide

theorem devicecount_canonical_decimal (ds : List Char) (h : CanonicalDecimal ds) :
    decodeDeviceCount (String.ofList ds) = parseInt (String.ofList ds) := by
  rw [parseInt_canonical_decimal ds h]
  obtain ⟨hall, c, cs, rfl, _⟩ := h
  have hcd : c.isDigit = true := by simp only [allDigits, List.all_cons, Bool.and_eq_true] at hall; exact hall.1
  unfold decodeDeviceCount
  rw [String.toList_ofList, if_neg]
  intro he
  have := congrArg String.toList he
  rw [String.toList_ofList, List.map_cons, toLower_digit c hcd] at this
  have h3 : "all".toList = ['a', 'l', 'l'] := by decide
  rw [h3] at this
  injection this with hc _
  subst hc; revert hcd; decide
end CV.Interp
