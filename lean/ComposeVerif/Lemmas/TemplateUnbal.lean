import ComposeVerif.Lemmas.TemplateMore
/-!
# Operator substitutions whose argument is *not* brace-balanced

`rrepl_op` / `run_op` assume the argument is `Neutral` (balanced).  Here the only assumption is what
`getFirstBraceClosingIndex` returns on the greedy match: the brace right after `a` (`…_closed`), or nothing
(`…_open`: the whole match, up to the last `}` of the line, is re-matched and its tail becomes the argument).
-/
namespace CV.Template

theorem rrepl_op_core (env : Env) (n : Str) (o : Op) (a Y : Str) (hn : validName n = true) (ha_nl : noNL a)
    (hsub : subOf ('$' :: '{' :: (n ++ (o.str ++ (a ++ '}' :: Y)))) = '$' :: '{' :: (n ++ (o.str ++ (a ++ ['}']))))
    (hrest : restOf ('$' :: '{' :: (n ++ (o.str ++ (a ++ '}' :: Y)))) = Y) :
    rrepl env ('$' :: '{' :: (n ++ (o.str ++ (a ++ '}' :: Y)))) =
      match opOut env n o (run env a) with
      | .ok x => seq (.ok x) (run env Y)
      | r => r := by
  obtain ⟨c, cs, rfl, hc, hall⟩ := validName_cases hn
  have hsel : selectOp ('$' :: '{' :: (c :: cs ++ (o.str ++ (a ++ '}' :: Y)))) = o := by
    have := selectOp_render ('$' :: '{' :: c :: cs) o (a ++ '}' :: Y) (by
      intro x hx
      simp only [List.mem_cons] at hx
      rcases hx with rfl | rfl | hx
      · decide
      · decide
      · exact noOpChar_name hall x (by simpa using hx))
    simpa using this
  have hm := matchDollar_brace ((c :: cs) ++ (o.str ++ (a ++ ['}'])))
  rw [matchBraced_op (c :: cs) o (a ++ ['}']) hn] at hm
  have hlc : lastCloseLen (a ++ ['}']) = some (a.length + 1) := lastCloseLen_close a [] ha_nl lastCloseLen_nil
  rw [hlc] at hm
  simp only [Nat.add_sub_cancel, take_append_len] at hm
  have hcut := cut_op_render (c :: cs) o a (noOpChar_name hall)
  rw [rrepl, replK]
  simp only [List.cons_append, List.append_assoc] at hsub hrest hsel hm hcut ⊢
  rw [hsub, hrest, hm, hsel]
  simp only [hcut.1, hcut.2, if_true, opOut]
  cases run env a with
  | panic p => rfl
  | err e => rfl
  | ok d =>
    simp only
    cases applyOp o (c :: cs) (env (c :: cs)) d with
    | panic p => rfl
    | err e => rfl
    | ok x =>
      simp only [seq]
      cases run env Y <;> rfl

/-- the greedy match on `${n op a}Y ++ Z` is `${n op a}Y` when `a`, `Y` are newline-free, `Y` is empty or ends
    with `}`, and the first line of `Z` has no `}` -/
theorem matchDollar_op_greedy (n : Str) (o : Op) (a Y Z : Str) (hn : validName n = true)
    (ha : noNL a) (hY : noNL Y) (hYe : EndsClose Y) (hZ : lastCloseLen Z = none) :
    ∃ k, matchDollar ('$' :: '{' :: (n ++ (o.str ++ (a ++ '}' :: (Y ++ Z))))) =
      some (k, '$' :: '{' :: (n ++ (o.str ++ (a ++ '}' :: Y))), Z) := by
  have hk : lastCloseLen (a ++ '}' :: (Y ++ Z)) = some (a.length + 1 + Y.length) := by
    rcases hYe with rfl | ⟨P, rfl⟩
    · simpa using lastCloseLen_close a Z ha hZ
    · have hnl : noNL (a ++ '}' :: P) := by
        intro c hc
        simp at hc
        rcases hc with hc | rfl | hc
        · exact ha c hc
        · decide
        · exact hY c (by simp [hc])
      have := lastCloseLen_close (a ++ '}' :: P) Z hnl hZ
      simp only [List.append_assoc, List.cons_append, List.nil_append] at this ⊢
      rw [this]; simp; omega
  have hm := matchDollar_brace (n ++ (o.str ++ (a ++ '}' :: (Y ++ Z))))
  rw [matchBraced_op n o (a ++ '}' :: (Y ++ Z)) hn, hk] at hm
  have e : a ++ '}' :: (Y ++ Z) = (a ++ '}' :: Y) ++ Z := by simp
  have l : (a ++ '}' :: Y).length = a.length + 1 + Y.length := by simp; omega
  simp only at hm
  rw [e, ← l, take_append_len, drop_append_len] at hm
  exact ⟨_, by rw [e]; exact hm⟩

/-- **closed case**: the brace counter returns to zero at the `}` right after `a` -/
theorem run_op_closed (env : Env) (n : Str) (o : Op) (a Y Z : Str) (hn : validName n = true)
    (ha : noNL a) (hY : noNL Y) (hYe : EndsClose Y) (hZ : lastCloseLen Z = none)
    (hfc : firstClose ('$' :: '{' :: (n ++ (o.str ++ (a ++ '}' :: Y)))) = some (2 + n.length + o.str.length + a.length)) :
    run env ('$' :: '{' :: (n ++ (o.str ++ (a ++ '}' :: (Y ++ Z))))) =
      seq (opOut env n o (run env a)) (run env (Y ++ Z)) := by
  obtain ⟨k, hm⟩ := matchDollar_op_greedy n o a Y Z hn ha hY hYe hZ
  have e : '$' :: '{' :: (n ++ (o.str ++ (a ++ '}' :: Y))) = ('$' :: '{' :: (n ++ (o.str ++ (a ++ ['}'])))) ++ Y := by simp
  have l : ('$' :: '{' :: (n ++ (o.str ++ (a ++ ['}'])))).length = 2 + n.length + o.str.length + a.length + 1 := by
    simp; omega
  have hsub : subOf ('$' :: '{' :: (n ++ (o.str ++ (a ++ '}' :: Y)))) = '$' :: '{' :: (n ++ (o.str ++ (a ++ ['}']))) := by
    unfold subOf; rw [hfc]; simp only; rw [e, ← l]; exact List.take_left' rfl
  have hrest : restOf ('$' :: '{' :: (n ++ (o.str ++ (a ++ '}' :: Y)))) = Y := by
    unfold restOf; rw [hfc]; simp only; rw [e, ← l]; exact List.drop_left' rfl
  rw [run_dollar_some env _ hm, rrepl_op_core env n o a Y hn ha hsub hrest]
  have hsplit := run_split env Z hZ Y.length Y (Nat.le_refl _) hY hYe
  cases hop : opOut env n o (run env a) with
  | panic p => simp [seq]
  | err e =>
    simp only
    rw [seq_err_of_ne_panic _ _ (run_ne_panic env Z), seq_err_of_ne_panic _ _ (run_ne_panic env (Y ++ Z))]
  | ok x =>
    simp only
    rw [seq_assoc, ← hsplit]

/-- **open case**: the braces of the greedy match never balance (`getFirstBraceClosingIndex` = -1): nothing is
    truncated, the whole text up to the last `}` of the line is the argument -/
theorem run_op_open (env : Env) (n : Str) (o : Op) (body Z : Str) (hn : validName n = true)
    (hb : noNL body) (hZ : lastCloseLen Z = none)
    (hfc : firstClose ('$' :: '{' :: (n ++ (o.str ++ (body ++ ['}'])))) = none) :
    run env ('$' :: '{' :: (n ++ (o.str ++ (body ++ '}' :: Z)))) = seq (opOut env n o (run env body)) (run env Z) := by
  obtain ⟨k, hm⟩ := matchDollar_op_greedy n o body [] Z hn hb (by intro c hc; cases hc) (Or.inl rfl) hZ
  simp only [List.nil_append] at hm
  have hsub : subOf ('$' :: '{' :: (n ++ (o.str ++ (body ++ ['}'])))) = '$' :: '{' :: (n ++ (o.str ++ (body ++ ['}']))) := by
    unfold subOf; rw [hfc]
  have hrest : restOf ('$' :: '{' :: (n ++ (o.str ++ (body ++ ['}'])))) = [] := by
    unfold restOf; rw [hfc]
  rw [run_dollar_some env _ hm, rrepl_op_core env n o body [] hn hb hsub hrest]
  cases hop : opOut env n o (run env body) with
  | panic p => simp [seq]
  | err e => rfl
  | ok x => simp only [run_nil, seq_nil_ok]

end CV.Template
