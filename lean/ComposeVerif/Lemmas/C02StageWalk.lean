import ComposeVerif.Lemmas.MapOrder
import ComposeVerif.Lemmas.Merge
import ComposeVerif.Model.ShortTransform
import ComposeVerif.Model.C11Defaults
import ComposeVerif.Model.Paths
namespace CV.Det.Stage
open CV
open CV.Val (lookup keys KVs)

/-! ### the loop shape shared by `transformMapping`, `setDefaults` and `resolveRelativePaths`:
`for k, v := range m { r, err := rec(p.Next(k), v); if err != nil { return err }; m[k] = r }` -/

/-- the loop with failures collapsed to `none` (which failure is reported first depends on the order) -/
def travOpt (g : String → Val → Option Val) : KVs → Option KVs
  | [] => some []
  | (k, v) :: r =>
    match g k v with
    | none => none
    | some t =>
      match travOpt g r with
      | none => none
      | some r' => some ((k, t) :: r')

theorem travOpt_isSome (g : String → Val → Option Val) (m : KVs) :
    (travOpt g m).isSome = m.all (fun kv => (g kv.1 kv.2).isSome) := by
  induction m with
  | nil => rfl
  | cons hd tl ih =>
    obtain ⟨k, v⟩ := hd
    simp only [travOpt, List.all_cons]
    cases g k v with
    | none => rfl
    | some t =>
      simp only [Option.isSome_some, Bool.true_and, ← ih]
      cases travOpt g tl <;> rfl

theorem travOpt_eq_map (g : String → Val → Option Val) (m r : KVs) (h : travOpt g m = some r) :
    r = m.map (fun kv => (kv.1, (g kv.1 kv.2).getD .null)) := by
  induction m generalizing r with
  | nil => simp only [travOpt, Option.some.injEq] at h; subst h; rfl
  | cons hd tl ih =>
    obtain ⟨k, v⟩ := hd
    simp only [travOpt] at h
    cases hg : g k v with
    | none => simp [hg] at h
    | some t =>
      simp only [hg] at h
      cases ht : travOpt g tl with
      | none => simp [ht] at h
      | some r' =>
        simp only [ht, Option.some.injEq] at h
        subst h
        simp [hg, ih r' ht]

/-- **the loop does not depend on the order in which the mapping is ranged**: it fails or succeeds alike, and on
success the results are permutations of each other that hold the same value under every key -/
theorem travOpt_perm (g : String → Val → Option Val) {m m' : KVs} (hn : (keys m).Nodup) (hp : m'.Perm m) :
    (travOpt g m').isSome = (travOpt g m).isSome ∧
    ∀ r r', travOpt g m = some r → travOpt g m' = some r' → r'.Perm r ∧ ∀ k, lookup k r' = lookup k r := by
  refine ⟨by rw [travOpt_isSome, travOpt_isSome, hp.all_eq], ?_⟩
  intro r r' h h'
  have e := travOpt_eq_map g m r h
  have e' := travOpt_eq_map g m' r' h'
  have hperm : r'.Perm r := by rw [e, e']; exact hp.map _
  refine ⟨hperm, fun k => ?_⟩
  have hnr : (keys r).Nodup := by
    rw [e]; simpa [keys, Function.comp_def] using hn
  exact CV.Merge.lookup_perm hnr hperm k

/-! ### `transform.Canonical`: `transformMapping` -/

def optS {α : Type} : CV.Short.Out α → Option α
  | .ok a => some a
  | _ => none

theorem transformKVs_trav (ign : Bool) (p : TPath) (m : KVs) :
    optS (CV.Short.transformKVs ign p m) = travOpt (fun k e => optS (CV.Short.transform ign (TPath.nextK p k) e)) m := by
  induction m with
  | nil => simp [CV.Short.transformKVs, travOpt, optS]
  | cons hd tl ih =>
    obtain ⟨k, e⟩ := hd
    rw [CV.Short.transformKVs, travOpt, ← ih]
    cases CV.Short.transform ign (TPath.nextK p k) e <;> simp only [optS]
    cases CV.Short.transformKVs ign p tl <;> simp only [optS]

/-! ### `transform.SetDefaultValues`: the loop of `setDefaults` -/

def optD {α : Type} : CV.C11.Out α → Option α
  | .ok a => some a
  | _ => none

theorem setDefaultsKVs_trav (tbl : List (List String × String)) (p : TPath) (m : KVs) :
    optD (CV.C11.setDefaultsKVs tbl p m) = travOpt (fun k v => optD (CV.C11.setDefaults tbl (p.next k) v)) m := by
  induction m with
  | nil => simp [CV.C11.setDefaultsKVs, travOpt, optD]
  | cons hd tl ih =>
    obtain ⟨k, v⟩ := hd
    rw [CV.C11.setDefaultsKVs, travOpt, ← ih]
    cases CV.C11.setDefaults tbl (p.next k) v <;> simp only [optD]
    cases CV.C11.setDefaultsKVs tbl p tl <;> simp only [optD]

/-! ### `paths.ResolveRelativePaths`: the loop of `resolveRelativePaths` -/

def optP {α : Type} : CV.Paths.Out α → Option α
  | .ok a => some a
  | _ => none

theorem walkKVs_trav (t : CV.Paths.Table) (cfg : CV.Paths.Cfg) (p : TPath) (m : KVs) :
    optP (CV.Paths.walkKVs t cfg p m) = travOpt (fun k v => optP (CV.Paths.walk t cfg (TPath.next p k) v)) m := by
  induction m with
  | nil => simp [CV.Paths.walkKVs, travOpt, optP]
  | cons hd tl ih =>
    obtain ⟨k, v⟩ := hd
    rw [CV.Paths.walkKVs, travOpt, ← ih]
    cases CV.Paths.walk t cfg (TPath.next p k) v <;> simp only [optP]
    cases CV.Paths.walkKVs t cfg p tl <;> simp only [optP, CV.Paths.Out.map]

theorem optS_some {α : Type} {x : CV.Short.Out α} {a : α} : optS x = some a ↔ x = .ok a := by
  cases x <;> simp [optS]
theorem optD_some {α : Type} {x : CV.C11.Out α} {a : α} : optD x = some a ↔ x = .ok a := by
  cases x <;> simp [optD]
theorem optP_some {α : Type} {x : CV.Paths.Out α} {a : α} : optP x = some a ↔ x = .ok a := by
  cases x <;> simp [optP]

end CV.Det.Stage
