import ComposeVerif.Lemmas.C02Deep3
namespace CV.Deep
open CV CV.Merge
open CV.Val (lookup insert keys KVs)

/-! ### mappings built by conversion -/

theorem MEqv.insert {a a' : KVs} (h : MEqv a a') (k : String) {v v' : Val} (hv : Eqv v v') :
    MEqv (insert k v a) (insert k v' a') := by
  constructor
  · intro k'
    by_cases hk : k' = k
    · subst hk; simp [lookup_insert_self]
    · rw [lookup_insert_ne hk, lookup_insert_ne hk]; exact h.1 k'
  · intro k' x y hx hy
    by_cases hk : k' = k
    · subst hk
      rw [lookup_insert_self] at hx hy
      cases hx; cases hy; exact hv
    · rw [lookup_insert_ne hk] at hx hy; exact h.2 k' x y hx hy

theorem MWF.insert {a : KVs} (h : MWF a) (k : String) {v : Val} (hv : WF v) : MWF (insert k v a) := by
  refine ⟨nodup_keys_insert h.1, ?_⟩
  intro k' x hx
  by_cases hk : k' = k
  · subst hk; rw [lookup_insert_self] at hx; cases hx; exact hv
  · rw [lookup_insert_ne hk] at hx; exact h.2 k' x hx

theorem MEqv.nil : MEqv [] [] := ⟨fun _ => Iff.rfl, fun _ _ _ h => by cases h⟩
theorem MWF.nil : MWF [] := ⟨List.nodup_nil, fun _ _ h => by cases h⟩

/-- related mappings, both well formed -/
def MRel (a b : KVs) : Prop := MEqv a b ∧ MWF a ∧ MWF b

def OptMRel : Option KVs → Option KVs → Prop
  | some a, some b => MRel a b
  | none, none => True
  | _, _ => False

theorem listIntoMap_eqv (d : Val) (wd : WF d) : ∀ {xs xs' : List Val}, Eqv (.seq xs) (.seq xs') →
    ∀ {acc acc' : KVs}, MRel acc acc' → OutEqv MRel (listIntoMap d xs acc) (listIntoMap d xs' acc') := by
  intro xs
  induction xs with
  | nil => intro xs' h acc acc' hr; cases h; exact hr
  | cons x r ih =>
    intro xs' h acc acc' hr
    cases h with | seqCons hx hrest =>
    cases hx with
    | str s =>
      simp only [listIntoMap]
      exact ih hrest ⟨hr.1.insert s (Eqv.refl d wd), hr.2.1.insert s wd, hr.2.2.insert s wd⟩
    | null => simp [listIntoMap, OutEqv]
    | bool b => simp [listIntoMap, OutEqv]
    | int i => simp [listIntoMap, OutEqv]
    | float s => simp [listIntoMap, OutEqv]
    | seqNil => simp [listIntoMap, OutEqv]
    | seqCons _ _ => simp [listIntoMap, OutEqv]
    | map _ _ => simp [listIntoMap, OutEqv]

theorem intoMap_eqv (d : Val) (wd : WF d) {v v' : Val} (h : Eqv v v') (wv : WF v) (wv' : WF v') :
    OutEqv OptMRel (intoMap d v) (intoMap d v') := by
  cases h with
  | null => simp [intoMap, OutEqv, OptMRel]
  | bool b => simp [intoMap, OutEqv, OptMRel]
  | int i => simp [intoMap, OutEqv, OptMRel]
  | float s => simp [intoMap, OutEqv, OptMRel]
  | str s => simp [intoMap, OutEqv, OptMRel]
  | seqNil => simp [intoMap, listIntoMap, Out.bind, OutEqv, OptMRel, MRel, MEqv.nil, MWF.nil]
  | seqCons h1 h2 =>
    simp only [intoMap]
    exact OutEqv.bind (listIntoMap_eqv d wd (.seqCons h1 h2) ⟨MEqv.nil, MWF.nil, MWF.nil⟩)
      (fun a b hab => by simpa [OutEqv, OptMRel] using hab)
  | map h1 h2 =>
    simp only [intoMap, OutEqv, OptMRel]
    exact ⟨⟨h1, h2⟩, WF.map_iff.mp wv, WF.map_iff.mp wv'⟩

theorem eq_nil_of_lookup_none {b : KVs} (h : ∀ k, lookup k b = none) : b = [] := by
  cases b with
  | nil => rfl
  | cons hd tl => obtain ⟨k, v⟩ := hd; have := h k; simp [lookup] at this

theorem MEqv.nil_iff {b b' : KVs} (h : MEqv b b') : b = [] ↔ b' = [] := by
  constructor
  · intro e; subst e; exact eq_nil_of_lookup_none (fun k => (h.1 k).mp rfl)
  · intro e; subst e; exact eq_nil_of_lookup_none (fun k => (h.1 k).mpr rfl)

/-- `mergeMappings` as a relation-respecting function (what `mergeKVsWith_congr` provides) -/
def MkCongr (mk : KVs → KVs → TPath → Out KVs) (p : TPath) : Prop :=
  ∀ a a' b b', MEqv a a' → MEqv b b' → MWF a → MWF a' → MWF b → MWF b' → OutEqv MEqv (mk a b p) (mk a' b' p)

theorem okMap_eqv {x y : Out KVs} (h : OutEqv MEqv x y) :
    OutEqv Eqv (x.bind fun m => .ok (.map m)) (y.bind fun m => .ok (.map m)) :=
  OutEqv.bind h (fun a b hab => by simpa [OutEqv] using Eqv.map_iff.mpr hab)

theorem mergeOptMapsWith_eqv (mk : KVs → KVs → TPath → Out KVs) (p : TPath) (hmk : MkCongr mk p)
    {r r' l l' : Option KVs} (hr : OptMRel r r') (hl : OptMRel l l') :
    OutEqv Eqv (mergeOptMapsWith mk r l p) (mergeOptMapsWith mk r' l' p) := by
  cases r with
  | some a =>
    cases r' with
    | none => exact hr.elim
    | some a' =>
      cases l with
      | some b =>
        cases l' with
        | none => exact hl.elim
        | some b' =>
          simp only [mergeOptMapsWith]
          exact okMap_eqv (hmk a a' b b' hr.1 hl.1 hr.2.1 hr.2.2 hl.2.1 hl.2.2)
      | none =>
        cases l' with
        | some _ => exact hl.elim
        | none => simp only [mergeOptMapsWith, OutEqv]; exact Eqv.map_iff.mpr hr.1
  | none =>
    cases r' with
    | some _ => exact hr.elim
    | none =>
      cases l with
      | none =>
        cases l' with
        | some _ => exact hl.elim
        | none => simp only [mergeOptMapsWith, OutEqv]; exact Eqv.map_iff.mpr MEqv.nil
      | some b =>
        cases l' with
        | none => exact hl.elim
        | some b' =>
          have hnil := hl.1.nil_iff
          cases b with
          | nil =>
            have : b' = [] := hnil.mp rfl
            subst this
            simp only [mergeOptMapsWith, OutEqv]; exact Eqv.map_iff.mpr MEqv.nil
          | cons hd tl =>
            cases b' with
            | nil => have := hnil.mpr rfl; cases this
            | cons hd' tl' => simp [mergeOptMapsWith, OutEqv]

theorem wf_dependsOnDefault : WF dependsOnDefault := by
  refine .map (by decide) ?_
  intro k x hx
  simp only [lookup] at hx
  split at hx
  · cases hx; exact .str _
  · split at hx
    · cases hx; exact .bool _
    · cases hx

theorem toBuild_eqv {v v' : Val} (h : Eqv v v') (wv : WF v) (wv' : WF v') : OptMRel (toBuild v) (toBuild v') := by
  cases h with
  | null => trivial
  | bool b => trivial
  | int i => trivial
  | float s => trivial
  | seqNil => trivial
  | seqCons _ _ => trivial
  | str s =>
    simp only [toBuild, OptMRel]
    have w : MWF [("context", Val.str s)] := by
      refine ⟨by simp [keys], ?_⟩
      intro k x hx
      simp only [lookup] at hx
      split at hx
      · cases hx; exact .str _
      · cases hx
    exact ⟨(Eqv.map_iff.mp (Eqv.refl _ (WF.map_iff.mpr w))), w, w⟩
  | map h1 h2 => exact ⟨⟨h1, h2⟩, WF.map_iff.mp wv, WF.map_iff.mp wv'⟩

end CV.Deep
