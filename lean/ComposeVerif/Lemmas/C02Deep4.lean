import ComposeVerif.Lemmas.C02Deep3
namespace CV.Deep
open CV CV.Merge
open CV.Val (lookup insert keys KVs)

/-! ### mappings built by conversion -/

theorem MEqv.insert {a a' : KVs} (h : MEqv a a') (k : String) {v v' : Val} (hv : Eqv v v') :
    MEqv (insert k v a) (insert k v' a') := by
  constructor
  · intro k'
    by_cases hk : k' = k
    · subst hk; simp [lookup_insert_self]
    · rw [lookup_insert_ne hk, lookup_insert_ne hk]; exact h.1 k'
  · intro k' x y hx hy
    by_cases hk : k' = k
    · subst hk
      rw [lookup_insert_self] at hx hy
      cases hx; cases hy; exact hv
    · rw [lookup_insert_ne hk] at hx hy; exact h.2 k' x y hx hy

theorem MWF.insert {a : KVs} (h : MWF a) (k : String) {v : Val} (hv : WF v) : MWF (insert k v a) := by
  refine ⟨nodup_keys_insert h.1, ?_⟩
  intro k' x hx
  by_cases hk : k' = k
  · subst hk; rw [lookup_insert_self] at hx; cases hx; exact hv
  · rw [lookup_insert_ne hk] at hx; exact h.2 k' x hx

theorem MEqv.nil : MEqv [] [] := ⟨fun _ => Iff.rfl, fun _ _ _ h => by cases h⟩
theorem MWF.nil : MWF [] := ⟨List.nodup_nil, fun _ _ h => by cases h⟩

/-- related mappings, both well formed -/
def MRel (a b : KVs) : Prop := MEqv a b ∧ MWF a ∧ MWF b

theorem listIntoMap_eqv (d : Val) (wd : WF d) : ∀ {xs xs' : List Val}, Eqv (.seq xs) (.seq xs') →
    ∀ {acc acc' : KVs}, MRel acc acc' → OutEqv MRel (listIntoMap d xs acc) (listIntoMap d xs' acc') := by
  intro xs
  induction xs with
  | nil => intro xs' h acc acc' hr; cases h; exact hr
  | cons x r ih =>
    intro xs' h acc acc' hr
    cases h with | seqCons hx hrest =>
    cases hx with
    | str s =>
      simp only [listIntoMap]
      exact ih hrest ⟨hr.1.insert s (Eqv.refl d wd), hr.2.1.insert s wd, hr.2.2.insert s wd⟩
    | null => simp [listIntoMap, OutEqv]
    | bool b => simp [listIntoMap, OutEqv]
    | int i => simp [listIntoMap, OutEqv]
    | float s => simp [listIntoMap, OutEqv]
    | seqNil => simp [listIntoMap, OutEqv]
    | seqCons _ _ => simp [listIntoMap, OutEqv]
    | map _ _ => simp [listIntoMap, OutEqv]

theorem MRel.nil : MRel [] [] := ⟨MEqv.nil, MWF.nil, MWF.nil⟩

theorem intoMap_eqv (d : Val) (wd : WF d) {v v' : Val} (h : Eqv v v') (wv : WF v) (wv' : WF v') :
    OutEqv MRel (intoMap d v) (intoMap d v') := by
  cases h with
  | null => simp only [intoMap, OutEqv]; exact MRel.nil
  | bool b => simp [intoMap, OutEqv]
  | int i => simp [intoMap, OutEqv]
  | float s => simp [intoMap, OutEqv]
  | str s => simp [intoMap, OutEqv]
  | seqNil => simp only [intoMap, listIntoMap, OutEqv]; exact MRel.nil
  | seqCons h1 h2 =>
    simp only [intoMap]
    exact listIntoMap_eqv d wd (.seqCons h1 h2) MRel.nil
  | map h1 h2 =>
    simp only [intoMap, OutEqv]
    exact ⟨⟨h1, h2⟩, WF.map_iff.mp wv, WF.map_iff.mp wv'⟩

theorem eq_nil_of_lookup_none {b : KVs} (h : ∀ k, lookup k b = none) : b = [] := by
  cases b with
  | nil => rfl
  | cons hd tl => obtain ⟨k, v⟩ := hd; have := h k; simp [lookup] at this

theorem MEqv.nil_iff {b b' : KVs} (h : MEqv b b') : b = [] ↔ b' = [] := by
  constructor
  · intro e; subst e; exact eq_nil_of_lookup_none (fun k => (h.1 k).mp rfl)
  · intro e; subst e; exact eq_nil_of_lookup_none (fun k => (h.1 k).mpr rfl)

/-- `mergeMappings` as a relation-respecting function (what `mergeKVsWith_congr` provides) -/
def MkCongr (mk : KVs → KVs → TPath → Out KVs) (p : TPath) : Prop :=
  ∀ a a' b b', MEqv a a' → MEqv b b' → MWF a → MWF a' → MWF b → MWF b' → OutEqv MEqv (mk a b p) (mk a' b' p)

theorem okMap_eqv {x y : Out KVs} (h : OutEqv MEqv x y) :
    OutEqv Eqv (x.bind fun m => .ok (.map m)) (y.bind fun m => .ok (.map m)) :=
  OutEqv.bind h (fun a b hab => by simpa [OutEqv] using Eqv.map_iff.mpr hab)

/-- a conversion into a mapping that respects the equivalence and yields well-formed mappings -/
def ConvCongr (conv : Val → Out KVs) : Prop :=
  ∀ v v', Eqv v v' → WF v → WF v' → OutEqv MRel (conv v) (conv v')

theorem convMerge_eqv (mk : KVs → KVs → TPath → Out KVs) (p : TPath) (hmk : MkCongr mk p) (conv : Val → Out KVs)
    (hc : ConvCongr conv) {e e' o o' : Val} (he : Eqv e e') (ho : Eqv o o') (we : WF e) (we' : WF e') (wo : WF o) (wo' : WF o') :
    OutEqv Eqv (convMerge mk conv e o p) (convMerge mk conv e' o' p) := by
  simp only [convMerge]
  refine OutEqv.bind (hc e e' he we we') (fun r r' hr => ?_)
  refine OutEqv.bind (hc o o' ho wo wo') (fun l l' hl => ?_)
  exact okMap_eqv (hmk r r' l l' hr.1 hl.1 hr.2.1 hr.2.2 hl.2.1 hl.2.2)

theorem wf_dependsOnDefault : WF dependsOnDefault := by
  refine .map (by decide) ?_
  intro k x hx
  simp only [lookup] at hx
  split at hx
  · cases hx; exact .str _
  · split at hx
    · cases hx; exact .bool _
    · cases hx

theorem toBuild_eqv {v v' : Val} (h : Eqv v v') (wv : WF v) (wv' : WF v') : OutEqv MRel (toBuild v) (toBuild v') := by
  cases h with
  | null => simp only [toBuild, OutEqv]; exact MRel.nil
  | bool b => simp [toBuild, OutEqv]
  | int i => simp [toBuild, OutEqv]
  | float s => simp [toBuild, OutEqv]
  | seqNil => simp [toBuild, OutEqv]
  | seqCons _ _ => simp [toBuild, OutEqv]
  | str s =>
    simp only [toBuild, OutEqv]
    have w : MWF [("context", Val.str s)] := by
      refine ⟨by simp [keys], ?_⟩
      intro k x hx
      simp only [lookup] at hx
      split at hx
      · cases hx; exact .str _
      · cases hx
    exact ⟨(Eqv.map_iff.mp (Eqv.refl _ (WF.map_iff.mpr w))), w, w⟩
  | map h1 h2 => simp only [toBuild, OutEqv]; exact ⟨⟨h1, h2⟩, WF.map_iff.mp wv, WF.map_iff.mp wv'⟩

end CV.Deep
