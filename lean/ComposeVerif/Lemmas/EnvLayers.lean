import ComposeVerif.Model.EnvLayers
import ComposeVerif.Model.EnvLayersOrder
import ComposeVerif.Spec.EnvLayers
import ComposeVerif.Props.C07
/-! Helper lemmas for C16: association lists, `parseLines` / `loadEnvFiles` against the specification. -/
namespace CV.EnvLayers
open CV.EnvLayers.Spec

instance {ε α : Type} [DecidableEq ε] [DecidableEq α] : DecidableEq (Except ε α) := fun a b =>
  match a, b with
  | .ok x, .ok y => if h : x = y then isTrue (h ▸ rfl) else isFalse (fun e => h (Except.ok.inj e))
  | .error x, .error y => if h : x = y then isTrue (h ▸ rfl) else isFalse (fun e => h (Except.error.inj e))
  | .ok _, .error _ => isFalse (fun e => by cases e)
  | .error _, .ok _ => isFalse (fun e => by cases e)

/-- the Go-map invariant: keys are distinct -/
def Distinct {β : Type} (m : List (Key × β)) : Prop := (m.map Prod.fst).Nodup

instance {β : Type} (m : List (Key × β)) : Decidable (Distinct m) := inferInstanceAs (Decidable (List.Nodup _))

theorem orElse_none_right (a : Option Str) : orElse a none = a := by cases a <;> rfl
theorem orElse_none_left (a : Option Str) : orElse none a = a := rfl
theorem orElse_some (v : Str) (b : Option Str) : orElse (some v) b = some v := rfl
theorem orElse_assoc (a b c : Option Str) : orElse (orElse a b) c = orElse a (orElse b c) := by
  cases a <;> rfl

/-! ### lookup / insert -/

theorem lookup_insert {β : Type} (k k' : Key) (v : β) (m : List (Key × β)) :
    lookup k' (insert k v m) = if k = k' then some v else lookup k' m := by
  induction m with
  | nil => simp [insert, lookup]
  | cons p r ih =>
    obtain ⟨a, b⟩ := p
    by_cases h : a = k
    · subst h; by_cases h3 : a = k' <;> simp [insert, lookup, h3]
    · by_cases h2 : a = k'
      · subst h2
        have : ¬ k = a := fun e => h e.symm
        simp [insert, lookup, h, this]
      · simp [insert, lookup, h, h2, ih]

theorem lookup_append {β : Type} (k : Key) (a b : List (Key × β)) :
    lookup k (a ++ b) = match lookup k a with | some v => some v | none => lookup k b := by
  induction a with
  | nil => rfl
  | cons p r ih =>
    obtain ⟨a1, b1⟩ := p
    by_cases h : a1 = k <;> simp [lookup, h, ih]

theorem lookup_none_of_not_mem {β : Type} (k : Key) (m : List (Key × β)) (h : k ∉ m.map Prod.fst) :
    lookup k m = none := by
  induction m with
  | nil => rfl
  | cons p r ih =>
    obtain ⟨a, b⟩ := p
    simp only [List.map_cons, List.mem_cons, not_or] at h
    have : ¬ a = k := fun e => h.1 e.symm
    simp [lookup, this, ih h.2]

theorem mem_keys_of_lookup {β : Type} (k : Key) (m : List (Key × β)) (v : β) (h : lookup k m = some v) :
    k ∈ m.map Prod.fst := by
  apply Classical.byContradiction
  intro hn
  rw [lookup_none_of_not_mem k m hn] at h
  cases h

theorem lookup_reverse {β : Type} (k : Key) (m : List (Key × β)) (hd : Distinct m) :
    lookup k m.reverse = lookup k m := by
  induction m with
  | nil => rfl
  | cons p r ih =>
    obtain ⟨a, b⟩ := p
    simp only [Distinct, List.map_cons, List.nodup_cons] at hd
    rw [List.reverse_cons, lookup_append, ih hd.2]
    by_cases h : a = k
    · subst h
      simp [lookup, lookup_none_of_not_mem a r hd.1]
    · cases hr : lookup k r <;> simp [lookup, h, hr]

theorem keys_insert {β : Type} (k : Key) (v : β) (m : List (Key × β)) :
    ∀ x, x ∈ (insert k v m).map Prod.fst ↔ x = k ∨ x ∈ m.map Prod.fst := by
  induction m with
  | nil => simp [insert]
  | cons p r ih =>
    obtain ⟨a, b⟩ := p
    intro x
    by_cases h : a = k
    · subst h; simp [insert]
    · simp only [insert, h, if_false, List.map_cons, List.mem_cons, ih x]
      constructor
      · rintro (h1 | h1 | h1) <;> simp [h1]
      · rintro (h1 | h1 | h1) <;> simp [h1]

theorem distinct_insert {β : Type} (k : Key) (v : β) (m : List (Key × β)) (hd : Distinct m) :
    Distinct (insert k v m) := by
  induction m with
  | nil => simp [insert, Distinct]
  | cons p r ih =>
    obtain ⟨a, b⟩ := p
    simp only [Distinct, List.map_cons, List.nodup_cons] at hd
    by_cases h : a = k
    · subst h; simpa [insert, Distinct] using hd
    · simp only [insert, h, if_false, Distinct, List.map_cons, List.nodup_cons]
      refine ⟨?_, ih hd.2⟩
      intro hm
      rcases (keys_insert k v r a).1 hm with h1 | h1
      · exact h h1
      · exact hd.1 h1

/-- `OverrideBy` pointwise: the *last* binding of `k` in `other`, else the old one -/
theorem lookup_overrideBy_rev {β : Type} (k : Key) (m other : List (Key × β)) :
    lookup k (overrideBy m other) = match lookup k other.reverse with | some v => some v | none => lookup k m := by
  induction other generalizing m with
  | nil => rfl
  | cons p r ih =>
    obtain ⟨a, b⟩ := p
    show lookup k (overrideBy (insert a b m) r) = _
    rw [ih, List.reverse_cons, lookup_append, lookup_insert]
    cases lookup k r.reverse with
    | some v => rfl
    | none => by_cases h : a = k <;> simp [lookup, h]

/-- `OverrideBy` pointwise for Go maps (distinct keys): `other` wins where it has the key -/
theorem lookup_overrideBy {β : Type} (k : Key) (m other : List (Key × β)) (hd : Distinct other) :
    lookup k (overrideBy m other) = match lookup k other with | some v => some v | none => lookup k m := by
  rw [lookup_overrideBy_rev, lookup_reverse k other hd]

theorem distinct_overrideBy {β : Type} (m other : List (Key × β)) (hd : Distinct m) : Distinct (overrideBy m other) := by
  induction other generalizing m with
  | nil => exact hd
  | cons p r ih => exact ih _ (distinct_insert _ _ _ hd)

theorem lookup_toMWE (k : Key) (m : List (Key × Str)) : lookup k (toMWE m) = (lookup k m).map some := by
  induction m with
  | nil => rfl
  | cons p r ih =>
    obtain ⟨a, b⟩ := p
    by_cases h : a = k <;> simp [toMWE, lookup, h]
    simpa [toMWE] using ih

theorem distinct_toMWE (m : List (Key × Str)) (hd : Distinct m) : Distinct (toMWE m) := by
  simpa [Distinct, toMWE, List.map_map, Function.comp_def] using hd

theorem lookup_resolveMWE (look : Look) (k : Key) (m : List (Key × Option Str)) :
    lookup k (resolveMWE look m) = (lookup k m).map fun v => match v with | none => look k | some x => some x := by
  induction m with
  | nil => rfl
  | cons p r ih =>
    obtain ⟨a, b⟩ := p
    by_cases h : a = k
    · subst h; cases b <;> simp [resolveMWE, lookup]
    · cases b <;> simp [resolveMWE, lookup, h] <;> simpa [resolveMWE] using ih

theorem distinct_resolveMWE (look : Look) (m : List (Key × Option Str)) (hd : Distinct m) : Distinct (resolveMWE look m) := by
  have : (resolveMWE look m).map Prod.fst = m.map Prod.fst := by
    simp only [resolveMWE, List.map_map]
    apply List.map_congr_left
    intro p _
    obtain ⟨a, b⟩ := p
    cases b <;> rfl
  simpa [Distinct, this] using hd

theorem keys_ofMWE_subset (m : List (Key × Option Str)) :
    ∀ x, x ∈ (ofMWE m).map Prod.fst → x ∈ m.map Prod.fst := by
  induction m with
  | nil => intro x h; simp [ofMWE] at h
  | cons p r ih =>
    obtain ⟨a, b⟩ := p
    intro x h
    cases b with
    | none =>
      have : ofMWE ((a, none) :: r) = ofMWE r := by simp [ofMWE]
      rw [this] at h
      exact List.mem_cons_of_mem _ (ih x h)
    | some v =>
      have : ofMWE ((a, some v) :: r) = (a, v) :: ofMWE r := by simp [ofMWE]
      rw [this] at h
      simp only [List.map_cons, List.mem_cons] at h ⊢
      rcases h with h | h
      · exact Or.inl h
      · exact Or.inr (ih x h)

/-- `NewLabelsFromMappingWithEquals` pointwise (Go map: distinct keys) -/
theorem lookup_ofMWE (k : Key) (m : List (Key × Option Str)) (hd : Distinct m) :
    lookup k (ofMWE m) = match lookup k m with | some (some v) => some v | _ => none := by
  induction m with
  | nil => rfl
  | cons p r ih =>
    obtain ⟨a, b⟩ := p
    simp only [Distinct, List.map_cons, List.nodup_cons] at hd
    cases b with
    | none =>
      have e : ofMWE ((a, none) :: r) = ofMWE r := by simp [ofMWE]
      rw [e]
      by_cases h : a = k
      · subst h
        rw [lookup_none_of_not_mem a (ofMWE r) (fun hm => hd.1 (keys_ofMWE_subset r a hm))]
        simp [lookup]
      · rw [ih hd.2]; simp [lookup, h]
    | some v =>
      have e : ofMWE ((a, some v) :: r) = (a, v) :: ofMWE r := by simp [ofMWE]
      rw [e]
      by_cases h : a = k
      · subst h; simp [lookup]
      · simp only [lookup, h, if_false]; exact ih hd.2

/-! ### `parseLines` against `fileValRevFrom` -/

theorem fileValRevFrom_append (look : Look) (base : Key → Option Str) (l1 l2 : List Line) :
    ∀ k, fileValRevFrom look base (l1 ++ l2) k = fileValRevFrom look (fileValRevFrom look base l2) l1 k := by
  induction l1 with
  | nil => intro k; rfl
  | cons x r ih =>
    intro k
    cases x with
    | assign k' v => simp only [List.cons_append, fileValRevFrom, ih]
    | bare k' => simp only [List.cons_append, fileValRevFrom, ih]
    | bad => simp only [List.cons_append, fileValRevFrom, ih]

theorem withFile_eq (look : Look) (out : List (Key × Str)) :
    withFile look out = fun n => orElse (look n) (lookup n out) := by
  funext n
  unfold withFile orElse
  cases look n <;> rfl

theorem parseLines_distinct (look : Look) (ls : List Line) (out res : List (Key × Str))
    (hd : Distinct out) (h : parseLines look ls out = .ok res) : Distinct res := by
  induction ls generalizing out with
  | nil => simp only [parseLines, Except.ok.injEq] at h; exact h ▸ hd
  | cons x r ih =>
    cases x with
    | assign k v =>
      simp only [parseLines] at h
      cases hv : evalValue (withFile look out) v with
      | ok val => rw [hv] at h; exact ih _ (distinct_insert _ _ _ hd) h
      | error e => rw [hv] at h; cases h
    | bare k =>
      simp only [parseLines] at h
      cases hl : look k with
      | some v => rw [hl] at h; exact ih _ (distinct_insert _ _ _ hd) h
      | none => rw [hl] at h; exact ih _ hd h
    | bad => simp [parseLines] at h

/-- the model's evaluation of a well-formed value (C07's model of `template.Substitute` on its rendering) is what
    the grammar says (C07's `subst_render`) -/
theorem evalValue_spec (look : Look) (v : List Seg) (val : Str) (hwf : CV.Template.WF v = true)
    (h : evalValue look v = .ok val) : val = specValue look v := by
  unfold evalValue at h
  rw [CV.Template.subst_render look v hwf] at h
  unfold CV.Template.evalOut at h
  unfold specValue
  cases he : CV.Template.evalL look v with
  | ok s => rw [he] at h; simp only [Except.ok.injEq] at h; exact h.symm
  | error e => rw [he] at h; cases h

theorem evalValue_never_panics (look : Look) (v : List Seg) : evalValue look v ≠ .error .panic := by
  unfold evalValue
  cases h : CV.Template.subst look (CV.Template.renderL v) with
  | ok s => simp
  | err e => simp
  | panic p => exact absurd h (CV.Template.subst_never_panics look _ p)

/-- decidable form of `WFLines` -/
def wfLinesB (ls : List Line) : Bool :=
  ls.all fun l => match l with
    | .assign _ v => CV.Template.WF v
    | _ => true

theorem wfLines_of_B (ls : List Line) (h : wfLinesB ls = true) : WFLines ls := by
  intro k v hm
  have := List.all_eq_true.1 h _ hm
  simpa using this

theorem wfLines_cons (x : Line) (r : List Line) (h : WFLines (x :: r)) : WFLines r :=
  fun k v hm => h k v (List.mem_cons_of_mem _ hm)

/-- the forward loop of the parser computes the backward-recursive specification -/
theorem parseLines_spec (look : Look) (ls : List Line) (out res : List (Key × Str)) (hwf : WFLines ls)
    (h : parseLines look ls out = .ok res) :
    ∀ k, lookup k res = fileValRevFrom look (fun n => lookup n out) ls.reverse k := by
  induction ls generalizing out with
  | nil => intro k; simp only [parseLines, Except.ok.injEq] at h; subst h; rfl
  | cons x r ih =>
    intro k
    rw [List.reverse_cons, fileValRevFrom_append]
    have hwr := wfLines_cons x r hwf
    cases x with
    | assign k' v =>
      simp only [parseLines] at h
      cases hv : evalValue (withFile look out) v with
      | error e => rw [hv] at h; cases h
      | ok val =>
        rw [hv] at h
        rw [ih _ hwr h k]
        congr 1
        funext n
        have := evalValue_spec _ v val (hwf k' v List.mem_cons_self) hv
        simp only [fileValRevFrom, lookup_insert, this, withFile_eq]
    | bare k' =>
      simp only [parseLines] at h
      cases hl : look k' with
      | some v =>
        rw [hl] at h
        rw [ih _ hwr h k]
        congr 1
        funext n
        simp only [fileValRevFrom, lookup_insert]
        by_cases e : k' = n
        · subst e; simp [hl, orElse]
        · simp [e]
      | none =>
        rw [hl] at h
        rw [ih _ hwr h k]
        congr 1
        funext n
        simp only [fileValRevFrom]
        by_cases e : k' = n
        · subst e; simp [hl, orElse]
        · simp [e]
    | bad => simp [parseLines] at h

/-- a file is rejected only for a rejected line or a value whose substitution fails -/
theorem parseLines_err (look : Look) (ls : List Line) (out : List (Key × Str)) (e : Err)
    (h : parseLines look ls out = .error e) : e = .parse ∨ e = .template := by
  induction ls generalizing out with
  | nil => simp [parseLines] at h
  | cons x r ih =>
    cases x with
    | assign k v =>
      simp only [parseLines] at h
      cases hv : evalValue (withFile look out) v with
      | ok val => rw [hv] at h; exact ih _ h
      | error e' =>
        rw [hv] at h
        simp only [Except.error.injEq] at h
        subst h
        unfold evalValue at hv
        cases hs : CV.Template.subst (withFile look out) (CV.Template.renderL v) with
        | ok s => rw [hs] at hv; cases hv
        | err _ => rw [hs] at hv; simp only [Except.error.injEq] at hv; exact Or.inr hv.symm
        | panic p => exact absurd hs (CV.Template.subst_never_panics _ _ p)
    | bare k =>
      simp only [parseLines] at h
      cases hl : look k <;> rw [hl] at h <;> exact ih _ h
    | bad => simp only [parseLines, Except.error.injEq] at h; exact Or.inl h.symm

/-! ### the loop over env files against `filesValRevFrom` -/

theorem filesValRevFrom_append (penv : List (Key × Str)) (base : Key → Option Str) (l1 l2 : List (List Line)) :
    ∀ k, filesValRevFrom penv base (l1 ++ l2) k = filesValRevFrom penv (filesValRevFrom penv base l2) l1 k := by
  induction l1 with
  | nil => intro k; rfl
  | cons x r ih =>
    intro k
    have e : filesValRevFrom penv base (r ++ l2) = filesValRevFrom penv (filesValRevFrom penv base l2) r := funext ih
    simp only [List.cons_append, filesValRevFrom, e]

theorem labelFilesValRevFrom_append (base : Key → Option Str) (l1 l2 : List (List Line)) :
    ∀ k, labelFilesValRevFrom base (l1 ++ l2) k = labelFilesValRevFrom (labelFilesValRevFrom base l2) l1 k := by
  induction l1 with
  | nil => intro k; rfl
  | cons x r ih =>
    intro k
    have e : labelFilesValRevFrom base (r ++ l2) = labelFilesValRevFrom (labelFilesValRevFrom base l2) r := funext ih
    simp only [List.cons_append, labelFilesValRevFrom, e]

theorem envChain_eq (penv acc : List (Key × Str)) :
    envChain penv acc = envLook penv (fun n => lookup n acc) := by
  funext n
  show (match lookup n acc with | some v => some v | none => lookup n penv) = orElse (lookup n acc) (lookup n penv)
  unfold orElse
  cases lookup n acc <;> rfl

/-- what a successful `loadEnvFile` did -/
theorem loadEnvFile_ok (fs : FS) (f : EnvFile) (look : Look) (vars : List (Key × Str))
    (hreg : DefaultFormats fs) (h : loadEnvFile fs f look = .ok vars) :
    (Missing fs f.path ∧ f.required = false ∧ vars = []) ∨
    (∃ ls, fs f.path = some (.file ls) ∧ f.format = [] ∧ parseLines look ls [] = .ok vars) := by
  unfold loadEnvFile at h
  cases hp : fs f.path with
  | none =>
    rw [hp] at h
    cases hr : f.required <;> simp [hr] at h
    exact Or.inl ⟨Or.inl hp, rfl, h⟩
  | some nd =>
    rw [hp] at h
    cases nd with
    | notdir =>
      cases hr : f.required <;> simp [hr] at h
      exact Or.inl ⟨Or.inr hp, rfl, h⟩
    | dir =>
      simp only [loadMappingFile, hp] at h
      by_cases hf : f.format = [] <;> simp [hf, parseWithFormat, hreg f.format] at h
    | file ls =>
      simp only [loadMappingFile, hp] at h
      by_cases hf : f.format = []
      · simp only [hf, ne_eq, not_true_eq_false, if_false] at h
        exact Or.inr ⟨ls, rfl, hf, h⟩
      · simp [hf, parseWithFormat, hreg f.format] at h

theorem loadEnvFile_missing (fs : FS) (f : EnvFile) (look : Look) (hm : Missing fs f.path) :
    loadEnvFile fs f look = if f.required then .error .notFound else .ok [] := by
  unfold loadEnvFile
  rcases hm with hm | hm <;> rw [hm]

theorem loadLabelFile_ok (fs : FS) (p : Str) (look : Look) (vars : List (Key × Str))
    (h : loadLabelFile fs p look = .ok vars) :
    ∃ ls, fs p = some (.file ls) ∧ parseLines look ls [] = .ok vars := by
  unfold loadLabelFile at h
  cases hp : fs p with
  | none => rw [hp] at h; simp at h
  | some nd =>
    rw [hp] at h
    cases nd with
    | notdir => simp at h
    | dir => simp [loadMappingFile, hp] at h
    | file ls =>
      simp only [loadMappingFile, hp, ne_eq, not_true_eq_false, if_false] at h
      exact ⟨ls, rfl, h⟩

theorem loadLabelFile_missing (fs : FS) (p : Str) (look : Look) (hm : Missing fs p) :
    loadLabelFile fs p look = .error .notFound := by
  unfold loadLabelFile
  rcases hm with hm | hm <;> rw [hm]

theorem distinct_nil {β : Type} : Distinct ([] : List (Key × β)) := by simp [Distinct]

theorem lookup_parsed (look : Look) (ls : List Line) (vars : List (Key × Str)) (hwf : WFLines ls)
    (h : parseLines look ls [] = .ok vars) (k : Key) : lookup k vars = fileVal look ls k :=
  parseLines_spec look ls [] vars hwf h k

theorem lookup_overrideBy_str (k : Key) (m other : List (Key × Str)) (hd : Distinct other) :
    lookup k (overrideBy m other) = orElse (lookup k other) (lookup k m) := by
  rw [lookup_overrideBy k m other hd]
  unfold orElse
  cases lookup k other <;> rfl

theorem loadEnvFiles_spec (penv : List (Key × Str)) (fs : FS) (efs : List EnvFile) (acc res : List (Key × Str))
    (hwf : WFFS fs) (hd : Distinct acc) (h : loadEnvFiles penv fs efs acc = .ok res) :
    Distinct res ∧ ∀ k, lookup k res = filesValRevFrom penv (fun n => lookup n acc) (envContents fs efs).reverse k := by
  induction efs generalizing acc with
  | nil =>
    simp only [loadEnvFiles, Except.ok.injEq] at h
    subst h
    exact ⟨hd, fun k => rfl⟩
  | cons f r ih =>
    simp only [loadEnvFiles] at h
    cases hl : loadEnvFile fs f (envChain penv acc) with
    | error e => rw [hl] at h; cases h
    | ok vars =>
      rw [hl] at h
      simp only at h
      rcases loadEnvFile_ok fs f _ vars hwf.2 hl with ⟨hp, _, hv⟩ | ⟨ls, hp, _, hparse⟩
      · subst hv
        have := ih acc hd h
        refine ⟨this.1, fun k => ?_⟩
        rw [this.2 k]
        rcases hp with hp | hp <;> simp [envContents, hp]
      · have hdv : Distinct vars := parseLines_distinct _ _ _ _ distinct_nil hparse
        have := ih _ (distinct_overrideBy acc vars hd) h
        refine ⟨this.1, fun k => ?_⟩
        rw [this.2 k]
        have hc : envContents fs (f :: r) = ls :: envContents fs r := by simp [envContents, hp]
        rw [hc, List.reverse_cons, filesValRevFrom_append]
        congr 1
        funext n
        simp only [filesValRevFrom]
        rw [lookup_overrideBy_str n acc vars hdv, lookup_parsed _ _ _ (hwf.1 _ _ hp) hparse, envChain_eq]

theorem loadLabelFiles_spec (fs : FS) (paths : List Str) (acc res : List (Key × Str))
    (hwf : WFFS fs) (hd : Distinct acc) (h : loadLabelFiles fs paths acc = .ok res) :
    Distinct res ∧ ∀ k, lookup k res = labelFilesValRevFrom (fun n => lookup n acc) (labelContents fs paths).reverse k := by
  induction paths generalizing acc with
  | nil =>
    simp only [loadLabelFiles, Except.ok.injEq] at h
    subst h
    exact ⟨hd, fun k => rfl⟩
  | cons f r ih =>
    simp only [loadLabelFiles] at h
    cases hl : loadLabelFile fs f (labelChain acc) with
    | error e => rw [hl] at h; cases h
    | ok vars =>
      rw [hl] at h
      simp only at h
      obtain ⟨ls, hp, hparse⟩ := loadLabelFile_ok fs f _ vars hl
      have hdv : Distinct vars := parseLines_distinct _ _ _ _ distinct_nil hparse
      have := ih _ (distinct_overrideBy acc vars hd) h
      refine ⟨this.1, fun k => ?_⟩
      rw [this.2 k]
      have hc : labelContents fs (f :: r) = ls :: labelContents fs r := by simp [labelContents, hp]
      rw [hc, List.reverse_cons, labelFilesValRevFrom_append]
      congr 1
      funext n
      simp only [labelFilesValRevFrom]
      rw [lookup_overrideBy_str n acc vars hdv, lookup_parsed _ _ _ (hwf.1 _ _ hp) hparse]
      rfl

/-! ### snoc forms, lines that do not mention a key, appending file lists -/

/-- the environment of the files alone (no `environment` entry for `k`): the last file that gives `k` a value wins -/
theorem filesVal_snoc (penv : List (Key × Str)) (files : List (List Line)) (f : List Line) (k : Key) :
    filesVal penv (files ++ [f]) k =
      orElse (fileVal (envLook penv (filesVal penv files)) f k) (filesVal penv files k) := by
  simp only [filesVal, List.reverse_append, List.reverse_cons, List.reverse_nil, List.nil_append,
    List.cons_append, filesValRevFrom]
  rfl

/-- a line speaks about key `k` -/
def Line.key? : Line → Option Key
  | .assign k _ => some k
  | .bare k => some k
  | .bad => none

def Mentions (ls : List Line) (k : Key) : Prop := ∃ l ∈ ls, Line.key? l = some k

theorem fileValRevFrom_not_mentions (look : Look) (base : Key → Option Str) (ls : List Line) (k : Key)
    (h : ¬ Mentions ls k) : fileValRevFrom look base ls k = base k := by
  induction ls with
  | nil => rfl
  | cons x r ih =>
    have hr : ¬ Mentions r k := fun ⟨l, hl, e⟩ => h ⟨l, List.mem_cons_of_mem _ hl, e⟩
    cases x with
    | assign k' v =>
      have : ¬ k' = k := fun e => h ⟨_, List.mem_cons_self, by simp [Line.key?, e]⟩
      simp [fileValRevFrom, this, ih hr]
    | bare k' =>
      have : ¬ k' = k := fun e => h ⟨_, List.mem_cons_self, by simp [Line.key?, e]⟩
      simp [fileValRevFrom, this, ih hr]
    | bad => simp [fileValRevFrom, ih hr]

/-- a file that does not mention `k` gives it no value -/
theorem fileVal_not_mentions (look : Look) (ls : List Line) (k : Key) (h : ¬ Mentions ls k) :
    fileVal look ls k = none := by
  unfold fileVal
  rw [fileValRevFrom_not_mentions]
  intro ⟨l, hl, e⟩
  exact h ⟨l, List.mem_reverse.1 hl, e⟩

theorem filesVal_append_not_mentions (penv : List (Key × Str)) (files post : List (List Line)) (k : Key)
    (h : ∀ g ∈ post, ¬ Mentions g k) : filesVal penv (files ++ post) k = filesVal penv files k := by
  induction post generalizing files with
  | nil => simp
  | cons g r ih =>
    have e : files ++ g :: r = (files ++ [g]) ++ r := by simp
    rw [e, ih _ (fun g' hg' => h g' (List.mem_cons_of_mem _ hg')), filesVal_snoc,
      fileVal_not_mentions _ _ _ (h g List.mem_cons_self)]
    rfl

theorem labelFilesVal_snoc (files : List (List Line)) (f : List Line) (k : Key) :
    labelFilesVal (files ++ [f]) k = orElse (fileVal (labelFilesVal files) f k) (labelFilesVal files k) := by
  simp only [labelFilesVal, List.reverse_append, List.reverse_cons, List.reverse_nil, List.nil_append,
    List.cons_append, labelFilesValRevFrom]
  rfl

theorem loadEnvFiles_append (penv : List (Key × Str)) (fs : FS) (a b : List EnvFile) (acc : List (Key × Str)) :
    loadEnvFiles penv fs (a ++ b) acc =
      match loadEnvFiles penv fs a acc with
      | .error e => .error e
      | .ok acc' => loadEnvFiles penv fs b acc' := by
  induction a generalizing acc with
  | nil => rfl
  | cons f r ih =>
    simp only [List.cons_append, loadEnvFiles]
    cases loadEnvFile fs f (envChain penv acc) with
    | error e => rfl
    | ok vars => exact ih _

/-! ### the fold over ordered layers -/

theorem pickFrom_fileLayers (penv : List (Key × Str)) (pre files : List (List Line)) (k : Key) :
    pickFrom ((filesVal penv pre k).map some) (fileLayersFrom penv pre files) k =
      (filesVal penv (pre ++ files) k).map some := by
  induction files generalizing pre with
  | nil => simp [fileLayersFrom, pickFrom]
  | cons f r ih =>
    have e : pre ++ f :: r = (pre ++ [f]) ++ r := by simp
    rw [e, ← ih (pre ++ [f])]
    simp only [fileLayersFrom, pickFrom, List.foldl_cons]
    congr 1
    rw [filesVal_snoc]
    cases fileVal (envLook penv (filesVal penv pre)) f k <;> rfl

/-! ### all services -/

theorem collect_cons_ok {α : Type} (n : Str) (a : α) (rs : List (Str × Except Err α)) :
    collect ((n, Except.ok a) :: rs) = match collect rs with
      | .ok r => .ok ((n, a) :: r)
      | .error es => .error es := by
  simp only [collect, List.filterMap_cons]
  split <;> rename_i hh <;> simp [hh]

theorem collect_cons_err {α : Type} (n : Str) (e : Err) (rs : List (Str × Except Err α)) :
    ∃ es, collect ((n, Except.error e) :: rs) = .error (e :: es) := by
  simp [collect, List.filterMap_cons]

theorem collect_ok {α : Type} (rs : List (Str × Except Err α)) (r : List (Str × α)) (h : collect rs = .ok r) :
    rs = r.map fun p => (p.1, Except.ok p.2) := by
  induction rs generalizing r with
  | nil => simp [collect] at h; subst h; rfl
  | cons x rest ih =>
    obtain ⟨n, res⟩ := x
    cases res with
    | error e =>
      obtain ⟨es, he⟩ := collect_cons_err n e rest
      rw [he] at h; cases h
    | ok a =>
      rw [collect_cons_ok] at h
      cases hc : collect rest with
      | error es => rw [hc] at h; cases h
      | ok r' =>
        rw [hc] at h
        simp only [Except.ok.injEq] at h
        subst h
        simp [ih r' hc]

theorem collect_err {α : Type} (rs : List (Str × Except Err α)) (es : List Err) (h : collect rs = .error es) :
    es ≠ [] ∧ ∀ e ∈ es, ∃ n, (n, Except.error e) ∈ rs := by
  simp only [collect] at h
  split at h
  · cases h
  · rename_i hne
    simp only [Except.error.injEq] at h
    subst h
    refine ⟨fun e => hne (by simp [e]), fun e he => ?_⟩
    obtain ⟨p, hp, hpe⟩ := List.mem_filterMap.1 he
    obtain ⟨n, res⟩ := p
    cases res with
    | ok _ => simp at hpe
    | error e' =>
      simp only [Option.some.injEq] at hpe
      subst hpe
      exact ⟨n, hp⟩

/-! ### Go map iteration order -/

theorem distinct_perm {β : Type} (m m' : List (Key × β)) (hd : Distinct m) (hp : m.Perm m') : Distinct m' :=
  ((hp.map Prod.fst).nodup_iff).1 hd

/-- lookups in a Go map do not depend on the order its entries are listed in -/
theorem lookup_perm {β : Type} (k : Key) (m m' : List (Key × β)) (hd : Distinct m) (hp : m.Perm m') :
    lookup k m = lookup k m' := by
  induction hp with
  | nil => rfl
  | cons x _ ih =>
    obtain ⟨a, b⟩ := x
    simp only [Distinct, List.map_cons, List.nodup_cons] at hd
    simp only [lookup, ih hd.2]
  | swap x y l =>
    obtain ⟨a, b⟩ := x
    obtain ⟨c, d⟩ := y
    simp only [Distinct, List.map_cons, List.nodup_cons, List.mem_cons, not_or] at hd
    by_cases h1 : a = k
    · have : ¬ c = k := fun e => hd.1.1 (e.trans h1.symm)
      simp [lookup, h1, this]
    · by_cases h2 : c = k <;> simp [lookup, h1, h2]
  | trans h1 _ ih1 ih2 => exact (ih1 hd).trans (ih2 (distinct_perm _ _ hd h1))

theorem loadEnvFiles_congr_penv (penv penv' : List (Key × Str)) (fs : FS) (h : ∀ n, lookup n penv = lookup n penv')
    (efs : List EnvFile) (acc : List (Key × Str)) :
    loadEnvFiles penv fs efs acc = loadEnvFiles penv' fs efs acc := by
  have e : ∀ acc, envChain penv acc = envChain penv' acc := by
    intro acc; funext n; simp only [envChain, h]
  induction efs generalizing acc with
  | nil => rfl
  | cons f r ih =>
    simp only [loadEnvFiles, e]
    cases loadEnvFile fs f (envChain penv' acc) with
    | error _ => rfl
    | ok vars => exact ih _

/-! ### any iteration order -/

theorem MapEq.refl {β : Type} (m : List (Key × β)) : MapEq m m := fun _ => rfl
theorem MapEq.symm {β : Type} {m m' : List (Key × β)} (h : MapEq m m') : MapEq m' m := fun k => (h k).symm
theorem MapEq.trans {β : Type} {a b c : List (Key × β)} (h1 : MapEq a b) (h2 : MapEq b c) : MapEq a c :=
  fun k => (h1 k).trans (h2 k)

theorem mapEq_of_perm {β : Type} (m m' : List (Key × β)) (hd : Distinct m) (hp : m.Perm m') : MapEq m m' :=
  fun k => lookup_perm k m m' hd hp

/-- `OverrideBy` respects map equality of the receiver and any listing of a Go map argument -/
theorem overrideBy_congr {β : Type} (m m0 other other' : List (Key × β)) (hm : MapEq m m0) (hd : Distinct other)
    (hp : other.Perm other') : MapEq (overrideBy m other') (overrideBy m0 other) := by
  intro k
  rw [lookup_overrideBy k m other' (distinct_perm _ _ hd hp), lookup_overrideBy k m0 other hd,
    ← lookup_perm k other other' hd hp, hm k]

theorem overrideBy_congr_arg {β : Type} (m other other2 : List (Key × β)) (hd : Distinct other) (hd2 : Distinct other2)
    (h : MapEq other other2) : MapEq (overrideBy m other) (overrideBy m other2) := by
  intro k
  rw [lookup_overrideBy k m other hd, lookup_overrideBy k m other2 hd2, h k]

theorem rangeOverride_sound {β : Type} (m m0 other res : List (Key × β)) (hm : MapEq m m0) (hd : Distinct other)
    (h : RangeOverride m other res) : Distinct res ∧ MapEq res (overrideBy m0 other) := by
  obtain ⟨other', hp, hdr, hres⟩ := h
  exact ⟨hdr, hres.trans (overrideBy_congr m m0 other other' hm hd hp)⟩

theorem rangeResolve_sound (look : Look) (m res : List (Key × Option Str)) (hd : Distinct m)
    (h : RangeResolve look m res) : Distinct res ∧ MapEq res (resolveMWE look m) := by
  obtain ⟨m', hp, hdr, hres⟩ := h
  refine ⟨hdr, fun k => ?_⟩
  rw [hres k, lookup_resolveMWE, lookup_resolveMWE, ← lookup_perm k m m' hd hp]

theorem mapEq_toMWE (a b : List (Key × Str)) (h : MapEq a b) : MapEq (toMWE a) (toMWE b) := by
  intro k; rw [lookup_toMWE, lookup_toMWE, h k]

theorem loadEnvFile_distinct (fs : FS) (f : EnvFile) (look : Look) (vars : List (Key × Str))
    (hreg : DefaultFormats fs) (h : loadEnvFile fs f look = .ok vars) : Distinct vars := by
  rcases loadEnvFile_ok fs f look vars hreg h with ⟨_, _, hv⟩ | ⟨ls, _, _, hp⟩
  · subst hv; exact distinct_nil
  · exact parseLines_distinct _ _ _ _ distinct_nil hp

theorem loadLabelFile_distinct (fs : FS) (p : Str) (look : Look) (vars : List (Key × Str))
    (h : loadLabelFile fs p look = .ok vars) : Distinct vars := by
  obtain ⟨ls, _, hp⟩ := loadLabelFile_ok fs p look vars h
  exact parseLines_distinct _ _ _ _ distinct_nil hp

theorem envChain_congr (penv acc acc0 : List (Key × Str)) (h : MapEq acc acc0) : envChain penv acc = envChain penv acc0 := by
  funext n; simp only [envChain, h n]

theorem labelChain_congr (acc acc0 : List (Key × Str)) (h : MapEq acc acc0) : labelChain acc = labelChain acc0 := by
  funext n; simp only [labelChain, h n]

/-- the list-order loop, generically (`loadEnvFiles` / `loadLabelFiles` are instances) -/
def filesLoop {α : Type} (load : α → Look → Except Err (List (Key × Str))) (chain : List (Key × Str) → Look) :
    List α → List (Key × Str) → Except Err (List (Key × Str))
  | [], acc => .ok acc
  | f :: r, acc =>
    match load f (chain acc) with
    | .error e => .error e
    | .ok vars => filesLoop load chain r (overrideBy acc vars)

theorem loadEnvFiles_eq_filesLoop (penv : List (Key × Str)) (fs : FS) (efs : List EnvFile) (acc : List (Key × Str)) :
    loadEnvFiles penv fs efs acc = filesLoop (loadEnvFile fs) (envChain penv) efs acc := by
  induction efs generalizing acc with
  | nil => rfl
  | cons f r ih =>
    simp only [loadEnvFiles, filesLoop]
    cases loadEnvFile fs f (envChain penv acc) with
    | error e => rfl
    | ok vars => exact ih _

theorem loadLabelFiles_eq_filesLoop (fs : FS) (ps : List Str) (acc : List (Key × Str)) :
    loadLabelFiles fs ps acc = filesLoop (loadLabelFile fs) labelChain ps acc := by
  induction ps generalizing acc with
  | nil => rfl
  | cons f r ih =>
    simp only [loadLabelFiles, filesLoop]
    cases loadLabelFile fs f (labelChain acc) with
    | error e => rfl
    | ok vars => exact ih _

/-- how an any-order outcome relates to the list-order outcome -/
def Agrees {β : Type} (a b : Except Err (List (Key × β))) : Prop :=
  match a, b with
  | .ok x, .ok y => MapEq x y
  | .error e, .error e' => e = e'
  | _, _ => False

theorem filesRun_agrees {α : Type} (load : α → Look → Except Err (List (Key × Str))) (chain : List (Key × Str) → Look)
    (hchain : ∀ a b, MapEq a b → chain a = chain b)
    (hdist : ∀ f look vars, load f look = .ok vars → Distinct vars)
    (fsl : List α) (acc : List (Key × Str)) (res : Except Err (List (Key × Str)))
    (h : FilesRun load chain fsl acc res) (acc0 : List (Key × Str)) (hacc : MapEq acc acc0) :
    Agrees res (filesLoop load chain fsl acc0) := by
  induction h generalizing acc0 with
  | nil acc => exact hacc
  | fail f r acc e hl =>
    simp only [filesLoop, ← hchain _ _ hacc, hl]
    rfl
  | step f r acc vars acc1 res hl ho _ ih =>
    simp only [filesLoop, ← hchain _ _ hacc, hl]
    exact ih _ (rangeOverride_sound acc acc0 vars acc1 hacc (hdist _ _ _ hl) ho).2

/-! ### value-less entries resolved while loading -/

/-- how `Resolve` sees one value of key `k` -/
def rv (penv : List (Key × Str)) (k : Key) (v : Option Str) : Option Str :=
  match v with
  | none => lookup k penv
  | some x => some x

theorem rv_idem (penv : List (Key × Str)) (k : Key) (v : Option Str) : rv penv k (rv penv k v) = rv penv k v := by
  cases v with
  | some x => rfl
  | none =>
    simp only [rv]
    cases h : lookup k penv <;> simp

theorem lookup_resolveMWE_rv (penv : List (Key × Str)) (k : Key) (m : List (Key × Option Str)) :
    lookup k (resolveMWE (fun n => lookup n penv) m) = (lookup k m).map (rv penv k) := by
  rw [lookup_resolveMWE]
  cases lookup k m with
  | none => rfl
  | some v => cases v <;> rfl

theorem finalEnv_eq_rv (penv : List (Key × Str)) (files : List (List Line)) (env : List (Key × Option Str)) (k : Key) :
    finalEnv penv files env k =
      match (lookup k env).map (rv penv k) with
      | some x => some x
      | none => (filesVal penv files k).map some := by
  unfold finalEnv
  cases lookup k env with
  | none => rfl
  | some v => cases v <;> rfl

theorem distinct_decodeEnv (y : YEnv) : Distinct (decodeEnv y) := by
  cases y with
  | absent => exact distinct_nil
  | list items => exact distinct_overrideBy _ _ distinct_nil
  | map kvs => exact distinct_overrideBy _ _ distinct_nil

theorem lookup_overrideBy_nil {β : Type} (k : Key) (o : List (Key × β)) :
    lookup k (overrideBy [] o) = lookup k o.reverse := by
  rw [lookup_overrideBy_rev]
  cases lookup k o.reverse <;> rfl

theorem resolveMWE_reverse (look : Look) (m : List (Key × Option Str)) :
    (resolveMWE look m).reverse = resolveMWE look m.reverse := by
  simp [resolveMWE, List.map_reverse]

/-- decoding a resolved list of pairs = resolving the decoded map, pointwise -/
theorem lookup_decode_resolved (penv : List (Key × Str)) (k : Key) (o : List (Key × Option Str)) :
    lookup k (overrideBy [] (resolveMWE (fun n => lookup n penv) o)) = (lookup k (overrideBy [] o)).map (rv penv k) := by
  rw [lookup_overrideBy_nil, lookup_overrideBy_nil, resolveMWE_reverse, lookup_resolveMWE_rv]

theorem normalize_pairs (penv : List (Key × Str)) (items : List Item) :
    (items.map (normalizeItem penv)).map Item.pair = resolveMWE (fun n => lookup n penv) (items.map Item.pair) := by
  induction items with
  | nil => rfl
  | cons it r ih =>
    simp only [List.map_cons, resolveMWE] at ih ⊢
    rw [ih]
    congr 1
    cases it with
    | kv k v => rfl
    | bare k =>
      simp only [Item.pair, normalizeItem]
      cases lookup k penv <;> rfl

theorem lookup_decode_normalize (penv : List (Key × Str)) (y : YEnv) (k : Key) :
    lookup k (decodeEnv (normalizeEnv penv y)) = (lookup k (decodeEnv y)).map (rv penv k) := by
  cases y with
  | absent => rfl
  | list items =>
    simp only [normalizeEnv, decodeEnv]
    rw [normalize_pairs, lookup_decode_resolved]
  | map kvs =>
    simp only [normalizeEnv, decodeEnv]
    have : kvs.map (normalizePair penv) = resolveMWE (fun n => lookup n penv) kvs := by
      simp only [resolveMWE]
      apply List.map_congr_left
      intro p _
      obtain ⟨a, b⟩ := p
      cases b <;> rfl
    rw [this, lookup_decode_resolved]

theorem distinct_decodeEnv' (cfg : LoadCfg) (penv : List (Key × Str)) (y : YEnv) : Distinct (loadedEnv cfg penv y) :=
  distinct_decodeEnv _

/-- project-environment keys never contain `=` (they come from `KEY=VALUE` strings) -/
def NoEqKeys (penv : List (Key × Str)) : Prop := ∀ p ∈ penv, '=' ∉ p.1

theorem lookup_kv_text_none (penv : List (Key × Str)) (h : NoEqKeys penv) (k : Key) (v : Str) :
    lookup (Item.kv k v).text penv = none := by
  apply lookup_none_of_not_mem
  intro hm
  obtain ⟨p, hp, e⟩ := List.mem_map.1 hm
  have := h p hp
  rw [e] at this
  exact this (by simp [Item.text])

/-- with `=`-free project keys, `resolveServicesEnvironment` is `Normalize`'s `resolve` on the sequence form -/
theorem resolveSeqEnv_eq_normalize (penv : List (Key × Str)) (h : NoEqKeys penv) (items : List Item) :
    resolveSeqEnv penv (.list items) = normalizeEnv penv (.list items) := by
  simp only [resolveSeqEnv, normalizeEnv]
  congr 1
  apply List.map_congr_left
  intro it _
  cases it with
  | kv k v => simp only [resolveSeqItem, lookup_kv_text_none penv h k v, normalizeItem]
  | bare k =>
    simp only [resolveSeqItem, Item.text, normalizeItem]

/-- what a whole load decodes, seen through `Resolve`, is the YAML `environment` seen through `Resolve` -/
theorem loadedEnv_rv (cfg : LoadCfg) (penv : List (Key × Str)) (h : NoEqKeys penv) (y : YEnv) (k : Key) :
    (lookup k (loadedEnv cfg penv y)).map (rv penv k) = (lookup k (decodeEnv y)).map (rv penv k) := by
  have idem : ∀ x : Option (Option Str), (x.map (rv penv k)).map (rv penv k) = x.map (rv penv k) := by
    intro x; cases x with
    | none => rfl
    | some v => simp [rv_idem]
  unfold loadedEnv
  cases y with
  | absent => cases cfg.skipNormalization <;> rfl
  | map kvs =>
    cases cfg.skipNormalization with
    | true => rfl
    | false =>
      simp only [resolveSeqEnv, Bool.false_eq_true, if_false]
      rw [lookup_decode_normalize, idem]
  | list items =>
    rw [resolveSeqEnv_eq_normalize penv h]
    cases cfg.skipNormalization with
    | true =>
      simp only [if_true]
      rw [lookup_decode_normalize, idem]
    | false =>
      simp only [Bool.false_eq_true, if_false]
      rw [lookup_decode_normalize, lookup_decode_normalize, idem, idem]

end CV.EnvLayers
