import ComposeVerif.Model.Paths
/-! Totality of the index-based Windows-absolute detection (paths/windows_path.go): no index or slice
expression is ever out of range. -/
namespace CV.Paths

theorem scanShare_total (p : Str) (n : Nat) :
    ∃ m, scanShare p n = some m ∧ (n ≤ p.length → m ≤ p.length) := by
  fun_induction scanShare p n with
  | case1 n h hnone => rw [List.getElem?_eq_getElem h] at hnone; cases hnone
  | case2 n h c hc hs => exact ⟨n, rfl, fun h => h⟩
  | case3 n h c hc hs ih =>
    obtain ⟨m, hm, hle⟩ := ih
    exact ⟨m, hm, fun _ => hle (by omega)⟩
  | case4 n h => exact ⟨n, rfl, fun h => h⟩

theorem uncLoop_total (p : Str) (n : Nat) :
    ∃ m, uncLoop p n = some m ∧ m ≤ p.length := by
  fun_induction uncLoop p n with
  | case1 n h hnone => rw [List.getElem?_eq_getElem (by omega)] at hnone; cases hnone
  | case2 n h c hc hs hnone => rw [List.getElem?_eq_getElem (by omega)] at hnone; cases hnone
  | case3 n h c hc hs hd hds => exact ⟨0, rfl, by omega⟩
  | case4 n h c hc hs d hd hds hdot =>
    obtain ⟨m, hm, hle⟩ := scanShare_total p (n + 1)
    exact ⟨m, hm, hle (by omega)⟩
  | case5 n h c hc hs d hd hds => exact ⟨0, rfl, by omega⟩
  | case6 n h c hc hs ih => exact ih
  | case7 n h => exact ⟨0, rfl, by omega⟩

/-- `volumeNameLen` never indexes out of range, and its result is a valid slice bound -/
theorem volumeNameLen_total (p : Str) : ∃ n, volumeNameLen? p = some n ∧ n ≤ p.length := by
  unfold volumeNameLen?
  split
  · exact ⟨0, rfl, by omega⟩
  · rename_i hlen
    have h0 : p[0]? = some (p[0]'(by omega)) := List.getElem?_eq_getElem (by omega)
    have h1 : p[1]? = some (p[1]'(by omega)) := List.getElem?_eq_getElem (by omega)
    rw [h0, h1]
    simp only
    split
    · exact ⟨2, rfl, by omega⟩
    · split
      · rename_i h5
        split
        · have h2 : p[2]? = some (p[2]'(by omega)) := List.getElem?_eq_getElem (by omega)
          rw [h2]
          simp only
          split
          · exact uncLoop_total p 3
          · exact ⟨0, rfl, by omega⟩
        · exact ⟨0, rfl, by omega⟩
      · exact ⟨0, rfl, by omega⟩

/-- `isWindowsAbs` never panics -/
theorem isWindowsAbs_total (p : Str) : ∃ b, isWindowsAbs? p = some b := by
  obtain ⟨n, hn, hle⟩ := volumeNameLen_total p
  unfold isWindowsAbs?
  rw [hn]
  cases n with
  | zero => exact ⟨false, rfl⟩
  | succ n =>
    simp only
    have : ¬ (n + 1 > p.length) := by omega
    simp only [this, if_false]
    split
    · exact ⟨false, rfl⟩
    · exact ⟨_, rfl⟩

end CV.Paths
