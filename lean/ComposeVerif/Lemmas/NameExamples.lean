import ComposeVerif.Lemmas.NameDotenv
/-! A concrete world family for the non-vacuity examples of `Props/C17.lean`, with the rewriting that lets
`decide` evaluate runs without executing the env-file scanner inside the kernel. -/
namespace CV.Name
open CV CV.Name.Spec

def fa : List (Str × Str) := [("V".toList, "a".toList), ("R".toList, "$V".toList), ("X".toList, "1".toList)]
def fb : List (Str × Str) := [("X".toList, "2".toList), ("S".toList, "$X$R".toList)]
def ft : List (Str × Str) := [("D".toList, "top".toList)]

/-- directory 0 holds the files handed to `NewProjectOptions`; directory 2 (`sub`, the process directory) is a
    child of directory 1 (`Top`), which holds default-named compose files and a `.env` -/
def mkW (os : List String) (given : List CfgRef) (n1 n2 : Str) (dir0 : Str) : World where
  dirs := [{ name := dir0, files := [("c1".toList, [some n1]), ("c2".toList, [some n2])] },
           { name := "Top".toList, dotEnv := some (.file (renderSimple ft)),
             files := [("docker-compose.yml".toList, [none]), ("compose.yaml".toList, [some "top".toList]),
                       ("compose.override.yml".toList, [none])] },
           { name := "sub".toList, parent := some 1 }]
  cwd := 2
  given := given
  paths := [("x.yaml".toList, { dir := 1, file := some "compose.yaml".toList })]
  os := strs os
  envFiles := [("a".toList, .file (renderSimple fa)), ("b".toList, .file (renderSimple fb))]
  probe := "$V$X".toList

def g12 : List CfgRef := [{ dir := 0, file := some "c1".toList }, { dir := 0, file := some "c2".toList }]
def exW : World := mkW ["COMPOSE_PROJECT_NAME=os", "V=o"] g12 "f1".toList "F.2".toList "My.Dir".toList

theorem la (os : List String) (g : List CfgRef) (n1 n2 d : Str) :
    lookupFile (mkW os g n1 n2 d) (.named "a".toList) = some (.file (renderSimple fa)) := by rfl
theorem lb (os : List String) (g : List CfgRef) (n1 n2 d : Str) :
    lookupFile (mkW os g n1 n2 d) (.named "b".toList) = some (.file (renderSimple fb)) := by rfl
theorem lt (os : List String) (g : List CfgRef) (n1 n2 d : Str) :
    lookupFile (mkW os g n1 n2 d) (.default 1) = some (.file (renderSimple ft)) := by rfl

/-- unfold a concrete run down to the grammar evaluator (the scanner is replaced through `parse_render`) -/
macro "eval_run" : tactic => `(tactic|
  (simp only [exW, run, runOpts, applyOpt, withEnvFiles, strs, List.map, getEnvFromFile, la, lb, lt,
     parseFile_renderSimple _ fa (by decide), parseFile_renderSimple _ fb (by decide),
     parseFile_renderSimple _ ft (by decide)]))

def exDoc : List Opt := [.withEnv (strs ["Y=e"]), .withOsEnv, .withEnvFiles (strs ["a", "b"]), .withDotEnv]

def nameOf (r : Except Err Loaded) : Option String := r.toOption.map (fun l => String.ofList l.name)
def errOf (r : Except Err Loaded) : Option Err := match r with | .error e => some e | .ok _ => none
def varOf (k : String) (r : Except Err Loaded) : Option String := r.toOption.bind (fun l => (l.env.get k.toList).map String.ofList)

/-! the world of the boundary witnesses of `Neg/C17.lean` -/

def negFa : List (Str × Str) := [("V".toList, "a".toList), ("X".toList, "1".toList)]
def negFb : List (Str × Str) := [("X".toList, "2".toList), ("S".toList, "$X".toList)]

def negW : World where
  dirs := [{ name := "p".toList, files := [("c".toList, [none])] }]
  given := [{ dir := 0, file := some "c".toList }]
  os := strs ["V=o"]
  envFiles := [("a".toList, .file (renderSimple negFa)), ("b".toList, .file (renderSimple negFb))]
  probe := []

theorem negW_file_a : lookupFile negW (.named "a".toList) = some (.file (renderSimple negFa)) := by decide
theorem negW_file_b : lookupFile negW (.named "b".toList) = some (.file (renderSimple negFb)) := by decide

/-- unfold a concrete run down to the grammar evaluator -/
macro "neg_eval_run" : tactic => `(tactic|
  (simp only [run, runOpts, applyOpt, withEnvFiles, strs, List.map, getEnvFromFile, negW_file_a, negW_file_b,
     parseFile_renderSimple _ negFa (by decide), parseFile_renderSimple _ negFb (by decide)]))


end CV.Name
