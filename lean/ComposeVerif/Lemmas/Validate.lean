import ComposeVerif.Spec.Validate
/-! `validation.Validate` returns nil iff every checked node passes its rule. -/
namespace CV.Validate
open CV CV.TPath

theorem runL_nil_iff (c : Checker) (v : Val) : runL c v = [] ↔ run c v = .ok := by
  unfold runL
  cases run c v <;> simp

theorem checkExternal_ok_iff (kvs : Val.KVs) : checkExternal kvs = .ok ↔ ExternalOK kvs := by
  unfold checkExternal ExternalOK
  cases h : Val.lookup "external" kvs with
  | none => simp
  | some x =>
    cases hb : asBoolean x with
    | none => simp [hb]
    | some b => cases b <;> simp [hb, List.all_eq_true]

theorem run_ok_iff (c : Checker) (w : Val) : run c w = .ok ↔ Passes c w := by
  cases c with
  | volume =>
    simp only [run, Passes]
    cases w <;> simp [checkVolume, checkExternal_ok_iff]
  | fileObject keys =>
    simp only [run, Passes]
    cases w <;> simp [checkFileObject]
    rename_i kvs
    by_cases h1 : countPresent keys kvs > 1
    · simp [h1]; omega
    · by_cases h0 : countPresent keys kvs = 0
      · simp [h0]
        cases has "driver" kvs <;> cases has "external" kvs <;> simp
      · have : countPresent keys kvs = 1 := by omega
        simp [this]
  | path =>
    simp only [run, Passes]
    cases w <;> simp [checkPath]
  | deviceRequest =>
    simp only [run, Passes]
    cases w <;> simp [checkDeviceRequest]

/-- what the walk below `(p, v)` must satisfy -/
def AllOK (p : TPath) (v : Val) : Prop :=
  ∀ q w c, Reaches p v q w → firstMatch table q = some c → run c w = .ok

theorem reaches_matched {p q : TPath} {v w : Val} {c : Checker} (hm : firstMatch table p = some c)
    (h : Reaches p v q w) : q = p ∧ w = v := by
  cases h with
  | here => exact ⟨rfl, rfl⟩
  | inMap hn _ _ => rw [hn] at hm; cases hm
  | inSeq hn _ _ => rw [hn] at hm; cases hm

theorem allOK_matched {p : TPath} {v : Val} {c : Checker} (hm : firstMatch table p = some c) :
    AllOK p v ↔ run c v = .ok := by
  constructor
  · intro h; exact h p v c .here hm
  · intro h q w c' hr hq
    obtain ⟨rfl, rfl⟩ := reaches_matched hm hr
    rw [hm] at hq; cases hq; exact h

theorem allOK_leaf {p : TPath} {v : Val} (hn : firstMatch table p = none)
    (hleaf : ∀ q w, Reaches p v q w → q = p ∧ w = v) : AllOK p v := by
  intro q w c hr hq
  obtain ⟨rfl, rfl⟩ := hleaf q w hr
  rw [hn] at hq; cases hq

mutual
theorem failuresAt_nil_iff : ∀ (p : TPath) (v : Val), failuresAt p v = [] ↔ AllOK p v
  | p, .map kvs => by
    unfold failuresAt
    cases hm : firstMatch table p with
    | some c => simp only [runL_nil_iff]; exact (allOK_matched hm).symm
    | none =>
      simp only
      rw [failuresKVs_nil_iff p kvs]
      constructor
      · intro h q w c hr hq
        cases hr with
        | here => rw [hm] at hq; cases hq
        | inMap _ hk hr' => exact h _ _ hk q w c hr' hq
      · intro h k c hk q w ch hr hq
        exact h q w ch (.inMap hm hk hr) hq
  | p, .seq xs => by
    unfold failuresAt
    cases hm : firstMatch table p with
    | some c => simp only [runL_nil_iff]; exact (allOK_matched hm).symm
    | none =>
      simp only
      rw [failuresSeq_nil_iff p xs]
      constructor
      · intro h q w c hr hq
        cases hr with
        | here => rw [hm] at hq; cases hq
        | inSeq _ hk hr' => exact h _ hk q w c hr' hq
      · intro h c hk q w ch hr hq
        exact h q w ch (.inSeq hm hk hr) hq
  | p, .null => by
    unfold failuresAt
    cases hm : firstMatch table p with
    | some c => simp only [runL_nil_iff]; exact (allOK_matched hm).symm
    | none => simp only [true_iff]; exact allOK_leaf hm (fun q w hr => by cases hr; exact ⟨rfl, rfl⟩)
  | p, .bool b => by
    unfold failuresAt
    cases hm : firstMatch table p with
    | some c => simp only [runL_nil_iff]; exact (allOK_matched hm).symm
    | none => simp only [true_iff]; exact allOK_leaf hm (fun q w hr => by cases hr; exact ⟨rfl, rfl⟩)
  | p, .int i => by
    unfold failuresAt
    cases hm : firstMatch table p with
    | some c => simp only [runL_nil_iff]; exact (allOK_matched hm).symm
    | none => simp only [true_iff]; exact allOK_leaf hm (fun q w hr => by cases hr; exact ⟨rfl, rfl⟩)
  | p, .float f => by
    unfold failuresAt
    cases hm : firstMatch table p with
    | some c => simp only [runL_nil_iff]; exact (allOK_matched hm).symm
    | none => simp only [true_iff]; exact allOK_leaf hm (fun q w hr => by cases hr; exact ⟨rfl, rfl⟩)
  | p, .str s => by
    unfold failuresAt
    cases hm : firstMatch table p with
    | some c => simp only [runL_nil_iff]; exact (allOK_matched hm).symm
    | none => simp only [true_iff]; exact allOK_leaf hm (fun q w hr => by cases hr; exact ⟨rfl, rfl⟩)
theorem failuresKVs_nil_iff : ∀ (p : TPath) (kvs : List (String × Val)),
    failuresKVs p kvs = [] ↔ ∀ k c, (k, c) ∈ kvs → AllOK (next p k) c
  | p, [] => by simp [failuresKVs]
  | p, (k, v) :: r => by
    unfold failuresKVs
    rw [List.append_eq_nil_iff, failuresAt_nil_iff (next p k) v, failuresKVs_nil_iff p r]
    constructor
    · rintro ⟨h1, h2⟩ k' c hk
      rcases List.mem_cons.mp hk with h | h
      · cases h; exact h1
      · exact h2 k' c h
    · intro h
      exact ⟨h k v (List.mem_cons_self ..), fun k' c hk => h k' c (List.mem_cons_of_mem _ hk)⟩
theorem failuresSeq_nil_iff : ∀ (p : TPath) (xs : List Val),
    failuresSeq p xs = [] ↔ ∀ c, c ∈ xs → AllOK (next p "[]") c
  | p, [] => by simp [failuresSeq]
  | p, v :: r => by
    unfold failuresSeq
    rw [List.append_eq_nil_iff, failuresAt_nil_iff (next p "[]") v, failuresSeq_nil_iff p r]
    constructor
    · rintro ⟨h1, h2⟩ c hk
      rcases List.mem_cons.mp hk with h | h
      · cases h; exact h1
      · exact h2 c h
    · intro h
      exact ⟨h v (List.mem_cons_self ..), fun c hk => h c (List.mem_cons_of_mem _ hk)⟩
end

theorem validate_ok_iff_failures (t : Val) : validate t = .ok ↔ failures t = [] := by
  unfold validate
  cases h : failures t with
  | nil => simp
  | cons o r =>
    simp only [reduceCtorEq, iff_false]
    intro ho
    -- a recorded failure is never `.ok`
    have : ∀ (p : TPath) (v : Val), VOut.ok ∉ failuresAt p v := okNotMem
    exact this TPath.root t (by unfold failures at h; rw [h, ← ho]; exact List.mem_cons_self ..)
where
  okNotMemRunL (c : Checker) (v : Val) : VOut.ok ∉ runL c v := by
    unfold runL
    cases run c v <;> simp
  okNotMem : ∀ (p : TPath) (v : Val), VOut.ok ∉ failuresAt p v := fun p v => by
    have key := okNotMemAux
    exact key.1 v p
  okNotMemAux : (∀ (v : Val) (p : TPath), VOut.ok ∉ failuresAt p v) ∧
      (∀ (kvs : List (String × Val)) (p : TPath), VOut.ok ∉ failuresKVs p kvs) ∧
      (∀ (xs : List Val) (p : TPath), VOut.ok ∉ failuresSeq p xs) := by
    refine ⟨fun v p => okA p v, fun kvs p => okK p kvs, fun xs p => okS p xs⟩
  okA : ∀ (p : TPath) (v : Val), VOut.ok ∉ failuresAt p v
    | p, .map kvs => by
      unfold failuresAt
      cases firstMatch table p with
      | some c => exact okNotMemRunL c _
      | none => exact okK p kvs
    | p, .seq xs => by
      unfold failuresAt
      cases firstMatch table p with
      | some c => exact okNotMemRunL c _
      | none => exact okS p xs
    | p, .null => by
      unfold failuresAt
      cases firstMatch table p with
      | some c => exact okNotMemRunL c _
      | none => simp
    | p, .bool b => by
      unfold failuresAt
      cases firstMatch table p with
      | some c => exact okNotMemRunL c _
      | none => simp
    | p, .int i => by
      unfold failuresAt
      cases firstMatch table p with
      | some c => exact okNotMemRunL c _
      | none => simp
    | p, .float f => by
      unfold failuresAt
      cases firstMatch table p with
      | some c => exact okNotMemRunL c _
      | none => simp
    | p, .str s => by
      unfold failuresAt
      cases firstMatch table p with
      | some c => exact okNotMemRunL c _
      | none => simp
  okK : ∀ (p : TPath) (kvs : List (String × Val)), VOut.ok ∉ failuresKVs p kvs
    | p, [] => by simp [failuresKVs]
    | p, (k, v) :: r => by
      unfold failuresKVs
      rw [List.mem_append]
      exact fun h => h.elim (okA (next p k) v) (okK p r)
  okS : ∀ (p : TPath) (xs : List Val), VOut.ok ∉ failuresSeq p xs
    | p, [] => by simp [failuresSeq]
    | p, v :: r => by
      unfold failuresSeq
      rw [List.mem_append]
      exact fun h => h.elim (okA (next p "[]") v) (okS p r)

end CV.Validate
