import ComposeVerif.Lemmas.C11Shape
import ComposeVerif.Lemmas.Merge
namespace CV.Det.Stage
open CV CV.Val CV.C11

/-- two top-level models that differ only in iteration orders: the same value under every key (so the top-level
mapping itself may be ranged in any order), except that the `services` mapping may list the services in another order -/
structure TopPerm (d' d : KVs) : Prop where
  other : ∀ k, k ≠ "services" → lookup k d' = lookup k d
  services : lookup "services" d' = lookup "services" d ∨
    ∃ s s', lookup "services" d = some (.map s) ∧ lookup "services" d' = some (.map s') ∧ s'.Perm s

theorem TopPerm.of_perm {d d' : KVs} (hn : (keys d).Nodup) (hp : d'.Perm d) : TopPerm d' d :=
  ⟨fun k _ => CV.Merge.lookup_perm hn hp k, .inl (CV.Merge.lookup_perm hn hp "services")⟩

variable {d d' : KVs}

theorem uses_eq (h : TopPerm d' d) : usesDefaultNetwork d' = usesDefaultNetwork d := by
  unfold usesDefaultNetwork
  rcases h.services with e | ⟨s, s', hs, hs', hp⟩
  · rw [e]
  · rw [hs, hs']; exact hp.any_eq

theorem declared_eq (h : TopPerm d' d) : declaredNetworks d' = declaredNetworks d := by
  unfold declaredNetworks; rw [h.other "networks" (by decide)]

theorem nnNetworks_eq (h : TopPerm d' d) : nnNetworks d' = nnNetworks d := by
  unfold nnNetworks; rw [declared_eq h, uses_eq h]

theorem shapeNN_eq (h : TopPerm d' d) : shapeNN d' = shapeNN d := by
  unfold shapeNN
  rw [h.other "networks" (by decide)]
  rcases h.services with e | ⟨s, s', hs, hs', hp⟩
  · rw [e]
  · rw [hs, hs']; simp only []; rw [hp.all_eq]

theorem shapeServices_eq (h : TopPerm d' d) : shapeServices d' = shapeServices d := by
  unfold shapeServices
  rcases h.services with e | ⟨s, s', hs, hs', hp⟩
  · rw [e]
  · rw [hs, hs']; simp only []; rw [hp.all_eq]

theorem shapeNames_eq (h : TopPerm d' d) : shapeNames d' = shapeNames d := by
  unfold shapeNames resourceNames
  simp only [List.all_cons, List.all_nil, shapeSection]
  rw [h.other "networks" (by decide), h.other "volumes" (by decide), h.other "configs" (by decide),
    h.other "secrets" (by decide)]

/-- the pure part: the results are again related by `TopPerm` -/
theorem normalizePure_topPerm (clean : String → String) (env : Env) (h : TopPerm d' d) :
    TopPerm (normalizePure clean env d') (normalizePure clean env d) := by
  have hname : lookup "name" d' = lookup "name" d := h.other "name" (by decide)
  constructor
  · intro k hk
    by_cases hnet : k = "networks"
    · subst hnet
      rw [lookup_networks_normalizePure, lookup_networks_normalizePure, nnNetworks_eq h, hname,
        h.other "networks" (by decide)]
    · rw [lookup_normalizePure clean env d' hnet, lookup_normalizePure clean env d hnet, hname, h.other k hk]
  · rw [lookup_normalizePure clean env d' (by decide), lookup_normalizePure clean env d (by decide), hname]
    rcases h.services with e | ⟨s, s', hs, hs', hp⟩
    · left; rw [e]
    · right
      refine ⟨mapVals (normServiceV clean env) (mapVals nnServiceV s), mapVals (normServiceV clean env) (mapVals nnServiceV s'), ?_, ?_, ?_⟩
      · rw [hs]; simp [topH_services, nnTop, nsTop]
      · rw [hs']; simp [topH_services, nnTop, nsTop]
      · exact (hp.map _).map _

/-- outcomes of `Normalize` on two such models -/
def NormRel : Out KVs → Out KVs → Prop
  | .ok r', .ok r => TopPerm r' r
  | .panic s', .panic s => s' = s
  | .err e', .err e => e' = e
  | _, _ => False

/-- **`loader.Normalize` does not depend on the order in which Go ranges over the top-level mapping or over the services
mapping**: the same panic site, or results that again differ only in those orders -/
theorem normalize_topPerm (clean : String → String) (env : Env) (h : TopPerm d' d) :
    NormRel (normalize clean env d') (normalize clean env d) := by
  unfold normalize
  rw [shapeNN_eq h, shapeServices_eq h, shapeNames_eq h]
  split
  · rfl
  · split
    · rfl
    · split
      · rfl
      · exact normalizePure_topPerm clean env h

end CV.Det.Stage
