import ComposeVerif.Lemmas.C02Deep8
namespace CV.Deep
open CV CV.Merge
open CV.Val (lookup insert keys KVs)

/-! ### `mergeIPAMConfig` -/

def EntRel : Option KVs → Option KVs → Prop
  | some m, some m' => MRel m m'
  | none, none => True
  | _, _ => False

inductive CfgRel : List (Option KVs) → List (Option KVs) → Prop
  | nil : CfgRel [] []
  | cons {e e' : Option KVs} {l l' : List (Option KVs)} : EntRel e e' → CfgRel l l' → CfgRel (e :: l) (e' :: l')

structure StRel (st st' : IpamSt) : Prop where
  right : OptMRel st.right st'.right
  configs : CfgRel st.configs st'.configs

theorem MRel.nil : MRel [] [] := ⟨MEqv.nil, MWF.nil, MWF.nil⟩

theorem getD_rel {l l' : Option KVs} (h : OptMRel l l') : MRel (l.getD []) (l'.getD []) := by
  cases l <;> cases l' <;> simp only [OptMRel] at h
  · exact MRel.nil
  · exact h

theorem entry_rel {st st' : IpamSt} (hr : OptMRel st.right st'.right) {e e' : Option KVs} (he : EntRel e e') :
    MRel (st.entry e) (st'.entry e') := by
  cases e <;> cases e' <;> simp only [EntRel] at he
  · exact getD_rel hr
  · exact he

theorem subnetOf_eqv {l l' : Option KVs} (h : OptMRel l l') : Eqv (subnetOf l) (subnetOf l') := by
  cases l <;> cases l' <;> simp only [OptMRel] at h
  · exact .null
  · exact getD_eqv h.1 "subnet"

theorem ipamIndex_eq {st st' : IpamSt} (hr : OptMRel st.right st'.right) {s s' : Val} (hs : Eqv s s') :
    ∀ {l l' : List (Option KVs)}, CfgRel l l' → ∀ i, ipamIndex st s l i = ipamIndex st' s' l' i := by
  intro l l' h
  induction h with
  | nil => intro i; rfl
  | cons he _ ih =>
    intro i
    simp only [ipamIndex]
    rw [ifaceEq_eqv (getD_eqv (entry_rel hr he).1 "subnet") hs, ih]

theorem listSet_rel {l l' : List (Option KVs)} (h : CfgRel l l') {e e' : Option KVs} (he : EntRel e e') :
    ∀ i, CfgRel (listSet l i e) (listSet l' i e') := by
  induction h with
  | nil => intro i; exact .nil
  | cons h1 h2 ih =>
    intro i
    cases i with
    | zero => exact .cons he h2
    | succ n => exact .cons h1 (ih n)

theorem CfgRel.append {a a' b b' : List (Option KVs)} (h1 : CfgRel a a') (h2 : CfgRel b b') : CfgRel (a ++ b) (a' ++ b') := by
  induction h1 with
  | nil => exact h2
  | cons he _ ih => exact .cons he ih

/-- `mergeMappings` delivers related *and well-formed* results -/
theorem mk_rel (mk : KVs → KVs → TPath → Out KVs) (p : TPath) (hmk : MkCongr mk p) (hwf : MkWF mk p)
    {a a' b b' : KVs} (ha : MRel a a') (hb : MRel b b') : OutEqv MRel (mk a b p) (mk a' b' p) := by
  have h := hmk a a' b b' ha.1 hb.1 ha.2.1 ha.2.2 hb.2.1 hb.2.2
  cases h1 : mk a b p <;> cases h2 : mk a' b' p <;> simp only [h1, h2, OutEqv] at h ⊢
  · exact ⟨h, hwf a b _ ha.2.1 hb.2.1 h1, hwf a' b' _ ha.2.2 hb.2.2 h2⟩

/-- the merge of the current `right` with one override entry -/
def mergedOf (mk : KVs → KVs → TPath → Out KVs) (right left : Option KVs) (p : TPath) : Out (Option KVs) :=
  match right, left with
  | some a, some b => (mk a b p).bind fun m => .ok (some m)
  | some a, none => .ok (some a)
  | none, some (_ :: _) => .panic "override.mergeMappings"
  | none, _ => .ok none

theorem mergedOf_rel (mk : KVs → KVs → TPath → Out KVs) (p : TPath) (hmk : MkCongr mk p) (hwf : MkWF mk p)
    {r r' l l' : Option KVs} (hr : OptMRel r r') (hl : OptMRel l l') :
    OutEqv OptMRel (mergedOf mk r l p) (mergedOf mk r' l' p) := by
  cases r <;> cases r' <;> simp only [OptMRel] at hr
  · cases l <;> cases l' <;> simp only [OptMRel] at hl
    · simp [mergedOf, OutEqv, OptMRel]
    · rename_i b b'
      have hnil := hl.1.nil_iff
      cases b with
      | nil => have : b' = [] := hnil.mp rfl; subst this; simp [mergedOf, OutEqv, OptMRel]
      | cons _ _ =>
        cases b' with
        | nil => have := hnil.mpr rfl; cases this
        | cons _ _ => simp [mergedOf, OutEqv]
  · cases l <;> cases l' <;> simp only [OptMRel] at hl
    · simpa [mergedOf, OutEqv, OptMRel] using hr
    · simp only [mergedOf]
      exact OutEqv.bind (mk_rel mk p hmk hwf hr hl) (fun m m' hm => by simpa [OutEqv, OptMRel] using hm)

/-- the entry stored for the merged configuration: a nil `right` stays nil, otherwise an alias of `right` -/
def entryOf (merged : Option KVs) : Option KVs :=
  match merged with
  | none => some []
  | some _ => none

theorem entryOf_rel {m m' : Option KVs} (h : OptMRel m m') : EntRel (entryOf m) (entryOf m') := by
  cases m <;> cases m' <;> simp only [OptMRel] at h
  · exact MRel.nil
  · trivial

/-- the `doMerge` closure of the model, with the rest of the loop as a continuation -/
def doM (mk : KVs → KVs → TPath → Out KVs) (st : IpamSt) (left : Option KVs) (p : TPath)
    (k : IpamSt → Out IpamSt) : Out IpamSt :=
  (mergedOf mk st.right left p).bind fun merged =>
    let st1 : IpamSt := ⟨st.configs, merged⟩
    match ipamIndex st1 (subnetOf merged) st1.configs 0 with
    | none => .panic "override.mergeIPAMConfig"
    | some (some i) => k ⟨listSet st1.configs i (entryOf merged), merged⟩
    | some none => k ⟨st1.configs ++ [entryOf merged], merged⟩

theorem ipamInner_cons (mk : KVs → KVs → TPath → Out KVs) (ov : Val) (rest : List Val) (st : IpamSt) (p : TPath) :
    ipamInnerWith mk (ov :: rest) st p =
      (intoMap .null ov).bind fun left =>
        match ifaceEq (subnetOf left) (subnetOf st.right) with
        | none => .panic "override.mergeIPAMConfig"
        | some same =>
          if same then doM mk st left p (fun s => ipamInnerWith mk rest s p)
          else
            match ipamIndex st (subnetOf left) st.configs 0 with
            | none => .panic "override.mergeIPAMConfig"
            | some none => ipamInnerWith mk rest ⟨st.configs ++ [some (left.getD [])], st.right⟩ p
            | some (some _) => doM mk st left p (fun s => ipamInnerWith mk rest s p) := by
  rw [ipamInnerWith]
  rfl

theorem doM_rel (mk : KVs → KVs → TPath → Out KVs) (p : TPath) (hmk : MkCongr mk p) (hwf : MkWF mk p)
    {st st' : IpamSt} (hst : StRel st st') {left left' : Option KVs} (hl : OptMRel left left')
    {k k' : IpamSt → Out IpamSt} (hk : ∀ s s', StRel s s' → OutEqv StRel (k s) (k' s')) :
    OutEqv StRel (doM mk st left p k) (doM mk st' left' p k') := by
  simp only [doM]
  refine OutEqv.bind (mergedOf_rel mk p hmk hwf hst.right hl) (fun merged merged' hm => ?_)
  have hent := entryOf_rel hm
  have hidx := ipamIndex_eq (st := ⟨st.configs, merged⟩) (st' := ⟨st'.configs, merged'⟩) hm (subnetOf_eqv hm)
    hst.configs 0
  rw [hidx]
  split
  · trivial
  · exact hk _ _ ⟨hm, listSet_rel hst.configs hent _⟩
  · exact hk _ _ ⟨hm, hst.configs.append (.cons hent .nil)⟩

theorem ipamInner_rel (mk : KVs → KVs → TPath → Out KVs) (p : TPath) (hmk : MkCongr mk p) (hwf : MkWF mk p) :
    ∀ {os os' : List Val}, Eqv (.seq os) (.seq os') → WF (.seq os) → WF (.seq os') →
    ∀ {st st' : IpamSt}, StRel st st' → OutEqv StRel (ipamInnerWith mk os st p) (ipamInnerWith mk os' st' p) := by
  intro os
  induction os with
  | nil => intro os' h _ _ st st' hst; cases h; simpa [ipamInnerWith, OutEqv] using hst
  | cons ov rest ih =>
    intro os' h w w' st st' hst
    cases h with | seqCons hov hrest =>
    cases w with | seqCons wov wrest =>
    cases w' with | seqCons wov' wrest' =>
    rw [ipamInner_cons, ipamInner_cons]
    refine OutEqv.bind (intoMap_eqv .null .null hov wov wov') (fun left left' hl => ?_)
    rw [ifaceEq_eqv (subnetOf_eqv hl) (subnetOf_eqv hst.right)]
    have hk : ∀ s s', StRel s s' → OutEqv StRel (ipamInnerWith mk rest s p) (ipamInnerWith mk _ s' p) :=
      fun s s' hs => ih hrest wrest wrest' hs
    split
    · trivial
    · split
      · exact doM_rel mk p hmk hwf hst hl hk
      · rw [ipamIndex_eq hst.right (subnetOf_eqv hl) hst.configs 0]
        split
        · trivial
        · exact hk _ _ ⟨hst.right, hst.configs.append (.cons (getD_rel hl) .nil)⟩
        · exact doM_rel mk p hmk hwf hst hl hk

/-- related and well formed -/
def EqvW (z z' : Val) : Prop := Eqv z z' ∧ WF z ∧ WF z'

theorem final_rel {st st' : IpamSt} (hr : OptMRel st.right st'.right) : ∀ {l l' : List (Option KVs)}, CfgRel l l' →
    EqvW (.seq (l.map fun e => .map (st.entry e))) (.seq (l'.map fun e => .map (st'.entry e))) := by
  intro l l' h
  induction h with
  | nil => exact ⟨.seqNil, .seqNil, .seqNil⟩
  | cons he _ ih =>
    have hm := entry_rel hr he
    exact ⟨.seqCons (Eqv.map_iff.mpr hm.1) ih.1, .seqCons (WF.map_iff.mpr hm.2.1) ih.2.1,
      .seqCons (WF.map_iff.mpr hm.2.2) ih.2.2⟩

theorem freeze_rel {st st' : IpamSt} (hr : OptMRel st.right st'.right) : ∀ {l l' : List (Option KVs)}, CfgRel l l' →
    CfgRel (l.map fun e => some (st.entry e)) (l'.map fun e => some (st'.entry e)) := by
  intro l l' h
  induction h with
  | nil => exact .nil
  | cons he _ ih => exact .cons (entry_rel hr he) ih

theorem ipamOuter_rel (mk : KVs → KVs → TPath → Out KVs) (p : TPath) (hmk : MkCongr mk p) (hwf : MkWF mk p)
    {o o' : Val} (ho : Eqv o o') (wo : WF o) (wo' : WF o') :
    ∀ {cs cs' : List Val}, Eqv (.seq cs) (.seq cs') → WF (.seq cs) → WF (.seq cs') →
    ∀ {st st' : IpamSt}, StRel st st' → OutEqv EqvW (ipamOuterWith mk cs o st p) (ipamOuterWith mk cs' o' st' p) := by
  intro cs
  induction cs with
  | nil =>
    intro cs' h _ _ st st' hst
    cases h
    simp only [ipamOuterWith, OutEqv]
    exact final_rel hst.right hst.configs
  | cons original rest ih =>
    intro cs' h w w' st st' hst
    cases h with | @seqCons _ orig' _ rest' horig hrest =>
    cases w with | seqCons worig wrest =>
    cases w' with | seqCons worig' wrest' =>
    simp only [ipamOuterWith]
    refine OutEqv.bind (intoMap_eqv .null .null horig worig worig') (fun right right' hright => ?_)
    have inner : ∀ {os os' : List Val}, Eqv (.seq os) (.seq os') → WF (.seq os) → WF (.seq os') →
        OutEqv EqvW
          ((ipamInnerWith mk os ⟨st.configs, right⟩ p).bind fun s =>
            ipamOuterWith mk rest o ⟨s.configs.map fun e => some (s.entry e), none⟩ p)
          ((ipamInnerWith mk os' ⟨st'.configs, right'⟩ p).bind fun s =>
            ipamOuterWith mk rest' o' ⟨s.configs.map fun e => some (s.entry e), none⟩ p) := by
      intro os os' hos wos wos'
      refine OutEqv.bind (ipamInner_rel mk p hmk hwf hos wos wos' ⟨hright, hst.configs⟩) (fun s s' hs => ?_)
      exact ih hrest wrest wrest' ⟨trivial, freeze_rel hs.right hs.configs⟩
    cases ho with
    | seqNil => exact inner .seqNil wo wo'
    | seqCons a b => exact inner (.seqCons a b) wo wo'
    | null => simp [OutEqv]
    | bool b => simp [OutEqv]
    | int i => simp [OutEqv]
    | float s => simp [OutEqv]
    | str s => simp [OutEqv]
    | map _ _ => simp [OutEqv]

end CV.Deep
