import ComposeVerif.Lemmas.C02Deep8
namespace CV.Deep
open CV CV.Merge
open CV.Val (lookup insert keys KVs)

/-! ### `mergeIPAMConfig` (pools keyed by subnet: `ipamPools`, `ipamFold`, `ipamStep`) -/

/-- two lists of pools, pool by pool related and well formed -/
inductive PoolsRel : List KVs → List KVs → Prop
  | nil : PoolsRel [] []
  | cons {m m' : KVs} {l l' : List KVs} : MRel m m' → PoolsRel l l' → PoolsRel (m :: l) (m' :: l')

theorem PoolsRel.append {a a' b b' : List KVs} (h1 : PoolsRel a a') (h2 : PoolsRel b b') : PoolsRel (a ++ b) (a' ++ b') := by
  induction h1 with
  | nil => exact h2
  | cons hm _ ih => exact .cons hm ih

theorem subnetOf_eqv {m m' : KVs} (h : MRel m m') : Eqv (subnetOf m) (subnetOf m') := getD_eqv h.1 "subnet"

theorem ipamIndex_eq {s s' : Val} (hs : Eqv s s') : ∀ {l l' : List KVs}, PoolsRel l l' → ∀ i, ipamIndex s l i = ipamIndex s' l' i := by
  intro l l' h
  induction h with
  | nil => intro i; rfl
  | cons hm _ ih =>
    intro i
    simp only [ipamIndex, sameScalar_eqv (subnetOf_eqv hm) hs, ih]

theorem listSet_rel {l l' : List KVs} (h : PoolsRel l l') {m m' : KVs} (hm : MRel m m') :
    ∀ i, PoolsRel (listSet l i m) (listSet l' i m') := by
  induction h with
  | nil => intro i; exact .nil
  | cons h1 h2 ih =>
    intro i
    cases i with
    | zero => exact .cons hm h2
    | succ n => exact .cons h1 (ih n)

theorem getD_rel {l l' : List KVs} (h : PoolsRel l l') : ∀ i : Nat, MRel (l[i]?.getD []) (l'[i]?.getD []) := by
  induction h with
  | nil => intro i; simpa using MRel.nil
  | cons h1 _ ih =>
    intro i
    cases i with
    | zero => simpa using h1
    | succ n => simpa using ih n

/-- `mergeMappings` delivers related *and well-formed* results -/
theorem mk_rel (mk : KVs → KVs → TPath → Out KVs) (p : TPath) (hmk : MkCongr mk p) (hwf : MkWF mk p)
    {a a' b b' : KVs} (ha : MRel a a') (hb : MRel b b') : OutEqv MRel (mk a b p) (mk a' b' p) := by
  have h := hmk a a' b b' ha.1 hb.1 ha.2.1 ha.2.2 hb.2.1 hb.2.2
  cases h1 : mk a b p <;> cases h2 : mk a' b' p <;> simp only [h1, h2, OutEqv] at h ⊢
  · exact ⟨h, hwf a b _ ha.2.1 hb.2.1 h1, hwf a' b' _ ha.2.2 hb.2.2 h2⟩

theorem poolsOf_rel : ∀ {xs xs' : List Val}, Eqv (.seq xs) (.seq xs') → WF (.seq xs) → WF (.seq xs') →
    OutEqv PoolsRel (poolsOf xs) (poolsOf xs') := by
  intro xs
  induction xs with
  | nil => intro xs' h _ _; cases h; exact .nil
  | cons x r ih =>
    intro xs' h w w'
    cases h with | seqCons hx hr =>
    cases w with | seqCons wx wr =>
    cases w' with | seqCons wx' wr' =>
    simp only [poolsOf]
    refine OutEqv.bind (intoMap_eqv .null .null hx wx wx') (fun m m' hm => ?_)
    refine OutEqv.bind (ih hr wr wr') (fun ms ms' hms => ?_)
    exact .cons hm hms

theorem ipamPools_rel {v v' : Val} (h : Eqv v v') (wv : WF v) (wv' : WF v') :
    OutEqv PoolsRel (ipamPools v) (ipamPools v') := by
  cases h with
  | null => exact .nil
  | seqNil => exact poolsOf_rel .seqNil wv wv'
  | seqCons a b => exact poolsOf_rel (.seqCons a b) wv wv'
  | bool b => simp [ipamPools, OutEqv]
  | int i => simp [ipamPools, OutEqv]
  | float s => simp [ipamPools, OutEqv]
  | str s => simp [ipamPools, OutEqv]
  | map _ _ => simp [ipamPools, OutEqv]

theorem ipamFold_rel (mk : KVs → KVs → TPath → Out KVs) (p : TPath) (hmk : MkCongr mk p) (hwf : MkWF mk p) :
    ∀ {ls ls' : List KVs}, PoolsRel ls ls' → ∀ {cfgs cfgs' : List KVs}, PoolsRel cfgs cfgs' →
      OutEqv PoolsRel (ipamFold mk cfgs ls p) (ipamFold mk cfgs' ls' p) := by
  intro ls ls' h
  induction h with
  | nil => intro cfgs cfgs' hc; simpa [ipamFold, OutEqv] using hc
  | @cons left left' rest rest' hl _ ih =>
    intro cfgs cfgs' hc
    simp only [ipamFold]
    rw [ipamIndex_eq (subnetOf_eqv hl) hc 0]
    split
    · exact ih (hc.append (.cons hl .nil))
    · rename_i i _
      refine OutEqv.bind (mk_rel mk p hmk hwf (getD_rel hc i) hl) (fun m m' hm => ?_)
      exact ih (listSet_rel hc hm i)

/-- related and well formed -/
def EqvW (z z' : Val) : Prop := Eqv z z' ∧ WF z ∧ WF z'

theorem pools_final {l l' : List KVs} (h : PoolsRel l l') : EqvW (.seq (l.map Val.map)) (.seq (l'.map Val.map)) := by
  induction h with
  | nil => exact ⟨.seqNil, .seqNil, .seqNil⟩
  | cons hm _ ih =>
    exact ⟨.seqCons (Eqv.map_iff.mpr hm.1) ih.1, .seqCons (WF.map_iff.mpr hm.2.1) ih.2.1,
      .seqCons (WF.map_iff.mpr hm.2.2) ih.2.2⟩

theorem ipamStep_rel (mk : KVs → KVs → TPath → Out KVs) (p : TPath) (hmk : MkCongr mk p) (hwf : MkWF mk p)
    {e e' o o' : Val} (he : Eqv e e') (ho : Eqv o o') (we : WF e) (we' : WF e') (wo : WF o) (wo' : WF o') :
    OutEqv EqvW (ipamStep mk e o p) (ipamStep mk e' o' p) := by
  simp only [ipamStep]
  refine OutEqv.bind (ipamPools_rel he we we') (fun base base' hb => ?_)
  refine OutEqv.bind (ipamPools_rel ho wo wo') (fun other other' hoo => ?_)
  refine OutEqv.bind (ipamFold_rel mk p hmk hwf hoo hb) (fun cfgs cfgs' hc => ?_)
  exact pools_final hc

end CV.Deep
