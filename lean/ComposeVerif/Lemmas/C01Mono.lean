import ComposeVerif.Lemmas.C01Dep
import ComposeVerif.Lemmas.C01Inc
import ComposeVerif.Lemmas.C01Ext
/-!
Fuel monotonicity for the C01 loops: once a run does not run out of fuel, more fuel gives the same answer.
Together with the `…_ne_fuel` lemmas this makes the fuel a proof device only: the model's answer is defined
independently of it.
-/
namespace CV.C01

namespace Dep

variable {α : Type} [DecidableEq α]

theorem searchChildren_congr (s1 s2 : List α → α → R α) (path : List α)
    (h : ∀ p n, s1 p n ≠ .outOfFuel → s2 p n = s1 p n) :
    ∀ (cs : List α), searchChildren s1 path cs ≠ .outOfFuel → searchChildren s2 path cs = searchChildren s1 path cs
  | [], _ => by simp [searchChildren]
  | name :: rest, hne => by
    unfold searchChildren at hne ⊢
    by_cases hin : name ∈ path
    · simp only [hin, ↓reduceIte]
    · simp only [hin, ↓reduceIte] at hne ⊢
      cases hs : s1 (path ++ [name]) name with
      | outOfFuel => rw [hs] at hne; exact absurd rfl hne
      | ok =>
        rw [hs] at hne
        have := h (path ++ [name]) name (by rw [hs]; intro e; cases e)
        rw [this, hs]
        exact searchChildren_congr s1 s2 path h rest hne
      | cycle p =>
        have := h (path ++ [name]) name (by rw [hs]; intro e; cases e)
        rw [this, hs]

theorem searchCycle_mono (g : G α) : ∀ (fuel : Nat) (path : List α) (v : α),
    searchCycle g fuel path v ≠ .outOfFuel → searchCycle g (fuel + 1) path v = searchCycle g fuel path v
  | 0, _, _, h => by unfold searchCycle at h; exact absurd rfl h
  | fuel + 1, path, v, h => by
    unfold searchCycle at h ⊢
    exact searchChildren_congr _ _ path (fun p n hn => searchCycle_mono g fuel p n hn) _ h

theorem searchCycle_mono_le (g : G α) (path : List α) (v : α) (fuel : Nat) (h : searchCycle g fuel path v ≠ .outOfFuel) :
    ∀ k, searchCycle g (fuel + k) path v = searchCycle g fuel path v
  | 0 => rfl
  | k + 1 => by
    have ih := searchCycle_mono_le g path v fuel h k
    have : searchCycle g (fuel + k) path v ≠ .outOfFuel := by rw [ih]; exact h
    rw [← Nat.add_assoc, searchCycle_mono g (fuel + k) path v this, ih]

theorem checkFrom_congr (g : G α) (f1 f2 : Nat) : ∀ (vs : List α),
    (∀ v ∈ vs, searchCycle g f2 [v] v = searchCycle g f1 [v] v) → checkFrom g f2 vs = checkFrom g f1 vs
  | [], _ => rfl
  | v :: rest, h => by
    unfold checkFrom
    rw [h v (List.mem_cons_self ..)]
    cases searchCycle g f1 [v] v with
    | ok => exact checkFrom_congr g f1 f2 rest (fun x hx => h x (List.mem_cons_of_mem _ hx))
    | cycle p => rfl
    | outOfFuel => rfl

end Dep

namespace Inc

theorem applyInclude_congr (l1 l2 : List String → List String → Res)
    (h : ∀ a b, l1 a b ≠ .outOfFuel → l2 a b = l1 a b) :
    ∀ (entries : List (List String)) (included : List String),
      applyInclude l1 entries included ≠ .outOfFuel → applyInclude l2 entries included = applyInclude l1 entries included
  | [], _, _ => by simp [applyInclude]
  | [] :: rest, included, hne => by
    unfold applyInclude at hne ⊢
    exact applyInclude_congr l1 l2 h rest included hne
  | (p0 :: ps) :: rest, included, hne => by
    unfold applyInclude at hne ⊢
    by_cases hin : (p0 :: ps).any (fun p => decide (p ∈ included)) = true
    · simp only [hin, ↓reduceIte]
    · simp only [hin] at hne ⊢
      cases hs : l1 (p0 :: ps) included with
      | outOfFuel => rw [hs] at hne; exact absurd rfl hne
      | ok =>
        rw [hs] at hne
        have := h (p0 :: ps) included (by rw [hs]; intro e; cases e)
        rw [this, hs]
        exact applyInclude_congr l1 l2 h rest included hne
      | err c =>
        have := h (p0 :: ps) included (by rw [hs]; intro e; cases e)
        rw [this, hs]
      | panic s =>
        have := h (p0 :: ps) included (by rw [hs]; intro e; cases e)
        rw [this, hs]

theorem loadFiles_congr (fs : FS) (i1 i2 : List (List String) → List String → Res)
    (h : ∀ a b, i1 a b ≠ .outOfFuel → i2 a b = i1 a b) :
    ∀ (files included : List String),
      loadFiles fs i1 files included ≠ .outOfFuel → loadFiles fs i2 files included = loadFiles fs i1 files included
  | [], _, _ => by simp [loadFiles]
  | f :: rest, included, hne => by
    unfold loadFiles at hne ⊢
    cases hl : lookup f fs with
    | none => rfl
    | some entries =>
      rw [hl] at hne
      simp only at hne ⊢
      cases hs : i1 entries (included ++ [f]) with
      | outOfFuel => rw [hs] at hne; exact absurd rfl hne
      | ok =>
        rw [hs] at hne
        have := h entries (included ++ [f]) (by rw [hs]; intro e; cases e)
        rw [this, hs]
        exact loadFiles_congr fs i1 i2 h rest included hne
      | err c =>
        have := h entries (included ++ [f]) (by rw [hs]; intro e; cases e)
        rw [this, hs]
      | panic s =>
        have := h entries (included ++ [f]) (by rw [hs]; intro e; cases e)
        rw [this, hs]

theorem loadModel_mono (fs : FS) : ∀ (fuel : Nat) (files included : List String),
    loadModel fs fuel files included ≠ .outOfFuel → loadModel fs (fuel + 1) files included = loadModel fs fuel files included
  | 0, _, _, h => by unfold loadModel at h; exact absurd rfl h
  | fuel + 1, files, included, h => by
    unfold loadModel at h ⊢
    exact loadFiles_congr fs _ _
      (fun a b hab => applyInclude_congr _ _ (fun x y hxy => loadModel_mono fs fuel x y hxy) a b hab) files included h

theorem loadModel_mono_le (fs : FS) (files included : List String) (fuel : Nat)
    (h : loadModel fs fuel files included ≠ .outOfFuel) :
    ∀ k, loadModel fs (fuel + k) files included = loadModel fs fuel files included
  | 0 => rfl
  | k + 1 => by
    have ih := loadModel_mono_le fs files included fuel h k
    have : loadModel fs (fuel + k) files included ≠ .outOfFuel := by rw [ih]; exact h
    rw [← Nat.add_assoc, loadModel_mono fs (fuel + k) files included this, ih]

end Inc

namespace Ext

theorem resolve_mono (fs : FS) : ∀ (fuel : Nat) (main : String) (svcs : Services) (name : String) (tr : Tracker),
    (resolve fs main fuel svcs name tr).1 ≠ .outOfFuel →
    resolve fs main (fuel + 1) svcs name tr = resolve fs main fuel svcs name tr
  | 0, _, _, _, _, h => by unfold resolve at h; exact absurd rfl h
  | fuel + 1, main, svcs, name, tr, h => by
    unfold resolve at h ⊢
    split
    · rfl
    · rfl
    · rfl
    · rfl
    · rename_i e hl
      simp only [hl] at h
      split
      · rfl
      · rename_i ref file target hloc
        simp only [hloc] at h
        split
        · rfl
        · rename_i tr' hadd
          simp only [hadd] at h
          have hne : (resolve fs file fuel (target.getD svcs) ref tr').1 ≠ .outOfFuel := by
            intro he
            generalize resolve fs file fuel (target.getD svcs) ref tr' = res at h he
            obtain ⟨r1, b, s'⟩ := res
            simp only at he
            subst he
            simp at h
          rw [resolve_mono fs fuel file (target.getD svcs) ref tr' hne]

theorem resolve_mono_le (fs : FS) (main : String) (svcs : Services) (name : String) (tr : Tracker) (fuel : Nat)
    (h : (resolve fs main fuel svcs name tr).1 ≠ .outOfFuel) :
    ∀ k, resolve fs main (fuel + k) svcs name tr = resolve fs main fuel svcs name tr
  | 0 => rfl
  | k + 1 => by
    have ih := resolve_mono_le fs main svcs name tr fuel h k
    have : (resolve fs main (fuel + k) svcs name tr).1 ≠ .outOfFuel := by rw [ih]; exact h
    rw [← Nat.add_assoc, resolve_mono fs (fuel + k) main svcs name tr this, ih]

end Ext
end CV.C01
