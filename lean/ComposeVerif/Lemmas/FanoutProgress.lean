import ComposeVerif.Lemmas.FanoutInv2
/-! Progress (deadlock freedom) and the termination measure of the fan-out transition system. -/
namespace CV.Fanout

variable {cfg : Cfg} {s s' : St} {l : Label}

theorem ex_of_isSome (l : Label) (h : (step? cfg s l).isSome = true) : ∃ l s', step? cfg s l = some s' := by
  cases hh : step? cfg s l with
  | some s' => exact ⟨l, s', hh⟩
  | none => simp [hh] at h

/-- the buffer has room for the result of every worker that has not sent yet -/
theorem send_room (hI : Inv cfg s) {v : V} (hv : v ∈ cfg.svcs) (hw : s.w v = .returned) :
    s.ch.length < cfg.svcs.length := by
  have h1 := hI.chCount
  have h2 := hI.expectCount
  have h3 : (cfg.svcs.filter (fun u => sentOrExited (s.w u))).length < cfg.svcs.length :=
    filter_length_lt_of_mem hv (by simp [hw, sentOrExited])
  omega

/-- a live worker can always take its next step -/
theorem worker_enabled (hI : Inv cfg s) {v : V} (hv : v ∈ cfg.svcs) (hl : live (s.w v) = true) :
    ∃ l s', step? cfg s l = some s' := by
  cases hw : s.w v with
  | idle => simp [hw, live] at hl
  | exited => simp [hw, live] at hl
  | failed => simp [hw, live] at hl
  | start => exact ex_of_isSome (.wBegin v) (by simp [step?, hw])
  | running => exact ex_of_isSome (.wReturn v) (by simp [step?, hw])
  | sent => exact ex_of_isSome (.wExit v) (by simp [step?, hw])
  | returned =>
    cases hf : cfg.fn v with
    | none => exact ex_of_isSome (.wFail v) (by simp [step?, hw, hf])
    | some r => exact ex_of_isSome (.wSend v) (by simp [step?, hw, hf, send_room hI hv hw])

theorem deadlock_free_of_inv (hI : Inv cfg s) : terminal s ∨ ∃ l s', step? cfg s l = some s' := by
  cases hm : s.m with
  | returned => exact .inl hm
  | read => exact .inr (ex_of_isSome .mRead (by simp [step?, hm]))
  | spawnC =>
    have hc := hI.cStart.mp (.inr hm)
    exact .inr (ex_of_isSome .mSpawnC (by simp [step?, hm, hc]))
  | spawning todo =>
    cases todo with
    | nil => exact .inr (ex_of_isSome .mWait (by simp [step?, hm]))
    | cons v t => exact .inr (ex_of_isSome (.mSpawn v) (by simp [step?, hm]))
  | waiting =>
    right
    by_cases hall : (cfg.svcs.all fun v => !(live (s.w v))) = true
    · -- no live worker: the collector (or the caller) moves
      have hnl : ∀ v ∈ cfg.svcs, live (s.w v) = false := by
        intro v hv; have := List.all_eq_true.mp hall v hv; simpa using this
      cases hc : s.c with
      | notStarted => have := hI.cStart.mpr hc; simp [hm] at this
      | got v r => exact ex_of_isSome .cStore (by simp [step?, hc])
      | done => exact ex_of_isSome .cReturn (by simp [step?, hc])
      | fin => exact ex_of_isSome .cExit (by simp [step?, hc])
      | gone => exact ex_of_isSome .mReturn (by simp [step?, hm, hc, hall])
      | sel =>
        cases hch : s.ch with
        | cons x rest => obtain ⟨v, r⟩ := x; exact ex_of_isSome .cRecv (by simp [step?, hc, hch])
        | nil =>
          cases hcan : s.cancelled with
          | true => exact ex_of_isSome .cCtxDone (by simp [step?, hc, hcan])
          | false =>
            -- every worker has exited after sending, so the channel cannot be empty
            exfalso
            have hnf : s.fails = [] := by
              cases hf : s.fails with
              | nil => rfl
              | cons a t =>
                have h1 := hI.errFails; rw [hf] at h1
                have h2 := hI.cancelIff.mpr (by rw [h1]; simp)
                rw [hcan] at h2; cases h2
            have hex : ∀ v ∈ cfg.svcs, sentOrExited (s.w v) = true := by
              intro v hv
              have h1 := hI.waitAll (.inl hm) v hv
              have h2 := hnl v hv
              have h3 : s.w v ≠ .failed := fun hf => by
                have := (hI.failsW v).mpr hf; rw [hnf] at this; cases this
              cases hw : s.w v <;> simp_all [live, sentOrExited]
            have hcnt : (cfg.svcs.filter (fun v => sentOrExited (s.w v))).length = cfg.svcs.length := by
              rw [List.filter_eq_self.mpr hex]
            have h4 := hI.chCount
            have h5 := hI.cPos (.inl hc)
            rw [hch, hc] at h4
            simp only [List.length_nil, gotBit] at h4
            omega
    · -- some worker is live
      have : ∃ v, v ∈ cfg.svcs ∧ live (s.w v) = true := by
        simp only [List.all_eq_true, Bool.not_eq_eq_eq_not, Bool.not_true] at hall
        apply Classical.byContradiction
        intro hno
        apply hall
        intro v hv
        cases hl : live (s.w v) with
        | false => simp
        | true => exact absurd ⟨v, hv, hl⟩ hno
      obtain ⟨v, hv, hl⟩ := this
      exact worker_enabled hI hv hl

/-! ### termination measure -/

theorem mu_decreases (hI : Inv cfg s) (h : step? cfg s l = some s') : mu cfg s' < mu cfg s := by
  cases l with
  | mRead => unfold_step h <;> simp_all [mu, mMu] 
  | mSpawnC => unfold_step h <;> simp_all [mu, mMu, cMu] <;> omega
  | mSpawn v =>
    unfold_step h
    rename_i todo hm hv
    have h1 := (hI.todo todo hm).2 v hv
    have := sum_map_set_lt cfg.svcs s.w v .start h1.1 (by rw [h1.2]; decide)
    simp only [mu, hm, mMu]; omega
  | mWait => unfold_step h; simp_all [mu, mMu]
  | mReturn => unfold_step h; simp_all [mu, mMu]
  | wBegin v =>
    unfold_step h
    have hv := hI.wSvcs v (by simp [*])
    have := sum_map_set_lt cfg.svcs s.w v .running hv (by simp [*, wMu])
    simp only [mu]; omega
  | wReturn v =>
    unfold_step h
    have hv := hI.wSvcs v (by simp [*])
    have := sum_map_set_lt cfg.svcs s.w v .returned hv (by simp [*, wMu])
    simp only [mu]; omega
  | wSend v =>
    unfold_step h
    have hv := hI.wSvcs v (by simp [*])
    have := sum_map_set_lt cfg.svcs s.w v .sent hv (by simp [*, wMu])
    simp only [mu]; omega
  | wExit v =>
    unfold_step h
    have hv := hI.wSvcs v (by simp [*])
    have := sum_map_set_lt cfg.svcs s.w v .exited hv (by simp [*, wMu])
    simp only [mu]; omega
  | wFail v =>
    unfold_step h
    all_goals (
      have hv := hI.wSvcs v (by simp [*])
      have := sum_map_set_lt cfg.svcs s.w v .failed hv (by simp [*, wMu])
      simp only [mu]; omega)
  | cRecv => unfold_step h; simp_all [mu, cMu]
  | cCtxDone => unfold_step h; simp_all [mu, cMu]
  | cStore => unfold_step h <;> simp_all [mu, cMu] <;> omega
  | cReturn => unfold_step h; simp_all [mu, cMu]
  | cExit => unfold_step h; simp_all [mu, cMu]

theorem sum_map_const (l : List V) (c : Nat) : (l.map (fun _ => c)).sum = c * l.length := by
  induction l with
  | nil => simp
  | cons a t ih => simp only [List.map_cons, List.sum_cons, List.length_cons, ih]; rw [Nat.mul_add]; omega

theorem mu_init (cfg : Cfg) : mu cfg (init cfg) = 7 * cfg.svcs.length + 8 := by
  simp only [mu, init, mMu, cMu, wMu, sum_map_const]; omega

theorem reach_run {s' : St} : ∀ (ls : List Label) (s : St), Reach cfg s → run cfg s ls = some s' → Reach cfg s' := by
  intro ls
  induction ls with
  | nil => intro s hs h; simp only [run] at h; cases h; exact hs
  | cons l t ih =>
    intro s hs h
    simp only [run] at h
    cases hst : step? cfg s l with
    | none => simp [hst] at h
    | some s1 => simp only [hst, Option.bind_some] at h; exact ih s1 (.step hs hst) h

theorem run_length (hN : cfg.svcs.Nodup) : ∀ (ls : List Label) (s s' : St), Reach cfg s → run cfg s ls = some s' →
    ls.length + mu cfg s' ≤ mu cfg s := by
  intro ls
  induction ls with
  | nil => intro s s' _ h; simp only [run] at h; cases h; simp
  | cons l t ih =>
    intro s s' hs h
    simp only [run] at h
    cases hst : step? cfg s l with
    | none => simp [hst] at h
    | some s1 =>
      simp only [hst, Option.bind_some] at h
      have h1 := ih s1 s' (.step hs hst) h
      have h2 := mu_decreases (inv_reach hN hs) hst
      simp only [List.length_cons]; omega


/-- all services are stored once the collector has counted down to zero -/
theorem all_stored (hI : Inv cfg s) (he : s.expect = 0) : ∀ v ∈ cfg.svcs, s.item v = .stored := by
  have h := hI.expectCount
  rw [he] at h
  intro v hv
  have := all_of_filter_length_eq (p := fun v => s.item v == .stored) (by omega) v hv
  simpa using this


end CV.Fanout
