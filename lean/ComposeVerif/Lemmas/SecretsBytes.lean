import ComposeVerif.Model.SecretsBytes
import ComposeVerif.Lemmas.SecretsRender
/-!
C20, byte level: a word none of whose characters the encoder ever writes by itself (quotes, escapes, punctuation,
indentation, keywords, digits) occurs in the encoder's output only where it occurs in a key or string of the tree.
-/
namespace CV.Enc

/-- `o` is a rendering of `s` in which every source character is either copied, or replaced by a non-empty
word over the alphabet `A`, and where non-empty words over `A` may be inserted anywhere -/
inductive Rend (A : Char → Prop) : List Char → List Char → Prop
  | nil : Rend A [] []
  | copy (x : Char) {s o : List Char} : Rend A s o → Rend A (x :: s) (x :: o)
  | subst (x : Char) (w : List Char) {s o : List Char} : w ≠ [] → (∀ ch ∈ w, A ch) → Rend A s o → Rend A (x :: s) (w ++ o)
  | ins (w : List Char) {s o : List Char} : w ≠ [] → (∀ ch ∈ w, A ch) → Rend A s o → Rend A s (w ++ o)

theorem prefix_of_rend {A : Char → Prop} {c : List Char} (hc : ∀ ch ∈ c, ¬ A ch) :
    ∀ {s o : List Char}, Rend A s o → c <+: o → c <+: s := by
  intro s o h
  induction h generalizing c with
  | nil => intro hp; exact hp
  | copy x _ ih =>
    intro hp
    cases c with
    | nil => exact List.nil_prefix
    | cons y c' =>
      obtain ⟨rfl, hp'⟩ := List.cons_prefix_cons.1 hp
      exact List.cons_prefix_cons.2 ⟨rfl, ih (fun ch h => hc ch (List.mem_cons_of_mem _ h)) hp'⟩
  | subst x w hw hA _ ih =>
    intro hp
    cases c with
    | nil => exact List.nil_prefix
    | cons y c' =>
      cases w with
      | nil => exact absurd rfl hw
      | cons z w' =>
        obtain ⟨rfl, _⟩ := List.cons_prefix_cons.1 hp
        exact absurd (hA _ List.mem_cons_self) (hc _ List.mem_cons_self)
  | ins w hw hA _ ih =>
    intro hp
    cases c with
    | nil => exact List.nil_prefix
    | cons y c' =>
      cases w with
      | nil => exact absurd rfl hw
      | cons z w' =>
        obtain ⟨rfl, _⟩ := List.cons_prefix_cons.1 hp
        exact absurd (hA _ List.mem_cons_self) (hc _ List.mem_cons_self)

/-- a non-empty word none of whose characters is in `A` occurs in the rendering only where it occurs in the source -/
theorem infix_of_rend {A : Char → Prop} {c : List Char} (hne : c ≠ []) (hc : ∀ ch ∈ c, ¬ A ch) :
    ∀ {s o : List Char}, Rend A s o → c <:+: o → c <:+: s := by
  intro s o h
  induction h with
  | nil => intro hi; exact hi
  | copy x hr ih =>
    intro hi
    rcases List.infix_cons_iff.1 hi with hp | hi'
    · exact (prefix_of_rend hc (Rend.copy x hr) hp).isInfix
    · exact List.infix_cons_iff.2 (.inr (ih hi'))
  | subst x w hw hA hr ih =>
    intro hi
    -- strip the word `w` one character at a time
    have strip : ∀ (w : List Char), (∀ ch ∈ w, A ch) → ∀ {o : List Char}, c <:+: w ++ o → c <:+: o := by
      intro w
      induction w with
      | nil => intro _ _ h; exact h
      | cons z w' ihw =>
        intro hA' o h
        rcases List.infix_cons_iff.1 h with hp | h'
        · cases c with
          | nil => exact absurd rfl hne
          | cons y c' =>
            obtain ⟨rfl, _⟩ := List.cons_prefix_cons.1 hp
            exact absurd (hA' _ List.mem_cons_self) (hc _ List.mem_cons_self)
        · exact ihw (fun ch h => hA' ch (List.mem_cons_of_mem _ h)) h'
    exact List.infix_cons_iff.2 (.inr (ih (strip w hA hi)))
  | ins w hw hA hr ih =>
    intro hi
    have strip : ∀ (w : List Char), (∀ ch ∈ w, A ch) → ∀ {o : List Char}, c <:+: w ++ o → c <:+: o := by
      intro w
      induction w with
      | nil => intro _ _ h; exact h
      | cons z w' ihw =>
        intro hA' o h
        rcases List.infix_cons_iff.1 h with hp | h'
        · cases c with
          | nil => exact absurd rfl hne
          | cons y c' =>
            obtain ⟨rfl, _⟩ := List.cons_prefix_cons.1 hp
            exact absurd (hA' _ List.mem_cons_self) (hc _ List.mem_cons_self)
        · exact ihw (fun ch h => hA' ch (List.mem_cons_of_mem _ h)) h'
    exact ih (strip w hA hi)

end CV.Enc

namespace CV.Enc

theorem Rend.insA {A : Char → Prop} (w : List Char) (hA : ∀ ch ∈ w, A ch) {s o : List Char} (h : Rend A s o) : Rend A s (w ++ o) := by
  cases w with
  | nil => simpa using h
  | cons z w' => exact Rend.ins (z :: w') (by simp) hA h

theorem Rend.append {A : Char → Prop} {s1 o1 : List Char} (h1 : Rend A s1 o1) :
    ∀ {s2 o2 : List Char}, Rend A s2 o2 → Rend A (s1 ++ s2) (o1 ++ o2) := by
  induction h1 with
  | nil => intro s2 o2 h2; simpa using h2
  | copy x _ ih => intro s2 o2 h2; exact Rend.copy x (ih h2)
  | subst x w hw hA _ ih => intro s2 o2 h2; rw [List.cons_append, List.append_assoc]; exact Rend.subst x w hw hA (ih h2)
  | ins w hw hA _ ih => intro s2 o2 h2; rw [List.append_assoc]; exact Rend.ins w hw hA (ih h2)

theorem Rend.word {A : Char → Prop} (w : List Char) (hA : ∀ ch ∈ w, A ch) : Rend A [] w := by
  have := Rend.insA w hA (Rend.nil (A := A))
  simpa using this

end CV.Enc

namespace CV.Bytes
open CV CV.Enc CV.Secrets

/-- the alphabet of `encoding/json`'s own characters, as a predicate -/
def JA (ch : Char) : Prop := ch ∈ jsonAlphabet

instance : DecidablePred JA := fun ch => by unfold JA; infer_instance

theorem hexDigit_JA (n : Nat) : JA (hexDigit n) := by
  unfold hexDigit
  split <;> decide

theorem uEscape_JA (n : Nat) : ∀ ch ∈ uEscape n, JA ch := by
  intro ch h
  simp only [uEscape, List.mem_cons, List.not_mem_nil, or_false] at h
  rcases h with rfl | rfl | rfl | rfl | rfl | rfl
  · decide
  · decide
  all_goals exact hexDigit_JA _

theorem jsonEscChar_cases (ch : Char) : jsonEscChar ch = [ch] ∨ (jsonEscChar ch ≠ [] ∧ ∀ x ∈ jsonEscChar ch, JA x) := by
  unfold jsonEscChar
  repeat' split
  all_goals first
    | exact .inl rfl
    | exact .inr ⟨by simp [uEscape], uEscape_JA _⟩
    | exact .inr ⟨by simp, by decide⟩

theorem rend_escape : ∀ s : List Char, Rend JA s (s.flatMap jsonEscChar)
  | [] => Rend.nil
  | x :: s => by
    simp only [List.flatMap_cons]
    rcases jsonEscChar_cases x with h | ⟨hne, hA⟩
    · rw [h]; exact Rend.copy x (rend_escape s)
    · exact Rend.subst x _ hne hA (rend_escape s)

theorem rend_jsonString (s : List Char) : Rend JA ('"' :: s) (jsonString s) := by
  have h := (rend_escape s).append (Rend.word ['"'] (by decide))
  rw [List.append_nil] at h
  exact Rend.copy '"' h

/-! ### the strings of a tree -/

mutual
def strs : Val → List String
  | .str s => [s]
  | .seq xs => strsL xs
  | .map kvs => strsKV kvs
  | .null => []
  | .bool _ => []
  | .int _ => []
  | .float _ => []
def strsL : List Val → List String
  | [] => []
  | x :: xs => strs x ++ strsL xs
def strsKV : List (String × Val) → List String
  | [] => []
  | (k, v) :: r => k :: (strs v ++ strsKV r)
end

mutual
/-- numbers are written with characters of the alphabet only (true of what Go's formatters produce) -/
def NumOk : Val → Prop
  | .int i => ∀ ch ∈ (toString i).toList, JA ch
  | .float r => ∀ ch ∈ r.toList, JA ch
  | .seq xs => NumOkL xs
  | .map kvs => NumOkKV kvs
  | .str _ => True
  | .null => True
  | .bool _ => True
def NumOkL : List Val → Prop
  | [] => True
  | x :: xs => NumOk x ∧ NumOkL xs
def NumOkKV : List (String × Val) → Prop
  | [] => True
  | (_, v) :: r => NumOk v ∧ NumOkKV r
end

/-- the source the rendering is compared with: every key / string, each preceded by a quote -/
def srcOf (l : List String) : List Char := l.flatMap fun s => '"' :: s.toList

theorem srcOf_append (a b : List String) : srcOf (a ++ b) = srcOf a ++ srcOf b := by simp [srcOf]

theorem indent_JA : ∀ d ch, ch ∈ indent d → JA ch
  | 0, _, h => by simp [indent] at h
  | d + 1, ch, h => by
    simp only [indent, List.mem_cons] at h
    rcases h with rfl | rfl | h
    · decide
    · decide
    · exact indent_JA d ch h

theorem newline_JA (d : Nat) : ∀ ch ∈ newline d, JA ch := by
  intro ch h
  simp only [newline, List.mem_cons] at h
  rcases h with rfl | h
  · decide
  · exact indent_JA d ch h

theorem rend_key (k : String) : Rend JA (srcOf [k]) (jsonString k.toList ++ [':', ' ']) := by
  have h := (rend_jsonString k.toList).append (Rend.word [':', ' '] (by decide))
  simpa [srcOf] using h

mutual
theorem rend_json : ∀ (d : Nat) (v : Val), NumOk v → Rend JA (srcOf (strs v)) (jsonRender d v)
  | _, .null, _ => by simpa [strs, srcOf, jsonRender] using Rend.word "null".toList (by decide)
  | _, .bool b, _ => by
    cases b
    · simpa [strs, srcOf, jsonRender] using Rend.word "false".toList (by decide)
    · simpa [strs, srcOf, jsonRender] using Rend.word "true".toList (by decide)
  | _, .int i, h => by simpa [strs, srcOf, jsonRender] using Rend.word (toString i).toList (by simpa [NumOk] using h)
  | _, .float r, h => by simpa [strs, srcOf, jsonRender] using Rend.word r.toList (by simpa [NumOk] using h)
  | _, .str s, _ => by simpa [strs, srcOf, jsonRender] using rend_jsonString s.toList
  | _, .seq [], _ => by simpa [strs, strsL, srcOf, jsonRender] using Rend.word ['[', ']'] (by decide)
  | d, .seq (x :: xs), h => by
    simp only [NumOk, NumOkL] at h
    simp only [strs, strsL, srcOf_append, jsonRender]
    have h1 := rend_json (d + 1) x h.1
    have h2 := rend_jsonSeqTail (d + 1) xs h.2
    have h3 := (h1.append h2).append (Rend.word (newline d ++ [']']) (by
      intro ch hc; rcases List.mem_append.1 hc with hc | hc
      · exact newline_JA d ch hc
      · simp only [List.mem_cons, List.not_mem_nil, or_false] at hc; subst hc; decide))
    have h4 := Rend.insA ('[' :: newline (d + 1)) (by
      intro ch hc; rcases List.mem_cons.1 hc with rfl | hc
      · decide
      · exact newline_JA _ ch hc) h3
    simpa [List.append_assoc] using h4
  | _, .map [], _ => by simpa [strs, strsKV, srcOf, jsonRender] using Rend.word ['{', '}'] (by decide)
  | d, .map ((k, v) :: r), h => by
    simp only [NumOk, NumOkKV] at h
    simp only [strs, strsKV, jsonRender]
    have hk := rend_key k
    have h1 := rend_json (d + 1) v h.1
    have h2 := rend_jsonMapTail (d + 1) r h.2
    have h3 := ((hk.append h1).append h2).append (Rend.word (newline d ++ ['}']) (by
      intro ch hc; rcases List.mem_append.1 hc with hc | hc
      · exact newline_JA d ch hc
      · simp only [List.mem_cons, List.not_mem_nil, or_false] at hc; subst hc; decide))
    have h4 := Rend.insA ('{' :: newline (d + 1)) (by
      intro ch hc; rcases List.mem_cons.1 hc with rfl | hc
      · decide
      · exact newline_JA _ ch hc) h3
    have e : srcOf (k :: (strs v ++ strsKV r)) = srcOf [k] ++ srcOf (strs v) ++ srcOf (strsKV r) ++ [] := by
      simp [srcOf]
    rw [e]
    simpa [List.append_assoc] using h4
theorem rend_jsonSeqTail : ∀ (d : Nat) (xs : List Val), NumOkL xs → Rend JA (srcOf (strsL xs)) (jsonSeqTail d xs)
  | _, [], _ => by simpa [strsL, srcOf, jsonSeqTail] using (Rend.nil (A := JA))
  | d, x :: xs, h => by
    simp only [NumOkL] at h
    simp only [strsL, srcOf_append, jsonSeqTail]
    have h3 := (rend_json d x h.1).append (rend_jsonSeqTail d xs h.2)
    have h4 := Rend.insA (',' :: newline d) (by
      intro ch hc; rcases List.mem_cons.1 hc with rfl | hc
      · decide
      · exact newline_JA _ ch hc) h3
    simpa [List.append_assoc] using h4
theorem rend_jsonMapTail : ∀ (d : Nat) (r : List (String × Val)), NumOkKV r → Rend JA (srcOf (strsKV r)) (jsonMapTail d r)
  | _, [], _ => by simpa [strsKV, srcOf, jsonMapTail] using (Rend.nil (A := JA))
  | d, (k, v) :: r, h => by
    simp only [NumOkKV] at h
    simp only [strsKV, jsonMapTail]
    have h3 := ((rend_key k).append (rend_json d v h.1)).append (rend_jsonMapTail d r h.2)
    have h4 := Rend.insA (',' :: newline d) (by
      intro ch hc; rcases List.mem_cons.1 hc with rfl | hc
      · decide
      · exact newline_JA _ ch hc) h3
    have e : srcOf (k :: (strs v ++ strsKV r)) = srcOf [k] ++ srcOf (strs v) ++ srcOf (strsKV r) := by
      simp [srcOf]
    rw [e]
    simpa [List.append_assoc] using h4
end

/-! ### from the separated source back to one string -/

theorem prefix_append_cases {c a rest : List Char} (h : c <+: a ++ rest) :
    c <+: a ∨ ∃ b, b ≠ [] ∧ c = a ++ b ∧ b <+: rest := by
  rcases List.prefix_or_prefix_of_prefix h (List.prefix_append a rest) with h1 | h1
  · exact .inl h1
  · obtain ⟨b, rfl⟩ := h1
    by_cases hb : b = []
    · subst hb; exact .inl (by simp)
    · exact .inr ⟨b, hb, rfl, (List.prefix_append_right_inj a).1 h⟩

/-- an occurrence in `s ++ rest` lies in `s` or in `rest`, when it cannot run from `s` into `rest` -/
theorem infix_append_cases {c rest : List Char} (hsep : ∀ b, b ≠ [] → b <+: rest → ∀ a, c ≠ a ++ b) :
    ∀ s : List Char, c <:+: s ++ rest → c <:+: s ∨ c <:+: rest
  | [], h => .inr (by simpa using h)
  | x :: s, h => by
    rw [List.cons_append] at h
    rcases List.infix_cons_iff.1 h with hp | hi
    · rw [← List.cons_append] at hp
      rcases prefix_append_cases hp with h1 | ⟨b, hb, he, hbp⟩
      · exact .inl h1.isInfix
      · exact absurd he (hsep b hb hbp _)
    · rcases infix_append_cases hsep s hi with h1 | h1
      · exact .inl (List.infix_cons_iff.2 (.inr h1))
      · exact .inr h1

theorem infix_srcOf {c : List Char} (hne : c ≠ []) (hq : '"' ∉ c) :
    ∀ l : List String, c <:+: srcOf l → ∃ s ∈ l, c <:+: s.toList
  | [], h => by
    simp only [srcOf, List.flatMap_nil] at h
    exact absurd (List.infix_nil.1 h) hne
  | s :: l, h => by
    have e : srcOf (s :: l) = '"' :: (s.toList ++ srcOf l) := by simp [srcOf]
    rw [e] at h
    rcases List.infix_cons_iff.1 h with hp | hi
    · cases c with
      | nil => exact absurd rfl hne
      | cons y c' =>
        obtain ⟨rfl, _⟩ := List.cons_prefix_cons.1 hp
        exact absurd List.mem_cons_self hq
    · have hsep : ∀ b, b ≠ [] → b <+: srcOf l → ∀ a, c ≠ a ++ b := by
        intro b hb hbp a he
        cases l with
        | nil =>
          simp only [srcOf, List.flatMap_nil] at hbp
          exact hb (List.prefix_nil.1 hbp)
        | cons t l' =>
          have e2 : srcOf (t :: l') = '"' :: (t.toList ++ srcOf l') := by simp [srcOf]
          rw [e2] at hbp
          cases b with
          | nil => exact hb rfl
          | cons z b' =>
            obtain ⟨rfl, _⟩ := List.cons_prefix_cons.1 hbp
            exact hq (he ▸ List.mem_append_right _ List.mem_cons_self)
      rcases infix_append_cases hsep s.toList hi with h1 | h1
      · exact ⟨s, List.mem_cons_self, h1⟩
      · obtain ⟨t, ht, hc⟩ := infix_srcOf hne hq l h1
        exact ⟨t, List.mem_cons_of_mem _ ht, hc⟩

mutual
theorem AllStr_strs {P : String → Prop} : ∀ (v : Val), AllStr P v → ∀ s ∈ strs v, P s
  | .str s, h => by simpa [strs, AllStr] using h
  | .seq xs, h => by simp only [strs]; exact AllStr_strsL xs (by simpa [AllStr] using h)
  | .map kvs, h => by simp only [strs]; exact AllStr_strsKV kvs (by simpa [AllStr] using h)
  | .null, _ => by simp [strs]
  | .bool _, _ => by simp [strs]
  | .int _, _ => by simp [strs]
  | .float _, _ => by simp [strs]
theorem AllStr_strsL {P : String → Prop} : ∀ (xs : List Val), AllStrL P xs → ∀ s ∈ strsL xs, P s
  | [], _ => by simp [strsL]
  | x :: xs, h => by
    simp only [AllStrL] at h
    intro s hs
    simp only [strsL, List.mem_append] at hs
    rcases hs with hs | hs
    · exact AllStr_strs x h.1 s hs
    · exact AllStr_strsL xs h.2 s hs
theorem AllStr_strsKV {P : String → Prop} : ∀ (kvs : List (String × Val)), AllStrKV P kvs → ∀ s ∈ strsKV kvs, P s
  | [], _ => by simp [strsKV]
  | (k, v) :: r, h => by
    simp only [AllStrKV] at h
    intro s hs
    simp only [strsKV, List.mem_cons, List.mem_append] at hs
    rcases hs with rfl | hs | hs
    · exact h.1
    · exact AllStr_strs v h.2.1 s hs
    · exact AllStr_strsKV r h.2.2 s hs
end

/-- **the JSON bytes of a clean tree are clean**: a non-empty word made only of characters `encoding/json` never
writes by itself does not occur in `MarshalIndent` of a tree in none of whose keys and strings it occurs -/
theorem json_bytes_clean {c : List Char} (hne : c ≠ []) (hc : ∀ ch ∈ c, ¬ JA ch) {v : Val} (hn : NumOk v)
    (hv : Clean c v) (d : Nat) : ¬ c <:+: jsonRender d v := by
  intro h
  have h1 := infix_of_rend hne hc (rend_json d v hn) h
  obtain ⟨s, hs, hcs⟩ := infix_srcOf hne (fun hq => hc _ hq (by decide)) _ h1
  exact AllStr_strs v hv s hs ((occursB_iff_infix c _).2 hcs)

/-! ### the rendered sections hold no numbers -/

theorem NumOkKV_append : ∀ {a b : List (String × Val)}, NumOkKV a → NumOkKV b → NumOkKV (a ++ b)
  | [], _, _, hb => by simpa using hb
  | (k, v) :: r, b, ha, hb => by
    simp only [NumOkKV] at ha
    simp only [List.cons_append, NumOkKV]
    exact ⟨ha.1, NumOkKV_append ha.2 hb⟩

theorem NumOkKV_strMap : ∀ m : List (String × String), NumOkKV (m.map fun kv => (kv.1, Val.str kv.2))
  | [] => by simp [NumOkKV]
  | (k, v) :: r => by simp only [List.map, NumOkKV, NumOk]; exact ⟨trivial, NumOkKV_strMap r⟩

theorem NumOkKV_fields (o : FileObj) : NumOkKV o.fields := by
  unfold FileObj.fields
  have hs : ∀ k s, NumOkKV (optStr k s) := by intro k s; unfold optStr; split <;> simp [NumOkKV, NumOk]
  have hb : ∀ k b, NumOkKV (optBool k b) := by intro k b; unfold optBool; split <;> simp [NumOkKV, NumOk]
  have hm : ∀ k m, NumOkKV (optStrMap k m) := by
    intro k m; unfold optStrMap; split
    · simp [NumOkKV]
    · simp only [NumOkKV, NumOk]; exact ⟨NumOkKV_strMap m, trivial⟩
  exact NumOkKV_append (NumOkKV_append (NumOkKV_append (NumOkKV_append (NumOkKV_append (NumOkKV_append
    (NumOkKV_append (NumOkKV_append (hs _ _) (hs _ _)) (hs _ _)) (hs _ _)) (hb _ _)) (hm _ _)) (hs _ _)) (hm _ _)) (hs _ _)

theorem NumOkKV_mapVals_json (f : FileObj → FileObj) : ∀ l : List (String × FileObj),
    NumOkKV (mapVals (fun o => (f o).toJson) l)
  | [] => by simp [mapVals, NumOkKV]
  | (n, o) :: r => by
    simp only [mapVals, List.map, NumOkKV, FileObj.toJson, NumOk]
    exact ⟨NumOkKV_fields _, NumOkKV_mapVals_json f r⟩

theorem NumOk_render_json (b : Bool) (p : Proj) : NumOk (render .json b p) := by
  simp only [render, NumOk]
  have hsec : ∀ k m, NumOkKV m → NumOkKV (sectionKV k m) := by
    intro k m h; unfold sectionKV; split
    · simp [NumOkKV]
    · simp only [NumOkKV, NumOk]; exact ⟨h, trivial⟩
  exact NumOkKV_append (hsec _ _ (NumOkKV_mapVals_json secretBlank _)) (hsec _ _ (NumOkKV_mapVals_json configBlank _))

end CV.Bytes
