import ComposeVerif.Lemmas.C02StageGeneric
import ComposeVerif.Model.Interp
namespace CV.Det.Stage
open CV CV.Deep CV.Interp
open CV.Val (lookup insert keys KVs)

/-! ### `interpolation.Interpolate` respects the equivalence at every nesting level -/

def optI {α : Type} : CV.Interp.Out α → Option α
  | .ok a => some a
  | _ => none

theorem interpKVs_trav (c : Cfg) (p : TPath) (m : KVs) :
    optI (interpKVs c p m) = travOpt (fun k v => optI (interp c (TPath.next p k) v)) m := by
  induction m with
  | nil => simp [interpKVs, travOpt, optI]
  | cons hd tl ih =>
    obtain ⟨k, v⟩ := hd
    rw [interpKVs, travOpt, ← ih]
    cases interp c (TPath.next p k) v <;> simp only [optI]
    cases interpKVs c p tl <;> simp only [optI]

theorem interpList_trav (c : Cfg) (p : TPath) (xs : List Val) :
    optI (interpList c p xs) = travList (fun v => optI (interp c (TPath.next p "[]") v)) xs := by
  induction xs with
  | nil => simp [interpList, travList, optI]
  | cons v tl ih =>
    rw [interpList, travList, ← ih]
    cases interp c (TPath.next p "[]") v <;> simp only [optI]
    cases interpList c p tl <;> simp only [optI]

/-- a cast value is a scalar -/
theorem caster_wf (fp : FloatParser) (k : Caster) (s : String) (z : Val) (h : k.apply fp s = some z) : WF z := by
  cases k <;> simp only [Caster.apply, Option.map_eq_some_iff] at h
  · obtain ⟨i, _, rfl⟩ := h; exact .int i
  · obtain ⟨i, _, rfl⟩ := h; exact .int i
  · obtain ⟨i, _, rfl⟩ := h; exact .float i
  · obtain ⟨i, _, rfl⟩ := h; exact .float i
  · obtain ⟨i, _, rfl⟩ := h; exact .bool i
  · cases h

theorem leaf_wf (c : Cfg) (p : TPath) (s : String) (z : Val) (h : leaf c p s = .ok z) : WF z := by
  unfold leaf at h
  split at h <;> try cases h
  split at h
  · cases h; exact .str _
  · split at h
    · rename_i v hv; cases h; exact caster_wf _ _ _ _ hv
    · cases h

theorem ORel.refl_of {x : Option Val} (h : ∀ z, x = some z → WF z) : ORel Eqv x x := by
  cases x with
  | none => trivial
  | some z => exact Eqv.refl z (h z rfl)

theorem interp_eqv_aux (c : Cfg) {v w : Val} (h : Eqv v w) :
    WF v → WF w → ∀ p, ORel Eqv (optI (interp c p v)) (optI (interp c p w)) := by
  induction h with
  | null => intro _ _ p; simp only [interp, optI, ORel]; exact Eqv.null
  | bool b => intro _ _ p; simp only [interp, optI, ORel]; exact Eqv.bool b
  | int i => intro _ _ p; simp only [interp, optI, ORel]; exact Eqv.int i
  | float s => intro _ _ p; simp only [interp, optI, ORel]; exact Eqv.float s
  | str s =>
    intro _ _ p
    simp only [interp]
    apply ORel.refl_of
    intro z hz
    cases hl : leaf c p s with
    | ok z' => rw [hl] at hz; simp only [optI, Option.some.injEq] at hz; subst hz; exact leaf_wf c p s _ hl
    | err e => rw [hl] at hz; cases hz
    | panic e => rw [hl] at hz; cases hz
  | seqNil => intro _ _ p; simp only [interp, interpList, optI, ORel]; exact Eqv.seqNil
  | @seqCons x y xs ys hxy hrest ih1 ih2 =>
    intro w1 w2 p
    cases w1 with | seqCons wx wxs =>
    cases w2 with | seqCons wy wys =>
    have h1 := ih1 wx wy (TPath.next p "[]")
    have h2 := ih2 wxs wys p
    simp only [interp] at h2 ⊢
    rw [interpList, interpList]
    cases hx : interp c (TPath.next p "[]") x <;> cases hy : interp c (TPath.next p "[]") y <;>
      simp only [hx, hy, optI, ORel] at h1 ⊢ <;> try exact h1.elim
    cases hxs : interpList c p xs <;> cases hys : interpList c p ys <;>
      simp only [hxs, hys, optI, ORel] at h2 ⊢ <;> try exact h2.elim
    exact Eqv.seqCons h1 h2
  | @map a b hnone hval ih =>
    intro w1 w2 p
    have wa := WF.map_iff.mp w1
    have wb := WF.map_iff.mp w2
    have hk := travOpt_meqv (fun k v => optI (interp c (TPath.next p k) v)) (fun k v => optI (interp c (TPath.next p k) v))
      ⟨hnone, hval⟩ wa wb (fun k x y hx hy => ih k x y hx hy (wa.2 k x hx) (wb.2 k y hy) (TPath.next p k))
    rw [← interpKVs_trav, ← interpKVs_trav] at hk
    simp only [interp]
    cases h1 : interpKVs c p a <;> cases h2 : interpKVs c p b <;> simp only [h1, h2, optI, ORel] at hk ⊢
    · exact Eqv.map_iff.mpr hk

end CV.Det.Stage

namespace CV.Det.Stage
open CV CV.Deep CV.Interp
/-- **`interpolation.Interpolate` as a whole tree walk** -/
theorem interp_eqv (c : Cfg) (p : TPath) {v w : Val} (h : Eqv v w) (wv : WF v) (ww : WF w) :
    ORel Eqv (optI (interp c p v)) (optI (interp c p w)) := interp_eqv_aux c h wv ww p
end CV.Det.Stage
