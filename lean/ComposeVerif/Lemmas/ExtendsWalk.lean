import ComposeVerif.Lemmas.ExtendsCycle
import ComposeVerif.Lemmas.ExtendsChain
/-!
# Deciding `Cyclic`: follow the links only

`walkChain E fuel S n` follows the `extends` links from service `n` of mapping `S` — no merge, no tracker — and says
whether the chain ends at a service without `extends` (`leaf`), gets stuck (missing base / file, malformed reference,
not a mapping: `stuck`) or is still going after `fuel` links (`long`).  With more fuel than there are distinct
`(mapping, name)` nodes, `long` is exactly `Cyclic` (pigeonhole).  This is the classification the cycle oracle of
`c05.apply` uses on the specification side.
-/
namespace CV.Extends
open CV CV.Val

/-- on a node whose chain runs into a cycle the walk never ends -/
theorem walkChain_cyclic (E : Env) : ∀ (fuel : Nat) (S : KVs) (n : String), Cyclic E (S, n) →
    walkChain E fuel S n = .long := by
  intro fuel
  induction fuel with
  | zero => intro S n _; simp [walkChain]
  | succ fuel ih =>
    intro S n hc
    obtain ⟨⟨S', ref⟩, l, hcb⟩ := hc.link
    obtain ⟨svc, e, file, h1, h2, h3, h4⟩ := l
    simp only at h1 h3 h4
    simp [walkChain, h1, h2, h3, h4, ih S' ref hcb]

/-- consecutive elements are linked -/
def IsPath (E : Env) : List (KVs × String) → Prop
  | [] => True
  | [_] => True
  | a :: b :: r => Link E a b ∧ IsPath E (b :: r)

/-- a walk that is still going after `fuel` links has followed a path of `fuel + 1` nodes -/
theorem walkChain_long_path (E : Env) : ∀ (fuel : Nat) (S : KVs) (n : String), walkChain E fuel S n = .long →
    ∃ rest : List (KVs × String), rest.length = fuel ∧ IsPath E ((S, n) :: rest) := by
  intro fuel
  induction fuel with
  | zero => intro S n _; exact ⟨[], rfl, trivial⟩
  | succ fuel ih =>
    intro S n h
    simp only [walkChain] at h
    split at h <;> try cases h
    rename_i svc hsvc
    split at h <;> try cases h
    rename_i e he
    split at h <;> try cases h
    rename_i ref file hp
    split at h <;> try cases h
    rename_i S' hb
    obtain ⟨rest, hl, hpth⟩ := ih S' ref h
    exact ⟨(S', ref) :: rest, by simp [hl], ⟨⟨svc, e, file, hsvc, he, hp, hb⟩, hpth⟩⟩

theorem IsPath.tail {E : Env} {a : KVs × String} {l : List (KVs × String)} (h : IsPath E (a :: l)) : IsPath E l := by
  cases l with
  | nil => trivial
  | cons b r => exact h.2

theorem IsPath.suffix {E : Env} : ∀ (l1 l2 : List (KVs × String)), IsPath E (l1 ++ l2) → IsPath E l2
  | [], _, h => h
  | _ :: r, l2, h => IsPath.suffix r l2 (IsPath.tail h)

/-- along a path, a later node is reachable from an earlier one -/
theorem IsPath.reach {E : Env} : ∀ (l2 : List (KVs × String)) (a b : KVs × String) (l3 : List (KVs × String)),
    IsPath E (a :: (l2 ++ b :: l3)) → Reach E a b
  | [], _, _, _, h => Reach.one h.1
  | c :: l2, _, b, l3, h => Reach.cons h.1 (IsPath.reach l2 c b l3 h.2)

theorem exists_dup_of_not_nodup {α : Type} : ∀ (l : List α), ¬ l.Nodup →
    ∃ a l1 l2 l3, l = l1 ++ a :: (l2 ++ a :: l3)
  | [], h => absurd List.nodup_nil h
  | x :: r, h => by
    by_cases hx : x ∈ r
    · obtain ⟨s, t, hst⟩ := List.append_of_mem hx
      exact ⟨x, [], s, t, by simp [hst]⟩
    · have hr : ¬ r.Nodup := fun hn => h (List.nodup_cons.mpr ⟨hx, hn⟩)
      obtain ⟨a, l1, l2, l3, e⟩ := exists_dup_of_not_nodup r hr
      exact ⟨a, x :: l1, l2, l3, by simp [e]⟩

/-- a path that visits some node twice starts at a node whose chain runs into a cycle -/
theorem IsPath.cyclic_of_dup {E : Env} {a : KVs × String} {rest : List (KVs × String)}
    (hp : IsPath E (a :: rest)) (hd : ¬ (a :: rest).Nodup) : Cyclic E a := by
  obtain ⟨c, l1, l2, l3, e⟩ := exists_dup_of_not_nodup _ hd
  have hsuf : IsPath E (c :: (l2 ++ c :: l3)) := IsPath.suffix l1 _ (e ▸ hp)
  have hcc : Reach E c c := IsPath.reach l2 c c l3 hsuf
  cases l1 with
  | nil =>
    simp only [List.nil_append, List.cons.injEq] at e
    rw [e.1]; exact Or.inl hcc
  | cons x l1' =>
    simp only [List.cons_append, List.cons.injEq] at e
    obtain ⟨e1, e2⟩ := e
    subst e1
    have : IsPath E (a :: (l1' ++ c :: (l2 ++ c :: l3))) := by rw [← e2]; exact hp
    exact Or.inr ⟨c, IsPath.reach l1' a c _ this, hcc⟩

/-! ## the finite universe of nodes -/

/-- the services mappings the file system offers -/
def fsMaps (fs : FS) : List KVs :=
  fs.filterMap fun p => match p.2 with
    | .ok doc false => (match lookup "services" doc with | some (.map svcs) => some svcs | _ => none)
    | _ => none

/-- every node a chain starting in `S0` can visit -/
def nodeUniverse (E : Env) (S0 : KVs) : List (KVs × String) :=
  (S0 :: fsMaps E.fs).flatMap fun M => (allNames E S0).map fun k => (M, k)

theorem fileServices_mem_fsMaps {fs : FS} {f : String} {S : KVs} (h : fileServices fs f = some S) : S ∈ fsMaps fs := by
  obtain ⟨doc, hd, hs⟩ := fileServices_inv h
  have hm := fsLookup_mem hd
  simp only [fsMaps, List.mem_filterMap]
  exact ⟨(f, .ok doc false), hm, by simp [hs]⟩

theorem mem_nodeUniverse {E : Env} {S0 M : KVs} {k : String} (hM : M ∈ S0 :: fsMaps E.fs) (hk : k ∈ allNames E S0) :
    (M, k) ∈ nodeUniverse E S0 := by
  simp only [nodeUniverse, List.mem_flatMap, List.mem_map]
  exact ⟨M, hM, k, hk, rfl⟩

/-- a link leads from a node of the universe to a node of the universe -/
theorem Link.in_universe {E : Env} {S0 : KVs} {a b : KVs × String} (l : Link E a b)
    (ha : a.1 ∈ S0 :: fsMaps E.fs ∧ KeysSub E S0 a.1) :
    (b.1 ∈ S0 :: fsMaps E.fs ∧ KeysSub E S0 b.1) ∧ b ∈ nodeUniverse E S0 := by
  obtain ⟨svc, e, file, h1, h2, h3, h4⟩ := l
  obtain ⟨_, href, hnone, hsome⟩ := baseMap_resolveBase (cf := "") (n := a.2) h4
  have hb1 : b.1 ∈ S0 :: fsMaps E.fs ∧ KeysSub E S0 b.1 := by
    cases file with
    | none => rw [hnone rfl]; exact ha
    | some f =>
      have hfs := hsome f rfl
      exact ⟨List.mem_cons_of_mem _ (fileServices_mem_fsMaps hfs), (fileServices_keysSub (S0 := S0) hfs).1⟩
  exact ⟨hb1, mem_nodeUniverse hb1.1 (hb1.2 b.2 href)⟩

theorem IsPath.in_universe {E : Env} {S0 : KVs} : ∀ (rest : List (KVs × String)) (a : KVs × String),
    IsPath E (a :: rest) → (a.1 ∈ S0 :: fsMaps E.fs ∧ KeysSub E S0 a.1) → ∀ x ∈ rest, x ∈ nodeUniverse E S0
  | [], _, _, _ => fun _ hx => by cases hx
  | b :: r, a, h, ha => by
    intro x hx
    obtain ⟨hb1, hb⟩ := Link.in_universe (S0 := S0) h.1 ha
    rcases List.mem_cons.mp hx with rfl | hx'
    · exact hb
    · exact IsPath.in_universe r b h.2 hb1 x hx'

theorem fsMaps_length_le (fs : FS) : (fsMaps fs).length ≤ fs.length := by
  simp only [fsMaps]; exact List.length_filterMap_le _ _

theorem length_flatMap_const {α β : Type} (l : List α) (f : α → List β) (k : Nat) (h : ∀ a, (f a).length = k) :
    (l.flatMap f).length = l.length * k := by
  induction l with
  | nil => simp
  | cons a r ih => simp [List.flatMap_cons, ih, h a, Nat.add_mul, Nat.add_comm]

theorem nodeUniverse_length_le (E : Env) (S0 : KVs) : (nodeUniverse E S0).length ≤ (keyUniverse E S0).length := by
  rw [nodeUniverse, keyUniverse, length_flatMap_const _ _ (allNames E S0).length (fun _ => by simp),
    length_flatMap_const _ _ (allNames E S0).length (fun _ => by simp)]
  apply Nat.mul_le_mul_right
  have := fsMaps_length_le E.fs
  simp only [allFiles, List.length_cons, List.length_map]
  omega

/-- **pigeonhole**: a walk from a service of `S0` that is still going after more links than there are tracker keys has
visited some node twice — the chain runs into a cycle -/
theorem walkChain_long_cyclic (E : Env) (S0 : KVs) (n : String) (fuel : Nat)
    (hfuel : (keyUniverse E S0).length + 1 ≤ fuel) (h : walkChain E fuel S0 n = .long) : Cyclic E (S0, n) := by
  obtain ⟨rest, hl, hp⟩ := walkChain_long_path E fuel S0 n h
  have hsub := IsPath.in_universe (S0 := S0) rest (S0, n) hp ⟨List.mem_cons_self .., KeysSub.self E S0⟩
  apply hp.cyclic_of_dup
  intro hnd
  have hnd' := (List.nodup_cons.mp hnd).2
  cases rest with
  | nil => simp only [List.length_nil] at hl; omega
  | cons b r =>
    letI : DecidableEq (KVs × String) := fun a b => Classical.propDecidable (a = b)
    have hlen := nodup_length_le (b :: r) (nodeUniverse E S0) hnd' hsub
    have hhead : (S0, n) ∈ nodeUniverse E S0 := by
      obtain ⟨svc, e, file, h1, _⟩ := hp.1
      exact mem_nodeUniverse (List.mem_cons_self ..) (KeysSub.self E S0 n (by rw [h1]; simp))
    have hall : ∀ x ∈ (S0, n) :: b :: r, x ∈ nodeUniverse E S0 := by
      intro x hx
      rcases List.mem_cons.mp hx with rfl | hx'
      · exact hhead
      · exact hsub x hx'
    have hlen2 := nodup_length_le ((S0, n) :: b :: r) (nodeUniverse E S0) hnd hall
    have := nodeUniverse_length_le E S0
    simp only [List.length_cons] at hl hlen2
    omega

/-! ## `leaf` ⇔ the service has a chain -/

theorem walkChain_leaf_chain (E : Env) : ∀ (fuel : Nat) (cf : String) (S : KVs) (n : String),
    walkChain E fuel S n = .leaf → ∃ links leaf, Chain E cf S n links leaf ∧ links.length < fuel := by
  intro fuel
  induction fuel with
  | zero => intro cf S n h; simp [walkChain] at h
  | succ fuel ih =>
    intro cf S n h
    simp only [walkChain] at h
    split at h <;> try cases h
    rename_i svc hsvc
    split at h
    · rename_i hne
      exact ⟨[], _, Chain.leaf hsvc hne, by simp⟩
    · rename_i e he
      split at h <;> try cases h
      rename_i ref file hp
      split at h <;> try cases h
      rename_i S' hb
      obtain ⟨links, leaf, hc, hl⟩ := ih (nextFile cf file) S' ref h
      exact ⟨_ :: links, leaf, Chain.step hsvc he hp hb hc, by simp only [List.length_cons]; omega⟩

theorem Chain.walk_leaf {E : Env} {cf : String} {S : KVs} {n : String} {links : List ChainElt} {leaf : ChainElt}
    (h : Chain E cf S n links leaf) : ∀ fuel, links.length < fuel → walkChain E fuel S n = .leaf := by
  induction h with
  | leaf h1 h2 =>
    intro fuel hf
    obtain ⟨k, rfl⟩ : ∃ k, fuel = k + 1 := ⟨fuel - 1, by omega⟩
    simp [walkChain, h1, h2]
  | step h1 h2 h3 h4 h5 ih =>
    intro fuel hf
    obtain ⟨k, rfl⟩ : ∃ k, fuel = k + 1 := ⟨fuel - 1, by omega⟩
    simp only [List.length_cons] at hf
    simp [walkChain, h1, h2, h3, h4, ih k (by omega)]

theorem walkChain_stuck_no_chain (E : Env) : ∀ (fuel : Nat) (cf : String) (S : KVs) (n : String),
    walkChain E fuel S n = .stuck → ¬ ∃ links leaf, Chain E cf S n links leaf := by
  intro fuel
  induction fuel with
  | zero => intro cf S n h; simp [walkChain] at h
  | succ fuel ih =>
    intro cf S n h ⟨links, leaf, hc⟩
    cases hc with
    | leaf g1 g2 => simp [walkChain, g1, g2] at h
    | step g1 g2 g3 g4 g5 =>
      simp only [walkChain, g1, g2, g3, g4] at h
      exact ih _ _ _ h ⟨_, _, g5⟩

/-- a chain is a duplicate-free path: it is never longer than the universe of tracker keys -/
theorem Chain.not_cyclic {E : Env} {cf : String} {S : KVs} {n : String} {links : List ChainElt} {leaf : ChainElt}
    (h : Chain E cf S n links leaf) : ¬ Cyclic E (S, n) := by
  intro hc
  have h1 := h.walk_leaf (links.length + 1) (by omega)
  have h2 := walkChain_cyclic E (links.length + 1) S n hc
  rw [h1] at h2; cases h2

end CV.Extends
