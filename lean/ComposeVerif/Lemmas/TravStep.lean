import ComposeVerif.Model.Trav
/-!
# `Trav.Step`: the transition relation of `Trav.step?` in rule form

`step?_sound` shows every successful `step?` is one of the rules; all invariant proofs go by cases on `Step`.
-/
namespace CV.Trav

inductive Step (g : Graph) (lim : Option Nat) : St → Label → St → Prop
  | schedNext {s : St} {w : Who} {todo : List V} {v : V} :
      getSched s w = some ⟨todo, .next⟩ → v ∈ todo →
      Step g lim s (.schedNext w v) (putSched s w (some ⟨todo.erase v, .ready v⟩))
  | schedEnd {s : St} {w : Who} :
      getSched s w = some ⟨[], .next⟩ → Step g lim s (.schedEnd w) (putSched s w none)
  | readyT {s : St} {w : Who} {todo : List V} {v : V} :
      getSched s w = some ⟨todo, .ready v⟩ → (∀ d ∈ g.pre v, s.status d = .visited) →
      Step g lim s (.ready w) (putSched s w (some ⟨todo, .enter v⟩))
  | readyF {s : St} {w : Who} {todo : List V} {v : V} :
      getSched s w = some ⟨todo, .ready v⟩ → (¬ ∀ d ∈ g.pre v, s.status d = .visited) →
      Step g lim s (.ready w) (putSched s w (some ⟨todo, .next⟩))
  | enterT {s : St} {w : Who} {todo : List V} {v : V} :
      getSched s w = some ⟨todo, .enter v⟩ → s.status v = .absent →
      Step g lim s (.enter w) (putSched { s with status := setStatus s.status v .entered } w (some ⟨todo, .spawn v⟩))
  | enterF {s : St} {w : Who} {todo : List V} {v : V} :
      getSched s w = some ⟨todo, .enter v⟩ → s.status v ≠ .absent →
      Step g lim s (.enter w) (putSched s w (some ⟨todo, .next⟩))
  | spawn {s : St} {w : Who} {todo : List V} {v : V} :
      getSched s w = some ⟨todo, .spawn v⟩ → slotFree lim s = true →
      Step g lim s (.spawn w) (putSched { s with workers := (v, .start) :: s.workers } w (some ⟨todo, .next⟩))
  | wBeginSkip {s : St} {v : V} :
      wpc s.workers v = some .start → g.skip v = true →
      Step g lim s (.wBegin v) { s with workers := setW s.workers v (.returned false) }
  | wBegin {s : St} {v : V} :
      wpc s.workers v = some .start → g.skip v = false →
      Step g lim s (.wBegin v) { s with workers := setW s.workers v .running, log := .start v :: s.log }
  | wReturn {s : St} {v : V} {e : Bool} :
      wpc s.workers v = some .running →
      Step g lim s (.wReturn v e) { s with workers := setW s.workers v (.returned e), log := .finish v e :: s.log }
  | wDone {s : St} {v : V} {e : Bool} :
      wpc s.workers v = some (.returned e) →
      Step g lim s (.wDone v) { s with workers := setW s.workers v (.marked e), status := setStatus s.status v .visited }
  | wSend {s : St} {v : V} {e : Bool} :
      wpc s.workers v = some (.marked e) →
      Step g lim s (.wSend v) { s with workers := setW s.workers v (.sent e), ch := s.ch ++ [v] }
  | wExit {s : St} {v : V} {e : Bool} :
      wpc s.workers v = some (.sent e) →
      Step g lim s (.wExit v)
        { s with workers := s.workers.filter (·.1 ≠ v),
                 cancelled := s.cancelled || e,
                 firstErr := if e then (match s.firstErr with | some x => some x | none => some v) else s.firstErr,
                 errExits := if e then v :: s.errExits else s.errExits }
  | cRecvLast {s : St} {v : V} {rest : List V} :
      s.cAlive = true → s.cSched = none → s.ch = v :: rest → s.expect - 1 = 0 →
      Step g lim s .cRecv { s with ch := rest, received := v :: s.received, expect := s.expect - 1, cAlive := false }
  | cRecvMore {s : St} {v : V} {rest : List V} :
      s.cAlive = true → s.cSched = none → s.ch = v :: rest → s.expect - 1 ≠ 0 →
      Step g lim s .cRecv { s with ch := rest, received := v :: s.received, expect := s.expect - 1,
                                   cSched := some ⟨g.post v, .next⟩ }
  | cCtxDone {s : St} :
      s.cAlive = true → s.cSched = none → s.cancelled = true → s.m = none →
      Step g lim s .cCtxDone { s with cAlive := false }
  | extCancel {s : St} :
      s.extCancelled = false →
      Step g lim s .extCancel { s with cancelled := true, extCancelled := true }

theorem step?_sound {g : Graph} {lim : Option Nat} {s s' : St} {l : Label}
    (h : step? g lim s l = some s') : Step g lim s l s' := by
  cases l with
  | schedNext w v =>
    simp only [step?] at h
    split at h
    · split at h
      · cases h; exact .schedNext ‹_› ‹_›
      · cases h
    · cases h
  | schedEnd w =>
    simp only [step?] at h
    split at h
    · cases h; exact .schedEnd ‹_›
    · cases h
  | ready w =>
    simp only [step?] at h
    split at h
    · split at h
      · cases h
        rename_i hall
        refine .readyT ‹_› ?_
        intro d hd
        have := List.all_eq_true.mp hall d hd
        simpa using this
      · cases h
        rename_i hall
        refine .readyF ‹_› ?_
        intro hc
        apply hall
        rw [List.all_eq_true]
        intro d hd
        simp [hc d hd]
    · cases h
  | enter w =>
    simp only [step?] at h
    split at h
    · split at h
      · cases h; exact .enterT ‹_› ‹_›
      · cases h; exact .enterF ‹_› ‹_›
    · cases h
  | spawn w =>
    simp only [step?] at h
    split at h
    · split at h
      · cases h; exact .spawn ‹_› ‹_›
      · cases h
    · cases h
  | wBegin v =>
    simp only [step?] at h
    split at h
    · split at h
      · cases h; exact .wBeginSkip ‹_› ‹_›
      · cases h; exact .wBegin ‹_› (by simpa using ‹¬ g.skip v = true›)
    · cases h
  | wReturn v e =>
    simp only [step?] at h
    split at h
    · cases h; exact .wReturn ‹_›
    · cases h
  | wDone v =>
    simp only [step?] at h
    split at h
    · cases h; exact .wDone ‹_›
    · cases h
  | wSend v =>
    simp only [step?] at h
    split at h
    · cases h; exact .wSend ‹_›
    · cases h
  | wExit v =>
    simp only [step?] at h
    split at h
    · cases h; exact .wExit ‹_›
    · cases h
  | cRecv =>
    simp only [step?] at h
    split at h
    · rename_i hsel
      simp only [Bool.and_eq_true, Option.isNone_iff_eq_none] at hsel
      split at h
      · split at h
        · cases h; exact .cRecvLast hsel.1 hsel.2 ‹_› ‹_›
        · cases h; exact .cRecvMore hsel.1 hsel.2 ‹_› ‹_›
      · cases h
    · cases h
  | cCtxDone =>
    simp only [step?] at h
    split at h
    · rename_i hsel
      simp only [Bool.and_eq_true, Option.isNone_iff_eq_none] at hsel
      cases h; exact .cCtxDone hsel.1.1.1 hsel.1.1.2 hsel.1.2 hsel.2
    · cases h
  | extCancel =>
    simp only [step?] at h
    split at h
    · cases h
    · cases h; exact .extCancel (by simpa using ‹¬ s.extCancelled = true›)

/-! ### `getSched` / `putSched` -/

theorem getSched_C_some {s : St} {sc : Sched} (h : getSched s .C = some sc) : s.cAlive = true ∧ s.cSched = some sc := by
  simp only [getSched] at h
  split at h
  · exact ⟨‹_›, h⟩
  · cases h

theorem getSched_put_same {s : St} {w : Who} {y : Sched} (x : Option Sched) (h : getSched s w = some y) :
    getSched (putSched s w x) w = x := by
  cases w with
  | M => rfl
  | C => have := (getSched_C_some h).1; simp [getSched, putSched, this]

theorem getSched_put_ne {s : St} {w w' : Who} (x : Option Sched) (h : w' ≠ w) :
    getSched (putSched s w x) w' = getSched s w' := by
  cases w <;> cases w' <;> first | (exact absurd rfl h) | rfl

@[simp] theorem putSched_status (s : St) (w : Who) (x) : (putSched s w x).status = s.status := by cases w <;> rfl
@[simp] theorem putSched_ch (s : St) (w : Who) (x) : (putSched s w x).ch = s.ch := by cases w <;> rfl
@[simp] theorem putSched_received (s : St) (w : Who) (x) : (putSched s w x).received = s.received := by cases w <;> rfl
@[simp] theorem putSched_workers (s : St) (w : Who) (x) : (putSched s w x).workers = s.workers := by cases w <;> rfl
@[simp] theorem putSched_cancelled (s : St) (w : Who) (x) : (putSched s w x).cancelled = s.cancelled := by cases w <;> rfl
@[simp] theorem putSched_cAlive (s : St) (w : Who) (x) : (putSched s w x).cAlive = s.cAlive := by cases w <;> rfl
@[simp] theorem putSched_expect (s : St) (w : Who) (x) : (putSched s w x).expect = s.expect := by cases w <;> rfl
@[simp] theorem putSched_log (s : St) (w : Who) (x) : (putSched s w x).log = s.log := by cases w <;> rfl
@[simp] theorem putSched_firstErr (s : St) (w : Who) (x) : (putSched s w x).firstErr = s.firstErr := by cases w <;> rfl
@[simp] theorem putSched_extCancelled (s : St) (w : Who) (x) : (putSched s w x).extCancelled = s.extCancelled := by cases w <;> rfl
@[simp] theorem putSched_errExits (s : St) (w : Who) (x) : (putSched s w x).errExits = s.errExits := by cases w <;> rfl

/-- the scheduling state of a goroutine only depends on `m`, `cSched`, `cAlive` -/
theorem getSched_congr {s s' : St} (hm : s'.m = s.m) (hc : s'.cSched = s.cSched) (ha : s'.cAlive = s.cAlive) (w : Who) :
    getSched s' w = getSched s w := by
  cases w <;> simp [getSched, hm, hc, ha]

/-! ### workers -/

theorem mem_of_wpc {ws : List (V × WPc)} {v : V} {pc : WPc} (h : wpc ws v = some pc) : (v, pc) ∈ ws := by
  unfold wpc at h
  cases hf : ws.find? (·.1 = v) with
  | none => simp [hf] at h
  | some p =>
    simp [hf] at h
    have hm := List.mem_of_find?_eq_some hf
    have hp := List.find?_some hf
    simp at hp
    obtain ⟨a, b⟩ := p
    simp at hp h
    subst hp; subst h; exact hm

theorem setW_keys (ws : List (V × WPc)) (v : V) (pc : WPc) : (setW ws v pc).map (·.1) = ws.map (·.1) := by
  induction ws with
  | nil => rfl
  | cons p r ih =>
    simp only [setW, List.map_cons] at ih ⊢
    rw [ih]
    split <;> simp_all

theorem mem_setW {ws : List (V × WPc)} {v u : V} {pc q : WPc} (h : (u, q) ∈ setW ws v pc) :
    (u = v ∧ q = pc ∧ ∃ q', (v, q') ∈ ws) ∨ (u ≠ v ∧ (u, q) ∈ ws) := by
  simp only [setW, List.mem_map] at h
  obtain ⟨⟨a, b⟩, hm, he⟩ := h
  by_cases hav : a = v
  · simp [hav] at he
    left; exact ⟨he.1.symm, he.2.symm, b, hav ▸ hm⟩
  · simp [hav] at he
    right; obtain ⟨h1, h2⟩ := he; subst h1; subst h2; exact ⟨hav, hm⟩

theorem mem_setW_of_ne {ws : List (V × WPc)} {v u : V} {pc q : WPc} (hne : u ≠ v) (h : (u, q) ∈ ws) :
    (u, q) ∈ setW ws v pc := by
  simp only [setW, List.mem_map]
  exact ⟨(u, q), h, by simp [hne]⟩

theorem mem_setW_self {ws : List (V × WPc)} {v : V} {pc q : WPc} (h : (v, q) ∈ ws) : (v, pc) ∈ setW ws v pc := by
  simp only [setW, List.mem_map]
  exact ⟨(v, q), h, by simp⟩

/-- with distinct keys a vertex has a single program counter -/
theorem pc_unique {ws : List (V × WPc)} (hn : (ws.map (·.1)).Nodup) {v : V} {p q : WPc}
    (hp : (v, p) ∈ ws) (hq : (v, q) ∈ ws) : p = q := by
  induction ws with
  | nil => cases hp
  | cons x r ih =>
    simp only [List.map_cons, List.nodup_cons] at hn
    rcases List.mem_cons.mp hp with hp1 | hp1 <;> rcases List.mem_cons.mp hq with hq1 | hq1
    · rw [← hp1] at hq1; cases hq1; rfl
    · exfalso; apply hn.1; subst hp1; exact List.mem_map.mpr ⟨(v, q), hq1, rfl⟩
    · exfalso; apply hn.1; subst hq1; exact List.mem_map.mpr ⟨(v, p), hp1, rfl⟩
    · exact ih hn.2 hp1 hq1

end CV.Trav
