import ComposeVerif.Model.Include
import ComposeVerif.Lemmas.PathsClean
/-! Helper lemmas for `Props/C06Rel.lean`: `stripCommon`, the segments of an absolute clean path, popping with `..`. -/
namespace CV.Include
open CV CV.Paths

theorem stripCommon_spec : ∀ (a b : List Str), ∃ c, a = c ++ (stripCommon a b).1 ∧ b = c ++ (stripCommon a b).2
  | [], b => ⟨[], by simp [stripCommon]⟩
  | x :: xs, [] => ⟨[], by simp [stripCommon]⟩
  | x :: xs, y :: ys => by
    simp only [stripCommon]
    split
    · rename_i h; subst h
      obtain ⟨c, h1, h2⟩ := stripCommon_spec xs ys
      exact ⟨x :: c, by simp [← h1], by simp [← h2]⟩
    · exact ⟨[], by simp⟩

/-- the segments of an absolute clean path are its final stack, bottom first -/
theorem relSegs_clean_abs (p : Str) (h : Paths.isAbs p = true) :
    relSegs (Paths.clean p) = (cleanStack p).reverse := by
  have hv := cleanStack_valid p
  have hns := cleanStack_noSlash p
  have hne := valid_ne_nil hv
  unfold relSegs
  have hd : Paths.clean p ≠ dot := by
    intro e
    have := isAbs_clean p
    rw [e, h] at this
    revert this; decide
  simp only [hd, if_false]
  simp only [Paths.clean, h, render, if_true]
  rw [splitSlash_cons_slash]
  cases hl : (cleanStack p).reverse with
  | nil => simp [joinSlash, splitSlash]
  | cons a r =>
    rw [splitSlash_joinSlash _ (by simp)]
    · have : ∀ c ∈ a :: r, c ≠ [] := by
        intro c hc
        have : c ∈ (cleanStack p).reverse := by rw [hl]; exact hc
        exact hne c (List.mem_reverse.mp this)
      rw [List.filter_cons_of_neg (by simp)]
      exact List.filter_eq_self.mpr (fun c hc => by simpa using this c hc)
    · intro c hc
      have : c ∈ (cleanStack p).reverse := by rw [hl]; exact hc
      exact hns c (List.mem_reverse.mp this)


theorem valid_rooted_norm {s : List Str} (hv : Valid true s) : ∀ c ∈ s, Norm c := by
  obtain ⟨k, ns, rfl, hn, hr⟩ := hv
  have : k = 0 := hr rfl
  subst this
  simpa using hn

/-- `n` times `..` on a rooted stack pop its `n` topmost (normal) components -/
theorem foldl_dotdots_pop : ∀ (ns s0 : List Str), (∀ c ∈ ns, Norm c) →
    (List.replicate ns.length dotdot).foldl (step true) (ns ++ s0) = s0
  | [], s0, _ => by simp
  | t :: ns, s0, hn => by
    have ht : t ≠ dotdot := (hn t (by simp)).2.2
    simp only [List.length_cons, List.replicate_succ, List.foldl_cons, List.cons_append]
    rw [step_dotdot_cons, if_neg ht]
    exact foldl_dotdots_pop ns s0 (fun c hc => hn c (by simp [hc]))

theorem cleanStack_append_abs (L y : Str) (hL : Paths.isAbs L = true) :
    cleanStack (L ++ '/' :: y) = (splitSlash y).foldl (step true) (cleanStack L) := by
  have hne : L ≠ [] := by intro e; subst e; simp [Paths.isAbs] at hL
  unfold cleanStack
  rw [isAbs_append L _ hne, hL, splitSlash_append, List.foldl_append]


theorem clean_of_stack_abs (p : Str) (h : Paths.isAbs p = true) : Paths.clean p = render true (cleanStack p).reverse := by
  simp [Paths.clean, h]

theorem norm_noSlash_dotdot : '/' ∉ dotdot := by decide

end CV.Include
