import ComposeVerif.Model.Pipeline
import ComposeVerif.Lemmas.C02StageGeneric
import ComposeVerif.Lemmas.C02Deep4
namespace CV.Det.Whole
open CV CV.Deep CV.Pipeline
open CV.Val (lookup insert keys KVs)

/-! `loader.OmitEmpty` on `Val` trees (what `Pipeline.omitEmpty` computes through the embedding into C01's `GoVal`) -/

def isEmptyV : Val → Bool
  | .null => true
  | .str s => s = ""
  | _ => false

mutual
def omitV (pats : List (List String)) : Val → TPath → Val
  | .map kvs, p => .map (omitKVsV pats kvs p)
  | .seq xs, p => .seq (omitListV pats xs p)
  | v, _ => v
def omitKVsV (pats : List (List String)) : List (String × Val) → TPath → List (String × Val)
  | [], _ => []
  | (k, v) :: r, p =>
      if isEmptyV v && C01.mustOmit pats p then omitKVsV pats r p
      else (k, omitV pats v (p.next k)) :: omitKVsV pats r p
def omitListV (pats : List (List String)) : List Val → TPath → List Val
  | [], _ => []
  | v :: r, p =>
      if isEmptyV v && C01.mustOmit pats p then omitListV pats r p
      else omitV pats v (p.next "[]") :: omitListV pats r p
end

theorem isEmpty_ofVal : ∀ v : Val, C01.isEmpty (ofVal v) = isEmptyV v
  | .null => rfl
  | .bool _ => rfl
  | .int _ => rfl
  | .float _ => rfl
  | .str _ => rfl
  | .seq _ => by simp only [ofVal, C01.isEmpty, isEmptyV]
  | .map _ => by simp only [ofVal, C01.isEmpty, isEmptyV]

mutual
theorem omit_ofVal (pats : List (List String)) : ∀ (v : Val) (p : TPath), toVal (C01.omitEmpty pats (ofVal v) p) = omitV pats v p
  | .null, _ => rfl
  | .bool _, _ => rfl
  | .int _, _ => rfl
  | .float _, _ => rfl
  | .str _, _ => rfl
  | .seq xs, p => by simp only [ofVal, C01.omitEmpty, toVal, omitV, omitList_ofVals pats xs p]
  | .map kvs, p => by simp only [ofVal, C01.omitEmpty, toVal, omitV, omitKVs_ofKVs pats kvs p]
theorem omitList_ofVals (pats : List (List String)) : ∀ (xs : List Val) (p : TPath),
    toVals (C01.omitList pats (ofVals xs) p) = omitListV pats xs p
  | [], _ => rfl
  | v :: r, p => by
    simp only [ofVals, C01.omitList, omitListV, isEmpty_ofVal]
    split
    · exact omitList_ofVals pats r p
    · simp only [toVals, omit_ofVal pats v, omitList_ofVals pats r p]
theorem omitKVs_ofKVs (pats : List (List String)) : ∀ (kvs : List (String × Val)) (p : TPath),
    toKVs (C01.omitKVs pats (ofKVs kvs) p) = omitKVsV pats kvs p
  | [], _ => rfl
  | (k, v) :: r, p => by
    simp only [ofKVs, C01.omitKVs, omitKVsV, isEmpty_ofVal]
    split
    · exact omitKVs_ofKVs pats r p
    · simp only [toKVs, omit_ofVal pats v, omitKVs_ofKVs pats r p]
end

/-- what `Pipeline.omitEmpty` computes -/
theorem omitEmpty_eq (pats : List (List String)) (kvs : KVs) :
    Pipeline.omitEmpty pats (.map kvs) = .ok (.map (omitKVsV pats kvs TPath.root)) := by
  simp only [Pipeline.omitEmpty, C01.omitEmptyTop, C01.omitEmpty, omitKVs_ofKVs]

/-! the loop shape: drop some entries by their value, rewrite the others -/

def fm (drop : Val → Bool) (g : String → Val → Val) : KVs → KVs
  | [] => []
  | (k, v) :: r => if drop v then fm drop g r else (k, g k v) :: fm drop g r

theorem omitKVsV_fm (pats : List (List String)) (p : TPath) : ∀ kvs : KVs,
    omitKVsV pats kvs p = fm (fun v => isEmptyV v && C01.mustOmit pats p) (fun k v => omitV pats v (p.next k)) kvs
  | [] => rfl
  | (k, v) :: r => by simp only [omitKVsV, fm, omitKVsV_fm pats p r]

theorem keys_fm_sub (drop : Val → Bool) (g : String → Val → Val) : ∀ m : KVs, ∀ k, k ∈ keys (fm drop g m) → k ∈ keys m
  | [], _, h => h
  | (k0, v0) :: r, k, h => by
    simp only [fm] at h
    split at h
    · exact List.mem_cons_of_mem _ (keys_fm_sub drop g r k h)
    · simp only [keys, List.map_cons, List.mem_cons] at h ⊢
      rcases h with h | h
      · exact .inl h
      · exact .inr (keys_fm_sub drop g r k h)

theorem nodup_fm (drop : Val → Bool) (g : String → Val → Val) : ∀ m : KVs, (keys m).Nodup → (keys (fm drop g m)).Nodup
  | [], h => h
  | (k0, v0) :: r, h => by
    simp only [keys, List.map_cons, List.nodup_cons] at h
    simp only [fm]
    split
    · exact nodup_fm drop g r h.2
    · simp only [keys, List.map_cons, List.nodup_cons]
      exact ⟨fun hm => h.1 (keys_fm_sub drop g r k0 hm), nodup_fm drop g r h.2⟩

theorem lookup_fm (drop : Val → Bool) (g : String → Val → Val) : ∀ m : KVs, (keys m).Nodup → ∀ k,
    lookup k (fm drop g m) = (match lookup k m with
      | some v => if drop v then none else some (g k v)
      | none => none)
  | [], _, _ => rfl
  | (k0, v0) :: r, h, k => by
    have h' := h
    simp only [keys, List.map_cons, List.nodup_cons] at h'
    by_cases e : k = k0
    · subst e
      rw [lookup_cons_self]
      simp only [fm]
      split
      · rename_i hd
        rw [lookup_fm drop g r h'.2 k]
        have : lookup k r = none := CV.Merge.lookup_eq_none_iff.mpr h'.1
        simp only [this]
      · rename_i hd
        rw [lookup_cons_self]
    · rw [lookup_cons_ne e]
      simp only [fm]
      split
      · exact lookup_fm drop g r h'.2 k
      · rw [lookup_cons_ne e]; exact lookup_fm drop g r h'.2 k

/-- two spellings of one tree, both with distinct keys everywhere -/
def EW (v w : Val) : Prop := Eqv v w ∧ WF v ∧ WF w

theorem isEmptyV_eqv {v w : Val} (h : Eqv v w) : isEmptyV v = isEmptyV w := by
  cases h <;> rfl

/-- the loop respects the equivalence when the recursive calls do -/
theorem fm_mrel (drop : Val → Bool) (g : String → Val → Val) (hdrop : ∀ x y, Eqv x y → drop x = drop y) {a b : KVs}
    (h : MRel a b) (hg : ∀ k x y, lookup k a = some x → lookup k b = some y → EW (g k x) (g k y)) :
    MRel (fm drop g a) (fm drop g b) := by
  obtain ⟨he, wa, wb⟩ := h
  refine ⟨⟨fun k => ?_, fun k x y hx hy => ?_⟩, ⟨nodup_fm drop g a wa.1, fun k z hz => ?_⟩, ⟨nodup_fm drop g b wb.1, fun k z hz => ?_⟩⟩
  · rw [lookup_fm drop g a wa.1, lookup_fm drop g b wb.1]
    cases ha : lookup k a with
    | none => rw [(he.1 k).mp ha]
    | some x =>
      obtain ⟨y, hb, e⟩ := he.lookup_some ha
      rw [hb]; simp only [hdrop x y e]
      split <;> simp
  · rw [lookup_fm drop g a wa.1] at hx
    rw [lookup_fm drop g b wb.1] at hy
    cases ha : lookup k a with
    | none => rw [ha] at hx; cases hx
    | some x0 =>
      obtain ⟨y0, hb, e⟩ := he.lookup_some ha
      rw [ha] at hx; rw [hb] at hy
      simp only [hdrop x0 y0 e] at hx
      split at hx
      · cases hx
      · rename_i hd
        simp only [hd, Bool.false_eq_true, if_false, Option.some.injEq] at hx hy
        subst hx; subst hy
        exact (hg k x0 y0 ha hb).1
  · rw [lookup_fm drop g a wa.1] at hz
    cases ha : lookup k a with
    | none => rw [ha] at hz; cases hz
    | some x0 =>
      obtain ⟨y0, hb, e⟩ := he.lookup_some ha
      rw [ha] at hz
      by_cases hd : drop x0 = true
      · simp only [hd, if_true] at hz; cases hz
      · simp only [hd, Bool.false_eq_true, if_false, Option.some.injEq] at hz
        subst hz; exact (hg k x0 y0 ha hb).2.1
  · rw [lookup_fm drop g b wb.1] at hz
    cases hb : lookup k b with
    | none => rw [hb] at hz; cases hz
    | some y0 =>
      obtain ⟨x0, ha, e⟩ := he.lookup_some' hb
      rw [hb] at hz
      by_cases hd : drop y0 = true
      · simp only [hd, if_true] at hz; cases hz
      · simp only [hd, Bool.false_eq_true, if_false, Option.some.injEq] at hz
        subst hz; exact (hg k x0 y0 ha hb).2.2

/-- **`OmitEmpty` as a whole tree walk**: two spellings of one tree lose the same empty values, and keys stay distinct -/
theorem omitV_ew (pats : List (List String)) {v w : Val} (h : Eqv v w) :
    WF v → WF w → ∀ p, EW (omitV pats v p) (omitV pats w p) := by
  induction h with
  | null => intro wv ww p; exact ⟨.null, wv, ww⟩
  | bool b => intro wv ww p; exact ⟨.bool b, wv, ww⟩
  | int i => intro wv ww p; exact ⟨.int i, wv, ww⟩
  | float s => intro wv ww p; exact ⟨.float s, wv, ww⟩
  | str s => intro wv ww p; exact ⟨.str s, wv, ww⟩
  | seqNil => intro wv ww p; exact ⟨.seqNil, .seqNil, .seqNil⟩
  | @seqCons x y xs ys hx hr ih1 ih2 =>
    intro wv ww p
    cases wv with | seqCons wx wxs =>
    cases ww with | seqCons wy wys =>
    have t := ih2 wxs wys p
    simp only [omitV] at t ⊢
    simp only [omitListV, isEmptyV_eqv hx]
    split
    · exact t
    · have hd := ih1 wx wy (p.next "[]")
      exact ⟨.seqCons hd.1 t.1, .seqCons hd.2.1 t.2.1, .seqCons hd.2.2 t.2.2⟩
  | @map a b h1 h2 ih =>
    intro wv ww p
    have wa := WF.map_iff.mp wv
    have wb := WF.map_iff.mp ww
    simp only [omitV, omitKVsV_fm]
    have := fm_mrel (fun v => isEmptyV v && C01.mustOmit pats p) (fun k v => omitV pats v (p.next k))
      (fun x y e => by simp only [isEmptyV_eqv e]) ⟨⟨h1, h2⟩, wa, wb⟩
      (fun k x y hx hy => ih k x y hx hy (wa.2 k x hx) (wb.2 k y hy) (p.next k))
    exact ⟨Eqv.map_iff.mpr this.1, WF.map_iff.mpr this.2.1, WF.map_iff.mpr this.2.2⟩

end CV.Det.Whole
