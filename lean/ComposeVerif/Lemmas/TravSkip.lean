import ComposeVerif.Model.Trav
import ComposeVerif.Lemmas.DepGraph
/-!
# `t.skip`: with roots, exactly the roots and the services that transitively depend on one are visited
-/
namespace CV.Trav
open CV.DepGraph (Reaches)

theorem Reaches.pos {adj : Nat → List Nat} {n a b : Nat} (h : Reaches adj n a b) : 1 ≤ n := by
  cases h <;> omega

theorem mem_descendents (deps : V → List V) :
    ∀ (f : Nat) (v r : V), r ∈ descendents deps f v ↔ ∃ n, n ≤ f ∧ Reaches deps n v r := by
  intro f
  induction f with
  | zero =>
    intro v r
    simp only [descendents, List.not_mem_nil, false_iff]
    rintro ⟨n, hn, h⟩
    have := Reaches.pos h
    omega
  | succ f ih =>
    intro v r
    simp only [descendents, List.mem_flatMap, List.mem_cons]
    constructor
    · rintro ⟨c, hc, rfl | hr⟩
      · exact ⟨1, by omega, .one hc⟩
      · obtain ⟨n, hn, h⟩ := (ih c r).mp hr
        exact ⟨n + 1, by omega, .step hc h⟩
    · rintro ⟨n, hn, h⟩
      cases h with
      | one hb => exact ⟨r, hb, .inl rfl⟩
      | @step n' _ c _ hc hr => exact ⟨c, hc, .inr ((ih c r).mpr ⟨n', by omega, hr⟩)⟩

/-- **root selection**: `t.skip` lets a service through iff there are no roots, or it is a root, or it depends on a
root through at most `fuel` edges (`fuel` = number of services in `mkGraph`) -/
theorem skipOf_false_iff (deps : V → List V) (fuel : Nat) (after : List V) (v : V) :
    skipOf deps fuel after v = false ↔
      after = [] ∨ v ∈ after ∨ ∃ r ∈ after, ∃ n, n ≤ fuel ∧ Reaches deps n v r := by
  unfold skipOf
  cases after with
  | nil => simp
  | cons a rest =>
    simp only [List.isEmpty_cons, Bool.false_eq_true, if_false]
    by_cases hv : v ∈ a :: rest
    · simp [hv]
    · have hc : (a :: rest).contains v = false := by simpa using hv
      simp only [hc, Bool.false_eq_true, if_false, Bool.not_eq_false', List.any_eq_true, reduceCtorEq, false_or, hv]
      constructor
      · rintro ⟨r, hr, hm⟩
        exact ⟨r, hr, (mem_descendents deps fuel v r).mp (by simpa using hm)⟩
      · rintro ⟨r, hr, hn⟩
        exact ⟨r, hr, by simpa using (mem_descendents deps fuel v r).mpr hn⟩

/-- on a graph whose rank function stays below the fuel the bound on the number of edges is immaterial -/
theorem reaches_le_rank {deps : V → List V} {rk : V → Nat} (hrk : ∀ v c, c ∈ deps v → rk c < rk v)
    {n : Nat} {a b : V} (h : Reaches deps n a b) : n ≤ rk a := by
  induction h with
  | one hb => have := hrk _ _ hb; omega
  | step hc _ ih => have := hrk _ _ hc; omega

end CV.Trav
