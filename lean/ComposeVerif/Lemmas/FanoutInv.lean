import ComposeVerif.Lemmas.Fanout
/-! Preservation of every field of `CV.Fanout.Inv` by every step of the fan-out transition system. -/
namespace CV.Fanout

variable {cfg : Cfg} {s s' : St} {l : Label}

theorem wSvcs_step (hI : Inv cfg s) (h : step? cfg s l = some s') :
    ∀ v, s'.w v ≠ .idle → v ∈ cfg.svcs := by
  intro u hu
  cases l <;> simp only [step?] at h <;> (repeat' split at h) <;> (try cases h) <;> (try exact hI.wSvcs u hu)
  all_goals (
    simp only [set] at hu
    split at hu
    · subst_vars
      first
      | exact ((hI.todo _ ‹_›).2 _ ‹_›).1
      | exact hI.wSvcs _ (by simp [*])
    · exact hI.wSvcs u hu)

theorem cStart_step (hI : Inv cfg s) (h : step? cfg s l = some s') :
    (s'.m = .read ∨ s'.m = .spawnC) ↔ s'.c = .notStarted := by
  have h0 := hI.cStart
  cases l <;> simp only [step?] at h <;> (repeat' split at h) <;> (try cases h) <;> simp_all

theorem pre_step (hI : Inv cfg s) (h : step? cfg s l = some s') :
    (s'.m = .read ∨ s'.m = .spawnC) → ∀ v, s'.w v = .idle := by
  have h0 := hI.pre
  have h1 := hI.cStart
  cases l <;> simp only [step?] at h <;> (repeat' split at h) <;> (try cases h) <;> simp_all
  all_goals (intro hc; have h2 := h0 hc; simp_all)

theorem todo_step (hN : cfg.svcs.Nodup) (hI : Inv cfg s) (h : step? cfg s l = some s') :
    ∀ t, s'.m = .spawning t → t.Nodup ∧ ∀ v ∈ t, v ∈ cfg.svcs ∧ s'.w v = .idle := by
  intro t ht
  have h0 := hI.todo
  have h1 := hI.pre
  have h2 := hI.cStart
  cases l <;> simp only [step?] at h <;> (repeat' split at h) <;> (try cases h) <;> (try exact h0 t ht) <;>
    dsimp only at ht ⊢
  any_goals (cases ht)
  -- mRead in the legacy order cannot happen from `init`; mSpawnC (two variants)
  · exfalso; simp_all
  · exact ⟨hN, fun v hv => ⟨hv, h1 (by simp [*]) v⟩⟩
  · exact ⟨hN, fun v hv => ⟨hv, h1 (by simp [*]) v⟩⟩
  -- mSpawn
  · rename_i v _ todo hm hv
    obtain ⟨hnd, hall⟩ := h0 todo hm
    refine ⟨hnd.erase v, fun u hu => ?_⟩
    have hu' : u ∈ todo := List.mem_of_mem_erase hu
    have hne : u ≠ v := fun e => by subst e; exact ((List.Nodup.mem_erase_iff hnd).mp hu).1 rfl
    exact ⟨(hall u hu').1, by rw [set_other _ _ hne]; exact (hall u hu').2⟩
  -- worker steps: the worker is not idle, the todo services are
  all_goals (
    obtain ⟨hnd, hall⟩ := h0 t ht
    refine ⟨hnd, fun u hu => ⟨(hall u hu).1, ?_⟩⟩
    have hi := (hall u hu).2
    simp only [set]; split
    · subst_vars; simp_all
    · exact hi)

theorem todoAll_step (hI : Inv cfg s) (h : step? cfg s l = some s') :
    ∀ t, s'.m = .spawning t → ∀ v ∈ cfg.svcs, s'.w v = .idle → v ∈ t := by
  intro t ht u hu hi
  have h0 := hI.todoAll
  have h2 := hI.cStart
  cases l <;> simp only [step?] at h <;> (repeat' split at h) <;> (try cases h) <;> (try exact h0 t ht u hu hi) <;>
    dsimp only at ht hi ⊢
  any_goals (cases ht)
  · exfalso; simp_all
  · exact hu
  · exact hu
  -- mSpawn
  · rename_i v _ todo hm hv
    have hne : u ≠ v := fun e => by subst e; simp at hi
    rw [set_other _ _ hne] at hi
    exact (List.mem_erase_of_ne hne).mpr (h0 todo hm u hu hi)
  all_goals (
    simp only [set] at hi
    split at hi
    · cases hi
    · exact h0 t ht u hu hi)

theorem waitAll_step (hI : Inv cfg s) (h : step? cfg s l = some s') :
    (s'.m = .waiting ∨ s'.m = .returned) → ∀ v ∈ cfg.svcs, s'.w v ≠ .idle := by
  intro hm u hu
  have h0 := hI.waitAll
  have h1 := hI.todoAll
  cases l <;> simp only [step?] at h <;> (repeat' split at h) <;> (try cases h) <;> dsimp only at hm ⊢ <;>
    (try exact h0 hm u hu) <;> (try (simp at hm; done))
  -- mWait: nothing is left to spawn
  · intro hi; have := h1 [] ‹_› u hu hi; cases this
  -- mReturn
  · exact h0 (.inl ‹_›) u hu
  all_goals (
    simp only [set]; split
    · simp
    · exact h0 hm u hu)

/-- unfold one step: case split on the guards, substitute the successor state -/
macro "unfold_step" h:ident : tactic =>
  `(tactic| (simp only [step?] at $h:ident <;> (repeat' split at $h:ident) <;> (try cases $h:ident) <;> (try dsimp only at *)))

theorem itemW_step (hI : Inv cfg s) (h : step? cfg s l = some s') :
    ∀ v, s'.item v ≠ .none → (s'.w v = .sent ∨ s'.w v = .exited) := by
  intro u hu
  have h0 := hI.itemW
  have h1 := hI.chItem
  have h2 := hI.gotItem
  cases l with
  | mSpawn v =>
    unfold_step h
    rename_i todo hm hv
    have hne : u ≠ v := fun e => by
      subst e
      have := ((hI.todo todo hm).2 u hv).2
      rcases h0 u hu with h | h <;> simp [this] at h
    rw [set_other _ _ hne]; exact h0 u hu
  | cRecv =>
    unfold_step h
    rename_i v r rest hc hch
    by_cases e : u = v
    · subst e; exact h0 u (by rw [(h1 u r (by simp [hch])).1]; simp)
    · rw [set_other _ _ e] at hu; exact h0 u hu
  | cStore =>
    unfold_step h
    all_goals (
      rename_i v r hc _
      by_cases e : u = v
      · subst e; exact h0 u (by rw [(h2 u r hc).1]; simp)
      · rw [set_other _ _ e] at hu; exact h0 u hu)
  | wSend v =>
    unfold_step h
    by_cases e : u = v
    · subst e; simp
    · rw [set_other _ _ e] at hu ⊢; exact h0 u hu
  | wBegin v | wReturn v | wFail v | wExit v =>
    unfold_step h
    all_goals (
      by_cases e : u = v
      · subst e
        first
        | (simp; done)
        | (exfalso; rcases h0 u hu with h | h <;> simp_all; done)
      · rw [set_other _ _ e]; exact h0 u hu)
  | _ => unfold_step h <;> exact h0 u hu

theorem chItem_step (hI : Inv cfg s) (h : step? cfg s l = some s') :
    ∀ v r, (v, r) ∈ s'.ch → s'.item v = .inCh ∧ cfg.fn v = some r := by
  intro u q hu
  have h0 := hI.chItem
  have hnd := hI.chNodup
  cases l with
  | wSend v =>
    unfold_step h
    rename_i r hf _
    rcases List.mem_append.mp hu with hm | hm
    · have hne : u ≠ v := fun e => by
        subst e
        have := (h0 u q hm).1
        rcases hI.itemW u (by simp [this]) with h | h <;> simp_all
      rw [set_other _ _ hne]; exact h0 u q hm
    · simp at hm; obtain ⟨rfl, rfl⟩ := hm; simp [hf]
  | cRecv =>
    unfold_step h
    rename_i v r rest hc hch
    have hm : (u, q) ∈ s.ch := by rw [hch]; exact List.mem_cons_of_mem _ hu
    have hne : u ≠ v := fun e => by
      subst e
      rw [hch] at hnd
      simp only [List.map_cons, List.nodup_cons] at hnd
      exact hnd.1 (List.mem_map.mpr ⟨(u, q), hu, rfl⟩)
    rw [set_other _ _ hne]; exact h0 u q hm
  | cStore =>
    unfold_step h
    all_goals (
      rename_i v r hc _
      have hne : u ≠ v := fun e => by
        subst e
        have h1 := (h0 u q hu).1
        have h2 := (hI.gotItem u r hc).1
        rw [h1] at h2; cases h2
      rw [set_other _ _ hne]; exact h0 u q hu)
  | _ => unfold_step h <;> exact h0 u q hu

theorem chNodup_step (hI : Inv cfg s) (h : step? cfg s l = some s') : (s'.ch.map Prod.fst).Nodup := by
  have hnd := hI.chNodup
  cases l with
  | wSend v =>
    unfold_step h
    rename_i r hf _
    rw [List.map_append, List.nodup_append]
    refine ⟨hnd, by simp, ?_⟩
    intro a ha b hb
    simp at hb; subst hb
    intro e; subst e
    obtain ⟨⟨x, q⟩, hm, hx⟩ := List.mem_map.mp ha
    simp at hx; subst hx
    have := (hI.chItem x q hm).1
    rcases hI.itemW x (by simp [this]) with h | h <;> simp_all
  | cRecv =>
    unfold_step h
    rename_i v r rest hc hch
    rw [hch] at hnd
    simp only [List.map_cons, List.nodup_cons] at hnd
    exact hnd.2
  | _ => unfold_step h <;> exact hnd

theorem gotItem_step (hI : Inv cfg s) (h : step? cfg s l = some s') :
    ∀ v r, s'.c = .got v r → s'.item v = .got ∧ cfg.fn v = some r := by
  intro u q hu
  have h0 := hI.gotItem
  cases l with
  | wSend v =>
    unfold_step h
    have hne : u ≠ v := fun e => by
      subst e
      have := (h0 u q hu).1
      rcases hI.itemW u (by simp [this]) with h | h <;> simp_all
    rw [set_other _ _ hne]; exact h0 u q hu
  | cRecv =>
    unfold_step h
    rename_i v r rest hc hch
    injection hu with e1 e2; subst e1; subst e2
    exact ⟨by simp, (hI.chItem v r (by simp [hch])).2⟩
  | cStore => unfold_step h <;> simp at hu
  | mSpawnC => unfold_step h <;> simp at hu
  | cCtxDone | cReturn | cExit => unfold_step h <;> simp at hu
  | _ => unfold_step h <;> exact h0 u q hu

theorem accItem_step (hI : Inv cfg s) (h : step? cfg s l = some s') :
    ∀ v, s'.acc v ≠ none ↔ s'.item v = .stored := by
  intro u
  have h0 := hI.accItem u
  cases l with
  | wSend v =>
    unfold_step h
    by_cases e : u = v
    · subst e
      simp only [set_same]
      have : s.item u ≠ .stored := fun hs => by
        rcases hI.itemW u (by simp [hs]) with h | h <;> simp_all
      simp_all
    · rw [set_other _ _ e]; exact h0
  | cRecv =>
    unfold_step h
    rename_i v r rest hc hch
    by_cases e : u = v
    · subst e
      have := (hI.chItem u r (by simp [hch])).1
      simp_all
    · rw [set_other _ _ e]; exact h0
  | cStore =>
    unfold_step h
    all_goals (
      rename_i v r hc _
      by_cases e : u = v
      · subst e; simp
      · rw [set_other _ _ e, set_other _ _ e]; exact h0)
  | _ => unfold_step h <;> exact h0

theorem accFn_step (hI : Inv cfg s) (h : step? cfg s l = some s') :
    ∀ v r, s'.acc v = some r → cfg.fn v = some r := by
  intro u q hu
  have h0 := hI.accFn
  cases l with
  | cStore =>
    unfold_step h
    all_goals (
      rename_i v r hc _
      by_cases e : u = v
      · subst e; simp at hu; subst hu; exact (hI.gotItem u r hc).2
      · rw [set_other _ _ e] at hu; exact h0 u q hu)
  | _ => unfold_step h <;> exact h0 u q hu

theorem cPos_step (hI : Inv cfg s) (h : step? cfg s l = some s') :
    (s'.c = .sel ∨ ∃ v r, s'.c = .got v r) → 1 ≤ s'.expect := by
  intro hu
  have h0 := hI.cPos
  have h1 := hI.cStart
  cases l with
  | mSpawnC => unfold_step h <;> simp_all <;> omega
  | cStore => unfold_step h <;> simp_all <;> omega
  | _ => unfold_step h <;> simp_all

theorem cFin_step (hI : Inv cfg s) (h : step? cfg s l = some s') : s'.c = .fin → s'.expect = 0 := by
  intro hu
  have h0 := hI.cFin
  cases l with
  | _ => unfold_step h <;> simp_all

end CV.Fanout
