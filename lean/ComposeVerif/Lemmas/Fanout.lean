import ComposeVerif.Model.Fanout
/-!
# Invariants of the fan-out transition system (`Model/Fanout.lean`) and their preservation

Helper lemmas only; the property theorems are in `Props/C19.lean`.
-/
namespace CV.Fanout

def sentOrExited : WPc → Bool
  | .sent | .exited => true
  | _ => false

def gotBit : CPc → Nat
  | .got _ _ => 1
  | _ => 0

@[simp] theorem set_same {α : Type} (f : V → α) (v : V) (x : α) : set f v x v = x := by simp [set]
theorem set_other {α : Type} (f : V → α) {v u : V} (x : α) (h : u ≠ v) : set f v x u = f u := by simp [set, h]

/-! ### counting over the service list -/

theorem filter_set_same {α : Type} (l : List V) (f : V → α) (v : V) (x : α) (p : α → Bool) (h : p x = p (f v)) :
    l.filter (fun u => p (set f v x u)) = l.filter (fun u => p (f u)) := by
  apply List.filter_congr
  intro u _
  by_cases hu : u = v
  · subst hu; simp [h]
  · simp [set, hu]

theorem filter_set_gain {α : Type} (l : List V) (hn : l.Nodup) (v : V) (hv : v ∈ l) (f : V → α) (x : α) (p : α → Bool)
    (h0 : p (f v) = false) (h1 : p x = true) :
    (l.filter (fun u => p (set f v x u))).length = (l.filter (fun u => p (f u))).length + 1 := by
  induction l with
  | nil => cases hv
  | cons a t ih =>
    rw [List.nodup_cons] at hn
    by_cases ha : a = v
    · subst ha
      have ht : t.filter (fun u => p (set f a x u)) = t.filter (fun u => p (f u)) := by
        apply List.filter_congr
        intro u hu
        have : u ≠ a := fun e => hn.1 (e ▸ hu)
        simp [set, this]
      simp [h0, h1, ht]
    · have hvt : v ∈ t := by
        rcases List.mem_cons.mp hv with e | e
        · exact absurd e.symm ha
        · exact e
      have := ih hn.2 hvt
      simp only [List.filter_cons, set_other f x ha]
      split <;> simp [this]

theorem filter_length_lt_of_mem {l : List V} {p : V → Bool} {v : V} (hv : v ∈ l) (hp : p v = false) :
    (l.filter p).length < l.length := by
  induction l with
  | nil => cases hv
  | cons a t ih =>
    rcases List.mem_cons.mp hv with e | e
    · subst e
      have := List.length_filter_le p t
      simp only [List.filter_cons, hp, List.length_cons]
      simp only [Bool.false_eq_true, if_false]
      omega
    · have := ih e
      simp only [List.filter_cons]
      split
      · simp only [List.length_cons]; omega
      · simp only [List.length_cons]; omega

theorem all_of_filter_length_eq {l : List V} {p : V → Bool} (h : (l.filter p).length = l.length) :
    ∀ v ∈ l, p v = true := by
  intro v hv
  cases hp : p v with
  | true => rfl
  | false => have := filter_length_lt_of_mem hv hp; omega

theorem sum_map_set_lt (l : List V) (f : V → WPc) (v : V) (x : WPc) (hv : v ∈ l) (hlt : wMu x < wMu (f v)) :
    (l.map (fun u => wMu (set f v x u))).sum < (l.map (fun u => wMu (f u))).sum := by
  induction l with
  | nil => cases hv
  | cons a t ih =>
    have hle : (t.map (fun u => wMu (set f v x u))).sum ≤ (t.map (fun u => wMu (f u))).sum := by
      clear ih hv
      induction t with
      | nil => simp
      | cons b t' ih' =>
        simp only [List.map_cons, List.sum_cons]
        have : wMu (set f v x b) ≤ wMu (f b) := by
          by_cases hb : b = v
          · subst hb; simp; omega
          · simp [set, hb]
        omega
    simp only [List.map_cons, List.sum_cons]
    by_cases ha : a = v
    · subst ha; simp; omega
    · have hvt : v ∈ t := by
        rcases List.mem_cons.mp hv with e | e
        · exact absurd e.symm ha
        · exact e
      have := ih hvt
      rw [set_other f x ha]; omega

end CV.Fanout

namespace CV.Fanout

/-! ### the invariant set -/

structure Inv (cfg : Cfg) (s : St) : Prop where
  wSvcs : ∀ v, s.w v ≠ .idle → v ∈ cfg.svcs
  cStart : (s.m = .read ∨ s.m = .spawnC) ↔ s.c = .notStarted
  pre : (s.m = .read ∨ s.m = .spawnC) → ∀ v, s.w v = .idle
  todo : ∀ t, s.m = .spawning t → t.Nodup ∧ ∀ v ∈ t, v ∈ cfg.svcs ∧ s.w v = .idle
  todoAll : ∀ t, s.m = .spawning t → ∀ v ∈ cfg.svcs, s.w v = .idle → v ∈ t
  waitAll : (s.m = .waiting ∨ s.m = .returned) → ∀ v ∈ cfg.svcs, s.w v ≠ .idle
  itemW : ∀ v, s.item v ≠ .none → (s.w v = .sent ∨ s.w v = .exited)
  chItem : ∀ v r, (v, r) ∈ s.ch → s.item v = .inCh ∧ cfg.fn v = some r
  chNodup : (s.ch.map Prod.fst).Nodup
  gotItem : ∀ v r, s.c = .got v r → s.item v = .got ∧ cfg.fn v = some r
  accItem : ∀ v, s.acc v ≠ none ↔ s.item v = .stored
  accFn : ∀ v r, s.acc v = some r → cfg.fn v = some r
  expectCount : s.expect + (cfg.svcs.filter (fun v => s.item v == .stored)).length = cfg.svcs.length
  chCount : s.ch.length + gotBit s.c + cfg.svcs.length
              = (cfg.svcs.filter (fun v => sentOrExited (s.w v))).length + s.expect
  cPos : (s.c = .sel ∨ ∃ v r, s.c = .got v r) → 1 ≤ s.expect
  cFin : s.c = .fin → s.expect = 0
  cDone : s.c = .done → s.cancelled = true
  cancelIff : s.cancelled = true ↔ s.firstErr ≠ none
  errFails : s.firstErr = s.fails.head?
  failsW : ∀ v, v ∈ s.fails ↔ s.w v = .failed
  failedFn : ∀ v, s.w v = .failed → cfg.fn v = none
  gone : s.c = .gone → (s.services = some s.acc ∧ s.expect = 0) ∨ (s.services = none ∧ s.cancelled = true)
  svcNone : s.c ≠ .gone → s.services = none
  ret : s.m = .returned → s.c = .gone ∧ ∀ v ∈ cfg.svcs, live (s.w v) = false
  callsNodup : s.calls.Nodup
  callsW : ∀ v, v ∈ s.calls ↔ (s.w v ≠ .idle ∧ s.w v ≠ .start)

theorem inv_init (cfg : Cfg) : Inv cfg (init cfg) := by
  constructor <;> simp [init, gotBit, sentOrExited]

end CV.Fanout
