import ComposeVerif.Lemmas.SecretsLoad
/-! Helper lemmas for C20 (round 5): a secret rendered with its content requested. -/
namespace CV.Secrets
open CV CV.Val

theorem ObjOkF_append_left {P : String → Prop} {c : String} : ∀ {a b : KVs}, AllStrKV P a → (∀ kv ∈ a, kv.1 ≠ c) →
    ObjOkF P c b → ObjOkF P c (a ++ b)
  | [], _, _, _, hb => hb
  | (k, v) :: r, b, ha, hk, hb => by
    simp only [AllStrKV] at ha
    have hkc : k ≠ c := hk (k, v) List.mem_cons_self
    simp only [List.cons_append, ObjOkF, if_neg hkc]
    exact ⟨ha.1, ha.2.1, ObjOkF_append_left ha.2.2 (fun kv h => hk kv (List.mem_cons_of_mem _ h)) hb⟩

theorem optStr_keys {k s : String} : ∀ kv ∈ optStr k s, kv.1 = k := by
  intro kv h
  unfold optStr at h
  split at h
  · cases h
  · simp only [List.mem_singleton] at h; subst h; rfl

/-- the fields of a typed object whose only taint is `Content`: clean except the string under the first `content` entry -/
theorem ObjOkF_fields {P : String → Prop} (hv : ∀ k ∈ vocabulary, P k) {o : FileObj} (h : o.CleanBut P) (tail : KVs)
    (ht : AllStrKV P tail) : ObjOkF P "content" (o.fields ++ tail) := by
  have v := fun k (hk : k ∈ vocabulary) => hv k hk
  unfold FileObj.fields
  simp only [List.append_assoc]
  refine ObjOkF_append_left (AllStrKV_optStr (v _ (by decide)) h.name) (fun kv hk => by rw [optStr_keys kv hk]; decide) ?_
  refine ObjOkF_append_left (AllStrKV_optStr (v _ (by decide)) h.file) (fun kv hk => by rw [optStr_keys kv hk]; decide) ?_
  refine ObjOkF_append_left (AllStrKV_optStr (v _ (by decide)) h.environment) (fun kv hk => by rw [optStr_keys kv hk]; decide) ?_
  have hrest : AllStrKV P (optBool "external" o.external ++ (optStrMap "labels" o.labels ++ (optStr "driver" o.driver ++
      (optStrMap "driver_opts" o.driverOpts ++ (optStr "template_driver" o.templateDriver ++ tail))))) :=
    AllStrKV_append (AllStrKV_optBool (v _ (by decide)) (v _ (by decide)) _)
      (AllStrKV_append (AllStrKV_optStrMap (v _ (by decide)) h.labels)
        (AllStrKV_append (AllStrKV_optStr (v _ (by decide)) h.driver)
          (AllStrKV_append (AllStrKV_optStrMap (v _ (by decide)) h.driverOpts)
            (AllStrKV_append (AllStrKV_optStr (v _ (by decide)) h.templateDriver) ht))))
  unfold optStr
  split
  · exact ObjOkF_of_AllStrKV hrest
  · simp only [List.cons_append, List.nil_append, ObjOkF, if_true]
    exact ⟨v _ (by decide), .inl trivial, hrest⟩

/-- a secret rendered with its content requested: clean except the string under the first `content` entry -/
theorem ValOkF_renderSecret_flagged {P : String → Prop} (hv : ∀ k ∈ vocabulary, P k) {o : FileObj} (h : o.CleanBut P)
    (r : Renderer) : ValOkF P "content" (renderSecret r { o with marshallContent := true }) := by
  have hb : secretBlank { o with marshallContent := true } = { o with marshallContent := true } := by simp [secretBlank]
  have h' := CleanBut_setFlag h true
  cases r with
  | yaml =>
    simp only [renderSecret, secretYaml, hb, FileObj.toYaml, ValOkF]
    exact ObjOkF_fields hv h' _ h'.extensions
  | json =>
    simp only [renderSecret, secretJson, hb, FileObj.toJson, ValOkF]
    have := ObjOkF_fields hv h' [] (by simp [AllStrKV])
    simpa using this

end CV.Secrets
