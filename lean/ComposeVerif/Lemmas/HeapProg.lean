import ComposeVerif.Lemmas.Heap
import ComposeVerif.Model.HeapProg
/-! helper lemmas for C14: the invariant every receiver-free heap program maintains -/
namespace CV.Heap

/-! ## variables -/

theorem getVar_bound {P : GoVal → Prop} (hnil : P .nil) :
    ∀ (vars : List (String × GoVal)) (x : String), (∀ y v, (y, v) ∈ vars → y = x → P v) → P (getVar x vars)
  | [], _, _ => by simpa [getVar] using hnil
  | (y, w) :: r, x, h => by
    simp only [getVar]
    split
    · rename_i hy; exact h y w (List.mem_cons_self ..) hy
    · exact getVar_bound hnil r x (fun y' v' hm hy' => h y' v' (List.mem_cons_of_mem _ hm) hy')

theorem mem_setVar : ∀ (vars : List (String × GoVal)) (x : String) (v : GoVal) (y : String) (w : GoVal),
    (y, w) ∈ setVar x v vars → (y = x ∧ w = v) ∨ (y, w) ∈ vars
  | [], x, v, y, w, h => by
    simp only [setVar, List.mem_singleton, Prod.mk.injEq] at h
    exact Or.inl h
  | (z, u) :: r, x, v, y, w, h => by
    simp only [setVar] at h
    split at h
    · rcases List.mem_cons.mp h with h' | h'
      · simp only [Prod.mk.injEq] at h'; exact Or.inl h'
      · exact Or.inr (List.mem_cons_of_mem _ h')
    · rcases List.mem_cons.mp h with h' | h'
      · exact Or.inr (h' ▸ List.mem_cons_self ..)
      · rcases mem_setVar r x v y w h' with h'' | h''
        · exact Or.inl h''
        · exact Or.inr (List.mem_cons_of_mem _ h'')

theorem getVar_setVar_ne : ∀ (vars : List (String × GoVal)) (x y : String) (v : GoVal), x ≠ y →
    getVar y (setVar x v vars) = getVar y vars
  | [], x, y, v, h => by simp [setVar, getVar, h]
  | (z, u) :: r, x, y, v, h => by
    simp only [setVar]
    split
    · rename_i hz
      subst hz
      simp [getVar, h]
    · simp only [getVar]
      split
      · rfl
      · exact getVar_setVar_ne r x y v h

theorem mem_applyWrite : ∀ (vars : List (String × GoVal)) (a : Nat) (c : Cell) (x : String) (v : GoVal),
    (x, v) ∈ applyWrite a c vars → ∃ v0, (x, v0) ∈ vars ∧ v = write a c v0
  | [], _, _, _, _, h => by simp [applyWrite] at h
  | (y, w) :: r, a, c, x, v, h => by
    simp only [applyWrite] at h
    rcases List.mem_cons.mp h with h' | h'
    · simp only [Prod.mk.injEq] at h'
      exact ⟨w, by rw [h'.1]; exact List.mem_cons_self .., h'.2⟩
    · obtain ⟨v0, hm, hv⟩ := mem_applyWrite r a c x v h'
      exact ⟨v0, List.mem_cons_of_mem _ hm, hv⟩

theorem getVar_applyWrite : ∀ (vars : List (String × GoVal)) (a : Nat) (c : Cell) (x : String),
    getVar x (applyWrite a c vars) = write a c (getVar x vars)
  | [], _, _, _ => by simp [applyWrite, getVar, write]
  | (y, w) :: r, a, c, x => by
    simp only [applyWrite, getVar]
    split
    · rfl
    · exact getVar_applyWrite r a c x

/-! ## children -/

theorem addrs_kidOf : ∀ (ks : List (Key × GoVal)) (k : Key) (v : GoVal) (a : Nat),
    kidOf k ks = some v → a ∈ addrs v → a ∈ addrsKids ks
  | [], _, _, _, h, _ => by simp [kidOf] at h
  | (j, w) :: r, k, v, a, h, ha => by
    simp only [kidOf] at h
    simp only [addrsKids, List.mem_append]
    split at h
    · cases h; exact Or.inl ha
    · exact Or.inr (addrs_kidOf r k v a h ha)

theorem addrs_getD_kidOf (ks : List (Key × GoVal)) (k : Key) (a : Nat)
    (ha : a ∈ addrs ((kidOf k ks).getD .nil)) : a ∈ addrsKids ks := by
  cases h : kidOf k ks with
  | none => simp [h, addrs] at ha
  | some v => simp only [h, Option.getD_some] at ha; exact addrs_kidOf ks k v a h ha

theorem addrs_getFld (f : Nat) (v : GoVal) (a : Nat) (ha : a ∈ addrs (getFld f v)) : a ∈ addrs v := by
  cases v with
  | struct ks => simp only [getFld] at ha; simp only [addrs]; exact addrs_getD_kidOf ks _ a ha
  | ptr b w =>
    cases w with
    | struct ks =>
      simp only [getFld] at ha
      simp only [addrs, List.mem_cons]
      exact Or.inr (addrs_getD_kidOf ks _ a ha)
    | _ => simp [getFld, addrs] at ha
  | _ => simp [getFld, addrs] at ha

theorem addrs_getIdx (k : String) (v : GoVal) (a : Nat) (ha : a ∈ addrs (getIdx k v)) : a ∈ addrs v := by
  cases v with
  | map b ks =>
    simp only [getIdx] at ha
    simp only [addrs, List.mem_cons]
    exact Or.inr (addrs_getD_kidOf ks _ a ha)
  | _ => simp [getIdx, addrs] at ha

theorem addrsKids_setKid : ∀ (ks : List (Key × GoVal)) (k : Key) (v : GoVal) (a : Nat),
    a ∈ addrsKids (setKid k v ks) → a ∈ addrsKids ks ∨ a ∈ addrs v
  | [], k, v, a, h => by
    simp only [setKid, addrsKids, List.append_nil] at h
    exact Or.inr h
  | (j, w) :: r, k, v, a, h => by
    simp only [setKid] at h
    split at h
    · simp only [addrsKids, List.mem_append] at h ⊢
      rcases h with h | h
      · exact Or.inr h
      · exact Or.inl (Or.inr h)
    · simp only [addrsKids, List.mem_append] at h ⊢
      rcases h with h | h
      · exact Or.inl (Or.inl h)
      · rcases addrsKids_setKid r k v a h with h' | h'
        · exact Or.inl (Or.inr h')
        · exact Or.inr h'

theorem addrsKids_delKid : ∀ (ks : List (Key × GoVal)) (k : Key) (a : Nat),
    a ∈ addrsKids (delKid k ks) → a ∈ addrsKids ks
  | [], _, _, h => by simp [delKid, addrsKids] at h
  | (j, w) :: r, k, a, h => by
    simp only [delKid] at h
    simp only [addrsKids, List.mem_append]
    split at h
    · exact Or.inr h
    · simp only [addrsKids, List.mem_append] at h
      rcases h with h | h
      · exact Or.inl h
      · exact Or.inr (addrsKids_delKid r k a h)

theorem addrsKids_scalars (l : List String) : addrsKids (l.map fun s => (Key.idx, GoVal.scalar s)) = [] := by
  induction l with
  | nil => simp [addrsKids]
  | cons s r ih => simp [addrsKids, addrs, ih]

/-! ## the invariant -/

/-- `In n m v`: every address of `v` lies in `[n, m)` -/
def In (n m : Nat) (v : GoVal) : Prop := ∀ a ∈ addrs v, n ≤ a ∧ a < m

structure Inv (n : Nat) (p : GoVal) (st : St) : Prop where
  recv : getVar "p" st.vars = p
  le : n ≤ st.next
  fresh : ∀ x v, (x, v) ∈ st.vars → x ≠ "p" → In n st.next v
  log : ∀ w ∈ st.log, n ≤ w.1 ∧ ∀ a ∈ cellAddrs w.2, n ≤ a ∧ a < st.next

theorem In.mono {n m m' : Nat} {v : GoVal} (h : In n m v) (hm : m ≤ m') : In n m' v :=
  fun a ha => by have := h a ha; omega

theorem In.nil (n m : Nat) : In n m .nil := fun a ha => by simp [addrs] at ha

theorem Inv.var {n : Nat} {p : GoVal} {st : St} (h : Inv n p st) (x : String) (hx : x ≠ "p") : In n st.next (getVar x st.vars) :=
  getVar_bound (P := In n st.next) (In.nil n st.next) st.vars x (fun y v hm hy => h.fresh y v hm (hy ▸ hx))

/-- only `vars`, `next`, `log` matter -/
theorem Inv.congr {n : Nat} {p : GoVal} {st st' : St} (h : Inv n p st)
    (hv : st'.vars = st.vars) (hn : st'.next = st.next) (hl : st'.log = st.log) : Inv n p st' :=
  ⟨by rw [hv]; exact h.recv, by rw [hn]; exact h.le, by rw [hv, hn]; exact h.fresh, by rw [hl, hn]; exact h.log⟩

/-- bind a local to a value within range, possibly moving the frontier up -/
theorem Inv.bind {n : Nat} {p : GoVal} {st : St} (h : Inv n p st) (x : String) (hx : x ≠ "p") (v : GoVal) (m : Nat)
    (hm : st.next ≤ m) (hv : In n m v) (st' : St)
    (hvars : st'.vars = setVar x v st.vars) (hnext : st'.next = m) (hlog : st'.log = st.log) : Inv n p st' := by
  refine ⟨?_, ?_, ?_, ?_⟩
  · rw [hvars, getVar_setVar_ne _ _ _ _ hx]; exact h.recv
  · rw [hnext]; have := h.le; omega
  · intro y w hmem hy
    rw [hvars] at hmem
    rw [hnext]
    rcases mem_setVar _ _ _ _ _ hmem with ⟨_, rfl⟩ | hm'
    · exact hv
    · exact (h.fresh y w hm' hy).mono hm
  · intro w hw
    rw [hlog] at hw
    rw [hnext]
    have := h.log w hw
    exact ⟨this.1, fun a ha => by have := this.2 a ha; omega⟩

/-- a heap write above the receiver's frontier whose cell is within range -/
theorem Inv.write {n : Nat} {p : GoVal} {st : St} (h : Inv n p st) (hb : Below n p) (a : Nat) (c : Cell)
    (ha : n ≤ a) (hc : ∀ x ∈ cellAddrs c, n ≤ x ∧ x < st.next) : Inv n p (st.write a c) := by
  refine ⟨?_, h.le, ?_, ?_⟩
  · simp only [St.write, getVar_applyWrite, h.recv]
    apply write_not_mem
    intro hm
    have := hb a hm
    omega
  · intro x v hmem hx
    simp only [St.write] at hmem ⊢
    obtain ⟨v0, hm0, rfl⟩ := mem_applyWrite _ _ _ _ _ hmem
    intro b hbm
    rcases addrs_write v0 a c b hbm with h' | h'
    · exact h.fresh x v0 hm0 hx b h'
    · exact hc b h'
  · intro w hw
    simp only [St.write, List.mem_append, List.mem_singleton] at hw ⊢
    rcases hw with hw | rfl
    · exact h.log w hw
    · exact ⟨ha, hc⟩

theorem Expr.eval_in {n : Nat} {p : GoVal} {st : St} (h : Inv n p st) :
    ∀ (e : Expr), e.rf = true → In n st.next (e.eval st)
  | .var x, hr => by
    simp only [Expr.rf, bne_iff_ne, ne_eq] at hr
    exact h.var x hr
  | .fld e f, hr => fun a ha => Expr.eval_in h e (by simpa [Expr.rf] using hr) a (addrs_getFld f _ a ha)
  | .idx e k, hr => fun a ha => Expr.eval_in h e (by simpa [Expr.rf] using hr) a (addrs_getIdx _ _ a ha)
  | .str s, _ => fun a ha => by simp [Expr.eval, addrs] at ha
  | .nilv, _ => fun a ha => by simp [Expr.eval, addrs] at ha
  | .withFld e f v, hr => by
    simp only [Expr.rf, Bool.and_eq_true] at hr
    have he := Expr.eval_in h e hr.1
    have hv := Expr.eval_in h v hr.2
    intro a ha
    simp only [Expr.eval] at ha
    split at ha
    · rename_i ks hks
      simp only [addrs] at ha
      rcases addrsKids_setKid ks _ _ a ha with h' | h'
      · exact he a (by rw [hks]; simpa [addrs] using h')
      · exact hv a h'
    · exact he a ha

theorem foldKeys_inv (P : St → Prop) (f : St → String → St) (hf : ∀ st k, P st → P (f st k)) :
    ∀ (ks : List String) (st : St), P st → P (foldKeys f ks st)
  | [], _, h => h
  | k :: r, st, h => foldKeys_inv P f hf r (f st k) (hf st k h)

/-! ## every statement of a receiver-free program preserves the invariant -/

section
variable {t : Ty} {plan : Plan} {n : Nat} {p : GoVal}

theorem Inv.stuck {st : St} (h : Inv n p st) (why : String) : Inv n p (st.stuck why) :=
  h.congr rfl rfl rfl

mutual
theorem execS_inv (hd : deep t plan = true) (hb : Below n p) :
    ∀ (s : Stmt) (st : St), s.rf = true → Inv n p st → Inv n p (execS t plan s st)
  | .assign x e, st, hr, h => by
    rw [execS]; split; · exact h
    simp only [Stmt.rf, Bool.and_eq_true, bne_iff_ne, ne_eq] at hr
    exact h.bind x hr.1 _ st.next (Nat.le_refl _) (Expr.eval_in h e hr.2) _ rfl rfl rfl
  | .pset x f, st, _, h => by
    rw [execS]; split; · exact h
    exact h.congr rfl rfl rfl
  | .allocMap x, st, hr, h => by
    rw [execS]; split; · exact h
    simp only [Stmt.rf, bne_iff_ne, ne_eq] at hr
    refine h.bind x hr _ (st.next + 1) (Nat.le_succ _) ?_ _ rfl rfl rfl
    intro a ha
    have : a = st.next := by simpa [addrs, addrsKids] using ha
    have := h.le
    omega
  | .allocSlice x f, st, hr, h => by
    rw [execS]; split; · exact h
    simp only [Stmt.rf, bne_iff_ne, ne_eq] at hr
    split
    · exact h.bind x hr _ st.next (Nat.le_refl _) (In.nil _ _) _ rfl rfl rfl
    · refine h.bind x hr _ (st.next + 1) (Nat.le_succ _) ?_ _ rfl rfl rfl
      intro a ha
      have : a = st.next := by simpa [addrs, addrsKids_scalars] using ha
      have := h.le
      omega
  | .allocPtr x e, st, hr, h => by
    rw [execS]; split; · exact h
    simp only [Stmt.rf, Bool.and_eq_true, bne_iff_ne, ne_eq] at hr
    refine h.bind x hr.1 _ (st.next + 1) (Nat.le_succ _) ?_ _ rfl rfl rfl
    intro a ha
    simp only [addrs, List.mem_cons] at ha
    rcases ha with rfl | ha
    · have := h.le; omega
    · have := Expr.eval_in h e hr.2 a ha; omega
  | .deepCopy x e, st, hr, h => by
    rw [execS]; split; · exact h
    simp only [Stmt.rf, bne_iff_ne, ne_eq] at hr
    simp only
    split
    · rename_i hty
      have hf := exec_fresh (e.eval st) plan t st.next hty hd
      refine h.bind x hr _ _ hf.1 ?_ _ rfl rfl rfl
      intro a ha
      have := hf.2 a ha
      have := h.le
      omega
    · exact h.stuck _
  | .setPtrFld tgt f e, st, hr, h => by
    rw [execS]; split; · exact h
    simp only [Stmt.rf, Bool.and_eq_true] at hr
    have ht := Expr.eval_in h tgt hr.1
    have he := Expr.eval_in h e hr.2
    split
    · rename_i a ks heq
      rw [heq] at ht
      apply h.write hb
      · exact (ht a (by simp [addrs])).1
      · intro x hx
        simp only [cellAddrs, addrs] at hx
        rcases addrsKids_setKid ks _ _ x hx with h' | h'
        · exact ht x (by simp only [addrs, List.mem_cons]; exact Or.inr h')
        · exact he x h'
    · exact h.stuck _
  | .mapStore m k e, st, hr, h => by
    rw [execS]; split; · exact h
    simp only [Stmt.rf, Bool.and_eq_true] at hr
    have hm := Expr.eval_in h m hr.1
    have he := Expr.eval_in h e hr.2
    split
    · rename_i a ks heq
      rw [heq] at hm
      apply h.write hb
      · exact (hm a (by simp [addrs])).1
      · intro x hx
        simp only [cellAddrs] at hx
        rcases addrsKids_setKid ks _ _ x hx with h' | h'
        · exact hm x (by simp only [addrs, List.mem_cons]; exact Or.inr h')
        · exact he x h'
    · exact h.stuck _
  | .mapDelete m k, st, hr, h => by
    rw [execS]; split; · exact h
    simp only [Stmt.rf] at hr
    have hm := Expr.eval_in h m hr
    split
    · rename_i a ks heq
      rw [heq] at hm
      apply h.write hb
      · exact (hm a (by simp [addrs])).1
      · intro x hx
        simp only [cellAddrs] at hx
        exact hm x (by simp only [addrs, List.mem_cons]; exact Or.inr (addrsKids_delKid ks _ x hx))
    · exact h
  | .rangeMap kx vx m body, st, hr, h => by
    rw [execS]; split; · exact h
    simp only [Stmt.rf, Bool.and_eq_true, bne_iff_ne, ne_eq] at hr
    apply foldKeys_inv (Inv n p) _ _ _ _ h
    intro st' k h'
    split
    · exact h'
    · apply execL_inv hd hb body _ hr.2
      refine h'.bind vx hr.1.1 _ st'.next (Nat.le_refl _) ?_ _ rfl rfl rfl
      intro a ha
      exact Expr.eval_in h' m hr.1.2 a (addrs_getIdx _ _ a ha)
  | .rangePure kx l body, st, hr, h => by
    rw [execS]; split; · exact h
    simp only [Stmt.rf] at hr
    apply foldKeys_inv (Inv n p) _ _ _ _ h
    intro st' k h'
    split
    · exact h'
    · exact execL_inv hd hb body _ hr (h'.congr rfl rfl rfl)
  | .ite c a b, st, hr, h => by
    rw [execS]; split; · exact h
    simp only [Stmt.rf, Bool.and_eq_true] at hr
    split
    · exact execL_inv hd hb a st hr.1 h
    · exact execL_inv hd hb b st hr.2 h
  | .fail c cls, st, _, h => by
    rw [execS]; split; · exact h
    split
    · exact h.congr rfl rfl rfl
    · exact h
  | .block tag body, st, hr, h => by
    rw [execS]; split; · exact h
    simp only [Stmt.rf] at hr
    exact execL_inv hd hb body st hr h
  | .opaque tag, st, _, h => by
    rw [execS]; split; · exact h
    exact h
theorem execL_inv (hd : deep t plan = true) (hb : Below n p) :
    ∀ (l : List Stmt) (st : St), rfL l = true → Inv n p st → Inv n p (execL t plan l st)
  | [], st, _, h => by rw [execL]; exact h
  | s :: r, st, hr, h => by
    simp only [rfL, Bool.and_eq_true] at hr
    rw [execL]
    exact execL_inv hd hb r _ hr.2 (execS_inv hd hb s st hr.1 h)
end

end

end CV.Heap
