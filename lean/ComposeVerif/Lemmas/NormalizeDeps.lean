import ComposeVerif.Model.NormalizeDeps
/-! `Normalize` turns every implicit reference into a `depends_on` entry and invents nothing else. -/
namespace CV.Consistency

theorem addDep_mem_old {deps : List (String × Bool)} {x : String} {d : String × Bool} (h : d ∈ deps) : d ∈ addDep deps x := by
  unfold addDep; split
  · exact h
  · exact List.mem_append_left _ h

theorem addDep_has (deps : List (String × Bool)) (x : String) : ∃ r, (x, r) ∈ addDep deps x := by
  unfold addDep
  split
  · rename_i h
    obtain ⟨d, hd, he⟩ := List.any_eq_true.mp h
    have : d.1 = x := by simpa using he
    exact ⟨d.2, by rw [← this]; exact hd⟩
  · exact ⟨true, List.mem_append_right _ (List.mem_singleton.mpr rfl)⟩

theorem addDep_mem {deps : List (String × Bool)} {x : String} {d : String × Bool} (h : d ∈ addDep deps x) :
    d ∈ deps ∨ (d = (x, true) ∧ ∀ r, (x, r) ∉ deps) := by
  unfold addDep at h
  split at h
  · exact .inl h
  · rename_i hn
    rcases List.mem_append.mp h with h | h
    · exact .inl h
    · right
      refine ⟨List.mem_singleton.mp h, fun r hr => hn (List.any_eq_true.mpr ⟨(x, r), hr, by simp⟩)⟩

theorem addOpt_mem_old {deps : List (String × Bool)} {o : Option String} {d : String × Bool} (h : d ∈ deps) : d ∈ addOpt deps o := by
  cases o <;> simp only [addOpt]
  · exact h
  · exact addDep_mem_old h

/-- folding `addOpt ∘ f`: old entries stay, every `f v = some x` gets an entry, every new entry is `(x, true)` for such an `x` -/
theorem foldl_addOpt {α : Type} (f : α → Option String) :
    ∀ (l : List α) (deps : List (String × Bool)),
      (∀ d ∈ deps, d ∈ l.foldl (fun d v => addOpt d (f v)) deps) ∧
      (∀ v ∈ l, ∀ x, f v = some x → ∃ r, (x, r) ∈ l.foldl (fun d v => addOpt d (f v)) deps) ∧
      (∀ d ∈ l.foldl (fun d v => addOpt d (f v)) deps, d ∈ deps ∨ (d.2 = true ∧ (∀ r, (d.1, r) ∉ deps) ∧ ∃ v ∈ l, f v = some d.1))
  | [], deps => ⟨fun _ h => h, fun _ h => (nomatch h), fun _ h => Or.inl h⟩
  | a :: l, deps => by
    obtain ⟨i1, i2, i3⟩ := foldl_addOpt f l (addOpt deps (f a))
    simp only [List.foldl_cons]
    refine ⟨fun d hd => i1 d (addOpt_mem_old hd), ?_, ?_⟩
    · intro v hv x hx
      rcases List.mem_cons.mp hv with rfl | hv'
      · obtain ⟨r, hr⟩ := addDep_has deps x
        exact ⟨r, i1 _ (by rw [hx]; exact hr)⟩
      · exact i2 v hv' x hx
    · intro d hd
      rcases i3 d hd with h | ⟨h2, hn, v, hv, hf⟩
      · cases hfa : f a with
        | none => rw [hfa] at h; exact .inl h
        | some x =>
          rw [hfa] at h
          rcases addDep_mem h with h | ⟨rfl, hn⟩
          · exact .inl h
          · exact .inr ⟨rfl, hn, a, List.mem_cons_self .., hfa⟩
      · exact .inr ⟨h2, fun r hr => hn r (addOpt_mem_old hr), v, List.mem_cons_of_mem _ hv, hf⟩

theorem normDeps_eq (r : RawRefs) :
    normDeps r = r.volumesFrom.foldl (fun d v => addOpt d (volumesFromTarget v))
      (r.namespaces.foldl (fun d v => addOpt d (serviceRef v))
        (r.links.foldl (fun d l => addOpt d (some (linkTarget l))) r.dependsOn)) := rfl

theorem mem_implicitRefs (r : RawRefs) (x : String) :
    x ∈ implicitRefs r ↔ (∃ l ∈ r.links, linkTarget l = x) ∨ (∃ v ∈ r.namespaces, serviceRef v = some x) ∨
      (∃ v ∈ r.volumesFrom, volumesFromTarget v = some x) := by
  simp only [implicitRefs, List.mem_append, List.mem_map, List.mem_filterMap, or_assoc]

/-- **every implicit reference becomes a `depends_on` entry, explicit entries are kept** -/
theorem normDeps_covers (r : RawRefs) :
    (∀ d ∈ r.dependsOn, d ∈ normDeps r) ∧ (∀ x ∈ implicitRefs r, ∃ q, (x, q) ∈ normDeps r) := by
  rw [normDeps_eq]
  obtain ⟨a1, a2, -⟩ := foldl_addOpt (fun l => some (linkTarget l)) r.links r.dependsOn
  obtain ⟨b1, b2, -⟩ := foldl_addOpt serviceRef r.namespaces
    (r.links.foldl (fun d l => addOpt d (some (linkTarget l))) r.dependsOn)
  obtain ⟨c1, c2, -⟩ := foldl_addOpt volumesFromTarget r.volumesFrom
    (r.namespaces.foldl (fun d v => addOpt d (serviceRef v))
      (r.links.foldl (fun d l => addOpt d (some (linkTarget l))) r.dependsOn))
  refine ⟨fun d hd => c1 _ (b1 _ (a1 _ hd)), ?_⟩
  intro x hx
  rcases (mem_implicitRefs r x).mp hx with ⟨l, hl, rfl⟩ | ⟨v, hv, hs⟩ | ⟨v, hv, hs⟩
  · obtain ⟨q, hq⟩ := a2 l hl _ rfl
    exact ⟨q, c1 _ (b1 _ hq)⟩
  · obtain ⟨q, hq⟩ := b2 v hv x hs
    exact ⟨q, c1 _ hq⟩
  · exact c2 v hv x hs

/-- **nothing else is invented**: an entry of the result is an explicit one, or `(x, required)` for an implicit
reference `x` that had no explicit entry -/
theorem normDeps_only (r : RawRefs) (d : String × Bool) (hd : d ∈ normDeps r) :
    d ∈ r.dependsOn ∨ (d.2 = true ∧ d.1 ∈ implicitRefs r ∧ ∀ q, (d.1, q) ∉ r.dependsOn) := by
  rw [normDeps_eq] at hd
  obtain ⟨a1, -, a3⟩ := foldl_addOpt (fun l => some (linkTarget l)) r.links r.dependsOn
  obtain ⟨b1, -, b3⟩ := foldl_addOpt serviceRef r.namespaces
    (r.links.foldl (fun d l => addOpt d (some (linkTarget l))) r.dependsOn)
  obtain ⟨-, -, c3⟩ := foldl_addOpt volumesFromTarget r.volumesFrom
    (r.namespaces.foldl (fun d v => addOpt d (serviceRef v))
      (r.links.foldl (fun d l => addOpt d (some (linkTarget l))) r.dependsOn))
  have fromLinks : ∀ e, e ∈ r.links.foldl (fun d l => addOpt d (some (linkTarget l))) r.dependsOn →
      e ∈ r.dependsOn ∨ (e.2 = true ∧ e.1 ∈ implicitRefs r ∧ ∀ q, (e.1, q) ∉ r.dependsOn) := by
    intro e he
    rcases a3 e he with h | ⟨h2, hn, l, hl, hf⟩
    · exact .inl h
    · exact .inr ⟨h2, (mem_implicitRefs r _).mpr (.inl ⟨l, hl, by simpa using hf⟩), hn⟩
  have fromNs : ∀ e, e ∈ r.namespaces.foldl (fun d v => addOpt d (serviceRef v))
        (r.links.foldl (fun d l => addOpt d (some (linkTarget l))) r.dependsOn) →
      e ∈ r.dependsOn ∨ (e.2 = true ∧ e.1 ∈ implicitRefs r ∧ ∀ q, (e.1, q) ∉ r.dependsOn) := by
    intro e he
    rcases b3 e he with h | ⟨h2, hn, v, hv, hf⟩
    · exact fromLinks e h
    · exact .inr ⟨h2, (mem_implicitRefs r _).mpr (.inr (.inl ⟨v, hv, hf⟩)), fun q hq => hn q (a1 _ hq)⟩
  rcases c3 d hd with h | ⟨h2, hn, v, hv, hf⟩
  · exact fromNs d h
  · exact .inr ⟨h2, (mem_implicitRefs r _).mpr (.inr (.inr ⟨v, hv, hf⟩)), fun q hq => hn q (b1 _ (a1 _ hq))⟩

end CV.Consistency
