import ComposeVerif.Model.PathsOrigin
import ComposeVerif.Lemmas.PathsStr
/-! `filepath.Rel` inverts `Join` (C12): `Join(base, Rel(base, targ)) = Clean(targ)` for absolute paths. -/
namespace CV.Paths

theorem comps_norm_of_abs (p : Str) (h : isAbs p = true) : ∀ c ∈ comps p, Norm c := by
  have hv := cleanStack_valid p
  rw [h] at hv
  obtain ⟨k, ns, he, hn, hk⟩ := hv
  have : k = 0 := hk rfl
  subst this
  intro c hc
  simp only [comps, he, List.replicate_zero, List.append_nil, List.mem_reverse] at hc
  exact hn c hc

theorem comps_noSlash (p : Str) : ∀ c ∈ comps p, '/' ∉ c := by
  intro c hc
  exact cleanStack_noSlash p c (by simpa [comps] using hc)

theorem relC_decomp : ∀ (B T L : List Str), relC B T = some L →
    ∃ C B' T', B = C ++ B' ∧ T = C ++ T' ∧ L = List.replicate B'.length dotdot ++ T'
  | [], T, L, h => by
    simp only [relC, Option.some.injEq] at h
    exact ⟨[], [], T, rfl, rfl, by simp [h]⟩
  | b :: B, [], L, h => by
    simp only [relC] at h
    split at h
    · cases h
    · simp only [Option.some.injEq] at h
      exact ⟨[], b :: B, [], rfl, rfl, by simp [← h]⟩
  | b :: B, t :: T, L, h => by
    simp only [relC] at h
    split at h
    · rename_i hbt
      obtain ⟨C, B', T', h1, h2, h3⟩ := relC_decomp B T L h
      exact ⟨b :: C, B', T', by simp [h1], by simp [h2, hbt], h3⟩
    · split at h
      · cases h
      · simp only [Option.some.injEq] at h
        exact ⟨[], b :: B, t :: T, rfl, rfl, by simp [← h]⟩

theorem relC_total : ∀ (B T : List Str), (∀ c ∈ B, c ≠ dotdot) → ∃ L, relC B T = some L
  | [], T, _ => ⟨T, rfl⟩
  | b :: B, [], h => by
    have := h b (by simp)
    exact ⟨List.replicate (B.length + 1) dotdot, by simp [relC, this]⟩
  | b :: B, t :: T, h => by
    simp only [relC]
    split
    · exact relC_total B T (fun c hc => h c (by simp [hc]))
    · have := h b (by simp)
      simp [this]

theorem foldl_pop (r : Bool) (B' S : List Str) (hn : ∀ x ∈ B', Norm x) :
    (List.replicate B'.length dotdot).foldl (step r) (B'.reverse ++ S) = S := by
  induction B' using rev_ind with
  | h0 => simp
  | h1 B'' x ih =>
    have hx := hn x (by simp)
    simp only [List.length_append, List.length_singleton, List.replicate_succ, List.reverse_append,
      List.reverse_singleton, List.singleton_append, List.cons_append, List.foldl_cons]
    rw [step_dotdot_cons]
    simp only [hx.2.2, if_false]
    exact ih (fun y hy => hn y (by simp [hy]))

theorem joinSlash_rel_head (L : List Str) (hne : L ≠ []) (hp : ∀ c ∈ L, c ≠ []) (hs : ∀ c ∈ L, '/' ∉ c) :
    joinSlash L ≠ [] ∧ isAbs (joinSlash L) = false := by
  have h1 := joinSlash_head_not_slash L hp hs
  cases L with
  | nil => exact absurd rfl hne
  | cons a r =>
    have ha := hp a (by simp)
    constructor
    · cases r with
      | nil => simpa [joinSlash] using ha
      | cons b r' => simp [joinSlash, ha]
    · simp only [isAbs]
      simpa using h1

/-- `filepath.Rel` between absolute paths never fails, yields a non-empty relative path, and inverts `Join` -/
theorem rel_join (b t : Str) (hb : isAbs b = true) (ht : isAbs t = true) :
    ∃ r, rel b t = some r ∧ r ≠ [] ∧ isAbs r = false ∧ join b r = clean t := by
  have hbne : b ≠ [] := by intro e; simp [e, isAbs] at hb
  have hBn := comps_norm_of_abs b hb
  have hTn := comps_norm_of_abs t ht
  -- the stack after reading `b`
  have hstack : ∀ L : List Str, L ≠ [] → (∀ c ∈ L, '/' ∉ c) →
      cleanStack (b ++ '/' :: joinSlash L) = L.foldl (step true) (comps b).reverse := by
    intro L hne hs
    unfold cleanStack
    rw [isAbs_append _ _ hbne, hb, splitSlash_append, List.foldl_append, splitSlash_joinSlash L hne hs]
    simp [comps, cleanStack, hb]
  unfold rel
  simp only [hb, ht, bne_self_eq_false, Bool.false_eq_true, if_false]
  by_cases heq : comps b = comps t
  · simp only [heq, if_true]
    refine ⟨dot, rfl, by simp [dot], by simp [isAbs, dot], ?_⟩
    rw [join_of_ne b _ hbne]
    have h1 : isAbs (b ++ '/' :: dot) = true := by rw [isAbs_append _ _ hbne]; exact hb
    have h2 : cleanStack (b ++ '/' :: dot) = cleanStack t := by
      have := hstack [dot] (by simp) (by simp [dot])
      simp only [joinSlash, List.foldl_cons, List.foldl_nil, step_skip true _ dot (.inr rfl)] at this
      rw [this, heq]; simp [comps]
    show render (isAbs (b ++ '/' :: dot)) (cleanStack (b ++ '/' :: dot)).reverse = clean t
    rw [h1, h2]; unfold clean; rw [ht]
  · simp only [heq, if_false, ht, Bool.not_true, Bool.false_and]
    obtain ⟨L, hL⟩ := relC_total (comps b) (comps t) (fun c hc => (hBn c hc).2.2)
    obtain ⟨C, B', T', e1, e2, e3⟩ := relC_decomp _ _ _ hL
    have hLne : L ≠ [] := by
      intro e
      rw [e] at e3
      have : B' = [] ∧ T' = [] := by
        cases B' with
        | nil => simpa using e3.symm
        | cons x xs => simp [List.replicate_succ] at e3
      apply heq; rw [e1, e2, this.1, this.2]
    have hB'n : ∀ x ∈ B', Norm x := fun x hx => hBn x (by rw [e1]; simp [hx])
    have hT'n : ∀ x ∈ T', Norm x := fun x hx => hTn x (by rw [e2]; simp [hx])
    have hLs : ∀ c ∈ L, '/' ∉ c := by
      intro c hc
      rw [e3] at hc
      simp only [List.mem_append, List.mem_replicate] at hc
      rcases hc with h | h
      · rw [h.2]; simp [dotdot]
      · exact comps_noSlash t c (by rw [e2]; simp [h])
    have hLp : ∀ c ∈ L, c ≠ [] := by
      intro c hc
      rw [e3] at hc
      simp only [List.mem_append, List.mem_replicate] at hc
      rcases hc with h | h
      · rw [h.2]; exact dotdot_ne_nil
      · exact (hT'n c h).1
    have hj := joinSlash_rel_head L hLne hLp hLs
    refine ⟨joinSlash L, by simp [hL], hj.1, hj.2, ?_⟩
    rw [join_of_ne b _ hbne]
    have h1 : isAbs (b ++ '/' :: joinSlash L) = true := by rw [isAbs_append _ _ hbne]; exact hb
    have h2 : cleanStack (b ++ '/' :: joinSlash L) = cleanStack t := by
      rw [hstack L hLne hLs, e3, List.foldl_append, e1, List.reverse_append, foldl_pop true B' _ hB'n,
        foldl_step_norms true T' _ hT'n]
      have : cleanStack t = (comps t).reverse := by simp [comps]
      rw [this, e2]; simp
    show render (isAbs (b ++ '/' :: joinSlash L)) (cleanStack (b ++ '/' :: joinSlash L)).reverse = clean t
    rw [h1, h2]; unfold clean; rw [ht]

/-! ### `filepath.Dir` of an absolute path is absolute and clean -/

theorem dirPrefix_cons_slash (q : Str) : dirPrefix ('/' :: q) = '/' :: dirPrefix q := by
  unfold dirPrefix
  rw [splitSlash_cons_slash]
  have hne := splitSlash_ne_nil q
  cases hr : (splitSlash q).reverse with
  | nil => simp at hr; exact absurd hr hne
  | cons l rr => simp [hr]

theorem isAbs_dir (p : Str) (h : isAbs p = true) : isAbs (dir p) = true := by
  cases p with
  | nil => simp [isAbs] at h
  | cons c q =>
    simp only [isAbs, List.head?_cons, Option.some.injEq, decide_eq_true_eq] at h
    subst h
    unfold dir
    rw [isAbs_clean, dirPrefix_cons_slash]
    simp [isAbs]

theorem clean_dir (p : Str) : clean (dir p) = dir p := clean_idem _

theorem isAbs_absIn (lw p : Str) (h : isAbs lw = true) : isAbs (absIn lw p) = true := by
  unfold absIn
  split
  · assumption
  · exact isAbs_join lw p h

/-! ### `localResourceLoader.Dir` -/

/-- the relative directory computed for a file: joined back onto the loader's working directory it is the
(absolute) directory part of the file reference -/
theorem loaderDir_of_file (isDir : Str → Bool) (lw orig : Str) (hlw : isAbs lw = true)
    (hnd : isDir (absIn lw orig) = false) :
    loaderDir isDir lw orig ≠ [] ∧ isAbs (loaderDir isDir lw orig) = false ∧
      join lw (loaderDir isDir lw orig) = clean (absIn lw (dir orig)) := by
  obtain ⟨r, hr, h1, h2, h3⟩ := rel_join lw (absIn lw (dir orig)) hlw (isAbs_absIn lw _ hlw)
  have : loaderDir isDir lw orig = r := by simp [loaderDir, hnd, hr]
  rw [this]; exact ⟨h1, h2, h3⟩

/-- … and for a directory (`project_directory`): joined back it is that directory -/
theorem loaderDir_of_dir (isDir : Str → Bool) (lw orig : Str) (hlw : isAbs lw = true)
    (hd : isDir (absIn lw orig) = true) :
    loaderDir isDir lw orig ≠ [] ∧ isAbs (loaderDir isDir lw orig) = false ∧
      join lw (loaderDir isDir lw orig) = clean (absIn lw orig) := by
  obtain ⟨r, hr, h1, h2, h3⟩ := rel_join lw (absIn lw orig) hlw (isAbs_absIn lw _ hlw)
  have : loaderDir isDir lw orig = r := by simp [loaderDir, hd, hr]
  rw [this]; exact ⟨h1, h2, h3⟩

theorem absIn_of_abs (lw p : Str) (h : isAbs p = true) : absIn lw p = p := by simp [absIn, h]

/-! ### staged resolution collapses to one resolution against the joined directory -/

theorem applyStages_two (k : Nat) (cfg : Cfg) (R W s : Str) (hW : W ≠ []) (hR : R ≠ []) (hRr : isAbs R = false)
    (hhome : ∀ h, cfg.home = some h → h ≠ []) :
    applyStages k cfg [R, W] s = resolveKind k { cfg with wd := join W R } s := by
  match k with
  | 0 =>
    simp only [applyStages, resolveKind]
    exact congrArg Out.ok (absPathStr_compose cfg.home cfg.remote cfg.sym W R s hW hR hRr)
  | 1 =>
    simp only [applyStages, resolveKind]
    exact congrArg Out.ok (absContextStr_compose cfg.home cfg.remote cfg.sym W R s hW hR hRr hhome)
  | k + 2 =>
    simp only [applyStages, resolveKind]
    obtain ⟨m, hm⟩ := maybeUnixStr_total ⟨R, cfg.home, cfg.remote, cfg.sym⟩ s
    rw [hm]
    simp only
    have := maybeUnixStr_compose cfg.home cfg.remote cfg.sym W R s m hW hR hRr hm
    rw [← this]
    cases maybeUnixStr ⟨W, cfg.home, cfg.remote, cfg.sym⟩ m <;> rfl

theorem applyStages_cons_ok (k : Nat) (cfg : Cfg) (b : Str) (rest : List Str) (s s' : Str)
    (h : resolveKind k { cfg with wd := b } s = .ok s') :
    applyStages k cfg (b :: rest) s = applyStages k cfg rest s' := by
  simp [applyStages, h]

theorem resolveKind_total (k : Nat) (cfg : Cfg) (s : Str) : ∃ r, resolveKind k cfg s = .ok r := by
  match k with
  | 0 => exact ⟨_, rfl⟩
  | 1 => exact ⟨_, rfl⟩
  | k + 2 => exact maybeUnixStr_total cfg s

/-- three stages (an include inside an include, an extends inside an include) -/
theorem applyStages_three (k : Nat) (cfg : Cfg) (R2 R1 W s : Str) (hW : W ≠ []) (h1 : R1 ≠ []) (h1r : isAbs R1 = false)
    (h2 : R2 ≠ []) (h2r : isAbs R2 = false) (hhome : ∀ h, cfg.home = some h → h ≠ []) :
    applyStages k cfg [R2, R1, W] s = resolveKind k { cfg with wd := join W (join R1 R2) } s := by
  -- collapse the two inner stages, then the result with the outer one
  obtain ⟨a, ha⟩ := resolveKind_total k { cfg with wd := R2 } s
  obtain ⟨b, hb⟩ := resolveKind_total k { cfg with wd := R1 } a
  have e12 : applyStages k cfg [R2, R1] s = resolveKind k { cfg with wd := join R1 R2 } s :=
    applyStages_two k cfg R2 R1 s h1 h2 h2r hhome
  have e12' : resolveKind k { cfg with wd := join R1 R2 } s = .ok b := by
    rw [← e12, applyStages_cons_ok k cfg R2 _ s a ha, applyStages_cons_ok k cfg R1 _ a b hb]; rfl
  rw [applyStages_cons_ok k cfg R2 _ s a ha, applyStages_cons_ok k cfg R1 _ a b hb]
  have hj : join R1 R2 ≠ [] := join_ne_nil _ _ h1
  have hjr : isAbs (join R1 R2) = false := isAbs_join_rel _ _ h1 h1r
  have e3 := applyStages_two k cfg (join R1 R2) W s hW hj hjr hhome
  rw [applyStages_cons_ok k cfg (join R1 R2) _ s b e12'] at e3
  exact e3

end CV.Paths
