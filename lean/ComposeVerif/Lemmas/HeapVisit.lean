import ComposeVerif.Lemmas.HeapProg
import ComposeVerif.Spec.Heap
import ComposeVerif.Model.HeapVisit
/-! helper lemmas for C14: the invariant of the `withServices` walk (`Model/HeapVisit.lean`) -/
namespace CV.Heap.Visit
open CV.Heap CV.Heap.Deriv

/-- what holds of every state of a walk over receiver `p` whose memory lies below `n`:
the maps the walk writes to were allocated since `n`; every write goes through such an address; every value handed to the
visitor lies in `[n, next)`, is well typed, and is deep-equal to the service of that name in the receiver; the values
handed out are pairwise isolated -/
structure VInv (t : Ty) (n seenA : Nat) (p : GoVal) (st : VSt) : Prop where
  lo : n ≤ seenA ∧ seenA < st.next
  log : ∀ w ∈ st.log, n ≤ w.1 ∧ w.1 < st.next
  out : ∀ e ∈ st.out, In n st.next e.2 ∧ hasTy t e.2 = true ∧
          ∃ s a, kidOf (.str e.1) (kidsOf (getFld fServices p)) = some s ∧ DeepEq e.2 (.ptr a s)
  pw : List.Pairwise (fun a b : String × GoVal => Isolated a.2 b.2) st.out

theorem markSeen_inv {t : Ty} {n seenA : Nat} {p : GoVal} {st : VSt} (name : String) (h : VInv t n seenA p st) :
    VInv t n seenA p (markSeen seenA name st) := by
  refine ⟨h.lo, ?_, h.out, h.pw⟩
  intro w hw
  simp only [markSeen, List.mem_append, List.mem_singleton] at hw
  rcases hw with hw | rfl
  · exact h.log w hw
  · exact h.lo

theorem dependentStores_log (a : Nat) (target : String) :
    ∀ (l : List (String × GoVal)) (acc : List (Key × GoVal) × List (Nat × Cell)) (w : Nat × Cell),
      w ∈ (dependentStores a target l acc).2 → w ∈ acc.2 ∨ w.1 = a
  | [], _, _, hw => Or.inl hw
  | (_, s) :: r, acc, w, hw => by
    simp only [dependentStores] at hw
    split at hw
    · rcases dependentStores_log a target r _ w hw with h | h
      · simp only [List.mem_append, List.mem_singleton] at h
        rcases h with h | rfl
        · exact Or.inl h
        · exact Or.inr rfl
      · exact Or.inr h
    · exact dependentStores_log a target r acc w hw

theorem VInv.mono {t : Ty} {n seenA : Nat} {p : GoVal} {st st' : VSt} (h : VInv t n seenA p st)
    (hn : st.next ≤ st'.next) (ho : st'.out = st.out)
    (hl : ∀ w ∈ st'.log, w ∈ st.log ∨ (n ≤ w.1 ∧ w.1 < st'.next)) : VInv t n seenA p st' := by
  refine ⟨⟨h.lo.1, by have := h.lo.2; omega⟩, ?_, ?_, by rw [ho]; exact h.pw⟩
  · intro w hw
    rcases hl w hw with h1 | h1
    · have := h.log w h1; omega
    · exact h1
  · intro e he
    rw [ho] at he
    obtain ⟨h1, h2, h3⟩ := h.out e he
    exact ⟨h1.mono hn, h2, h3⟩

theorem depsFor_inv {t : Ty} {n seenA : Nat} {p : GoVal} {st : VSt} (policy : String) (svc : GoVal)
    (h : VInv t n seenA p st) : VInv t n seenA p (depsFor p policy svc st).2 := by
  unfold depsFor
  split
  · refine h.mono (by simp) rfl ?_
    intro w hw
    simp only [List.mem_append] at hw
    rcases hw with hw | hw
    · exact Or.inl hw
    · rcases dependentStores_log _ _ _ _ w hw with h1 | h1
      · simp at h1
      · right; have := h.lo; simp only [h1]; omega
  · split
    · exact h
    · exact h

theorem addrs_service {p svc : GoVal} {name : String} (hs : kidOf (.str name) (kidsOf (getFld fServices p)) = some svc)
    (a : Nat) (ha : a ∈ addrs svc) : a ∈ addrs p := by
  apply addrs_getFld fServices p a
  generalize getFld fServices p = m at hs
  cases m with
  | map b ks =>
    simp only [kidsOf] at hs
    simp only [addrs, List.mem_cons]
    exact Or.inr (addrs_kidOf ks _ svc a hs ha)
  | _ => simp [kidsOf, kidOf] at hs

theorem handOut_inv {t : Ty} {plan : Plan} {n seenA : Nat} {p : GoVal} {st : VSt} (name : String) (svc : GoVal)
    (hd : deep t plan = true) (hc : covers t plan = true)
    (hs : kidOf (.str name) (kidsOf (getFld fServices p)) = some svc)
    (h : VInv t n seenA p st) : VInv t n seenA p (handOut t plan name svc st) := by
  by_cases ht : hasTy t (.ptr st.next svc) = true
  case neg =>
    simp only [handOut, ht]
    exact ⟨h.lo, h.log, h.out, h.pw⟩
  case pos =>
    simp only [handOut, ht, if_true]
    have hf := exec_fresh (.ptr st.next svc) plan t (st.next + 1) ht hd
    have hlo := h.lo
    have hnew : In n (exec plan (.ptr st.next svc) (st.next + 1)).2 (exec plan (.ptr st.next svc) (st.next + 1)).1 := by
      intro a ha
      have := hf.2 a ha
      omega
    refine ⟨⟨hlo.1, by have := hf.1; show seenA < _; simp only; omega⟩, ?_, ?_, ?_⟩
    · intro w hw
      have := h.log w hw
      have := hf.1
      show n ≤ w.1 ∧ w.1 < _
      simp only
      omega
    · intro e he
      simp only [List.mem_append, List.mem_singleton] at he
      rcases he with he | rfl
      · obtain ⟨h1, h2, h3⟩ := h.out e he
        exact ⟨h1.mono (by have := hf.1; show st.next ≤ _; simp only; omega), h2, h3⟩
      · exact ⟨hnew, exec_hasTy _ plan t _ ht hc, svc, st.next, hs, exec_erase _ plan t _ ht hc⟩
    · show List.Pairwise _ (st.out ++ [_])
      rw [List.pairwise_append]
      refine ⟨h.pw, by simp, ?_⟩
      intro e he e' he' a ha ha'
      simp only [List.mem_singleton] at he'
      subst he'
      have := ((h.out e he).1 a ha).2
      have := (hf.2 a ha').1
      omega

theorem seededDelete_false (name : String) (deps : GoVal) (st : VSt) : seededDelete false name deps st = st := rfl

/-- **the walk keeps the invariant** (the code in the tree: `del = false`), for every fuel, name list, `dependencies`
value and state -/
theorem walk_inv {t : Ty} {plan : Plan} {n seenA : Nat} {p : GoVal} (policy : String)
    (hd : deep t plan = true) (hc : covers t plan = true) :
    ∀ (fuel : Nat) (names : List String) (deps : GoVal) (st : VSt),
      VInv t n seenA p st → VInv t n seenA p (walk t plan p seenA policy false fuel names deps st)
  | 0, _, _, st, h => by
    unfold walk
    exact ⟨h.lo, h.log, h.out, h.pw⟩
  | _+1, [], _, st, h => by
    unfold walk
    exact h
  | fuel+1, name :: rest, deps, st, h => by
    unfold walk
    split
    · exact h
    · split
      · split
        · exact ⟨h.lo, h.log, h.out, h.pw⟩
        · split
          · exact ⟨h.lo, h.log, h.out, h.pw⟩
          · exact walk_inv policy hd hc fuel rest deps _ h
      next svc hs =>
        split
        · exact walk_inv policy hd hc fuel rest deps _ h
        · have h2 := depsFor_inv policy svc (markSeen_inv name h)
          have h3 : VInv t n seenA p
              (if (kidsOf (depsFor p policy svc (markSeen seenA name st)).1).isEmpty then (depsFor p policy svc (markSeen seenA name st)).2
               else walk t plan p seenA policy false fuel (sortStrs (keysOf (kidsOf (depsFor p policy svc (markSeen seenA name st)).1)))
                      (depsFor p policy svc (markSeen seenA name st)).1 (depsFor p policy svc (markSeen seenA name st)).2) := by
            split
            · exact h2
            · exact walk_inv policy hd hc fuel _ _ _ h2
          simp only
          revert h3
          generalize (if (kidsOf (depsFor p policy svc (markSeen seenA name st)).1).isEmpty then (depsFor p policy svc (markSeen seenA name st)).2
               else walk t plan p seenA policy false fuel (sortStrs (keysOf (kidsOf (depsFor p policy svc (markSeen seenA name st)).1)))
                      (depsFor p policy svc (markSeen seenA name st)).1 (depsFor p policy svc (markSeen seenA name st)).2) = st3
          intro h3
          split
          · exact h3
          · exact walk_inv policy hd hc fuel rest deps _ (handOut_inv name svc hd hc hs h3)

end CV.Heap.Visit
