import ComposeVerif.Lemmas.TemplateRefine
/-!
# Remaining C07 lemmas: malformed `${`, `escapeDollars`, `evalOut` over append
-/
namespace CV.Template

theorem dropWhile_eq_nil_iff' {α : Type} (p : α → Bool) (l : List α) :
    l.dropWhile p = [] ↔ ∀ x ∈ l, p x = true := by
  induction l with
  | nil => simp
  | cons a l ih =>
    by_cases ha : p a = true
    · simp [List.dropWhile, ha, ih]
    · simp [List.dropWhile, ha]

theorem lastCloseLen_none_iff (s : Str) : lastCloseLen s = none ↔ ¬ closesOnLine s := by
  unfold lastCloseLen closesOnLine
  generalize List.takeWhile (fun x => x != '\n') s = L
  constructor
  · intro h ⟨c, hc, hcc⟩
    subst hcc
    split at h
    · rename_i heq
      rw [dropWhile_eq_nil_iff'] at heq
      have := heq '}' (by simpa using hc)
      simp at this
    · cases h
  · intro h
    split
    · rfl
    · rename_i r hr
      exfalso
      apply hr
      rw [dropWhile_eq_nil_iff']
      intro c hc
      simp only [bne_iff_ne, ne_eq]
      intro hcc
      exact h ⟨c, by simpa using hc, hcc⟩

theorem spanName_snd_head (A : Str) : noNameHead (spanName A).2 = true := by
  induction A with
  | nil => simp [spanName, noNameHead]
  | cons a A ih =>
    unfold spanName
    split
    · exact ih
    · rename_i h; simp [noNameHead, h]

theorem opChar_cases {o : Char} (h : isOpChar o = true) : o = '-' ∨ o = '+' ∨ o = '?' := by
  simp [isOpChar] at h
  rcases h with (h | h) | h
  · exact Or.inl h
  · exact Or.inr (Or.inl h)
  · exact Or.inr (Or.inr h)

/-- a `${` that the regex accepts is followed by `NAME}` or `NAME op … }` on the same line -/
theorem wellFormedBrace_of_match (r : Str) (h : (matchBraced r).1 ≠ .invalid) : WellFormedBrace r := by
  rw [matchBraced_eq] at h
  cases r with
  | nil => exact absurd rfl h
  | cons c cs =>
    simp only at h
    by_cases hc : isNameStart c = true
    · simp only [hc, if_true] at h
      have happ := spanName_append (c :: cs)
      have hhead := spanName_snd_head (c :: cs)
      have hall := spanName_fst_all (c :: cs)
      have hvn : validName (spanName (c :: cs)).1 = true := by
        rw [spanName_cons (isNameChar_of_start hc)] at hall ⊢
        simp only [validName, hc, Bool.true_and, List.all_eq_true]
        intro x hx; exact hall x (List.mem_cons_of_mem _ hx)
      generalize (spanName (c :: cs)).1 = n at *
      generalize hr2 : (spanName (c :: cs)).2 = r2 at *
      refine ⟨n, r2, happ.symm, hvn, hhead, ?_⟩
      unfold afterName at h
      split at h
      · exact Or.inl rfl
      · rename_i o r3
        right
        by_cases ho : isOpChar o = true
        · simp only [ho, if_true] at h
          cases hl : lastCloseLen r3 with
          | none => rw [hl] at h; exact absurd rfl h
          | some k =>
            have hcl : closesOnLine r3 := by
              apply Classical.byContradiction; intro hn
              rw [(lastCloseLen_none_iff r3).2 hn] at hl; cases hl
            rcases opChar_cases ho with rfl | rfl | rfl
            · exact ⟨.colonDash, r3, rfl, hcl⟩
            · exact ⟨.colonPlus, r3, rfl, hcl⟩
            · exact ⟨.colonQ, r3, rfl, hcl⟩
        · simp [ho] at h
      · rename_i o r3 _ _
        right
        by_cases ho : isOpChar o = true
        · simp only [ho, if_true] at h
          cases hl : lastCloseLen r3 with
          | none => rw [hl] at h; exact absurd rfl h
          | some k =>
            have hcl : closesOnLine r3 := by
              apply Classical.byContradiction; intro hn
              rw [(lastCloseLen_none_iff r3).2 hn] at hl; cases hl
            rcases opChar_cases ho with rfl | rfl | rfl
            · exact ⟨.dash, r3, rfl, hcl⟩
            · exact ⟨.plus, r3, rfl, hcl⟩
            · exact ⟨.q, r3, rfl, hcl⟩
        · simp [ho] at h
      · exact absurd rfl h
    · simp [hc] at h

theorem matchBraced_invalid_shape (r : Str) (h : (matchBraced r).1 = .invalid) : matchBraced r = (.invalid, [], r) := by
  rw [matchBraced_eq] at h ⊢
  cases r with
  | nil => rfl
  | cons c cs =>
    simp only at h ⊢
    by_cases hc : isNameStart c = true
    · simp only [hc, if_true] at h ⊢
      unfold afterName at h ⊢
      split at h <;> try (simp at h)
      · split at h
        · split at h
          · simp at h
          · rename_i ho _ hl; simp [ho]
        · rename_i ho; simp [ho]
      · split at h
        · split at h
          · simp at h
          · rename_i ho _ hl; simp [ho]
        · rename_i ho; simp [ho]
      · rfl
    · simp [hc]

theorem rrepl_invalid (env : Env) : rrepl env ['$', '{'] = .err .invalid := by
  have hs : subOf ['$', '{'] = ['$', '{'] := by
    simp [subOf, firstClose, firstCloseGo]
  rw [rrepl, replK, hs]
  simp [matchDollar, matchBraced]

theorem run_malformed (env : Env) (r : Str) (h : ¬ WellFormedBrace r) :
    run env ('$' :: '{' :: r) = .err .invalid := by
  have hinv : (matchBraced r).1 = .invalid := by
    apply Classical.byContradiction; intro hn; exact h (wellFormedBrace_of_match r hn)
  have hm := matchDollar_brace r
  rw [matchBraced_invalid_shape r hinv] at hm
  rw [run_dollar_some env _ hm, rrepl_invalid, seq_err_of_ne_panic _ _ (run_ne_panic env r)]

theorem run_escapeDollars (env : Env) (s : Str) : run env (escapeDollars s) = .ok s := by
  induction s with
  | nil => simp [escapeDollars, run_nil]
  | cons c cs ih =>
    unfold escapeDollars
    split
    · rename_i hc; subst hc
      rw [run_esc, ih]; rfl
    · rename_i hc
      rw [run_cons_lit env c _ hc, ih]; rfl

theorem evalOut_append (env : Env) (a b : List Seg) : evalOut env (a ++ b) = seq (evalOut env a) (evalOut env b) := by
  induction a with
  | nil => simp [evalOut_nil, seq_ok_nil]
  | cons s r ih => rw [List.cons_append, evalOut_cons, evalOut_cons, ih, seq_assoc]

theorem evalOut_ne_panic (env : Env) (t : List Seg) (p : PanicSite) : evalOut env t ≠ .panic p := by
  rw [evalOut_eq]; exact toOut_ne_panic _ p

end CV.Template

namespace CV.Template

theorem litOkArg_imp_ML {s : Str} (h : litOkArg s = true) : litOkArgML s = true := by
  simp only [litOkArg, litOkArgML, List.all_eq_true, Bool.and_eq_true, bne_iff_ne, ne_eq] at h ⊢
  exact ⟨fun c hc => (h.1 c hc).1, h.2⟩

mutual
theorem seg_wf_imp_wfML : (s : Seg) → (inArg : Bool) → s.wf inArg = true → s.wfML inArg = true
  | .lit s, inArg, h => by
    cases inArg
    · simpa [Seg.wf, Seg.wfML] using h
    · simp only [Seg.wf, Seg.wfML, if_true] at h ⊢; exact litOkArg_imp_ML h
  | .esc, _, _ => rfl
  | .var _ _, _, h => by simpa [Seg.wf, Seg.wfML] using h
  | .op n o arg, _, h => by
    simp only [Seg.wf, Seg.wfML, Bool.and_eq_true] at h ⊢
    exact ⟨h.1, list_wf_imp_wfML arg true h.2⟩
theorem list_wf_imp_wfML : (l : List Seg) → (inArg : Bool) → wfL inArg l = true → wfLML inArg l = true
  | [], _, _ => rfl
  | s :: r, inArg, h => by
    simp only [wfL, wfLML, Bool.and_eq_true] at h ⊢
    exact ⟨⟨seg_wf_imp_wfML s inArg h.1.1, list_wf_imp_wfML r inArg h.1.2⟩, h.2⟩
end

end CV.Template

namespace CV.Template

theorem match_of_wellFormedBrace (r : Str) (h : WellFormedBrace r) : (matchBraced r).1 ≠ .invalid := by
  obtain ⟨n, tail, rfl, hn, _, h⟩ := h
  rcases h with h | ⟨o, r3, rfl, hcl⟩
  · cases tail with
    | nil => simp at h
    | cons c X =>
      simp at h; subst h
      rw [matchBraced_var n X hn]; simp
  · rw [matchBraced_op n o r3 hn]
    cases hl : lastCloseLen r3 with
    | none => exact absurd hcl ((lastCloseLen_none_iff r3).1 hl)
    | some k => simp

/-- the regexp takes its `invalid` alternative after `${` exactly on the texts that are not `WellFormedBrace` -/
theorem matchBraced_invalid_iff (r : Str) : (matchBraced r).1 = .invalid ↔ ¬ WellFormedBrace r := by
  constructor
  · intro h hw; exact match_of_wellFormedBrace r hw h
  · intro h
    apply Classical.byContradiction; intro hn; exact h (wellFormedBrace_of_match r hn)

end CV.Template
