import ComposeVerif.Lemmas.ExtendsComplete
/-!
# The cycle tracker: soundness and completeness of the error class `circular`

* soundness: `applySvc … = .err "circular"` only if the chain of the service really runs into a cycle — every key the
  tracker holds is a node of the chain that *reaches* the node being resolved, so a repeated key is a repeated node;
* completeness: on a node whose chain runs into a cycle `applySvc` reports `circular` (or, without enough fuel, the
  out-of-fuel marker) — nothing else can happen first, because along such a chain every base exists and no merge is
  attempted before the recursion returns.
-/
namespace CV.Extends
open CV CV.Val

/-- the environment itself never reports the class `circular` (the merge step has no such error; the nested load of
an extended file runs with `SkipExtends`/`SkipInclude`, so it cannot report one either) -/
def NoCircularEnv (E : Env) : Prop :=
  (∀ b s, E.extend b s ≠ .err "circular") ∧ (∀ f, fsLookup f E.fs ≠ some (.err "circular"))

theorem parseExtends_not_circular (e : Val) : parseExtends e ≠ .err "circular" := by
  unfold parseExtends
  split
  · simp
  · split
    · split <;> simp
    · simp
  · simp

theorem baseFromFile_circular {fs : FS} {f ref : String} (h : baseFromFile fs f ref = .err "circular") :
    fsLookup f fs = some (.err "circular") := by
  unfold baseFromFile at h
  split at h
  · simp at h
  · rename_i c hl
    simp only [Out.err.injEq] at h
    subst h; exact hl
  · cases h
  · split at h
    · simp at h
    · split at h
      · simp at h
      · split at h <;> simp at h
    · simp at h
  · split at h
    · simp at h
    · split at h
      · simp at h
      · cases h
    · simp at h

theorem resolveBase_circular {E : Env} {cur name ref : String} {file : Option String} {S : KVs}
    (h : resolveBase E cur name ref file S = .err "circular") : ∃ f, fsLookup f E.fs = some (.err "circular") := by
  unfold resolveBase at h
  cases file with
  | none => simp only at h; split at h <;> simp at h
  | some f =>
    simp only at h
    split at h <;> try cases h
    rename_i c hb
    exact ⟨f, baseFromFile_circular hb⟩

theorem trackerAdd_none {tr : List Key} {k : Key} (h : trackerAdd tr k = none) : k ∈ tr := by
  unfold trackerAdd at h
  split at h
  · assumption
  · cases h

/-- one unfolding of `applySvc` on a run that reports `circular` -/
theorem applySvc_circ_cases {E : Env} (hE : NoCircularEnv E) {fuel : Nat} {cf n : String} {cur : KVs} {tr : List Key}
    (h : applySvc E (fuel + 1) cf n cur tr = .err "circular") :
    ∃ svc e ref file svcs key same, lookup n cur = some (.map svc) ∧ lookup "extends" svc = some e ∧
      parseExtends e = .ok (ref, file) ∧ resolveBase E cf n ref file cur = .ok (svcs, key, same) ∧
      (trackerAdd tr key = none ∨
       ∃ tr', trackerAdd tr key = some tr' ∧ applySvc E fuel (nextFile cf file) ref svcs tr' = .err "circular") := by
  simp only [applySvc] at h
  split at h
  · cases h
  · cases h
  · rename_i svc hsvc
    split at h
    · cases h
    · rename_i e he
      split at h
      · cases h
      · rename_i c hp
        simp only [Out.err.injEq] at h
        subst h
        exact absurd hp (parseExtends_not_circular e)
      · rename_i ref file hp
        split at h
        · cases h
        · rename_i c hr
          simp only [Out.err.injEq] at h
          subst h
          obtain ⟨f, hf⟩ := resolveBase_circular hr
          exact absurd hf (hE.2 f)
        · rename_i svcs key same hr
          refine ⟨svc, e, ref, file, svcs, key, same, hsvc, he, hp, hr, ?_⟩
          split at h
          · rename_i ht; exact Or.inl ht
          · rename_i tr' ht
            refine Or.inr ⟨tr', ht, ?_⟩
            split at h
            · cases h
            · rename_i c hrec
              simp only [Out.err.injEq] at h
              subst h; exact hrec
            · rename_i base svcs' hrec
              split at h
              · cases h
              · rename_i b
                split at h
                · cases h
                · rename_i c hx
                  simp only [Out.err.injEq] at h
                  subst h
                  exact absurd hx (hE.1 b svc)
                · cases h
              · cases h
  · simp at h

/-- every key the tracker holds names a node of the chain that reaches the node being resolved -/
def TrOK (E : Env) (S0 : KVs) (tr : List Key) (node : KVs × String) : Prop :=
  ∀ k ∈ tr, ∃ S', Loc E S0 k.1 S' ∧ Reach E (S', k.2) node

theorem TrOK.nil (E : Env) (S0 : KVs) (node : KVs × String) : TrOK E S0 [] node := fun _ hk => by cases hk

theorem TrOK.push {E : Env} {S0 : KVs} {tr : List Key} {a b : KVs × String} {cf : String}
    (h : TrOK E S0 tr a) (hloc : Loc E S0 cf a.1) (l : Link E a b) : TrOK E S0 (tr ++ [(cf, a.2)]) b := by
  intro k hk
  rcases List.mem_append.mp hk with hk | hk
  · obtain ⟨S', h1, h2⟩ := h k hk
    exact ⟨S', h1, h2.snoc l⟩
  · simp only [List.mem_singleton] at hk
    subst hk
    exact ⟨a.1, hloc, Reach.one l⟩

/-- **soundness of the tracker** at one service: `circular` is reported only when the chain of the service being
resolved runs into a cycle -/
theorem applySvc_circular_sound (E : Env) (hE : NoCircularEnv E)
    (hmain : fileServices E.fs E.mainFile = none) (S0 : KVs) :
    ∀ (fuel : Nat) (cf n : String) (cur : KVs) (tr : List Key) (orig : KVs),
      Inv E orig cur → Loc E S0 cf orig → TrOK E S0 tr (orig, n) →
      applySvc E fuel cf n cur tr = .err "circular" →
      ∃ c, (c = (orig, n) ∨ Reach E (orig, n) c) ∧ Reach E c c := by
  intro fuel
  induction fuel with
  | zero => intro cf n cur tr orig _ _ _ h; simp [applySvc] at h
  | succ fuel ih =>
    intro cf n cur tr orig hi hloc htr h
    obtain ⟨svc, e, ref, file, svcs, key, same, h1, h2, h3, h4, h5⟩ := applySvc_circ_cases hE h
    have horig := hi.orig_of_extends h1 h2
    obtain ⟨_, href, hcase⟩ := resolveBase_ok h4
    -- the link followed, in terms of the original mapping
    have hlink : ∃ S', Link E (orig, n) (S', ref) ∧ Loc E S0 (nextFile cf file) S' ∧ Inv E S' svcs ∧ key = (cf, n) := by
      rcases hcase with ⟨_, hS, hf, hk⟩ | ⟨_, f, hf, hfs', hk⟩
      · subst hf; subst hS
        have hbo : baseMap E orig ref none = some orig := by
          have := (hi.key_iff ref).mp href
          cases hl : lookup ref orig with
          | none => exact absurd hl this
          | some x => simp [baseMap, hl]
        exact ⟨orig, ⟨svc, e, none, horig, h2, h3, hbo⟩, hloc, hi, hk⟩
      · subst hf
        have hbo : baseMap E orig ref (some f) = some svcs := by
          simp only [baseMap, hfs']
          cases hl : lookup ref svcs with
          | none => exact absurd hl href
          | some x => simp
        exact ⟨svcs, ⟨svc, e, some f, horig, h2, h3, hbo⟩, Or.inr hfs', Inv.refl E svcs, hk⟩
    obtain ⟨S', l, hloc', hi', hk⟩ := hlink
    subst hk
    rcases h5 with hnone | ⟨tr', hsome, hrec⟩
    · -- the key is already in the tracker: the node it names is this node
      obtain ⟨S'', hl'', hr''⟩ := htr _ (trackerAdd_none hnone)
      have := Loc.unique hmain hl'' hloc
      subst this
      exact ⟨(S'', n), Or.inl rfl, hr''⟩
    · obtain ⟨_, htr'⟩ := trackerAdd_some hsome
      subst htr'
      have hpush : TrOK E S0 (tr ++ [(cf, n)]) (S', ref) := TrOK.push (a := (orig, n)) htr hloc l
      obtain ⟨c, hc1, hc2⟩ := ih (nextFile cf file) ref svcs _ S' hi' hloc' hpush hrec
      refine ⟨c, Or.inr ?_, hc2⟩
      rcases hc1 with hc1 | hc1
      · rw [hc1]; exact Reach.one l
      · exact Reach.cons l hc1

theorem applyAll_circular_sound (E : Env) (hE : NoCircularEnv E) (hfs : NoNullFS E)
    (hmain : fileServices E.fs E.mainFile = none) (fuel : Nat) :
    ∀ (names : List String) (cur orig : KVs), NoNull orig → Inv E orig cur → (∀ n ∈ names, lookup n orig ≠ none) →
      applyAll E fuel names cur = .err "circular" → ∃ n ∈ names, Cyclic E (orig, n) := by
  intro names
  induction names with
  | nil => intro cur orig _ _ _ h; simp [applyAll] at h
  | cons n ns ih =>
    intro cur orig hnn hi hk h
    simp only [applyAll] at h
    split at h
    · rename_i v S' hs
      have hkn : lookup n orig ≠ none := hk n (List.mem_cons_self ..)
      obtain ⟨r1, r2, _⟩ := applySvc_sound E hfs fuel E.mainFile n cur [] orig v S' hnn hi hs
      have hflat := r1 ((hi.key_iff n).mpr hkn)
      obtain ⟨m, hm, hc⟩ := ih (Val.insert n v S') orig hnn (r2.insert hflat)
        (fun m hm => hk m (List.mem_cons_of_mem _ hm)) h
      exact ⟨m, List.mem_cons_of_mem _ hm, hc⟩
    · rename_i c hs
      simp only [Out.err.injEq] at h
      subst h
      obtain ⟨c, hc1, hc2⟩ := applySvc_circular_sound E hE hmain orig fuel E.mainFile n cur [] orig hi
        (Or.inl ⟨rfl, rfl⟩) (TrOK.nil E orig (orig, n)) hs
      refine ⟨n, List.mem_cons_self .., ?_⟩
      rcases hc1 with hc1 | hc1
      · rw [hc1] at hc2; exact Or.inl hc2
      · exact Or.inr ⟨c, hc1, hc2⟩
    · cases h

/-! ## completeness -/

/-- a node whose chain runs into a cycle has a successor, whose chain runs into a cycle too -/
theorem Cyclic.link {E : Env} {a : KVs × String} (h : Cyclic E a) : ∃ b, Link E a b ∧ Cyclic E b := by
  rcases h with h | ⟨c, h1, h2⟩
  · obtain ⟨b, l, hb⟩ := h.head
    rcases hb with hb | hb
    · subst hb; exact ⟨b, l, Or.inl h⟩
    · exact ⟨b, l, Or.inl (hb.snoc l)⟩
  · obtain ⟨b, l, hb⟩ := h1.head
    rcases hb with hb | hb
    · subst hb; exact ⟨b, l, Or.inl h2⟩
    · exact ⟨b, l, Or.inr ⟨c, hb, h2⟩⟩

/-- **completeness of the tracker** at one service: on a node whose chain runs into a cycle, `applySvc` reports
`circular` — or runs out of fuel (excluded by `applySvc_no_fuel` when the fuel is `fuelFor`) -/
theorem applySvc_cyclic (E : Env) :
    ∀ (fuel : Nat) (cf n : String) (cur : KVs) (tr : List Key) (orig : KVs),
      Inv E orig cur → Cyclic E (orig, n) →
      applySvc E fuel cf n cur tr = .err "circular" ∨ applySvc E fuel cf n cur tr = .panic fuelMark := by
  intro fuel
  induction fuel with
  | zero => intro cf n cur tr orig _ _; exact Or.inr (by simp [applySvc])
  | succ fuel ih =>
    intro cf n cur tr orig hi hc
    obtain ⟨⟨S', ref⟩, l, hcb⟩ := hc.link
    obtain ⟨svc, e, file, h1, h2, h3, h4⟩ := l
    simp only at h1 h3 h4
    have hcur : lookup n cur = some (.map svc) := by
      rcases hi n with g | ⟨w, _, g2⟩
      · rw [g]; exact h1
      · exact absurd hc g2.not_cyclic
    -- the step taken
    have hstep : ∃ svcs same, resolveBase E cf n ref file cur = .ok (svcs, (cf, n), same) ∧ Inv E S' svcs := by
      cases file with
      | none =>
        obtain ⟨_, href, hS', _⟩ := baseMap_resolveBase (cf := cf) (n := n) h4
        have hS'' := hS' rfl
        subst hS''
        have hk := (hi.key_iff ref).mpr href
        cases hx : lookup ref cur with
        | none => exact absurd hx hk
        | some x => exact ⟨cur, true, by simp [resolveBase, hx], hi⟩
      | some f =>
        obtain ⟨_, href, _, hfs⟩ := baseMap_resolveBase (cf := cf) (n := n) h4
        have hfs' := hfs f rfl
        obtain ⟨doc, hd, hs⟩ := fileServices_inv hfs'
        cases hx : lookup ref S' with
        | none => exact absurd hx href
        | some x => exact ⟨S', false, by simp [resolveBase, baseFromFile, hd, hs, hx], Inv.refl E S'⟩
    obtain ⟨svcs, same, hrb, hi'⟩ := hstep
    cases hta : trackerAdd tr (cf, n) with
    | none => exact Or.inl (by simp [applySvc, hcur, h2, h3, hrb, hta])
    | some tr' =>
      rcases ih (nextFile cf file) ref svcs tr' S' hi' hcb with hrec | hrec
      · exact Or.inl (by simp [applySvc, hcur, h2, h3, hrb, hta, hrec])
      · exact Or.inr (by simp [applySvc, hcur, h2, h3, hrb, hta, hrec])

/-- on a node whose chain runs into a cycle the flatten specification reports that the chain is too long, whatever bound
it is given (this is how the cycle oracle of `c05.apply` recognises a cyclic service on the specification side) -/
theorem flattenF_cyclic (E : Env) : ∀ (fuel : Nat) (S : KVs) (n : String), Cyclic E (S, n) →
    flattenF E fuel S n = .err "flatten:chain-too-long" := by
  intro fuel
  induction fuel with
  | zero => intro S n _; simp [flattenF]
  | succ fuel ih =>
    intro S n hc
    obtain ⟨⟨S', ref⟩, l, hcb⟩ := hc.link
    obtain ⟨svc, e, file, h1, h2, h3, h4⟩ := l
    simp only at h1 h3 h4
    simp [flattenF, h1, h2, h3, h4, ih S' ref hcb]

/-- when every service either flattens or runs into a cycle, the loop of `ApplyExtends` reports `circular` as soon as
it visits a cyclic one — and it does visit one if there is one -/
theorem applyAll_cyclic (E : Env) (hE : FuelFree E) (hmain : fileServices E.fs E.mainFile = none) (S : KVs) :
    ∀ (names : List String) (cur : KVs), Inv E S cur → KeysSub E S cur →
      (∀ n ∈ names, (∃ v, Flat E S n v) ∨ Cyclic E (S, n)) →
      (∃ n ∈ names, Cyclic E (S, n)) →
      applyAll E (fuelFor E S) names cur = .err "circular" := by
  intro names
  induction names with
  | nil => intro cur _ _ _ ⟨n, hn, _⟩; cases hn
  | cons n ns ih =>
    intro cur hi hks hall hex
    have hnf := applySvc_no_fuel E hE S (fuelFor E S) E.mainFile n cur [] (by simp [allFiles]) hks List.nodup_nil
      (fun _ hk => by cases hk) (by simp [fuelFor])
    rcases hall n (List.mem_cons_self ..) with ⟨v, hv⟩ | hc
    · -- this one flattens: it is accepted and memoised, the cyclic one comes later
      obtain ⟨ks, hk⟩ := hv.toK E.mainFile
      have hnd : ks.Nodup := hk.nodup (S0 := S) hmain (Or.inl ⟨rfl, rfl⟩)
      have hlen : ks.length < fuelFor E S := by
        have := nodup_length_le ks _ hnd (hk.keys_sub (by simp [allFiles]) (KeysSub.self E S))
        simp only [fuelFor]; omega
      obtain ⟨cur', hrun, hi'⟩ := applySvc_complete E hk (fuelFor E S) cur [] hi (by simpa using hnd) hlen
      have hks' := hnf.2 _ _ hrun
      have hn : n ∈ allNames E S := KeysSub.self E S n (by obtain ⟨svc, hs⟩ := hv.has_key; rw [hs]; simp)
      have hex' : ∃ m ∈ ns, Cyclic E (S, m) := by
        obtain ⟨m, hm, hcm⟩ := hex
        rcases List.mem_cons.mp hm with rfl | hm'
        · exact absurd hcm hv.not_cyclic
        · exact ⟨m, hm', hcm⟩
      have := ih (Val.insert n v cur') (hi'.insert hv) (hks'.insert hn v)
        (fun m hm => hall m (List.mem_cons_of_mem _ hm)) hex'
      simp [applyAll, hrun, this]
    · rcases applySvc_cyclic E (fuelFor E S) E.mainFile n cur [] S hi hc with h | h
      · simp [applyAll, h]
      · exact absurd h hnf.1

end CV.Extends
