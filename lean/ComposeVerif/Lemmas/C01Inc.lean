import ComposeVerif.Lemmas.C01Dep
/-!
Helper lemmas for C01: the include loop (`loadYamlModel` → `loadYamlFile` → `ApplyInclude`).
-/
namespace CV.C01.Inc

def keys (fs : FS) : List String := fs.map Prod.fst

theorem lookup_mem_keys : ∀ (fs : FS) (f : String) (e : List (List String)), lookup f fs = some e → f ∈ keys fs
  | [], _, _, h => by simp [lookup] at h
  | (k, v) :: r, f, e, h => by
    unfold lookup at h
    split at h
    · rename_i hk; subst hk; simp [keys]
    · have := lookup_mem_keys r f e h
      simp only [keys, List.map_cons, List.mem_cons]
      exact Or.inr this

/-- `f` includes `c` (as the *first* path of an entry — the only one the cycle test looks at) -/
def Edge (fs : FS) (f c : String) : Prop :=
  ∃ entries, lookup f fs = some entries ∧ ∃ ps, (c :: ps) ∈ entries

inductive Reach (fs : FS) : String → String → Prop where
  | refl (a : String) : Reach fs a a
  | step {a b c : String} : Edge fs a b → Reach fs b c → Reach fs a c

/-- `v` reaches (through first paths) a file that lies on an include cycle -/
def CanLoop (fs : FS) (v : String) : Prop :=
  ∃ w, Reach fs v w ∧ ∃ x, Edge fs w x ∧ Reach fs x w

theorem CanLoop.child {fs : FS} {v : String} (h : CanLoop fs v) : ∃ c, Edge fs v c ∧ CanLoop fs c := by
  obtain ⟨w, hvw, x, hx, hxw⟩ := h
  cases hvw with
  | refl => exact ⟨x, hx, _, hxw, x, hx, hxw⟩
  | step hb hbw => exact ⟨_, hb, w, hbw, x, hx, hxw⟩

/-! ### termination (when every path is subject to the cycle test) -/

theorem applyInclude_ne_fuel (load : List String → List String → Res) :
    ∀ (entries : List (List String)) (included : List String),
      (∀ p0 ps, (p0 :: ps) ∈ entries → (∀ p ∈ p0 :: ps, p ∉ included) → load (p0 :: ps) included ≠ .outOfFuel) →
      applyInclude load entries included ≠ .outOfFuel
  | [], _, _ => by unfold applyInclude; intro h; cases h
  | [] :: rest, included, h => by
    unfold applyInclude
    exact applyInclude_ne_fuel load rest included (fun p0 ps hm => h p0 ps (List.mem_cons_of_mem _ hm))
  | (p0 :: ps) :: rest, included, h => by
    unfold applyInclude
    split
    · intro e; cases e
    · rename_i hnot
      have hfresh : ∀ p ∈ p0 :: ps, p ∉ included := by
        intro p hp hin
        apply hnot
        rw [List.any_eq_true]
        exact ⟨p, hp, by simpa using hin⟩
      split
      · exact applyInclude_ne_fuel load rest included (fun p0 ps hm => h p0 ps (List.mem_cons_of_mem _ hm))
      · rename_i r hr
        have := h p0 ps (List.mem_cons_self ..) hfresh
        intro e
        simp_all

theorem loadFiles_ne_fuel (fs : FS) (inc : List (List String) → List String → Res) :
    ∀ (files included : List String),
      (∀ f ∈ files, ∀ entries, lookup f fs = some entries → inc entries (included ++ [f]) ≠ .outOfFuel) →
      loadFiles fs inc files included ≠ .outOfFuel
  | [], _, _ => by unfold loadFiles; intro h; cases h
  | f :: rest, included, h => by
    unfold loadFiles
    split
    · intro e; cases e
    · rename_i entries hl
      split
      · exact loadFiles_ne_fuel fs inc rest included (fun f' hf' => h f' (List.mem_cons_of_mem _ hf'))
      · rename_i r hr
        have := h f (List.mem_cons_self ..) entries hl
        intro e
        simp_all

/-- the include loop terminates on every file system: the files being loaded form a duplicate-free list of
existing files, because every path of an entry is tested against it before the entry is loaded -/
theorem loadModel_ne_fuel (fs : FS) : ∀ (fuel : Nat) (files included : List String),
    included.Nodup → (∀ x ∈ included, x ∈ keys fs) → (∀ f ∈ files, f ∉ included) →
    (keys fs).length - included.length < fuel →
    loadModel fs fuel files included ≠ .outOfFuel
  | 0, _, _, _, _, _, hf => by omega
  | fuel + 1, files, included, hn, hsub, hfresh, hf => by
    unfold loadModel
    apply loadFiles_ne_fuel
    intro f hfm entries hl
    have hfk : f ∈ keys fs := lookup_mem_keys fs f entries hl
    have hn' : (included ++ [f]).Nodup := nodup_append_singleton hn (hfresh f hfm)
    have hsub' : ∀ x ∈ included ++ [f], x ∈ keys fs := by
      intro x hx
      rcases List.mem_append.mp hx with h | h
      · exact hsub x h
      · simp only [List.mem_singleton] at h; subst h; exact hfk
    have hlen := nodup_subset_length _ _ hn' hsub'
    simp only [List.length_append, List.length_singleton] at hlen
    apply applyInclude_ne_fuel
    intro p0 ps hmem hnot
    apply loadModel_ne_fuel fs fuel (p0 :: ps) (included ++ [f]) hn' hsub' hnot
    simp only [List.length_append, List.length_singleton]
    omega

/-! ### a cycle through first paths is never accepted -/

theorem applyInclude_ne_ok (load : List String → List String → Res) :
    ∀ (entries : List (List String)) (included : List String),
      (∃ c ps, (c :: ps) ∈ entries ∧ ∀ inc, load (c :: ps) inc ≠ .ok) →
      applyInclude load entries included ≠ .ok
  | [], _, h => by obtain ⟨_, _, hm, _⟩ := h; cases hm
  | [] :: rest, included, h => by
    unfold applyInclude
    obtain ⟨c, ps, hm, hl⟩ := h
    have hm' : (c :: ps) ∈ rest := by
      cases hm with
      | tail _ h => exact h
    exact applyInclude_ne_ok load rest included ⟨c, ps, hm', hl⟩
  | (p0 :: qs) :: rest, included, h => by
    obtain ⟨c, ps, hm, hl⟩ := h
    unfold applyInclude
    split
    · intro e; cases e
    · split
      · rename_i hok
        have hne : (c :: ps) ≠ (p0 :: qs) := fun e => hl included (e ▸ hok)
        have hm' : (c :: ps) ∈ rest := by
          cases hm with
          | head => exact absurd rfl hne
          | tail _ h => exact h
        exact applyInclude_ne_ok load rest included ⟨c, ps, hm', hl⟩
      · rename_i r hr
        exact fun e => hr (e ▸ rfl)

theorem loadFiles_head_ne_ok (fs : FS) (inc : List (List String) → List String → Res)
    (f : String) (rest included : List String) (entries : List (List String))
    (hl : lookup f fs = some entries) (h : inc entries (included ++ [f]) ≠ .ok) :
    loadFiles fs inc (f :: rest) included ≠ .ok := by
  unfold loadFiles
  rw [hl]
  simp only
  exact h

theorem loadModel_ne_ok (fs : FS) : ∀ (fuel : Nat) (f : String) (ps inc : List String),
    CanLoop fs f → loadModel fs fuel (f :: ps) inc ≠ .ok
  | 0, _, _, _, _ => by unfold loadModel; intro h; cases h
  | fuel + 1, f, ps, inc, h => by
    unfold loadModel
    obtain ⟨c, ⟨entries, hl, qs, hm⟩, hc⟩ := h.child
    apply loadFiles_head_ne_ok fs _ f ps inc entries hl
    apply applyInclude_ne_ok
    exact ⟨c, qs, hm, fun inc' => loadModel_ne_ok fs fuel c qs inc' hc⟩

/-! ### the include loop has no panic branch -/

theorem applyInclude_ne_panic (load : List String → List String → Res) (h : ∀ a b s, load a b ≠ .panic s) :
    ∀ (entries : List (List String)) (included : List String) (s : String), applyInclude load entries included ≠ .panic s
  | [], _, _ => by unfold applyInclude; intro e; cases e
  | [] :: rest, included, s => by
    unfold applyInclude
    exact applyInclude_ne_panic load h rest included s
  | (p0 :: ps) :: rest, included, s => by
    unfold applyInclude
    split
    · intro e; cases e
    · split
      · exact applyInclude_ne_panic load h rest included s
      · rename_i r hr
        have := h (p0 :: ps) included s
        intro e
        simp_all

theorem loadFiles_ne_panic (fs : FS) (inc : List (List String) → List String → Res) (h : ∀ a b s, inc a b ≠ .panic s) :
    ∀ (files included : List String) (s : String), loadFiles fs inc files included ≠ .panic s
  | [], _, _ => by unfold loadFiles; intro e; cases e
  | f :: rest, included, s => by
    unfold loadFiles
    split
    · intro e; cases e
    · rename_i entries hl
      split
      · exact loadFiles_ne_panic fs inc h rest included s
      · rename_i r hr
        have := h entries (included ++ [f]) s
        intro e
        simp_all

theorem loadModel_ne_panic (fs : FS) : ∀ (fuel : Nat) (files included : List String) (s : String),
    loadModel fs fuel files included ≠ .panic s
  | 0, _, _, _ => by unfold loadModel; intro e; cases e
  | fuel + 1, files, included, s => by
    unfold loadModel
    exact loadFiles_ne_panic fs _ (applyInclude_ne_panic _ (loadModel_ne_panic fs fuel)) files included s

end CV.C01.Inc
