import ComposeVerif.Lemmas.ExtendsFuel
/-! completeness of `applySvc`: a chain whose tracker keys are pairwise distinct is accepted -/
namespace CV.Extends
open CV CV.Val

/-- `Flat` for service `n` of file `cf`, together with the tracker keys `(current file, extending name)`
recorded along the chain (outermost first) -/
inductive FlatK (E : Env) : String → KVs → String → List Key → Val → Prop where
  | leaf {cf : String} {S : KVs} {n : String} {svc : KVs} :
      lookup n S = some (.map svc) → lookup "extends" svc = none → FlatK E cf S n [] (.map svc)
  | step {cf : String} {S : KVs} {n : String} {svc : KVs} {e : Val} {ref : String} {file : Option String}
      {S' b m : KVs} {ks : List Key} :
      lookup n S = some (.map svc) → lookup "extends" svc = some e →
      parseExtends e = .ok (ref, file) → baseMap E S ref file = some S' →
      FlatK E (nextFile cf file) S' ref ks (.map b) → E.extend b svc = .ok m →
      FlatK E cf S n ((cf, n) :: ks) (.map (Val.erase "extends" m))

theorem FlatK.flat {E : Env} {cf : String} {S : KVs} {n : String} {ks : List Key} {v : Val} (h : FlatK E cf S n ks v) : Flat E S n v := by
  induction h with
  | leaf h1 h2 => exact Flat.leaf h1 h2
  | step h1 h2 h3 h4 _ h6 ih => exact Flat.step h1 h2 h3 h4 ih h6

theorem baseMap_resolveBase {E : Env} {S S' : KVs} {cf n ref : String} {file : Option String}
    (h : baseMap E S ref file = some S') :
    resolveBase E cf n ref file S = .ok (S', (cf, n), file.isNone) ∧ lookup ref S' ≠ none ∧
      (file = none → S' = S) ∧ (∀ f, file = some f → fileServices E.fs f = some S') := by
  cases file with
  | none =>
    simp only [baseMap] at h
    split at h <;> try cases h
    rename_i hl
    cases hx : lookup ref S with
    | none => simp [hx] at hl
    | some x => simp [resolveBase, hx]
  | some f =>
    simp only [baseMap] at h
    split at h <;> try cases h
    rename_i S'' hfs
    split at h <;> try cases h
    rename_i hl
    obtain ⟨doc, hd, hs⟩ := fileServices_inv hfs
    cases hx : lookup ref S' with
    | none => simp [hx] at hl
    | some x =>
      refine ⟨?_, by simp [hx], by simp, fun f' hf' => by injection hf' with hf'; subst hf'; exact hfs⟩
      simp [resolveBase, baseFromFile, hd, hs, hx]

/-- a memoised or extends-free entry is returned as it is -/
theorem applySvc_noext {E : Env} {fuel : Nat} {cf n : String} {cur : KVs} {tr : List Key} {svc : KVs}
    (h1 : lookup n cur = some (.map svc)) (h2 : lookup "extends" svc = none) :
    applySvc E (fuel + 1) cf n cur tr = .ok (.map svc, cur) := by
  simp [applySvc, h1, h2]

theorem applySvc_complete (E : Env) :
    ∀ {cf : String} {S : KVs} {n : String} {ks : List Key} {v : Val}, FlatK E cf S n ks v →
    ∀ (fuel : Nat) (cur : KVs) (tr : List Key), Inv E S cur → (tr ++ ks).Nodup → ks.length < fuel →
      ∃ cur', applySvc E fuel cf n cur tr = .ok (v, cur') ∧ Inv E S cur' := by
  intro cf S n ks v h
  induction h with
  | leaf h1 h2 =>
    rename_i cf S n svc
    intro fuel cur tr hi _ hf
    obtain ⟨fuel', rfl⟩ : ∃ k, fuel = k + 1 := ⟨fuel - 1, by omega⟩
    rcases hi n with g | ⟨w, g1, g2⟩
    · exact ⟨cur, applySvc_noext (g ▸ h1) h2, hi⟩
    · have := g2.functional (Flat.leaf h1 h2)
      subst this
      exact ⟨cur, applySvc_noext g1 h2, hi⟩
  | step h1 h2 h3 h4 h5 h6 ih =>
    rename_i cf S n svc e ref file S' b m ks
    intro fuel cur tr hi hnd hf
    obtain ⟨fuel', rfl⟩ : ∃ k, fuel = k + 1 := ⟨fuel - 1, by omega⟩
    have hflat : Flat E S n (.map (Val.erase "extends" m)) := (FlatK.step (cf := cf) h1 h2 h3 h4 h5 h6).flat
    rcases hi n with g | ⟨w, g1, g2⟩
    · -- the entry is still the original one: walk the chain
      have hcur : lookup n cur = some (.map svc) := g ▸ h1
      have hfuel : ks.length < fuel' := by simp only [List.length_cons] at hf; omega
      have hkey : (cf, n) ∉ tr := by
        intro hm
        have := (List.nodup_append.mp hnd).2.2 _ hm _ (List.mem_cons_self ..)
        exact this rfl
      have hnd' : ((tr ++ [(cf, n)]) ++ ks).Nodup := by
        simpa [List.append_assoc] using hnd
      have hta : trackerAdd tr (cf, n) = some (tr ++ [(cf, n)]) := by
        simp [trackerAdd, hkey]
      cases file with
      | none =>
        obtain ⟨_, href, hS', _⟩ := baseMap_resolveBase (cf := cf) (n := n) h4
        have hS'' := hS' rfl
        subst hS''
        have hrb : resolveBase E cf n ref none cur = .ok (cur, (cf, n), true) := by
          have hk := (hi.key_iff ref).mpr href
          cases hx : lookup ref cur with
          | none => exact absurd hx hk
          | some x => simp [resolveBase, hx]
        obtain ⟨cur₁, hrec, hi₁⟩ := ih fuel' cur (tr ++ [(cf, n)]) hi hnd' hfuel
        refine ⟨Val.insert n (.map (Val.erase "extends" m)) cur₁, ?_, hi₁.insert hflat⟩
        simp only [nextFile] at hrec
        simp [applySvc, hcur, h2, h3, hrb, hta, nextFile, hrec, h6]
      | some f =>
        obtain ⟨hrb0, href, _, hfs⟩ := baseMap_resolveBase (cf := cf) (n := n) h4
        have hrb : resolveBase E cf n ref (some f) cur = .ok (S', (cf, n), false) := by
          have hfs' := hfs f rfl
          obtain ⟨doc, hd, hs⟩ := fileServices_inv hfs'
          cases hx : lookup ref S' with
          | none => exact absurd hx href
          | some x => simp [resolveBase, baseFromFile, hd, hs, hx]
        obtain ⟨cur₁, hrec, _⟩ := ih fuel' S' (tr ++ [(cf, n)]) (Inv.refl E S') hnd' hfuel
        refine ⟨cur, ?_, hi⟩
        simp only [nextFile] at hrec
        simp [applySvc, hcur, h2, h3, hrb, hta, nextFile, hrec, h6]
    · -- the entry is already memoised
      have := g2.functional hflat
      subst this
      exact ⟨cur, applySvc_noext g1 (lookup_erase_self _ _), hi⟩

theorem applyAll_complete (E : Env) (fuel : Nat) :
    ∀ (names : List String) (cur S : KVs), Inv E S cur →
      (∀ n ∈ names, ∃ ks v, FlatK E E.mainFile S n ks v ∧ ks.Nodup ∧ ks.length < fuel) →
      ∃ R, applyAll E fuel names cur = .ok R ∧ Inv E S R := by
  intro names
  induction names with
  | nil => intro cur S hi _; exact ⟨cur, rfl, hi⟩
  | cons n ns ih =>
    intro cur S hi hall
    obtain ⟨ks, v, hk, hnd, hlen⟩ := hall n (List.mem_cons_self ..)
    obtain ⟨cur', hrun, hi'⟩ := applySvc_complete E hk fuel cur [] hi (by simpa using hnd) hlen
    obtain ⟨R, hR, hiR⟩ := ih (Val.insert n v cur') S (hi'.insert hk.flat)
      (fun m hm => hall m (List.mem_cons_of_mem _ hm))
    exact ⟨R, by simp [applyAll, hrun, hR], hiR⟩

theorem FlatK.keys_sub {E : Env} {S0 S : KVs} {cf n : String} {ks : List Key} {v : Val}
    (h : FlatK E cf S n ks v) : cf ∈ allFiles E → KeysSub E S0 S → ∀ k ∈ ks, k ∈ keyUniverse E S0 := by
  induction h with
  | leaf => intro _ _ k hk; cases hk
  | step h1 h2 h3 h4 h5 h6 ih =>
    rename_i cf S n svc e ref file S' b m ks
    intro hcf hsub k hk
    obtain ⟨_, _, hnone, hsome⟩ := baseMap_resolveBase (cf := cf) (n := n) h4
    have hn : n ∈ allNames E S0 := hsub n (by rw [h1]; simp)
    rcases List.mem_cons.mp hk with rfl | hk'
    · exact mem_keyUniverse hcf hn
    · cases file with
      | none =>
        have := hnone rfl
        subst this
        exact ih hcf hsub k hk'
      | some f =>
        obtain ⟨a, bb⟩ := fileServices_keysSub (S0 := S0) (hsome f rfl)
        exact ih bb a k hk'

/-- every flattened service has a key-annotated derivation, whatever the current file is called -/
theorem Flat.toK {E : Env} {S : KVs} {n : String} {v : Val} (h : Flat E S n v) :
    ∀ cf, ∃ ks, FlatK E cf S n ks v := by
  induction h with
  | leaf h1 h2 => intro cf; exact ⟨[], FlatK.leaf h1 h2⟩
  | step h1 h2 h3 h4 h5 h6 ih =>
    rename_i S n svc e ref file S' b m
    intro cf
    obtain ⟨ks, hk⟩ := ih (nextFile cf file)
    exact ⟨(cf, n) :: ks, FlatK.step h1 h2 h3 h4 hk h6⟩

/-! ## on an acyclic chain the tracker keys are pairwise distinct (post-fix tracker) -/

/-- the mapping `S` is the one the file name `cf` stands for: the main file's services `S0`, or the services
of the extended file referenced as `cf` -/
def Loc (E : Env) (S0 : KVs) (cf : String) (S : KVs) : Prop :=
  (cf = E.mainFile ∧ S = S0) ∨ fileServices E.fs cf = some S

/-- when no reference is spelled exactly like the main file's own name, a file name determines its mapping -/
theorem Loc.unique {E : Env} {S0 : KVs} (hmain : fileServices E.fs E.mainFile = none) {cf : String} {S S' : KVs}
    (h : Loc E S0 cf S) (h' : Loc E S0 cf S') : S = S' := by
  rcases h with ⟨a, b⟩ | a <;> rcases h' with ⟨a', b'⟩ | a'
  · rw [b, b']
  · rw [a, hmain] at a'; cases a'
  · rw [a', hmain] at a; cases a
  · rw [a] at a'; injection a'

theorem Loc.next {E : Env} {S0 S S' : KVs} {cf ref : String} {file : Option String}
    (h : Loc E S0 cf S) (hb : baseMap E S ref file = some S') : Loc E S0 (nextFile cf file) S' := by
  obtain ⟨_, _, hnone, hsome⟩ := baseMap_resolveBase (cf := cf) (n := ref) hb
  cases file with
  | none => rw [hnone rfl]; exact h
  | some f => exact Or.inr (hsome f rfl)

/-- every recorded key is the (file, name) of a node on the chain -/
theorem FlatK.key_nodes {E : Env} {S0 : KVs} {cf : String} {S : KVs} {n : String} {ks : List Key} {v : Val}
    (h : FlatK E cf S n ks v) : Loc E S0 cf S → ∀ k ∈ ks, ∃ cf' S' n', k = (cf', n') ∧ Loc E S0 cf' S' ∧
      ((S', n') = (S, n) ∨ Reach E (S, n) (S', n')) := by
  induction h with
  | leaf => intro _ k hk; cases hk
  | step h1 h2 h3 h4 h5 h6 ih =>
    rename_i cf S n svc e ref file S' b m ks
    intro hloc k hk
    rcases List.mem_cons.mp hk with rfl | hk'
    · exact ⟨cf, S, n, rfl, hloc, Or.inl rfl⟩
    · obtain ⟨cf', S'', n', e1, e2, e3⟩ := ih (hloc.next h4) k hk'
      have l0 : Link E (S, n) (S', ref) := ⟨svc, e, file, h1, h2, h3, h4⟩
      refine ⟨cf', S'', n', e1, e2, Or.inr ?_⟩
      rcases e3 with e3 | e3
      · rw [e3]; exact Reach.one l0
      · exact Reach.cons l0 e3

theorem FlatK.nodup {E : Env} {S0 : KVs} (hmain : fileServices E.fs E.mainFile = none)
    {cf : String} {S : KVs} {n : String} {ks : List Key} {v : Val}
    (h : FlatK E cf S n ks v) : Loc E S0 cf S → ks.Nodup := by
  induction h with
  | leaf => intro _; exact List.nodup_nil
  | step h1 h2 h3 h4 h5 h6 ih =>
    rename_i cf S n svc e ref file S' b m ks
    intro hloc
    have hflat : Flat E S n (.map (Val.erase "extends" m)) := (FlatK.step (cf := cf) h1 h2 h3 h4 h5 h6).flat
    have l0 : Link E (S, n) (S', ref) := ⟨svc, e, file, h1, h2, h3, h4⟩
    refine List.nodup_cons.mpr ⟨?_, ih (hloc.next h4)⟩
    intro hm
    obtain ⟨cf', S'', n', e1, e2, e3⟩ := h5.key_nodes (S0 := S0) (hloc.next h4) _ hm
    simp only [Prod.mk.injEq] at e1
    obtain ⟨ea, eb⟩ := e1
    subst ea; subst eb
    have := Loc.unique hmain e2 hloc
    subst this
    have hcyc : Reach E (S'', n) (S'', n) := by
      rcases e3 with e3 | e3
      · rw [e3] at l0 ⊢; exact Reach.one (e3 ▸ l0)
      · exact Reach.cons l0 e3
    exact hflat.acyclic _ (Or.inl rfl) hcyc

end CV.Extends
