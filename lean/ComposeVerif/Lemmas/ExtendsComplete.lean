import ComposeVerif.Lemmas.ExtendsFuel
/-! completeness of `applySvc`: a chain whose tracker keys are pairwise distinct is accepted -/
namespace CV.Extends
open CV CV.Val

/-- the key `applyServiceExtends` feeds the cycle tracker for a step of service `n` -/
def stepKey (E : Env) (n : String) : Option String → Key
  | none => (E.mainFile, n)
  | some f => (f, n)

/-- `Flat` together with the tracker keys recorded along the chain (outermost first) -/
inductive FlatK (E : Env) : KVs → String → List Key → Val → Prop where
  | leaf {S : KVs} {n : String} {svc : KVs} :
      lookup n S = some (.map svc) → lookup "extends" svc = none → FlatK E S n [] (.map svc)
  | step {S : KVs} {n : String} {svc : KVs} {e : Val} {ref : String} {file : Option String}
      {S' b m : KVs} {ks : List Key} :
      lookup n S = some (.map svc) → lookup "extends" svc = some e →
      parseExtends e = .ok (ref, file) → baseMap E S ref file = some S' →
      FlatK E S' ref ks (.map b) → E.extend b svc = .ok m →
      FlatK E S n (stepKey E n file :: ks) (.map (Val.erase "extends" m))

theorem FlatK.flat {E : Env} {S : KVs} {n : String} {ks : List Key} {v : Val} (h : FlatK E S n ks v) : Flat E S n v := by
  induction h with
  | leaf h1 h2 => exact Flat.leaf h1 h2
  | step h1 h2 h3 h4 _ h6 ih => exact Flat.step h1 h2 h3 h4 ih h6

theorem baseMap_resolveBase {E : Env} {S S' : KVs} {n ref : String} {file : Option String}
    (h : baseMap E S ref file = some S') :
    resolveBase E n ref file S = .ok (S', stepKey E n file, file.isNone) ∧ lookup ref S' ≠ none ∧
      (file = none → S' = S) ∧ (∀ f, file = some f → fileServices E.fs f = some S') := by
  cases file with
  | none =>
    simp only [baseMap] at h
    split at h <;> try cases h
    rename_i hl
    cases hx : lookup ref S with
    | none => simp [hx] at hl
    | some x => simp [resolveBase, hx, stepKey]
  | some f =>
    simp only [baseMap] at h
    split at h <;> try cases h
    rename_i S'' hfs
    split at h <;> try cases h
    rename_i hl
    obtain ⟨doc, hd, hs⟩ := fileServices_inv hfs
    cases hx : lookup ref S' with
    | none => simp [hx] at hl
    | some x =>
      refine ⟨?_, by simp [hx], by simp, fun f' hf' => by injection hf' with hf'; subst hf'; exact hfs⟩
      simp [resolveBase, baseFromFile, hd, hs, hx, stepKey]

/-- a memoised or extends-free entry is returned as it is -/
theorem applySvc_noext {E : Env} {fuel : Nat} {n : String} {cur : KVs} {tr : List Key} {svc : KVs}
    (h1 : lookup n cur = some (.map svc)) (h2 : lookup "extends" svc = none) :
    applySvc E (fuel + 1) n cur tr = .ok (.map svc, cur) := by
  simp [applySvc, h1, h2]

theorem applySvc_complete (E : Env) :
    ∀ {S : KVs} {n : String} {ks : List Key} {v : Val}, FlatK E S n ks v →
    ∀ (fuel : Nat) (cur : KVs) (tr : List Key), Inv E S cur → (tr ++ ks).Nodup → ks.length < fuel →
      ∃ cur', applySvc E fuel n cur tr = .ok (v, cur') ∧ Inv E S cur' := by
  intro S n ks v h
  induction h with
  | leaf h1 h2 =>
    rename_i S n svc
    intro fuel cur tr hi _ hf
    obtain ⟨fuel', rfl⟩ : ∃ k, fuel = k + 1 := ⟨fuel - 1, by omega⟩
    rcases hi n with g | ⟨w, g1, g2⟩
    · exact ⟨cur, applySvc_noext (g ▸ h1) h2, hi⟩
    · have := g2.functional (Flat.leaf h1 h2)
      subst this
      exact ⟨cur, applySvc_noext g1 h2, hi⟩
  | step h1 h2 h3 h4 h5 h6 ih =>
    rename_i S n svc e ref file S' b m ks
    intro fuel cur tr hi hnd hf
    obtain ⟨fuel', rfl⟩ : ∃ k, fuel = k + 1 := ⟨fuel - 1, by omega⟩
    have hflat : Flat E S n (.map (Val.erase "extends" m)) := (FlatK.step h1 h2 h3 h4 h5 h6).flat
    rcases hi n with g | ⟨w, g1, g2⟩
    · -- the entry is still the original one: walk the chain
      have hcur : lookup n cur = some (.map svc) := g ▸ h1
      have hfuel : ks.length < fuel' := by simp only [List.length_cons] at hf; omega
      have hkey : stepKey E n file ∉ tr := by
        intro hm
        have := (List.nodup_append.mp hnd).2.2 _ hm _ (List.mem_cons_self ..)
        exact this rfl
      have hnd' : ((tr ++ [stepKey E n file]) ++ ks).Nodup := by
        simpa [List.append_assoc] using hnd
      have hta : trackerAdd tr (stepKey E n file) = some (tr ++ [stepKey E n file]) := by
        simp [trackerAdd, hkey]
      cases file with
      | none =>
        obtain ⟨_, href, hS', _⟩ := baseMap_resolveBase (n := n) h4
        have hS'' := hS' rfl
        subst hS''
        have hrb : resolveBase E n ref none cur = .ok (cur, stepKey E n none, true) := by
          have hk := (hi.key_iff ref).mpr href
          cases hx : lookup ref cur with
          | none => exact absurd hx hk
          | some x => simp [resolveBase, hx, stepKey]
        obtain ⟨cur₁, hrec, hi₁⟩ := ih fuel' cur (tr ++ [stepKey E n none]) hi hnd' hfuel
        refine ⟨Val.insert n (.map (Val.erase "extends" m)) cur₁, ?_, hi₁.insert hflat⟩
        simp [applySvc, hcur, h2, h3, hrb, hta, hrec, h6]
      | some f =>
        obtain ⟨hrb0, href, _, hfs⟩ := baseMap_resolveBase (n := n) h4
        have hrb : resolveBase E n ref (some f) cur = .ok (S', stepKey E n (some f), false) := by
          have hfs' := hfs f rfl
          obtain ⟨doc, hd, hs⟩ := fileServices_inv hfs'
          cases hx : lookup ref S' with
          | none => exact absurd hx href
          | some x => simp [resolveBase, baseFromFile, hd, hs, hx, stepKey]
        obtain ⟨cur₁, hrec, _⟩ := ih fuel' S' (tr ++ [stepKey E n (some f)]) (Inv.refl E S') hnd' hfuel
        refine ⟨cur, ?_, hi⟩
        simp [applySvc, hcur, h2, h3, hrb, hta, hrec, h6]
    · -- the entry is already memoised
      have := g2.functional hflat
      subst this
      exact ⟨cur, applySvc_noext g1 (lookup_erase_self _ _), hi⟩

theorem applyAll_complete (E : Env) (fuel : Nat) :
    ∀ (names : List String) (cur S : KVs), Inv E S cur →
      (∀ n ∈ names, ∃ ks v, FlatK E S n ks v ∧ ks.Nodup ∧ ks.length < fuel) →
      ∃ R, applyAll E fuel names cur = .ok R ∧ Inv E S R := by
  intro names
  induction names with
  | nil => intro cur S hi _; exact ⟨cur, rfl, hi⟩
  | cons n ns ih =>
    intro cur S hi hall
    obtain ⟨ks, v, hk, hnd, hlen⟩ := hall n (List.mem_cons_self ..)
    obtain ⟨cur', hrun, hi'⟩ := applySvc_complete E hk fuel cur [] hi (by simpa using hnd) hlen
    obtain ⟨R, hR, hiR⟩ := ih (Val.insert n v cur') S (hi'.insert hk.flat)
      (fun m hm => hall m (List.mem_cons_of_mem _ hm))
    exact ⟨R, by simp [applyAll, hrun, hR], hiR⟩

theorem FlatK.keys_sub {E : Env} {S0 S : KVs} {n : String} {ks : List Key} {v : Val}
    (h : FlatK E S n ks v) : KeysSub E S0 S → ∀ k ∈ ks, k ∈ keyUniverse E S0 := by
  induction h with
  | leaf => intro _ k hk; cases hk
  | step h1 h2 h3 h4 h5 h6 ih =>
    rename_i S n svc e ref file S' b m ks
    intro hsub k hk
    obtain ⟨_, _, hnone, hsome⟩ := baseMap_resolveBase (n := n) h4
    have hn : n ∈ allNames E S0 := hsub n (by rw [h1]; simp)
    cases file with
    | none =>
      have := hnone rfl
      subst this
      rcases List.mem_cons.mp hk with rfl | hk'
      · exact mem_keyUniverse (by simp [allFiles]) hn
      · exact ih hsub k hk'
    | some f =>
      obtain ⟨a, bb⟩ := fileServices_keysSub (S0 := S0) (hsome f rfl)
      rcases List.mem_cons.mp hk with rfl | hk'
      · exact mem_keyUniverse bb hn
      · exact ih a k hk'

end CV.Extends
