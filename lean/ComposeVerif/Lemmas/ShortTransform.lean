import ComposeVerif.Lemmas.ShortDecode
import ComposeVerif.Model.ShortTransform
/-! Lemmas for the list → mapping transformers (C03). -/
namespace CV.Short
open CV

theorem networksList_distinct (names : List String) (acc : Val.KVs)
    (hnd : names.Nodup) (hdis : ∀ n ∈ names, n ∉ acc.map Prod.fst) :
    networksList (names.map Val.str) acc = .ok (acc ++ names.map (fun n => (n, Val.null))) := by
  induction names generalizing acc with
  | nil => simp [networksList]
  | cons n r ih =>
    simp only [List.nodup_cons] at hnd
    simp only [List.map_cons, networksList, insert_absent _ _ _ (hdis n (by simp))]
    rw [ih _ hnd.2]
    · simp
    · intro m hm
      simp only [List.map_append, List.map_cons, List.map_nil, List.mem_append, List.mem_singleton, not_or]
      exact ⟨hdis m (by simp [hm]), fun h => hnd.1 (h ▸ hm)⟩

def startedRequired : Val := .map [("condition", .str "service_started"), ("required", .bool true)]

theorem dependsList_distinct (names : List String) (acc : Val.KVs)
    (hnd : names.Nodup) (hdis : ∀ n ∈ names, n ∉ acc.map Prod.fst) :
    dependsList (names.map Val.str) acc = .ok (acc ++ names.map (fun n => (n, startedRequired))) := by
  induction names generalizing acc with
  | nil => simp [dependsList]
  | cons n r ih =>
    simp only [List.nodup_cons] at hnd
    simp only [List.map_cons, dependsList, insert_absent _ _ _ (hdis n (by simp))]
    rw [ih _ hnd.2]
    · simp [startedRequired]
    · intro m hm
      simp only [List.map_append, List.map_cons, List.map_nil, List.mem_append, List.mem_singleton, not_or]
      exact ⟨hdis m (by simp [hm]), fun h => hnd.1 (h ▸ hm)⟩

theorem dependsMap_started (names : List String) :
    dependsMap (names.map (fun n => (n, startedRequired))) = .ok (names.map (fun n => (n, startedRequired))) := by
  induction names with
  | nil => rfl
  | cons n r ih =>
    simp only [List.map_cons, startedRequired, dependsMap] at ih ⊢
    rw [ih]
    simp [dependsDefaults, hasKey, Val.lookup]

theorem portEntries_maps (ign : Bool) (ms : List Val.KVs) (acc : List Val) :
    portEntries ign (ms.map Val.map) acc = some (.ok (acc ++ ms.map Val.map)) := by
  induction ms generalizing acc with
  | nil => simp [portEntries]
  | cons m r ih => simp [portEntries, ih]

end CV.Short
