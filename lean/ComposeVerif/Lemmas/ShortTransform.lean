import ComposeVerif.Lemmas.ShortDecode
import ComposeVerif.Model.ShortTransform
/-! Lemmas for the list → mapping transformers (C03). -/
namespace CV.Short
open CV

theorem networksList_distinct (names : List String) (acc : Val.KVs)
    (hnd : names.Nodup) (hdis : ∀ n ∈ names, n ∉ acc.map Prod.fst) :
    networksList (names.map Val.str) acc = .ok (acc ++ names.map (fun n => (n, Val.null))) := by
  induction names generalizing acc with
  | nil => simp [networksList]
  | cons n r ih =>
    simp only [List.nodup_cons] at hnd
    simp only [List.map_cons, networksList, insert_absent _ _ _ (hdis n (by simp))]
    rw [ih _ hnd.2]
    · simp
    · intro m hm
      simp only [List.map_append, List.map_cons, List.map_nil, List.mem_append, List.mem_singleton, not_or]
      exact ⟨hdis m (by simp [hm]), fun h => hnd.1 (h ▸ hm)⟩

def startedRequired : Val := .map [("condition", .str "service_started"), ("required", .bool true)]

theorem dependsList_distinct (names : List String) (acc : Val.KVs)
    (hnd : names.Nodup) (hdis : ∀ n ∈ names, n ∉ acc.map Prod.fst) :
    dependsList (names.map Val.str) acc = .ok (acc ++ names.map (fun n => (n, startedRequired))) := by
  induction names generalizing acc with
  | nil => simp [dependsList]
  | cons n r ih =>
    simp only [List.nodup_cons] at hnd
    simp only [List.map_cons, dependsList, insert_absent _ _ _ (hdis n (by simp))]
    rw [ih _ hnd.2]
    · simp [startedRequired]
    · intro m hm
      simp only [List.map_append, List.map_cons, List.map_nil, List.mem_append, List.mem_singleton, not_or]
      exact ⟨hdis m (by simp [hm]), fun h => hnd.1 (h ▸ hm)⟩

theorem dependsMap_started (names : List String) :
    dependsMap (names.map (fun n => (n, startedRequired))) = .ok (names.map (fun n => (n, startedRequired))) := by
  induction names with
  | nil => rfl
  | cons n r ih =>
    simp only [List.map_cons, startedRequired, dependsMap] at ih ⊢
    rw [ih]
    simp [dependsDefaults, hasKey, Val.lookup]

theorem portEntries_maps (ign : Bool) (ms : List Val.KVs) (acc : List Val) :
    portEntries ign (ms.map Val.map) acc = some (.ok (acc ++ ms.map Val.map)) := by
  induction ms generalizing acc with
  | nil => simp [portEntries]
  | cons m r ih => simp [portEntries, ih]

theorem kvList_false_ne_none (l : List Val) (acc : Val.KVs) : kvList false l acc ≠ none := by
  induction l generalizing acc with
  | nil => simp [kvList]
  | cons e r ih =>
    cases e with
    | str s =>
      simp only [kvList]
      split
      · simp
      · exact ih _
    | _ => simp [kvList]

theorem envFileValue_idem (v : Val) : envFileValue (envFileValue v) = envFileValue v := by
  cases v with
  | str s => simp [envFileValue, hasKey, Val.lookup]
  | map m =>
    simp only [envFileValue]
    by_cases hk : hasKey "required" m = true
    · simp [hk]
    · have : hasKey "required" (m ++ [("required", Val.bool true)]) = true := by
        simp only [hasKey] at hk ⊢
        induction m with
        | nil => simp [Val.lookup]
        | cons p r ih =>
          obtain ⟨k, e⟩ := p
          simp only [List.cons_append, Val.lookup] at hk ⊢
          split
          · simp
          · rename_i hne
            simp only [hne, if_false] at hk
            exact ih hk
      simp [hk, this]
  | _ => rfl

def AllMaps (l : List Val) : Prop := ∀ x ∈ l, ∃ m, x = Val.map m

theorem allMaps_exists (l : List Val) (h : AllMaps l) : ∃ ms : List Val.KVs, l = ms.map Val.map := by
  induction l with
  | nil => exact ⟨[], rfl⟩
  | cons x r ih =>
    obtain ⟨m, hm⟩ := h x (by simp)
    obtain ⟨ms, hms⟩ := ih (fun y hy => h y (by simp [hy]))
    exact ⟨m :: ms, by simp [hm, hms]⟩

theorem allMaps_append_ports (acc : List Val) (l : List PortCfg) (h : AllMaps acc) : AllMaps (acc ++ l.map encodePort) := by
  intro x hx
  simp only [List.mem_append, List.mem_map] at hx
  rcases hx with hx | ⟨p, _, hp⟩
  · exact h x hx
  · exact ⟨_, by rw [← hp]; rfl⟩

theorem portEntries_allMaps (ign : Bool) (l acc r : List Val) (hacc : AllMaps acc)
    (h : portEntries ign l acc = some (.ok r)) : AllMaps r := by
  induction l generalizing acc with
  | nil => simp [portEntries] at h; subst h; exact hacc
  | cons e t ih =>
    cases e with
    | int i =>
      simp only [portEntries] at h
      split at h
      · simp at h
      · exact ih _ (allMaps_append_ports _ _ hacc) h
    | str s =>
      simp only [portEntries] at h
      split at h
      · split at h <;> simp at h
      · exact ih _ (allMaps_append_ports _ _ hacc) h
    | map m =>
      simp only [portEntries] at h
      apply ih _ _ h
      intro x hx
      simp only [List.mem_append, List.mem_singleton] at hx
      rcases hx with hx | hx
      · exact hacc x hx
      · exact ⟨m, hx⟩
    | _ => simp [portEntries] at h

end CV.Short
