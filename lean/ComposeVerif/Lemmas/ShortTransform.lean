import ComposeVerif.Lemmas.ShortDecode
import ComposeVerif.Model.ShortTransform
/-! Lemmas for the list → mapping transformers (C03). -/
namespace CV.Short
open CV

theorem networksList_distinct (names : List String) (acc : Val.KVs)
    (hnd : names.Nodup) (hdis : ∀ n ∈ names, n ∉ acc.map Prod.fst) :
    networksList (names.map Val.str) acc = .ok (acc ++ names.map (fun n => (n, Val.null))) := by
  induction names generalizing acc with
  | nil => simp [networksList]
  | cons n r ih =>
    simp only [List.nodup_cons] at hnd
    simp only [List.map_cons, networksList, insert_absent _ _ _ (hdis n (by simp))]
    rw [ih _ hnd.2]
    · simp
    · intro m hm
      simp only [List.map_append, List.map_cons, List.map_nil, List.mem_append, List.mem_singleton, not_or]
      exact ⟨hdis m (by simp [hm]), fun h => hnd.1 (h ▸ hm)⟩

def startedRequired : Val := .map [("condition", .str "service_started"), ("required", .bool true)]

theorem dependsList_distinct (names : List String) (acc : Val.KVs)
    (hnd : names.Nodup) (hdis : ∀ n ∈ names, n ∉ acc.map Prod.fst) :
    dependsList (names.map Val.str) acc = .ok (acc ++ names.map (fun n => (n, startedRequired))) := by
  induction names generalizing acc with
  | nil => simp [dependsList]
  | cons n r ih =>
    simp only [List.nodup_cons] at hnd
    simp only [List.map_cons, dependsList, insert_absent _ _ _ (hdis n (by simp))]
    rw [ih _ hnd.2]
    · simp [startedRequired]
    · intro m hm
      simp only [List.map_append, List.map_cons, List.map_nil, List.mem_append, List.mem_singleton, not_or]
      exact ⟨hdis m (by simp [hm]), fun h => hnd.1 (h ▸ hm)⟩

theorem dependsMap_started (names : List String) :
    dependsMap (names.map (fun n => (n, startedRequired))) = .ok (names.map (fun n => (n, startedRequired))) := by
  induction names with
  | nil => rfl
  | cons n r ih =>
    simp only [List.map_cons, startedRequired, dependsMap] at ih ⊢
    rw [ih]
    simp [dependsDefaults, hasKey, Val.lookup]

theorem portEntries_maps (ign : Bool) (ms : List Val.KVs) (acc : List Val) :
    portEntries ign (ms.map Val.map) acc = some (.ok (acc ++ ms.map Val.map)) := by
  induction ms generalizing acc with
  | nil => simp [portEntries]
  | cons m r ih => simp [portEntries, ih]

theorem kvList_false_ne_none (l : List Val) (acc : Val.KVs) : kvList false l acc ≠ none := by
  induction l generalizing acc with
  | nil => simp [kvList]
  | cons e r ih =>
    cases e with
    | str s =>
      simp only [kvList]
      split
      · simp
      · exact ih _
    | _ => simp [kvList]

theorem envFileValue_idem (v : Val) : envFileValue (envFileValue v) = envFileValue v := by
  cases v with
  | str s => simp [envFileValue, hasKey, Val.lookup]
  | map m =>
    simp only [envFileValue]
    by_cases hk : hasKey "required" m = true
    · simp [hk]
    · have : hasKey "required" (m ++ [("required", Val.bool true)]) = true := by
        simp only [hasKey] at hk ⊢
        induction m with
        | nil => simp [Val.lookup]
        | cons p r ih =>
          obtain ⟨k, e⟩ := p
          simp only [List.cons_append, Val.lookup] at hk ⊢
          split
          · simp
          · rename_i hne
            simp only [hne, if_false] at hk
            exact ih hk
      simp [hk, this]
  | _ => rfl

def AllMaps (l : List Val) : Prop := ∀ x ∈ l, ∃ m, x = Val.map m

theorem allMaps_exists (l : List Val) (h : AllMaps l) : ∃ ms : List Val.KVs, l = ms.map Val.map := by
  induction l with
  | nil => exact ⟨[], rfl⟩
  | cons x r ih =>
    obtain ⟨m, hm⟩ := h x (by simp)
    obtain ⟨ms, hms⟩ := ih (fun y hy => h y (by simp [hy]))
    exact ⟨m :: ms, by simp [hm, hms]⟩

theorem allMaps_append_ports (acc : List Val) (l : List PortCfg) (h : AllMaps acc) : AllMaps (acc ++ l.map encodePort) := by
  intro x hx
  simp only [List.mem_append, List.mem_map] at hx
  rcases hx with hx | ⟨p, _, hp⟩
  · exact h x hx
  · exact ⟨_, by rw [← hp]; rfl⟩

theorem portEntries_allMaps (ign : Bool) (l acc r : List Val) (hacc : AllMaps acc)
    (h : portEntries ign l acc = some (.ok r)) : AllMaps r := by
  induction l generalizing acc with
  | nil => simp [portEntries] at h; subst h; exact hacc
  | cons e t ih =>
    cases e with
    | int i =>
      simp only [portEntries] at h
      split at h
      · simp at h
      · exact ih _ (allMaps_append_ports _ _ hacc) h
    | str s =>
      simp only [portEntries] at h
      split at h
      · split at h <;> simp at h
      · exact ih _ (allMaps_append_ports _ _ hacc) h
    | map m =>
      simp only [portEntries] at h
      apply ih _ _ h
      intro x hx
      simp only [List.mem_append, List.mem_singleton] at hx
      rcases hx with hx | hx
      · exact hacc x hx
      · exact ⟨m, hx⟩
    | _ => simp [portEntries] at h

theorem lookup_append_self (k : String) (x : Val) (m : Val.KVs) : (Val.lookup k (m ++ [(k, x)])).isSome = true := by
  induction m with
  | nil => simp [Val.lookup]
  | cons p r ih =>
    obtain ⟨k', v'⟩ := p
    simp only [List.cons_append, Val.lookup]
    split
    · rfl
    · exact ih

theorem lookup_append_of_isSome (k : String) (m m' : Val.KVs) (h : (Val.lookup k m).isSome = true) :
    (Val.lookup k (m ++ m')).isSome = true := by
  induction m with
  | nil => simp [Val.lookup] at h
  | cons p r ih =>
    obtain ⟨k', v'⟩ := p
    simp only [List.cons_append, Val.lookup] at h ⊢
    split
    · rfl
    · rename_i hne; simp only [hne, if_false] at h; exact ih h

theorem hasKey_append_self (k : String) (x : Val) (m : Val.KVs) : hasKey k (m ++ [(k, x)]) = true :=
  lookup_append_self k x m
theorem hasKey_append (k : String) (m m' : Val.KVs) (h : hasKey k m = true) : hasKey k (m ++ m') = true :=
  lookup_append_of_isSome k m m' h

theorem dependsDefaults_keys (d : Val.KVs) :
    hasKey "condition" (dependsDefaults d) = true ∧ hasKey "required" (dependsDefaults d) = true := by
  unfold dependsDefaults
  cases hc : hasKey "condition" d
  · simp only [Bool.false_eq_true, if_false]
    cases hr : hasKey "required" (d ++ [("condition", Val.str "service_started")])
    · simp only [Bool.false_eq_true, if_false]
      exact ⟨hasKey_append _ _ _ (hasKey_append_self _ _ _), hasKey_append_self _ _ _⟩
    · simp only [if_true]
      exact ⟨hasKey_append_self _ _ _, hr⟩
  · simp only [if_true]
    cases hr : hasKey "required" d
    · simp only [Bool.false_eq_true, if_false]
      exact ⟨hasKey_append _ _ _ hc, hasKey_append_self _ _ _⟩
    · simp only [if_true]
      exact ⟨hc, hr⟩

theorem dependsDefaults_fix (d : Val.KVs) (h1 : hasKey "condition" d = true) (h2 : hasKey "required" d = true) :
    dependsDefaults d = d := by
  simp [dependsDefaults, h1, h2]

def DepOK (r : Val.KVs) : Prop :=
  ∀ p ∈ r, ∃ d, p.2 = Val.map d ∧ hasKey "condition" d = true ∧ hasKey "required" d = true

theorem dependsMap_of_DepOK (r : Val.KVs) (h : DepOK r) : dependsMap r = .ok r := by
  induction r with
  | nil => rfl
  | cons p t ih =>
    obtain ⟨k, e⟩ := p
    obtain ⟨d, hd, h1, h2⟩ := h (k, e) (by simp)
    simp only at hd
    subst hd
    simp [dependsMap, ih (fun q hq => h q (by simp [hq])), dependsDefaults_fix d h1 h2]

theorem DepOK_of_dependsMap (m r : Val.KVs) (h : dependsMap m = .ok r) : DepOK r := by
  induction m generalizing r with
  | nil => simp [dependsMap] at h; subst h; intro p hp; simp at hp
  | cons p t ih =>
    obtain ⟨k, e⟩ := p
    cases e with
    | map d =>
      simp only [dependsMap] at h
      cases ht : dependsMap t with
      | ok r' =>
        simp only [ht, Out.ok.injEq] at h
        subst h
        intro q hq
        simp only [List.mem_cons] at hq
        rcases hq with hq | hq
        · subst hq; exact ⟨_, rfl, (dependsDefaults_keys d).1, (dependsDefaults_keys d).2⟩
        · exact ih r' ht q hq
      | err x => simp [ht] at h
      | panic x => simp [ht] at h
    | _ => simp [dependsMap] at h

theorem mem_insert (k : String) (v : Val) (acc : Val.KVs) (p : String × Val) (h : p ∈ Val.insert k v acc) :
    p = (k, v) ∨ p ∈ acc := by
  induction acc with
  | nil => simp [Val.insert] at h; exact Or.inl h
  | cons q r ih =>
    obtain ⟨k', v'⟩ := q
    simp only [Val.insert] at h
    split at h
    · simp only [List.mem_cons] at h
      rcases h with h | h
      · exact Or.inl h
      · exact Or.inr (by simp [h])
    · simp only [List.mem_cons] at h
      rcases h with h | h
      · exact Or.inr (by simp [h])
      · rcases ih h with h' | h'
        · exact Or.inl h'
        · exact Or.inr (by simp [h'])

theorem DepOK_of_dependsList (l : List Val) (acc r : Val.KVs) (hacc : DepOK acc) (h : dependsList l acc = .ok r) : DepOK r := by
  induction l generalizing acc with
  | nil => simp [dependsList] at h; subst h; exact hacc
  | cons e t ih =>
    cases e with
    | str k =>
      simp only [dependsList] at h
      apply ih _ _ h
      intro p hp
      rcases mem_insert _ _ _ _ hp with hp | hp
      · subst hp; exact ⟨_, rfl, by decide, by decide⟩
      · exact hacc p hp
    | _ => simp [dependsList] at h

end CV.Short
