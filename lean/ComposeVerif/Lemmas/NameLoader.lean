import ComposeVerif.Lemmas.Name
import ComposeVerif.Model.NameLoader
/-! helper lemmas for the loader-level entry of the name decision (C17, round 5) -/
namespace CV.Name
open CV CV.Name.Spec

/-- the sources of the decision as the loader entry sees them: an imperatively set name is the explicit request, the
    name that was not set imperatively plays the part of the directory name, `COMPOSE_PROJECT_NAME` takes no part
    (the cli has folded it into the imperative name already) -/
def lsources (files : List (List (Option Str))) (env : Env) (lo : LOpts) : Sources where
  explicit := if lo.imperative then lo.name else []
  fromEnv := none
  fromFiles := match interpName env lo.skipInterp (selectedName files) with
    | .ok s => .ok s
    | .error _ => .error ()
  dirBase := lo.name

theorem cliName_nonimp (w : World) (o : PO) (h : (cliName w o).2 = false) :
    (cliName w o).1 = normalize (projDir w o) := by
  unfold cliName at h ⊢
  by_cases hn : o.name = []
  · simp only [hn, ne_eq, not_true_eq_false, if_false] at h ⊢
    cases henv : o.env.get cpn with
    | none => rfl
    | some n =>
      rw [henv] at h
      by_cases hne : n = []
      · simp [hne]
      · simp [hne] at h
  · simp [hn] at h

theorem interpName_false (env : Env) (raw : Str) :
    interpName env false raw =
      match Template.subst env.get raw with
      | .ok s => .ok s
      | .err _ => .error .interp
      | .panic _ => .error .panic := by
  simp only [interpName, Bool.false_eq_true, if_false]
  cases Template.subst env.get raw <;> rfl

theorem interpName_true (env : Env) (raw : Str) : interpName env true raw = .ok raw := by
  simp [interpName]

/-- on the pairs the cli produces, the round-1 model of `loader.projectName` is the full one -/
theorem loaderName_eq_projectNameL (files : List (List (Option Str))) (w : World) (o : PO) :
    loaderName files o.env (cliName w o) = projectNameL files o.env (loptsOf w o false) := by
  unfold loaderName projectNameL loptsOf
  cases hc : (cliName w o).2 with
  | true => simp
  | false =>
    have h1 := cliName_nonimp w o hc
    simp only [Bool.false_eq_true, if_false, interpName_false]
    cases Template.subst (Env.get o.env) (lastName files []) with
    | ok s => simp only [h1, norm_idem]
    | err e => rfl
    | panic p => rfl

theorem pipeline_false (env : Env) (names : List Str) (probe : Str) :
    pipeline env false names probe =
      match interpAll env names with
      | .error e => .error e
      | .ok _ =>
        match Template.subst env.get probe with
        | .err _ => .error .interp
        | .panic _ => .error .panic
        | .ok p => .ok p := by
  simp only [pipeline, Bool.false_eq_true, if_false]
  cases interpAll env names with
  | error e => rfl
  | ok u => simp only; cases Template.subst env.get probe <;> rfl

theorem pipeline_true (env : Env) (names : List Str) (probe : Str) : pipeline env true names probe = .ok probe := by
  simp [pipeline]

theorem loadFiles_eq_loadL (w : World) (o : PO) (files : List (List (Option Str))) :
    loadFiles w o files = loadL files (some o.env) (loptsOf w o false) w.probe := by
  unfold loadFiles loadL
  rw [loaderName_eq_projectNameL]
  simp only [Option.getD_some]
  cases projectNameL files o.env (loptsOf w o false) with
  | error e => rfl
  | ok name =>
    simp only [loptsOf, pipeline_false]
    cases interpAll ((cpn, name) :: o.env) (allNames files) with
    | error e => rfl
    | ok u =>
      simp only
      cases Template.subst (Env.get ((cpn, name) :: o.env)) w.probe <;> rfl

theorem projectNameL_valid (files : List (List (Option Str))) (env : Env) (lo : LOpts) (n : Str)
    (h : projectNameL files env lo = .ok n) : n = [] ∨ validName n = true := by
  unfold projectNameL at h
  split at h
  · split at h
    · cases h
    · rename_i hfix
      cases h
      exact (norm_fixed_iff _).mp (Classical.not_not.mp hfix)
  · split at h
    · cases h
    · split at h <;> cases h <;> exact norm_valid _

theorem loadL_ok_inv (files : List (List (Option Str))) (env : Option Env) (lo : LOpts) (probe : Str) (r : Loaded)
    (h : loadL files env lo probe = .ok r) :
    projectNameL files (env.getD []) lo = .ok r.name ∧ r.name ≠ [] ∧
    r.env = (cpn, r.name) :: env.getD [] ∧
    pipeline r.env lo.skipInterp (allNames files) probe = .ok r.probe := by
  unfold loadL at h
  split at h
  · cases h
  · rename_i name hname
    split at h
    · cases h
    · rename_i p hp
      split at h
      · cases h
      · rename_i hne
        cases h
        exact ⟨hname, hne, rfl, hp⟩

theorem projectNameL_agrees (files : List (List (Option Str))) (env : Env) (lo : LOpts)
    (himp : lo.imperative = true → lo.name ≠ []) :
    Agrees (Spec.decide (lsources files env lo)) (projectNameL files env lo) := by
  unfold Spec.decide lsources projectNameL
  cases hi : lo.imperative with
  | true =>
    have hn := himp hi
    simp only [if_true, hn, ne_eq, not_false_eq_true]
    exact imperative_agrees lo.name hn
  | false =>
    simp only [Bool.false_eq_true, if_false, ne_eq, not_true_eq_false, Option.filter, lastName_selected]
    cases hs : interpName env lo.skipInterp (selectedName files) with
    | ok s =>
      by_cases h1 : normalize s = []
      · by_cases h2 : normalize lo.name = []
        · simp [Agrees, h1, h2]
        · simp [Agrees, h1, h2]
      · simp [Agrees, h1]
    | error e =>
      simp only [Agrees]
      unfold interpName at hs
      split at hs
      · cases hs
      · split at hs
        · cases hs
        · cases hs; exact Or.inl rfl
        · cases hs; exact Or.inr rfl

/-- the four sources of the property at the cli, with the interpolation switch: under `SkipInterpolation` the
    `name:` of the files counts as written -/
def sourcesOfX (w : World) (o : PO) (files : List (List (Option Str))) (skip : Bool) : Sources where
  explicit := o.name
  fromEnv := o.env.get cpn
  fromFiles := match interpName o.env skip (selectedName files) with
    | .ok s => .ok s
    | .error _ => .error ()
  dirBase := projDir w o

theorem interpName_err (env : Env) (skip : Bool) (raw : Str) (e : Err) (h : interpName env skip raw = .error e) :
    e = .interp ∨ e = .panic := by
  unfold interpName at h
  split at h
  · cases h
  · split at h
    · cases h
    · cases h; exact Or.inl rfl
    · cases h; exact Or.inr rfl

theorem nonimp_agrees (w : World) (o : PO) (files : List (List (Option Str))) (skip : Bool) :
    Agrees
      (match (match interpName o.env skip (selectedName files) with
              | .ok s => (Except.ok s : Except Unit Str)
              | .error _ => .error ()) with
        | .error _ => Decision.failed
        | .ok t =>
          if normalize t ≠ [] then .name (normalize t)
          else if normalize (projDir w o) ≠ [] then .name (normalize (projDir w o))
          else .noName)
      (match interpName o.env skip (selectedName files) with
        | .error e => .error e
        | .ok s => if normalize s ≠ [] then .ok (normalize s) else .ok (normalize (normalize (projDir w o)))) := by
  cases hs : interpName o.env skip (selectedName files) with
  | ok s =>
    by_cases h1 : normalize s = []
    · by_cases h2 : normalize (projDir w o) = []
      · simp [Agrees, h1, h2, normalize_nil]
      · simp [Agrees, h1, h2, norm_idem]
    · simp [Agrees, h1]
  | error e =>
    simp only [Agrees]
    rcases interpName_err _ _ _ e hs with h | h <;> simp [h]

/-- the decision of the specification over the four sources, for either position of the interpolation switch -/
theorem projectNameL_agrees_cli (w : World) (o : PO) (files : List (List (Option Str))) (skip : Bool) :
    Agrees (Spec.decide (sourcesOfX w o files skip)) (projectNameL files o.env (loptsOf w o skip)) := by
  unfold Spec.decide sourcesOfX projectNameL loptsOf cliName
  by_cases hname : o.name = []
  · simp only [hname, ne_eq, not_true_eq_false, if_false]
    cases henv : o.env.get cpn with
    | some n =>
      by_cases hn : n = []
      · subst hn
        simp only [Option.filter, ne_eq, not_true_eq_false, decide_false, if_false, Bool.false_eq_true,
          lastName_selected]
        exact nonimp_agrees w o files skip
      · simp only [Option.filter, ne_eq, hn, not_false_eq_true, decide_true, if_true]
        exact imperative_agrees n hn
    | none =>
      simp only [Option.filter, Bool.false_eq_true, if_false, lastName_selected]
      exact nonimp_agrees w o files skip
  · simp only [hname, ne_eq, not_false_eq_true, if_true]
    exact imperative_agrees o.name hname

/-! helpers of the non-vacuity examples of `Props/C17Loader.lean` -/
def exF : List (List (Option Str)) := [[some "one".toList], [none, some "$X".toList]]
def okL (r : Except Err Str) : Option String := r.toOption.map String.ofList
def errL {α} (r : Except Err α) : Option Err := match r with | .error e => some e | .ok _ => none

end CV.Name
