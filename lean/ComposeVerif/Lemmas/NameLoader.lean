import ComposeVerif.Lemmas.Name
import ComposeVerif.Model.NameLoader
/-! helper lemmas for the loader-level entry of the name decision (C17, round 5) -/
namespace CV.Name
open CV CV.Name.Spec

/-- the sources of the decision as the loader entry sees them: an imperatively set name is the explicit request, the
    name that was not set imperatively plays the part of the directory name, `COMPOSE_PROJECT_NAME` takes no part
    (the cli has folded it into the imperative name already) -/
def lsources (files : List (List (Option Str))) (env : Env) (lo : LOpts) : Sources where
  explicit := if lo.imperative then lo.name else []
  fromEnv := none
  fromFiles := match interpName env lo.skipInterp (selectedName files) with
    | .ok s => .ok s
    | .error _ => .error ()
  dirBase := lo.name

theorem cliName_nonimp (w : World) (o : PO) (h : (cliName w o).2 = false) :
    (cliName w o).1 = normalize (projDir w o) := by
  unfold cliName at h ⊢
  by_cases hn : o.name = []
  · simp only [hn, ne_eq, not_true_eq_false, if_false] at h ⊢
    cases henv : o.env.get cpn with
    | none => rfl
    | some n =>
      rw [henv] at h
      by_cases hne : n = []
      · simp [hne]
      · simp [hne] at h
  · simp [hn] at h

theorem interpName_false (env : Env) (raw : Str) :
    interpName env false raw =
      match Template.subst env.get raw with
      | .ok s => .ok s
      | .err _ => .error .interp
      | .panic _ => .error .panic := by
  simp only [interpName, Bool.false_eq_true, if_false]
  cases Template.subst env.get raw <;> rfl

theorem interpName_true (env : Env) (raw : Str) : interpName env true raw = .ok raw := by
  simp [interpName]

/-- on the pairs the cli produces, the round-1 model of `loader.projectName` is the full one -/
theorem loaderName_eq_projectNameL (files : List (List (Option Str))) (w : World) (o : PO) :
    loaderName files o.env (cliName w o) = projectNameL files o.env (loptsOf w o false) := by
  unfold loaderName projectNameL loptsOf
  cases hc : (cliName w o).2 with
  | true => simp
  | false =>
    have h1 := cliName_nonimp w o hc
    simp only [Bool.false_eq_true, if_false, interpName_false]
    cases Template.subst (Env.get o.env) (lastName files []) with
    | ok s => simp only [h1, norm_idem]
    | err e => rfl
    | panic p => rfl

theorem pipeline_false (env : Env) (names : List Str) (probe : Str) :
    pipeline env false names probe =
      match interpAll env names with
      | .error e => .error e
      | .ok _ =>
        match Template.subst env.get probe with
        | .err _ => .error .interp
        | .panic _ => .error .panic
        | .ok p => .ok p := by
  simp only [pipeline, Bool.false_eq_true, if_false]
  cases interpAll env names with
  | error e => rfl
  | ok u => simp only; cases Template.subst env.get probe <;> rfl

theorem pipeline_true (env : Env) (names : List Str) (probe : Str) : pipeline env true names probe = .ok probe := by
  simp [pipeline]

theorem loadFiles_eq_loadL (w : World) (o : PO) (files : List (List (Option Str))) :
    loadFiles w o files = loadL files (some o.env) (loptsOf w o false) w.probe := by
  unfold loadFiles loadL
  rw [loaderName_eq_projectNameL]
  simp only [Option.getD_some]
  cases projectNameL files o.env (loptsOf w o false) with
  | error e => rfl
  | ok name =>
    simp only [loptsOf, pipeline_false]
    cases interpAll ((cpn, name) :: o.env) (allNames files) with
    | error e => rfl
    | ok u =>
      simp only
      cases Template.subst (Env.get ((cpn, name) :: o.env)) w.probe <;> rfl

theorem projectNameL_valid (files : List (List (Option Str))) (env : Env) (lo : LOpts) (n : Str)
    (h : projectNameL files env lo = .ok n) : n = [] ∨ validName n = true := by
  unfold projectNameL at h
  split at h
  · split at h
    · cases h
    · rename_i hfix
      cases h
      exact (norm_fixed_iff _).mp (Classical.not_not.mp hfix)
  · split at h
    · cases h
    · split at h <;> cases h <;> exact norm_valid _

theorem loadL_ok_inv (files : List (List (Option Str))) (env : Option Env) (lo : LOpts) (probe : Str) (r : Loaded)
    (h : loadL files env lo probe = .ok r) :
    projectNameL files (env.getD []) lo = .ok r.name ∧ r.name ≠ [] ∧
    r.env = (cpn, r.name) :: env.getD [] ∧
    pipeline r.env lo.skipInterp (allNames files) probe = .ok r.probe := by
  unfold loadL at h
  split at h
  · cases h
  · rename_i name hname
    split at h
    · cases h
    · rename_i p hp
      split at h
      · cases h
      · rename_i hne
        cases h
        exact ⟨hname, hne, rfl, hp⟩

theorem projectNameL_agrees (files : List (List (Option Str))) (env : Env) (lo : LOpts)
    (himp : lo.imperative = true → lo.name ≠ []) :
    Agrees (Spec.decide (lsources files env lo)) (projectNameL files env lo) := by
  unfold Spec.decide lsources projectNameL
  cases hi : lo.imperative with
  | true =>
    have hn := himp hi
    simp only [if_true, hn, ne_eq, not_false_eq_true]
    exact imperative_agrees lo.name hn
  | false =>
    simp only [Bool.false_eq_true, if_false, ne_eq, not_true_eq_false, Option.filter, lastName_selected]
    cases hs : interpName env lo.skipInterp (selectedName files) with
    | ok s =>
      by_cases h1 : normalize s = []
      · by_cases h2 : normalize lo.name = []
        · simp [Agrees, h1, h2]
        · simp [Agrees, h1, h2]
      · simp [Agrees, h1]
    | error e =>
      simp only [Agrees]
      unfold interpName at hs
      split at hs
      · cases hs
      · split at hs
        · cases hs
        · cases hs; exact Or.inl rfl
        · cases hs; exact Or.inr rfl

/-! helpers of the non-vacuity examples of `Props/C17Loader.lean` -/
def exF : List (List (Option Str)) := [[some "one".toList], [none, some "$X".toList]]
def okL (r : Except Err Str) : Option String := r.toOption.map String.ofList
def errL {α} (r : Except Err α) : Option Err := match r with | .error e => some e | .ok _ => none

end CV.Name
