import ComposeVerif.Lemmas.ExtendsCycle
/-! a chain that gets stuck: `applySvc` reports the class of the first link that cannot be followed -/
namespace CV.Extends
open CV CV.Val

/-- locating the base fails in the memoised map exactly as in the original one (the key and the file name passed along
do not matter) -/
theorem resolveBase_err_congr {E : Env} {orig cur : KVs} (hi : Inv E orig cur) {cf cf' n n' ref : String}
    {file : Option String} {c : String}
    (h : resolveBase E cf' n' ref file orig = .err c) : resolveBase E cf n ref file cur = .err c := by
  cases file with
  | none =>
    simp only [resolveBase] at h ⊢
    split at h <;> try cases h
    rename_i hl
    have : lookup ref cur = none := by
      cases hc : lookup ref cur with
      | none => rfl
      | some x => exact absurd hl ((hi.key_iff ref).mp (by rw [hc]; simp))
    simp [this]
  | some f =>
    simp only [resolveBase] at h ⊢
    cases hb : baseFromFile E.fs f ref with
    | ok svcs => rw [hb] at h; cases h
    | err c' => rw [hb] at h; simpa using h
    | panic s => rw [hb] at h; cases h

theorem resolveBase_ok_congr {E : Env} {orig cur S' : KVs} (hi : Inv E orig cur) {cf cf' n n' ref : String}
    {file : Option String} {k : Key} {sm : Bool}
    (h : resolveBase E cf' n' ref file orig = .ok (S', k, sm)) :
    ∃ svcs same, resolveBase E cf n ref file cur = .ok (svcs, (cf, n), same) ∧ Inv E S' svcs := by
  obtain ⟨_, href, hcase⟩ := resolveBase_ok h
  rcases hcase with ⟨_, hS, hf, _⟩ | ⟨_, f, hf, hfs, _⟩
  · subst hf; subst hS
    have hk := (hi.key_iff ref).mpr href
    cases hx : lookup ref cur with
    | none => exact absurd hx hk
    | some x => exact ⟨cur, true, by simp [resolveBase, hx], hi⟩
  · subst hf
    obtain ⟨doc, hd, hs⟩ := fileServices_inv hfs
    cases hx : lookup ref S' with
    | none => exact absurd hx href
    | some x => exact ⟨S', false, by simp [resolveBase, baseFromFile, hd, hs, hx], Inv.refl E S'⟩

/-- a service that flattens does not get stuck -/
theorem Flat.stuckClass_none {E : Env} {S : KVs} {n : String} {v : Val} (h : Flat E S n v) :
    ∀ fuel, stuckClass E fuel S n = none := by
  induction h with
  | leaf h1 h2 => intro fuel; cases fuel <;> simp [stuckClass, h1, h2]
  | step h1 h2 h3 h4 h5 h6 ih =>
    rename_i S n svc e ref file S' b m
    intro fuel
    cases fuel with
    | zero => simp [stuckClass]
    | succ fuel =>
      obtain ⟨hrb, _, _, _⟩ := baseMap_resolveBase (cf := "") (n := n) h4
      simp [stuckClass, h1, h2, h3, hrb, ih fuel]

/-- nor does one whose chain runs into a cycle -/
theorem Cyclic.stuckClass_none {E : Env} : ∀ (fuel : Nat) (S : KVs) (n : String), Cyclic E (S, n) →
    stuckClass E fuel S n = none := by
  intro fuel
  induction fuel with
  | zero => intro S n _; simp [stuckClass]
  | succ fuel ih =>
    intro S n hc
    obtain ⟨⟨S', ref⟩, l, hcb⟩ := hc.link
    obtain ⟨svc, e, file, h1, h2, h3, h4⟩ := l
    simp only at h1 h3 h4
    obtain ⟨hrb, _, _, _⟩ := baseMap_resolveBase (cf := "") (n := n) h4
    simp [stuckClass, h1, h2, h3, hrb, ih S' ref hcb]

/-- on a chain that gets stuck with class `c`, `applySvc` reports `c` — unless the tracker intervenes (`circular`) or
the fuel runs out; both are excluded at top level (`applySvc_circular_sound`, `applySvc_no_fuel`) -/
theorem applySvc_stuck (E : Env) {c : String} :
    ∀ (f fuel : Nat) (cf n : String) (cur : KVs) (tr : List Key) (orig : KVs),
      Inv E orig cur → stuckClass E f orig n = some c →
      applySvc E fuel cf n cur tr = .err c ∨ applySvc E fuel cf n cur tr = .err "circular" ∨
        applySvc E fuel cf n cur tr = .panic fuelMark := by
  intro f
  induction f with
  | zero => intro fuel cf n cur tr orig _ h; simp [stuckClass] at h
  | succ f ih =>
    intro fuel cf n cur tr orig hi h
    cases fuel with
    | zero => exact Or.inr (Or.inr (by simp [applySvc]))
    | succ fuel =>
      simp only [stuckClass] at h
      -- the entry of `n` is not memoised (a memoised entry flattens, hence is not stuck)
      have hnm : lookup n cur = lookup n orig := by
        rcases hi n with g | ⟨w, _, g2⟩
        · exact g
        · have := g2.stuckClass_none (f + 1)
          simp only [stuckClass] at this
          rw [this] at h; cases h
      split at h
      · rename_i svc hsvc
        have hcur : lookup n cur = some (.map svc) := hnm ▸ hsvc
        split at h
        · cases h
        · rename_i e he
          split at h
          · rename_i c' hp
            simp only [Option.some.injEq] at h; subst h
            exact Or.inl (by simp [applySvc, hcur, he, hp])
          · cases h
          · rename_i ref file hp
            split at h
            · rename_i c' hr
              simp only [Option.some.injEq] at h; subst h
              have := resolveBase_err_congr (cf := cf) (n := n) hi hr
              exact Or.inl (by simp [applySvc, hcur, he, hp, this])
            · cases h
            · rename_i S' k sm hr
              obtain ⟨svcs, same, hrb, hi'⟩ := resolveBase_ok_congr (cf := cf) (n := n) hi hr
              cases hta : trackerAdd tr (cf, n) with
              | none => exact Or.inr (Or.inl (by simp [applySvc, hcur, he, hp, hrb, hta]))
              | some tr' =>
                rcases ih fuel (nextFile cf file) ref svcs tr' S' hi' h with hrec | hrec | hrec
                · exact Or.inl (by simp [applySvc, hcur, he, hp, hrb, hta, hrec])
                · exact Or.inr (Or.inl (by simp [applySvc, hcur, he, hp, hrb, hta, hrec]))
                · exact Or.inr (Or.inr (by simp [applySvc, hcur, he, hp, hrb, hta, hrec]))
      · cases h
      · cases h
      · rename_i x a1 a2 a3
        have hx : lookup n orig = some x := by assumption
        have hnn : ∀ svc, x = Val.map svc → False := by assumption
        have hnull : x = Val.null → False := by assumption
        simp only [Option.some.injEq] at h; subst h
        have hcur : lookup n cur = some x := hnm ▸ hx
        refine Or.inl ?_
        cases x with
        | null => exact absurd rfl hnull
        | map m => exact absurd rfl (hnn m)
        | _ => simp [applySvc, hcur]

end CV.Extends
