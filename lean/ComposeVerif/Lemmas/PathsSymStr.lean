import ComposeVerif.Lemmas.PathsSymlink
import ComposeVerif.Lemmas.PathsComposeSym
/-!
The string-level `ResolveSymbolicLink` (`Sym.resolveStr`) is a well-behaved symbolic-link resolution in the sense of
`SymOK` (C12, round 5): relative paths are left alone, an absolute path is sent to an absolute fixpoint.  This composes
the link-table model with the resolver model (`Cfg.sym`), so that idempotence and two-stage = one-stage hold for trees
*with* symbolic links.
-/
namespace CV.Paths.Sym
open CV CV.Paths

/-- a component of a clean absolute path: not empty, not `.`, not `..`, no slash -/
def Comp (c : Str) : Prop := Norm c ∧ '/' ∉ c

/-- the link table speaks about real paths: the components `EvalSymlinks` answers are proper components -/
def ProperFS (fs : FS) : Prop := ∀ p t, fs p = some (some t) → ∀ c ∈ t, Comp c

/-- rendering proper components and splitting them again is the identity -/
theorem comps_render (r : P) (h : ∀ c ∈ r, Comp c) : comps ('/' :: joinSlash r) = r := by
  have hn : ∀ c ∈ r, Norm c := fun c hc => (h c hc).1
  have hs : ∀ c ∈ r, '/' ∉ c := fun c hc => (h c hc).2
  simp only [comps, cleanStack, isAbs_cons_slash, splitSlash_cons_slash, List.foldl_cons]
  rw [step_skip true [] [] (.inl rfl)]
  cases r with
  | nil => simp [joinSlash, splitSlash, step_skip true [] [] (.inl rfl)]
  | cons a as =>
    rw [splitSlash_joinSlash (a :: as) (by simp) hs, foldl_step_norms true (a :: as) [] hn]
    simp

/-- the components of an absolute path are proper -/
theorem comps_comp (s : Str) (ha : isAbs s = true) : ∀ c ∈ comps s, Comp c := by
  intro c hc
  have hc' : c ∈ cleanStack s := by simpa [comps] using hc
  obtain ⟨k, ns, e, hn, hk⟩ := cleanStack_valid s
  have k0 := hk ha
  subst k0
  simp only [List.replicate_zero, List.append_nil] at e
  exact ⟨hn c (e ▸ hc'), cleanStack_noSlash s c hc'⟩

/-- the loop only ever puts components of the path or of a link target into the result -/
theorem loop_comp (fs : FS) (hp : ProperFS fs) : ∀ (fuel : Nat) (p r : P), (∀ c ∈ p, Comp c) → loop fs fuel p = .ok r →
    ∀ c ∈ r, Comp c
  | 0, p, r, hc, h => by simp only [loop, Res.ok.injEq] at h; subst h; exact hc
  | fuel + 1, p, r, hc, h => by
    simp only [loop, round] at h
    cases hf : firstLink fs [] p with
    | none => simp only [hf, Res.ok.injEq] at h; subst h; exact hc
    | some x =>
      obtain ⟨link, t, rest⟩ := x
      cases t with
      | none => simp [hf] at h
      | some t =>
        simp only [hf] at h
        by_cases e : t ++ rest = p
        · simp only [e, if_true, Res.ok.injEq] at h; subst h; exact hc
        · simp only [e, if_false] at h
          obtain ⟨k, _, _, _, hrest, hfs, _⟩ := firstLink_some fs p [] link rest (some t) hf
          apply loop_comp fs hp fuel (t ++ rest) r _ h
          intro c hcm
          rcases List.mem_append.mp hcm with hm | hm
          · exact hp link t hfs c hm
          · exact hc c (List.mem_of_mem_drop (hrest ▸ hm))

/-- **the string-level `ResolveSymbolicLink` is a well-behaved resolution** -/
theorem resolveStr_symOK (fs : FS) (hph : Physical fs) (hp : ProperFS fs) : SymOK (resolveStr fs) where
  rel := fun s hs => by simp [resolveStr, hs]
  abs := fun s r ha h => by
    simp only [resolveStr, ha, if_true] at h
    cases hr : resolveSym fs (comps s) with
    | err => simp [hr] at h
    | ok r' =>
      simp only [hr, Option.some.injEq] at h
      subst h
      have hc : ∀ c ∈ r', Comp c := loop_comp fs hp _ _ _ (comps_comp s ha) (by simpa [resolveSym] using hr)
      have hlf : LinkFree fs r' :=
        loop_linkFree fs hph (comps s).length [] (comps s) r' (by intro k h1 h2; simp at h2; omega) (Nat.le_refl _)
          (by simpa [resolveSym] using hr)
      refine ⟨isAbs_cons_slash _, ?_⟩
      simp only [resolveStr, isAbs_cons_slash, if_true, comps_render r' hc, resolveSym, loop_of_linkFree fs r' hlf]

/-- a one-link table `/l → /t` (non-vacuity of `Physical`, `ProperFS` in Props/C12Symlink.lean) -/
def oneLink : FS := ofTable [([['l']], some [['t']])]

theorem oneLink_cases (p : P) (t : P) (h : oneLink p = some (some t)) : p = [['l']] ∧ t = [['t']] := by
  simp only [oneLink, ofTable, List.find?] at h
  split at h
  · rename_i e hf
    split at hf
    · rename_i hd
      simp only [Option.some.injEq] at hf
      subst hf
      simp only [Option.some.injEq] at h
      exact ⟨(of_decide_eq_true hd).symm, h.symm⟩
    · simp at hf
  · cases h

end CV.Paths.Sym
