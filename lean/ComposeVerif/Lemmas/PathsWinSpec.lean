import ComposeVerif.Lemmas.PathsWin
import ComposeVerif.Spec.Paths
/-! The index-based `isWindowsAbs` (paths/windows_path.go) decides exactly the specification
`Spec.winAbs` ("drive letter + colon + slash" or `\\server\share\…`). -/
namespace CV.Paths
open CV.Paths.Spec

theorem drop_takeWhile_length {α : Type} (f : α → Bool) (l : List α) :
    l.drop (l.takeWhile f).length = l.dropWhile f := by
  induction l with
  | nil => rfl
  | cons a r ih =>
    by_cases h : f a = true
    · simp [List.takeWhile, List.dropWhile, h, ih]
    · simp [List.takeWhile, List.dropWhile, h]

theorem dropWhile_head_not {α : Type} (f : α → Bool) (l : List α) (a : α) (r : List α)
    (h : l.dropWhile f = a :: r) : f a = false := by
  induction l with
  | nil => simp at h
  | cons b t ih =>
    by_cases hb : f b = true
    · simp only [List.dropWhile, hb] at h; exact ih h
    · simp only [List.dropWhile, hb] at h
      cases h
      simpa using hb

theorem scanShare_eq (p : Str) (n : Nat) (hn : n ≤ p.length) :
    scanShare p n = some (n + ((p.drop n).takeWhile notSlash).length) := by
  fun_induction scanShare p n with
  | case1 n h hnone => rw [List.getElem?_eq_getElem h] at hnone; cases hnone
  | case2 n h c hc hs =>
    rw [List.getElem?_eq_getElem h] at hc
    cases hc
    rw [List.drop_eq_getElem_cons h]
    simp [List.takeWhile, notSlash, hs]
  | case3 n h c hc hs ih =>
    rw [List.getElem?_eq_getElem h] at hc
    cases hc
    rw [ih (by omega), List.drop_eq_getElem_cons h]
    have : notSlash p[n] = true := by simp [notSlash, hs]
    simp only [List.takeWhile, this, List.length_cons]
    congr 1
    omega
  | case4 n h =>
    have : n = p.length := by omega
    subst this
    simp

/-- the outer loop of `volumeNameLen` on the suffix it still has to read -/
def uncSpec : Str → Nat → Nat
  | c :: d :: rest, n =>
    if isSlash c then
      (if !isSlash d then (if d = '.' then 0 else n + 1 + ((d :: rest).takeWhile notSlash).length) else 0)
    else uncSpec (d :: rest) (n + 1)
  | _, _ => 0

theorem uncLoop_eq (p : Str) (n : Nat) (hn : n ≤ p.length) : uncLoop p n = some (uncSpec (p.drop n) n) := by
  fun_induction uncLoop p n with
  | case1 n h hnone => rw [List.getElem?_eq_getElem (by omega)] at hnone; cases hnone
  | case2 n h c hc hs hnone => rw [List.getElem?_eq_getElem (by omega)] at hnone; cases hnone
  | case3 n h c hc hs hd hds =>
    have h0 : n < p.length := by omega
    have h1 : n + 1 < p.length := by omega
    rw [List.getElem?_eq_getElem h0] at hc
    rw [List.getElem?_eq_getElem h1] at hd
    cases hc
    simp only [Option.some.injEq] at hd
    rw [List.drop_eq_getElem_cons h0, List.drop_eq_getElem_cons h1]
    simp only [uncSpec, hs, if_true, hd]
    simp
  | case4 n h c hc hs d hd hds hdot =>
    have h0 : n < p.length := by omega
    have h1 : n + 1 < p.length := by omega
    rw [List.getElem?_eq_getElem h0] at hc
    rw [List.getElem?_eq_getElem h1] at hd
    cases hc; cases hd
    rw [scanShare_eq p (n + 1) (by omega)]
    rw [List.drop_eq_getElem_cons h0, List.drop_eq_getElem_cons h1]
    simp only [uncSpec, hs, if_true, hds, hdot, if_false]
  | case5 n h c hc hs d hd hds =>
    have h0 : n < p.length := by omega
    have h1 : n + 1 < p.length := by omega
    rw [List.getElem?_eq_getElem h0] at hc
    rw [List.getElem?_eq_getElem h1] at hd
    cases hc; cases hd
    rw [List.drop_eq_getElem_cons h0, List.drop_eq_getElem_cons h1]
    simp only [uncSpec, hs, if_true]
    simp [hds]
  | case6 n h c hc hs ih =>
    have h0 : n < p.length := by omega
    have h1 : n + 1 < p.length := by omega
    rw [List.getElem?_eq_getElem h0] at hc
    cases hc
    rw [ih (by omega), List.drop_eq_getElem_cons h0, List.drop_eq_getElem_cons h1]
    simp only [uncSpec, hs, Bool.false_eq_true, if_false]
  | case7 n h =>
    have : (p.drop n).length ≤ 1 := by simp; omega
    cases hd : p.drop n with
    | nil => simp [uncSpec]
    | cons a r =>
      rw [hd] at this
      cases r with
      | nil => simp [uncSpec]
      | cons b r' => simp at this

/-- what `isWindowsAbs` concludes from the volume length `l` -/
def absOfVol (p : Str) (l : Nat) : Bool :=
  match l with
  | 0 => false
  | l + 1 => match p.drop (l + 1) with
    | [] => false
    | c :: _ => isSlash c

theorem isWindowsAbs_of_vol (p : Str) (l : Nat) (h : volumeNameLen? p = some l) (hle : l ≤ p.length) :
    isWindowsAbs? p = some (absOfVol p l) := by
  unfold isWindowsAbs?
  rw [h]
  cases l with
  | zero => rfl
  | succ l =>
    simp only [absOfVol]
    have : ¬ (l + 1 > p.length) := by omega
    simp only [this, if_false]
    split <;> rename_i hd <;> simp [hd]

/-- the `\\server\share\…` test on what follows the first character of the server name -/
def uncTail (q : Str) : Bool :=
  match q.dropWhile notSlash with
  | _ :: r2 =>
    (r2.takeWhile notSlash) ≠ [] && (r2.takeWhile notSlash).head? ≠ some '.' && r2.dropWhile notSlash ≠ []
  | [] => false

theorem uncTail_short (q : Str) (h : q.length ≤ 1) : uncTail q = false := by
  cases q with
  | nil => simp [uncTail]
  | cons c r =>
    cases r with
    | nil =>
      by_cases hc : notSlash c = true
      · simp [uncTail, List.dropWhile, hc]
      · simp [uncTail, List.dropWhile, hc]
    | cons d r' => simp at h

theorem uncTail_skip (c : Char) (q : Str) (h : isSlash c = false) : uncTail (c :: q) = uncTail q := by
  have : notSlash c = true := by simp [notSlash, h]
  simp [uncTail, List.dropWhile, this]

theorem winTail (q : Str) : ∀ pre : Str, absOfVol (pre ++ q) (uncSpec q pre.length) = uncTail q := by
  induction q with
  | nil => intro pre; simp [uncSpec, absOfVol, uncTail]
  | cons c t ih =>
    intro pre
    cases t with
    | nil => rw [uncTail_short [c] (by simp)]; simp [uncSpec, absOfVol]
    | cons d rest =>
      by_cases hc : isSlash c = true
      · have hnc : notSlash c = false := by simp [notSlash, hc]
        by_cases hd : isSlash d = true
        · have hnd : notSlash d = false := by simp [notSlash, hd]
          simp [uncSpec, hc, hd, absOfVol, uncTail, List.dropWhile, List.takeWhile, hnc, hnd]
        · have hnd : notSlash d = true := by simp [notSlash, hd]
          by_cases hdot : d = '.'
          · subst hdot
            simp [uncSpec, hc, hd, absOfVol, uncTail, List.dropWhile, List.takeWhile, hnc, hnd]
          · have hl : uncSpec (c :: d :: rest) pre.length =
                (pre.length + ((d :: rest).takeWhile notSlash).length) + 1 := by
              simp only [uncSpec, hc, if_true, hd, Bool.not_false, hdot, if_false]
              omega
            rw [hl]
            simp only [absOfVol]
            have hdrop : (pre ++ c :: d :: rest).drop (pre.length + ((d :: rest).takeWhile notSlash).length + 1)
                = (d :: rest).dropWhile notSlash := by
              rw [← drop_takeWhile_length notSlash (d :: rest)]
              have e1 : pre.length + ((d :: rest).takeWhile notSlash).length + 1
                  = pre.length + (1 + ((d :: rest).takeWhile notSlash).length) := by omega
              rw [e1, ← List.drop_drop, List.drop_left, ← List.drop_drop]
              simp
            rw [hdrop]
            have hshare : (d :: rest).takeWhile notSlash = d :: rest.takeWhile notSlash := by
              simp [List.takeWhile, hnd]
            have hut : uncTail (c :: d :: rest) = decide ((d :: rest).dropWhile notSlash ≠ []) := by
              simp only [uncTail, List.dropWhile, hnc, hshare]
              simp [hdot]
            rw [hut]
            cases hr3 : (d :: rest).dropWhile notSlash with
            | nil => simp
            | cons c' r3 =>
              have := dropWhile_head_not notSlash _ c' r3 hr3
              simp only [notSlash, Bool.not_eq_false'] at this
              simp [this]
      · have hc' : isSlash c = false := by simpa using hc
        rw [uncTail_skip c _ hc']
        have := ih (pre ++ [c])
        simp only [List.append_assoc, List.singleton_append, List.length_append, List.length_singleton] at this
        rw [← this]
        simp [uncSpec, hc']

theorem uncAbs_cons3 (a b c2 : Char) (q : Str) :
    uncAbs (a :: b :: c2 :: q) = (isSlash a && isSlash b && notSlash c2 && decide (c2 ≠ '.') && uncTail q) := by
  by_cases h2 : notSlash c2 = true
  · simp only [uncAbs, List.takeWhile, h2, List.dropWhile, uncTail]
    cases hq : q.dropWhile notSlash with
    | nil => simp
    | cons x r2 => simp [Bool.and_assoc]
  · have h2' : notSlash c2 = false := by simpa using h2
    simp [uncAbs, List.takeWhile, h2']

theorem isLetter_not_slash (c : Char) (h : isLetter c = true) : isSlash c = false := by
  by_cases h1 : c = '\\'
  · subst h1; revert h; decide
  · by_cases h2 : c = '/'
    · subst h2; revert h; decide
    · simp [isSlash, h1, h2]

theorem driveAbs_cons (a b : Char) (rest : Str) :
    driveAbs (a :: b :: rest) = (decide (b = ':') && isLetter a &&
      (match rest with | [] => false | s :: _ => isSlash s)) := by
  by_cases hb : b = ':'
  · subst hb
    cases rest with
    | nil => simp [driveAbs]
    | cons s r => simp [driveAbs]
  · cases rest with
    | nil => simp [driveAbs, hb]
    | cons s r =>
      unfold driveAbs
      split
      · rename_i heq
        simp only [List.cons.injEq] at heq
        exact absurd heq.2.1 hb
      · simp [hb]

/-- **the index code decides the specification** -/
theorem isWindowsAbs_eq_spec (p : Str) : isWindowsAbs? p = some (winAbs p) := by
  obtain ⟨l, hl, hle⟩ := volumeNameLen_total p
  rw [isWindowsAbs_of_vol p l hl hle]
  congr 1
  cases p with
  | nil => simp [volumeNameLen?] at hl; subst hl; simp [absOfVol, winAbs, driveAbs, uncAbs]
  | cons a r =>
    cases r with
    | nil => simp [volumeNameLen?] at hl; subst hl; simp [absOfVol, winAbs, driveAbs, uncAbs]
    | cons b rest =>
      unfold volumeNameLen? at hl
      simp only [List.length_cons, List.getElem?_cons_zero, List.getElem?_cons_succ] at hl
      have hlen : ¬ (rest.length + 1 + 1 < 2) := by omega
      simp only [hlen, if_false] at hl
      simp only [winAbs, driveAbs_cons]
      by_cases hd : (b = ':' ∧ isLetter a = true)
      · have hd' : (decide (b = ':') && isLetter a) = true := by simp [hd.1, hd.2]
        simp only [hd', if_true, Option.some.injEq] at hl
        subst hl
        have hua : uncAbs (a :: b :: rest) = false := by
          have := isLetter_not_slash a hd.2
          cases rest with
          | nil => simp [uncAbs, this]
          | cons c2 q => rw [uncAbs_cons3]; simp [this]
        rw [hua]
        simp only [absOfVol, List.drop_succ_cons, List.drop_zero, hd', Bool.true_and, Bool.or_false]
        cases rest <;> rfl
      · have hd' : (decide (b = ':') && isLetter a) = false := by
          cases hx : (decide (b = ':') && isLetter a) with
          | false => rfl
          | true =>
            simp only [Bool.and_eq_true, decide_eq_true_eq] at hx
            exact absurd hx hd
        simp only [hd', Bool.false_eq_true, if_false, Bool.false_and, Bool.false_or] at hl ⊢
        by_cases h5 : rest.length + 1 + 1 ≥ 5
        · simp only [h5, if_true] at hl
          cases rest with
          | nil => simp at h5
          | cons c2 q =>
            rw [uncAbs_cons3]
            by_cases hs : (isSlash a && isSlash b) = true
            · simp only [hs, if_true, List.getElem?_cons_zero] at hl
              by_cases hc2 : (!isSlash c2 && decide (c2 ≠ '.')) = true
              · simp only [hc2, if_true] at hl
                rw [uncLoop_eq _ 3 (by simp)] at hl
                simp only [List.drop_succ_cons, List.drop_zero, Option.some.injEq] at hl
                subst hl
                have := winTail q [a, b, c2]
                simp only [List.cons_append, List.nil_append, List.length_cons, List.length_nil] at this
                rw [this]
                simp only [Bool.and_eq_true] at hs hc2
                simp [hs.1, hs.2, notSlash, hc2.1, hc2.2]
              · simp only [hc2, Bool.false_eq_true, if_false, Option.some.injEq] at hl
                subst hl
                have : (notSlash c2 && decide (c2 ≠ '.')) = false := by
                  simpa [notSlash] using hc2
                simp only [absOfVol]
                rw [Bool.and_assoc (isSlash a && isSlash b), this]
                simp
            · simp only [hs, Bool.false_eq_true, if_false, Option.some.injEq] at hl
              subst hl
              have hs' : (isSlash a && isSlash b) = false := by simpa using hs
              simp [absOfVol, hs']
        · simp only [h5, if_false, Option.some.injEq] at hl
          subst hl
          simp only [absOfVol]
          cases rest with
          | nil => simp [uncAbs]
          | cons c2 q =>
            rw [uncAbs_cons3, uncTail_short q (by simp at h5; omega)]
            simp

end CV.Paths
