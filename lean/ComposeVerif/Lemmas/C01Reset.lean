import ComposeVerif.Model.C01Reset
/-!
Helper lemmas for C01: alias expansion terminates on every arena whose alias / child edges are well-founded
(`Ranked`): documents in which no alias points (directly or through other aliases) at a node enclosing it.
-/
namespace CV.C01.Reset

/-- a rank that strictly decreases along child edges and alias edges -/
def NodeOk (rk : Nat → Nat) (n : Nat) : Node → Prop
  | .scalar _ => True
  | .seq _ items => ∀ c ∈ items, rk c < rk n
  | .map _ entries => ∀ e ∈ entries, rk e.2 < rk n
  | .alias t => rk t < rk n

def Ranked (rk : Nat → Nat) (arena : List Node) : Prop :=
  ∀ n node, arena[n]? = some node → NodeOk rk n node

theorem getElem?_setNode : ∀ (a : List Node) (n m : Nat) (nd : Node),
    (setNode n nd a)[m]? = if m = n ∧ n < a.length then some nd else a[m]?
  | [], n, m, nd => by simp [setNode]
  | h :: t, 0, m, nd => by
    cases m with
    | zero => simp [setNode]
    | succ k => simp [setNode]
  | h :: t, n + 1, m, nd => by
    cases m with
    | zero => simp [setNode]
    | succ k =>
      simp only [setNode, List.getElem?_cons_succ, List.length_cons]
      rw [getElem?_setNode t n k nd]
      simp

theorem Ranked.setNode {rk : Nat → Nat} {a : List Node} (h : Ranked rk a) (n : Nat) (nd : Node)
    (hnd : NodeOk rk n nd) : Ranked rk (setNode n nd a) := by
  intro m node hm
  rw [getElem?_setNode] at hm
  split at hm
  · rename_i hc
    cases hm
    rw [hc.1]
    exact hnd
  · exact h m node hm

/-- what the recursive call must guarantee for the loops -/
def Post (rk : Nat → Nat) (n : Nat) : Except Err (St × Option Nat) → Prop
  | .error e => e ≠ .outOfFuel
  | .ok (st', r) => Ranked rk st'.arena ∧ ∀ k, r = some k → rk k ≤ rk n

theorem resolveItems_post (rk : Nat → Nat) (bound rkn : Nat)
    (rec : St → Nat → P → Except Err (St × Option Nat))
    (hrec : ∀ st c p, Ranked rk st.arena → rk c < bound → Post rk c (rec st c p)) (path : P) :
    ∀ (items : List Nat) (st : St) (idx : Nat), Ranked rk st.arena →
      (∀ c ∈ items, rk c < bound ∧ rk c < rkn) →
      match resolveItems rec path st items idx with
      | .error e => e ≠ .outOfFuel
      | .ok (st', kept) => Ranked rk st'.arena ∧ ∀ k ∈ kept, rk k < rkn
  | [], st, idx, hr, _ => by
    simp only [resolveItems]
    exact ⟨hr, by intro k hk; cases hk⟩
  | c :: rest, st, idx, hr, hc => by
    have hcc := hc c (List.mem_cons_self ..)
    have h1 := hrec st c (path ++ [toString idx]) hr hcc.1
    unfold resolveItems
    cases hres : rec st c (path ++ [toString idx]) with
    | error e => rw [hres] at h1; exact h1
    | ok pr =>
      obtain ⟨st1, r⟩ := pr
      rw [hres] at h1
      simp only [Post] at h1
      have h2 := resolveItems_post rk bound rkn rec hrec path rest st1 (idx + 1) h1.1
        (fun x hx => hc x (List.mem_cons_of_mem _ hx))
      simp only
      cases hres2 : resolveItems rec path st1 rest (idx + 1) with
      | error e => rw [hres2] at h2; exact h2
      | ok pr2 =>
        obtain ⟨st2, kept⟩ := pr2
        rw [hres2] at h2
        simp only at h2 ⊢
        refine ⟨h2.1, ?_⟩
        intro k hk
        cases r with
        | none => exact h2.2 k hk
        | some k0 =>
          simp only [List.mem_cons] at hk
          rcases hk with hk | hk
          · subst hk
            exact Nat.lt_of_le_of_lt (h1.2 k rfl) hcc.2
          · exact h2.2 k hk

theorem resolveEntries_post (rk : Nat → Nat) (bound rkn : Nat)
    (rec : St → Nat → P → Except Err (St × Option Nat))
    (hrec : ∀ st c p, Ranked rk st.arena → rk c < bound → Post rk c (rec st c p)) (path : P) :
    ∀ (entries : List (String × Nat)) (st : St), Ranked rk st.arena →
      (∀ e ∈ entries, rk e.2 < bound ∧ rk e.2 < rkn) →
      match resolveEntries rec path st entries with
      | .error e => e ≠ .outOfFuel
      | .ok (st', kept) => Ranked rk st'.arena ∧ ∀ e ∈ kept, rk e.2 < rkn
  | [], st, hr, _ => by
    simp only [resolveEntries]
    exact ⟨hr, by intro k hk; cases hk⟩
  | (key, c) :: rest, st, hr, hc => by
    have hcc := hc (key, c) (List.mem_cons_self ..)
    have h1 := hrec st c (path ++ [key]) hr hcc.1
    unfold resolveEntries
    cases hres : rec st c (path ++ [key]) with
    | error e => rw [hres] at h1; exact h1
    | ok pr =>
      obtain ⟨st1, r⟩ := pr
      rw [hres] at h1
      simp only [Post] at h1
      have h2 := resolveEntries_post rk bound rkn rec hrec path rest st1 h1.1
        (fun x hx => hc x (List.mem_cons_of_mem _ hx))
      simp only
      cases hres2 : resolveEntries rec path st1 rest with
      | error e => rw [hres2] at h2; exact h2
      | ok pr2 =>
        obtain ⟨st2, kept⟩ := pr2
        rw [hres2] at h2
        simp only at h2 ⊢
        refine ⟨h2.1, ?_⟩
        intro e he
        cases r with
        | none => exact h2.2 e he
        | some k0 =>
          simp only [List.mem_cons] at he
          rcases he with he | he
          · subst he
            exact Nat.lt_of_le_of_lt (h1.2 k0 rfl) hcc.2
          · exact h2.2 e he

theorem Post.mono {rk : Nat → Nat} {t n : Nat} {x : Except Err (St × Option Nat)} (h : Post rk t x) (hle : rk t ≤ rk n) :
    Post rk n x := by
  cases x with
  | error e => exact h
  | ok pr =>
    obtain ⟨st', r⟩ := pr
    exact ⟨h.1, fun k hk => Nat.le_trans (h.2 k hk) hle⟩

theorem checkForCycle_spec (st : St) (t : Nat) (path : P) :
    checkForCycle st t path = .error .cycle ∨ ∃ st', checkForCycle st t path = .ok st' ∧ st'.arena = st.arena := by
  unfold checkForCycle
  simp only
  split
  · exact Or.inl rfl
  · exact Or.inr ⟨_, rfl, rfl⟩

/-- on a ranked arena the recursion never runs out of fuel once the fuel exceeds the rank of the node,
it keeps the arena ranked, and the node it returns is no higher than the one it was given -/
theorem resolve_post (rk : Nat → Nat) : ∀ (fuel : Nat) (st : St) (n : Nat) (path : P),
    Ranked rk st.arena → rk n < fuel → Post rk n (resolve fuel st n path)
  | 0, _, _, _, _, hf => by omega
  | fuel + 1, st, n, path, hr, hf => by
    unfold resolve
    simp only
    cases hn : st.arena[n]? with
    | none => simp [Post]
    | some node =>
      have hok := hr n node hn
      cases node with
      | alias t =>
        simp only
        simp only [NodeOk] at hok
        rcases checkForCycle_spec st t (normPath path) with hck | ⟨st', hck, harena⟩
        · rw [hck]; simp [Post]
        · rw [hck]
          simp only
          have ih := resolve_post rk fuel st' t (normPath path) (harena ▸ hr) (by omega)
          exact ih.mono (Nat.le_of_lt hok)
      | scalar tag =>
        simp only [Node.tag]
        by_cases h1 : tag = "!reset"
        · simp only [h1, ↓reduceIte, Post]
          exact ⟨hr, by intro k hk; cases hk⟩
        · by_cases h2 : tag = "!override"
          · simp only [h1, h2, ↓reduceIte, Post]
            exact ⟨hr, by intro k hk; cases hk; exact Nat.le_refl _⟩
          · simp only [h1, h2, ↓reduceIte, Post]
            exact ⟨hr, by intro k hk; cases hk; exact Nat.le_refl _⟩
      | seq tag items =>
        simp only [Node.tag]
        by_cases h1 : tag = "!reset"
        · simp only [h1, ↓reduceIte, Post]
          exact ⟨hr, by intro k hk; cases hk⟩
        · by_cases h2 : tag = "!override"
          · simp only [h1, h2, ↓reduceIte, Post]
            exact ⟨hr, by intro k hk; cases hk; exact Nat.le_refl _⟩
          · simp only [h1, h2, ↓reduceIte]
            simp only [NodeOk] at hok
            have hl := resolveItems_post rk fuel (rk n) (resolve fuel) (fun st c p h1 h2 => resolve_post rk fuel st c p h1 h2)
              (normPath path) items st 0 hr (fun c hc => ⟨by have := hok c hc; omega, hok c hc⟩)
            revert hl
            cases resolveItems (resolve fuel) (normPath path) st items 0 with
            | error e => exact fun h => h
            | ok pr =>
              obtain ⟨st', kept⟩ := pr
              simp only [Post]
              intro hl
              exact ⟨hl.1.setNode n _ (by simpa [NodeOk] using hl.2), by intro k hk; cases hk; exact Nat.le_refl _⟩
      | map tag entries =>
        simp only [Node.tag]
        by_cases h1 : tag = "!reset"
        · simp only [h1, ↓reduceIte, Post]
          exact ⟨hr, by intro k hk; cases hk⟩
        · by_cases h2 : tag = "!override"
          · simp only [h1, h2, ↓reduceIte, Post]
            exact ⟨hr, by intro k hk; cases hk; exact Nat.le_refl _⟩
          · simp only [h1, h2, ↓reduceIte]
            simp only [NodeOk] at hok
            have hl := resolveEntries_post rk fuel (rk n) (resolve fuel) (fun st c p h1 h2 => resolve_post rk fuel st c p h1 h2)
              (normPath path) entries st hr (fun e he => ⟨by have := hok e he; omega, hok e he⟩)
            revert hl
            cases resolveEntries (resolve fuel) (normPath path) st entries with
            | error e => exact fun h => h
            | ok pr =>
              obtain ⟨st', kept⟩ := pr
              simp only [Post]
              intro hl
              exact ⟨hl.1.setNode n _ (by simpa [NodeOk] using hl.2), by intro k hk; cases hk; exact Nat.le_refl _⟩

end CV.C01.Reset
