import ComposeVerif.Model.C01Reset
import ComposeVerif.Lemmas.C01Dep
/-!
Helper lemmas for C01: alias expansion (`resolveReset` after the repair of `hang@alias-self-merge`) terminates on
EVERY arena: no node is nested more than twice on the recursion stack, so the stack is at most twice as long as
the arena.
-/
namespace CV.C01.Reset

theorem length_le_of_count_le (k : Nat) : ∀ (N : Nat) (l : List Nat),
    (∀ x, l.count x ≤ k) → (∀ x ∈ l, x < N) → l.length ≤ k * N
  | 0, l, _, hb => by
    cases l with
    | nil => simp
    | cons a t => exact absurd (hb a (List.mem_cons_self ..)) (Nat.not_lt_zero _)
  | N + 1, l, hc, hb => by
    have hsplit := List.length_eq_countP_add_countP (fun x => x == N) (l := l)
    have h1 : List.countP (fun x => x == N) l = l.count N := by
      simp [List.count]
    have h2 : List.countP (fun a => decide ¬((a == N) = true)) l = (l.filter (fun x => !(x == N))).length := by
      rw [List.countP_eq_length_filter]
      congr 1
      apply List.filter_congr
      intro x _
      by_cases hx : x = N <;> simp [hx]
    have ih := length_le_of_count_le k N (l.filter (fun x => !(x == N)))
      (by
        intro x
        exact Nat.le_trans (List.Sublist.count_le x List.filter_sublist) (hc x))
      (by
        intro x hx
        rw [List.mem_filter] at hx
        have hlt := hb x hx.1
        have hne : x ≠ N := by simpa using hx.2
        omega)
    have hcN := hc N
    rw [Nat.mul_succ]
    omega

theorem length_setNode : ∀ (a : List Node) (n : Nat) (nd : Node), (setNode n nd a).length = a.length
  | [], _, _ => by simp [setNode]
  | h :: t, 0, nd => by simp [setNode]
  | h :: t, n + 1, nd => by simp [setNode, length_setNode t n nd]

/-- the stack invariant: multiplicity ≤ 2, only valid indices -/
def StackOk (N : Nat) (active : List Nat) : Prop :=
  (∀ x, active.count x ≤ 2) ∧ (∀ x ∈ active, x < N)

theorem StackOk.length_le {N : Nat} {active : List Nat} (h : StackOk N active) : active.length ≤ 2 * N :=
  length_le_of_count_le 2 N active h.1 h.2

theorem StackOk.push {N : Nat} {active : List Nat} {n : Nat} (h : StackOk N active)
    (hc : ¬ 2 ≤ active.count n) (hn : n < N) : StackOk N (n :: active) := by
  refine ⟨?_, ?_⟩
  · intro x
    rw [List.count_cons]
    by_cases hx : n = x
    · subst hx; simp; omega
    · have := h.1 x
      simp [hx]
      exact this
  · intro x hx
    rcases List.mem_cons.mp hx with rfl | h'
    · exact hn
    · exact h.2 x h'

/-- what a call guarantees: it does not run out of fuel, and the arena keeps its length -/
def PostN (N : Nat) : Except Err (St × Option Nat) → Prop
  | .error e => e ≠ .outOfFuel
  | .ok (st', _) => st'.arena.length = N

theorem checkForCycle_spec (st : St) (t : Nat) (path : P) :
    checkForCycle st t path = .error .cycle ∨ ∃ st', checkForCycle st t path = .ok st' ∧ st'.arena = st.arena := by
  unfold checkForCycle
  simp only
  split
  · exact Or.inl rfl
  · exact Or.inr ⟨_, rfl, rfl⟩

theorem resolveItems_total (N : Nat) (rec : St → Nat → P → Except Err (St × Option Nat))
    (hrec : ∀ st c p, st.arena.length = N → PostN N (rec st c p)) (path : P) :
    ∀ (items : List Nat) (st : St) (idx : Nat), st.arena.length = N →
      match resolveItems rec path st items idx with
      | .error e => e ≠ .outOfFuel
      | .ok (st', _) => st'.arena.length = N
  | [], st, idx, hl => by simp only [resolveItems]; exact hl
  | c :: rest, st, idx, hl => by
    have h1 := hrec st c (path ++ [toString idx]) hl
    unfold resolveItems
    cases hres : rec st c (path ++ [toString idx]) with
    | error e => rw [hres] at h1; exact h1
    | ok pr =>
      obtain ⟨st1, r⟩ := pr
      rw [hres] at h1
      simp only [PostN] at h1
      have h2 := resolveItems_total N rec hrec path rest st1 (idx + 1) h1
      simp only
      cases hres2 : resolveItems rec path st1 rest (idx + 1) with
      | error e => rw [hres2] at h2; exact h2
      | ok pr2 =>
        obtain ⟨st2, kept⟩ := pr2
        rw [hres2] at h2
        exact h2

theorem resolveEntries_total (N : Nat) (rec : St → Nat → P → Except Err (St × Option Nat))
    (hrec : ∀ st c p, st.arena.length = N → PostN N (rec st c p)) (path : P) :
    ∀ (entries : List (String × Nat)) (st : St), st.arena.length = N →
      match resolveEntries rec path st entries with
      | .error e => e ≠ .outOfFuel
      | .ok (st', _) => st'.arena.length = N
  | [], st, hl => by simp only [resolveEntries]; exact hl
  | (key, c) :: rest, st, hl => by
    have h1 := hrec st c (path ++ [key]) hl
    unfold resolveEntries
    cases hres : rec st c (path ++ [key]) with
    | error e => rw [hres] at h1; exact h1
    | ok pr =>
      obtain ⟨st1, r⟩ := pr
      rw [hres] at h1
      simp only [PostN] at h1
      have h2 := resolveEntries_total N rec hrec path rest st1 h1
      simp only
      cases hres2 : resolveEntries rec path st1 rest with
      | error e => rw [hres2] at h2; exact h2
      | ok pr2 =>
        obtain ⟨st2, kept⟩ := pr2
        rw [hres2] at h2
        exact h2

/-- **alias expansion terminates on every arena**: once the fuel exceeds the room left on a stack that can hold
each node at most twice, `resolve` never answers `outOfFuel` -/
theorem resolve_total (N : Nat) : ∀ (fuel : Nat) (st : St) (active : List Nat) (n : Nat) (path : P),
    st.arena.length = N → StackOk N active → 2 * N - active.length < fuel →
    PostN N (resolve fuel st active n path)
  | 0, _, _, _, _, _, _, hf => by omega
  | fuel + 1, st, active, n, path, hl, hs, hf => by
    unfold resolve
    simp only
    by_cases hc : 2 ≤ active.count n
    · simp only [hc, ↓reduceIte, PostN]
      intro e; cases e
    · simp only [hc, ↓reduceIte]
      cases hn : st.arena[n]? with
      | none => simp [PostN]
      | some node =>
        have hnN : n < N := by
          have := (List.getElem?_eq_some_iff.mp hn).1
          omega
        have hs' := hs.push hc hnN
        have hlen := hs'.length_le
        simp only [List.length_cons] at hlen
        have hf' : 2 * N - (n :: active).length < fuel := by simp only [List.length_cons]; omega
        have ih : ∀ st' c p, st'.arena.length = N → PostN N (resolve fuel st' (n :: active) c p) :=
          fun st' c p hl' => resolve_total N fuel st' (n :: active) c p hl' hs' hf'
        cases node with
        | alias t =>
          simp only
          rcases checkForCycle_spec st t (normPath path) with hck | ⟨st', hck, harena⟩
          · rw [hck]; simp [PostN]
          · rw [hck]
            simp only
            exact ih st' t (normPath path) (by rw [harena]; exact hl)
        | scalar tag =>
          simp only [Node.tag]
          by_cases h1 : tag = "!reset"
          · simp only [h1, ↓reduceIte, PostN]; exact hl
          · by_cases h2 : tag = "!override"
            · simp only [h2, ↓reduceIte, PostN]; exact hl
            · simp only [h1, h2, ↓reduceIte, PostN]; exact hl
        | seq tag items =>
          simp only [Node.tag]
          by_cases h1 : tag = "!reset"
          · simp only [h1, ↓reduceIte, PostN]; exact hl
          · by_cases h2 : tag = "!override"
            · simp only [h2, ↓reduceIte, PostN]; exact hl
            · simp only [h1, h2, ↓reduceIte]
              have hloop := resolveItems_total N _ ih (normPath path) items st 0 hl
              revert hloop
              cases resolveItems (fun s c p => resolve fuel s (n :: active) c p) (normPath path) st items 0 with
              | error e => exact fun h => h
              | ok pr =>
                obtain ⟨st', kept⟩ := pr
                simp only [PostN]
                intro h
                rw [length_setNode]; exact h
        | map tag entries =>
          simp only [Node.tag]
          by_cases h1 : tag = "!reset"
          · simp only [h1, ↓reduceIte, PostN]; exact hl
          · by_cases h2 : tag = "!override"
            · simp only [h2, ↓reduceIte, PostN]; exact hl
            · simp only [h1, h2, ↓reduceIte]
              have hloop := resolveEntries_total N _ ih (normPath path) entries st hl
              revert hloop
              cases resolveEntries (fun s c p => resolve fuel s (n :: active) c p) (normPath path) st entries with
              | error e => exact fun h => h
              | ok pr =>
                obtain ⟨st', kept⟩ := pr
                simp only [PostN]
                intro h
                rw [length_setNode]; exact h

/-! ## `checkAcyclic` -/

theorem children_map_mem (f : Nat → List Nat) : ∀ (l : List Nat) (v c : Nat),
    c ∈ Dep.children (l.map fun i => (i, f i)) v → c ∈ f v
  | [], _, _, h => by simp [Dep.children] at h
  | i :: rest, v, c, h => by
    simp only [List.map_cons, Dep.children] at h
    split at h
    · rename_i hv; subst hv; exact h
    · exact children_map_mem f rest v c h

theorem graphOf_verts (arena : List Node) : Dep.verts (graphOf arena) = List.range arena.length := by
  simp [Dep.verts, graphOf, List.map_map, Function.comp_def]

theorem graphOf_closed (arena : List Node) : Dep.Closed (graphOf arena) := by
  intro v c hc
  rw [graphOf_verts]
  have := children_map_mem _ _ v c hc
  rw [List.mem_filter] at this
  simpa using this.2

/-- the tree check returns on every arena -/
theorem checkAcyclic_total (arena : List Node) (fuel root : Nat) (hf : arena.length < fuel) :
    checkAcyclic arena fuel root ≠ .outOfFuel := by
  unfold checkAcyclic
  by_cases hr : root < arena.length
  · apply Dep.searchCycle_ne_fuel (graphOf arena) (graphOf_closed arena) fuel [root] root (by simp)
    · intro x hx
      simp only [List.mem_singleton] at hx
      subst hx
      rw [graphOf_verts]; simpa using hr
    · rw [graphOf_verts]; simp only [List.length_range, List.length_singleton]; omega
  · -- a root outside the arena has no children
    cases fuel with
    | zero => omega
    | succ f =>
      have hch : Dep.children (graphOf arena) root = [] := by
        cases hcs : Dep.children (graphOf arena) root with
        | nil => rfl
        | cons c cs =>
          exfalso
          have hmem : c ∈ Dep.children (graphOf arena) root := by rw [hcs]; exact List.mem_cons_self ..
          have h2 := children_map_mem _ _ root c hmem
          rw [List.mem_filter] at h2
          have : arena[root]? = none := List.getElem?_eq_none (by omega)
          simp [this] at h2
      unfold Dep.searchCycle
      rw [hch]
      simp [Dep.searchChildren]

end CV.C01.Reset
