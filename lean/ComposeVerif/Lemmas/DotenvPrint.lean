import ComposeVerif.Spec.DotenvPrint
import ComposeVerif.Lemmas.DotenvR4
/-!
# Lemmas for the canonical printer (C18, round 6)
-/
namespace CV.Dotenv
open CV CV.Template

theorem dqEnc_eq : ∀ s : Str, dqEnc s = dqEncode s
  | [] => rfl
  | c :: s => by rw [dqEnc, dqEncode, dqEnc_eq s]

/-- the template whose concrete syntax is `escapeDollars v`: one literal per character, `$$` for a dollar sign -/
def litSegs : Str → List Seg
  | [] => []
  | c :: s => (if c = '$' then Seg.esc else Seg.lit [c]) :: litSegs s

theorem renderL_litSegs : ∀ v : Str, renderL (litSegs v) = escapeDollars v
  | [] => rfl
  | c :: s => by
    rw [litSegs, renderL, escapeDollars, renderL_litSegs s]
    by_cases h : c = '$'
    · simp only [h, if_true, Seg.render]; rfl
    · simp only [h, if_false, Seg.render]; rfl

theorem wfL_litSegs : ∀ v : Str, wfL false (litSegs v) = true
  | [] => rfl
  | c :: s => by
    have ih := wfL_litSegs s
    by_cases h : c = '$'
    · have e : litSegs (c :: s) = Seg.esc :: litSegs s := by simp only [litSegs, h, if_true]
      rw [e]; simp only [wfL, Seg.wf, ih, Bool.and_self]
    · have e : litSegs (c :: s) = Seg.lit [c] :: litSegs s := by simp only [litSegs, h, if_false]
      rw [e]; simp only [wfL, Seg.wf, ih, litOkTop, Bool.false_eq_true, if_false, List.all_cons, List.all_nil, Bool.and_true]
      simpa using h

theorem evalL_litSegs (env : Env) : ∀ v : Str, evalL env (litSegs v) = .ok v
  | [] => rfl
  | c :: s => by
    rw [litSegs, evalL, evalL_litSegs env s]
    by_cases h : c = '$'
    · simp only [h, if_true, Seg.eval]; rfl
    · simp only [h, if_false, Seg.eval]; rfl

/-- the canonical spelling of a value means that value, in every environment -/
theorem canon_value_eval (env : Env) (v : Str) : (Value.dq (dqEnc (escapeDollars v))).eval env = .ok v := by
  rw [dqEnc_eq, ← renderL_litSegs, value_dq_encoded_lemma env (litSegs v) (wfL_litSegs v)]
  simp only [evalOut, evalL_litSegs]

theorem canonLine_wf (kv : Str × Str) (h : validKey kv.1 = true) : (canonLine kv).wf = true := by
  simp only [canonLine, Line.wf, nbAll, List.all_nil, expOk, h, Value.wf, cmtOk, Bool.and_true, Bool.true_and]
  rw [dqEnc_eq]; exact dqEncode_wf _

theorem canon_WF : ∀ m : Map, (∀ kv ∈ m, validKey kv.1 = true) → WF (m.map canonLine) = true
  | [], _ => rfl
  | kv :: m, h => by
    simp only [WF, List.map_cons, List.all_cons, Bool.and_eq_true]
    exact ⟨canonLine_wf kv (h kv (by simp)), canon_WF m (fun x hx => h x (by simp [hx]))⟩

theorem put_fresh : ∀ (acc : Map) (k v : Str), k ∉ acc.map Prod.fst → put acc k v = acc ++ [(k, v)]
  | [], k, v, _ => rfl
  | (k', v') :: r, k, v, h => by
    have hne : k ≠ k' := fun e => h (by simp [e])
    rw [put, if_neg hne, put_fresh r k v (fun hm => h (by simp [hm]))]
    rfl

/-- evaluating the canonical lines of `m` after `acc`, when all names are distinct, appends `m` -/
theorem evalFrom_canon (lookup : Env) : ∀ (m acc : Map), ((acc ++ m).map Prod.fst).Nodup →
    evalFrom lookup (m.map canonLine) acc = .ok (acc ++ m)
  | [], acc, _ => by simp [evalFrom]
  | (k, v) :: m, acc, h => by
    have hfresh : k ∉ acc.map Prod.fst := by
      rw [List.map_append, List.nodup_append] at h
      intro hk
      exact h.2.2 k hk k (by simp) rfl
    rw [List.map_cons, canonLine, evalFrom, canon_value_eval]
    simp only
    rw [put_fresh acc k v hfresh, evalFrom_canon lookup m (acc ++ [(k, v)]) (by simpa [List.append_assoc] using h)]
    simp [List.append_assoc]

end CV.Dotenv

namespace CV.Dotenv
open CV CV.Template

theorem mergeInto_fresh : ∀ (m acc : Map), ((acc ++ m).map Prod.fst).Nodup → mergeInto acc m = acc ++ m
  | [], acc, _ => by simp [mergeInto]
  | (k, v) :: m, acc, h => by
    have hfresh : k ∉ acc.map Prod.fst := by
      rw [List.map_append, List.nodup_append] at h
      intro hk
      exact h.2.2 k hk k (by simp) rfl
    rw [mergeInto, put_fresh acc k v hfresh, mergeInto_fresh m (acc ++ [(k, v)]) (by simpa [List.append_assoc] using h)]
    simp [List.append_assoc]

end CV.Dotenv
