import ComposeVerif.Model.Merge
import ComposeVerif.Lemmas.Merge
namespace CV.Deep
open CV CV.Val CV.Merge

/-- **the same tree up to the order of mapping entries, at every nesting level** (sequences are ordered) -/
inductive Eqv : Val → Val → Prop
  | null : Eqv .null .null
  | bool (b : Bool) : Eqv (.bool b) (.bool b)
  | int (i : Int) : Eqv (.int i) (.int i)
  | float (s : String) : Eqv (.float s) (.float s)
  | str (s : String) : Eqv (.str s) (.str s)
  | seqNil : Eqv (.seq []) (.seq [])
  | seqCons {x y : Val} {xs ys : List Val} : Eqv x y → Eqv (.seq xs) (.seq ys) → Eqv (.seq (x :: xs)) (.seq (y :: ys))
  | map {a b : KVs} : (∀ k, lookup k a = none ↔ lookup k b = none) →
      (∀ k x y, lookup k a = some x → lookup k b = some y → Eqv x y) → Eqv (.map a) (.map b)

/-- every mapping, at every level, has distinct keys (what a decoded YAML document satisfies) -/
inductive WF : Val → Prop
  | null : WF .null
  | bool (b : Bool) : WF (.bool b)
  | int (i : Int) : WF (.int i)
  | float (s : String) : WF (.float s)
  | str (s : String) : WF (.str s)
  | seqNil : WF (.seq [])
  | seqCons {x : Val} {xs : List Val} : WF x → WF (.seq xs) → WF (.seq (x :: xs))
  | map {a : KVs} : (keys a).Nodup → (∀ k x, lookup k a = some x → WF x) → WF (.map a)

/-- two mappings hold equivalent values under the same keys -/
def MEqv (a b : KVs) : Prop :=
  (∀ k, lookup k a = none ↔ lookup k b = none) ∧ (∀ k x y, lookup k a = some x → lookup k b = some y → Eqv x y)

def MWF (a : KVs) : Prop := (keys a).Nodup ∧ (∀ k x, lookup k a = some x → WF x)

theorem Eqv.map_iff {a b : KVs} : Eqv (.map a) (.map b) ↔ MEqv a b := by
  constructor
  · intro h; cases h with | map h1 h2 => exact ⟨h1, h2⟩
  · intro h; exact .map h.1 h.2

theorem WF.map_iff {a : KVs} : WF (.map a) ↔ MWF a := by
  constructor
  · intro h; cases h with | map h1 h2 => exact ⟨h1, h2⟩
  · intro h; exact .map h.1 h.2

theorem Eqv.refl : ∀ v : Val, WF v → Eqv v v := by
  intro v h
  induction h with
  | null => exact .null
  | bool b => exact .bool b
  | int i => exact .int i
  | float s => exact .float s
  | str s => exact .str s
  | seqNil => exact .seqNil
  | seqCons _ _ ih1 ih2 => exact .seqCons ih1 ih2
  | map _ _ ih =>
    refine .map (fun k => Iff.rfl) ?_
    intro k x y hx hy
    rw [hx] at hy; cases hy
    exact ih k x hx

/-- lookups correspond -/
theorem MEqv.lookup_some {a b : KVs} (h : MEqv a b) {k : String} {x : Val} (hx : lookup k a = some x) :
    ∃ y, lookup k b = some y ∧ Eqv x y := by
  cases hb : lookup k b with
  | none => rw [(h.1 k).mpr hb] at hx; cases hx
  | some y => exact ⟨y, rfl, h.2 k x y hx hb⟩

theorem MEqv.lookup_some' {a b : KVs} (h : MEqv a b) {k : String} {y : Val} (hy : lookup k b = some y) :
    ∃ x, lookup k a = some x ∧ Eqv x y := by
  cases ha : lookup k a with
  | none => rw [(h.1 k).mp ha] at hy; cases hy
  | some x => exact ⟨x, rfl, h.2 k x y ha hy⟩

/-- sequences: elementwise -/
theorem Eqv.seq_length {xs ys : List Val} (h : Eqv (.seq xs) (.seq ys)) : xs.length = ys.length := by
  induction xs generalizing ys with
  | nil => cases h; rfl
  | cons x xs ih => cases h with | seqCons _ h2 => simp [ih h2]

theorem Eqv.seq_append {xs ys xs' ys' : List Val} (h1 : Eqv (.seq xs) (.seq xs')) (h2 : Eqv (.seq ys) (.seq ys')) :
    Eqv (.seq (xs ++ ys)) (.seq (xs' ++ ys')) := by
  induction xs generalizing xs' with
  | nil => cases h1; simpa using h2
  | cons x xs ih => cases h1 with | seqCons hx hr => exact .seqCons hx (ih hr)

/-- outcomes: both succeed with equivalent values, or both fail (which failure is reported may depend on the order) -/
def OutEqv {α : Type} (R : α → α → Prop) : Out α → Out α → Prop
  | .ok a, .ok b => R a b
  | .ok _, _ => False
  | _, .ok _ => False
  | _, _ => True

theorem OutEqv.bind {α β : Type} {R : α → α → Prop} {S : β → β → Prop} {x y : Out α} {f g : α → Out β}
    (h : OutEqv R x y) (hf : ∀ a b, R a b → OutEqv S (f a) (g b)) : OutEqv S (x.bind f) (y.bind g) := by
  cases x <;> cases y <;> simp only [OutEqv, Out.bind] at h ⊢
  · exact hf _ _ h
  all_goals first | exact h.elim | trivial

/-! ### when `mergeMappings` succeeds -/

theorem lookup_cons_ne {k k0 : String} {v0 : Val} {r : KVs} (h : k ≠ k0) : lookup k ((k0, v0) :: r) = lookup k r := by
  simp [lookup, h]

theorem lookup_cons_self {k0 : String} {v0 : Val} {r : KVs} : lookup k0 ((k0, v0) :: r) = some v0 := by
  simp [lookup]

theorem ne_of_lookup_tail {k k0 : String} {v0 v : Val} {r : KVs} (hn : (keys ((k0, v0) :: r)).Nodup)
    (h : lookup k r = some v) : k ≠ k0 := by
  intro e; subst e
  rw [lookup_none_of_nodup_cons hn] at h; cases h

theorem mergeKVsWith_ok_iff (f : Val → Val → TPath → Out Val) (p : TPath) :
    ∀ (b a : KVs), (keys b).Nodup →
      ((∃ m, mergeKVsWith f a b p = .ok m) ↔
        ∀ k e v, lookup k a = some e → lookup k b = some v → hasXPrefix k = false → ∃ z, f e v (next p k) = .ok z) := by
  intro b
  induction b with
  | nil => intro a _; simp [mergeKVsWith, lookup]
  | cons hd tl ih =>
    obtain ⟨k0, v0⟩ := hd
    intro a hn
    have hn' : (keys tl).Nodup := by simp only [keys, List.map_cons, List.nodup_cons] at hn; exact hn.2
    -- the tail only sees keys different from k0
    have tail_iff : ∀ (w : Val),
        (∀ k e v, lookup k (insert k0 w a) = some e → lookup k tl = some v → hasXPrefix k = false →
            ∃ z, f e v (next p k) = .ok z) ↔
        (∀ k e v, lookup k a = some e → lookup k tl = some v → hasXPrefix k = false → ∃ z, f e v (next p k) = .ok z) := by
      intro w
      constructor
      · intro h k e v ha hb hx
        have hne := ne_of_lookup_tail hn hb
        exact h k e v (by rw [lookup_insert_ne hne]; exact ha) hb hx
      · intro h k e v ha hb hx
        have hne := ne_of_lookup_tail hn hb
        rw [lookup_insert_ne hne] at ha
        exact h k e v ha hb hx
    simp only [mergeKVsWith]
    cases hl : lookup k0 a with
    | none =>
      simp only []
      rw [ih _ hn', tail_iff]
      constructor
      · intro h k e v ha hb hx
        by_cases hk : k = k0
        · subst hk; rw [hl] at ha; cases ha
        · rw [lookup_cons_ne hk] at hb; exact h k e v ha hb hx
      · intro h k e v ha hb hx
        exact h k e v ha (by rw [lookup_cons_ne (ne_of_lookup_tail hn hb)]; exact hb) hx
    | some e0 =>
      simp only []
      by_cases hx0 : hasXPrefix k0 = true
      · simp only [hx0, if_true]
        rw [ih _ hn', tail_iff]
        constructor
        · intro h k e v ha hb hx
          by_cases hk : k = k0
          · subst hk; rw [hx0] at hx; cases hx
          · rw [lookup_cons_ne hk] at hb; exact h k e v ha hb hx
        · intro h k e v ha hb hx
          exact h k e v ha (by rw [lookup_cons_ne (ne_of_lookup_tail hn hb)]; exact hb) hx
      · have hx0' : hasXPrefix k0 = false := by simpa using hx0
        simp only [hx0', Bool.false_eq_true, if_false]
        cases hf : f e0 v0 (next p k0) with
        | ok z0 =>
          simp only [Out.bind]
          rw [ih _ hn', tail_iff]
          constructor
          · intro h k e v ha hb hx
            by_cases hk : k = k0
            · subst hk
              rw [hl] at ha; cases ha
              rw [lookup_cons_self] at hb; cases hb
              exact ⟨z0, hf⟩
            · rw [lookup_cons_ne hk] at hb; exact h k e v ha hb hx
          · intro h k e v ha hb hx
            exact h k e v ha (by rw [lookup_cons_ne (ne_of_lookup_tail hn hb)]; exact hb) hx
        | err s =>
          simp only [Out.bind]
          constructor
          · intro ⟨m, hm⟩; cases hm
          · intro h
            obtain ⟨z, hz⟩ := h k0 e0 v0 hl lookup_cons_self hx0'
            rw [hf] at hz; cases hz
        | panic s =>
          simp only [Out.bind]
          constructor
          · intro ⟨m, hm⟩; cases hm
          · intro h
            obtain ⟨z, hz⟩ := h k0 e0 v0 hl lookup_cons_self hx0'
            rw [hf] at hz; cases hz

/-- the recursive merge respects the equivalence (induction hypothesis on the fuel) -/
def Congr (f : Val → Val → TPath → Out Val) (q : TPath) : Prop :=
  ∀ e e' v v', Eqv e e' → Eqv v v' → WF e → WF e' → WF v → WF v' → OutEqv Eqv (f e v q) (f e' v' q)

theorem OutEqv.of_ok_ok {α : Type} {R : α → α → Prop} {x y : Out α} {a b : α} (hx : x = .ok a) (hy : y = .ok b)
    (h : OutEqv R x y) : R a b := by subst hx; subst hy; exact h

theorem OutEqv.ok_right {α : Type} {R : α → α → Prop} {x y : Out α} {a : α} (hx : x = .ok a)
    (h : OutEqv R x y) : ∃ b, y = .ok b := by
  subst hx; cases y <;> simp only [OutEqv] at h
  · exact ⟨_, rfl⟩

theorem OutEqv.ok_left {α : Type} {R : α → α → Prop} {x y : Out α} {b : α} (hy : y = .ok b)
    (h : OutEqv R x y) : ∃ a, x = .ok a := by
  subst hy; cases x <;> simp only [OutEqv] at h
  · exact ⟨_, rfl⟩

/-- **`mergeMappings` respects the equivalence**: equivalent bases and equivalent overrides (entries in any order, at
any depth) merge to equivalent mappings, or both merges fail -/
theorem mergeKVsWith_congr (f : Val → Val → TPath → Out Val) (p : TPath) (hf : ∀ k, Congr f (next p k))
    (a a' b b' : KVs) (ha : MEqv a a') (hb : MEqv b b') (wa : MWF a) (wa' : MWF a') (wb : MWF b) (wb' : MWF b') :
    OutEqv MEqv (mergeKVsWith f a b p) (mergeKVsWith f a' b' p) := by
  have okL := mergeKVsWith_ok_iff f p b a wb.1
  have okR := mergeKVsWith_ok_iff f p b' a' wb'.1
  -- success transfers in both directions
  have transfer : (∃ m, mergeKVsWith f a b p = .ok m) ↔ (∃ m', mergeKVsWith f a' b' p = .ok m') := by
    rw [okL, okR]
    constructor
    · intro h k e' v' hae hbv hx
      obtain ⟨e, hae0, he⟩ := ha.lookup_some' hae
      obtain ⟨v, hbv0, hv⟩ := hb.lookup_some' hbv
      obtain ⟨z, hz⟩ := h k e v hae0 hbv0 hx
      exact OutEqv.ok_right hz (hf k e e' v v' he hv (wa.2 k e hae0) (wa'.2 k e' hae) (wb.2 k v hbv0) (wb'.2 k v' hbv))
    · intro h k e v hae hbv hx
      obtain ⟨e', hae0, he⟩ := ha.lookup_some hae
      obtain ⟨v', hbv0, hv⟩ := hb.lookup_some hbv
      obtain ⟨z, hz⟩ := h k e' v' hae0 hbv0 hx
      exact OutEqv.ok_left hz (hf k e e' v v' he hv (wa.2 k e hae) (wa'.2 k e' hae0) (wb.2 k v hbv) (wb'.2 k v' hbv0))
  cases hm : mergeKVsWith f a b p with
  | ok m =>
    obtain ⟨m', hm'⟩ := transfer.mp ⟨m, hm⟩
    rw [hm']
    simp only [OutEqv]
    have pw := mergeKVsWith_pointwise f p b a m wb.1 hm
    have pw' := mergeKVsWith_pointwise f p b' a' m' wb'.1 hm'
    -- pointwise comparison
    have key : ∀ k, (lookup k m = none ↔ lookup k m' = none) ∧
        (∀ x y, lookup k m = some x → lookup k m' = some y → Eqv x y) := by
      intro k
      have h1 := pw k
      have h2 := pw' k
      cases hla : lookup k a with
      | none =>
        have hla' : lookup k a' = none := (ha.1 k).mp hla
        cases hlb : lookup k b with
        | none =>
          have hlb' : lookup k b' = none := (hb.1 k).mp hlb
          rw [hla, hlb] at h1; rw [hla', hlb'] at h2
          simp only [PointwiseAt] at h1 h2
          rw [h1, h2]; exact ⟨Iff.rfl, fun x y hx => by cases hx⟩
        | some y =>
          obtain ⟨y', hlb', hy⟩ := hb.lookup_some hlb
          rw [hla, hlb] at h1; rw [hla', hlb'] at h2
          simp only [PointwiseAt] at h1 h2
          rw [h1, h2]
          exact ⟨by simp, fun x z hx hz => by cases hx; cases hz; exact hy⟩
      | some x =>
        obtain ⟨x', hla', hxx⟩ := ha.lookup_some hla
        cases hlb : lookup k b with
        | none =>
          have hlb' : lookup k b' = none := (hb.1 k).mp hlb
          rw [hla, hlb] at h1; rw [hla', hlb'] at h2
          simp only [PointwiseAt] at h1 h2
          rw [h1, h2]
          exact ⟨by simp, fun u z hu hz => by cases hu; cases hz; exact hxx⟩
        | some y =>
          obtain ⟨y', hlb', hy⟩ := hb.lookup_some hlb
          rw [hla, hlb] at h1; rw [hla', hlb'] at h2
          simp only [PointwiseAt] at h1 h2
          by_cases hx : hasXPrefix k = true
          · simp only [hx, if_true] at h1 h2
            rw [h1, h2]
            exact ⟨by simp, fun u z hu hz => by cases hu; cases hz; exact hy⟩
          · simp only [hx, Bool.false_eq_true, if_false] at h1 h2
            obtain ⟨z, hz, hmz⟩ := h1
            obtain ⟨z', hz', hmz'⟩ := h2
            rw [hmz, hmz']
            have := OutEqv.of_ok_ok hz hz' (hf k x x' y y' hxx hy (wa.2 k x hla) (wa'.2 k x' hla') (wb.2 k y hlb) (wb'.2 k y' hlb'))
            exact ⟨by simp, fun u w hu hw => by cases hu; cases hw; exact this⟩
    exact ⟨fun k => (key k).1, fun k x y hx hy => (key k).2 x y hx hy⟩
  | err s =>
    cases hm' : mergeKVsWith f a' b' p with
    | ok m' => obtain ⟨m, hm0⟩ := transfer.mpr ⟨m', hm'⟩; rw [hm] at hm0; cases hm0
    | err _ => trivial
    | panic _ => trivial
  | panic s =>
    cases hm' : mergeKVsWith f a' b' p with
    | ok m' => obtain ⟨m, hm0⟩ := transfer.mpr ⟨m', hm'⟩; rw [hm] at hm0; cases hm0
    | err _ => trivial
    | panic _ => trivial

end CV.Deep
