import ComposeVerif.Lemmas.TravRank
/-!
# `newGraph` builds exactly the graph of enabled dependencies — `cyclic_refused` at project level

`depAdj p v` = the dependencies of service `v` that are enabled services (what the property calls "the dependency
graph").  When no required dependency is missing, the adjacency `build` returns is `depAdj p`; so a project whose
dependency graph has a closed walk is never answered "ok" (either a missing required dependency is reported, or
`checkCycle` finds the cycle), and a project without closed walk and without missing required dependency is accepted.
-/
namespace CV.DepGraph
open CV.Trav (rank_of_acyclic)

def enabledDeps (en : List Name) (s : Svc) : List Name :=
  (s.deps.filter (fun d => en.contains d.name)).map (·.name)

/-- the dependency graph of a project: service ↦ its dependencies that are enabled services -/
def depAdj (p : Proj) (v : Name) : List Name :=
  match p.services.find? (·.name == v) with
  | some s => enabledDeps (p.services.map (·.name)) s
  | none => []

theorem scanDeps_ok (en dis : List Name) :
    ∀ (l : List Dep) (es : List Name), (scanDeps en dis l es).1 = none →
      (scanDeps en dis l es).2 = es ++ (l.filter (fun d => en.contains d.name)).map (·.name) := by
  intro l
  induction l with
  | nil => intro es _; simp [scanDeps]
  | cons d r ih =>
    intro es h
    simp only [scanDeps] at h ⊢
    by_cases hen : en.contains d.name = true
    · simp only [hen, if_true] at h ⊢
      rw [ih _ h]
      have hm : d.name ∈ en := by simpa using hen
      simp [List.filter_cons, hm]
    · simp only [hen, Bool.false_eq_true, if_false] at h ⊢
      by_cases hreq : d.required = true
      · simp [hreq] at h
      · simp only [hreq, Bool.false_eq_true, if_false] at h ⊢
        rw [ih _ h]
        have hm : d.name ∉ en := by simpa using hen
        simp [List.filter_cons, hm]

theorem build_ok (en dis : List Name) :
    ∀ (l : List Svc) (adj : List (Name × List Name)), (build en dis l adj).1 = none →
      (build en dis l adj).2 = adj ++ l.map (fun s => (s.name, enabledDeps en s)) := by
  intro l
  induction l with
  | nil => intro adj _; simp [build]
  | cons s r ih =>
    intro adj h
    simp only [build] at h ⊢
    have hok := scanDeps_ok en dis s.deps []
    generalize scanDeps en dis s.deps [] = r0 at h hok ⊢
    obtain ⟨e, es⟩ := r0
    cases e with
    | some e => simp at h
    | none =>
      simp only at h ⊢
      rw [ih _ h]
      have := hok rfl
      simp only [List.nil_append] at this
      simp [enabledDeps, this]

theorem adjOf_map (l : List Svc) (f : Svc → List Name) (v : Name) :
    adjOf (l.map (fun s => (s.name, f s))) v = match l.find? (·.name == v) with | some s => f s | none => [] := by
  induction l with
  | nil => rfl
  | cons s r ih =>
    simp only [adjOf, List.map_cons, List.find?_cons] at ih ⊢
    by_cases h : (s.name == v) = true
    · simp [h]
    · simp only [h]
      exact ih

/-- when `newGraph` succeeds its graph is the dependency graph of the project -/
theorem build_is_depAdj (p : Proj) (h : (build (p.services.map (·.name)) p.disabled p.services []).1 = none) :
    ∀ v, adjOf (build (p.services.map (·.name)) p.disabled p.services []).2 v = depAdj p v := by
  intro v
  rw [build_ok _ _ _ _ h, List.nil_append, adjOf_map]
  rfl

theorem depAdj_closed (p : Proj) : ∀ v ∈ p.services.map (·.name), ∀ c ∈ depAdj p v, c ∈ p.services.map (·.name) := by
  intro v _ c hc
  unfold depAdj at hc
  split at hc
  · simp only [enabledDeps, List.mem_map, List.mem_filter] at hc
    obtain ⟨d, ⟨_, hen⟩, rfl⟩ := hc
    simpa using hen
  · cases hc

theorem depAdj_outside (p : Proj) (v : Name) (hv : v ∉ p.services.map (·.name)) : depAdj p v = [] := by
  unfold depAdj
  cases hf : p.services.find? (·.name == v) with
  | none => rfl
  | some s =>
    exfalso
    apply hv
    have hm := List.mem_of_find?_eq_some hf
    have hp := List.find?_some hf
    simp only [beq_iff_eq] at hp
    exact List.mem_map.mpr ⟨s, hm, hp⟩

theorem run_cls_of_build (p : Proj) :
    ((build (p.services.map (·.name)) p.disabled p.services []).1 ≠ none → (run p).cls ≠ "ok") ∧
    ((build (p.services.map (·.name)) p.disabled p.services []).1 = none →
      (run p).cls = if checkCycle (p.services.map (·.name)) (depAdj p) then "cycle" else "ok") := by
  constructor
  · intro h
    simp only [run]
    generalize build (p.services.map (·.name)) p.disabled p.services [] = r0 at h ⊢
    obtain ⟨e, adj⟩ := r0
    cases e with
    | none => exact absurd rfl h
    | some e => cases e <;> simp
  · intro h
    have hadj := build_is_depAdj p h
    simp only [run]
    generalize build (p.services.map (·.name)) p.disabled p.services [] = r0 at h hadj ⊢
    obtain ⟨e, adj⟩ := r0
    simp only at h hadj
    subst h
    simp only
    have : adjOf adj = depAdj p := funext hadj
    rw [this]

/-- **a cyclic project is refused** — at project level: if the dependency graph of the project (dependencies that are
enabled services) has a closed walk through a service, `newGraph`+`checkCycle` never answer "ok", so `walk` is never
reached and no visitor is called -/
theorem cyclic_project_refused_lemma (p : Proj) (v : Name) (hv : v ∈ p.services.map (·.name)) (n : Nat)
    (h : Reaches (depAdj p) n v v) : (run p).cls ≠ "ok" := by
  have ⟨h1, h2⟩ := run_cls_of_build p
  by_cases hb : (build (p.services.map (·.name)) p.disabled p.services []).1 = none
  · rw [h2 hb, checkCycle_complete (depAdj p) _ (depAdj_closed p) v hv n h]
    simp
  · exact h1 hb

/-- **an acyclic project with every required dependency present is accepted** -/
theorem acyclic_project_accepted_lemma (p : Proj)
    (hb : (build (p.services.map (·.name)) p.disabled p.services []).1 = none)
    (hacyc : ∀ v ∈ p.services.map (·.name), ∀ n, ¬ Reaches (depAdj p) n v v) : (run p).cls = "ok" := by
  have ⟨_, h2⟩ := run_cls_of_build p
  obtain ⟨rk, hrk, _⟩ := rank_of_acyclic (depAdj p) _ (depAdj_closed p) hacyc
  have hall : ∀ v c, c ∈ depAdj p v → rk c < rk v := by
    intro v c hc
    by_cases hv : v ∈ p.services.map (·.name)
    · exact hrk v hv c hc
    · rw [depAdj_outside p v hv] at hc; cases hc
  rw [h2 hb, checkCycle_accepts_ranked (depAdj p) _ rk hall]
  simp

end CV.DepGraph
