import ComposeVerif.Model.Heap
/-! C14: the fuel of `Plan.resolve` / `Ty.resolve` is immaterial once the result contains no `unknown` / unresolved node -/
namespace CV.Heap

mutual
/-- fully resolved: no call, no unknown -/
def Plan.closed : Plan → Bool
  | .assign => true
  | .newPtr p => p.closed
  | .newSlice p => p.closed
  | .newMap p => p.closed
  | .fields ps => closedFields ps
  | .call _ _ => false
  | .unknown _ => false
def closedFields : List (Nat × Plan) → Bool
  | [] => true
  | (_, p) :: r => p.closed && closedFields r
end

mutual
def Ty.closed : Ty → Bool
  | .scalar => true
  | .iface => true
  | .ptr t => t.closed
  | .slice t => t.closed
  | .map t => t.closed
  | .struct fs => closedTyFields fs
  | .named _ => false
  | .unknown _ => false
def closedTyFields : List (Nat × Ty) → Bool
  | [] => true
  | (_, t) :: r => t.closed && closedTyFields r
end

theorem closedFields_map (g : Nat × Plan → Plan) : ∀ (ps : List (Nat × Plan)),
    closedFields (ps.map fun fp => (fp.1, g fp)) = true → ∀ fp ∈ ps, (g fp).closed = true
  | [], _, fp, h => by cases h
  | (f, q) :: r, hc, fp, hm => by
    simp only [List.map_cons, closedFields, Bool.and_eq_true] at hc
    rcases List.mem_cons.mp hm with rfl | hm'
    · exact hc.1
    · exact closedFields_map g r hc.2 fp hm'

theorem closedTyFields_map (g : Nat × Ty → Ty) : ∀ (fs : List (Nat × Ty)),
    closedTyFields (fs.map fun ft => (ft.1, g ft)) = true → ∀ ft ∈ fs, (g ft).closed = true
  | [], _, ft, h => by cases h
  | (f, q) :: r, hc, ft, hm => by
    simp only [List.map_cons, closedTyFields, Bool.and_eq_true] at hc
    rcases List.mem_cons.mp hm with rfl | hm'
    · exact hc.1
    · exact closedTyFields_map g r hc.2 ft hm'

/-- one more unit of fuel changes nothing once the result is closed -/
theorem Plan.resolve_succ (fns : List (Nat × Nat × Plan)) : ∀ (n : Nat) (p : Plan),
    (Plan.resolve fns n p).closed = true → Plan.resolve fns (n+1) p = Plan.resolve fns n p
  | 0, p, h => by simp [Plan.resolve, Plan.closed] at h
  | n+1, p, h => by
    cases p with
    | assign => simp [Plan.resolve]
    | unknown w => simp [Plan.resolve]
    | newPtr q =>
      simp only [Plan.resolve, Plan.closed] at h ⊢
      rw [Plan.resolve_succ fns n q h]
    | newSlice q =>
      simp only [Plan.resolve, Plan.closed] at h ⊢
      rw [Plan.resolve_succ fns n q h]
    | newMap q =>
      simp only [Plan.resolve, Plan.closed] at h ⊢
      rw [Plan.resolve_succ fns n q h]
    | fields ps =>
      simp only [Plan.resolve, Plan.closed] at h ⊢
      congr 1
      apply List.map_congr_left
      intro fp hfp
      rw [Plan.resolve_succ fns n fp.2 (closedFields_map (fun fp => Plan.resolve fns n fp.2) ps h fp hfp)]
    | call k f =>
      simp only [Plan.resolve] at h ⊢
      cases hl : lookupFn f fns with
      | none => simp
      | some kq =>
        obtain ⟨k', q⟩ := kq
        simp only [hl] at h ⊢
        split
        · rename_i hk
          simp only [hk, if_true] at h
          exact Plan.resolve_succ fns n q h
        · rfl

theorem Plan.resolve_ge (fns : List (Nat × Nat × Plan)) (n : Nat) (p : Plan)
    (h : (Plan.resolve fns n p).closed = true) : ∀ m, n ≤ m → Plan.resolve fns m p = Plan.resolve fns n p := by
  intro m hm
  induction m with
  | zero => have : n = 0 := by omega
            subst this; rfl
  | succ m ih =>
    by_cases hn : n = m + 1
    · subst hn; rfl
    · have ih' := ih (by omega)
      rw [← ih'] at h
      rw [Plan.resolve_succ fns m p h, ih']

theorem Ty.resolve_succ (tbl : List (Nat × Ty)) : ∀ (n : Nat) (t : Ty),
    (Ty.resolve tbl n t).closed = true → Ty.resolve tbl (n+1) t = Ty.resolve tbl n t
  | 0, t, h => by simp [Ty.resolve, Ty.closed] at h
  | n+1, t, h => by
    cases t with
    | scalar => simp [Ty.resolve]
    | iface => simp [Ty.resolve]
    | unknown w => simp [Ty.resolve]
    | ptr q =>
      simp only [Ty.resolve, Ty.closed] at h ⊢
      rw [Ty.resolve_succ tbl n q h]
    | slice q =>
      simp only [Ty.resolve, Ty.closed] at h ⊢
      rw [Ty.resolve_succ tbl n q h]
    | map q =>
      simp only [Ty.resolve, Ty.closed] at h ⊢
      rw [Ty.resolve_succ tbl n q h]
    | struct fs =>
      simp only [Ty.resolve, Ty.closed] at h ⊢
      congr 1
      apply List.map_congr_left
      intro ft hft
      rw [Ty.resolve_succ tbl n ft.2 (closedTyFields_map (fun ft => Ty.resolve tbl n ft.2) fs h ft hft)]
    | named id =>
      simp only [Ty.resolve] at h ⊢
      cases hl : lookupTy id tbl with
      | none => simp
      | some q =>
        simp only [hl] at h ⊢
        exact Ty.resolve_succ tbl n q h

theorem Ty.resolve_ge (tbl : List (Nat × Ty)) (n : Nat) (t : Ty)
    (h : (Ty.resolve tbl n t).closed = true) : ∀ m, n ≤ m → Ty.resolve tbl m t = Ty.resolve tbl n t := by
  intro m hm
  induction m with
  | zero => have : n = 0 := by omega
            subst this; rfl
  | succ m ih =>
    by_cases hn : n = m + 1
    · subst hn; rfl
    · have ih' := ih (by omega)
      rw [← ih'] at h
      rw [Ty.resolve_succ tbl m t h, ih']

end CV.Heap
