import ComposeVerif.Lemmas.C02StageGeneric
import ComposeVerif.Lemmas.C02Deep4
import ComposeVerif.Lemmas.Path
import ComposeVerif.Model.ShortTransform
/-!
### `transform.Canonical` respects the equivalence at every nesting level (below `services`)

All leaf transformers of the regenerated table (`transformKeyValue`, `transformDependsOn` with `dependsMap`,
`transformEnvFile` with `envFileValue`, `transformServiceNetworks`, `transformPorts`, `transformSSH`, …) and the
recursive handlers (`transformService`, `transformBuild`, `transformExtends`, no handler) map trees that differ only in
the order of mapping entries to such trees, or fail on both.  `transformMaybeExternal` (`volumes.*`, `networks.*`,
`secrets.*`, `configs.*`) compares `external.name` with `name` by `!=`, which C03's model evaluates structurally on
`Val` (ordered) while Go panics on non-scalars: the theorem is stated for the paths where that handler cannot match.
-/
namespace CV.Det.Stage
open CV CV.Deep CV.Short
open CV.Val (lookup insert keys KVs)

/-! #### reflexivity of `Eqv` without the distinct-keys hypothesis -/

mutual
theorem eqvRefl : ∀ v : Val, Eqv v v
  | .null => .null
  | .bool b => .bool b
  | .int i => .int i
  | .float s => .float s
  | .str s => .str s
  | .seq xs => eqvReflSeq xs
  | .map kvs => .map (fun _ => Iff.rfl) (fun k x y hx hy => by rw [hx] at hy; cases hy; exact eqvReflKVs kvs k x hx)
theorem eqvReflSeq : ∀ xs : List Val, Eqv (.seq xs) (.seq xs)
  | [] => .seqNil
  | x :: r => .seqCons (eqvRefl x) (eqvReflSeq r)
theorem eqvReflKVs : ∀ (kvs : List (String × Val)) (k : String) (x : Val), lookup k kvs = some x → Eqv x x
  | [], _, _, h => by simp [lookup] at h
  | (k0, v0) :: r, k, x, h => by
    by_cases e : k = k0
    · subst e; rw [lookup_cons_self] at h; cases h; exact eqvRefl v0
    · rw [lookup_cons_ne e] at h; exact eqvReflKVs r k x h
end

theorem orel_refl (x : Short.Out Val) : ORel Eqv (optS x) (optS x) := by
  cases x <;> simp only [optS, ORel]
  exact eqvRefl _

theorem orel_of_eq {x y : Short.Out Val} (h : x = y) : ORel Eqv (optS x) (optS y) := by
  subst h; exact orel_refl x

/-! #### mappings -/

theorem hasKey_meqv {a b : KVs} (h : MEqv a b) (k : String) : hasKey k a = hasKey k b := by
  unfold hasKey
  cases ha : lookup k a with
  | none => rw [(h.1 k).mp ha]
  | some x => obtain ⟨y, hy, _⟩ := h.lookup_some ha; rw [hy]; rfl

theorem insert_of_absent (k : String) (v : Val) : ∀ (m : KVs), lookup k m = none → insert k v m = m ++ [(k, v)]
  | [], _ => rfl
  | (k0, v0) :: r, h => by
    by_cases e : k = k0
    · subst e; rw [lookup_cons_self] at h; cases h
    · rw [lookup_cons_ne e] at h
      simp only [Val.insert, e, if_false, List.cons_append, insert_of_absent k v r h]

/-- `if _, ok := m[k]; !ok { m[k] = v }` -/
def addIfAbsent (k : String) (v : Val) (m : KVs) : KVs := if hasKey k m then m else m ++ [(k, v)]

theorem addIfAbsent_meqv {a b : KVs} (h : MEqv a b) (k : String) (v : Val) :
    MEqv (addIfAbsent k v a) (addIfAbsent k v b) := by
  unfold addIfAbsent
  rw [← hasKey_meqv h k]
  cases hk : hasKey k a with
  | true => simpa using h
  | false =>
    have ha : lookup k a = none := by unfold hasKey at hk; cases hl : lookup k a <;> simp_all
    have hb : lookup k b = none := (h.1 k).mp ha
    simp only [Bool.false_eq_true, if_false]
    rw [← insert_of_absent k v a ha, ← insert_of_absent k v b hb]
    exact h.insert k (eqvRefl v)

theorem dependsDefaults_eq (m : KVs) :
    dependsDefaults m = addIfAbsent "required" (.bool true) (addIfAbsent "condition" (.str "service_started") m) := by
  unfold dependsDefaults addIfAbsent
  rfl

theorem dependsDefaults_meqv {a b : KVs} (h : MEqv a b) : MEqv (dependsDefaults a) (dependsDefaults b) := by
  rw [dependsDefaults_eq, dependsDefaults_eq]
  exact addIfAbsent_meqv (addIfAbsent_meqv h _ _) _ _

/-- one entry of a long-form `depends_on` -/
def dependsEntry : Val → Option Val
  | .map d => some (.map (dependsDefaults d))
  | _ => none

theorem dependsMap_trav (m : KVs) : optS (dependsMap m) = travOpt (fun _ v => dependsEntry v) m := by
  induction m with
  | nil => rfl
  | cons hd tl ih =>
    obtain ⟨k, v⟩ := hd
    cases v with
    | map d =>
      simp only [dependsMap, travOpt]
      rw [← ih]
      cases dependsMap tl <;> rfl
    | _ => rfl

theorem dependsEntry_eqv {x y : Val} (h : Eqv x y) : ORel Eqv (dependsEntry x) (dependsEntry y) := by
  cases h <;> simp only [dependsEntry, ORel]
  rename_i a b hn hv
  exact Eqv.map_iff.mpr (dependsDefaults_meqv ⟨hn, hv⟩)

theorem envFileValue_eqv {x y : Val} (h : Eqv x y) : Eqv (envFileValue x) (envFileValue y) := by
  cases h <;> simp only [envFileValue] <;> try exact eqvRefl _
  rename_i a b hn hv
  exact Eqv.map_iff.mpr (addIfAbsent_meqv ⟨hn, hv⟩ "required" (.bool true))

theorem map_envFileValue_eqv : ∀ {l l' : List Val}, Eqv (.seq l) (.seq l') →
    Eqv (.seq (l.map envFileValue)) (.seq (l'.map envFileValue)) := by
  intro l
  induction l with
  | nil => intro l' h; cases h; exact .seqNil
  | cons x r ih =>
    intro l' h
    cases h with | @seqCons _ y _ r' hxy hr =>
    exact .seqCons (envFileValue_eqv hxy) (ih hr)

/-! #### the list walkers that only accept strings: equal outputs -/

theorem networksList_eqv : ∀ {l l' : List Val}, Eqv (.seq l) (.seq l') → ∀ acc, networksList l acc = networksList l' acc := by
  intro l
  induction l with
  | nil => intro l' h acc; cases h; rfl
  | cons x r ih =>
    intro l' h acc
    cases h with | @seqCons _ y _ r' hxy hr =>
    cases hxy <;> simp only [networksList]
    exact ih hr _

theorem dependsList_eqv : ∀ {l l' : List Val}, Eqv (.seq l) (.seq l') → ∀ acc, dependsList l acc = dependsList l' acc := by
  intro l
  induction l with
  | nil => intro l' h acc; cases h; rfl
  | cons x r ih =>
    intro l' h acc
    cases h with | @seqCons _ y _ r' hxy hr =>
    cases hxy <;> simp only [dependsList]
    exact ih hr _

theorem sshList_eqv : ∀ {l l' : List Val}, Eqv (.seq l) (.seq l') → ∀ acc, sshList l acc = sshList l' acc := by
  intro l
  induction l with
  | nil => intro l' h acc; cases h; rfl
  | cons x r ih =>
    intro l' h acc
    cases h with | @seqCons _ y _ r' hxy hr =>
    cases hxy <;> simp only [sshList]
    rename_i s
    cases Short.cutAt '=' s.toList with
    | none => simp only []; split <;> first | rfl | exact ih hr _
    | some p => exact ih hr _

theorem kvList_eqv (ign : Bool) : ∀ {l l' : List Val}, Eqv (.seq l) (.seq l') → ∀ acc, kvList ign l acc = kvList ign l' acc := by
  intro l
  induction l with
  | nil => intro l' h acc; cases h; rfl
  | cons x r ih =>
    intro l' h acc
    cases h with | @seqCons _ y _ r' hxy hr =>
    cases hxy <;> simp only [kvList]
    rename_i s
    cases Short.cutAt '=' s.toList with
    | none => rfl
    | some p => exact ih hr _

/-! #### `transformPorts`: mapping entries are kept, so the accumulators are only equivalent -/

def PortsRel : Option (Short.Out (List Val)) → Option (Short.Out (List Val)) → Prop
  | none, none => True
  | some (.ok r), some (.ok r') => Eqv (.seq r) (.seq r')
  | some (.err _), some (.err _) => True
  | some (.err _), some (.panic _) => True
  | some (.panic _), some (.err _) => True
  | some (.panic _), some (.panic _) => True
  | _, _ => False

theorem portsRel_of_eq (x : Option (Short.Out (List Val))) : PortsRel x x := by
  cases x with
  | none => trivial
  | some o => cases o <;> simp only [PortsRel]; exact eqvReflSeq _

theorem portEntries_eqv (ign : Bool) : ∀ {l l' : List Val}, Eqv (.seq l) (.seq l') → ∀ acc acc',
    Eqv (.seq acc) (.seq acc') → PortsRel (portEntries ign l acc) (portEntries ign l' acc') := by
  intro l
  induction l with
  | nil => intro l' h acc acc' ha; cases h; simpa only [portEntries, PortsRel] using ha
  | cons x r ih =>
    intro l' h acc acc' ha
    cases h with | @seqCons _ y _ r' hxy hr =>
    cases hxy <;> simp only [portEntries, PortsRel]
    · rename_i i
      cases parsePort (intToDec i) with
      | none => trivial
      | some ps => exact ih hr _ _ (Eqv.seq_append ha (eqvReflSeq _))
    · rename_i s
      cases parsePort s.toList with
      | none => cases ign <;> simp
      | some ps => exact ih hr _ _ (Eqv.seq_append ha (eqvReflSeq _))
    · rename_i a b hn hv
      exact ih hr _ _ (Eqv.seq_append ha (.seqCons (.map hn hv) .seqNil))

/-! #### every leaf transformer respects the equivalence -/

/-- a transformer is a congruence for `Eqv` on trees with distinct keys -/
def Cong (f : Val → Short.Out Val) : Prop :=
  ∀ v w, Eqv v w → WF v → WF w → ORel Eqv (optS (f v)) (optS (f w))

theorem cong_id : Cong (fun v => .ok v) := fun _ _ h _ _ => h

theorem cong_ite (c : Prop) [Decidable c] {f g : Val → Short.Out Val} (hf : Cong f) (hg : Cong g) :
    Cong (fun v => if c then f v else g v) := by
  by_cases hc : c
  · simpa only [hc, if_true] using hf
  · simpa only [hc, if_false] using hg

theorem cong_stringOrList : Cong transformStringOrList := by
  intro v w h wv ww
  cases h with
  | seqCons hxy hr => simp only [transformStringOrList, optS, ORel]; exact .seqCons hxy hr
  | map hn hv => simp only [transformStringOrList, optS, ORel]; exact Eqv.map hn hv
  | _ => exact orel_refl _

theorem cong_fileMount : Cong transformFileMount := by
  intro v w h wv ww
  cases h with
  | seqCons hxy hr => simp only [transformFileMount, optS, ORel]
  | map hn hv => simp only [transformFileMount, optS, ORel]; exact Eqv.map hn hv
  | _ => exact orel_refl _

theorem cong_include : Cong transformInclude := by
  intro v w h wv ww
  cases h with
  | seqCons hxy hr => simp only [transformInclude, optS, ORel]
  | map hn hv => simp only [transformInclude, optS, ORel]; exact Eqv.map hn hv
  | _ => exact orel_refl _

theorem cong_ulimits : Cong transformUlimits := by
  intro v w h wv ww
  cases h with
  | seqCons hxy hr => simp only [transformUlimits, optS, ORel]
  | map hn hv => simp only [transformUlimits, optS, ORel]; exact Eqv.map hn hv
  | _ => exact orel_refl _

theorem cong_volumeMount (ign : Bool) : Cong (transformVolumeMount ign) := by
  intro v w h wv ww
  cases h with
  | seqCons hxy hr => simp only [transformVolumeMount, optS, ORel]
  | map hn hv => simp only [transformVolumeMount, optS, ORel]; exact Eqv.map hn hv
  | _ => exact orel_refl _

theorem cong_deviceMapping (ign : Bool) : Cong (transformDeviceMapping ign) := by
  intro v w h wv ww
  cases h with
  | seqCons hxy hr => simp only [transformDeviceMapping, optS, ORel]
  | map hn hv => simp only [transformDeviceMapping, optS, ORel]; exact Eqv.map hn hv
  | _ => exact orel_refl _

theorem cong_build : Cong (fun v => match v with | .str s => .ok (.map [("context", .str s)]) | _ => .err "type") := by
  intro v w h wv ww
  cases h <;> simp only [optS, ORel]
  exact eqvRefl _

theorem cong_extends : Cong (fun v => match v with | .str s => .ok (.map [("service", .str s)]) | _ => .err "type") := by
  intro v w h wv ww
  cases h <;> simp only [optS, ORel]
  exact eqvRefl _

theorem cong_maybeExternalLeaf : Cong (fun v => match v with | .null => .ok .null | _ => .err "type") := by
  intro v w h wv ww
  cases h <;> simp only [optS, ORel]
  exact .null

theorem cong_envFile : Cong transformEnvFile := by
  intro v w h wv ww
  cases h with
  | seqCons hxy hr => simp only [transformEnvFile, optS, ORel]; exact map_envFileValue_eqv (.seqCons hxy hr)
  | map hn hv => simp only [transformEnvFile, optS, ORel]
  | _ => exact orel_refl _

theorem cong_serviceNetworks : Cong transformServiceNetworks := by
  intro v w h wv ww
  cases h with
  | seqCons hxy hr =>
    simp only [transformServiceNetworks]
    rw [networksList_eqv (.seqCons hxy hr) []]
    exact orel_refl _
  | map hn hv => simp only [transformServiceNetworks, optS, ORel]; exact Eqv.map hn hv
  | _ => exact orel_refl _

theorem cong_ssh : Cong transformSSH := by
  intro v w h wv ww
  cases h with
  | seqCons hxy hr =>
    simp only [transformSSH]
    rw [sshList_eqv (.seqCons hxy hr) []]
    exact orel_refl _
  | map hn hv => simp only [transformSSH, optS, ORel]; exact Eqv.map hn hv
  | _ => exact orel_refl _

theorem cong_keyValue (ign : Bool) : Cong (transformKeyValue ign) := by
  intro v w h wv ww
  cases h with
  | @seqCons x y xs ys hxy hr =>
    simp only [transformKeyValue]
    rw [kvList_eqv ign (.seqCons hxy hr) []]
    cases kvList ign (y :: ys) [] with
    | none => simp only [optS, ORel]; exact .seqCons hxy hr
    | some o => cases o <;> simp only [optS, ORel]; exact eqvRefl _
  | map hn hv => simp only [transformKeyValue, optS, ORel]; exact Eqv.map hn hv
  | _ => exact orel_refl _

theorem cong_ports (ign : Bool) : Cong (transformPorts ign) := by
  intro v w h wv ww
  cases h with
  | @seqCons x y xs ys hxy hr =>
    have hp := portEntries_eqv ign (.seqCons hxy hr) [] [] .seqNil
    simp only [transformPorts]
    cases h1 : portEntries ign (x :: xs) [] with
    | none =>
      cases h2 : portEntries ign (y :: ys) [] with
      | none => simp only [optS, ORel]; exact .seqCons hxy hr
      | some o => rw [h1, h2] at hp; exact hp.elim
    | some o =>
      cases h2 : portEntries ign (y :: ys) [] with
      | none => rw [h1, h2] at hp; cases o <;> exact hp.elim
      | some o' =>
        rw [h1, h2] at hp
        cases o <;> cases o' <;> simp only [PortsRel, optS, ORel] at hp ⊢ <;> first | exact hp | exact hp.elim | trivial
  | map hn hv => simp only [transformPorts, optS, ORel]
  | _ => exact orel_refl _

theorem cong_dependsOn : Cong transformDependsOn := by
  intro v w h wv ww
  cases h with
  | seqCons hxy hr =>
    simp only [transformDependsOn]
    rw [dependsList_eqv (.seqCons hxy hr) []]
    exact orel_refl _
  | @map a b hn hv =>
    have hk := travOpt_meqv (fun _ v => dependsEntry v) (fun _ v => dependsEntry v) ⟨hn, hv⟩
      (WF.map_iff.mp wv) (WF.map_iff.mp ww) (fun k x y hx hy => dependsEntry_eqv (hv k x y hx hy))
    rw [← dependsMap_trav, ← dependsMap_trav] at hk
    simp only [transformDependsOn]
    cases h1 : dependsMap a <;> cases h2 : dependsMap b <;> simp only [h1, h2, optS, ORel] at hk ⊢ <;>
      first | exact Eqv.map_iff.mpr hk | exact hk.elim | trivial
  | _ => exact orel_refl _

/-- **every non-recursing case of every handler of the table** -/
theorem cong_leaf (h : Option String) (ign : Bool) : Cong (leaf h ign) := by
  cases h with
  | none => exact cong_id
  | some h =>
    show Cong (fun v => leaf (some h) ign v)
    simp only [leaf]
    refine cong_ite _ cong_id (cong_ite _ cong_build (cong_ite _ cong_extends (cong_ite _ cong_maybeExternalLeaf
      (cong_ite _ cong_fileMount (cong_ite _ (cong_keyValue ign) (cong_ite _ cong_dependsOn (cong_ite _ cong_envFile
      (cong_ite _ cong_serviceNetworks (cong_ite _ (cong_volumeMount ign) (cong_ite _ cong_stringOrList
      (cong_ite _ (cong_deviceMapping ign) (cong_ite _ (cong_ports ign) (cong_ite _ cong_ssh (cong_ite _ cong_ulimits
      (cong_ite _ cong_include ?_)))))))))))))))
    intro v w _ _ _
    simp only [optS, ORel]

/-! #### the recursive walk -/

/-- `transformMaybeExternal` (the handler that compares untyped values with `!=`) cannot match at or below `p` -/
def NoExt (p : TPath) : Prop :=
  (p ≠ TPath.root ∧ p ≠ []) ∧ ∀ ks, TPath.firstMatch CV.Gen.transformers (p ++ ks) ≠ some "transformMaybeExternal"

theorem NoExt.here {p : TPath} (h : NoExt p) : TPath.firstMatch CV.Gen.transformers p ≠ some "transformMaybeExternal" := by
  have := h.2 []
  rwa [List.append_nil] at this

theorem NoExt.next {p : TPath} (h : NoExt p) (k : String) : NoExt (TPath.nextK p k) := by
  rw [TPath.nextK_of_ne_root p k h.1.1]
  have hne := h.1.2
  refine ⟨⟨?_, by simp⟩, fun ks => ?_⟩
  · cases p with
    | nil => exact (hne rfl).elim
    | cons a as => cases as <;> simp [TPath.root]
  rw [List.append_assoc]
  exact h.2 _

theorem postMap_noExt {h : Option String} (hne : h ≠ some "transformMaybeExternal") :
    postMap h = fun r => .ok (.map r) := by
  funext r
  simp only [postMap, hne, if_false]

/-- no row of the regenerated table with that handler starts with `services` or `*` -/
theorem ext_rows_not_services : ∀ row ∈ CV.Gen.transformers, row.2 = "transformMaybeExternal" →
    row.1.head? ≠ some "*" ∧ row.1.head? ≠ some "services" ∧ row.1 ≠ [] := by decide

theorem noExt_services (rest : List String) : NoExt ("services" :: rest) := by
  refine ⟨⟨by simp [TPath.root], by simp⟩, fun ks hs => ?_⟩
  obtain ⟨pat, hm, hx⟩ := TPath.firstMatch_some_mem hs
  have hrow := ext_rows_not_services (pat, "transformMaybeExternal") hm rfl
  cases pat with
  | nil => exact hrow.2.2 rfl
  | cons a as =>
    simp only [List.cons_append, TPath.pmatch, Bool.and_eq_true, Bool.or_eq_true, decide_eq_true_eq] at hx
    rcases hx.1 with e | e
    · exact hrow.1 (by simp [e])
    · exact hrow.2.1 (by simp [e])

theorem transform_eqv_aux (ign : Bool) {v w : Val} (h : Eqv v w) :
    WF v → WF w → ∀ p, NoExt p → ORel Eqv (optS (transform ign p v)) (optS (transform ign p w)) := by
  induction h with
  | null => intro _ _ p _; exact orel_refl _
  | bool b => intro _ _ p _; exact orel_refl _
  | int i => intro _ _ p _; exact orel_refl _
  | float s => intro _ _ p _; exact orel_refl _
  | str s => intro _ _ p _; exact orel_refl _
  | seqNil => intro _ _ p _; exact orel_refl _
  | @seqCons x y xs ys hxy hrest ih1 ih2 =>
    intro w1 w2 p hp
    cases w1 with | seqCons wx wxs =>
    cases w2 with | seqCons wy wys =>
    simp only [transform]
    by_cases hfm : TPath.firstMatch CV.Gen.transformers p = none
    · have h1 := ih1 wx wy (TPath.nextK p "[]") (hp.next _)
      have h2 := ih2 wxs wys p hp
      simp only [transform] at h2
      rw [if_pos hfm, if_pos hfm] at h2 ⊢
      simp only [transformSeq]
      cases hx : transform ign (TPath.nextK p "[]") x <;> cases hy : transform ign (TPath.nextK p "[]") y <;>
        simp only [hx, hy, optS, ORel, bindOut] at h1 ⊢ <;> try exact h1.elim
      cases hxs : transformSeq ign p xs <;> cases hys : transformSeq ign p ys <;>
        simp only [hxs, hys, optS, ORel, bindOut] at h2 ⊢ <;> try exact h2.elim
      exact Eqv.seqCons h1 h2
    · rw [if_neg hfm, if_neg hfm]
      exact cong_leaf _ ign _ _ (Eqv.seqCons hxy hrest) (WF.seqCons wx wxs) (WF.seqCons wy wys)
  | @map a b hnone hval ih =>
    intro w1 w2 p hp
    have wa := WF.map_iff.mp w1
    have wb := WF.map_iff.mp w2
    simp only [transform]
    by_cases hr : recursesOnMap (TPath.firstMatch CV.Gen.transformers p) = true
    · rw [if_pos hr, if_pos hr, postMap_noExt hp.here]
      have hk := travOpt_meqv (fun k e => optS (transform ign (TPath.nextK p k) e))
        (fun k e => optS (transform ign (TPath.nextK p k) e)) ⟨hnone, hval⟩ wa wb
        (fun k x y hx hy => ih k x y hx hy (wa.2 k x hx) (wb.2 k y hy) (TPath.nextK p k) (hp.next k))
      rw [← transformKVs_trav, ← transformKVs_trav] at hk
      cases h1 : transformKVs ign p a <;> cases h2 : transformKVs ign p b <;>
        simp only [h1, h2, optS, ORel, bindOut] at hk ⊢ <;> first | exact Eqv.map_iff.mpr hk | exact hk.elim | trivial
    · rw [if_neg hr, if_neg hr]
      exact cong_leaf _ ign _ _ (Eqv.map hnone hval) w1 w2

/-- **`transform.Canonical` below `services` as a whole tree walk** -/
theorem transform_eqv (ign : Bool) (p : TPath) (hp : NoExt p) {v w : Val} (h : Eqv v w) (wv : WF v) (ww : WF w) :
    ORel Eqv (optS (transform ign p v)) (optS (transform ign p w)) := transform_eqv_aux ign h wv ww p hp

/-! #### building `WF` facts for literal trees -/

theorem wf_map_nil : WF (.map []) := WF.map_iff.mpr MWF.nil

theorem wf_map_cons {k : String} {v : Val} {r : KVs} (hv : WF v) (hk : k ∉ keys r) (hr : WF (.map r)) :
    WF (.map ((k, v) :: r)) := by
  obtain ⟨hn, hall⟩ := WF.map_iff.mp hr
  refine WF.map_iff.mpr ⟨?_, ?_⟩
  · simp only [keys, List.map_cons, List.nodup_cons] at hk ⊢
    exact ⟨hk, hn⟩
  · intro k' x hx
    by_cases e : k' = k
    · subst e; rw [lookup_cons_self] at hx; cases hx; exact hv
    · rw [lookup_cons_ne e] at hx; exact hall k' x hx

end CV.Det.Stage
