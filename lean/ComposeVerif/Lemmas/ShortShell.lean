import ComposeVerif.Spec.ShortShell
/-! lemmas for `Props/C03Shell.lean`: the loop of `shellwords.Parse` on the segments of the shell-words grammar -/
namespace CV.Short
open CV CV.Short.Spec

/-- the state outside every quote -/
abbrev shN (a : List Str) (b : Str) (g : Got) : Sh := { args := a, buf := b, got := g }

theorem ordinary_spec {c : Char} (h : ordinary c = true) :
    shIsSpace c = false ∧ c ≠ '\\' ∧ c ≠ '`' ∧ c ≠ ')' ∧ c ≠ '(' ∧ c ≠ '"' ∧ c ≠ '\'' ∧ shIsOp c = false := by
  simp only [ordinary, Bool.and_eq_true, Bool.not_eq_true', decide_eq_true_eq, and_assoc] at h
  exact h

theorem shStep_ordinary (s : Sh) (c : Char) (he : s.esc = false) (h : ordinary c = true) :
    shStep s c = .cont (s.push c) := by
  obtain ⟨h1, h2, h3, h4, h5, h6, h7, h8⟩ := ordinary_spec h
  simp [shStep, he, h1, h2, h3, h4, h5, h6, h7, h8]

theorem shLoop_plain (rest : Str) : ∀ (p : Str) (a : List Str) (b : Str) (g : Got), p ≠ [] → p.all ordinary = true →
    shLoop (shN a b g) (p ++ rest) = shLoop (shN a (b ++ p) .single) rest
  | [], _, _, _, h, _ => absurd rfl h
  | [c], a, b, g, _, ho => by
    simp only [List.all_cons, List.all_nil, Bool.and_true] at ho
    have hs : shStep (shN a b g) c = .cont ((shN a b g).push c) := shStep_ordinary _ c rfl ho
    simp only [List.cons_append, List.nil_append, shLoop, hs, Sh.push]
  | c :: d :: p, a, b, g, _, ho => by
    simp only [List.all_cons, Bool.and_eq_true] at ho
    have ih := shLoop_plain rest (d :: p) a (b ++ [c]) .single (by simp) (by simp [ho.2])
    have hs : shStep (shN a b g) c = .cont ((shN a b g).push c) := shStep_ordinary _ c rfl ho.1
    rw [List.cons_append, shLoop, hs]
    simp only [Sh.push]
    rw [ih]
    simp

theorem shLoop_esc (rest : Str) (c : Char) (a : List Str) (b : Str) (g : Got) :
    shLoop (shN a b g) ('\\' :: c :: rest) = shLoop (shN a (b ++ [c]) .single) rest := by
  simp [shLoop, shStep]

/-- inside single quotes every character but `'` is appended -/
theorem shStep_sq (a : List Str) (b : Str) (g : Got) (c : Char) (h : c ≠ '\'') :
    ∃ g', shStep { args := a, buf := b, got := g, sq := true } c = .cont { args := a, buf := b ++ [c], got := g', sq := true } := by
  unfold shStep
  simp only [Bool.false_eq_true, if_false]
  by_cases h1 : c = '\\'
  · exact ⟨g, by simp [h1]⟩
  by_cases h2 : shIsSpace c = true
  · exact ⟨g, by simp [h1, h2]⟩
  · refine ⟨.single, ?_⟩
    simp [h1, h2, h, Sh.push]
    repeat' split
    all_goals first | rfl | simp_all

theorem shLoop_sq (rest : Str) : ∀ (t : Str) (a : List Str) (b : Str) (g : Got), t.all (· ≠ '\'') = true →
    shLoop { args := a, buf := b, got := g, sq := true } (t ++ '\'' :: rest) = shLoop (shN a (b ++ t) .quoted) rest
  | [], a, b, g, _ => by
    have : shIsSpace '\'' = false := by decide
    simp [shLoop, shStep, this]
  | c :: t, a, b, g, h => by
    simp only [List.all_cons, Bool.and_eq_true, decide_eq_true_eq] at h
    obtain ⟨g', hs⟩ := shStep_sq a b g c h.1
    have ih := shLoop_sq rest t a (b ++ [c]) g' (by simpa using h.2)
    simp only [List.cons_append, shLoop, hs]
    simpa using ih

/-- inside double quotes every character but `"` and `\` is appended -/
theorem shStep_dq (a : List Str) (b : Str) (g : Got) (c : Char) (h : c ≠ '"') (hb : c ≠ '\\') :
    ∃ g', shStep { args := a, buf := b, got := g, dq := true } c = .cont { args := a, buf := b ++ [c], got := g', dq := true } := by
  unfold shStep
  simp only [Bool.false_eq_true, if_false]
  by_cases h2 : shIsSpace c = true
  · exact ⟨g, by simp [hb, h2]⟩
  · refine ⟨.single, ?_⟩
    simp [hb, h2, h, Sh.push]
    repeat' split
    all_goals first | rfl | simp_all

theorem dqWf_cons {c : Char} {r : Str} (hc : c ≠ '\\') : dqWf (c :: r) = (decide (c ≠ '\\') && decide (c ≠ '"') && dqWf r) := by
  rw [dqWf]
  intro c' r' h
  exact fun _ => hc h

theorem dqValue_cons {c : Char} {r : Str} (hc : c ≠ '\\') : dqValue (c :: r) = c :: dqValue r := by
  rw [dqValue]
  intro c' r' h
  exact fun _ => hc h

/-- the text between double quotes: escapes and plain characters, then the closing quote -/
theorem shLoop_dq (rest : Str) : ∀ (n : Nat) (t : Str), t.length ≤ n → ∀ (a : List Str) (b : Str) (g : Got), dqWf t = true →
    shLoop { args := a, buf := b, got := g, dq := true } (t ++ '"' :: rest) = shLoop (shN a (b ++ dqValue t) .quoted) rest
  | _, [], _, a, b, g, _ => by
    have : shIsSpace '"' = false := by decide
    simp [shLoop, shStep, this, dqValue]
  | 0, _ :: _, hl, _, _, _, _ => by simp at hl
  | n + 1, c :: r, hl, a, b, g, h => by
    by_cases hc : c = '\\'
    · subst hc
      cases r with
      | nil => simp [dqWf] at h
      | cons d r' =>
        have h' : dqWf r' = true := by simpa [dqWf] using h
        have ih := shLoop_dq rest n r' (by simp at hl; omega) a (b ++ [d]) .single h'
        have s1 : shStep { args := a, buf := b, got := g, dq := true } '\\' = .cont { args := a, buf := b, got := g, dq := true, esc := true } := by
          simp [shStep]
        have s2 : shStep { args := a, buf := b, got := g, dq := true, esc := true } d = .cont { args := a, buf := b ++ [d], got := .single, dq := true } := by
          simp [shStep]
        simp only [List.cons_append, shLoop, s1, s2, ih, dqValue]
        simp
    · rw [dqWf_cons hc] at h
      simp only [Bool.and_eq_true, decide_eq_true_eq] at h
      obtain ⟨g', hs⟩ := shStep_dq a b g c h.1.2 hc
      have ih := shLoop_dq rest n r (by simp at hl; omega) a (b ++ [c]) g' h.2
      simp only [List.cons_append, shLoop, hs, ih, dqValue_cons hc]
      simp

/-- one well-formed segment outside quotes: its value is appended to the buffer and an argument is under way -/
theorem shLoop_seg (rest : Str) (sg : ShSeg) (h : sg.wf = true) (a : List Str) (b : Str) (g : Got) :
    ∃ g', g' ≠ Got.no ∧ shLoop (shN a b g) (sg.render ++ rest) = shLoop (shN a (b ++ sg.value) g') rest := by
  cases sg with
  | plain p =>
    simp only [ShSeg.wf, Bool.and_eq_true, decide_eq_true_eq] at h
    exact ⟨.single, by decide, shLoop_plain rest p a b g h.1 h.2⟩
  | esc c => exact ⟨.single, by decide, shLoop_esc rest c a b g⟩
  | sq t =>
    refine ⟨.quoted, by decide, ?_⟩
    have h0 : shStep (shN a b g) '\'' = .cont { args := a, buf := b, got := g, sq := true } := by
      have : shIsSpace '\'' = false := by decide
      simp [shStep, this]
    simp only [ShSeg.render, ShSeg.value, List.cons_append, List.append_assoc, shLoop, h0]
    exact shLoop_sq rest t a b g h
  | dq t =>
    refine ⟨.quoted, by decide, ?_⟩
    have h0 : shStep (shN a b g) '"' = .cont { args := a, buf := b, got := g, dq := true } := by
      have : shIsSpace '"' = false := by decide
      simp [shStep, this]
    simp only [ShSeg.render, ShSeg.value, List.cons_append, List.append_assoc, shLoop, h0]
    exact shLoop_dq rest t.length t (Nat.le_refl _) a b g h

theorem shLoop_segs (rest : Str) : ∀ (segs : List ShSeg), segs.all ShSeg.wf = true → ∀ (a : List Str) (b : Str) (g : Got),
    (segs ≠ [] ∨ g ≠ Got.no) →
    ∃ g', g' ≠ Got.no ∧ shLoop (shN a b g) ((segs.map ShSeg.render).flatten ++ rest) = shLoop (shN a (b ++ (segs.map ShSeg.value).flatten) g') rest
  | [], _, a, b, g, hg => ⟨g, by simpa using hg, by simp⟩
  | sg :: r, h, a, b, g, _ => by
    simp only [List.all_cons, Bool.and_eq_true] at h
    obtain ⟨g1, hg1, e1⟩ := shLoop_seg ((r.map ShSeg.render).flatten ++ rest) sg h.1 a b g
    obtain ⟨g2, hg2, e2⟩ := shLoop_segs rest r h.2 a (b ++ sg.value) g1 (Or.inr hg1)
    exact ⟨g2, hg2, by simp only [List.map_cons, List.flatten_cons, List.append_assoc] at e1 e2 ⊢; rw [e1, e2]⟩

/-- blanks between arguments: the first one closes the argument under way, the others do nothing -/
theorem shLoop_blanks_idle (rest : Str) : ∀ (sep : Str) (a : List Str), blanks sep = true →
    shLoop (shN a [] .no) (sep ++ rest) = shLoop (shN a [] .no) rest
  | [], _, _ => rfl
  | c :: r, a, h => by
    simp only [blanks, List.all_cons, Bool.and_eq_true] at h
    have hb : c ≠ '\\' := by intro e; rw [e] at h; exact absurd h.1 (by decide)
    have hs : shStep (shN a [] .no) c = .cont (shN a [] .no) := by simp [shStep, hb, h.1]
    simp only [List.cons_append, shLoop, hs]
    exact shLoop_blanks_idle rest r a h.2

theorem shLoop_blanks_flush (rest : Str) (sep : Str) (a : List Str) (b : Str) (g : Got) (hb : blanks sep = true)
    (hne : sep ≠ []) (hg : g ≠ Got.no) :
    shLoop (shN a b g) (sep ++ rest) = shLoop (shN (a ++ [b]) [] .no) rest := by
  cases sep with
  | nil => exact absurd rfl hne
  | cons c r =>
    simp only [blanks, List.all_cons, Bool.and_eq_true] at hb
    have hc : c ≠ '\\' := by intro e; rw [e] at hb; exact absurd hb.1 (by decide)
    have hs : shStep (shN a b g) c = .cont (shN (a ++ [b]) [] .no) := by simp [shStep, hc, hb.1, hg]
    simp only [List.cons_append, shLoop, hs]
    exact shLoop_blanks_idle rest r _ hb.2

/-- the words after the first one -/
theorem shell_words_tail (trail : Str) (ht : blanks trail = true) : ∀ (ws : List ShWord), wordsWf false ws = true →
    ∀ (a : List Str) (b : Str) (g : Got), g ≠ Got.no →
    (shLoop (shN a b g) ((ws.map ShWord.render).flatten ++ trail)).bind shFinish = some (a ++ [b] ++ ws.map ShWord.value)
  | [], _, a, b, g, hg => by
    cases trail with
    | nil => simp [shLoop, shFinish, hg]
    | cons c r =>
      have := shLoop_blanks_flush [] (c :: r) a b g ht (by simp) hg
      simp only [List.append_nil] at this
      simp [this, shLoop, shFinish]
  | w :: r, h, a, b, g, hg => by
    simp only [wordsWf, Bool.false_or, Bool.and_eq_true, decide_eq_true_eq] at h
    obtain ⟨⟨⟨⟨hsep, hne⟩, hsegs⟩, hwf⟩, hr⟩ := h
    have e1 := shLoop_blanks_flush (w.body ++ ((r.map ShWord.render).flatten ++ trail)) w.sep a b g hsep hne hg
    obtain ⟨g', hg', e2⟩ := shLoop_segs ((r.map ShWord.render).flatten ++ trail) w.segs hwf (a ++ [b]) [] .no (Or.inl hsegs)
    have ih := shell_words_tail trail ht r hr (a ++ [b]) w.value g' hg'
    simp only [List.map_cons, List.flatten_cons, ShWord.render, List.append_assoc, ShWord.body, ShWord.value, List.nil_append] at e1 e2 ih ⊢
    rw [e1, e2, ih]
    simp

end CV.Short
